(* Proofs/Power.v — lemmas about Model/Power.v (power method).
   Part 1: any [Num] instance (shapes, totality, iteration budget, link between
   the loop and the trace [pm_state]).  Part 2: the R instance (values). *)
From Coq Require Import ZArith NArith List Bool Arith Reals Lra Lia Psatz.
From SV Require Import Base.Num Base.Outcome Base.Mat Model.Power.
Import ListNotations.

(* ======================= Part 1: every instance =========================== *)
Section Generic.
  Context {T : Type} {NT : Num T}.

  (* well-formed array of a given shape: the Arr2D invariant *)
  Definition shaped (h w : nat) (a : arr T) : Prop :=
    ah a = h /\ aw a = w /\ length (ad a) = h * w.

  (* rectangular nested list: h rows of length w *)
  Definition rect (h w : nat) (rows : list (list T)) : Prop :=
    length rows = h /\ forall r, In r rows -> length r = w.

  Lemma nth_nil_d {A} (k : nat) (d : A) : nth k [] d = d.
  Proof. destruct k; reflexivity. Qed.

  Lemma length_concat_uniform {A} (rows : list (list A)) w :
    (forall r, In r rows -> length r = w) -> length (concat rows) = length rows * w.
  Proof.
    induction rows as [|r rows IH]; intro H; [reflexivity|].
    cbn [concat length]. rewrite app_length, IH, (H r (or_introl eq_refl)).
    - rewrite Nat.mul_succ_l. lia.
    - intros r' Hr'. apply H. right. exact Hr'.
  Qed.

  Lemma nth_concat_uniform {A} (rows : list (list A)) w i j (d : A) :
    (forall r, In r rows -> length r = w) -> j < w ->
    nth (i * w + j) (concat rows) d = nth j (nth i rows []) d.
  Proof.
    revert i. induction rows as [|r rows IH]; intros i H Hj.
    - cbn [concat]. rewrite !nth_nil_d. reflexivity.
    - pose proof (H r (or_introl eq_refl)) as Hr.
      destruct i as [|i].
      + cbn [concat nth]. rewrite Nat.mul_0_l, Nat.add_0_l.
        apply app_nth1. lia.
      + cbn [concat nth]. rewrite app_nth2 by (rewrite Hr, Nat.mul_succ_l; lia).
        rewrite Hr. replace (S i * w + j - w) with (i * w + j) by (rewrite Nat.mul_succ_l; lia).
        apply IH; [|exact Hj]. intros r' Hr'. apply H. right. exact Hr'.
  Qed.

  Lemma tab_rows_length h w (f : nat -> nat -> T) r :
    In r (map (fun i => map (fun j => f i j) (seq 0 w)) (seq 0 h)) -> length r = w.
  Proof.
    intro H. apply in_map_iff in H. destruct H as [i [<- _]].
    rewrite map_length, seq_length. reflexivity.
  Qed.

  Lemma tabulate_shaped h w f : shaped h w (tabulate h w f).
  Proof.
    unfold shaped, tabulate. cbn [ah aw ad]. repeat split.
    rewrite (length_concat_uniform _ w) by apply tab_rows_length.
    rewrite map_length, seq_length. reflexivity.
  Qed.

  Lemma aget_tabulate h w f i j : i < h -> j < w -> aget (tabulate h w f) i j = f i j.
  Proof.
    intros Hi Hj. unfold aget, tabulate. cbn [ah aw ad].
    rewrite (nth_concat_uniform _ w) by (try apply tab_rows_length; exact Hj).
    rewrite (nth_seq_map (fun i => map (fun j => f i j) (seq 0 w)) h i []) by exact Hi.
    apply nth_seq_map. exact Hj.
  Qed.

  Lemma in_tabulate h w (f : nat -> nat -> T) (z : T) :
    In z (ad (tabulate h w f)) <-> exists i j, i < h /\ j < w /\ z = f i j.
  Proof.
    unfold tabulate. cbn [ad]. split.
    - intro H. apply in_concat in H. destruct H as [l [Hl Hz]].
      apply in_map_iff in Hl. destruct Hl as [i [<- Hi]].
      apply in_map_iff in Hz. destruct Hz as [j [<- Hj]].
      apply in_seq in Hi. apply in_seq in Hj. exists i, j. repeat split; lia.
    - intros [i [j [Hi [Hj ->]]]]. apply in_concat.
      exists (map (fun j => f i j) (seq 0 w)). split.
      + apply in_map_iff. exists i. split; [reflexivity|]. apply in_seq. lia.
      + apply in_map_iff. exists j. split; [reflexivity|]. apply in_seq. lia.
  Qed.

  Lemma aget_in h w (a : arr T) i j : shaped h w a -> i < h -> j < w -> In (aget a i j) (ad a).
  Proof.
    intros [Hh [Hw Hl]] Hi Hj. unfold aget. apply nth_In. rewrite Hl, Hw. nia.
  Qed.

  Lemma in_aget_col n (a : arr T) z : shaped n 1 a -> In z (ad a) -> exists i, i < n /\ z = aget a i 0.
  Proof.
    intros [Hh [Hw Hl]] Hz. destruct (In_nth _ _ n0 Hz) as [k [Hk <-]].
    exists k. split; [lia|]. unfold aget. rewrite Hw. f_equal. lia.
  Qed.

  Lemma afull_shaped v h w : shaped h w (afull v h w).
  Proof. unfold shaped, afull. cbn [ah aw ad]. repeat split. apply repeat_length. Qed.

  Lemma aget_afull v h w i j : aget (afull v h w) i j = v \/ aget (afull v h w) i j = n0.
  Proof.
    unfold aget, afull. cbn [aw ad].
    destruct (Nat.lt_ge_cases (i * w + j) (length (repeat v (h * w)))) as [H|H].
    - left. apply (repeat_spec (h * w) v). apply nth_In. exact H.
    - right. apply nth_overflow. exact H.
  Qed.

  Lemma aget_afull_in v h w i j : i < h -> j < w -> aget (afull v h w) i j = v.
  Proof.
    intros Hi Hj. unfold aget, afull. cbn [aw ad].
    apply (repeat_spec (h * w) v). apply nth_In. rewrite repeat_length. nia.
  Qed.

  Lemma adivs_shaped h w a s : ah a = h -> aw a = w -> shaped h w (adivs a s).
  Proof. intros <- <-. apply tabulate_shaped. Qed.

  Lemma atranspose_shaped h w a : ah a = h -> aw a = w -> shaped w h (atranspose a).
  Proof. intros <- <-. apply tabulate_shaped. Qed.

  Lemma aget_atranspose h w a i j : ah a = h -> aw a = w -> i < w -> j < h ->
    aget (atranspose a) i j = aget a j i.
  Proof. intros <- <- Hi Hj. unfold atranspose. rewrite aget_tabulate by assumption. reflexivity. Qed.

  (* ---- dot ---------------------------------------------------------------- *)
  Lemma adot_cases (a b : arr T) :
    adot a b =
    if is1x1 a then Ok (tabulate (ah b) (aw b) (fun i j => nmul (aget a 0 0) (aget b i j)))
    else if is1x1 b then Ok (tabulate (ah a) (aw a) (fun i j => nmul (aget b 0 0) (aget a i j)))
    else if aw a =? ah b then
      Ok (tabulate (ah a) (aw b)
            (fun i j => sum_range n0 0 (aw a) (fun k => nmul (aget a i k) (aget b k j))))
    else Err EInvalidDotShape.
  Proof.
    unfold adot. destruct (is1x1 a); [reflexivity|].
    destruct (is1x1 b); [reflexivity|]. cbn [orb fst snd].
    destruct (aw a =? ah b); reflexivity.
  Qed.

  Lemma is1x1_true (a : arr T) : is1x1 a = true <-> ah a = 1 /\ aw a = 1.
  Proof. unfold is1x1. rewrite andb_true_iff, !Nat.eqb_eq. tauto. Qed.
  Lemma is1x1_false (a : arr T) : is1x1 a = false <-> ~ (ah a = 1 /\ aw a = 1).
  Proof.
    rewrite <- is1x1_true.
    destruct (is1x1 a); split; intro H; try reflexivity; try discriminate; exfalso; apply H; reflexivity.
  Qed.

  (* value of an entry of the product, as the code computes it *)
  Definition mv_entry (n : nat) (A x : arr T) (i : nat) : T :=
    if n =? 1 then nmul (aget A 0 0) (aget x 0 0)
    else sum_range n0 0 n (fun k => nmul (aget A i k) (aget x k 0)).
  Definition rc_entry (n : nat) (a b : arr T) : T :=
    if n =? 1 then nmul (aget a 0 0) (aget b 0 0)
    else sum_range n0 0 n (fun k => nmul (aget a 0 k) (aget b k 0)).

  (* (n x n) * (n x 1) *)
  Lemma amul_mat_vec n A x : 1 <= n -> ah A = n -> aw A = n -> shaped n 1 x ->
    shaped n 1 (amul A x) /\ forall i, i < n -> aget (amul A x) i 0 = mv_entry n A x i.
  Proof.
    intros Hn HA1 HA2 [Hx1 [Hx2 Hx3]]. unfold amul, mv_entry. rewrite adot_cases.
    destruct (is1x1 A) eqn:EA.
    - apply is1x1_true in EA. assert (N1 : n = 1) by lia.
      assert (E1 : (n =? 1) = true) by (apply Nat.eqb_eq; exact N1). rewrite E1.
      rewrite Hx1, Hx2. split; [apply tabulate_shaped|].
      intros i Hi. rewrite aget_tabulate by lia. assert (I0 : i = 0) by lia. rewrite I0. reflexivity.
    - apply is1x1_false in EA.
      destruct (is1x1 x) eqn:EX.
      + apply is1x1_true in EX. exfalso. apply EA. lia.
      + assert (n <> 1) by (intro; apply EA; lia).
        rewrite HA2, Hx1, Nat.eqb_refl, HA1, Hx2. split; [apply tabulate_shaped|].
        intros i Hi. rewrite aget_tabulate by lia.
        destruct (n =? 1) eqn:E1; [apply Nat.eqb_eq in E1; lia|reflexivity].
  Qed.

  (* (1 x n) * (n x 1) *)
  Lemma amul_row_col n a b : 1 <= n -> shaped 1 n a -> shaped n 1 b ->
    shaped 1 1 (amul a b) /\ aget (amul a b) 0 0 = rc_entry n a b.
  Proof.
    intros Hn [Ha1 [Ha2 Ha3]] [Hb1 [Hb2 Hb3]]. unfold amul, rc_entry. rewrite adot_cases.
    destruct (is1x1 a) eqn:EA.
    - apply is1x1_true in EA. assert (N1 : n = 1) by lia.
      assert (E1 : (n =? 1) = true) by (apply Nat.eqb_eq; exact N1). rewrite E1.
      rewrite Hb1, Hb2. split; [rewrite N1; apply tabulate_shaped|].
      rewrite aget_tabulate by lia. reflexivity.
    - apply is1x1_false in EA. assert (n <> 1) by (intro; apply EA; lia).
      destruct (is1x1 b) eqn:EB.
      + apply is1x1_true in EB. lia.
      + rewrite Ha2, Hb1, Nat.eqb_refl, Ha1, Hb2. split; [apply tabulate_shaped|].
        rewrite aget_tabulate by lia.
        destruct (n =? 1) eqn:E1; [apply Nat.eqb_eq in E1; lia|reflexivity].
  Qed.

  Lemma as_scalar_ok (a : arr T) : shaped 1 1 a -> as_scalar_unchecked a = Ok (aget a 0 0).
  Proof.
    intros [H1 [H2 H3]]. unfold as_scalar_unchecked, aget.
    destruct (ad a) as [|x l]; [discriminate H3|]. rewrite H2. reflexivity.
  Qed.

  (* ---- max / min / scaling_component never fail on a non-empty column ----- *)
  Lemma amax_ok n (a : arr T) : 1 <= n -> shaped n 1 a ->
    exists x l, ad a = x :: l /\ amax a = Ok (Some (reduce_max x l)) /\ amin a = Ok (Some (reduce_min x l)).
  Proof.
    intros Hn [H1 [H2 H3]]. unfold amax, amin, is_empty. rewrite H1, H2.
    destruct n as [|n]; [lia|]. cbn [Nat.eqb orb].
    destruct (ad a) as [|x l]; [cbn in H3; lia|]. exists x, l. repeat split.
  Qed.

  Definition scale_of (a : arr T) : T :=
    match ad a with
    | [] => n0
    | x :: l => if ngtb (reduce_max x l) n0 then reduce_max x l else reduce_min x l
    end.

  Lemma scaling_component_ok n (a : arr T) : 1 <= n -> shaped n 1 a ->
    scaling_component a = Ok (scale_of a).
  Proof.
    intros Hn Ha. destruct (amax_ok n a Hn Ha) as [x [l [E [Hmax Hmin]]]].
    unfold scaling_component, scale_of. rewrite Hmax, Hmin, E. cbn [unwrap bind].
    destruct (ngtb (reduce_max x l) n0); reflexivity.
  Qed.

  (* ---- one loop body and the initialisation are total ---------------------- *)
  Definition step_vec (A x : arr T) : arr T := adivs (amul A x) (scale_of (amul A x)).
  Definition rayleigh_of (n : nat) (A v : arr T) : T :=
    ndiv (rc_entry n (atranspose v) (amul A v)) (rc_entry n (atranspose v) v).

  Lemma rayleigh_quotient_eq n A v : 1 <= n -> ah A = n -> aw A = n -> shaped n 1 v ->
    rayleigh_quotient A v = Ok (rayleigh_of n A v).
  Proof.
    intros Hn HA1 HA2 Hv. unfold rayleigh_quotient, rayleigh_of.
    assert (Ht : shaped 1 n (atranspose v)).
    { destruct Hv as [H1 [H2 _]]. apply atranspose_shaped; assumption. }
    destruct (amul_mat_vec n A v Hn HA1 HA2 Hv) as [Hz _].
    destruct (amul_row_col n _ _ Hn Ht Hz) as [Hnum Hnumv].
    destruct (amul_row_col n _ _ Hn Ht Hv) as [Hden Hdenv].
    rewrite (as_scalar_ok _ Hnum), (as_scalar_ok _ Hden). cbn [bind].
    rewrite Hnumv, Hdenv. reflexivity.
  Qed.

  Lemma pm_step_eq n A ev x : 1 <= n -> ah A = n -> aw A = n -> shaped n 1 x ->
    let nx := step_vec A x in
    let next := rayleigh_of n A nx in
    pm_step A ev x = Ok (next, nx, nabs (ndiv (nsub next ev) next)) /\ shaped n 1 nx.
  Proof.
    intros Hn HA1 HA2 Hx. cbv zeta.
    destruct (amul_mat_vec n A x Hn HA1 HA2 Hx) as [Hy _].
    assert (Hnx : shaped n 1 (step_vec A x)).
    { unfold step_vec. destruct Hy as [Hy1 [Hy2 _]]. apply adivs_shaped; assumption. }
    split; [|exact Hnx].
    unfold pm_step. rewrite (scaling_component_ok n _ Hn Hy). cbn [bind].
    fold (step_vec A x). rewrite (rayleigh_quotient_eq n A _ Hn HA1 HA2 Hnx). reflexivity.
  Qed.

  (* the first normalised vector: A * ones divided by its scaling component *)
  Definition init_vec (n : nat) (A : arr T) : arr T := step_vec A (afull n1 n 1).

  Lemma pm_init_eq n A : 1 <= n -> ah A = n -> aw A = n ->
    let x0 := init_vec n A in
    pm_init A = Ok (rayleigh_of n A x0, x0) /\ shaped n 1 x0.
  Proof.
    intros Hn HA1 HA2. cbv zeta.
    destruct (amul_mat_vec n A (afull n1 n 1) Hn HA1 HA2 (afull_shaped n1 n 1)) as [Hy _].
    assert (Hx0 : shaped n 1 (init_vec n A)).
    { unfold init_vec, step_vec. destruct Hy as [H1 [H2 _]]. apply adivs_shaped; assumption. }
    split; [|exact Hx0].
    unfold pm_init. rewrite HA1, (scaling_component_ok n _ Hn Hy). cbn [bind].
    fold (step_vec A (afull n1 n 1)). fold (init_vec n A).
    rewrite (rayleigh_quotient_eq n A _ Hn HA1 HA2 Hx0). reflexivity.
  Qed.

  (* ---- the loop ------------------------------------------------------------ *)
  Lemma pm_loop_total n A es : 1 <= n -> ah A = n -> aw A = n ->
    forall fuel ev x it, shaped n 1 x -> (it < MAX_ITERATIONS)%N ->
    N.to_nat MAX_ITERATIONS <= fuel + N.to_nat it ->
    (exists lam v k, pm_loop fuel A es ev x it = Ok (lam, v, k) /\ shaped n 1 v /\ (k < MAX_ITERATIONS)%N)
    \/ pm_loop fuel A es ev x it = Err ENoConvergence.
  Proof.
    intros Hn HA1 HA2. induction fuel as [|fuel IH]; intros ev x it Hx Hit Hf.
    - exfalso. lia.
    - cbn [pm_loop]. destruct (pm_step_eq n A ev x Hn HA1 HA2 Hx) as [E Hnx]. rewrite E.
      destruct (nltb _ es).
      + left. eexists _, _, _. split; [reflexivity|]. split; assumption.
      + destruct (N.leb_spec MAX_ITERATIONS (N.succ it)) as [Hle|Hlt]; [right; reflexivity|].
        apply IH; [exact Hnx|exact Hlt|lia].
  Qed.

  Lemma pm_loop_fuel_indep n A es : 1 <= n -> ah A = n -> aw A = n ->
    forall f1 f2 ev x it, shaped n 1 x -> (it < MAX_ITERATIONS)%N ->
    N.to_nat MAX_ITERATIONS <= f1 + N.to_nat it -> N.to_nat MAX_ITERATIONS <= f2 + N.to_nat it ->
    pm_loop f1 A es ev x it = pm_loop f2 A es ev x it.
  Proof.
    intros Hn HA1 HA2. induction f1 as [|f1 IH]; intros f2 ev x it Hx Hit H1 H2.
    - exfalso. lia.
    - destruct f2 as [|f2]; [exfalso; lia|].
      cbn [pm_loop]. destruct (pm_step_eq n A ev x Hn HA1 HA2 Hx) as [E Hnx]. rewrite E.
      destruct (nltb _ es); [reflexivity|].
      destruct (N.leb_spec MAX_ITERATIONS (N.succ it)) as [Hle|Hlt]; [reflexivity|].
      apply IH; [exact Hnx|exact Hlt|lia|lia].
  Qed.

  (* an Ok answer of the loop is the last state of the trace; the exit test held *)
  Lemma pm_loop_trace A es : forall fuel ev x it k0 lam v k,
    pm_loop fuel A es ev x it = Ok (lam, v, k) -> pm_state A k0 = Ok (ev, x) ->
    exists j prev xp ea, k = (it + N.of_nat j)%N /\ pm_state A (k0 + j) = Ok (prev, xp) /\
      pm_step A prev xp = Ok (lam, v, ea) /\ nltb ea es = true.
  Proof.
    induction fuel as [|fuel IH]; intros ev x it k0 lam v k H Hs; [discriminate H|].
    cbn [pm_loop] in H.
    destruct (pm_step A ev x) as [[[next nx] ea]|e|w] eqn:E; try discriminate H.
    destruct (nltb ea es) eqn:Eea.
    - injection H as <- <- <-. exists 0, ev, x, ea. rewrite Nat.add_0_r. repeat split; try assumption.
      cbn [N.of_nat]. lia.
    - destruct (MAX_ITERATIONS <=? N.succ it)%N; [discriminate H|].
      assert (Hs' : pm_state A (S k0) = Ok (next, nx)).
      { cbn [pm_state]. rewrite Hs. cbn [bind fst snd]. rewrite E. reflexivity. }
      destruct (IH _ _ _ _ _ _ _ H Hs') as [j [prev [xp [ea' [Hk [Hst [Hstep Hlt]]]]]]].
      exists (S j), prev, xp, ea'. repeat split; try assumption.
      + lia.
      + replace (k0 + S j) with (S k0 + j) by lia. exact Hst.
  Qed.

  (* ---- input conversion ----------------------------------------------------- *)
  Lemma try_from_rect h w (rows : list (list T)) : rect h w rows -> 1 <= h ->
    try_from rows = Ok (mk_arr h w (concat rows)).
  Proof.
    intros [Hl Hr] Hh. unfold try_from. destruct rows as [|r0 rows]; [cbn in Hl; lia|].
    rewrite (Hr r0 (or_introl eq_refl)).
    assert (E : forallb (fun r => length r =? w) (r0 :: rows) = true).
    { apply forallb_forall. intros r Hin. apply Nat.eqb_eq. apply Hr. exact Hin. }
    rewrite E, Hl. reflexivity.
  Qed.

  Lemma try_from_ragged (rows : list (list T)) : (forall h w, ~ rect h w rows) ->
    try_from rows = Err EInconsistentRowLengths.
  Proof.
    intro H. unfold try_from. destruct rows as [|r0 rows].
    - exfalso. apply (H 0 0). split; [reflexivity|]. intros r [].
    - destruct (forallb (fun r => length r =? length r0) (r0 :: rows)) eqn:E; [|reflexivity].
      exfalso. apply (H (length (r0 :: rows)) (length r0)). split; [reflexivity|].
      intros r Hin. apply Nat.eqb_eq. revert r Hin. apply forallb_forall. exact E.
  Qed.

  Lemma try_from_cases (rows : list (list T)) :
    (exists h w, rect h w rows) \/ (forall h w, ~ rect h w rows).
  Proof.
    destruct rows as [|r0 rows].
    - left. exists 0, 0. split; [reflexivity|]. intros r [].
    - destruct (forallb (fun r => length r =? length r0) (r0 :: rows)) eqn:E.
      + left. exists (length (r0 :: rows)), (length r0). split; [reflexivity|].
        intros r Hin. apply Nat.eqb_eq. revert r Hin. apply forallb_forall. exact E.
      + right. intros h w [Hl Hr].
        assert (E' : forallb (fun r => length r =? length r0) (r0 :: rows) = true).
        { apply forallb_forall. intros r Hin. apply Nat.eqb_eq.
          rewrite (Hr r Hin), (Hr r0 (or_introl eq_refl)). reflexivity. }
        congruence.
  Qed.

  (* ---- the whole function ---------------------------------------------------- *)
  Lemma pmf_square n (rows : list (list T)) es fuel : 1 <= n -> rect n n rows ->
    let A := mk_arr n n (concat rows) in
    let x0 := init_vec n A in
    power_method_fuel fuel rows es = pm_loop fuel A es (rayleigh_of n A x0) x0 0%N
    /\ pm_state A 0 = Ok (rayleigh_of n A x0, x0) /\ shaped n 1 x0.
  Proof.
    intros Hn Hr. cbv zeta. unfold power_method_fuel. rewrite (try_from_rect n n rows Hr Hn).
    cbn [bind ah aw]. rewrite Nat.eqb_refl. cbn [negb orb].
    destruct (n =? 0) eqn:E0; [apply Nat.eqb_eq in E0; lia|]. cbn [orb].
    destruct (pm_init_eq n (mk_arr n n (concat rows)) Hn eq_refl eq_refl) as [Ei Hs].
    split; [rewrite Ei; reflexivity|split; [exact Ei|exact Hs]].
  Qed.

  Lemma pmf_nonsquare h w (rows : list (list T)) es fuel : rect h w rows -> h <> w \/ h = 0 ->
    power_method_fuel fuel rows es = Err ENonSquareMatrix.
  Proof.
    intros Hr Hc. unfold power_method_fuel.
    destruct (Nat.eq_dec h 0) as [-> | Hh].
    - destruct Hr as [Hl _]. destruct rows; [|discriminate Hl]. reflexivity.
    - rewrite (try_from_rect h w rows Hr) by lia. cbn [bind ah aw].
      destruct (h =? w) eqn:E; [apply Nat.eqb_eq in E; lia|]. reflexivity.
  Qed.

  Lemma pmf_ragged (rows : list (list T)) es fuel : (forall h w, ~ rect h w rows) ->
    power_method_fuel fuel rows es = Err EInconsistentRowLengths.
  Proof. intro H. unfold power_method_fuel. rewrite (try_from_ragged rows H). reflexivity. Qed.

  Lemma N0_lt_MAX : (0 < MAX_ITERATIONS)%N.
  Proof. reflexivity. Qed.

  Lemma c13_total_gen (rows : list (list T)) (es : T) :
    no_panic (power_method rows es) /\
    (forall fuel, N.to_nat MAX_ITERATIONS <= fuel ->
       power_method_fuel fuel rows es = power_method_fuel (N.to_nat MAX_ITERATIONS) rows es) /\
    (forall lam v k, power_method_fuel (N.to_nat MAX_ITERATIONS) rows es = Ok (lam, v, k) ->
       (k < MAX_ITERATIONS)%N) /\
    (forall n, 1 <= n -> rect n n rows ->
       (exists lam v, power_method rows es = Ok (lam, v) /\ shaped n 1 v)
       \/ power_method rows es = Err ENoConvergence) /\
    (forall h w, rect h w rows -> h <> w \/ h = 0 -> power_method rows es = Err ENonSquareMatrix) /\
    ((forall h w, ~ rect h w rows) -> power_method rows es = Err EInconsistentRowLengths).
  Proof.
    assert (Hsq : forall n, 1 <= n -> rect n n rows ->
       (exists lam v k, power_method_fuel (N.to_nat MAX_ITERATIONS) rows es = Ok (lam, v, k)
                        /\ shaped n 1 v /\ (k < MAX_ITERATIONS)%N)
       \/ power_method_fuel (N.to_nat MAX_ITERATIONS) rows es = Err ENoConvergence).
    { intros n Hn Hr. destruct (pmf_square n rows es (N.to_nat MAX_ITERATIONS) Hn Hr) as [E [_ Hs]].
      rewrite E. apply (pm_loop_total n (mk_arr n n (concat rows)) es Hn eq_refl eq_refl); [exact Hs|exact N0_lt_MAX|lia]. }
    assert (Hns : forall h w, rect h w rows -> h <> w \/ h = 0 ->
              power_method rows es = Err ENonSquareMatrix).
    { intros h w Hr Hc. unfold power_method. rewrite (pmf_nonsquare h w rows es _ Hr Hc). reflexivity. }
    assert (Hrg : (forall h w, ~ rect h w rows) -> power_method rows es = Err EInconsistentRowLengths).
    { intro H. unfold power_method. rewrite (pmf_ragged rows es _ H). reflexivity. }
    assert (Hsq' : forall n, 1 <= n -> rect n n rows ->
       (exists lam v, power_method rows es = Ok (lam, v) /\ shaped n 1 v)
       \/ power_method rows es = Err ENoConvergence).
    { intros n Hn Hr. unfold power_method.
      destruct (Hsq n Hn Hr) as [[lam [v [k [E [Hv _]]]]]|E]; rewrite E; cbn [res_map fst snd].
      - left. exists lam, v. split; [reflexivity|exact Hv].
      - right. reflexivity. }
    split; [|split; [|split; [|split; [|split]]]]; try assumption.
    - (* no panic *)
      intros wy Hp.
      destruct (try_from_cases rows) as [[h [w Hr]]|Hrag].
      + destruct (Nat.eq_dec h w) as [->|Hne].
        * destruct (Nat.eq_dec w 0) as [->|Hw0].
          -- rewrite (Hns 0 0 Hr) in Hp by (right; reflexivity). discriminate Hp.
          -- destruct (Hsq' w ltac:(lia) Hr) as [[lam [v [E _]]]|E]; rewrite E in Hp; discriminate Hp.
        * rewrite (Hns h w Hr) in Hp by (left; exact Hne). discriminate Hp.
      + rewrite (Hrg Hrag) in Hp. discriminate Hp.
    - (* fuel independence *)
      intros fuel Hf.
      destruct (try_from_cases rows) as [[h [w Hr]]|Hrag].
      + destruct (Nat.eq_dec h w) as [->|Hne].
        * destruct (Nat.eq_dec w 0) as [->|Hw0].
          -- rewrite !(pmf_nonsquare 0 0 rows es _ Hr) by (right; reflexivity). reflexivity.
          -- destruct (pmf_square w rows es fuel ltac:(lia) Hr) as [E1 [_ Hs]].
             destruct (pmf_square w rows es (N.to_nat MAX_ITERATIONS) ltac:(lia) Hr) as [E2 _].
             rewrite E1, E2.
             apply (pm_loop_fuel_indep w (mk_arr w w (concat rows)) es ltac:(lia) eq_refl eq_refl); [exact Hs|exact N0_lt_MAX|lia|lia].
        * rewrite !(pmf_nonsquare h w rows es _ Hr) by (left; exact Hne). reflexivity.
      + rewrite !(pmf_ragged rows es _ Hrag). reflexivity.
    - (* iteration count *)
      intros lam v k E.
      destruct (try_from_cases rows) as [[h [w Hr]]|Hrag].
      + destruct (Nat.eq_dec h w) as [->|Hne].
        * destruct (Nat.eq_dec w 0) as [->|Hw0].
          -- rewrite (pmf_nonsquare 0 0 rows es _ Hr) in E by (right; reflexivity). discriminate E.
          -- destruct (Hsq w ltac:(lia) Hr) as [[lam' [v' [k' [E' [_ Hk]]]]]|E']; rewrite E' in E.
             ++ injection E as _ _ <-. exact Hk.
             ++ discriminate E.
        * rewrite (pmf_nonsquare h w rows es _ Hr) in E by (left; exact Hne). discriminate E.
      + rewrite (pmf_ragged rows es _ Hrag) in E. discriminate E.
  Qed.

  (* every Ok answer is the last state of the trace, obtained by a loop body
     whose exit test succeeded *)
  Lemma pm_ok_trace (rows : list (list T)) es lam v :
    power_method rows es = Ok (lam, v) ->
    exists n A k prev xp ea,
      1 <= n /\ rect n n rows /\ A = mk_arr n n (concat rows) /\ try_from rows = Ok A /\
      (N.of_nat k < MAX_ITERATIONS)%N /\
      pm_state A k = Ok (prev, xp) /\ shaped n 1 xp /\
      pm_step A prev xp = Ok (lam, v, ea) /\ nltb ea es = true.
  Proof.
    intro H.
    destruct (c13_total_gen rows es) as [_ [_ [Hcount [_ [Hns Hrg]]]]].
    destruct (try_from_cases rows) as [[h [w Hr]]|Hrag]; [|rewrite (Hrg Hrag) in H; discriminate H].
    destruct (Nat.eq_dec h w) as [->|Hne]; [|rewrite (Hns h w Hr) in H by (left; exact Hne); discriminate H].
    destruct (Nat.eq_dec w 0) as [->|Hw0]; [rewrite (Hns 0 0 Hr) in H by (right; reflexivity); discriminate H|].
    assert (Hn : 1 <= w) by lia.
    unfold power_method in H.
    destruct (power_method_fuel (N.to_nat MAX_ITERATIONS) rows es) as [[[lam' v'] k]|e|wy] eqn:E;
      try discriminate H.
    cbn [res_map fst snd] in H. injection H as -> ->.
    pose proof (Hcount _ _ _ eq_refl) as Hk.
    destruct (pmf_square w rows es (N.to_nat MAX_ITERATIONS) Hn Hr) as [E1 [Hs0 Hsh0]].
    rewrite E1 in E.
    destruct (pm_loop_trace _ _ _ _ _ _ 0 _ _ _ E Hs0) as [j [prev [xp [ea [Hkj [Hst [Hstep Hlt]]]]]]].
    cbn [Nat.add] in Hst.
    assert (Hxp : shaped w 1 xp).
    { (* every state of the trace is n x 1 *)
      clear - Hn Hst Hsh0 Hs0.
      revert prev xp Hst. induction j as [|j IH]; intros prev xp Hst.
      + rewrite Hs0 in Hst. injection Hst as <- <-. exact Hsh0.
      + cbn [pm_state] in Hst.
        destruct (pm_state (mk_arr w w (concat rows)) j) as [[p q]|e|wy]; try discriminate Hst.
        cbn [bind fst snd] in Hst. specialize (IH p q eq_refl).
        destruct (pm_step_eq w (mk_arr w w (concat rows)) p q Hn eq_refl eq_refl IH) as [E Hsh].
        rewrite E in Hst. cbn [bind fst snd] in Hst. injection Hst as <- <-. exact Hsh. }
    exists w, (mk_arr w w (concat rows)), j, prev, xp, ea.
    split; [exact Hn|]. split; [exact Hr|]. split; [reflexivity|].
    split; [apply try_from_rect; assumption|].
    split; [rewrite N.add_0_l in Hkj; rewrite <- Hkj; exact Hk|].
    split; [exact Hst|]. split; [exact Hxp|]. split; [exact Hstep|exact Hlt].
  Qed.
End Generic.

(* ======================= Part 2: the R instance ============================ *)
Local Open Scope R_scope.

(* sum_{k < n} f k *)
Fixpoint rsum (n : nat) (f : nat -> R) : R :=
  match n with O => 0 | S m => rsum m f + f m end.

(* Rayleigh quotient v^T (A v) / v^T v of an n x 1 array *)
Definition rayleigh (n : nat) (A v : arr R) : R :=
  rsum n (fun k => aget v k 0 * rsum n (fun t => aget A k t * aget v t 0))
  / rsum n (fun k => aget v k 0 * aget v k 0).

Lemma sum_range_R n (f : nat -> R) : sum_range (@n0 R RNum) 0 n f = rsum n f.
Proof.
  unfold sum_range. induction n as [|n IH]; [reflexivity|].
  rewrite for_range_S, IH. rewrite Nat.add_0_l. reflexivity.
Qed.

Lemma rsum_ext n f g : (forall k, (k < n)%nat -> f k = g k) -> rsum n f = rsum n g.
Proof.
  induction n as [|n IH]; intro H; [reflexivity|].
  cbn [rsum]. rewrite IH, (H n) by (intros; try apply H; lia). reflexivity.
Qed.

Lemma mv_entry_R n (A x : arr R) i : (1 <= n)%nat -> (i < n)%nat ->
  mv_entry n A x i = rsum n (fun t => aget A i t * aget x t 0).
Proof.
  intros Hn Hi. unfold mv_entry. destruct (n =? 1)%nat eqn:E.
  - apply Nat.eqb_eq in E. subst n. assert (i = 0)%nat by lia. subst i.
    cbn [rsum nmul RNum]. ring.
  - apply sum_range_R.
Qed.

Lemma rc_entry_R n (a b : arr R) : (1 <= n)%nat ->
  rc_entry n a b = rsum n (fun k => aget a 0 k * aget b k 0).
Proof.
  intros Hn. unfold rc_entry. destruct (n =? 1)%nat eqn:E.
  - apply Nat.eqb_eq in E. subst n. cbn [rsum nmul RNum]. ring.
  - apply sum_range_R.
Qed.

Lemma rayleigh_of_R n (A v : arr R) : (1 <= n)%nat -> ah A = n -> aw A = n -> shaped n 1 v ->
  rayleigh_of n A v = rayleigh n A v.
Proof.
  intros Hn HA1 HA2 Hv. unfold rayleigh_of, rayleigh. cbn [ndiv RNum].
  destruct (amul_mat_vec n A v Hn HA1 HA2 Hv) as [_ Hval].
  destruct Hv as [Hv1 [Hv2 Hv3]].
  rewrite !rc_entry_R by exact Hn. f_equal.
  - apply rsum_ext. intros k Hk.
    rewrite (aget_atranspose n 1%nat v 0 k Hv1 Hv2) by lia.
    rewrite (Hval k Hk), mv_entry_R by assumption. reflexivity.
  - apply rsum_ext. intros k Hk.
    rewrite (aget_atranspose n 1%nat v 0 k Hv1 Hv2) by lia. reflexivity.
Qed.

(* ---- max / min over the reals -------------------------------------------- *)
Lemma reduce_max_cons {T} {NT : Num T} (x a : T) l :
  reduce_max x (a :: l) = reduce_max (if ngtb x a then x else a) l.
Proof. reflexivity. Qed.
Lemma reduce_min_cons {T} {NT : Num T} (x a : T) l :
  reduce_min x (a :: l) = reduce_min (if nltb x a then x else a) l.
Proof. reflexivity. Qed.

Lemma reduce_max_R (l : list R) : forall x,
  In (reduce_max x l) (x :: l) /\ forall y, In y (x :: l) -> y <= reduce_max x l.
Proof.
  induction l as [|a l IH]; intro x.
  - cbn. split; [left; reflexivity|]. intros y [<-|[]]. lra.
  - rewrite reduce_max_cons. unfold ngtb. cbn [nltb RNum].
    destruct (Rltb a x) eqn:E.
    + apply Rltb_true in E. destruct (IH x) as [Hin Hle]. split.
      * destruct Hin as [<-|Hin]; [left; reflexivity|right; right; exact Hin].
      * intros y [<-|[<-|Hy]].
        -- apply Hle. left. reflexivity.
        -- apply Rle_trans with x; [lra|]. apply Hle. left. reflexivity.
        -- apply Hle. right. exact Hy.
    + apply Rltb_false in E. destruct (IH a) as [Hin Hle]. split.
      * right. exact Hin.
      * intros y [<-|[<-|Hy]].
        -- apply Rle_trans with a; [lra|]. apply Hle. left. reflexivity.
        -- apply Hle. left. reflexivity.
        -- apply Hle. right. exact Hy.
Qed.

Lemma reduce_min_R (l : list R) : forall x,
  In (reduce_min x l) (x :: l) /\ forall y, In y (x :: l) -> reduce_min x l <= y.
Proof.
  induction l as [|a l IH]; intro x.
  - cbn. split; [left; reflexivity|]. intros y [<-|[]]. lra.
  - rewrite reduce_min_cons. cbn [nltb RNum].
    destruct (Rltb x a) eqn:E.
    + apply Rltb_true in E. destruct (IH x) as [Hin Hle]. split.
      * destruct Hin as [<-|Hin]; [left; reflexivity|right; right; exact Hin].
      * intros y [<-|[<-|Hy]].
        -- apply Hle. left. reflexivity.
        -- apply Rle_trans with x; [|lra]. apply Hle. left. reflexivity.
        -- apply Hle. right. exact Hy.
    + apply Rltb_false in E. destruct (IH a) as [Hin Hle]. split.
      * right. exact Hin.
      * intros y [<-|[<-|Hy]].
        -- apply Rle_trans with a; [|lra]. apply Hle. left. reflexivity.
        -- apply Hle. left. reflexivity.
        -- apply Hle. right. exact Hy.
Qed.

(* the scaling component of a non-empty column: an entry; the maximum if it is
   positive, otherwise (no positive entry) the minimum *)
Lemma scale_of_R n (y : arr R) : (1 <= n)%nat -> shaped n 1 y ->
  let s := scale_of y in
  (exists i, (i < n)%nat /\ s = aget y i 0) /\
  ((0 < s /\ forall i, (i < n)%nat -> aget y i 0 <= s) \/
   (s <= 0 /\ forall i, (i < n)%nat -> s <= aget y i 0 <= 0)).
Proof.
  intros Hn Hy. cbv zeta.
  destruct (amax_ok n y Hn Hy) as [x [l [E _]]].
  assert (Hin : forall i, (i < n)%nat -> In (aget y i 0) (x :: l)).
  { intros i Hi. rewrite <- E. apply (aget_in n 1%nat); [exact Hy|exact Hi|lia]. }
  unfold scale_of. rewrite E. unfold ngtb. cbn [nltb n0 RNum].
  destruct (reduce_max_R l x) as [Hmi Hml]. destruct (reduce_min_R l x) as [Hni Hnl].
  destruct (Rltb 0 (reduce_max x l)) eqn:Epos.
  - apply Rltb_true in Epos. split.
    + apply (in_aget_col n); [exact Hy|rewrite E; exact Hmi].
    + left. split; [exact Epos|]. intros i Hi. apply Hml. apply Hin. exact Hi.
  - apply Rltb_false in Epos. split.
    + apply (in_aget_col n); [exact Hy|rewrite E; exact Hni].
    + right. split.
      * apply Rle_trans with (reduce_max x l); [|exact Epos]. apply Hnl. exact Hmi.
      * intros i Hi. split; [apply Hnl; apply Hin; exact Hi|].
        apply Rle_trans with (reduce_max x l); [|exact Epos]. apply Hml. apply Hin. exact Hi.
Qed.

(* one normalisation step over the reals *)
Lemma step_vec_R n (A x : arr R) : (1 <= n)%nat -> ah A = n -> aw A = n -> shaped n 1 x ->
  let w := amul A x in
  let v := step_vec A x in
  let s := scale_of w in
  shaped n 1 w /\ shaped n 1 v /\ scaling_component w = Ok s /\
  (forall i, (i < n)%nat -> aget w i 0 = rsum n (fun t => aget A i t * aget x t 0)) /\
  (exists i, (i < n)%nat /\ s = aget w i 0) /\
  ((0 < s /\ forall i, (i < n)%nat -> aget w i 0 <= s) \/
   (s <= 0 /\ forall i, (i < n)%nat -> s <= aget w i 0 <= 0)) /\
  (forall i, (i < n)%nat -> aget v i 0 = aget w i 0 / s) /\
  (forall i, (i < n)%nat -> aget v i 0 <= 1) /\
  ((exists i, (i < n)%nat /\ aget w i 0 <> 0) -> exists i, (i < n)%nat /\ aget v i 0 = 1).
Proof.
  intros Hn HA1 HA2 Hx. cbv zeta.
  destruct (amul_mat_vec n A x Hn HA1 HA2 Hx) as [Hw Hwv].
  set (w := amul A x) in *.
  destruct (scale_of_R n w Hn Hw) as [Hsi Hsc]. cbv zeta in Hsi, Hsc.
  set (s := scale_of w) in *.
  assert (Hv : shaped n 1 (step_vec A x)).
  { unfold step_vec. fold w. destruct Hw as [H1 [H2 _]]. apply adivs_shaped; assumption. }
  assert (Hval : forall i, (i < n)%nat -> aget (step_vec A x) i 0 = aget w i 0 / s).
  { intros i Hi. unfold step_vec. fold w. fold s. unfold adivs.
    destruct Hw as [H1 [H2 _]]. rewrite aget_tabulate by lia. reflexivity. }
  split; [exact Hw|]. split; [exact Hv|].
  split; [apply (scaling_component_ok n); assumption|].
  split; [intros i Hi; rewrite (Hwv i Hi); apply mv_entry_R; assumption|].
  split; [exact Hsi|]. split; [exact Hsc|]. split; [exact Hval|]. split.
  - intros i Hi. rewrite (Hval i Hi).
    destruct Hsc as [[Hpos Hle]|[Hneg Hbd]].
    + specialize (Hle i Hi). apply Rmult_le_reg_r with s; [exact Hpos|].
      unfold Rdiv. rewrite Rmult_assoc, Rinv_l by lra. lra.
    + destruct (Req_dec s 0) as [Hz|Hnz].
      * rewrite Hz. unfold Rdiv. rewrite Rinv_0. lra.
      * specialize (Hbd i Hi). assert (Hs : s < 0) by lra.
        assert (Hq : aget w i 0 = aget w i 0 / s * s) by (field; exact Hnz).
        set (q := aget w i 0 / s) in *. nra.
  - intros [i [Hi Hne]].
    assert (Hs : s <> 0).
    { intro Hz. destruct Hsc as [[Hpos _]|[_ Hbd]]; [lra|].
      specialize (Hbd i Hi). lra. }
    destruct Hsi as [i0 [Hi0 Es]]. exists i0. split; [exact Hi0|].
    rewrite (Hval i0 Hi0), <- Es. field. exact Hs.
Qed.

Lemma aget_of_rows n (rows : list (list R)) i j : rect n n rows -> (j < n)%nat ->
  aget (mk_arr n n (concat rows)) i j = nth j (nth i rows []) 0.
Proof.
  intros [_ Hr] Hj. unfold aget. cbn [aw ad n0 RNum]. apply nth_concat_uniform; assumption.
Qed.

(* ---- C13, R instance -------------------------------------------------------- *)
Lemma c13_shape_norm_R : forall (rows : list (list R)) (es lam : R) (v : arr R),
  power_method rows es = Ok (lam, v) ->
  exists (n : nat) (A x : arr R) (prev ea : R),
    (1 <= n)%nat /\ rect n n rows /\ try_from rows = Ok A /\ ah A = n /\ aw A = n /\
    (forall i j, (i < n)%nat -> (j < n)%nat -> aget A i j = nth j (nth i rows []) 0) /\
    shaped n 1 x /\ pm_step A prev x = Ok (lam, v, ea) /\
    let w := amul A x in
    shaped n 1 w /\ shaped n 1 v /\
    (forall i, (i < n)%nat -> aget w i 0 = rsum n (fun t => aget A i t * aget x t 0)) /\
    (exists s, scaling_component w = Ok s /\
       (exists i, (i < n)%nat /\ s = aget w i 0) /\
       ((0 < s /\ forall i, (i < n)%nat -> aget w i 0 <= s) \/
        (s <= 0 /\ forall i, (i < n)%nat -> s <= aget w i 0 <= 0)) /\
       forall i, (i < n)%nat -> aget v i 0 = aget w i 0 / s) /\
    (forall i, (i < n)%nat -> aget v i 0 <= 1) /\
    ((exists i, (i < n)%nat /\ aget w i 0 <> 0) -> exists i, (i < n)%nat /\ aget v i 0 = 1) /\
    lam = rayleigh n A v.
Proof.
  intros rows es lam v H.
  destruct (pm_ok_trace rows es lam v H) as [n [A [k [prev [xp [ea [Hn [Hr [EA [Htf [_ [_ [Hxp [Hstep _]]]]]]]]]]]]]].
  assert (HA1 : ah A = n) by (rewrite EA; reflexivity).
  assert (HA2 : aw A = n) by (rewrite EA; reflexivity).
  destruct (pm_step_eq n A prev xp Hn HA1 HA2 Hxp) as [E _]. cbv zeta in E.
  pose proof Hstep as Hstep'. rewrite E in Hstep'. injection Hstep' as El Ev _.
  destruct (step_vec_R n A xp Hn HA1 HA2 Hxp) as [Hw [Hv [Hsc [Hwv [Hsi [Hcase [Hval [Hle1 Hone]]]]]]]].
  cbv zeta in *. rewrite Ev in *.
  exists n, A, xp, prev, ea.
  split; [exact Hn|]. split; [exact Hr|]. split; [exact Htf|]. split; [exact HA1|]. split; [exact HA2|].
  split; [intros i j Hi Hj; rewrite EA; apply aget_of_rows; assumption|].
  split; [exact Hxp|]. split; [exact Hstep|].
  split; [exact Hw|]. split; [exact Hv|]. split; [exact Hwv|].
  split; [exists (scale_of (amul A xp)); repeat split; assumption|].
  split; [exact Hle1|]. split; [exact Hone|].
  rewrite <- El. apply rayleigh_of_R; assumption.
Qed.

Lemma c13_exit_R : forall (rows : list (list R)) (es lam : R) (v : arr R),
  power_method rows es = Ok (lam, v) ->
  exists (A : arr R) (k : nat) (prev : R) (x : arr R) (ea : R),
    try_from rows = Ok A /\ (N.of_nat k < MAX_ITERATIONS)%N /\
    (exists x0 s0, pm_state A 0 = Ok (rayleigh (ah A) A x0, x0) /\
       scaling_component (amul A (afull 1 (ah A) 1)) = Ok s0 /\
       forall i, (i < ah A)%nat -> aget x0 i 0 = aget (amul A (afull 1 (ah A) 1)) i 0 / s0) /\
    pm_state A k = Ok (prev, x) /\
    pm_step A prev x = Ok (lam, v, ea) /\
    ea = Rabs ((lam - prev) / lam) /\ ea < es /\
    (lam <> 0 -> Rabs (lam - prev) < es * Rabs lam).
Proof.
  intros rows es lam v H.
  destruct (pm_ok_trace rows es lam v H) as [n [A [k [prev [xp [ea [Hn [Hr [EA [Htf [Hk [Hst [Hxp [Hstep Hlt]]]]]]]]]]]]]].
  assert (HA1 : ah A = n) by (rewrite EA; reflexivity).
  assert (HA2 : aw A = n) by (rewrite EA; reflexivity).
  destruct (pm_step_eq n A prev xp Hn HA1 HA2 Hxp) as [E _]. cbv zeta in E.
  pose proof Hstep as Hstep'. rewrite E in Hstep'. injection Hstep' as El _ Eea.
  rewrite El in Eea. cbn [nabs ndiv nsub RNum] in Eea.
  cbn [nltb RNum] in Hlt. apply Rltb_true in Hlt.
  exists A, k, prev, xp, ea.
  split; [exact Htf|]. split; [exact Hk|]. split.
  { destruct (pm_init_eq n A Hn HA1 HA2) as [Ei Hx0]. cbv zeta in Ei, Hx0.
    destruct (step_vec_R n A (afull 1 n 1) Hn HA1 HA2 (afull_shaped _ n 1%nat))
      as [_ [_ [Hsc [_ [_ [_ [Hval _]]]]]]]. cbv zeta in Hsc, Hval.
    exists (init_vec n A), (scale_of (amul A (afull 1 n 1))). rewrite HA1.
    split; [|split; [exact Hsc|exact Hval]].
    change (pm_state A 0) with (pm_init A). rewrite Ei.
    rewrite (rayleigh_of_R n A _ Hn HA1 HA2 Hx0). reflexivity. }
  split; [exact Hst|]. split; [exact Hstep|]. split; [symmetry; exact Eea|]. split; [exact Hlt|].
  intro Hnz. rewrite <- Eea in Hlt. unfold Rdiv in Hlt. rewrite Rabs_mult, Rabs_inv in Hlt.
  assert (Hpos : 0 < Rabs lam) by (apply Rabs_pos_lt; exact Hnz).
  apply Rmult_lt_reg_r with (/ Rabs lam); [apply Rinv_0_lt_compat; exact Hpos|].
  rewrite Rmult_assoc, Rinv_r by lra. lra.
Qed.

(* ---- accuracy, partial: 1 x 1 matrices (exact arithmetic) -------------------- *)
Lemma pm_loop_first {T} {NT : Num T} (A : arr T) es ev x next nx ea :
  pm_step A ev x = Ok (next, nx, ea) -> nltb ea es = true ->
  pm_loop (N.to_nat MAX_ITERATIONS) A es ev x 0%N = Ok (next, nx, 0%N).
Proof.
  intros Hs Hlt. destruct (N.to_nat MAX_ITERATIONS) as [|f] eqn:E.
  - exfalso. unfold MAX_ITERATIONS in E. lia.
  - cbn [pm_loop]. rewrite Hs, Hlt. reflexivity.
Qed.

Ltac crunch_arr :=
  repeat (unfold rayleigh_quotient, adivs, tabulate, aget, amul, adot, atranspose, is1x1, as_scalar_unchecked;
          cbn -[Rmult Rdiv Rltb Rplus Rminus Rabs]).

Lemma pm_init_1x1 (a : R) : a <> 0 -> pm_init (mk_arr 1 1 [a]) = Ok (a, mk_arr 1 1 [1]).
Proof.
  intros Ha. unfold pm_init, scaling_component. crunch_arr.
  replace (a * 1) with a by ring.
  destruct (Rltb 0 a); crunch_arr; replace (a / a) with 1 by (field; exact Ha); crunch_arr;
    replace (1 * (a * 1) / (1 * 1)) with a by field; reflexivity.
Qed.

Lemma pm_step_1x1 (a : R) : a <> 0 ->
  pm_step (mk_arr 1 1 [a]) a (mk_arr 1 1 [1]) = Ok (a, mk_arr 1 1 [1], 0).
Proof.
  intros Ha. unfold pm_step, scaling_component. crunch_arr.
  replace (a * 1) with a by ring.
  destruct (Rltb 0 a); crunch_arr;
    replace (a / a) with 1 by (field; exact Ha);
    replace (1 * (a * 1) / (1 * 1)) with a by field;
    replace ((a - a) / a) with 0 by (field; exact Ha); rewrite Rabs_R0; reflexivity.
Qed.

Lemma c13_accuracy_1x1_R : forall a es : R, a <> 0 -> 0 < es ->
  power_method [[a]] es = Ok (a, mk_arr 1 1 [1]).
Proof.
  intros a es Ha Hes. unfold power_method, power_method_fuel, try_from.
  cbn [forallb length Nat.eqb andb concat app bind ah aw negb orb].
  rewrite (pm_init_1x1 a Ha). cbn [bind fst snd].
  rewrite (pm_loop_first _ es _ _ _ _ _ (pm_step_1x1 a Ha)).
  - reflexivity.
  - cbn [nltb RNum]. apply Rltb_true. exact Hes.
Qed.

(* ======================= Part 3: accuracy, what can be proved ================== *)
(* vectors as functions on indices; M = aget A *)
Definition mvf (n : nat) (M : nat -> nat -> R) (x : nat -> R) : nat -> R :=
  fun s => rsum n (fun t => M s t * x t).
Definition dotf (n : nat) (x y : nat -> R) : R := rsum n (fun t => x t * y t).
Definition rqf (n : nat) (M : nat -> nat -> R) (x : nat -> R) : R :=
  dotf n x (mvf n M x) / dotf n x x.
(* y_k = A^(k+1) * ones, the un-normalised power sequence *)
Fixpoint ypow (n : nat) (M : nat -> nat -> R) (k : nat) : nat -> R :=
  match k with
  | O => mvf n M (fun _ => 1)
  | S k' => mvf n M (ypow n M k')
  end.

Lemma rayleigh_rqf n (A v : arr R) : rayleigh n A v = rqf n (aget A) (fun t => aget v t 0).
Proof. reflexivity. Qed.

(* ---- finite sums ------------------------------------------------------------- *)
Lemma rsum_zero n f : (forall i, (i < n)%nat -> f i = 0) -> rsum n f = 0.
Proof.
  induction n as [|n IH]; intro H; [reflexivity|].
  cbn [rsum]. rewrite IH, (H n) by (intros; try apply H; lia). ring.
Qed.
Lemma rsum_plus n f g : rsum n (fun i => f i + g i) = rsum n f + rsum n g.
Proof. induction n as [|n IH]; cbn [rsum]; [ring|rewrite IH; ring]. Qed.
Lemma rsum_scal n a f : rsum n (fun i => a * f i) = a * rsum n f.
Proof. induction n as [|n IH]; cbn [rsum]; [ring|rewrite IH; ring]. Qed.
Lemma rsum_scal_r n a f : rsum n (fun i => f i * a) = rsum n f * a.
Proof. induction n as [|n IH]; cbn [rsum]; [ring|rewrite IH; ring]. Qed.
Lemma rsum_swap n m (F : nat -> nat -> R) :
  rsum n (fun i => rsum m (fun j => F i j)) = rsum m (fun j => rsum n (fun i => F i j)).
Proof.
  induction n as [|n IH]; cbn [rsum].
  - symmetry. apply rsum_zero. reflexivity.
  - rewrite IH, <- rsum_plus. reflexivity.
Qed.
Lemma rsum_delta n (F : nat -> R) i : (i < n)%nat ->
  rsum n (fun j => F j * (if (i =? j)%nat then 1 else 0)) = F i.
Proof.
  induction n as [|n IH]; intro Hi; [lia|]. cbn [rsum].
  destruct (Nat.eq_dec i n) as [->|Hne].
  - rewrite Nat.eqb_refl, rsum_zero; [ring|].
    intros j Hj. destruct (n =? j)%nat eqn:E; [apply Nat.eqb_eq in E; lia|ring].
  - rewrite IH by lia. destruct (i =? n)%nat eqn:E; [apply Nat.eqb_eq in E; lia|ring].
Qed.
Lemma rsum_le n f g : (forall i, (i < n)%nat -> f i <= g i) -> rsum n f <= rsum n g.
Proof.
  induction n as [|n IH]; intro H; cbn [rsum]; [lra|].
  assert (rsum n f <= rsum n g) by (apply IH; intros; apply H; lia).
  assert (f n <= g n) by (apply H; lia). lra.
Qed.
Lemma rsum_nonneg n f : (forall i, (i < n)%nat -> 0 <= f i) -> 0 <= rsum n f.
Proof.
  intro H. rewrite <- (rsum_zero n (fun _ => 0)) by reflexivity. apply rsum_le. exact H.
Qed.
Lemma rsum_abs n f : Rabs (rsum n f) <= rsum n (fun i => Rabs (f i)).
Proof.
  induction n as [|n IH]; cbn [rsum]; [rewrite Rabs_R0; lra|].
  eapply Rle_trans; [apply Rabs_triang|]. lra.
Qed.
Lemma rsum_shift m f : rsum (S m) f = f 0%nat + rsum m (fun i => f (S i)).
Proof.
  induction m as [|m IH]; [cbn [rsum]; ring|].
  change (rsum (S (S m)) f) with (rsum (S m) f + f (S m)). rewrite IH. cbn [rsum]. ring.
Qed.
Lemma sumsq_zero n (v : nat -> R) : rsum n (fun i => v i * v i) = 0 ->
  forall i, (i < n)%nat -> v i = 0.
Proof.
  induction n as [|n IH]; intros H i Hi; [lia|]. cbn [rsum] in H.
  assert (H0 : 0 <= rsum n (fun i => v i * v i)) by (apply rsum_nonneg; intros; nra).
  assert (H1 : 0 <= v n * v n) by nra.
  destruct (Nat.eq_dec i n) as [->|Hne]; [nra|]. apply IH; [lra|lia].
Qed.

(* ---- (1) the Rayleigh quotient minimises the residual -------------------------- *)
Lemma resid_expand n (a v : nat -> R) mu :
  rsum n (fun i => (a i - mu * v i) ^ 2) =
  rsum n (fun i => a i ^ 2) - 2 * mu * rsum n (fun i => v i * a i) + mu ^ 2 * rsum n (fun i => v i * v i).
Proof. induction n as [|n IH]; cbn [rsum]; [ring|rewrite IH; ring]. Qed.

Lemma rq_num n (a v : nat -> R) :
  rsum n (fun i => v i * a i) =
  rsum n (fun i => v i * a i) / rsum n (fun i => v i * v i) * rsum n (fun i => v i * v i).
Proof.
  destruct (Req_dec (rsum n (fun i => v i * v i)) 0) as [Hz|Hnz].
  - rewrite Hz, Rmult_0_r. apply rsum_zero. intros i Hi.
    rewrite (sumsq_zero n v Hz i Hi). ring.
  - field. exact Hnz.
Qed.

Lemma rayleigh_residual n (M : nat -> nat -> R) (v : nat -> R) :
  let a := mvf n M v in
  let lam := rqf n M v in
  rsum n (fun i => (a i - lam * v i) ^ 2) =
    rsum n (fun i => a i ^ 2) - lam ^ 2 * rsum n (fun i => v i ^ 2) /\
  forall mu, rsum n (fun i => (a i - lam * v i) ^ 2) <= rsum n (fun i => (a i - mu * v i) ^ 2).
Proof.
  cbv zeta. set (a := mvf n M v).
  assert (Esq : rsum n (fun i => v i ^ 2) = rsum n (fun i => v i * v i))
    by (apply rsum_ext; intros; ring).
  unfold rqf, dotf. fold a.
  pose proof (rq_num n a v) as HN.
  set (N := rsum n (fun i => v i * a i)) in *.
  set (D := rsum n (fun i => v i * v i)) in *.
  set (lam := N / D) in *.
  assert (HD : 0 <= D) by (apply rsum_nonneg; intros; nra).
  split.
  - rewrite resid_expand, Esq. fold N D. rewrite HN at 1. ring.
  - intro mu. rewrite !resid_expand. fold N D.
    assert (0 <= D * (mu - lam) ^ 2) by (apply Rmult_le_pos; [exact HD|apply pow2_ge_0]).
    replace N with (lam * D) by (symmetry; exact HN). nra.
Qed.

Lemma c13_rayleigh_residual_R : forall (rows : list (list R)) (es lam : R) (v : arr R),
  power_method rows es = Ok (lam, v) ->
  exists (n : nat) (A : arr R),
    (1 <= n)%nat /\ try_from rows = Ok A /\ ah A = n /\ aw A = n /\ shaped n 1 v /\
    let vi := fun i => aget v i 0 in
    let Av := mvf n (aget A) vi in
    lam = rayleigh n A v /\
    rsum n (fun i => (Av i - lam * vi i) ^ 2) =
      rsum n (fun i => Av i ^ 2) - lam ^ 2 * rsum n (fun i => vi i ^ 2) /\
    forall mu, rsum n (fun i => (Av i - lam * vi i) ^ 2) <= rsum n (fun i => (Av i - mu * vi i) ^ 2).
Proof.
  intros rows es lam v H.
  destruct (c13_shape_norm_R rows es lam v H)
    as [n [A [x [prev [ea [Hn [_ [Htf [HA1 [HA2 [_ [_ [_ Hrest]]]]]]]]]]]]].
  cbv zeta in Hrest. destruct Hrest as [_ [Hv [_ [_ [_ [_ El]]]]]].
  exists n, A. split; [exact Hn|]. split; [exact Htf|]. split; [exact HA1|]. split; [exact HA2|].
  split; [exact Hv|]. cbv zeta.
  split; [exact El|]. rewrite El, rayleigh_rqf.
  exact (rayleigh_residual n (aget A) (fun i => aget v i 0)).
Qed.

(* ---- (2) geometric convergence of the Rayleigh quotients under an explicit
        eigen-decomposition hypothesis ------------------------------------------- *)
Lemma mvf_scale n M a (x : nat -> R) s : mvf n M (fun t => a * x t) s = a * mvf n M x s.
Proof.
  unfold mvf. rewrite <- rsum_scal. apply rsum_ext. intros; ring.
Qed.
Lemma mvf_ext n M (x x' : nat -> R) s : (forall t, (t < n)%nat -> x t = x' t) ->
  mvf n M x s = mvf n M x' s.
Proof. intro H. unfold mvf. apply rsum_ext. intros t Ht. rewrite (H t Ht). reflexivity. Qed.
Lemma rqf_ext n M (x x' : nat -> R) : (forall t, (t < n)%nat -> x t = x' t) ->
  rqf n M x = rqf n M x'.
Proof.
  intro H. unfold rqf, dotf. f_equal.
  - apply rsum_ext. intros t Ht. rewrite (H t Ht), (mvf_ext n M x x' t H). reflexivity.
  - apply rsum_ext. intros t Ht. rewrite (H t Ht). reflexivity.
Qed.
(* rescaling a vector does not change its Rayleigh quotient *)
Lemma rqf_scale n M a (x : nat -> R) : a <> 0 -> rqf n M (fun t => a * x t) = rqf n M x.
Proof.
  intro Ha. unfold rqf, dotf.
  rewrite (rsum_ext n (fun t => a * x t * mvf n M (fun t0 => a * x t0) t)
                      (fun t => (a * a) * (x t * mvf n M x t)))
    by (intros t Ht; rewrite mvf_scale; ring).
  rewrite (rsum_ext n (fun t => a * x t * (a * x t)) (fun t => (a * a) * (x t * x t)))
    by (intros; ring).
  rewrite !rsum_scal. unfold Rdiv. rewrite Rinv_mult.
  set (N := rsum n (fun t => x t * mvf n M x t)). set (D := rsum n (fun t => x t * x t)).
  replace (a * a * N * (/ (a * a) * / D)) with ((a * a) * / (a * a) * (N * / D)) by ring.
  rewrite Rinv_r by (apply Rmult_integral_contrapositive_currified; exact Ha). ring.
Qed.

Lemma scale_nonzero n (w : arr R) : (1 <= n)%nat -> shaped n 1 w ->
  ~ (forall i, (i < n)%nat -> aget w i 0 = 0) -> scale_of w <> 0.
Proof.
  intros Hn Hw Hnz Hz. apply Hnz. intros i Hi.
  destruct (scale_of_R n w Hn Hw) as [_ [[Hpos _]|[_ Hbd]]]; cbv zeta in *.
  - lra.
  - specialize (Hbd i Hi). lra.
Qed.

(* weighted mean of the lv i with weights w i >= 0, w 0 > 0, against lv 0 *)
Lemma wmean_bound m (w lv : nat -> R) : 0 < w 0%nat -> (forall i, (i < m)%nat -> 0 <= w (S i)) ->
  Rabs (rsum (S m) (fun i => w i * lv i) / rsum (S m) w - lv 0%nat) * w 0%nat <=
  rsum m (fun i => w (S i) * Rabs (lv (S i) - lv 0%nat)).
Proof.
  intros Hw0 Hw. set (l0 := lv 0%nat).
  rewrite (rsum_shift m w), (rsum_shift m (fun i => w i * lv i)). fold l0.
  set (tl := rsum m (fun i => w (S i))).
  assert (Htl : 0 <= tl) by (apply rsum_nonneg; exact Hw).
  set (D := w 0%nat + tl). assert (HD : 0 < D) by (unfold D; lra).
  set (X := rsum m (fun i => w (S i) * (lv (S i) - l0))).
  assert (EX : w 0%nat * l0 + rsum m (fun i => w (S i) * lv (S i)) - l0 * D = X).
  { unfold X, D, tl.
    rewrite (rsum_ext m (fun i => w (S i) * (lv (S i) - l0))
                        (fun i => w (S i) * lv (S i) + (- l0) * w (S i))) by (intros; ring).
    rewrite rsum_plus, rsum_scal. ring. }
  replace ((w 0%nat * l0 + rsum m (fun i => w (S i) * lv (S i))) / D - l0)
    with (X / D) by (rewrite <- EX; field; lra).
  assert (HX : Rabs X <= rsum m (fun i => w (S i) * Rabs (lv (S i) - l0))).
  { unfold X. eapply Rle_trans; [apply rsum_abs|]. apply rsum_le. intros i Hi.
    rewrite Rabs_mult, (Rabs_pos_eq _ (Hw i Hi)). lra. }
  unfold Rdiv. rewrite Rabs_mult, (Rabs_pos_eq (/ D)) by (left; apply Rinv_0_lt_compat; exact HD).
  assert (Hr : 0 < / D) by (apply Rinv_0_lt_compat; exact HD).
  assert (HrD : / D * D = 1) by (apply Rinv_l; lra).
  assert (Hrw : / D * w 0%nat <= 1) by (unfold D in *; nra).
  pose proof (Rabs_pos X) as HaX.
  apply Rle_trans with (Rabs X); [|exact HX]. rewrite Rmult_assoc. nra.
Qed.

Section Eigen.
  Variables (n : nat) (A : arr R) (q : nat -> nat -> R) (lam c : nat -> R) (g : R).
  Let M := aget A.
  Hypothesis Hn : (1 <= n)%nat.
  Hypothesis HA1 : ah A = n.
  Hypothesis HA2 : aw A = n.
  (* q_0 .. q_(n-1) orthonormal eigenvectors, q i t = component t of q_i *)
  Hypothesis Horth : forall i j, (i < n)%nat -> (j < n)%nat ->
    dotf n (q i) (q j) = if (i =? j)%nat then 1 else 0.
  Hypothesis Heig : forall i s, (i < n)%nat -> (s < n)%nat -> mvf n M (q i) s = lam i * q i s.
  (* the all-ones start vector is sum_i c_i q_i *)
  Hypothesis Hones : forall t, (t < n)%nat -> 1 = rsum n (fun i => c i * q i t).
  Hypothesis Hc0 : c 0%nat <> 0.
  Hypothesis Hl0 : lam 0%nat <> 0.
  Hypothesis Hg : 0 <= g < 1.
  Hypothesis Hgap : forall i, (1 <= i < n)%nat -> Rabs (lam i) <= g * Rabs (lam 0%nat).

  Lemma mvf_lincomb (a x : nat -> R) :
    (forall t, (t < n)%nat -> x t = rsum n (fun i => a i * q i t)) ->
    forall s, (s < n)%nat -> mvf n M x s = rsum n (fun i => a i * lam i * q i s).
  Proof.
    intros Hx s Hs. unfold mvf.
    rewrite (rsum_ext n _ (fun t => rsum n (fun i => a i * (M s t * q i t)))).
    2:{ intros t Ht. rewrite (Hx t Ht), <- rsum_scal. apply rsum_ext. intros; ring. }
    rewrite rsum_swap. apply rsum_ext. intros i Hi. rewrite rsum_scal.
    change (rsum n (fun t => M s t * q i t)) with (mvf n M (q i) s).
    rewrite Heig by assumption. ring.
  Qed.

  Lemma parseval (a b x y : nat -> R) :
    (forall t, (t < n)%nat -> x t = rsum n (fun i => a i * q i t)) ->
    (forall t, (t < n)%nat -> y t = rsum n (fun j => b j * q j t)) ->
    dotf n x y = rsum n (fun i => a i * b i).
  Proof.
    intros Hx Hy. unfold dotf.
    rewrite (rsum_ext n _ (fun t => rsum n (fun i => rsum n (fun j => a i * b j * (q i t * q j t))))).
    2:{ intros t Ht. rewrite (Hx t Ht), (Hy t Ht), <- rsum_scal_r. apply rsum_ext. intros i Hi.
        rewrite <- rsum_scal. apply rsum_ext. intros; ring. }
    rewrite rsum_swap. apply rsum_ext. intros i Hi. rewrite rsum_swap.
    rewrite (rsum_ext n _ (fun j => a i * b j * (if (i =? j)%nat then 1 else 0))).
    2:{ intros j Hj. rewrite rsum_scal.
        change (rsum n (fun t => q i t * q j t)) with (dotf n (q i) (q j)).
        rewrite Horth by assumption. reflexivity. }
    exact (rsum_delta n (fun j => a i * b j) i Hi).
  Qed.

  Lemma ypow_expand k : forall t, (t < n)%nat ->
    ypow n M k t = rsum n (fun i => c i * lam i ^ S k * q i t).
  Proof.
    induction k as [|k IH]; intros t Ht.
    - cbn [ypow]. rewrite (mvf_lincomb c (fun _ => 1) Hones t Ht).
      apply rsum_ext. intros; ring.
    - cbn [ypow]. rewrite (mvf_lincomb (fun i => c i * lam i ^ S k) _ IH t Ht).
      apply rsum_ext. intros i Hi. change (lam i ^ S (S k)) with (lam i * lam i ^ S k). ring.
  Qed.

  Lemma q0_expand t : (t < n)%nat ->
    q 0%nat t = rsum n (fun j => (if (0 =? j)%nat then 1 else 0) * q j t).
  Proof.
    intro Ht. rewrite (rsum_ext n _ (fun j => q j t * (if (0 =? j)%nat then 1 else 0)))
      by (intros; ring).
    symmetry. apply (rsum_delta n (fun j => q j t) 0%nat). lia.
  Qed.

  Lemma ypow_nonzero k : ~ (forall t, (t < n)%nat -> ypow n M k t = 0).
  Proof.
    intro Hz.
    assert (E : dotf n (ypow n M k) (q 0%nat) = c 0%nat * lam 0%nat ^ S k).
    { rewrite (parseval _ _ _ _ (ypow_expand k) q0_expand).
      rewrite (rsum_delta n (fun i => c i * lam i ^ S k) 0%nat) by lia. reflexivity. }
    assert (Z : dotf n (ypow n M k) (q 0%nat) = 0).
    { unfold dotf. apply rsum_zero. intros t Ht. rewrite (Hz t Ht). ring. }
    rewrite Z in E. symmetry in E. apply Rmult_integral in E. destruct E as [E|E]; [exact (Hc0 E)|].
    apply (pow_nonzero _ (S k) Hl0). exact E.
  Qed.

  (* one normalisation step maps a multiple of z to a multiple of M z *)
  Lemma step_ypow (x : arr R) (z : nat -> R) P : shaped n 1 x -> P <> 0 ->
    (forall t, (t < n)%nat -> aget x t 0 = z t / P) ->
    ~ (forall s, (s < n)%nat -> mvf n M z s = 0) ->
    exists P', P' <> 0 /\ shaped n 1 (step_vec A x) /\
      (forall s, (s < n)%nat -> aget (step_vec A x) s 0 = mvf n M z s / P') /\
      rayleigh_of n A (step_vec A x) = rqf n M (mvf n M z).
  Proof.
    intros Hx HP Hxz Hnz.
    destruct (step_vec_R n A x Hn HA1 HA2 Hx) as [Hw [Hv [_ [Hwv [_ [_ [Hval _]]]]]]].
    cbv zeta in *.
    assert (Hwz : forall s, (s < n)%nat -> aget (amul A x) s 0 = mvf n M z s / P).
    { intros s Hs. rewrite (Hwv s Hs). unfold mvf, Rdiv. rewrite <- rsum_scal_r.
      apply rsum_ext. intros t Ht. rewrite (Hxz t Ht). unfold M, Rdiv. ring. }
    assert (Hs0 : scale_of (amul A x) <> 0).
    { apply (scale_nonzero n); [exact Hn|exact Hw|]. intro Hall. apply Hnz. intros s Hs.
      specialize (Hall s Hs). rewrite (Hwz s Hs) in Hall.
      replace (mvf n M z s) with (mvf n M z s / P * P) by (field; exact HP). rewrite Hall. ring. }
    set (s0 := scale_of (amul A x)) in *.
    exists (P * s0). split; [apply Rmult_integral_contrapositive_currified; assumption|].
    split; [exact Hv|].
    assert (Hvz : forall s, (s < n)%nat -> aget (step_vec A x) s 0 = mvf n M z s / (P * s0)).
    { intros s Hs. rewrite (Hval s Hs), (Hwz s Hs). field. split; assumption. }
    split; [exact Hvz|].
    rewrite (rayleigh_of_R n A _ Hn HA1 HA2 Hv), rayleigh_rqf. fold M.
    rewrite (rqf_ext n M _ (fun t => / (P * s0) * mvf n M z t)).
    - apply rqf_scale. apply Rinv_neq_0_compat.
      apply Rmult_integral_contrapositive_currified; assumption.
    - intros t Ht. rewrite (Hvz t Ht). unfold Rdiv. ring.
  Qed.

  (* the model's k-th state: its eigenvalue is the Rayleigh quotient of
     y_k = A^(k+1) * ones, its vector a non-zero multiple of y_k *)
  Lemma pm_state_ypow k : exists P x, P <> 0 /\
    pm_state A k = Ok (rqf n M (ypow n M k), x) /\ shaped n 1 x /\
    forall t, (t < n)%nat -> aget x t 0 = ypow n M k t / P.
  Proof.
    induction k as [|k IH].
    - destruct (pm_init_eq n A Hn HA1 HA2) as [Ei _]. cbv zeta in Ei.
      destruct (step_ypow (afull 1 n 1) (fun _ => 1) 1 (afull_shaped _ n 1%nat) R1_neq_R0)
        as [P' [HP' [Hsh [Hval Hray]]]].
      + intros t Ht. rewrite aget_afull_in by lia. field.
      + exact (ypow_nonzero 0).
      + exists P', (init_vec n A). split; [exact HP'|]. split; [|split; [exact Hsh|exact Hval]].
        change (pm_state A 0) with (pm_init A). rewrite Ei. unfold init_vec.
        change (@n1 R RNum) with 1. rewrite Hray. reflexivity.
    - destruct IH as [P [x [HP [Hst [Hx Hxv]]]]].
      destruct (step_ypow x (ypow n M k) P Hx HP Hxv (ypow_nonzero (S k)))
        as [P' [HP' [Hsh [Hval Hray]]]].
      exists P', (step_vec A x). split; [exact HP'|]. split; [|split; [exact Hsh|exact Hval]].
      cbn [pm_state]. rewrite Hst. cbn [bind fst snd].
      destruct (pm_step_eq n A (rqf n M (ypow n M k)) x Hn HA1 HA2 Hx) as [E _]. cbv zeta in E.
      rewrite E. cbn [bind fst snd]. rewrite Hray. reflexivity.
  Qed.

  (* the bound on the Rayleigh quotient of y_k *)
  Lemma rqf_ypow_bound k :
    Rabs (rqf n M (ypow n M k) - lam 0%nat) * c 0%nat ^ 2 <=
    2 * Rabs (lam 0%nat) * g ^ (2 * k + 2) * rsum (n - 1) (fun i => c (S i) ^ 2).
  Proof.
    set (w := fun i => (c i * lam i ^ S k) ^ 2).
    assert (ED : dotf n (ypow n M k) (ypow n M k) = rsum n w).
    { rewrite (parseval _ _ _ _ (ypow_expand k) (ypow_expand k)).
      apply rsum_ext. intros; unfold w; ring. }
    assert (EN : dotf n (ypow n M k) (mvf n M (ypow n M k)) = rsum n (fun i => w i * lam i)).
    { change (mvf n M (ypow n M k)) with (ypow n M (S k)).
      rewrite (parseval _ _ _ _ (ypow_expand k) (ypow_expand (S k))).
      apply rsum_ext. intros i Hi. unfold w. change (lam i ^ S (S k)) with (lam i * lam i ^ S k). ring. }
    unfold rqf. rewrite ED, EN.
    set (l0 := lam 0%nat) in *. set (L := (l0 ^ S k) ^ 2).
    assert (Hl0k : l0 ^ S k <> 0) by (apply pow_nonzero; exact Hl0).
    assert (HLpos : 0 < L) by (unfold L; nra).
    assert (Hw0 : w 0%nat = c 0%nat ^ 2 * L) by (unfold w, L; fold l0; ring).
    assert (Hw0pos : 0 < w 0%nat).
    { rewrite Hw0. apply Rmult_lt_0_compat; [|exact HLpos]. nra. }
    pose proof (wmean_bound (n - 1) w lam Hw0pos) as HB.
    replace (S (n - 1)) with n in HB by lia. fold l0 in HB.
    assert (Hwn : forall i, (i < n - 1)%nat -> 0 <= w (S i)) by (intros; unfold w; nra).
    specialize (HB Hwn).
    set (K := g ^ (2 * k + 2) * L * (2 * Rabs l0)).
    assert (HT : rsum (n - 1) (fun i => w (S i) * Rabs (lam (S i) - l0)) <=
                 rsum (n - 1) (fun i => c (S i) ^ 2) * K).
    { rewrite <- rsum_scal_r. apply rsum_le. intros i Hi.
      assert (Hgi : Rabs (lam (S i)) <= g * Rabs l0) by (apply Hgap; lia).
      pose proof (Rabs_pos (lam (S i))) as Hai. pose proof (Rabs_pos l0) as Ha0.
      assert (H1 : Rabs (lam (S i) - l0) <= 2 * Rabs l0).
      { unfold Rminus. eapply Rle_trans; [apply Rabs_triang|]. rewrite Rabs_Ropp. nra. }
      assert (H2 : (lam (S i) ^ S k) ^ 2 <= g ^ (2 * k + 2) * L).
      { replace (2 * k + 2)%nat with (S k * 2)%nat by lia. rewrite pow_mult. unfold L.
        rewrite <- (pow2_abs (lam (S i) ^ S k)), <- (pow2_abs (l0 ^ S k)), <- !RPow_abs.
        rewrite <- Rpow_mult_distr, <- Rpow_mult_distr.
        apply pow_incr. split; [apply pow_le; exact Hai|].
        apply pow_incr. split; [exact Hai|exact Hgi]. }
      unfold w, K. rewrite Rpow_mult_distr.
      set (cc := c (S i) ^ 2). assert (0 <= cc) by (unfold cc; nra).
      set (p := (lam (S i) ^ S k) ^ 2) in *. assert (0 <= p) by (unfold p; nra).
      set (G := g ^ (2 * k + 2) * L) in *.
      pose proof (Rabs_pos (lam (S i) - l0)) as Hd.
      assert (p * Rabs (lam (S i) - l0) <= G * (2 * Rabs l0)) by nra.
      nra. }
    rewrite Hw0 in HB.
    apply Rmult_le_reg_r with L; [exact HLpos|].
    eapply Rle_trans; [|eapply Rle_trans; [exact (Rle_trans _ _ _ HB HT)|]].
    - right. ring.
    - right. unfold K. ring.
  Qed.

  Lemma c13_rayleigh_error_sec k : exists rho x,
    pm_state A k = Ok (rho, x) /\ rho = rqf n M (ypow n M k) /\
    Rabs (rho - lam 0%nat) * c 0%nat ^ 2 <=
    2 * Rabs (lam 0%nat) * g ^ (2 * k + 2) * rsum (n - 1) (fun i => c (S i) ^ 2).
  Proof.
    destruct (pm_state_ypow k) as [P [x [_ [Hst _]]]].
    exists (rqf n M (ypow n M k)), x. split; [exact Hst|]. split; [reflexivity|].
    apply rqf_ypow_bound.
  Qed.
End Eigen.

Lemma c13_rayleigh_error_R : forall (n : nat) (A : arr R) (q : nat -> nat -> R) (lam c : nat -> R) (g : R),
  (1 <= n)%nat -> ah A = n -> aw A = n ->
  (forall i j, (i < n)%nat -> (j < n)%nat ->
     dotf n (q i) (q j) = if (i =? j)%nat then 1 else 0) ->
  (forall i s, (i < n)%nat -> (s < n)%nat -> mvf n (aget A) (q i) s = lam i * q i s) ->
  (forall t, (t < n)%nat -> 1 = rsum n (fun i => c i * q i t)) ->
  c 0%nat <> 0 -> lam 0%nat <> 0 -> 0 <= g < 1 ->
  (forall i, (1 <= i < n)%nat -> Rabs (lam i) <= g * Rabs (lam 0%nat)) ->
  forall k, exists rho x,
    pm_state A k = Ok (rho, x) /\ rho = rqf n (aget A) (ypow n (aget A) k) /\
    Rabs (rho - lam 0%nat) * c 0%nat ^ 2 <=
    2 * Rabs (lam 0%nat) * g ^ (2 * k + 2) * rsum (n - 1) (fun i => c (S i) ^ 2).
Proof. exact c13_rayleigh_error_sec. Qed.

(* non-vacuity of the eigen-decomposition hypotheses: A = diag(2, 1), q_i = e_i *)
Lemma eigen_example : forall k, exists rho x,
  pm_state (mk_arr 2 2 [2; 0; 0; 1]) k = Ok (rho, x) /\
  Rabs (rho - 2) * 1 ^ 2 <= 2 * Rabs 2 * (1 / 2) ^ (2 * k + 2) * rsum 1 (fun _ => 1 ^ 2).
Proof.
  intro k.
  set (q := fun i t : nat => if (i =? t)%nat then 1 else 0).
  set (lam := fun i : nat => if (i =? 0)%nat then 2 else 1).
  assert (H1 : forall i j, (i < 2)%nat -> (j < 2)%nat ->
            dotf 2 (q i) (q j) = if (i =? j)%nat then 1 else 0).
  { intros i j Hi Hj. destruct i as [|[|i]]; destruct j as [|[|j]]; try lia;
      unfold dotf, q; cbn [rsum Nat.eqb]; ring. }
  assert (H2 : forall i s, (i < 2)%nat -> (s < 2)%nat ->
            mvf 2 (aget (mk_arr 2 2 [2; 0; 0; 1])) (q i) s = lam i * q i s).
  { intros i s Hi Hs. destruct i as [|[|i]]; destruct s as [|[|s]]; try lia;
      unfold mvf, aget, q, lam; cbn [rsum aw ad nth Nat.mul Nat.add Nat.eqb]; ring. }
  assert (H3 : forall t, (t < 2)%nat -> 1 = rsum 2 (fun i => 1 * q i t)).
  { intros t Ht. destruct t as [|[|t]]; try lia; unfold q; cbn [rsum Nat.eqb]; ring. }
  assert (H4 : forall i, (1 <= i < 2)%nat -> Rabs (lam i) <= 1 / 2 * Rabs (lam 0%nat)).
  { intros i Hi. assert (i = 1)%nat by lia. subst i. unfold lam. cbn [Nat.eqb].
    rewrite Rabs_R1, (Rabs_pos_eq 2) by lra. lra. }
  destruct (c13_rayleigh_error_R 2 (mk_arr 2 2 [2; 0; 0; 1]) q lam (fun _ => 1) (1 / 2)
              (le_S _ _ (le_n 1)) eq_refl eq_refl H1 H2 H3 R1_neq_R0
              ltac:(unfold lam; cbn [Nat.eqb]; lra) ltac:(lra) H4 k)
    as [rho [x [Hst [_ Hb]]]].
  exists rho, x. split; [exact Hst|]. unfold lam in Hb. cbn [Nat.eqb Nat.sub] in Hb. exact Hb.
Qed.
