(* Proofs/ExprReadJuxt.v — C19, clause 2 (partial), WITH juxtaposition: the fragment of
   Proofs/ExprRead.v extended by the juxtapositions the code supports (number·variable, number·constant,
   number·(, variable/constant·number, ·variable, ·constant, ·( — i.e. exactly where
   implied_multiplication_pass inserts its CDot token).  The parser runs on [implied_mul ts], the reference
   reader on the raw [ts]; every rest of the parser is [glue t s] for the last raw token t consumed and the
   raw rest s. *)
From Coq Require Import ZArith NArith List Bool Lia.
From SV Require Import Base.Num Base.Outcome Base.Str Model.Expr Model.RefExpr Proofs.ExprTotal Proofs.ExprRead.
Import ListNotations.
Local Open Scope res_scope.

Section ReadJ.
  Context {T : Type}.
  Notation tok := (token T).
  Notation tree := (expr T).

  (* ---- implied_mul, one token at a time ------------------------------------------------------------ *)
  Definition glue (t : tok) (s : list tok) : list tok :=
    match s with
    | b :: _ => if needs_cdot t b then TOp OCDot :: implied_mul s else implied_mul s
    | [] => []
    end.

  Lemma im_cons (a : tok) s : implied_mul (a :: s) = a :: glue a s.
  Proof.
    destruct s as [|b s]; [reflexivity|].
    change (implied_mul (a :: b :: s))
      with (if needs_cdot a b then a :: TOp OCDot :: implied_mul (b :: s) else a :: implied_mul (b :: s)).
    unfold glue. destruct (needs_cdot a b); reflexivity.
  Qed.

  Lemma glue_inert (t : tok) s : (forall b, needs_cdot t b = false) -> glue t s = implied_mul s.
  Proof. intros H. destruct s as [|b s]; [reflexivity|]. cbn [glue]. rewrite H. reflexivity. Qed.

  (* ---- the fragment ------------------------------------------------------------------------------------ *)
  Definition pair_okJ (a b : tok) : bool :=
    (negb (ends_operand a && starts_atom b) || needs_cdot a b)
    && match b with TOp OSub => ends_operand a | _ => true end.
  Fixpoint fragJ (ts : list tok) : bool :=
    match ts with
    | a :: r => plain a && match r with b :: _ => pair_okJ a b | [] => true end && fragJ r
    | [] => true
    end.
  Definition fragmentJ (ts : list tok) : Prop := fragJ ts = true /\ no_minus_head ts.

  Lemma fragJ_cons a r : fragJ (a :: r) = true -> plain a = true /\ fragJ r = true.
  Proof. cbn [fragJ]. intros H. apply andb_prop in H as [H H2]. apply andb_prop in H as [H1 _]. auto. Qed.
  Lemma fragJ_pair a b r : fragJ (a :: b :: r) = true -> pair_okJ a b = true.
  Proof. cbn [fragJ]. intros H. apply andb_prop in H as [H _]. apply andb_prop in H as [_ H]. exact H. Qed.

  (* t is the last raw token consumed, s the raw rest *)
  Definition Inv (t : tok) (s : list tok) : Prop := ends_operand t = true /\ fragJ (t :: s) = true.

  Lemma needs_cdot_starts (a b : tok) : needs_cdot a b = true -> plain b = true -> starts_atom b = true.
  Proof. destruct a, b; cbn; try discriminate; reflexivity. Qed.

  Lemma atom_no_op (b : tok) (opof : tok -> option oper) :
    starts_atom b = true -> (forall t, opof t <> None -> exists o, t = TOp o) -> opof b = None.
  Proof.
    intros Hb H. destruct (opof b) eqn:E; [|reflexivity].
    destruct (H b ltac:(congruence)) as (o' & ->). discriminate.
  Qed.
  Lemma power_op_is_op (t : tok) : power_op t <> None -> exists o, t = TOp o.
  Proof. destruct t; cbn; try congruence. eauto. Qed.
  Lemma product_op_is_op (t : tok) : product_op t <> None -> exists o, t = TOp o.
  Proof. destruct t; cbn; try congruence. eauto. Qed.
  Lemma sum_op_is_op (t : tok) : sum_op t <> None -> exists o, t = TOp o.
  Proof. destruct t; cbn; try congruence. eauto. Qed.

  (* the two shapes of a rest *)
  Lemma glue_cases t s : Inv t s ->
    (s = [] /\ glue t s = []) \/
    (exists b s0, s = b :: s0 /\ needs_cdot t b = true /\ starts_atom b = true /\
                  glue t s = TOp OCDot :: implied_mul s) \/
    (exists b s0, s = b :: s0 /\ needs_cdot t b = false /\ starts_atom b = false /\
                  glue t s = b :: glue b s0).
  Proof.
    intros (Ht & Hf). destruct s as [|b s0]; [left; split; reflexivity|]. right.
    pose proof (fragJ_pair _ _ _ Hf) as Hp.
    destruct (fragJ_cons _ _ Hf) as (_ & Hf'). destruct (fragJ_cons _ _ Hf') as (Hpb & _).
    cbn [glue]. destruct (needs_cdot t b) eqn:En.
    - left. exists b, s0. split; [reflexivity|]. split; [first [reflexivity|exact En]|].
      split; [apply (needs_cdot_starts t b En Hpb)|reflexivity].
    - right. exists b, s0. split; [reflexivity|]. split; [first [reflexivity|exact En]|].
      split; [|apply im_cons].
      unfold pair_okJ in Hp. rewrite Ht, En in Hp. cbn in Hp.
      destruct (starts_atom b); [discriminate|reflexivity].
  Qed.

  (* ---- skipping chains at a rest ----------------------------------------------------------------------------- *)
  Lemma skips t s bp : Inv t s -> head_ok bp (glue t s) ->
    (bp <= 5 -> forall K operand acc, chain (S K) operand power_op acc s = Some (acc, s)) /\
    (bp <= 4 -> forall K operand acc, juxt_chain (S K) operand acc s = Some (acc, s)) /\
    (bp <= 2 -> forall K operand acc, chain (S K) operand product_op acc s = Some (acc, s)).
  Proof.
    intros HI Hh. destruct (glue_cases t s HI) as [(-> & _)|[(b & s0 & -> & En & Hb & Eg)|(b & s0 & -> & En & Hb & Eg)]].
    - repeat split; intros; reflexivity.
    - rewrite Eg in Hh. cbn in Hh. destruct Hh as (_ & Hh).
      split; [|split]; intros Hbp K operand acc; try lia.
      cbn [chain]. rewrite (atom_no_op b power_op Hb power_op_is_op). reflexivity.
    - rewrite Eg in Hh.
      split; [|split]; intros Hbp K operand acc.
      + destruct b as [| |o| | | |]; cbn; try reflexivity. destruct o; cbn in *; try reflexivity. lia.
      + cbn [juxt_chain]. rewrite Hb. reflexivity.
      + destruct b as [| |o| | | |]; cbn; try reflexivity. destruct o; cbn in *; try reflexivity; lia.
  Qed.

  (* ---- what the reference reader does after a postfix phrase ------------------------------------------------- *)
  Definition tailsJ (K1 K2 K3 K4 N bp : nat) (acc : tree) (ts : list tok) : phrase :=
    if 6 <=? bp then Some (acc, ts) else
    match chain K1 (rd N LExponent) power_op acc ts with
    | None => None
    | Some (a, r1) =>
      if 5 <=? bp then Some (a, r1) else
      match juxt_chain K2 (rd N LPower) a r1 with
      | None => None
      | Some (a2, r2) =>
        if 3 <=? bp then Some (a2, r2) else
        match chain K3 (rd N LUnary) product_op a2 r2 with
        | None => None
        | Some (b, r3) => if 2 <=? bp then Some (b, r3) else chain K4 (rd N LProduct) sum_op b r3
        end
      end
    end.

  Definition level_ofJ (bp : nat) : level :=
    if 6 <=? bp then LExponent else if 5 <=? bp then LPower else if 3 <=? bp then LUnary
    else if 2 <=? bp then LProduct else LSum.

  Definition SimJ (f : nat) : Prop :=
    forall s bp e r', fragJ s = true -> no_minus_head s ->
      @parse_expr T f (implied_mul s) bp = Ok (e, r') ->
      exists s' t n, rd n (level_ofJ bp) s = Some (erase e, s') /\ r' = glue t s' /\ Inv t s'.

  Definition TailsOk (bp : nat) (acc : tree) (s : list tok) (x : tree) (s'' : list tok) : Prop :=
    exists K0 N0, forall K1 K2 K3 K4 N, K0 <= K1 -> K0 <= K2 -> K0 <= K3 -> K0 <= K4 -> N0 <= N ->
      tailsJ K1 K2 K3 K4 N bp acc s = Some (x, s'').

  (* the loop stops at once *)
  Lemma tails_stopJ t s bp acc : Inv t s ->
    match glue t s with TOp o :: _ => o <> OFac /\ binding_pow o < bp | _ => True end ->
    TailsOk bp acc s acc s.
  Proof.
    intros HI Hh. exists 1, 0. intros [|K1] [|K2] [|K3] [|K4] N; try lia. intros _ _ _ _ _.
    assert (Hhead : head_ok bp (glue t s)).
    { destruct (glue t s) as [|[| |o| | | |] g]; cbn; auto. }
    destruct (skips t s bp HI Hhead) as (S1 & S2 & S3).
    unfold tailsJ.
    destruct (Nat.leb_spec 6 bp); [reflexivity|]. rewrite S1 by lia.
    destruct (Nat.leb_spec 5 bp); [reflexivity|]. rewrite S2 by lia.
    destruct (Nat.leb_spec 3 bp); [reflexivity|]. rewrite S3 by lia.
    destruct (Nat.leb_spec 2 bp); [reflexivity|].
    (* bp <= 1: every operator continues the loop, so the head is no operator at all *)
    destruct (glue_cases t s HI) as [(-> & _)|[(b & s0 & -> & En & Hb & Eg)|(b & s0 & -> & En & Hb & Eg)]].
    - reflexivity.
    - rewrite Eg in Hh. cbn in Hh. lia.
    - rewrite Eg in Hh. cbn [chain].
      destruct b as [| |o| | | |]; try reflexivity. destruct Hh as (Hnf & Hh).
      destruct o; cbn in Hh; try lia. contradiction.
  Qed.

  Lemma bin_loopJ f : SimJ f ->
    forall n l t s bp e r'', Inv t s -> head_not_fac (glue t s) ->
      bin_loop (parse_expr f) n l (glue t s) bp = Ok (e, r'') ->
      exists s'' t'', r'' = glue t'' s'' /\ Inv t'' s'' /\ TailsOk bp (erase l) s (erase e) s''.
  Proof.
    intros HSim. induction n as [|n IH]; intros l t s bp e r'' HI Hnf H; [discriminate|].
    cbn [bin_loop] in H.
    assert (Hstop : forall (x : tree) (rr : list tok), Ok (l, glue t s) = Ok (x, rr) ->
              match glue t s with TOp o :: _ => o <> OFac /\ binding_pow o < bp | _ => True end ->
              exists s'' t'', rr = glue t'' s'' /\ Inv t'' s'' /\ TailsOk bp (erase l) s (erase x) s'').
    { intros x rr Hx Ho. injection Hx as <- <-. exists s, t. split; [reflexivity|]. split; [exact HI|].
      apply (tails_stopJ t); assumption. }
    destruct (glue_cases t s HI) as [(-> & Eg)|[(b & s0 & -> & En & Hb & Eg)|(b & s0 & -> & En & Hb & Eg)]];
      rewrite Eg in H, Hnf, Hstop.
    - (* nothing left *) apply (Hstop _ _ H I).
    - (* an inserted CDot: juxtaposition *)
      destruct HI as (Ht & Hf). destruct (fragJ_cons _ _ Hf) as (_ & Hfs).
      cbn [binding_pow] in H, Hstop.
      destruct (4 <? bp)%nat eqn:Eb.
      { apply (Hstop _ _ H). apply Nat.ltb_lt in Eb. split; [discriminate|exact Eb]. }
      apply Nat.ltb_ge in Eb. cbn [oper_eqb] in H.
      destruct (parse_expr f (implied_mul (b :: s0)) (4 + 1)) as [[rg r1]|e0|w] eqn:E; cbn [bind] in H; try discriminate.
      pose proof (parse_expr_head f _ _ _ _ E) as Hhead.
      assert (Hnm : no_minus_head (b :: s0)) by (destruct b as [| |o| | | |]; try exact I; discriminate).
      destruct (HSim _ _ _ _ Hfs Hnm E) as (s1 & t1 & n1 & Hoperand & -> & HI1).
      destruct (IH _ _ _ _ _ _ HI1 (head_ok_not_fac _ _ Hhead) H) as (s'' & t'' & -> & HI'' & K0 & N0 & HIH).
      exists s'', t''. split; [reflexivity|]. split; [exact HI''|].
      exists (S (S K0)), (Nat.max N0 (8 * length (b :: s0) + 7)).
      intros K1 K2 K3 K4 N HK1 HK2 HK3 HK4 HN.
      pose proof (rd_lift _ _ _ _ _ N Hoperand ltac:(lia)) as Hop. clear Hoperand.
      destruct K1 as [|K1]; [lia|]. destruct K2 as [|K2]; [lia|].
      specialize (HIH (S K1) K2 K3 K4 N ltac:(lia) ltac:(lia) ltac:(lia) ltac:(lia) ltac:(lia)).
      destruct (skips t1 s1 5 HI1 Hhead) as (S1 & _ & _).
      unfold tailsJ in HIH |- *. cbn [erase] in HIH.
      destruct (Nat.leb_spec 6 bp); [lia|]. destruct (Nat.leb_spec 5 bp); [lia|].
      rewrite S1 in HIH by lia.
      cbn [chain]. rewrite (atom_no_op b power_op Hb power_op_is_op).
      cbn [juxt_chain]. rewrite Hb. unfold level_ofJ in Hop. cbn in Hop. rewrite Hop. exact HIH.
    - (* a raw token *)
      destruct HI as (Ht & Hf). destruct (fragJ_cons _ _ Hf) as (_ & Hfs).
      destruct (fragJ_cons _ _ Hfs) as (Hplain & Hfs0).
      destruct b as [x|v|op|fn|c| |]; try (apply (Hstop _ _ H I)).
      assert (Hnfac : op <> OFac) by (intros ->; exact Hnf).
      destruct (binding_pow op <? bp)%nat eqn:Eb.
      { apply (Hstop _ _ H). apply Nat.ltb_lt in Eb. auto. }
      apply Nat.ltb_ge in Eb.
      rewrite (glue_inert (TOp op) s0) in H by reflexivity.
      destruct (parse_expr f (implied_mul s0) (binding_pow op + 1)) as [[rg r1]|e0|w] eqn:E; cbn [bind] in H; try discriminate.
      pose proof (parse_expr_head f _ _ _ _ E) as Hhead.
      assert (Hnm : no_minus_head s0).
      { destruct s0 as [|b2 s2]; [exact I|]. pose proof (fragJ_pair _ _ _ Hfs) as Hp.
        destruct b2 as [| |o2| | | |]; try exact I. destruct o2; try exact I.
        unfold pair_okJ in Hp. destruct op; cbn in Hp; try discriminate. contradiction. }
      destruct (HSim _ _ _ _ Hfs0 Hnm E) as (s1 & t1 & n1 & Hoperand & -> & HI1).
      destruct (IH _ _ _ _ _ _ HI1 (head_ok_not_fac _ _ Hhead) H) as (s'' & t'' & -> & HI'' & K0 & N0 & HIH).
      exists s'', t''. split; [reflexivity|]. split; [exact HI''|].
      exists (S (S K0)), (Nat.max N0 (8 * length s0 + 7)).
      intros K1 K2 K3 K4 N HK1 HK2 HK3 HK4 HN.
      pose proof (rd_lift _ _ _ _ _ N Hoperand ltac:(lia)) as Hop. clear Hoperand.
      destruct K1 as [|K1]; [lia|]. destruct K2 as [|K2]; [lia|].
      destruct K3 as [|K3]; [lia|]. destruct K4 as [|K4]; [lia|].
      destruct op; cbn in Hplain, Eb, Hhead, Hop; try discriminate; try contradiction;
        cbn [oper_eqb] in HIH; cbn [erase] in HIH.
      + (* Add *)
        specialize (HIH (S K1) (S K2) (S K3) K4 N ltac:(lia) ltac:(lia) ltac:(lia) ltac:(lia) ltac:(lia)).
        destruct (skips t1 s1 2 HI1 Hhead) as (S1 & S2 & S3).
        unfold tailsJ in HIH |- *.
        destruct (Nat.leb_spec 6 bp); [lia|]. destruct (Nat.leb_spec 5 bp); [lia|].
        destruct (Nat.leb_spec 3 bp); [lia|]. destruct (Nat.leb_spec 2 bp); [lia|].
        rewrite S1, S2, S3 in HIH by lia.
        cbn [chain juxt_chain power_op product_op sum_op starts_atom]. unfold level_ofJ in Hop. cbn in Hop.
        rewrite Hop. exact HIH.
      + (* Sub *)
        specialize (HIH (S K1) (S K2) (S K3) K4 N ltac:(lia) ltac:(lia) ltac:(lia) ltac:(lia) ltac:(lia)).
        destruct (skips t1 s1 2 HI1 Hhead) as (S1 & S2 & S3).
        unfold tailsJ in HIH |- *.
        destruct (Nat.leb_spec 6 bp); [lia|]. destruct (Nat.leb_spec 5 bp); [lia|].
        destruct (Nat.leb_spec 3 bp); [lia|]. destruct (Nat.leb_spec 2 bp); [lia|].
        rewrite S1, S2, S3 in HIH by lia.
        cbn [chain juxt_chain power_op product_op sum_op starts_atom]. unfold level_ofJ in Hop. cbn in Hop.
        rewrite Hop. exact HIH.
      + (* Div *)
        specialize (HIH (S K1) (S K2) K3 (S K4) N ltac:(lia) ltac:(lia) ltac:(lia) ltac:(lia) ltac:(lia)).
        destruct (skips t1 s1 3 HI1 Hhead) as (S1 & S2 & _).
        unfold tailsJ in HIH |- *.
        destruct (Nat.leb_spec 6 bp); [lia|]. destruct (Nat.leb_spec 5 bp); [lia|]. destruct (Nat.leb_spec 3 bp); [lia|].
        rewrite S1, S2 in HIH by lia.
        cbn [chain juxt_chain power_op product_op sum_op starts_atom]. unfold level_ofJ in Hop. cbn in Hop.
        rewrite Hop. exact HIH.
      + (* Mul *)
        specialize (HIH (S K1) (S K2) K3 (S K4) N ltac:(lia) ltac:(lia) ltac:(lia) ltac:(lia) ltac:(lia)).
        destruct (skips t1 s1 3 HI1 Hhead) as (S1 & S2 & _).
        unfold tailsJ in HIH |- *.
        destruct (Nat.leb_spec 6 bp); [lia|]. destruct (Nat.leb_spec 5 bp); [lia|]. destruct (Nat.leb_spec 3 bp); [lia|].
        rewrite S1, S2 in HIH by lia.
        cbn [chain juxt_chain power_op product_op sum_op starts_atom]. unfold level_ofJ in Hop. cbn in Hop.
        rewrite Hop. exact HIH.
      + (* Caret *)
        specialize (HIH K1 (S K2) (S K3) (S K4) N ltac:(lia) ltac:(lia) ltac:(lia) ltac:(lia) ltac:(lia)).
        unfold tailsJ in HIH |- *.
        destruct (Nat.leb_spec 6 bp); [lia|].
        cbn [chain power_op]. unfold level_ofJ in Hop. cbn in Hop.
        rewrite Hop. exact HIH.
  Qed.

  (* the factorials after an atom *)
  Definition is_fac (b : tok) : bool := match b with TOp OFac => true | _ => false end.
  Lemma strip_fac_nonfac (l : tree) b r : is_fac b = false -> strip_fac l (b :: r) = (l, b :: r).
  Proof. destruct b as [| |o| | | |]; try reflexivity. destruct o; try reflexivity. discriminate. Qed.
  Lemma bangs_nonfac (l : tree) b r : is_fac b = false -> bangs l (b :: r) = (l, b :: r).
  Proof. destruct b as [| |o| | | |]; try reflexivity. destruct o; try reflexivity. discriminate. Qed.

  Lemma strip_fac_glue : forall s t (l : tree), Inv t s ->
    exists t' s', strip_fac l (glue t s) = (fst (strip_fac l (glue t s)), glue t' s') /\
                  bangs (erase l) s = (erase (fst (strip_fac l (glue t s))), s') /\ Inv t' s'.
  Proof.
    induction s as [|b s0 IH]; intros t l HI.
    - exists t, []. cbn. repeat split; try reflexivity; apply HI.
    - destruct (glue_cases t (b :: s0) HI) as [(E & _)|[(b' & s' & E & En & Hb & Eg)|(b' & s' & E & En & Hb & Eg)]];
        [discriminate| |]; injection E as <- <-.
      + (* an inserted CDot follows: no factorial sign *)
        exists t, (b :: s0). rewrite Eg.
        rewrite (strip_fac_nonfac l (TOp OCDot)) by reflexivity. cbn [fst].
        assert (Hnb : is_fac b = false) by (destruct b as [| |o| | | |]; try reflexivity; discriminate).
        rewrite (bangs_nonfac _ _ _ Hnb). rewrite <- Eg. repeat split; try reflexivity; apply HI.
      + destruct (is_fac b) eqn:Hfb.
        * destruct b as [| |o| | | |]; try discriminate. destruct o; try discriminate.
          destruct HI as (Ht & Hf). destruct (fragJ_cons _ _ Hf) as (_ & Hfs).
          assert (HI' : Inv (TOp OFac) s0) by (split; [reflexivity|exact Hfs]).
          destruct (IH (TOp OFac) (EPost OFac l) HI') as (t' & s' & E1 & E2 & HI'').
          exists t', s'. rewrite Eg. cbn [strip_fac bangs]. split; [exact E1|]. split; [exact E2|exact HI''].
        * exists t, (b :: s0). rewrite Eg.
          rewrite (strip_fac_nonfac l b _ Hfb). cbn [fst]. rewrite (bangs_nonfac _ _ _ Hfb).
          rewrite <- Eg. repeat split; try reflexivity; apply HI.
  Qed.

  Lemma glue_rparen t s r2 : Inv t s -> glue t s = TRParen :: r2 ->
    exists s2, s = TRParen :: s2 /\ r2 = glue TRParen s2 /\ Inv TRParen s2.
  Proof.
    intros HI E.
    destruct (glue_cases t s HI) as [(_ & Eg)|[(b & s0 & -> & En & Hb & Eg)|(b & s0 & -> & En & Hb & Eg)]];
      rewrite Eg in E; try discriminate.
    injection E as -> <-. exists s0. split; [reflexivity|]. split; [reflexivity|].
    destruct HI as (_ & Hf). destruct (fragJ_cons _ _ Hf) as (_ & Hfs). split; [reflexivity|exact Hfs].
  Qed.

  Lemma simJ : forall f, SimJ f.
  Proof.
    induction f as [|f IHf]; intros s bp e r' Hf Hnm H; [discriminate|].
    destruct s as [|a s0]; [discriminate|].
    rewrite im_cons in H. rewrite parse_expr_unfold in H.
    destruct (fragJ_cons _ _ Hf) as (Hplain & Hf0).
    (* the atom *)
    assert (Hatom : exists l r0, prefix_part f (a :: glue a s0) = Ok (l, r0) /\
              exists t1 s1 n, rd n LAtom (a :: s0) = Some (erase l, s1) /\ r0 = glue t1 s1 /\ Inv t1 s1).
    { destruct (prefix_part f (a :: glue a s0)) as [[l r0]|e0|w] eqn:E; cbn [bind] in H; try discriminate.
      exists l, r0. split; [reflexivity|]. unfold prefix_part in E.
      destruct a as [x|v|op|fn|c| |]; try discriminate.
      - injection E as <- <-. exists (TNum x), s0, 1. repeat split; try reflexivity; exact Hf.
      - injection E as <- <-. exists (TVar v), s0, 1. repeat split; try reflexivity; exact Hf.
      - destruct (oper_eqb op OSub) eqn:Eo; [|discriminate]. destruct op; try discriminate. contradiction.
      - injection E as <- <-. exists (TConst c), s0, 1. repeat split; try reflexivity; exact Hf.
      - rewrite (glue_inert TLParen s0) in E by reflexivity.
        destruct (parse_expr f (implied_mul s0) 0) as [[e1 r1]|e1|w1] eqn:E1; cbn [bind] in E; try discriminate.
        destruct r1 as [|t1 r2]; [discriminate|]. destruct t1; try discriminate.
        injection E as <- <-.
        assert (Hnm' : no_minus_head s0).
        { destruct s0 as [|b2 s2]; [exact I|]. pose proof (fragJ_pair _ _ _ Hf) as Hp.
          destruct b2 as [| |o2| | | |]; try exact I. destruct o2; try exact I. discriminate. }
        destruct (IHf _ _ _ _ Hf0 Hnm' E1) as (s1 & t1 & n & Hn & Er & HI1).
        destruct (glue_rparen _ _ _ HI1 (eq_sym Er)) as (s2 & -> & -> & HI2).
        exists TRParen, s2, (S n). split; [|split; [reflexivity|exact HI2]].
        unfold level_ofJ in Hn. cbn in Hn. cbn [rd]. rewrite Hn, erase_set_paren. reflexivity. }
    destruct Hatom as (l & r0 & E & t1 & s1 & na & Hatom & -> & HI1).
    rewrite E in H. cbn [bind] in H.
    destruct (strip_fac_glue s1 t1 l HI1) as (t2 & s2 & E2 & Hb & HI2).
    pose proof (strip_fac_head (glue t1 s1) l) as Hsf.
    rewrite E2 in H, Hsf. cbn [snd] in Hsf.
    set (l' := fst (strip_fac l (glue t1 s1))) in *.
    assert (Hpost : rd (S na) LPostfix (a :: s0) = Some (erase l', s2)).
    { cbn [rd]. rewrite Hatom, Hb. reflexivity. }
    destruct (bin_loopJ f IHf _ _ _ _ _ _ _ HI2 Hsf H) as (s'' & t'' & -> & HI'' & K0 & N0 & Ht).
    exists s'', t''.
    specialize (Ht K0 K0 K0 K0 N0 (le_n _) (le_n _) (le_n _) (le_n _) (le_n _)).
    unfold tailsJ in Ht. unfold level_ofJ.
    destruct (6 <=? bp).
    { injection Ht as <- <-. exists (S (S na)). split; [|split; [reflexivity|exact HI'']].
      apply asm_exponent; assumption. }
    destruct (chain K0 (rd N0 LExponent) power_op (erase l') s2) as [[x1 r1]|] eqn:C1; [|discriminate].
    destruct (asm_power _ _ _ _ _ _ _ _ Hpost C1) as (np & Hp).
    destruct (5 <=? bp).
    { injection Ht as <- <-. exists np. split; [exact Hp|split; [reflexivity|exact HI'']]. }
    destruct (juxt_chain K0 (rd N0 LPower) x1 r1) as [[a2 r2]|] eqn:C2; [|discriminate].
    destruct (asm_juxt _ _ _ _ _ _ _ _ Hp C2) as (nj & Hj).
    pose proof (asm_unary _ _ _ Hnm Hj) as Hu.
    destruct (3 <=? bp).
    { injection Ht as <- <-. exists (S nj). split; [exact Hu|split; [reflexivity|exact HI'']]. }
    destruct (chain K0 (rd N0 LUnary) product_op a2 r2) as [[b3 r3]|] eqn:C3; [|discriminate].
    destruct (asm_product _ _ _ _ _ _ _ _ Hu C3) as (npr & Hpr).
    destruct (2 <=? bp).
    { injection Ht as <- <-. exists npr. split; [exact Hpr|split; [reflexivity|exact HI'']]. }
    destruct (asm_sum _ _ _ _ _ _ _ _ Hpr Ht) as (ns & Hs).
    exists ns. split; [exact Hs|split; [reflexivity|exact HI'']].
  Qed.

  Lemma glue_nil t s : Inv t s -> glue t s = [] -> s = [].
  Proof.
    intros HI E.
    destruct (glue_cases t s HI) as [(-> & _)|[(b & s0 & -> & En & Hb & Eg)|(b & s0 & -> & En & Hb & Eg)]];
      [reflexivity| |]; rewrite Eg in E; discriminate.
  Qed.

  Lemma parse_unfolded_readsJ : forall (ts : list tok) e,
    fragmentJ ts -> parse_unfolded ts = Ok e -> ref_read ts = Some (erase e).
  Proof.
    intros ts e (Hf & Hnm) H. unfold parse_unfolded in H.
    destruct (parse_expr (S (length (implied_mul ts))) (implied_mul ts) 0) as [[e1 r]|e1|w] eqn:E; cbn [bind] in H; try discriminate.
    destruct r; [|discriminate]. injection H as <-.
    destruct (simJ _ _ _ _ _ Hf Hnm E) as (s' & t & n & Hn & Er & HI).
    rewrite (glue_nil _ _ HI (eq_sym Er)) in Hn.
    apply (ref_read_of_rd n). exact Hn.
  Qed.
End ReadJ.

(* ---- values (R instance) ----------------------------------------------------------------------------------- *)
From Coq Require Import Reals.
From SV Require Import Proofs.ExprFold.

Lemma c19_parser_reads_partial_lemma : forall (ts : list (token R)) (e : expr R),
  fragmentJ ts -> parse_unfolded ts = Ok e ->
  exists e', ref_read ts = Some e' /\ e' = erase e /\ forall rho, denote e rho = denote e' rho.
Proof.
  intros ts e Hf H. exists (erase e). split; [apply parse_unfolded_readsJ; assumption|].
  split; [reflexivity|]. intros rho. symmetry. apply denote_erase.
Qed.

Lemma c19_parser_reads_folded_partial_lemma : forall (ts : list (token R)) (e : expr R),
  fragmentJ ts -> parser ts = Ok e ->
  exists u e', parse_unfolded ts = Ok u /\ ref_read ts = Some e' /\
    forall rho v, denote e' rho = Some v -> pow_safe u rho -> denote e rho = Some v.
Proof.
  intros ts e Hf H. unfold parser in H.
  destruct (parse_unfolded ts) as [u|e0|w] eqn:E; cbn [bind] in H; try discriminate.
  exists u, (erase u). split; [reflexivity|]. split; [apply parse_unfolded_readsJ; assumption|].
  intros rho v Hv Hs. rewrite denote_erase in Hv.
  rewrite fold_operations_foldS in H. injection H as <-.
  apply foldS_sound; assumption.
Qed.
