(* Proofs/ExprReadJuxt.v — C19, clause 2: the simulation between the precedence-climbing parser and the
   stratified reference reader, on token lists written with numbers, variables, constants, functions,
   parentheses, + - * / ^ !, prefix minus anywhere, and the juxtapositions the code supports (exactly where
   implied_multiplication_pass inserts its CDot token).  Not covered: % and an explicit · (outside the
   property's operator list; the code gives them their own binding powers).
   The parser runs on [implied_mul ts], the reference reader on the raw [ts]; every rest of the parser is
   [glue t s] for the last raw token t consumed and the raw rest s.  The two trees agree up to the paren flags
   and up to the scope of a leading minus of a product: the parser reads -a*b/c as -((a*b)/c), the reference
   as ((-a)*b)/c — relation [simr], which implies equal values (the minus commutes with * and /). *)
From Coq Require Import ZArith NArith List Bool Lia.
From SV Require Import Base.Num Base.Outcome Base.Str Model.Expr Model.RefExpr Proofs.ExprTotal Proofs.ExprRead.
Import ListNotations.
Local Open Scope res_scope.

Section ReadJ.
  Context {T : Type}.
  Notation tok := (token T).
  Notation tree := (expr T).

  (* ---- implied_mul, one token at a time ------------------------------------------------------------ *)
  Definition glue (t : tok) (s : list tok) : list tok :=
    match s with
    | b :: _ => if needs_cdot t b then TOp OCDot :: implied_mul s else implied_mul s
    | [] => []
    end.

  Lemma im_cons (a : tok) s : implied_mul (a :: s) = a :: glue a s.
  Proof.
    destruct s as [|b s]; [reflexivity|].
    change (implied_mul (a :: b :: s))
      with (if needs_cdot a b then a :: TOp OCDot :: implied_mul (b :: s) else a :: implied_mul (b :: s)).
    unfold glue. destruct (needs_cdot a b); reflexivity.
  Qed.

  Lemma glue_inert (t : tok) s : (forall b, needs_cdot t b = false) -> glue t s = implied_mul s.
  Proof. intros H. destruct s as [|b s]; [reflexivity|]. cbn [glue]. rewrite H. reflexivity. Qed.

  (* ---- the fragment ------------------------------------------------------------------------------------ *)
  (* tokens: everything except % and an explicit · *)
  Definition plain (t : tok) : bool :=
    match t with TOp ORem => false | TOp OCDot => false | _ => true end.
  (* neighbours: an operand end is followed by an operand start only where the code inserts a CDot *)
  Definition pair_okJ (a b : tok) : bool := negb (ends_operand a && starts_atom b) || needs_cdot a b.
  Fixpoint fragJ (ts : list tok) : bool :=
    match ts with
    | a :: r => plain a && match r with b :: _ => pair_okJ a b | [] => true end && fragJ r
    | [] => true
    end.

  Lemma fragJ_cons a r : fragJ (a :: r) = true -> plain a = true /\ fragJ r = true.
  Proof. cbn [fragJ]. intros H. apply andb_prop in H as [H H2]. apply andb_prop in H as [H1 _]. auto. Qed.
  Lemma fragJ_pair a b r : fragJ (a :: b :: r) = true -> pair_okJ a b = true.
  Proof. cbn [fragJ]. intros H. apply andb_prop in H as [H _]. apply andb_prop in H as [_ H]. exact H. Qed.

  (* ---- code tree ~ reference tree ------------------------------------------------------------------------ *)
  Definition prodo (o : oper) : Prop := o = OMul \/ o = ODiv \/ o = ORem.
  (* the reference puts the minus on the first factor of a product *)
  Inductive Push : tree -> tree -> Prop :=
  | Push_here u : Push u (EPre OSub u)
  | Push_bin o A B x p : prodo o -> Push A B -> Push (EBin o A x p) (EBin o B x p).

  Inductive simr : tree -> tree -> Prop :=
  | sr_num x : simr (ENum x) (ENum x)
  | sr_var v : simr (EVar v) (EVar v)
  | sr_const c : simr (EConst c) (EConst c)
  | sr_fun f i i' : simr i i' -> simr (EFun f i) (EFun f i')
  | sr_pre o v v' : simr v v' -> simr (EPre o v) (EPre o v')
  | sr_post o v v' : simr v v' -> simr (EPost o v) (EPost o v')
  | sr_bin o l l' r r' p p' : simr l l' -> simr r r' -> simr (EBin o l r p) (EBin o l' r' p')
  | sr_push v u w : simr v u -> Push u w -> simr (EPre OSub v) w.

  Lemma simr_set_paren e x : simr e x -> simr (set_paren e) x.
  Proof. intros H. destruct e; try exact H. cbn [set_paren]. inversion H; subst. constructor; assumption. Qed.

  Lemma product_op_range (t : tok) o : product_op t = Some o -> prodo o.
  Proof.
    destruct t as [| |o'| | | |]; cbn; try discriminate. unfold prodo.
    destruct o'; cbn; try discriminate; intros E; injection E as <-; auto.
  Qed.

  Lemma chain_push : forall k operand (acc acc' : tree) (ts : list tok) u s,
    Push acc acc' -> chain k operand product_op acc ts = Some (u, s) ->
    exists w, chain k operand product_op acc' ts = Some (w, s) /\ Push u w.
  Proof.
    induction k as [|k IH]; intros operand acc acc' ts u s HP H; [discriminate|].
    cbn [chain] in H |- *. destruct ts as [|t r]; [injection H as <- <-; eauto|].
    destruct (product_op t) as [o|] eqn:Eo; [|injection H as <- <-; eauto].
    destruct (operand r) as [[x r']|]; [|discriminate].
    apply (IH _ _ (EBin o acc' x false) _ _ _ (Push_bin o acc acc' x false (product_op_range _ _ Eo) HP) H).
  Qed.

  (* t is the last raw token consumed, s the raw rest *)
  Definition Inv (t : tok) (s : list tok) : Prop := ends_operand t = true /\ fragJ (t :: s) = true.

  Lemma needs_cdot_starts (a b : tok) : needs_cdot a b = true -> starts_atom b = true.
  Proof. destruct a, b; cbn; try discriminate; reflexivity. Qed.

  Lemma atom_no_op (b : tok) (opof : tok -> option oper) :
    starts_atom b = true -> (forall t, opof t <> None -> exists o, t = TOp o) -> opof b = None.
  Proof.
    intros Hb H. destruct (opof b) eqn:E; [|reflexivity].
    destruct (H b ltac:(congruence)) as (o' & ->). discriminate.
  Qed.
  Lemma power_op_is_op (t : tok) : power_op t <> None -> exists o, t = TOp o.
  Proof. destruct t; cbn; try congruence. eauto. Qed.

  Lemma atom_no_minus (b : tok) s : starts_atom b = true -> no_minus_head (b :: s).
  Proof. destruct b as [| |o| | | |]; cbn; try discriminate; auto. Qed.

  (* the two shapes of a rest *)
  Lemma glue_cases t s : Inv t s ->
    (s = [] /\ glue t s = []) \/
    (exists b s0, s = b :: s0 /\ needs_cdot t b = true /\ starts_atom b = true /\
                  glue t s = TOp OCDot :: implied_mul s) \/
    (exists b s0, s = b :: s0 /\ needs_cdot t b = false /\ starts_atom b = false /\
                  glue t s = b :: glue b s0).
  Proof.
    intros (Ht & Hf). destruct s as [|b s0]; [left; split; reflexivity|]. right.
    pose proof (fragJ_pair _ _ _ Hf) as Hp.
    cbn [glue]. destruct (needs_cdot t b) eqn:En.
    - left. exists b, s0. split; [reflexivity|]. split; [first [reflexivity|exact En]|].
      split; [apply (needs_cdot_starts t b En)|reflexivity].
    - right. exists b, s0. split; [reflexivity|]. split; [first [reflexivity|exact En]|].
      split; [|apply im_cons].
      unfold pair_okJ in Hp. rewrite Ht, En in Hp. cbn in Hp.
      destruct (starts_atom b); [discriminate|reflexivity].
  Qed.

  (* ---- skipping chains at a rest ----------------------------------------------------------------------------- *)
  Lemma skips t s bp : Inv t s -> head_ok bp (glue t s) ->
    (bp <= 5 -> forall K operand acc, chain (S K) operand power_op acc s = Some (acc, s)) /\
    (bp <= 4 -> forall K operand acc, juxt_chain (S K) operand acc s = Some (acc, s)) /\
    (bp <= 2 -> forall K operand acc, chain (S K) operand product_op acc s = Some (acc, s)).
  Proof.
    intros HI Hh. destruct (glue_cases t s HI) as [(-> & _)|[(b & s0 & -> & En & Hb & Eg)|(b & s0 & -> & En & Hb & Eg)]].
    - repeat split; intros; reflexivity.
    - rewrite Eg in Hh. cbn in Hh. destruct Hh as (_ & Hh).
      split; [|split]; intros Hbp K operand acc; try lia.
      cbn [chain]. rewrite (atom_no_op b power_op Hb power_op_is_op). reflexivity.
    - rewrite Eg in Hh.
      split; [|split]; intros Hbp K operand acc.
      + destruct b as [| |o| | | |]; cbn; try reflexivity. destruct o; cbn in *; try reflexivity. lia.
      + cbn [juxt_chain]. rewrite Hb. reflexivity.
      + destruct b as [| |o| | | |]; cbn; try reflexivity. destruct o; cbn in *; try reflexivity; lia.
  Qed.

  (* ---- what the reference reader does after a postfix phrase ------------------------------------------------- *)
  Definition tailsJ (K1 K2 K3 K4 N bp : nat) (acc : tree) (ts : list tok) : phrase :=
    if 6 <=? bp then Some (acc, ts) else
    match chain K1 (rd N LExponent) power_op acc ts with
    | None => None
    | Some (a, r1) =>
      if 5 <=? bp then Some (a, r1) else
      match juxt_chain K2 (rd N LPower) a r1 with
      | None => None
      | Some (a2, r2) =>
        if 3 <=? bp then Some (a2, r2) else
        match chain K3 (rd N LUnary) product_op a2 r2 with
        | None => None
        | Some (b, r3) => if 2 <=? bp then Some (b, r3) else chain K4 (rd N LProduct) sum_op b r3
        end
      end
    end.

  Definition level_ofJ (bp : nat) : level :=
    if 6 <=? bp then LExponent else if 5 <=? bp then LPower else if 3 <=? bp then LUnary
    else if 2 <=? bp then LProduct else LSum.

  (* bp = 5 is the operand of a juxtaposition: it starts with an atom, never with a minus *)
  Definition SimJ (f : nat) : Prop :=
    forall s bp e r', fragJ s = true -> (bp = 5 -> no_minus_head s) ->
      @parse_expr T f (implied_mul s) bp = Ok (e, r') ->
      exists s' t n x, rd n (level_ofJ bp) s = Some (x, s') /\ simr e x /\ r' = glue t s' /\ Inv t s'.

  Definition TailsOk (bp : nat) (acc : tree) (s : list tok) (x : tree) (s'' : list tok) : Prop :=
    exists K0 N0, forall K1 K2 K3 K4 N, K0 <= K1 -> K0 <= K2 -> K0 <= K3 -> K0 <= K4 -> N0 <= N ->
      tailsJ K1 K2 K3 K4 N bp acc s = Some (x, s'').

  (* the loop stops at once *)
  Lemma tails_stopJ t s bp acc : Inv t s ->
    match glue t s with TOp o :: _ => o <> OFac /\ binding_pow o < bp | _ => True end ->
    TailsOk bp acc s acc s.
  Proof.
    intros HI Hh. exists 1, 0. intros [|K1] [|K2] [|K3] [|K4] N; try lia. intros _ _ _ _ _.
    assert (Hhead : head_ok bp (glue t s)).
    { destruct (glue t s) as [|[| |o| | | |] g]; cbn; auto. }
    destruct (skips t s bp HI Hhead) as (S1 & S2 & S3).
    unfold tailsJ.
    destruct (Nat.leb_spec 6 bp); [reflexivity|]. rewrite S1 by lia.
    destruct (Nat.leb_spec 5 bp); [reflexivity|]. rewrite S2 by lia.
    destruct (Nat.leb_spec 3 bp); [reflexivity|]. rewrite S3 by lia.
    destruct (Nat.leb_spec 2 bp); [reflexivity|].
    (* bp <= 1: every operator continues the loop, so the head is no operator at all *)
    destruct (glue_cases t s HI) as [(-> & _)|[(b & s0 & -> & En & Hb & Eg)|(b & s0 & -> & En & Hb & Eg)]].
    - reflexivity.
    - rewrite Eg in Hh. cbn in Hh. lia.
    - rewrite Eg in Hh. cbn [chain].
      destruct b as [| |o| | | |]; try reflexivity. destruct Hh as (Hnf & Hh).
      destruct o; cbn in Hh; try lia. contradiction.
  Qed.

  Lemma bin_loopJ f : SimJ f ->
    forall n l t s bp e r'' acc, Inv t s -> head_not_fac (glue t s) -> simr l acc ->
      bin_loop (parse_expr f) n l (glue t s) bp = Ok (e, r'') ->
      exists s'' t'' x, r'' = glue t'' s'' /\ Inv t'' s'' /\ simr e x /\ TailsOk bp acc s x s''.
  Proof.
    intros HSim. induction n as [|n IH]; intros l t s bp e r'' acc HI Hnf Hacc H; [discriminate|].
    cbn [bin_loop] in H.
    assert (Hstop : forall (y : tree) (rr : list tok), Ok (l, glue t s) = Ok (y, rr) ->
              match glue t s with TOp o :: _ => o <> OFac /\ binding_pow o < bp | _ => True end ->
              exists s'' t'' x, rr = glue t'' s'' /\ Inv t'' s'' /\ simr y x /\ TailsOk bp acc s x s'').
    { intros y rr Hy Ho. injection Hy as <- <-. exists s, t, acc. split; [reflexivity|]. split; [exact HI|].
      split; [exact Hacc|]. apply (tails_stopJ t); assumption. }
    destruct (glue_cases t s HI) as [(-> & Eg)|[(b & s0 & -> & En & Hb & Eg)|(b & s0 & -> & En & Hb & Eg)]];
      rewrite Eg in H, Hnf, Hstop.
    - (* nothing left *) apply (Hstop _ _ H I).
    - (* an inserted CDot: juxtaposition *)
      destruct HI as (Ht & Hf). destruct (fragJ_cons _ _ Hf) as (_ & Hfs).
      cbn [binding_pow] in H, Hstop.
      destruct (4 <? bp)%nat eqn:Eb.
      { apply (Hstop _ _ H). apply Nat.ltb_lt in Eb. split; [discriminate|exact Eb]. }
      apply Nat.ltb_ge in Eb. cbn [oper_eqb] in H.
      destruct (parse_expr f (implied_mul (b :: s0)) (4 + 1)) as [[rg r1]|e0|w] eqn:E; cbn [bind] in H; try discriminate.
      pose proof (parse_expr_head f _ _ _ _ E) as Hhead.
      destruct (HSim _ _ _ _ Hfs (fun _ => atom_no_minus b s0 Hb) E) as (s1 & t1 & n1 & xr & Hoperand & Hxr & -> & HI1).
      destruct (IH _ _ _ _ _ _ (EBin OMul acc xr false) HI1 (head_ok_not_fac _ _ Hhead)
                   (sr_bin OMul _ _ _ _ false false Hacc Hxr) H)
        as (s'' & t'' & x & -> & HI'' & Hx & K0 & N0 & HIH).
      exists s'', t'', x. split; [reflexivity|]. split; [exact HI''|]. split; [exact Hx|].
      exists (S (S K0)), (Nat.max N0 (8 * length (b :: s0) + 7)).
      intros K1 K2 K3 K4 N HK1 HK2 HK3 HK4 HN.
      pose proof (rd_lift _ _ _ _ _ N Hoperand ltac:(lia)) as Hop. clear Hoperand.
      destruct K1 as [|K1]; [lia|]. destruct K2 as [|K2]; [lia|].
      specialize (HIH (S K1) K2 K3 K4 N ltac:(lia) ltac:(lia) ltac:(lia) ltac:(lia) ltac:(lia)).
      destruct (skips t1 s1 5 HI1 Hhead) as (S1 & _ & _).
      unfold tailsJ in HIH |- *.
      destruct (Nat.leb_spec 6 bp); [lia|]. destruct (Nat.leb_spec 5 bp); [lia|].
      rewrite S1 in HIH by lia.
      cbn [chain]. rewrite (atom_no_op b power_op Hb power_op_is_op).
      cbn [juxt_chain]. rewrite Hb. unfold level_ofJ in Hop. cbn in Hop. rewrite Hop. exact HIH.
    - (* a raw token *)
      destruct HI as (Ht & Hf). destruct (fragJ_cons _ _ Hf) as (_ & Hfs).
      destruct (fragJ_cons _ _ Hfs) as (Hplain & Hfs0).
      destruct b as [y|v|op|fn|c| |]; try (apply (Hstop _ _ H I)).
      assert (Hnfac : op <> OFac) by (intros ->; exact Hnf).
      destruct (binding_pow op <? bp)%nat eqn:Eb.
      { apply (Hstop _ _ H). apply Nat.ltb_lt in Eb. auto. }
      apply Nat.ltb_ge in Eb.
      rewrite (glue_inert (TOp op) s0) in H by reflexivity.
      destruct (parse_expr f (implied_mul s0) (binding_pow op + 1)) as [[rg r1]|e0|w] eqn:E; cbn [bind] in H; try discriminate.
      pose proof (parse_expr_head f _ _ _ _ E) as Hhead.
      assert (Hn5 : binding_pow op + 1 = 5 -> no_minus_head s0).
      { intros E5. exfalso. destruct op; cbn in E5, Hplain; try discriminate; lia. }
      destruct (HSim _ _ _ _ Hfs0 Hn5 E) as (s1 & t1 & n1 & xr & Hoperand & Hxr & -> & HI1).
      destruct (IH _ _ _ _ _ _ (EBin (if oper_eqb op OCDot then OMul else op) acc xr false) HI1
                   (head_ok_not_fac _ _ Hhead) (sr_bin _ _ _ _ _ false false Hacc Hxr) H)
        as (s'' & t'' & x & -> & HI'' & Hx & K0 & N0 & HIH).
      exists s'', t'', x. split; [reflexivity|]. split; [exact HI''|]. split; [exact Hx|].
      exists (S (S K0)), (Nat.max N0 (8 * length s0 + 7)).
      intros K1 K2 K3 K4 N HK1 HK2 HK3 HK4 HN.
      pose proof (rd_lift _ _ _ _ _ N Hoperand ltac:(lia)) as Hop. clear Hoperand.
      destruct K1 as [|K1]; [lia|]. destruct K2 as [|K2]; [lia|].
      destruct K3 as [|K3]; [lia|]. destruct K4 as [|K4]; [lia|].
      destruct op; cbn in Hplain, Eb, Hhead, Hop; try discriminate; try contradiction;
        cbn [oper_eqb] in HIH.
      + (* Add *)
        specialize (HIH (S K1) (S K2) (S K3) K4 N ltac:(lia) ltac:(lia) ltac:(lia) ltac:(lia) ltac:(lia)).
        destruct (skips t1 s1 2 HI1 Hhead) as (S1 & S2 & S3).
        unfold tailsJ in HIH |- *.
        destruct (Nat.leb_spec 6 bp); [lia|]. destruct (Nat.leb_spec 5 bp); [lia|].
        destruct (Nat.leb_spec 3 bp); [lia|]. destruct (Nat.leb_spec 2 bp); [lia|].
        rewrite S1, S2, S3 in HIH by lia.
        cbn [chain juxt_chain power_op product_op sum_op starts_atom]. unfold level_ofJ in Hop. cbn in Hop.
        rewrite Hop. exact HIH.
      + (* Sub *)
        specialize (HIH (S K1) (S K2) (S K3) K4 N ltac:(lia) ltac:(lia) ltac:(lia) ltac:(lia) ltac:(lia)).
        destruct (skips t1 s1 2 HI1 Hhead) as (S1 & S2 & S3).
        unfold tailsJ in HIH |- *.
        destruct (Nat.leb_spec 6 bp); [lia|]. destruct (Nat.leb_spec 5 bp); [lia|].
        destruct (Nat.leb_spec 3 bp); [lia|]. destruct (Nat.leb_spec 2 bp); [lia|].
        rewrite S1, S2, S3 in HIH by lia.
        cbn [chain juxt_chain power_op product_op sum_op starts_atom]. unfold level_ofJ in Hop. cbn in Hop.
        rewrite Hop. exact HIH.
      + (* Div *)
        specialize (HIH (S K1) (S K2) K3 (S K4) N ltac:(lia) ltac:(lia) ltac:(lia) ltac:(lia) ltac:(lia)).
        destruct (skips t1 s1 3 HI1 Hhead) as (S1 & S2 & _).
        unfold tailsJ in HIH |- *.
        destruct (Nat.leb_spec 6 bp); [lia|]. destruct (Nat.leb_spec 5 bp); [lia|]. destruct (Nat.leb_spec 3 bp); [lia|].
        rewrite S1, S2 in HIH by lia.
        cbn [chain juxt_chain power_op product_op sum_op starts_atom]. unfold level_ofJ in Hop. cbn in Hop.
        rewrite Hop. exact HIH.
      + (* Mul *)
        specialize (HIH (S K1) (S K2) K3 (S K4) N ltac:(lia) ltac:(lia) ltac:(lia) ltac:(lia) ltac:(lia)).
        destruct (skips t1 s1 3 HI1 Hhead) as (S1 & S2 & _).
        unfold tailsJ in HIH |- *.
        destruct (Nat.leb_spec 6 bp); [lia|]. destruct (Nat.leb_spec 5 bp); [lia|]. destruct (Nat.leb_spec 3 bp); [lia|].
        rewrite S1, S2 in HIH by lia.
        cbn [chain juxt_chain power_op product_op sum_op starts_atom]. unfold level_ofJ in Hop. cbn in Hop.
        rewrite Hop. exact HIH.
      + (* Caret *)
        specialize (HIH K1 (S K2) (S K3) (S K4) N ltac:(lia) ltac:(lia) ltac:(lia) ltac:(lia) ltac:(lia)).
        unfold tailsJ in HIH |- *.
        destruct (Nat.leb_spec 6 bp); [lia|].
        cbn [chain power_op]. unfold level_ofJ in Hop. cbn in Hop.
        rewrite Hop. exact HIH.
  Qed.

  (* the factorials after an atom *)
  Definition is_fac (b : tok) : bool := match b with TOp OFac => true | _ => false end.
  Lemma strip_fac_nonfac (l : tree) b r : is_fac b = false -> strip_fac l (b :: r) = (l, b :: r).
  Proof. destruct b as [| |o| | | |]; try reflexivity. destruct o; try reflexivity. discriminate. Qed.
  Lemma bangs_nonfac (l : tree) b r : is_fac b = false -> bangs l (b :: r) = (l, b :: r).
  Proof. destruct b as [| |o| | | |]; try reflexivity. destruct o; try reflexivity. discriminate. Qed.

  Lemma strip_fac_glue : forall s t (l acc : tree), Inv t s -> simr l acc ->
    exists t' s' acc', strip_fac l (glue t s) = (fst (strip_fac l (glue t s)), glue t' s') /\
                       bangs acc s = (acc', s') /\ simr (fst (strip_fac l (glue t s))) acc' /\ Inv t' s'.
  Proof.
    induction s as [|b s0 IH]; intros t l acc HI Hacc.
    - exists t, [], acc. cbn. repeat split; try reflexivity; try exact Hacc; apply HI.
    - destruct (glue_cases t (b :: s0) HI) as [(E & _)|[(b' & s' & E & En & Hb & Eg)|(b' & s' & E & En & Hb & Eg)]];
        [discriminate| |]; injection E as <- <-.
      + exists t, (b :: s0), acc. rewrite Eg.
        rewrite (strip_fac_nonfac l (TOp OCDot)) by reflexivity. cbn [fst].
        assert (Hnb : is_fac b = false) by (destruct b as [| |o| | | |]; try reflexivity; discriminate).
        rewrite (bangs_nonfac _ _ _ Hnb). rewrite <- Eg. repeat split; try reflexivity; try exact Hacc; apply HI.
      + destruct (is_fac b) eqn:Hfb.
        * destruct b as [| |o| | | |]; try discriminate. destruct o; try discriminate.
          destruct HI as (Ht & Hf). destruct (fragJ_cons _ _ Hf) as (_ & Hfs).
          assert (HI' : Inv (TOp OFac) s0) by (split; [reflexivity|exact Hfs]).
          destruct (IH (TOp OFac) (EPost OFac l) (EPost OFac acc) HI' (sr_post _ _ _ Hacc)) as (t' & s' & acc' & E1 & E2 & E3 & HI'').
          exists t', s', acc'. rewrite Eg. cbn [strip_fac bangs]. split; [exact E1|]. split; [exact E2|]. split; [exact E3|exact HI''].
        * exists t, (b :: s0), acc. rewrite Eg.
          rewrite (strip_fac_nonfac l b _ Hfb). cbn [fst]. rewrite (bangs_nonfac _ _ _ Hfb).
          rewrite <- Eg. repeat split; try reflexivity; try exact Hacc; apply HI.
  Qed.

  Lemma glue_rparen t s r2 : Inv t s -> glue t s = TRParen :: r2 ->
    exists s2, s = TRParen :: s2 /\ r2 = glue TRParen s2 /\ Inv TRParen s2.
  Proof.
    intros HI E.
    destruct (glue_cases t s HI) as [(_ & Eg)|[(b & s0 & -> & En & Hb & Eg)|(b & s0 & -> & En & Hb & Eg)]];
      rewrite Eg in E; try discriminate.
    injection E as -> <-. exists s0. split; [reflexivity|]. split; [reflexivity|].
    destruct HI as (_ & Hf). destruct (fragJ_cons _ _ Hf) as (_ & Hfs). split; [reflexivity|exact Hfs].
  Qed.

  Lemma bin_loop_exit rec n (l : tree) r bp : head_ok bp r -> bin_loop rec (S n) l r bp = Ok (l, r).
  Proof.
    intros H. cbn [bin_loop]. destruct r as [|[| |o| | | |] r]; try reflexivity.
    cbn in H. destruct H as (_ & H). apply Nat.ltb_lt in H. rewrite H. reflexivity.
  Qed.

  Lemma strip_fac_nonfac_head (l : tree) r : head_not_fac r -> strip_fac l r = (l, r).
  Proof. destruct r as [|[| |o| | | |] r]; try reflexivity. destruct o; try reflexivity. contradiction. Qed.

  (* a product behind a minus sign: the reference puts the minus on the first factor *)
  Lemma neg_product n (s0 : list tok) x s1 : rd n LProduct s0 = Some (x, s1) ->
    exists n' w, rd n' LProduct (TOp OSub :: s0) = Some (w, s1) /\ Push x w.
  Proof.
    intros H. destruct n as [|n]; [discriminate|]. cbn [rd] in H.
    destruct (rd n LUnary s0) as [[f0 r0]|] eqn:E1; [|discriminate].
    destruct (chain_push _ _ _ _ _ _ _ (Push_here f0) H) as (w & Hw & HP).
    destruct (asm_product _ _ _ (TOp OSub :: s0) _ _ _ _ (asm_neg_unary _ _ _ _ E1) Hw) as (n' & Hn').
    exists n', w. split; assumption.
  Qed.

  (* the phrase that follows the first one, down to the level of bp *)
  Lemma finish f : SimJ f ->
    forall (ts : list tok) bp l t2 s2 e r' na acc,
      rd na LPostfix ts = Some (acc, s2) -> simr l acc -> Inv t2 s2 -> head_not_fac (glue t2 s2) ->
      no_minus_head ts ->
      bin_loop (parse_expr f) f l (glue t2 s2) bp = Ok (e, r') ->
      exists s' t n x, rd n (level_ofJ bp) ts = Some (x, s') /\ simr e x /\ r' = glue t s' /\ Inv t s'.
  Proof.
    intros HSim ts bp l t2 s2 e r' na acc Hpost Hacc HI2 Hsf Hnm H.
    destruct (bin_loopJ f HSim _ _ _ _ _ _ _ acc HI2 Hsf Hacc H) as (s'' & t'' & x & -> & HI'' & Hx & K0 & N0 & Ht).
    exists s'', t''.
    specialize (Ht K0 K0 K0 K0 N0 (le_n _) (le_n _) (le_n _) (le_n _) (le_n _)).
    unfold tailsJ in Ht. unfold level_ofJ.
    destruct (6 <=? bp).
    { injection Ht as <- <-. exists (S na), acc. split; [|split; [exact Hx|split; [reflexivity|exact HI'']]].
      apply asm_exponent; assumption. }
    destruct (chain K0 (rd N0 LExponent) power_op acc s2) as [[x1 r1]|] eqn:C1; [|discriminate].
    destruct (asm_power _ _ _ _ _ _ _ _ Hpost C1) as (np & Hp).
    destruct (5 <=? bp).
    { injection Ht as <- <-. exists np, x1. split; [exact Hp|split; [exact Hx|split; [reflexivity|exact HI'']]]. }
    destruct (juxt_chain K0 (rd N0 LPower) x1 r1) as [[a2 r2]|] eqn:C2; [|discriminate].
    destruct (asm_juxt _ _ _ _ _ _ _ _ Hp C2) as (nj & Hj).
    pose proof (asm_unary _ _ _ Hnm Hj) as Hu.
    destruct (3 <=? bp).
    { injection Ht as <- <-. exists (S nj), a2. split; [exact Hu|split; [exact Hx|split; [reflexivity|exact HI'']]]. }
    destruct (chain K0 (rd N0 LUnary) product_op a2 r2) as [[b3 r3]|] eqn:C3; [|discriminate].
    destruct (asm_product _ _ _ _ _ _ _ _ Hu C3) as (npr & Hpr).
    destruct (2 <=? bp).
    { injection Ht as <- <-. exists npr, b3. split; [exact Hpr|split; [exact Hx|split; [reflexivity|exact HI'']]]. }
    destruct (asm_sum _ _ _ _ _ _ _ _ Hpr Ht) as (ns & Hs).
    exists ns, x. split; [exact Hs|split; [exact Hx|split; [reflexivity|exact HI'']]].
  Qed.

  Lemma simJ : forall f, SimJ f.
  Proof.
    induction f as [|f IHf]; intros s bp e r' Hf Hn5 H; [discriminate|].
    destruct s as [|a s0]; [discriminate|].
    rewrite im_cons in H. rewrite parse_expr_unfold in H.
    destruct (fragJ_cons _ _ Hf) as (Hplain & Hf0).
    destruct a as [x|v|op|fn|c| |].
    - (* number *)
      cbn [prefix_part bind] in H.
      assert (HI : Inv (TNum x) s0) by (split; [reflexivity|exact Hf]).
      destruct (strip_fac_glue s0 (TNum x) (ENum x) (ENum x) HI (sr_num x)) as (t2 & s2 & acc & E2 & Hb & Hs & HI2).
      pose proof (strip_fac_head (glue (TNum x) s0) (ENum x)) as Hsf. rewrite E2 in H, Hsf. cbn [snd] in Hsf.
      refine (finish f IHf (TNum x :: s0) bp _ t2 s2 e r' 2 acc _ Hs HI2 Hsf I H).
      cbn [rd]. rewrite Hb. reflexivity.
    - (* variable *)
      cbn [prefix_part bind] in H.
      assert (HI : Inv (TVar v) s0) by (split; [reflexivity|exact Hf]).
      destruct (strip_fac_glue s0 (TVar v) (EVar v) (EVar v) HI (sr_var v)) as (t2 & s2 & acc & E2 & Hb & Hs & HI2).
      pose proof (strip_fac_head (glue (TVar v) s0) (EVar v)) as Hsf. rewrite E2 in H, Hsf. cbn [snd] in Hsf.
      refine (finish f IHf (TVar v :: s0) bp _ t2 s2 e r' 2 acc _ Hs HI2 Hsf I H).
      cbn [rd]. rewrite Hb. reflexivity.
    - (* an operator first: only a prefix minus *)
      cbn [prefix_part] in H. destruct (oper_eqb op OSub) eqn:Eo; [|discriminate].
      destruct op; try discriminate. clear Eo.
      assert (Hbp : bp <> 5) by (intros ->; apply (Hn5 eq_refl)).
      rewrite (glue_inert (TOp OSub) s0) in H by reflexivity.
      destruct (parse_expr f (implied_mul s0) (Nat.max bp BP_PREFIX_MINUS)) as [[v r1]|e0|w] eqn:E; cbn [bind] in H; try discriminate.
      pose proof (parse_expr_head f _ _ _ _ E) as Hhead.
      assert (Hn5' : Nat.max bp BP_PREFIX_MINUS = 5 -> no_minus_head s0) by (unfold BP_PREFIX_MINUS; lia).
      destruct (IHf _ _ _ _ Hf0 Hn5' E) as (s1 & t1 & n & x & Hrd & Hx & -> & HI1).
      rewrite (strip_fac_nonfac_head _ _ (head_ok_not_fac _ _ Hhead)) in H.
      destruct f as [|f']; [discriminate|].
      unfold BP_PREFIX_MINUS in *.
      destruct (Nat.leb_spec 2 bp) as [H2|H2].
      + (* bp >= 2: the loop stops at once *)
        replace (Nat.max bp 2) with bp in * by lia.
        rewrite (bin_loop_exit _ _ _ _ _ Hhead) in H. injection H as <- <-.
        exists s1, t1. unfold level_ofJ in Hrd |- *.
        destruct (Nat.leb_spec 6 bp).
        { exists (S n), (EPre OSub x). split; [apply asm_neg_exponent; exact Hrd|].
          split; [constructor; exact Hx|split; [reflexivity|exact HI1]]. }
        destruct (Nat.leb_spec 5 bp); [lia|].
        destruct (Nat.leb_spec 3 bp).
        { exists (S n), (EPre OSub x). split; [apply asm_neg_unary; exact Hrd|].
          split; [constructor; exact Hx|split; [reflexivity|exact HI1]]. }
        destruct (Nat.leb_spec 2 bp); [|lia].
        destruct (neg_product _ _ _ _ Hrd) as (n' & w & Hw & HP).
        exists n', w. split; [exact Hw|]. split; [apply (sr_push _ _ _ Hx HP)|split; [reflexivity|exact HI1]].
      + (* bp <= 1: a product behind the minus, then the sum goes on *)
        replace (Nat.max bp 2) with 2 in * by lia.
        unfold level_ofJ in Hrd. cbn in Hrd.
        destruct (neg_product _ _ _ _ Hrd) as (n' & w & Hw & HP).
        destruct (bin_loopJ (S f') IHf _ _ _ _ _ _ _ w HI1 (head_ok_not_fac _ _ Hhead) (sr_push _ _ _ Hx HP) H)
          as (s'' & t'' & xx & -> & HI'' & Hxx & K0 & N0 & Ht).
        specialize (Ht (S K0) (S K0) (S K0) (S K0) N0 ltac:(lia) ltac:(lia) ltac:(lia) ltac:(lia) (le_n _)).
        destruct (skips t1 s1 2 HI1 Hhead) as (S1 & S2 & S3).
        unfold tailsJ in Ht. unfold level_ofJ.
        destruct (Nat.leb_spec 6 bp); [lia|]. destruct (Nat.leb_spec 5 bp); [lia|].
        destruct (Nat.leb_spec 3 bp); [lia|]. destruct (Nat.leb_spec 2 bp); [lia|].
        rewrite S1, S2, S3 in Ht by lia.
        destruct (asm_sum _ _ _ _ _ _ _ _ Hw Ht) as (ns & Hs).
        exists s'', t'', ns, xx. split; [exact Hs|split; [exact Hxx|split; [reflexivity|exact HI'']]].
    - (* function *)
      cbn [prefix_part] in H. rewrite (glue_inert (TFun fn) s0) in H by reflexivity.
      destruct s0 as [|b s00]; [discriminate|]. rewrite im_cons in H.
      destruct b; try discriminate.
      rewrite (glue_inert TLParen s00) in H by reflexivity.
      destruct (parse_expr f (implied_mul s00) 0) as [[e1 r1]|e1|w1] eqn:E1; cbn [bind] in H; try discriminate.
      destruct r1 as [|t1 r2]; [discriminate|]. destruct t1; try discriminate.
      destruct (fragJ_cons _ _ Hf0) as (_ & Hf00).
      destruct (IHf s00 0 _ _ Hf00 ltac:(intro E5; discriminate E5) E1) as (s1 & t1 & n & x & Hn & Hx & Er & HI1).
      destruct (glue_rparen _ _ _ HI1 (eq_sym Er)) as (s2' & -> & -> & HI2').
      unfold level_ofJ in Hn. cbn in Hn. cbn [bind] in H.
      destruct (strip_fac_glue s2' TRParen (EFun fn e1) (EFun fn x) HI2' (sr_fun _ _ _ Hx)) as (t2 & s2 & acc & E2 & Hb & Hs & HI2).
      pose proof (strip_fac_head (glue TRParen s2') (EFun fn e1)) as Hsf. rewrite E2 in H, Hsf. cbn [snd] in Hsf.
      refine (finish f IHf (TFun fn :: TLParen :: s00) bp _ t2 s2 e r' (S (S n)) acc _ Hs HI2 Hsf I H).
      cbn [rd]. rewrite Hn, Hb. reflexivity.
    - (* constant *)
      cbn [prefix_part bind] in H.
      assert (HI : Inv (TConst c) s0) by (split; [reflexivity|exact Hf]).
      destruct (strip_fac_glue s0 (TConst c) (EConst c) (EConst c) HI (sr_const c)) as (t2 & s2 & acc & E2 & Hb & Hs & HI2).
      pose proof (strip_fac_head (glue (TConst c) s0) (EConst c)) as Hsf. rewrite E2 in H, Hsf. cbn [snd] in Hsf.
      refine (finish f IHf (TConst c :: s0) bp _ t2 s2 e r' 2 acc _ Hs HI2 Hsf I H).
      cbn [rd]. rewrite Hb. reflexivity.
    - (* parenthesis *)
      cbn [prefix_part] in H. rewrite (glue_inert TLParen s0) in H by reflexivity.
      destruct (parse_expr f (implied_mul s0) 0) as [[e1 r1]|e1|w1] eqn:E1; cbn [bind] in H; try discriminate.
      destruct r1 as [|t1 r2]; [discriminate|]. destruct t1; try discriminate.
      destruct (IHf s0 0 _ _ Hf0 ltac:(intro E5; discriminate E5) E1) as (s1 & t1 & n & x & Hn & Hx & Er & HI1).
      destruct (glue_rparen _ _ _ HI1 (eq_sym Er)) as (s2' & -> & -> & HI2').
      unfold level_ofJ in Hn. cbn in Hn. cbn [bind] in H.
      destruct (strip_fac_glue s2' TRParen (set_paren e1) x HI2' (simr_set_paren _ _ Hx)) as (t2 & s2 & acc & E2 & Hb & Hs & HI2).
      pose proof (strip_fac_head (glue TRParen s2') (set_paren e1)) as Hsf. rewrite E2 in H, Hsf. cbn [snd] in Hsf.
      refine (finish f IHf (TLParen :: s0) bp _ t2 s2 e r' (S (S n)) acc _ Hs HI2 Hsf I H).
      cbn [rd]. rewrite Hn, Hb. reflexivity.
    - (* a closing parenthesis first *)
      discriminate.
  Qed.

  Lemma glue_nil t s : Inv t s -> glue t s = [] -> s = [].
  Proof.
    intros HI E.
    destruct (glue_cases t s HI) as [(-> & _)|[(b & s0 & -> & En & Hb & Eg)|(b & s0 & -> & En & Hb & Eg)]];
      [reflexivity| |]; rewrite Eg in E; discriminate.
  Qed.

  Lemma parse_unfolded_readsJ : forall (ts : list tok) e,
    fragJ ts = true -> parse_unfolded ts = Ok e -> exists x, ref_read ts = Some x /\ simr e x.
  Proof.
    intros ts e Hf H. unfold parse_unfolded in H.
    destruct (parse_expr (S (length (implied_mul ts))) (implied_mul ts) 0) as [[e1 r]|e1|w] eqn:E; cbn [bind] in H; try discriminate.
    destruct r; [|discriminate]. injection H as <-.
    destruct (simJ _ ts 0 _ _ Hf ltac:(intro E5; discriminate E5) E) as (s' & t & n & x & Hn & Hx & Er & HI).
    rewrite (glue_nil _ _ HI (eq_sym Er)) in Hn.
    exists x. split; [apply (ref_read_of_rd n); exact Hn|exact Hx].
  Qed.
End ReadJ.

(* ---- values (R instance): related trees have equal values ------------------------------------------------- *)
From Coq Require Import Reals Lra.
From SV Require Import Proofs.ExprFold.
Local Open Scope R_scope.

Lemma trunc_opp (q : R) : trunc (- q) = (- trunc q)%Z.
Proof.
  unfold trunc.
  destruct (Rle_dec 0 q) as [Hq|Hq]; destruct (Rle_dec 0 (- q)) as [Hn|Hn].
  - assert (q = 0) by lra. subst. rewrite Ropp_0. rewrite (Int_part_IZR 0). reflexivity.
  - rewrite Ropp_involutive. reflexivity.
  - lia.
  - exfalso. lra.
Qed.

Lemma bin_val_opp o a b : prodo o -> bin_val o (- a) b = option_map Ropp (bin_val o a b).
Proof.
  intros [->|[->| ->]]; cbn [bin_val option_map].
  - f_equal. ring.
  - destruct (Req_EM_T b 0); [reflexivity|]. cbn. f_equal. field. assumption.
  - unfold rem_val. destruct (Req_EM_T b 0); [reflexivity|]. cbn. f_equal.
    replace (- a / b) with (- (a / b)) by (field; assumption).
    rewrite trunc_opp, opp_IZR. ring.
Qed.

Lemma Push_denote (u w : expr R) : Push u w -> forall rho, denote w rho = option_map Ropp (denote u rho).
Proof.
  induction 1 as [u|o A B x p Ho HP IH]; intros rho; [reflexivity|].
  cbn [denote]. rewrite IH. destruct (denote A rho) as [a|]; [|reflexivity]. cbn [option_map obind].
  destruct (denote x rho) as [b|]; [|reflexivity]. cbn [obind]. apply bin_val_opp. exact Ho.
Qed.

Lemma simr_denote (e x : expr R) : simr e x -> forall rho, denote e rho = denote x rho.
Proof.
  induction 1 as [y|v|c|f i i' _ IH|o v v' _ IH|o v v' _ IH|o l l' r r' p p' _ IHl _ IHr|v u w _ IH HP];
    intros rho; cbn [denote]; try reflexivity.
  - rewrite IH. reflexivity.
  - rewrite IH. reflexivity.
  - rewrite IH. reflexivity.
  - rewrite IHl, IHr. reflexivity.
  - rewrite IH. symmetry. apply Push_denote. exact HP.
Qed.

(* on the fragment the unfolded tree of the parser denotes the conventional reading *)
Lemma c19_parser_reads_lemma : forall (ts : list (token R)) (e : expr R),
  fragJ ts = true -> parse_unfolded ts = Ok e ->
  exists e', ref_read ts = Some e' /\ simr e e' /\ forall rho, denote e rho = denote e' rho.
Proof.
  intros ts e Hf H. destruct (parse_unfolded_readsJ ts e Hf H) as (x & Hr & Hx).
  exists x. split; [exact Hr|]. split; [exact Hx|]. apply simr_denote. exact Hx.
Qed.

(* ... and so does the folded tree returned by [parser], wherever the reading has a value *)
Lemma c19_parser_reads_folded_lemma : forall (ts : list (token R)) (e : expr R),
  fragJ ts = true -> parser ts = Ok e ->
  exists e', ref_read ts = Some e' /\ forall rho v, denote e' rho = Some v -> denote e rho = Some v.
Proof.
  intros ts e Hf H. unfold parser in H.
  destruct (parse_unfolded ts) as [u|e0|w] eqn:E; cbn [bind] in H; try discriminate.
  destruct (parse_unfolded_readsJ ts u Hf E) as (x & Hr & Hx).
  exists x. split; [exact Hr|]. intros rho v Hv.
  rewrite <- (simr_denote _ _ Hx) in Hv.
  rewrite fold_operations_foldS in H. injection H as <-.
  apply foldS_sound; assumption.
Qed.
