(* Proofs/Regress.v — C15: the regressors (R instance).
   Spec-level quantities: [Rpeval] (value of a coefficient polynomial), [SSE], [SST],
   [Nres j] (the j-th normal-equation residual  Σ_i x_i^j (y_i - p(x_i))). *)
From Coq Require Import ZArith List Bool Arith Reals Lra Lia.
From SV Require Import Base.Num Base.Outcome Base.Mat Model.Subst Model.Gauss Model.Regress Proofs.Gauss.
Import ListNotations.
Local Open Scope R_scope.

(* ---------------------------------------------------------------- sums over lists *)
Definition Rlsum (l : list R) : R := fold_right Rplus 0 l.
Definition SumL {A : Type} (f : A -> R) (l : list A) : R := Rlsum (map f l).

Lemma fold_left_Rplus l : forall a, fold_left Rplus l a = a + Rlsum l.
Proof.
  induction l as [|x l IH]; intro a; cbn [fold_left Rlsum fold_right]; [ring|].
  rewrite IH. unfold Rlsum. ring.
Qed.

Lemma lsum_R (l : list R) : lsum l = Rlsum l.
Proof. unfold lsum. cbn [nadd nsum0 RNum]. rewrite fold_left_Rplus. ring. Qed.

Lemma nofnat_R (n : nat) : @nofnat R RNum n = INR n.
Proof. unfold nofnat. cbn [nofZ RNum]. symmetry. apply INR_IZR_INZ. Qed.

Lemma SumL_cons {A} (f : A -> R) a l : SumL f (a :: l) = f a + SumL f l.
Proof. reflexivity. Qed.
Lemma SumL_nil {A} (f : A -> R) : SumL f [] = 0.
Proof. reflexivity. Qed.

Lemma SumL_ext {A} (f g : A -> R) l : (forall a, In a l -> f a = g a) -> SumL f l = SumL g l.
Proof.
  induction l as [|a l IH]; intro H; [reflexivity|].
  rewrite !SumL_cons, IH, (H a) by (intros; try apply H; cbn; auto). reflexivity.
Qed.
Lemma SumL_plus {A} (f g : A -> R) l : SumL (fun a => f a + g a) l = SumL f l + SumL g l.
Proof. induction l as [|a l IH]; [cbn; ring|]. rewrite !SumL_cons, IH. ring. Qed.
Lemma SumL_minus {A} (f g : A -> R) l : SumL (fun a => f a - g a) l = SumL f l - SumL g l.
Proof. induction l as [|a l IH]; [cbn; ring|]. rewrite !SumL_cons, IH. ring. Qed.
Lemma SumL_scal {A} c (f : A -> R) l : SumL (fun a => c * f a) l = c * SumL f l.
Proof. induction l as [|a l IH]; [cbn; ring|]. rewrite !SumL_cons, IH. ring. Qed.
Lemma SumL_const {A} c (l : list A) : SumL (fun _ => c) l = INR (length l) * c.
Proof.
  induction l as [|a l IH]; [cbn; ring|].
  rewrite SumL_cons, IH. change (length (a :: l)) with (S (length l)). rewrite S_INR. ring.
Qed.
Lemma SumL_nonneg {A} (f : A -> R) l : (forall a, 0 <= f a) -> 0 <= SumL f l.
Proof.
  intro H. induction l as [|a l IH]; [cbn; lra|]. rewrite SumL_cons. pose proof (H a). lra.
Qed.
Lemma SumL_Rsum_n {A} n (f : A -> nat -> R) l :
  SumL (fun a => Rsum_n n (fun k => f a k)) l = Rsum_n n (fun k => SumL (fun a => f a k) l).
Proof.
  induction l as [|a l IH].
  - cbn. symmetry. apply Rsum_n_zero. reflexivity.
  - rewrite SumL_cons, IH, <- Rsum_n_plus. apply Rsum_n_ext. intros k Hk. reflexivity.
Qed.
Lemma SumL_map {A B} (g : A -> B) (f : B -> R) l : SumL f (map g l) = SumL (fun a => f (g a)) l.
Proof. unfold SumL. rewrite map_map. reflexivity. Qed.
Lemma Rlsum_SumL (l : list R) : Rlsum l = SumL (fun a => a) l.
Proof. unfold SumL. rewrite map_id. reflexivity. Qed.

Lemma map_fst_combine {A B} (x : list A) (y : list B) : length x = length y -> map fst (combine x y) = x.
Proof.
  revert y. induction x as [|a x IH]; intros [|b y] H; cbn in *; try reflexivity; try discriminate.
  f_equal. apply IH. lia.
Qed.
Lemma map_snd_combine {A B} (x : list A) (y : list B) : length x = length y -> map snd (combine x y) = y.
Proof.
  revert y. induction x as [|a x IH]; intros [|b y] H; cbn in *; try reflexivity; try discriminate.
  f_equal. apply IH. lia.
Qed.

(* sums over the abscissae / the responses as sums over the data points *)
Lemma SumL_x (f : R -> R) (x y : list R) : length x = length y ->
  SumL f x = SumL (fun p => f (fst p)) (combine x y).
Proof. intro H. rewrite <- (map_fst_combine x y H) at 1. apply SumL_map. Qed.
Lemma SumL_y (f : R -> R) (x y : list R) : length x = length y ->
  SumL f y = SumL (fun p => f (snd p)) (combine x y).
Proof. intro H. rewrite <- (map_snd_combine x y H) at 1. apply SumL_map. Qed.

Lemma Rsum_n_shift n f : Rsum_n (S n) f = f 0%nat + Rsum_n n (fun k => f (S k)).
Proof.
  induction n as [|n IH]; [cbn; ring|].
  change (Rsum_n (S (S n)) f) with (Rsum_n (S n) f + f (S n)). rewrite IH. cbn [Rsum_n]. ring.
Qed.

Lemma Rsum_n_minus n f g : Rsum_n n (fun j => f j - g j) = Rsum_n n f - Rsum_n n g.
Proof. induction n as [|n IH]; cbn [Rsum_n]; [ring|rewrite IH; ring]. Qed.

(* ---------------------------------------------------------------- spec-level quantities *)
Definition Rpeval (cs : list R) (x : R) : R := Rsum_n (length cs) (fun k => nth k cs 0 * x ^ k).
Definition SSE (cs x y : list R) : R := SumL (fun p => (snd p - Rpeval cs (fst p)) ^ 2) (combine x y).
Definition SST (y : list R) : R := SumL (fun yi => (yi - Rlsum y / INR (length y)) ^ 2) y.
Definition Nres (j : nat) (cs x y : list R) : R :=
  SumL (fun p => fst p ^ j * (snd p - Rpeval cs (fst p))) (combine x y).

Lemma npowi_nat (a : R) (n : nat) : npowi a (Z.of_nat n) = a ^ n.
Proof. exact (npowi_R_nat a n). Qed.
Lemma npowi_2 (a : R) : npowi a 2 = a ^ 2.
Proof. exact (npowi_R_nat a 2). Qed.

Lemma predict_coefs_shift (cs : list R) (x : R) s :
  Rlsum (map (fun pc : nat * R => snd pc * x ^ fst pc) (combine (seq s (length cs)) cs)) =
  Rsum_n (length cs) (fun k => nth k cs 0 * x ^ (s + k)).
Proof.
  revert s. induction cs as [|c cs IH]; intro s; [reflexivity|].
  cbn [length seq combine map Rlsum fold_right fst snd].
  change (fold_right Rplus 0 ?l) with (Rlsum l).
  rewrite IH, Rsum_n_shift. cbn [nth]. rewrite Nat.add_0_r. f_equal.
  apply Rsum_n_ext. intros k Hk. replace (S s + k)%nat with (s + S k)%nat by lia. reflexivity.
Qed.

Lemma predict_coefs_R (cs : list R) (x : R) : predict_coefs cs x = Rpeval cs x.
Proof.
  unfold predict_coefs. rewrite lsum_R. cbn [nmul RNum].
  rewrite (map_ext _ (fun pc : nat * R => snd pc * x ^ fst pc)) by (intros [k c]; cbn [fst snd]; rewrite npowi_nat; reflexivity).
  rewrite predict_coefs_shift. reflexivity.
Qed.

Lemma Rpeval_2 a b x : Rpeval [a; b] x = a + b * x.
Proof. unfold Rpeval. cbn [length Rsum_n nth pow]. ring. Qed.

(* the statistics block *)
Lemma sq_total_R (y : list R) m : sq_total y m = SumL (fun yi => (yi - m) ^ 2) y.
Proof.
  unfold sq_total. rewrite lsum_R. unfold SumL. f_equal. apply map_ext. intro a.
  rewrite npowi_2. reflexivity.
Qed.
Lemma sq_residual_R (pred : R -> R) (cs x y : list R) : (forall t, pred t = Rpeval cs t) ->
  sq_residual pred x y = SSE cs x y.
Proof.
  intro H. unfold sq_residual, SSE. rewrite lsum_R. unfold SumL. f_equal. apply map_ext. intro p.
  rewrite npowi_2, H. reflexivity.
Qed.

Lemma finish_R (cs : list R) (len : R) (pred : R -> R) (ym : R) (x y : list R) :
  (forall t, pred t = Rpeval cs t) -> ym = Rlsum y / INR (length y) ->
  finish cs len pred ym x y =
  mkmodel cs (sqrt (SSE cs x y / (len - 2))) ((SST y - SSE cs x y) / SST y).
Proof.
  intros Hp Hm. unfold finish. rewrite sq_total_R, (sq_residual_R pred cs x y Hp).
  cbn [nsqrt ndiv nsub nofZ RNum]. unfold SST. rewrite <- Hm. reflexivity.
Qed.

(* ---------------------------------------------------------------- least squares *)
Lemma ls_fit_R (x y : list R) : length x = length y ->
  let n := INR (length x) in
  let sx := Rlsum x in let sy := Rlsum y in
  let sxy := SumL (fun p => fst p * snd p) (combine x y) in
  let sxx := SumL (fun t => t ^ 2) x in
  let b := (n * sxy - sx * sy) / (n * sxx - sx * sx) in
  let a := sy / n - b * (sx / n) in
  ls_fit x y = mkmodel [a; b] (sqrt (SSE [a; b] x y / (n - 2))) ((SST y - SSE [a; b] x y) / SST y).
Proof.
  intros Hl. cbv zeta. unfold ls_fit. rewrite !lsum_R, nofnat_R.
  cbn [nmul nsub ndiv nadd RNum].
  replace (Rlsum (map (fun xi : R => npowi xi 2) x)) with (SumL (fun t => t ^ 2) x)
    by (unfold SumL; f_equal; apply map_ext; intro t; rewrite npowi_2; reflexivity).
  change (Rlsum (map (fun p : R * R => fst p * snd p) (combine x y)))
    with (SumL (fun p : R * R => fst p * snd p) (combine x y)).
  apply finish_R.
  - intro t. rewrite Rpeval_2. reflexivity.
  - rewrite Hl. reflexivity.
Qed.

Lemma Nres_line j a b (x y : list R) :
  Nres j [a; b] x y =
  SumL (fun p => fst p ^ j * snd p) (combine x y) - a * SumL (fun p => fst p ^ j) (combine x y)
  - b * SumL (fun p => fst p ^ j * fst p) (combine x y).
Proof.
  unfold Nres. rewrite <- !SumL_scal, <- !SumL_minus. apply SumL_ext. intros p _.
  rewrite Rpeval_2. ring.
Qed.

Lemma c15_ls_normal : forall (x y : list R), length x = length y ->
  INR (length x) * SumL (fun t => t ^ 2) x - Rlsum x * Rlsum x <> 0 ->
  Nres 0 (coefs (ls_fit x y)) x y = 0 /\ Nres 1 (coefs (ls_fit x y)) x y = 0.
Proof.
  intros x y Hl Hd. rewrite (ls_fit_R x y Hl). cbn [coefs].
  set (n := INR (length x)) in *. set (sx := Rlsum x) in *. set (sy := Rlsum y).
  set (sxy := SumL (fun p => fst p * snd p) (combine x y)). set (sxx := SumL (fun t => t ^ 2) x) in *.
  assert (Hn : n <> 0).
  { intro E. apply Hd. unfold n in E. destruct x as [|x0 x'].
    - unfold sx, sxx. cbn. ring.
    - exfalso. change (length (x0 :: x')) with (S (length x')) in E. rewrite S_INR in E.
      pose proof (pos_INR (length x')). lra. }
  assert (E0 : SumL (fun p : R * R => fst p ^ 0 * snd p) (combine x y) = sy).
  { unfold sy. rewrite Rlsum_SumL, (SumL_y (fun a => a) x y Hl). apply SumL_ext. intros; cbn; ring. }
  assert (E1 : SumL (fun p : R * R => fst p ^ 0) (combine x y) = n).
  { cbn [pow]. rewrite SumL_const, combine_length, <- Hl, Nat.min_id. fold n. ring. }
  assert (E2 : SumL (fun p : R * R => fst p ^ 0 * fst p) (combine x y) = sx).
  { unfold sx. rewrite Rlsum_SumL, (SumL_x (fun a => a) x y Hl). apply SumL_ext. intros; cbn; ring. }
  assert (E3 : SumL (fun p : R * R => fst p ^ 1 * snd p) (combine x y) = sxy).
  { unfold sxy. apply SumL_ext. intros; cbn; ring. }
  assert (E4 : SumL (fun p : R * R => fst p ^ 1) (combine x y) = sx).
  { unfold sx. rewrite Rlsum_SumL, (SumL_x (fun a => a) x y Hl). apply SumL_ext. intros; cbn; ring. }
  assert (E5 : SumL (fun p : R * R => fst p ^ 1 * fst p) (combine x y) = sxx).
  { unfold sxx. rewrite (SumL_x (fun t => t ^ 2) x y Hl). apply SumL_ext. intros; cbn; ring. }
  rewrite !Nres_line, E0, E1, E2, E3, E4, E5. split; field; split; assumption.
Qed.

(* >= 2 distinct abscissae make the closed form's denominator non-zero *)
Lemma SumL_sq_zero {A} (f : A -> R) l : SumL (fun a => f a ^ 2) l = 0 -> forall a, In a l -> f a = 0.
Proof.
  induction l as [|b l IH]; intros H a Ha; [destruct Ha|].
  rewrite SumL_cons in H.
  pose proof (pow2_ge_0 (f b)). pose proof (SumL_nonneg (fun a => f a ^ 2) l (fun a => pow2_ge_0 (f a))).
  destruct Ha as [<-|Ha].
  - assert (E : f b ^ 2 = 0) by lra.
    destruct (Req_dec (f b) 0) as [Z|Z]; [exact Z|]. exfalso. exact (pow_nonzero _ 2 Z E).
  - apply IH; [lra|exact Ha].
Qed.

Lemma c15_distinct_denominator : forall (x : list R) (u v : R), In u x -> In v x -> u <> v ->
  INR (length x) * SumL (fun t => t ^ 2) x - Rlsum x * Rlsum x <> 0.
Proof.
  intros x u v Hu Hv Huv E.
  set (n := INR (length x)) in *. set (sx := Rlsum x) in *.
  assert (Hn : 0 < n).
  { unfold n. destruct x as [|x0 x']; [destruct Hu|].
    change (length (x0 :: x')) with (S (length x')). rewrite S_INR. pose proof (pos_INR (length x')). lra. }
  assert (Hz : SumL (fun t => (t - sx / n) ^ 2) x = 0).
  { rewrite (SumL_ext _ (fun t => t ^ 2 + ((- (2 * (sx / n))) * t + (sx / n) ^ 2))) by (intros; ring).
    rewrite !SumL_plus, SumL_scal, SumL_const, <- Rlsum_SumL. fold n sx.
    apply Rmult_eq_reg_l with n; [|lra]. field_simplify; [|lra]. lra. }
  pose proof (SumL_sq_zero (fun t => t - sx / n) x Hz u Hu) as H1.
  pose proof (SumL_sq_zero (fun t => t - sx / n) x Hz v Hv) as H2.
  cbv beta in H1, H2. lra.
Qed.

(* ---------------------------------------------------------------- polynomial fit *)
Lemma poly_tol_pos : 0 < @poly_tol R RNum.
Proof.
  unfold poly_tol. cbn [nofdec RNum fst snd Gen.Consts.poly_regression_pivot_tol].
  apply Rmult_lt_0_compat; [apply IZR_lt; reflexivity | apply powerRZ_lt; lra].
Qed.

Lemma moment_R (x : list R) k : moment x k = SumL (fun t => t ^ k) x.
Proof.
  unfold moment. rewrite lsum_R. unfold SumL. f_equal. apply map_ext. intro t. apply npowi_nat.
Qed.

Lemma poly_fit_tol_ok tol order (x y : list R) m : poly_fit_tol tol order x y = Ok m ->
  exists sol, ge (S order) (S order) (moment_matrix order x) (S order) (moment_rhs order x y) tol = Ok sol /\
    m = mkmodel (list_of_vec (S order) sol)
          (sqrt (SSE (list_of_vec (S order) sol) x y / (INR (length y) - 2)))
          ((SST y - SSE (list_of_vec (S order) sol) x y) / SST y).
Proof.
  unfold poly_fit_tol.
  destruct (ge _ _ _ _ _ _) as [sol|e|w]; try discriminate.
  intro H. injection H as <-. exists sol. split; [reflexivity|].
  rewrite <- ?INR_IZR_INZ, ?nofnat_R, lsum_R. cbn [ndiv RNum]. apply finish_R.
  - intro t. apply predict_coefs_R.
  - reflexivity.
Qed.

Lemma nth_list_of_vec n (v : vec R) k : (k < n)%nat -> nth k (list_of_vec n v) 0 = v k.
Proof. intro H. unfold list_of_vec. apply nth_seq_map. exact H. Qed.
Lemma length_list_of_vec n (v : vec R) : length (list_of_vec n v) = n.
Proof. unfold list_of_vec. rewrite map_length, seq_length. reflexivity. Qed.

(* normal-equation residuals in terms of moments *)
Lemma Nres_moments j (cs x y : list R) : length x = length y ->
  Nres j cs x y =
  SumL (fun p => snd p * fst p ^ j) (combine x y)
  - Rsum_n (length cs) (fun k => SumL (fun t => t ^ (j + k)) x * nth k cs 0).
Proof.
  intro Hl. unfold Nres.
  rewrite (SumL_ext _ (fun p => snd p * fst p ^ j - Rsum_n (length cs) (fun k => fst p ^ (j + k) * nth k cs 0))).
  - rewrite SumL_minus, SumL_Rsum_n. f_equal. apply Rsum_n_ext. intros k Hk.
    rewrite (SumL_x (fun t => t ^ (j + k)) x y Hl).
    rewrite <- (Rmult_comm (nth k cs 0)), <- SumL_scal. apply SumL_ext. intros; ring.
  - intros p _. unfold Rpeval.
    replace (fst p ^ j * (snd p - Rsum_n (length cs) (fun k => nth k cs 0 * fst p ^ k)))
      with (snd p * fst p ^ j - fst p ^ j * Rsum_n (length cs) (fun k => nth k cs 0 * fst p ^ k)) by ring.
    f_equal. rewrite <- Rsum_n_scal. apply Rsum_n_ext. intros k Hk. rewrite pow_add. ring.
Qed.

Lemma c15_poly_normal_tol : forall tol (order : nat) (x y : list R) (m : lmodel R), 0 < tol ->
  length x = length y -> poly_fit_tol tol order x y = Ok m ->
  length (coefs m) = S order /\ forall j, (j <= order)%nat -> Nres j (coefs m) x y = 0.
Proof.
  intros tol order x y m Ht Hl H.
  destruct (poly_fit_tol_ok tol order x y m H) as [sol [G ->]]. cbn [coefs].
  split; [apply length_list_of_vec|].
  intros j Hj.
  destruct (c08_solves _ _ _ _ _ _ _ Ht G) as [_ [_ Hs]].
  specialize (Hs j ltac:(lia)).
  rewrite (Nres_moments j _ x y Hl), length_list_of_vec.
  unfold moment_rhs in Hs. rewrite vretab_spec in Hs by lia.
  rewrite lsum_R in Hs. cbn [nmul RNum] in Hs.
  assert (E : SumL (fun p : R * R => snd p * fst p ^ j) (combine x y)
              = Rlsum (map (fun p : R * R => fst p * npowi (snd p) (Z.of_nat j)) (combine y x))).
  { clear. revert y. induction x as [|a x IH]; intros [|b y]; try reflexivity.
    cbn [combine map]. rewrite SumL_cons. cbn [Rlsum fold_right fst snd].
    change (fold_right Rplus 0 ?l) with (Rlsum l). rewrite <- IH, npowi_nat. ring. }
  rewrite E, <- Hs. rewrite Rminus_diag_eq; [reflexivity|].
  apply Rsum_n_ext. intros k Hk. unfold moment_matrix.
  rewrite retab_spec by lia. rewrite moment_R, nth_list_of_vec by lia. reflexivity.
Qed.

Lemma c15_poly_normal : forall (order : nat) (x y : list R) (m : lmodel R),
  length x = length y -> poly_fit order x y = Ok m ->
  length (coefs m) = S order /\ forall j, (j <= order)%nat -> Nres j (coefs m) x y = 0.
Proof. intros order x y m. apply c15_poly_normal_tol. apply poly_tol_pos. Qed.

(* the fit never answers with an error value: it returns a model or panics on the unwrap *)
Lemma c15_poly_outcomes : forall (order : nat) (x y : list R),
  (exists m, poly_fit order x y = Ok m) \/ poly_fit order x y = Panic WUnwrap.
Proof.
  intros order x y. unfold poly_fit, poly_fit_tol.
  destruct (ge _ _ _ _ _ _) as [sol|e|w] eqn:G.
  - left. eexists. reflexivity.
  - right. reflexivity.
  - exfalso. exact (proj2 (proj2 (proj2 (c08_shape _ _ _ _ _ _))) w G).
Qed.

(* ---------------------------------------------------------------- optimality *)
Lemma Rpeval_diff (c c' : list R) t : length c = length c' ->
  Rpeval c t - Rpeval c' t = Rsum_n (length c) (fun k => (nth k c 0 - nth k c' 0) * t ^ k).
Proof.
  intro H. unfold Rpeval. rewrite <- H, <- Rsum_n_minus. apply Rsum_n_ext. intros; ring.
Qed.

Lemma c15_optimal : forall (x y c c' : list R), length c = length c' ->
  (forall j, (j < length c)%nat -> Nres j c x y = 0) ->
  SSE c' x y = SSE c x y + SumL (fun p => (Rpeval c (fst p) - Rpeval c' (fst p)) ^ 2) (combine x y) /\
  SSE c x y <= SSE c' x y.
Proof.
  intros x y c c' Hlen Hn.
  assert (Hcross : SumL (fun p => (snd p - Rpeval c (fst p)) * (Rpeval c (fst p) - Rpeval c' (fst p))) (combine x y) = 0).
  { rewrite (SumL_ext _ (fun p => Rsum_n (length c)
       (fun k => (nth k c 0 - nth k c' 0) * (fst p ^ k * (snd p - Rpeval c (fst p)))))).
    - rewrite SumL_Rsum_n. apply Rsum_n_zero. intros k Hk.
      rewrite SumL_scal. fold (Nres k c x y). rewrite (Hn k Hk). ring.
    - intros p _. rewrite (Rpeval_diff c c' (fst p) Hlen), <- Rsum_n_scal.
      apply Rsum_n_ext. intros; ring. }
  assert (E : SSE c' x y = SSE c x y
              + SumL (fun p => (Rpeval c (fst p) - Rpeval c' (fst p)) ^ 2) (combine x y)).
  { unfold SSE.
    rewrite (SumL_ext (fun p => (snd p - Rpeval c' (fst p)) ^ 2)
      (fun p => ((snd p - Rpeval c (fst p)) ^ 2 + (Rpeval c (fst p) - Rpeval c' (fst p)) ^ 2)
                + 2 * ((snd p - Rpeval c (fst p)) * (Rpeval c (fst p) - Rpeval c' (fst p)))))
      by (intros; ring).
    rewrite !SumL_plus, SumL_scal, Hcross. ring. }
  split; [exact E|]. rewrite E.
  pose proof (SumL_nonneg (fun p : R * R => (Rpeval c (fst p) - Rpeval c' (fst p)) ^ 2) (combine x y)
                (fun p => pow2_ge_0 _)). lra.
Qed.

(* raising the order never increases the residual: pad the lower-order coefficients with a zero *)
Lemma Rpeval_app_zero (cs : list R) t : Rpeval (cs ++ [0]) t = Rpeval cs t.
Proof.
  unfold Rpeval. rewrite app_length. cbn [length]. replace (length cs + 1)%nat with (S (length cs)) by lia.
  cbn [Rsum_n]. rewrite app_nth2, Nat.sub_diag by lia. cbn [nth].
  rewrite (Rsum_n_ext _ _ (fun k => nth k cs 0 * t ^ k)); [ring|].
  intros k Hk. rewrite app_nth1 by exact Hk. reflexivity.
Qed.

Lemma SSE_app_zero (cs x y : list R) : SSE (cs ++ [0]) x y = SSE cs x y.
Proof. unfold SSE. apply SumL_ext. intros p _. rewrite Rpeval_app_zero. reflexivity. Qed.

Lemma c15_order_monotone : forall (order : nat) (x y : list R) (m m' : lmodel R),
  length x = length y -> poly_fit order x y = Ok m -> poly_fit (S order) x y = Ok m' ->
  SSE (coefs m') x y <= SSE (coefs m) x y.
Proof.
  intros order x y m m' Hl H H'.
  destruct (c15_poly_normal order x y m Hl H) as [L _].
  destruct (c15_poly_normal (S order) x y m' Hl H') as [L' N'].
  rewrite <- (SSE_app_zero (coefs m)).
  apply (c15_optimal x y (coefs m') (coefs m ++ [0])).
  - rewrite app_length, L, L'. cbn [length]. lia.
  - intros j Hj. apply N'. lia.
Qed.

(* an order-1 polynomial fit is the line fit: both satisfy the same two normal equations *)
Lemma c15_order1_is_line : forall (x y : list R) (m : lmodel R), length x = length y ->
  INR (length x) * SumL (fun t => t ^ 2) x - Rlsum x * Rlsum x <> 0 ->
  poly_fit 1 x y = Ok m -> coefs m = coefs (ls_fit x y).
Proof.
  intros x y m Hl Hd H.
  destruct (c15_poly_normal 1 x y m Hl H) as [L N].
  destruct (c15_ls_normal x y Hl Hd) as [A0 A1].
  pose proof (N 0%nat ltac:(lia)) as B0. pose proof (N 1%nat ltac:(lia)) as B1.
  destruct (coefs m) as [|a [|b [|? ?]]]; try discriminate L.
  rewrite (ls_fit_R x y Hl) in *. cbn [coefs] in *.
  set (n := INR (length x)) in *. set (sx := Rlsum x) in *. set (sy := Rlsum y) in *.
  set (sxy := SumL (fun p => fst p * snd p) (combine x y)) in *. set (sxx := SumL (fun t => t ^ 2) x) in *.
  set (b' := (n * sxy - sx * sy) / (n * sxx - sx * sx)) in *.
  set (a' := sy / n - b' * (sx / n)) in *.
  rewrite Nres_line in A0, A1, B0, B1.
  set (T0 := SumL (fun p : R * R => fst p ^ 0 * snd p) (combine x y)) in *.
  set (T1 := SumL (fun p : R * R => fst p ^ 1 * snd p) (combine x y)) in *.
  assert (E1 : SumL (fun p : R * R => fst p ^ 0) (combine x y) = n).
  { cbn [pow]. rewrite SumL_const, combine_length, <- Hl, Nat.min_id. fold n. ring. }
  assert (E2 : SumL (fun p : R * R => fst p ^ 0 * fst p) (combine x y) = sx).
  { unfold sx. rewrite Rlsum_SumL, (SumL_x (fun a => a) x y Hl). apply SumL_ext. intros; cbn; ring. }
  assert (E4 : SumL (fun p : R * R => fst p ^ 1) (combine x y) = sx).
  { unfold sx. rewrite Rlsum_SumL, (SumL_x (fun a => a) x y Hl). apply SumL_ext. intros; cbn; ring. }
  assert (E5 : SumL (fun p : R * R => fst p ^ 1 * fst p) (combine x y) = sxx).
  { unfold sxx. rewrite (SumL_x (fun t => t ^ 2) x y Hl). apply SumL_ext. intros; cbn; ring. }
  rewrite E1, E2 in A0, B0. rewrite E4, E5 in A1, B1.
  (* (a - a') n + (b - b') sx = 0 and (a - a') sx + (b - b') sxx = 0 with n sxx - sx^2 <> 0 *)
  clearbody a' b' T0 T1.
  assert (C0 : (a - a') * n + (b - b') * sx = 0) by lra.
  assert (C1 : (a - a') * sx + (b - b') * sxx = 0) by lra.
  assert (Hb : (b - b') * (n * sxx - sx * sx) = 0).
  { replace ((b - b') * (n * sxx - sx * sx))
      with (n * ((a - a') * sx + (b - b') * sxx) - sx * ((a - a') * n + (b - b') * sx)) by ring.
    rewrite C0, C1. ring. }
  assert (Eb : b = b').
  { apply Rmult_integral in Hb. destruct Hb as [Hb|Hb]; [lra|contradiction]. }
  assert (Hn : n <> 0).
  { intro E. apply Hd. unfold n in E. destruct x as [|x0 x'].
    - unfold sx, sxx. cbn. ring.
    - exfalso. change (length (x0 :: x')) with (S (length x')) in E. rewrite S_INR in E.
      pose proof (pos_INR (length x')). lra. }
  assert (Ea : a = a').
  { subst b. assert (Ha : (a - a') * n = 0) by lra.
    apply Rmult_integral in Ha. destruct Ha as [Ha|Ha]; [lra|contradiction]. }
  subst. reflexivity.
Qed.

(* ---------------------------------------------------------------- statistics and predict *)
Lemma c15_stats : forall (x y : list R),
  (length x = length y ->
   let m := ls_fit x y in
   r2 m = (SST y - SSE (coefs m) x y) / SST y /\
   std_err m = sqrt (SSE (coefs m) x y / (INR (length x) - 2))) /\
  (forall order m, poly_fit order x y = Ok m ->
   r2 m = (SST y - SSE (coefs m) x y) / SST y /\
   std_err m = sqrt (SSE (coefs m) x y / (INR (length y) - 2))) /\
  (forall steps alpha, let m := gd_fit steps alpha x y in
   r2 m = (SST y - SSE (coefs m) x y) / SST y /\
   std_err m = sqrt (SSE (coefs m) x y / (INR (length y) - 2))) /\
  (forall (m : lmodel R) t, predict m t = Rsum_n (length (coefs m)) (fun k => nth k (coefs m) 0 * t ^ k)).
Proof.
  intros x y. repeat split.
  - rewrite (ls_fit_R x y H). reflexivity.
  - rewrite (ls_fit_R x y H). reflexivity.
  - destruct (poly_fit_tol_ok _ _ _ _ _ H) as [sol [_ ->]]. reflexivity.
  - destruct (poly_fit_tol_ok _ _ _ _ _ H) as [sol [_ ->]]. reflexivity.
  - unfold gd_fit. rewrite nofnat_R, lsum_R. cbn [ndiv RNum].
    rewrite (finish_R _ _ _ _ x y (fun t => eq_sym (Rpeval_2 _ _ t)) eq_refl). reflexivity.
  - unfold gd_fit. rewrite nofnat_R, lsum_R. cbn [ndiv RNum].
    rewrite (finish_R _ _ _ _ x y (fun t => eq_sym (Rpeval_2 _ _ t)) eq_refl). reflexivity.
  - intros m t. unfold predict. apply predict_coefs_R.
Qed.

(* ---------------------------------------------------------------- gradient descent *)
Lemma combine_map_l {A B C} (f : A -> C) (x : list A) (y : list B) :
  combine (map f x) y = map (fun p => (f (fst p), snd p)) (combine x y).
Proof. revert y. induction x as [|a x IH]; intros [|b y]; cbn; try reflexivity. f_equal. apply IH. Qed.

Lemma combine3 {A B C} (f : A -> C) (x : list A) (y : list B) :
  combine (combine (map f x) y) x = map (fun p => ((f (fst p), snd p), fst p)) (combine x y).
Proof. revert y. induction x as [|a x IH]; intros [|b y]; cbn; try reflexivity. f_equal. apply IH. Qed.

(* the coefficients returned by the fit are the iterated step from (mean y, 0) *)
Lemma gd_fit_coefs steps alpha (x y : list R) :
  coefs (gd_fit steps alpha x y) =
  let w := for_range 0 steps (fun _ w => gd_step alpha (INR (length y)) x y w) (Rlsum y / INR (length y), 0) in
  [fst w; snd w].
Proof.
  unfold gd_fit, finish. cbn [coefs]. unfold gd_weights. rewrite nofnat_R, lsum_R. reflexivity.
Qed.

(* one step in closed form *)
Lemma gd_step_R alpha (x y : list R) wy wx :
  gd_step alpha (INR (length y)) x y (wy, wx) =
  (wy - alpha * (SumL (fun p => (wy + wx * fst p) - snd p) (combine x y) / INR (length y)),
   wx - alpha * (SumL (fun p => ((wy + wx * fst p) - snd p) * fst p) (combine x y) / INR (length y))).
Proof.
  unfold gd_step. cbn [fst snd]. rewrite !lsum_R. cbn [nadd nsub nmul ndiv RNum].
  rewrite combine3, combine_map_l, !map_map. cbn [fst snd]. reflexivity.
Qed.

(* error recurrence  e' = (I - alpha H) e  around any solution (a, b) of the normal equations,
   H = (1/n) [[n, Σx], [Σx, Σx²]]; in particular (a, b) is a fixed point of the step *)
Lemma c15_gd_recurrence : forall (alpha : R) (x y : list R) (a b wy wx : R),
  length x = length y -> INR (length y) <> 0 ->
  Nres 0 [a; b] x y = 0 -> Nres 1 [a; b] x y = 0 ->
  let n := INR (length y) in
  let w' := gd_step alpha n x y (wy, wx) in
  fst w' - a = (wy - a) - alpha * ((wy - a) + Rlsum x / n * (wx - b)) /\
  snd w' - b = (wx - b) - alpha * (Rlsum x / n * (wy - a) + SumL (fun t => t ^ 2) x / n * (wx - b)) /\
  gd_step alpha n x y (a, b) = (a, b).
Proof.
  intros alpha x y a b wy wx Hl Hn N0 N1. cbv zeta.
  rewrite !gd_step_R. cbn [fst snd].
  rewrite Nres_line in N0, N1.
  assert (E1 : SumL (fun p : R * R => fst p ^ 0) (combine x y) = INR (length y)).
  { cbn [pow]. rewrite SumL_const, combine_length, Hl, Nat.min_id. ring. }
  assert (E2 : SumL (fun p : R * R => fst p ^ 0 * fst p) (combine x y) = Rlsum x).
  { rewrite Rlsum_SumL, (SumL_x (fun a => a) x y Hl). apply SumL_ext. intros; cbn; ring. }
  assert (E4 : SumL (fun p : R * R => fst p ^ 1) (combine x y) = Rlsum x).
  { rewrite Rlsum_SumL, (SumL_x (fun a => a) x y Hl). apply SumL_ext. intros; cbn; ring. }
  assert (E5 : SumL (fun p : R * R => fst p ^ 1 * fst p) (combine x y) = SumL (fun t => t ^ 2) x).
  { rewrite (SumL_x (fun t => t ^ 2) x y Hl). apply SumL_ext. intros; cbn; ring. }
  rewrite E1, E2 in N0. rewrite E4, E5 in N1.
  set (n := INR (length y)) in *. set (sx := Rlsum x) in *. set (sxx := SumL (fun t => t ^ 2) x) in *.
  set (T0 := SumL (fun p : R * R => fst p ^ 0 * snd p) (combine x y)) in *.
  set (T1 := SumL (fun p : R * R => fst p ^ 1 * snd p) (combine x y)) in *.
  assert (G0 : forall u v, SumL (fun p : R * R => (u + v * fst p) - snd p) (combine x y) = u * n + v * sx - T0).
  { intros u v.
    rewrite (SumL_ext _ (fun p => (u * (fst p ^ 0) + v * (fst p ^ 0 * fst p)) - fst p ^ 0 * snd p))
      by (intros; cbn; ring).
    rewrite SumL_minus, SumL_plus, !SumL_scal, E1, E2. reflexivity. }
  assert (G1 : forall u v, SumL (fun p : R * R => ((u + v * fst p) - snd p) * fst p) (combine x y) = u * sx + v * sxx - T1).
  { intros u v.
    rewrite (SumL_ext _ (fun p => (u * (fst p ^ 1) + v * (fst p ^ 1 * fst p)) - fst p ^ 1 * snd p))
      by (intros; cbn; ring).
    rewrite SumL_minus, SumL_plus, !SumL_scal, E4, E5. reflexivity. }
  rewrite !G0, !G1.
  assert (HT0 : T0 = a * n + b * sx) by lra.
  assert (HT1 : T1 = a * sx + b * sxx) by lra.
  rewrite HT0, HT1. repeat split.
  - field. exact Hn.
  - field. exact Hn.
  - f_equal; field; exact Hn.
Qed.

(* non-vacuity witnesses *)
Lemma ex_ls_hyp : length [0; 1; 2] = length [1; 3; 5] /\
  INR (length [0; 1; 2]) * SumL (fun t => t ^ 2) [0; 1; 2] - Rlsum [0; 1; 2] * Rlsum [0; 1; 2] <> 0.
Proof. split; [reflexivity|]. cbn. lra. Qed.

(* ---------------------------------------------------------------- contraction of gradient descent *)
(* a symmetric 2x2 matrix [[a, b], [b, c]] with trace >= 0 and determinant >= 0 is positive semidefinite *)
Lemma psd2 (a b c u v : R) : 0 <= a + c -> 0 <= a * c - b * b ->
  0 <= a * (u * u) + 2 * b * (u * v) + c * (v * v).
Proof.
  intros Ht Hd.
  pose proof (Rle_0_sqr b) as Hb. unfold Rsqr in Hb.
  assert (Hac : 0 <= a * c) by lra.
  assert (Ha : 0 <= a).
  { destruct (Rle_or_lt 0 a) as [L|L]; [exact L|exfalso].
    assert (0 < c) by lra. assert (a * c < 0) by nra. lra. }
  destruct (Req_dec a 0) as [E|E].
  - subst a. assert (Eb : b * b = 0) by lra.
    assert (b = 0) by (destruct (Rmult_integral _ _ Eb); assumption). subst b.
    pose proof (Rle_0_sqr v) as Hv. unfold Rsqr in Hv. nra.
  - assert (Hp : 0 < a) by lra.
    apply Rmult_le_reg_l with a; [exact Hp|]. rewrite Rmult_0_r.
    replace (a * (a * (u * u) + 2 * b * (u * v) + c * (v * v)))
      with ((a * u + b * v) * (a * u + b * v) + (a * c - b * b) * (v * v)) by ring.
    pose proof (Rle_0_sqr (a * u + b * v)) as H1. unfold Rsqr in H1.
    pose proof (Rle_0_sqr v) as H2. unfold Rsqr in H2.
    pose proof (Rmult_le_pos _ _ Hd H2). lra.
Qed.

(* the two (real) roots of the characteristic polynomial of a real symmetric 2x2 matrix *)
Definition sym2_disc (p q r : R) : R := (p - r) * (p - r) + 4 * (q * q).
Definition sym2_root (sgn p q r : R) : R := (p + r + sgn * sqrt (sym2_disc p q r)) / 2.

Lemma sym2_disc_nonneg p q r : 0 <= sym2_disc p q r.
Proof.
  unfold sym2_disc. pose proof (Rle_0_sqr (p - r)) as H1. pose proof (Rle_0_sqr q) as H2.
  unfold Rsqr in *. lra.
Qed.

Lemma sym2_root_is_root sgn p q r : sgn * sgn = 1 ->
  let mu := sym2_root sgn p q r in
  mu * mu - (p + r) * mu + (p * r - q * q) = 0.
Proof.
  intros Hs mu. unfold mu, sym2_root.
  set (s := sqrt (sym2_disc p q r)).
  assert (Es : s * s = sym2_disc p q r) by (apply sqrt_sqrt, sym2_disc_nonneg).
  replace ((p + r + sgn * s) / 2 * ((p + r + sgn * s) / 2) - (p + r) * ((p + r + sgn * s) / 2) + (p * r - q * q))
    with (((sgn * sgn) * (s * s) - sym2_disc p q r) / 4) by (unfold sym2_disc; field).
  rewrite Hs, Es. field.
Qed.

Lemma sym2_vieta p q r :
  sym2_root 1 p q r + sym2_root (-1) p q r = p + r /\
  sym2_root 1 p q r * sym2_root (-1) p q r = p * r - q * q.
Proof.
  unfold sym2_root. set (s := sqrt (sym2_disc p q r)).
  assert (Es : s * s = sym2_disc p q r) by (apply sqrt_sqrt, sym2_disc_nonneg).
  split; [field|].
  replace ((p + r + 1 * s) / 2 * ((p + r + -1 * s) / 2)) with (((p + r) * (p + r) - s * s) / 4) by field.
  rewrite Es. unfold sym2_disc. field.
Qed.

(* every root of the characteristic polynomial is one of the two *)
Lemma sym2_roots_only p q r mu : mu * mu - (p + r) * mu + (p * r - q * q) = 0 ->
  mu = sym2_root 1 p q r \/ mu = sym2_root (-1) p q r.
Proof.
  intro H. destruct (sym2_vieta p q r) as [V1 V2].
  assert (E : (mu - sym2_root 1 p q r) * (mu - sym2_root (-1) p q r) = 0).
  { replace ((mu - sym2_root 1 p q r) * (mu - sym2_root (-1) p q r))
      with (mu * mu - (sym2_root 1 p q r + sym2_root (-1) p q r) * mu + sym2_root 1 p q r * sym2_root (-1) p q r) by ring.
    rewrite V1, V2. exact H. }
  destruct (Rmult_integral _ _ E); [left|right]; lra.
Qed.

(* if rho dominates both eigenvalues in absolute value, the matrix contracts Euclidean length by rho *)
Lemma sym2_contraction (p q r rho u v : R) :
  (forall mu, mu * mu - (p + r) * mu + (p * r - q * q) = 0 -> mu * mu <= rho * rho) ->
  (p * u + q * v) * (p * u + q * v) + (q * u + r * v) * (q * u + r * v) <= rho * rho * (u * u + v * v).
Proof.
  intro Hrho.
  pose proof (Hrho _ (sym2_root_is_root 1 p q r ltac:(ring))) as H1.
  pose proof (Hrho _ (sym2_root_is_root (-1) p q r ltac:(ring))) as H2.
  destruct (sym2_vieta p q r) as [V1 V2].
  set (m1 := sym2_root 1 p q r) in *. set (m2 := sym2_root (-1) p q r) in *. clearbody m1 m2.
  assert (T : p * p + 2 * (q * q) + r * r = m1 * m1 + m2 * m2).
  { replace (m1 * m1 + m2 * m2) with ((m1 + m2) * (m1 + m2) - 2 * (m1 * m2)) by ring.
    rewrite V1, V2. ring. }
  assert (Dt : (p * r - q * q) * (p * r - q * q) = (m1 * m2) * (m1 * m2)) by (rewrite V2; reflexivity).
  set (a := rho * rho - (p * p + q * q)). set (b := - (q * (p + r))). set (c := rho * rho - (q * q + r * r)).
  assert (Ht : 0 <= a + c).
  { replace (a + c) with (2 * (rho * rho) - (p * p + 2 * (q * q) + r * r)) by (unfold a, c; ring).
    rewrite T. lra. }
  assert (Hd : 0 <= a * c - b * b).
  { replace (a * c - b * b)
      with ((rho * rho) * (rho * rho) - (rho * rho) * (p * p + 2 * (q * q) + r * r) + (p * r - q * q) * (p * r - q * q))
      by (unfold a, b, c; ring).
    rewrite T, Dt.
    replace ((rho * rho) * (rho * rho) - (rho * rho) * (m1 * m1 + m2 * m2) + (m1 * m2) * (m1 * m2))
      with ((rho * rho - m1 * m1) * (rho * rho - m2 * m2)) by ring.
    apply Rmult_le_pos; lra. }
  pose proof (psd2 a b c u v Ht Hd) as P.
  replace (a * (u * u) + 2 * b * (u * v) + c * (v * v))
    with (rho * rho * (u * u + v * v) - ((p * u + q * v) * (p * u + q * v) + (q * u + r * v) * (q * u + r * v)))
    in P by (unfold a, b, c; ring).
  lra.
Qed.

(* k steps of the model's loop from w0 *)
Definition gd_iter (k : nat) (alpha : R) (x y : list R) (w0 : R * R) : R * R :=
  for_range 0 k (fun _ w => gd_step alpha (INR (length y)) x y w) w0.
Definition err2 (w : R * R) (a b : R) : R := (fst w - a) * (fst w - a) + (snd w - b) * (snd w - b).

Lemma c15_gd_contraction : forall (alpha : R) (x y : list R) (a b rho : R) (w0 : R * R) (k : nat),
  length x = length y -> INR (length y) <> 0 ->
  Nres 0 [a; b] x y = 0 -> Nres 1 [a; b] x y = 0 ->
  let n := INR (length y) in
  let M00 := 1 - alpha in
  let M01 := - (alpha * (Rlsum x / n)) in
  let M11 := 1 - alpha * (SumL (fun t => t ^ 2) x / n) in
  (forall mu, mu * mu - (M00 + M11) * mu + (M00 * M11 - M01 * M01) = 0 -> mu * mu <= rho * rho) ->
  err2 (gd_iter k alpha x y w0) a b <= rho ^ (2 * k) * err2 w0 a b.
Proof.
  intros alpha x y a b rho w0 k Hl Hn N0 N1. cbv zeta. intro Hrho.
  induction k as [|k IH].
  - unfold gd_iter. replace (2 * 0)%nat with 0%nat by lia. cbn [for_range pow]. lra.
  - unfold gd_iter in *. rewrite for_range_S. cbn [Nat.add].
    set (w := for_range 0 k (fun _ w => gd_step alpha (INR (length y)) x y w) w0) in *.
    rewrite (surjective_pairing w).
    destruct (c15_gd_recurrence alpha x y a b (fst w) (snd w) Hl Hn N0 N1) as [R0 [R1 _]].
    cbv zeta in R0, R1.
    set (w' := gd_step alpha (INR (length y)) x y (fst w, snd w)) in *.
    unfold err2 at 1. rewrite R0, R1.
    set (n := INR (length y)) in *. set (sx := Rlsum x) in *. set (sxx := SumL (fun t => t ^ 2) x) in *.
    pose proof (sym2_contraction (1 - alpha) (- (alpha * (sx / n))) (1 - alpha * (sxx / n)) rho
                  (fst w - a) (snd w - b) Hrho) as C.
    replace (2 * S k)%nat with (S (S (2 * k))) by lia. cbn [pow].
    assert (Hr : 0 <= rho * rho) by (pose proof (Rle_0_sqr rho) as Q; unfold Rsqr in Q; exact Q).
    assert (Hstep : (fst w - a - alpha * (fst w - a + sx / n * (snd w - b))) * (fst w - a - alpha * (fst w - a + sx / n * (snd w - b)))
                  + (snd w - b - alpha * (sx / n * (fst w - a) + sxx / n * (snd w - b))) * (snd w - b - alpha * (sx / n * (fst w - a) + sxx / n * (snd w - b)))
                  <= rho * rho * err2 w a b).
    { unfold err2. eapply Rle_trans; [|exact C]. right. ring. }
    pose proof (Rmult_le_compat_l _ _ _ Hr IH) as Q.
    lra.
Qed.

(* a stable step: every eigenvalue lambda of H = (1/n)[[n, Σx],[Σx, Σx²]] has 0 < alpha*lambda < 2;
   then some rho < 1 dominates the eigenvalues of I - alpha H *)
Lemma c15_gd_stable_step : forall (alpha h01 h11 : R), 0 < alpha ->
  (forall lam, lam * lam - (1 + h11) * lam + (1 * h11 - h01 * h01) = 0 -> 0 < lam /\ alpha * lam < 2) ->
  exists rho, 0 <= rho < 1 /\
    forall mu, mu * mu - ((1 - alpha) + (1 - alpha * h11)) * mu
               + ((1 - alpha) * (1 - alpha * h11) - (- (alpha * h01)) * (- (alpha * h01))) = 0 ->
               mu * mu <= rho * rho.
Proof.
  intros alpha h01 h11 Ha Hlam.
  set (p := 1 - alpha). set (q := - (alpha * h01)). set (r := 1 - alpha * h11).
  assert (Hroot : forall mu, mu * mu - (p + r) * mu + (p * r - q * q) = 0 -> -1 < mu < 1).
  { intros mu Hmu.
    destruct (Hlam ((1 - mu) / alpha)) as [L1 L2].
    - replace ((1 - mu) / alpha * ((1 - mu) / alpha) - (1 + h11) * ((1 - mu) / alpha) + (1 * h11 - h01 * h01))
        with ((mu * mu - (p + r) * mu + (p * r - q * q)) / (alpha * alpha)) by (unfold p, q, r; field; lra).
      rewrite Hmu. field. lra.
    - assert (E : alpha * ((1 - mu) / alpha) = 1 - mu) by (field; lra).
      rewrite E in L2.
      assert (0 < 1 - mu).
      { apply Rmult_lt_reg_l with (/ alpha); [apply Rinv_0_lt_compat; exact Ha|].
        rewrite Rmult_0_r. unfold Rdiv in L1. rewrite Rmult_comm. exact L1. }
      lra. }
  pose proof (Hroot _ (sym2_root_is_root 1 p q r ltac:(ring))) as B1.
  pose proof (Hroot _ (sym2_root_is_root (-1) p q r ltac:(ring))) as B2.
  exists (Rmax (Rabs (sym2_root 1 p q r)) (Rabs (sym2_root (-1) p q r))). split.
  - split.
    + eapply Rle_trans; [apply Rabs_pos|apply Rmax_l].
    + apply Rmax_lub_lt; apply Rabs_def1; lra.
  - intros mu Hmu.
    set (rho := Rmax _ _).
    assert (Hm : Rabs mu <= rho).
    { destruct (sym2_roots_only p q r mu Hmu) as [-> | ->]; [apply Rmax_l|apply Rmax_r]. }
    pose proof (Rabs_pos mu) as P0.
    replace (mu * mu) with (Rabs mu * Rabs mu).
    + apply Rmult_le_compat; assumption.
    + fold (Rsqr (Rabs mu)). rewrite <- Rsqr_abs. reflexivity.
Qed.

(* with rho < 1 the coefficients returned by the fit converge to the least-squares optimum *)
Lemma c15_gd_converges : forall (alpha : R) (x y : list R) (a b rho : R),
  length x = length y -> INR (length y) <> 0 ->
  Nres 0 [a; b] x y = 0 -> Nres 1 [a; b] x y = 0 ->
  let n := INR (length y) in
  let M00 := 1 - alpha in
  let M01 := - (alpha * (Rlsum x / n)) in
  let M11 := 1 - alpha * (SumL (fun t => t ^ 2) x / n) in
  0 <= rho < 1 ->
  (forall mu, mu * mu - (M00 + M11) * mu + (M00 * M11 - M01 * M01) = 0 -> mu * mu <= rho * rho) ->
  forall eps, 0 < eps -> exists K, forall k, (K <= k)%nat ->
    let c := coefs (gd_fit k alpha x y) in
    (nth 0 c 0 - a) * (nth 0 c 0 - a) + (nth 1 c 0 - b) * (nth 1 c 0 - b) < eps.
Proof.
  intros alpha x y a b rho Hl Hn N0 N1. cbv zeta. intros [Hr0 Hr1] Hrho eps Heps.
  set (w0 := (Rlsum y / INR (length y), 0)).
  set (E0 := err2 w0 a b).
  assert (HE0 : 0 <= E0).
  { unfold E0, err2. pose proof (Rle_0_sqr (fst w0 - a)) as Q1. pose proof (Rle_0_sqr (snd w0 - b)) as Q2.
    unfold Rsqr in *. lra. }
  assert (Hrr : Rabs (rho * rho) < 1).
  { rewrite Rabs_pos_eq by (apply Rmult_le_pos; assumption).
    assert (rho * rho <= rho * 1) by (apply Rmult_le_compat_l; lra). lra. }
  destruct (pow_lt_1_zero (rho * rho) Hrr (eps / (E0 + 1)) ltac:(apply Rdiv_lt_0_compat; lra)) as [K HK].
  exists K. intros k Hk. cbv zeta. rewrite gd_fit_coefs. cbv zeta. cbn [nth].
  pose proof (c15_gd_contraction alpha x y a b rho w0 k Hl Hn N0 N1 Hrho) as C.
  unfold gd_iter in C. fold w0. unfold err2 in C at 1.
  specialize (HK k Hk).
  rewrite Rabs_pos_eq in HK by (apply pow_le; apply Rmult_le_pos; assumption).
  rewrite pow_mult in C. cbn [pow] in C. rewrite Rmult_1_r in C.
  fold E0 in C.
  assert (Hb : (rho * rho) ^ k * E0 <= (rho * rho) ^ k * (E0 + 1)).
  { apply Rmult_le_compat_l; [apply pow_le; apply Rmult_le_pos; assumption|lra]. }
  assert (Hc : (rho * rho) ^ k * (E0 + 1) < eps).
  { apply Rmult_lt_reg_r with (/ (E0 + 1)); [apply Rinv_0_lt_compat; lra|].
    rewrite Rmult_assoc, Rinv_r by lra. rewrite Rmult_1_r. exact HK. }
  lra.
Qed.

(* non-vacuity: x = [-1,0,1], y = [1,3,5] (optimum a = 3, b = 2), alpha = 1/2: I - alpha H = diag(1/2, 2/3), rho = 2/3 *)
Lemma ex_gd_hyp :
  length [-1; 0; 1] = length [1; 3; 5] /\ INR (length [1; 3; 5]) <> 0 /\
  Nres 0 [3; 2] [-1; 0; 1] [1; 3; 5] = 0 /\ Nres 1 [3; 2] [-1; 0; 1] [1; 3; 5] = 0 /\
  0 <= 2 / 3 < 1 /\
  (let n := INR (length [1; 3; 5]) in
   let M00 := 1 - 1 / 2 in
   let M01 := - (1 / 2 * (Rlsum [-1; 0; 1] / n)) in
   let M11 := 1 - 1 / 2 * (SumL (fun t => t ^ 2) [-1; 0; 1] / n) in
   forall mu, mu * mu - (M00 + M11) * mu + (M00 * M11 - M01 * M01) = 0 -> mu * mu <= 2 / 3 * (2 / 3)).
Proof.
  split; [reflexivity|]. split; [cbn; lra|].
  split; [unfold Nres, SumL, Rpeval; cbn; lra|]. split; [unfold Nres, SumL, Rpeval; cbn; lra|].
  split; [lra|]. cbv zeta. intros mu H.
  assert (E : (mu - 1 / 2) * (mu - 2 / 3) = 0).
  { rewrite <- H. unfold SumL, Rlsum. cbn. field. }
  destruct (Rmult_integral _ _ E) as [Z|Z].
  - replace mu with (1 / 2) by lra. lra.
  - replace mu with (2 / 3) by lra. lra.
Qed.
