(* Proofs/LUFloat.v — C09 at the floating-point level: componentwise BACKWARD error of the Doolittle
   factorisation [lu] of Model/LU.v for the binary64 instance ([@lu float FNum], the function that is
   extracted and run against lu.rs).  Bridge: Flocq's [B2R (Prim2B x)].

   If [lu n n A = Ok (L, U)] and every arithmetic step behaved well, then for all i, k < n
       | sum_{t<n} L_it U_tk - A_ik |  <=  ((1+eps)^n - 1) * sum_{t<n} |L_it| |U_tk|,      eps = 2^-53,
   i.e. the textbook bound |L U - A| <= gamma_n |L| |U| (Higham, Thm 9.3) with the explicit constant
   (1+eps)^n - 1 in place of n eps / (1 - n eps).  All entries of L and U are finite.

   Hypotheses (predicate [lu_entry_ok], stated on the RETURNED factors, checkable by computation): for
   each entry (i,k), with m = min i k: A_ik is finite, every product L_ij * U_jk (j < m) is [okmul]
   (finite; exact value zero or of magnitude >= 2^-1022: no underflow error), every partial sum of the
   inner product is finite, the subtraction A_ik - total is finite and, below the diagonal, the division
   by the pivot U_kk is [okdiv] (finite, non-zero pivot, exact quotient zero or >= 2^-1022).

   Part A (any Num instance): the returned factors satisfy the Doolittle recurrences entry by entry
   in the arithmetic of the instance ([GInv]); structure only, no ring laws.
   Part B: the two row-level rounding lemmas (upper entry: no division; lower entry: [row_residual]
   of Proofs/SubstFloat.v).   Part C: the theorem and a computed 3x3 example.                      *)
From Coq Require Import ZArith List Bool Arith Reals Floats Lia Lra.
From Flocq Require Import Core Plus_error Relative BinarySingleNaN PrimFloat.
From SV Require Import Base.Num Base.Outcome Base.Mat Model.LU Proofs.LU Proofs.Gauss
                       Proofs.Stats Proofs.StatsFloat Proofs.Arr2DFloat Proofs.PolyFloat Proofs.SubstFloat.
Import ListNotations.

(* ======================================================================================== *)
(* Part A — the Doolittle recurrences, for every Num instance                                *)
Section Generic.
  Context {T : Type} {NT : Num T}.

  (* the inner product of lu.rs: total = 0.0; for j in 0..m { total += lo[r][j] * up[j][c] } *)
  Definition udot (lo up : mat T) (r c m : nat) : T :=
    sum_range n0 0 m (fun j => nmul (lo r j) (up j c)).

  Lemma udot_ext lo up lo' up' r c m :
    (forall j, j < m -> lo r j = lo' r j) -> (forall j, j < m -> up j c = up' j c) ->
    udot lo up r c m = udot lo' up' r c m.
  Proof.
    intros Hl Hu. unfold udot. apply sum_range_ext. intros j Hj.
    rewrite Hl, Hu by lia. reflexivity.
  Qed.

  (* after i outer iterations: the first i rows of U and the first i columns of L satisfy the
     recurrences (in the arithmetic of T), the rest is n0 *)
  Record GInv (n : nat) (a : mat T) (i : nat) (lo up : mat T) : Prop := {
    g_up : forall r c, r < n -> c < n -> r < i -> r <= c -> up r c = nsub (a r c) (udot lo up r c r);
    g_up0 : forall r c, r < n -> c < n -> (i <= r \/ c < r) -> up r c = n0;
    g_lo : forall r c, r < n -> c < n -> c < i -> c < r ->
             lo r c = ndiv (nsub (a r c) (udot lo up r c c)) (up c c);
    g_lo1 : forall r, r < n -> r < i -> lo r r = n1;
    g_lo0 : forall r c, r < n -> c < n -> (i <= c \/ r < c) -> lo r c = n0
  }.

  Definition gmeq (n : nat) (A B : mat T) : Prop := forall r c, r < n -> c < n -> A r c = B r c.

  Lemma gmeq_retab n (A : mat T) : gmeq n A (retab n n A).
  Proof. intros r c Hr Hc. symmetry. apply retab_spec; assumption. Qed.

  Lemma GInv_gmeq n a i lo up lo' up' :
    gmeq n lo lo' -> gmeq n up up' -> GInv n a i lo up -> GInv n a i lo' up'.
  Proof.
    intros El Eu [H1 H2 H3 H4 H5]. constructor.
    - intros r c Hr Hc Hri Hrc. rewrite <- Eu by assumption. rewrite H1 by assumption.
      f_equal. apply udot_ext; intros j Hj; [apply El|apply Eu]; lia.
    - intros r c Hr Hc H. rewrite <- Eu by assumption. apply H2; assumption.
    - intros r c Hr Hc Hci Hcr. rewrite <- El by assumption. rewrite H3 by assumption.
      rewrite (Eu c c) by assumption. f_equal. f_equal.
      apply udot_ext; intros j Hj; [apply El|apply Eu]; lia.
    - intros r Hr Hri. rewrite <- El by assumption. apply H4; assumption.
    - intros r c Hr Hc H. rewrite <- El by assumption. apply H5; assumption.
  Qed.

  Lemma GInv_init n a : GInv n a 0 (mconst n0) (mconst n0).
  Proof. constructor; intros; try lia; reflexivity. Qed.

  (* ---- the row loop ---- *)
  Definition gupper_body (i : nat) (a lo : mat T) : nat -> mat T -> mat T :=
    fun k up =>
      let total := sum_range n0 0 i (fun j => nmul (lo i j) (up j k)) in
      mset up i k (nsub (a i k) total).

  Lemma lu_upper_row_body n i a lo up :
    lu_upper_row n i a lo up = for_range i (n - i) (gupper_body i a lo) up.
  Proof. reflexivity. Qed.

  Lemma gupper_spec i len a lo up :
    (forall c, i <= c < i + len ->
        for_range i len (gupper_body i a lo) up i c = nsub (a i c) (udot lo up i c i)) /\
    (forall r c, ~ (r = i /\ i <= c < i + len) -> for_range i len (gupper_body i a lo) up r c = up r c).
  Proof.
    induction len as [|len [IH1 IH2]].
    - split; [intros c Hc; lia|intros; reflexivity].
    - rewrite for_range_S.
      set (M := for_range i len (gupper_body i a lo) up) in *.
      unfold gupper_body at 1. unfold gupper_body at 1. cbv zeta.
      split.
      + intros c Hc. destruct (Nat.eq_dec c (i + len)) as [->|Hne].
        * rewrite mset_same. f_equal. apply sum_range_ext. intros t Ht.
          rewrite IH2 by lia. reflexivity.
        * rewrite mset_other by (right; exact Hne). apply IH1. lia.
      + intros r c Hn. rewrite mset_other.
        * apply IH2. intros [H1 H2]. apply Hn. split; [exact H1|lia].
        * destruct (Nat.eq_dec r i) as [->|Hr]; [right|left; exact Hr].
          intro Hc. apply Hn. split; [reflexivity|lia].
  Qed.

  (* ---- the column loop ---- *)
  Definition glower_body (i : nat) (a up : mat T) : nat -> res (mat T) -> res (mat T) :=
    fun k acc =>
      match acc with
      | Ok lo =>
        if k =? i then Ok (mset lo i i n1)
        else if neqb (up i i) n0 then Err ESingularMatrix
        else
          let total := sum_range n0 0 i (fun j => nmul (lo k j) (up j i)) in
          Ok (mset lo k i (ndiv (nsub (a k i) total) (up i i)))
      | e => e
      end.

  Lemma lu_lower_col_body n i a up lo :
    lu_lower_col n i a up lo = for_range i (n - i) (glower_body i a up) (Ok lo).
  Proof. reflexivity. Qed.

  Lemma glower_spec i len a up lo : forall M,
    for_range i len (glower_body i a up) (Ok lo) = Ok M ->
    (0 < len -> M i i = n1) /\
    (forall k, i < k < i + len -> M k i = ndiv (nsub (a k i) (udot lo up k i i)) (up i i)) /\
    (forall r c, ~ (c = i /\ i <= r < i + len) -> M r c = lo r c).
  Proof.
    induction len as [|len IH]; intros M E.
    - cbn [for_range] in E. injection E as <-.
      split; [lia|]. split; [intros k Hk; lia|reflexivity].
    - rewrite for_range_S in E.
      destruct (for_range i len (glower_body i a up) (Ok lo)) as [M0|e|w] eqn:E0;
        [|cbn [glower_body] in E; discriminate E|cbn [glower_body] in E; discriminate E].
      destruct (IH M0 eq_refl) as [H1 [H2 H3]].
      unfold glower_body in E.
      destruct (Nat.eqb_spec (i + len) i) as [Ei|Ei].
      + assert (len = 0) by lia. subst len. injection E as <-.
        split; [|split].
        * intros _. apply mset_same.
        * intros k Hk. lia.
        * intros r c Hn. rewrite mset_other.
          -- apply H3. intros [Hc Hr]. lia.
          -- destruct (Nat.eq_dec c i) as [->|Hc]; [left|right; exact Hc].
             intro Hr. apply Hn. split; [reflexivity|lia].
      + destruct (neqb (up i i) n0); [discriminate E|]. cbv zeta in E. injection E as <-.
        split; [|split].
        * intros _. rewrite mset_other by (left; lia). apply H1. lia.
        * intros k Hk. destruct (Nat.eq_dec k (i + len)) as [->|Hne].
          -- rewrite mset_same. f_equal. f_equal. apply sum_range_ext. intros t Ht.
             rewrite H3 by lia. reflexivity.
          -- rewrite mset_other by (left; exact Hne). apply H2. lia.
        * intros r c Hn. rewrite mset_other.
          -- apply H3. intros [Hc Hr]. apply Hn. split; [exact Hc|lia].
          -- destruct (Nat.eq_dec c i) as [->|Hc]; [left|right; exact Hc].
             intro Hr. apply Hn. split; [reflexivity|lia].
  Qed.

  (* ---- one outer iteration ---- *)
  Lemma lu_step_GInv n a i lo up lo' up' :
    i < n -> GInv n a i lo up -> lu_step n a i (Ok (lo, up)) = Ok (lo', up') -> GInv n a (S i) lo' up'.
  Proof.
    intros Hi [I1 I2 I3 I4 I5] E. cbn [lu_step] in E.
    destruct (lu_lower_col n i a (lu_upper_row n i a lo up) lo) as [M|e|w] eqn:EM; try discriminate E.
    injection E as <- <-.
    apply (GInv_gmeq n a (S i) M (lu_upper_row n i a lo up)); [apply gmeq_retab|apply gmeq_retab|].
    rewrite lu_lower_col_body in EM. rewrite lu_upper_row_body in *.
    destruct (gupper_spec i (n - i) a lo up) as [HU1 HU2].
    set (up1 := for_range i (n - i) (gupper_body i a lo) up) in *.
    destruct (glower_spec i (n - i) a up1 lo M EM) as [HM1 [HM2 HM3]].
    constructor.
    - intros r c Hr Hc Hri Hrc. destruct (Nat.eq_dec r i) as [->|Hne].
      + rewrite HU1 by lia. f_equal. apply udot_ext; intros t Ht.
        * rewrite HM3 by lia. reflexivity.
        * rewrite HU2 by lia. reflexivity.
      + rewrite HU2 by lia. rewrite I1 by lia. f_equal. apply udot_ext; intros t Ht.
        * rewrite HM3 by lia. reflexivity.
        * rewrite HU2 by lia. reflexivity.
    - intros r c Hr Hc H. rewrite HU2 by lia. apply I2; lia.
    - intros r c Hr Hc Hci Hcr. destruct (Nat.eq_dec c i) as [->|Hne].
      + rewrite HM2 by lia. f_equal. f_equal. apply udot_ext; intros t Ht.
        * rewrite HM3 by lia. reflexivity.
        * reflexivity.
      + rewrite HM3 by lia. rewrite I3 by lia. rewrite (HU2 c c) by lia. f_equal. f_equal.
        apply udot_ext; intros t Ht.
        * rewrite HM3 by lia. reflexivity.
        * rewrite HU2 by lia. reflexivity.
    - intros r Hr Hri. destruct (Nat.eq_dec r i) as [->|Hne]; [apply HM1; lia|].
      rewrite HM3 by lia. apply I4; lia.
    - intros r c Hr Hc H. rewrite HM3 by lia. apply I5; lia.
  Qed.

  Definition gpost (n : nat) (a : mat T) (i : nat) (acc : res (mat T * mat T)) : Prop :=
    match acc with
    | Ok (lo, up) => GInv n a i lo up
    | _ => True
    end.

  (* the returned factors satisfy the recurrences entry by entry, in the arithmetic of T *)
  Lemma lu_ok_GInv n (a L U : mat T) : lu n n a = Ok (L, U) -> GInv n a n L U.
  Proof.
    unfold lu. rewrite Nat.eqb_refl. cbn [negb]. intro E.
    pose proof (for_range_inv (gpost n a) 0 n (lu_step n a) (Ok (mconst n0, mconst n0))) as H.
    cbn [Nat.add] in H. rewrite E in H. apply H.
    - cbn [gpost]. apply GInv_init.
    - intros i acc Hi P. destruct acc as [[lo up]|e|w]; [|exact I|exact I].
      destruct (lu_step n a i (Ok (lo, up))) as [[lo' up']|e|w] eqn:Es; [|exact I|exact I].
      cbn [gpost] in *. apply (lu_step_GInv n a i lo up lo' up'); [lia|exact P|exact Es].
  Qed.
End Generic.

(* ======================================================================================== *)
(* Part B — binary64: the two row-level rounding lemmas                                      *)
Local Open Scope R_scope.
Local Notation pfloat := PrimFloat.float.

Lemma msum_RsumN n f : msum 0 n f = RsumN f n.
Proof. induction n as [|n IH]; [reflexivity|]. cbn [msum]. rewrite RsumN_S, IH. reflexivity. Qed.

Lemma sum_range_facc0 (xa ya : nat -> pfloat) (len : nat) :
  @sum_range pfloat FNum n0 0 len (fun j => PrimFloat.mul (xa j) (ya j)) = facc xa ya len.
Proof. rewrite (sum_range_facc_f 0 len xa ya). reflexivity. Qed.

(* an entry of U:  u = beta - sum_k xs_k ys_k  (accumulated from 0.0, left to right; no division) *)
Lemma lu_upper_entry_float_error (xs ys : nat -> pfloat) (m K : nat) (beta : pfloat) :
  (m + 1 <= K)%nat ->
  (forall k, (k < m)%nat -> okmul (xs k) (ys k)) ->
  (forall k, (k <= m)%nat -> ffin (facc xs ys k)) ->
  ffin beta ->
  ffin (PrimFloat.sub beta (facc xs ys m)) ->
  let u := PrimFloat.sub beta (facc xs ys m) in
  Rabs (RsumN (fun k => FR (xs k) * FR (ys k)) m + FR u - FR beta) <=
    ((1 + feps) ^ K - 1) * (RsumN (fun k => Rabs (FR (xs k) * FR (ys k))) m + Rabs (FR u)).
Proof.
  intros HK Hok Hs Fb Fw u.
  pose proof (facc_error_nounderflow xs ys m Hok Hs) as Es.
  destruct (sub_finite_inv beta (facc xs ys m) Fb (Hs m (le_n m)) Fw) as [d1 [Hd1 E1]]. fold u in E1.
  set (S0 := RsumN (fun k => FR (xs k) * FR (ys k)) m) in *.
  set (A := RsumN (fun k => Rabs (FR (xs k) * FR (ys k))) m) in *.
  set (sh := FR (facc xs ys m)) in *.
  assert (Eb : FR beta = sh + FR u * (1 + d1)) by lra.
  rewrite Eb.
  replace (S0 + FR u - (sh + FR u * (1 + d1))) with (- (sh - S0) + - (FR u * d1)) by ring.
  eapply Rle_trans; [apply Rabs_triang|]. rewrite !Rabs_Ropp, Rabs_mult.
  pose proof feps_pos as Hu.
  pose proof (gam_mono (S m) K ltac:(lia)) as G1.
  pose proof (gam_mono 1 K ltac:(lia)) as G2. cbn [pow] in G2.
  assert (HA : 0 <= A) by (unfold A; apply (RsumN_abs_nonneg (fun k => FR (xs k) * FR (ys k)) m)).
  pose proof (Rabs_pos (FR u)) as Hau.
  set (G := (1 + feps) ^ K - 1) in *.
  assert (P1 : Rabs (sh - S0) <= G * A).
  { eapply Rle_trans; [exact Es|]. apply Rmult_le_compat_r; [exact HA|exact G1]. }
  assert (P2 : Rabs (FR u) * Rabs d1 <= Rabs (FR u) * G).
  { apply Rmult_le_compat_l; [exact Hau|]. lra. }
  lra.
Qed.

(* an entry of L:  l = (beta - sum_k xs_k ys_k) / pivot  — the row of forward substitution *)
Lemma lu_lower_entry_float_error (xs ys : nat -> pfloat) (m K : nat) (beta pivot : pfloat) :
  (m + 2 <= K)%nat ->
  (forall k, (k < m)%nat -> okmul (xs k) (ys k)) ->
  (forall k, (k <= m)%nat -> ffin (facc xs ys k)) ->
  ffin beta ->
  ffin (PrimFloat.sub beta (facc xs ys m)) ->
  okdiv (PrimFloat.sub beta (facc xs ys m)) pivot ->
  let l := PrimFloat.div (PrimFloat.sub beta (facc xs ys m)) pivot in
  ffin l /\
  Rabs (RsumN (fun k => FR (xs k) * FR (ys k)) m + FR l * FR pivot - FR beta) <=
    ((1 + feps) ^ K - 1) * (RsumN (fun k => Rabs (FR (xs k) * FR (ys k))) m + Rabs (FR l * FR pivot)).
Proof.
  intros HK Hok Hs Fb Fw Hdiv l.
  destruct (row_residual xs ys m K beta pivot HK Hok Hs Fb Fw Hdiv) as [Fl R]. fold l in Fl, R.
  split; [exact Fl|]. rewrite (Rmult_comm (FR l) (FR pivot)). exact R.
Qed.

(* ======================================================================================== *)
(* Part C — the factorisation                                                                *)

(* hypotheses on the computation of entry (i,k), stated on the returned factors L, U:
   m = min i k products, then a subtraction, then (below the diagonal) a division by the pivot *)
Definition lu_entry_ok (A L U : mat PrimFloat.float) (i k : nat) : Prop :=
  let m := Nat.min i k in
  let s := fun t => sum_range n0 0 t (fun j => PrimFloat.mul (L i j) (U j k)) in
  is_finite (Prim2B (A i k)) = true /\
  (forall j, (j < m)%nat -> okmul (L i j) (U j k)) /\
  (forall t, (t <= m)%nat -> is_finite (Prim2B (s t)) = true) /\
  is_finite (Prim2B (PrimFloat.sub (A i k) (s m))) = true /\
  ((k < i)%nat -> okdiv (PrimFloat.sub (A i k) (s m)) (U k k)).

Theorem lu_float_backward_error : forall (n : nat) (A L U : mat PrimFloat.float),
  lu n n A = Ok (L, U) ->
  (forall i k, (i < n)%nat -> (k < n)%nat -> lu_entry_ok A L U i k) ->
  forall i k, (i < n)%nat -> (k < n)%nat ->
    is_finite (Prim2B (L i k)) = true /\ is_finite (Prim2B (U i k)) = true /\
    Rabs (mprod n (fun r c => B2R (Prim2B (L r c))) (fun r c => B2R (Prim2B (U r c))) i k
          - B2R (Prim2B (A i k)))
    <= ((1 + bpow radix2 (-53)) ^ n - 1)
       * mprod n (fun r c => Rabs (B2R (Prim2B (L r c)))) (fun r c => Rabs (B2R (Prim2B (U r c)))) i k.
Proof.
  intros n A L U E Hok i k Hi Hk.
  destruct (lu_ok_GInv n A L U E) as [I1 I2 I3 I4 I5].
  change (ffin (L i k) /\ ffin (U i k) /\
          Rabs (msum 0 n (fun t => FR (L i t) * FR (U t k)) - FR (A i k))
          <= ((1 + feps) ^ n - 1) * msum 0 n (fun t => Rabs (FR (L i t)) * Rabs (FR (U t k)))).
  pose proof FR_zero as [Z0 ZF]. pose proof FR_one as [O1 OF].
  assert (L0 : forall t, (i < t < n)%nat -> L i t = PrimFloat.zero).
  { intros t Ht. apply (I5 i t); lia. }
  assert (U0 : forall t, (k < t < n)%nat -> U t k = PrimFloat.zero).
  { intros t Ht. apply (I2 t k); lia. }
  assert (L1 : L i i = PrimFloat.one) by (apply (I4 i); lia).
  pose (xs := fun j : nat => L i j). pose (ys := fun j : nat => U j k).
  specialize (Hok i k Hi Hk). unfold lu_entry_ok in Hok. cbv zeta in Hok.
  change (fun j : nat => PrimFloat.mul (L i j) (U j k)) with (fun j : nat => PrimFloat.mul (xs j) (ys j)) in Hok.
  destruct (le_lt_dec i k) as [Hik|Hki].
  - (* on or above the diagonal: U i k is computed, L i t vanishes beyond t = i, L i i = 1 *)
    rewrite (Nat.min_l i k Hik) in Hok.
    destruct Hok as [Fa [Hmul [Hsum [Fw _]]]].
    rewrite (sum_range_facc0 xs ys i) in Fw.
    assert (Ex : U i k = PrimFloat.sub (A i k) (facc xs ys i)).
    { etransitivity; [exact (I1 i k Hi Hk Hi Hik)|].
      rewrite <- (sum_range_facc0 xs ys i). reflexivity. }
    pose proof (lu_upper_entry_float_error xs ys i n (A i k) ltac:(lia) Hmul) as R.
    cbv zeta in R. rewrite <- Ex in R, Fw.
    assert (Hs : forall t, (t <= i)%nat -> ffin (facc xs ys t)).
    { intros t Ht. specialize (Hsum t Ht).
      rewrite (sum_range_facc0 xs ys t) in Hsum. exact Hsum. }
    specialize (R Hs Fa Fw).
    split; [|split; [exact Fw|]].
    + destruct (Nat.eq_dec i k) as [Eik|Hne]; [rewrite <- Eik, L1; exact OF|].
      rewrite (L0 k) by lia. exact ZF.
    + rewrite (msum_trunc (S i) n) by (try lia; intros t Ht; rewrite (L0 t) by lia; rewrite Z0; ring).
      rewrite (msum_trunc (S i) n (fun t => Rabs (FR (L i t)) * Rabs (FR (U t k))))
        by (try lia; intros t Ht; rewrite (L0 t) by lia; rewrite Z0, Rabs_R0; ring).
      cbn [msum]. rewrite Nat.add_0_l, L1, O1, Rabs_R1, !Rmult_1_l, !msum_RsumN.
      rewrite (RsumN_ext (fun t => Rabs (FR (L i t)) * Rabs (FR (U t k)))
                         (fun t => Rabs (FR (xs t) * FR (ys t))) i)
        by (intros t _; rewrite Rabs_mult; reflexivity).
      exact R.
  - (* below the diagonal: L i k is computed, U t k vanishes beyond t = k *)
    rewrite (Nat.min_r i k ltac:(lia)) in Hok.
    destruct Hok as [Fa [Hmul [Hsum [Fw Hdiv]]]]. specialize (Hdiv Hki).
    rewrite (sum_range_facc0 xs ys k) in Fw, Hdiv.
    assert (Ex : L i k = PrimFloat.div (PrimFloat.sub (A i k) (facc xs ys k)) (U k k)).
    { etransitivity; [exact (I3 i k Hi Hk Hk Hki)|].
      rewrite <- (sum_range_facc0 xs ys k). reflexivity. }
    assert (Hs : forall t, (t <= k)%nat -> ffin (facc xs ys t)).
    { intros t Ht. specialize (Hsum t Ht).
      rewrite (sum_range_facc0 xs ys t) in Hsum. exact Hsum. }
    destruct (lu_lower_entry_float_error xs ys k n (A i k) (U k k) ltac:(lia) Hmul Hs Fa Fw Hdiv) as [Fl R].
    rewrite <- Ex in Fl, R.
    split; [exact Fl|]. split; [rewrite (I2 i k Hi Hk) by lia; exact ZF|].
    rewrite (msum_trunc (S k) n) by (try lia; intros t Ht; rewrite (U0 t) by lia; rewrite Z0; ring).
    rewrite (msum_trunc (S k) n (fun t => Rabs (FR (L i t)) * Rabs (FR (U t k))))
      by (try lia; intros t Ht; rewrite (U0 t) by lia; rewrite Z0, Rabs_R0; ring).
    cbn [msum]. rewrite Nat.add_0_l, !msum_RsumN.
    rewrite (RsumN_ext (fun t => Rabs (FR (L i t)) * Rabs (FR (U t k)))
                       (fun t => Rabs (FR (xs t) * FR (ys t))) k)
      by (intros t _; rewrite Rabs_mult; reflexivity).
    rewrite <- Rabs_mult. exact R.
Qed.

(* ---- non-vacuity: A = [[2,1,1],[4,3,3],[8,7,9]]  (L = [[1,0,0],[2,1,0],[4,3,1]], U = [[2,1,1],[0,1,1],[0,0,2]]) *)
Definition ex_lu_a : mat PrimFloat.float :=
  mat_of_lists [[0x1p+1; 0x1p+0; 0x1p+0]; [0x1p+2; 0x1.8p+1; 0x1.8p+1]; [0x1p+3; 0x1.cp+2; 0x1.2p+3]]%float.

Example ex_lu_float_hyps : exists L U, lu 3 3 ex_lu_a = Ok (L, U) /\
  forall i k, (i < 3)%nat -> (k < 3)%nat -> lu_entry_ok ex_lu_a L U i k.
Proof.
  eexists _, _. split; [reflexivity|].
  intros i k Hi Hk.
  destruct i as [|[|[|i]]]; try lia; destruct k as [|[|[|k]]]; try lia;
  unfold lu_entry_ok; cbn [Nat.min]; cbv zeta;
  (split; [fin_compute|]; split;
   [intros j Hj; destruct j as [|[|j]]; try lia; okmul_compute|]; split;
   [intros t Ht; destruct t as [|[|[|t]]]; try lia; fin_compute|]; split;
   [fin_compute|intros Hlt; try lia; okdiv_compute]).
Qed.

Example ex_lu_float_error : exists L U, lu 3 3 ex_lu_a = Ok (L, U) /\
  forall i k, (i < 3)%nat -> (k < 3)%nat ->
    Rabs (mprod 3 (fun r c => B2R (Prim2B (L r c))) (fun r c => B2R (Prim2B (U r c))) i k
          - B2R (Prim2B (ex_lu_a i k)))
    <= ((1 + bpow radix2 (-53)) ^ 3 - 1)
       * mprod 3 (fun r c => Rabs (B2R (Prim2B (L r c)))) (fun r c => Rabs (B2R (Prim2B (U r c)))) i k.
Proof.
  destruct ex_lu_float_hyps as [L [U [E H]]]. exists L, U. split; [exact E|].
  intros i k Hi Hk. exact (proj2 (proj2 (lu_float_backward_error 3 ex_lu_a L U E H i k Hi Hk))).
Qed.
