(* Proofs/NewtonMirror.v — C07: the reflection symmetry x |-> -x of the Newton-Raphson MODEL
   (exact arithmetic) and, through it, the mirror image of c07_converges_to_extreme_root:
   convergence to the SMALLEST root Rs < 0 from a start x0 < Rs.

   Reflection: for f, f' : R -> res R put fm y := f (-y), fm' y := res_map Ropp (f' (-y)) (the
   derivative of y |-> f (-y) is -f' (-y)).  One loop body from -x with (fm, fm') is the mirror
   image of the body from x with (f, f'): the new iterate is negated (x - v/d becomes
   -x - v/(-d)), the is_finite guard is always true over R, the exact-root shortcut tests
   fm (-x') = f x', the `x' <> 0` guard is symmetric, the relative change |x' - x| / x' * 100
   changes sign -- and the exit test looks at its absolute value only --, the iteration counter
   is untouched.  Hence nrm fm fm' (-x0) cap tol = res_map Ropp (nrm f f' x0 cap tol): Ok values
   are negated, Err and Panic outcomes are identical. *)
From Coq Require Import ZArith List Reals Lra Lia Bool Arith Psatz.
From SV Require Import Base.Num Base.Outcome Model.Poly Model.Solvers Proofs.Bisect Proofs.Newton.
Import ListNotations.
Local Open Scope R_scope.

Definition refl_f (f : R -> res R) : R -> res R := fun y => f (- y).
Definition refl_f' (f' : R -> res R) : R -> res R := fun y => res_map Ropp (f' (- y)).

(* mirror image of a loop state *)
Definition mst (s : nstate R) : nstate R :=
  {| ns_iter := ns_iter s; ns_x := - ns_x s; ns_old := - ns_old s;
     ns_err := option_map Ropp (ns_err s) |}.

Lemma err_small_opp (e : option R) tol : err_small (option_map Ropp e) tol = err_small e tol.
Proof.
  destruct e as [v|]; [|reflexivity]. cbn [option_map err_small nabs nltb RNum].
  rewrite Rabs_Ropp. reflexivity.
Qed.

Lemma Reqb_opp0 x : Reqb (- x) 0 = Reqb x 0.
Proof.
  destruct (Reqb x 0) eqn:E.
  - apply Reqb_true in E. apply Reqb_true. lra.
  - apply Reqb_false in E. apply Reqb_false. lra.
Qed.

Section Reflect.
  Variables (f f' : R -> res R) (tol : R) (cap : nat).
  Let fm := refl_f f.
  Let fm' := refl_f' f'.

  (* the body reads only ns_x and ns_iter of its state *)
  Lemma nr_body_reflect s sm : ns_x sm = - ns_x s -> ns_iter sm = ns_iter s ->
    nr_body fm fm' tol cap sm = res_map (fun p => (mst (fst p), snd p)) (nr_body f f' tol cap s).
  Proof.
    intros Hx Hi. unfold nr_body. rewrite Hx, Hi.
    unfold fm at 1, refl_f. rewrite Ropp_involutive.
    destruct (f (ns_x s)) as [v|e|w]; cbn [bind res_map]; [|reflexivity|reflexivity].
    unfold fm' at 1, refl_f'. rewrite Ropp_involutive.
    destruct (f' (ns_x s)) as [d|e|w]; cbn [bind res_map]; [|reflexivity|reflexivity].
    rewrite !nfinite_R.
    cbn [nsub ndiv nmul nabs neqb n0 RNum]. unfold nneb. cbn [neqb n0 RNum]. rewrite c100_R.
    set (old := ns_x s).
    assert (Ex : - old - v / - d = - (old - v / d)).
    { unfold Rdiv. rewrite Rinv_opp. ring. }
    rewrite Ex. set (x := old - v / d).
    unfold fm, refl_f. rewrite Ropp_involutive, Reqb_opp0.
    assert (Ee : Rabs (- x - - old) / - x * 100 = - (Rabs (x - old) / x * 100)).
    { replace (- x - - old) with (- (x - old)) by ring. rewrite Rabs_Ropp.
      unfold Rdiv. rewrite Rinv_opp. ring. }
    rewrite Ee.
    destruct (f x) as [vx|e|w]; cbn [bind res_map]; [|reflexivity|reflexivity].
    cbn [fst snd]. unfold mst. cbn [ns_iter ns_x ns_old ns_err].
    destruct (Reqb vx 0); destruct (Reqb x 0); cbn [negb option_map err_small nabs nltb RNum];
      rewrite ?Rabs_Ropp, ?Ropp_0; reflexivity.
  Qed.

  Lemma nr_loop_reflect fuel : forall s sm, ns_x sm = - ns_x s -> ns_iter sm = ns_iter s ->
    nr_loop fm fm' tol cap fuel sm = res_map mst (nr_loop f f' tol cap fuel s).
  Proof.
    induction fuel as [|fuel IH]; intros s sm Hx Hi; cbn [nr_loop];
      rewrite (nr_body_reflect s sm Hx Hi);
      destruct (nr_body f f' tol cap s) as [[s' b]|e|w]; cbn [res_map fst snd]; try reflexivity;
      destruct b; try reflexivity.
    apply IH; reflexivity.
  Qed.
End Reflect.

(* THE REFLECTION LAW of the solver model *)
Lemma nrm_reflect : forall (f f' : R -> res R) (x0 : R) (cap : nat) (tol : R),
  nrm (fun y => f (- y)) (fun y => res_map Ropp (f' (- y))) (- x0) cap tol =
  res_map Ropp (nrm f f' x0 cap tol).
Proof.
  intros f f' x0 cap tol. unfold nrm.
  change (fun y => f (- y)) with (refl_f f). change (fun y => res_map Ropp (f' (- y))) with (refl_f' f').
  rewrite (nr_loop_reflect f f' tol cap cap (nr_start x0) (nr_start (- x0))) by reflexivity.
  destruct (nr_loop f f' tol cap cap (nr_start x0)) as [s|e|w]; cbn [res_map bind]; try reflexivity.
  unfold mst at 1. cbn [ns_iter]. destruct (Nat.leb cap (ns_iter s)); reflexivity.
Qed.

(* ---- products of linear factors under the reflection ---------------------------- *)
Lemma rprod_reflect rs y : rprod rs (- y) = (-1) ^ length rs * rprod (map Ropp rs) y.
Proof.
  induction rs as [|r rs IH]; cbn [rprod map length pow]; [ring|]. rewrite IH. ring.
Qed.
Lemma rdprod_reflect rs y : rdprod rs (- y) = - (-1) ^ length rs * rdprod (map Ropp rs) y.
Proof.
  induction rs as [|r rs IH]; cbn [rdprod rprod map length pow]; [ring|].
  rewrite IH, rprod_reflect. ring.
Qed.

(* ---- the mirror image of the convergence half ------------------------------------- *)
Lemma c07_converges_to_extreme_root_mirror :
  forall (f f' : R -> res R) (c : R) (rs : list R) (Rs x0 tol : R) (cap K : nat),
  (forall x, f x = Ok (c * rprod rs x)) -> (forall x, f' x = Ok (c * rdprod rs x)) ->
  c <> 0 -> In Rs rs -> (forall r, In r rs -> Rs <= r) -> Rs < 0 -> 0 < tol -> x0 < Rs ->
  (S K < cap)%nat ->
  100 * (INR (length rs) - 1) ^ K * (Rs - x0) < tol * (- Rs) * INR (length rs) ^ K ->
  exists x, nrm f f' x0 cap tol = Ok x /\ x <= Rs /\
            (Rs - x) * 100 <= (INR (length rs) - 1) * tol * (- x).
Proof.
  intros f f' c rs Rs x0 tol cap K Hf Hf' Hc Hin Hmin HRs Htol Hx0 HK Hbudget.
  set (fm := fun y => f (- y)). set (fm' := fun y => res_map Ropp (f' (- y))).
  set (c' := c * (-1) ^ length rs). set (rs' := map Ropp rs).
  assert (Hfm : forall y, fm y = Ok (c' * rprod rs' y)).
  { intro y. unfold fm, c', rs'. rewrite Hf, rprod_reflect. f_equal. ring. }
  assert (Hfm' : forall y, fm' y = Ok (c' * rdprod rs' y)).
  { intro y. unfold fm', c', rs'. rewrite Hf', rdprod_reflect. cbn [res_map]. f_equal. ring. }
  assert (Hc' : c' <> 0).
  { unfold c'. apply Rmult_integral_contrapositive_currified; [exact Hc|].
    apply pow_nonzero. lra. }
  assert (Hin' : In (- Rs) rs') by (unfold rs'; apply in_map; exact Hin).
  assert (Hmax' : forall r, In r rs' -> r <= - Rs).
  { intros r Hr. unfold rs' in Hr. apply in_map_iff in Hr. destruct Hr as [r0 [<- Hr0]].
    specialize (Hmin r0 Hr0). lra. }
  assert (Hlen : length rs' = length rs) by (unfold rs'; apply map_length).
  destruct (c07_converges_to_extreme_root fm fm' c' rs' (- Rs) (- x0) tol cap K
              Hfm Hfm' Hc' Hin' Hmax' ltac:(lra) Htol ltac:(lra) HK) as [y [Hy [Hy1 Hy2]]].
  { rewrite Hlen. replace (- x0 - - Rs) with (Rs - x0) by ring. exact Hbudget. }
  rewrite Hlen in Hy2.
  unfold fm, fm' in Hy. rewrite nrm_reflect in Hy.
  destruct (nrm f f' x0 cap tol) as [x|e|w]; cbn [res_map] in Hy; try discriminate Hy.
  injection Hy as Hy. exists x. split; [reflexivity|]. subst y. split; [lra|].
  replace (Rs - x) with (- x - - Rs) by ring. exact Hy2.
Qed.

(* non-vacuity: (x+1)(x+2)(x+4) from x0 = -10, tol = 1e-3 (percent), cap 100, K = 30 *)
Lemma c07_example_converges_mirror :
  exists x, nrm (fun x => Ok (1 * rprod [-1; -2; -4] x)) (fun x => Ok (1 * rdprod [-1; -2; -4] x))
                (-10) 100 (1 / 1000) = Ok x /\
            x <= -4 /\ (-4 - x) * 100 <= 2 * (1 / 1000) * (- x).
Proof.
  destruct (c07_converges_to_extreme_root_mirror
              (fun x => Ok (1 * rprod [-1; -2; -4] x)) (fun x => Ok (1 * rdprod [-1; -2; -4] x))
              1 [-1; -2; -4] (-4) (-10) (1 / 1000) 100 30) as (x & Hx & H4 & Hb);
    try reflexivity; try lra; try lia.
  - cbn. tauto.
  - intros r [<-|[<-|[<-|[]]]]; lra.
  - cbn [length INR]. replace (1 + 1 + 1 - 1) with 2 by ring. replace (1 + 1 + 1) with 3 by ring. lra.
  - exists x. split; [exact Hx|]. split; [exact H4|].
    cbn [length INR] in Hb. replace (1 + 1 + 1 - 1) with 2 in Hb by ring. exact Hb.
Qed.
