(* Proofs/PLUFloatMult.v — C09 at the floating-point level: the multipliers of the pivoted factorisation
   [plu] of Model/LU.v are bounded by 1 in absolute value, for the binary64 instance.

   The pivot search keeps a pair (row, max) and replaces it when [ngtb value max] ( = max < value, STRICT:
   on ties the first row wins).  A NaN value is never selected (NaN > max is false) unless it is the
   initial entry m_ii, and then it is never replaced (value > NaN is false).  Whatever the entries are, the
   comparison of binary64 satisfies
        x > x is false,        (x > v is false) and (v' > v) imply (x > v' is false)
   (NaN and infinities included), and this is all the search needs:

   Part A (any Num instance whose [ngtb] satisfies these two facts): every entry of L below the diagonal is
   [ndiv a b] for some a, b with [ngtb (nabs a) (nabs b) = false] ([plu_multiplier_origin]).  The fact is
   recorded when column i of multipliers is computed (a, b are entries of column i after the interchange)
   and later interchanges only permute the stored multipliers.
   Part B (binary64): if NOT (|b| < |a|) in the float comparison and fl(a / b) is not NaN, then fl(a / b) is
   finite and |fl(a / b)| <= 1 ([fdiv_abs_le_one]: rounding to nearest is monotone and 1 is representable;
   b = 0, a infinite, b infinite are settled by cases: the first two contradict the hypotheses, the last
   gives a zero).
   Part C: [plu_float_multipliers_le_one]: every entry of L that is not NaN is finite with |L_ij| <= 1; no
   other hypothesis.  An entry of L can be NaN (NaN in the input; 0/0 when the threshold is NaN because the
   scale is infinite), and then nothing is said about it; since Flocq's B2R maps NaN to 0 the real reading
   [Rabs (B2R (Prim2B (L i j))) <= 1] holds unconditionally ([plu_float_multipliers_B2R_le_one]).       *)
From Coq Require Import ZArith List Bool Arith Reals Floats Lia Lra.
From Flocq Require Import Core BinarySingleNaN PrimFloat.
From SV Require Import Base.Num Base.Outcome Base.Mat Model.LU Proofs.PLU Proofs.LUFloat Proofs.StatsFloat
                       Proofs.Arr2DFloat Proofs.PolyFloat Proofs.PLUFloat.
Import ListNotations.

(* ======================================================================================== *)
(* Part A — origin of the multipliers, any Num                                                *)
Section Generic.
  Context {T : Type} {NT : Num T}.
  Hypothesis gt_irrefl : forall x : T, ngtb x x = false.
  Hypothesis gt_keep : forall x v v' : T, ngtb x v = false -> ngtb v' v = true -> ngtb x v' = false.

  (* the pair returned by the search: the value is |m_qi| for the returned row q, and no compared entry
     is greater *)
  Lemma gpivot_max n i (m : mat T) : i < n ->
    snd (plu_pivot_search n i m) = nabs (m (fst (plu_pivot_search n i m)) i) /\
    forall k, i <= k < n -> ngtb (nabs (m k i)) (snd (plu_pivot_search n i m)) = false.
  Proof.
    intro Hi. unfold plu_pivot_search.
    match goal with |- context [for_range (S i) (n - S i) ?b ?s] => set (body := b); set (s0 := s) end.
    pose proof (for_range_inv
      (fun k (st : nat * T) => snd st = nabs (m (fst st) i) /\
                               forall k', i <= k' < k -> ngtb (nabs (m k' i)) (snd st) = false)
      (S i) (n - S i) body s0) as H.
    replace (S i + (n - S i)) with n in H by lia.
    apply H.
    - unfold s0. cbn [fst snd]. split; [reflexivity|].
      intros k' Hk'. replace k' with i by lia. apply gt_irrefl.
    - intros k st Hk [A1 A2]. unfold body. cbv zeta.
      destruct (ngtb (nabs (m k i)) (snd st)) eqn:E; cbn [fst snd].
      + split; [reflexivity|]. intros k' Hk'.
        destruct (Nat.eq_dec k' k) as [->|Hne]; [apply gt_irrefl|].
        apply (gt_keep _ (snd st)); [apply A2; lia|exact E].
      + split; [exact A1|]. intros k' Hk'.
        destruct (Nat.eq_dec k' k) as [->|Hne]; [exact E|apply A2; lia].
  Qed.

  (* a quotient whose numerator was not greater than its denominator in the pivot comparison *)
  Definition mult_origin (x : T) : Prop :=
    exists a b, x = ndiv a b /\ ngtb (nabs a) (nabs b) = false.

  (* after i steps, the stored multipliers of columns 0..i-1 *)
  Definition MInv (n i : nat) (m : mat T) : Prop :=
    forall r c, r < n -> c < i -> c < r -> mult_origin (m r c).

  Lemma plu_step_MInv n thr i m p m' p' :
    i < n -> MInv n i m -> plu_step n thr i (Ok (m, p)) = Ok (m', p') -> MInv n (S i) m'.
  Proof.
    intros Hi HM E. cbn [plu_step] in E. cbv zeta in E.
    pose proof (gpivot_range n i m Hi) as Hq.
    destruct (gpivot_max n i m Hi) as [Hv Hmax].
    set (q := fst (plu_pivot_search n i m)) in *.
    set (m1 := if q =? i then m else mswap_rows m q i) in *.
    destruct (nleb (nabs (m1 i i)) thr); [discriminate E|].
    injection E as <- _.
    assert (Hm1 : forall r c, m1 r c = m (tau i q r) c) by (intros r c; unfold m1; apply gswap_tau).
    change (plu_eliminate n i m1) with (geliminate_len n i (n - S i) m1).
    destruct (geliminate_len_spec n i (n - S i) m1 Hi) as [E1 [_ E3]].
    replace (S i + (n - S i)) with n in E1, E3 by lia.
    intros r c Hr Hc Hcr. rewrite retab_spec by lia.
    destruct (Nat.eq_dec c i) as [->|Hne].
    - (* the column computed at this step *)
      rewrite E1 by lia. exists (m1 r i), (m1 i i). split; [reflexivity|].
      rewrite (Hm1 i i), tau_i, <- Hv, Hm1. apply Hmax.
      split; [apply tau_high; lia|apply tau_lt; lia].
    - (* older columns: rows are permuted, values kept *)
      rewrite E3 by lia. rewrite Hm1. apply HM; [apply tau_lt; lia|lia|].
      destruct (le_lt_dec i r) as [Hir|Hir].
      + pose proof (tau_high i q r ltac:(lia) Hir). lia.
      + rewrite tau_low by lia. exact Hcr.
  Qed.

  Theorem plu_multiplier_origin n (A L U P : mat T) : plu n n A = Ok (L, U, P) ->
    forall r c, r < n -> c < n -> c < r -> mult_origin (L r c).
  Proof.
    unfold plu. rewrite Nat.eqb_refl. cbn [negb]. intro E.
    pose proof (for_range_inv
      (fun i (acc : res (mat T * mat T)) => match acc with Ok (m, _) => MInv n i m | _ => True end)
      0 n (plu_step n (plu_threshold n A)) (Ok (A, midentity))) as H.
    cbn [Nat.add] in H.
    destruct (for_range 0 n (plu_step n (plu_threshold n A)) (Ok (A, midentity))) as [[m p]|e|w];
      try discriminate E.
    injection E as <- _ _.
    assert (HM : MInv n n m).
    { apply H.
      - intros r c _ Hc. lia.
      - intros i acc Hi Pa. destruct acc as [[m0 p0]|e|w]; [|exact I|exact I].
        destruct (plu_step n (plu_threshold n A) i (Ok (m0, p0))) as [[m' p']|e|w] eqn:Es; [|exact I|exact I].
        apply (plu_step_MInv n (plu_threshold n A) i m0 p0 m' p'); [lia|exact Pa|exact Es]. }
    intros r c Hr Hc Hcr. rewrite retab_spec by assumption. unfold plu_lower.
    destruct (Nat.eqb_spec r c); [lia|]. destruct (Nat.ltb_spec c r); [|lia].
    apply HM; assumption.
  Qed.
End Generic.

(* ======================================================================================== *)
(* Part B — binary64                                                                          *)
Local Open Scope R_scope.
Local Notation pfloat := PrimFloat.float.
Local Notation B64 := (binary_float FloatOps.prec FloatOps.emax).
Local Notation Bquo := (@Bdiv FloatOps.prec FloatOps.emax Hprec Hmax mode_NE).
Local Notation fexp64 := (SpecFloat.fexp FloatOps.prec FloatOps.emax).

(* an order embedding of the non-NaN floats into R: the infinities sit at +-2^1024 *)
Definition ext (x : B64) : R :=
  match x with
  | B754_infinity s => if s then - bpow radix2 FloatOps.emax else bpow radix2 FloatOps.emax
  | _ => B2R x
  end.

Lemma Bltb_ext (x y : B64) : is_nan x = false -> is_nan y = false -> Bltb x y = Rlt_bool (ext x) (ext y).
Proof.
  intros Nx Ny.
  destruct (is_finite x) eqn:Fx; destruct (is_finite y) eqn:Fy.
  - rewrite Bltb_correct by assumption.
    destruct x; try discriminate Fx; destruct y; try discriminate Fy; reflexivity.
  - destruct y as [sy|sy| |sy my ey Hy]; try discriminate.
    pose proof (Rabs_lt_inv _ _ (abs_B2R_lt_emax _ _ x)) as [B1 B2].
    assert (Ex : ext x = B2R x) by (destruct x; try discriminate Fx; reflexivity). rewrite Ex.
    destruct x as [sx|sx| |sx mx ex Hx]; try discriminate Fx; destruct sy; cbn [ext];
      try (rewrite Rlt_bool_false by lra; reflexivity);
      try (rewrite Rlt_bool_true by lra; destruct sx; reflexivity).
  - destruct x as [sx|sx| |sx mx ex Hx]; try discriminate.
    pose proof (Rabs_lt_inv _ _ (abs_B2R_lt_emax _ _ y)) as [B1 B2].
    assert (Ey : ext y = B2R y) by (destruct y; try discriminate Fy; reflexivity). rewrite Ey.
    destruct y as [sy|sy| |sy my ey Hy]; try discriminate Fy; destruct sx; cbn [ext];
      try (rewrite Rlt_bool_false by lra; destruct sy; reflexivity);
      try (rewrite Rlt_bool_true by lra; reflexivity).
  - destruct x as [sx|sx| |sx mx ex Hx]; try discriminate.
    destruct y as [sy|sy| |sy my ey Hy]; try discriminate.
    pose proof (bpow_gt_0 radix2 FloatOps.emax) as Hp.
    destruct sx, sy; cbn [ext];
      try (rewrite Rlt_bool_false by lra; reflexivity);
      try (rewrite Rlt_bool_true by lra; reflexivity).
Qed.

Lemma Bltb_nan_l (x y : B64) : is_nan x = true -> Bltb x y = false.
Proof. destruct x; try discriminate. reflexivity. Qed.
Lemma Bltb_nan_r (x y : B64) : is_nan y = true -> Bltb x y = false.
Proof. destruct y; try discriminate. destruct x as [s|s| |s m e H]; try destruct s; reflexivity. Qed.

(* the two facts about the comparison, NaN and infinities included *)
Lemma fgt_irrefl (x : pfloat) : @ngtb pfloat FNum x x = false.
Proof.
  unfold ngtb. cbn [nltb FNum]. rewrite ltb_equiv.
  destruct (is_nan (Prim2B x)) eqn:N; [apply Bltb_nan_l; exact N|].
  rewrite Bltb_ext by assumption. apply Rlt_bool_false. lra.
Qed.

Lemma fgt_keep (x v v' : pfloat) :
  @ngtb pfloat FNum x v = false -> @ngtb pfloat FNum v' v = true -> @ngtb pfloat FNum x v' = false.
Proof.
  unfold ngtb. cbn [nltb FNum]. rewrite !ltb_equiv. intros H1 H2.
  destruct (is_nan (Prim2B x)) eqn:Nx; [apply Bltb_nan_r; exact Nx|].
  destruct (is_nan (Prim2B v)) eqn:Nv; [rewrite Bltb_nan_l in H2 by exact Nv; discriminate H2|].
  destruct (is_nan (Prim2B v')) eqn:Nv'; [rewrite Bltb_nan_r in H2 by exact Nv'; discriminate H2|].
  rewrite Bltb_ext in * by assumption.
  apply Rlt_bool_false.
  destruct (Rlt_bool_spec (ext (Prim2B v)) (ext (Prim2B x))); [discriminate H1|].
  destruct (Rlt_bool_spec (ext (Prim2B v)) (ext (Prim2B v'))); [|discriminate H2].
  lra.
Qed.

(* finite operands, non-zero divisor, |x| <= |y|: the rounded quotient is finite and at most 1 *)
Lemma Bdiv_abs_le_one (x y : B64) :
  is_finite x = true -> B2R y <> 0 -> Rabs (B2R x) <= Rabs (B2R y) ->
  is_finite (Bquo x y) = true /\ Rabs (B2R (Bquo x y)) <= 1.
Proof.
  intros Fx Hy Hxy.
  assert (Hq : Rabs (B2R x / B2R y) <= 1).
  { unfold Rdiv. rewrite Rabs_mult, Rabs_inv.
    pose proof (Rabs_pos_lt _ Hy) as Hpos.
    replace 1 with (Rabs (B2R y) * / Rabs (B2R y)) by (field; lra).
    apply Rmult_le_compat_r; [left; apply Rinv_0_lt_compat; exact Hpos|exact Hxy]. }
  assert (G1 : generic_format radix2 fexp64 1).
  { rewrite <- (Bone_correct FloatOps.prec FloatOps.emax Hprec Hmax). apply generic_format_B2R. }
  pose proof (@abs_round_le_generic radix2 fexp64 (fexp_correct _ _ Hprec) ZnearestE (valid_rnd_N _)
                (B2R x / B2R y) 1 G1 Hq) as Hr.
  assert (H1 : 1 < bpow radix2 FloatOps.emax).
  { change 1 with (bpow radix2 0). apply bpow_lt. reflexivity. }
  generalize (Bdiv_correct FloatOps.prec FloatOps.emax Hprec Hmax mode_NE x y Hy).
  cbn [round_mode].
  rewrite Rlt_bool_true by lra.
  intros [E1 [E2 _]]. split; [rewrite E2; exact Fx|rewrite E1; exact Hr].
Qed.

Lemma B2R_finite_neq_0 s m e H : B2R (B754_finite s m e H : B64) <> 0.
Proof.
  cbn [B2R]. intro E. apply eq_0_F2R in E. destruct s; discriminate E.
Qed.

(* the division of the model: NOT (|b| < |a|) in the float comparison and a quotient that is not NaN *)
Lemma fdiv_abs_le_one (a b : pfloat) :
  PrimFloat.ltb (PrimFloat.abs b) (PrimFloat.abs a) = false ->
  is_nan (Prim2B (PrimFloat.div a b)) = false ->
  is_finite (Prim2B (PrimFloat.div a b)) = true /\ Rabs (B2R (Prim2B (PrimFloat.div a b))) <= 1.
Proof.
  rewrite ltb_equiv, !abs_equiv, div_equiv.
  set (x := Prim2B a). set (y := Prim2B b). clearbody x y. intros Hc Hn.
  destruct x as [sx|sx| |sx mx ex Hx] eqn:Ex; destruct y as [sy|sy| |sy my ey Hy] eqn:Ey;
    try discriminate Hn; try discriminate Hc;
    try (split; [reflexivity|cbn [Bdiv B2R]; rewrite Rabs_R0; lra]).
  rewrite <- Ex, <- Ey in *.
  assert (Fx : is_finite x = true) by (rewrite Ex; reflexivity).
  assert (Fy : is_finite y = true) by (rewrite Ey; reflexivity).
  apply Bdiv_abs_le_one; [exact Fx|rewrite Ey; apply B2R_finite_neq_0|].
  rewrite Bltb_correct in Hc by (rewrite is_finite_Babs; assumption).
  rewrite !B2R_Babs in Hc.
  destruct (Rlt_bool_spec (Rabs (B2R y)) (Rabs (B2R x))); [discriminate Hc|assumption].
Qed.

(* ======================================================================================== *)
(* Part C — the factorisation                                                                *)

Theorem plu_float_multipliers_le_one : forall (n : nat) (A L U P : mat PrimFloat.float),
  plu n n A = Ok (L, U, P) ->
  forall i j, (i < n)%nat -> (j < n)%nat ->
    is_nan (Prim2B (L i j)) = false ->
    is_finite (Prim2B (L i j)) = true /\ Rabs (B2R (Prim2B (L i j))) <= 1.
Proof.
  intros n A L U P E i j Hi Hj Hn.
  destruct (plu_ok_final n A L U P E) as [s [_ [_ [_ _ _ I4 I5]]]].
  destruct (lt_eq_lt_dec j i) as [[Hlt|Heq]|Hgt].
  - destruct (plu_multiplier_origin fgt_irrefl fgt_keep n A L U P E i j Hi Hj Hlt) as [a [b [Eab Hc]]].
    unfold ngtb in Hc. cbn [nltb nabs ndiv FNum] in Eab, Hc.
    rewrite Eab in *. apply fdiv_abs_le_one; assumption.
  - subst j. rewrite (I4 i Hi). cbn [n1 FNum].
    destruct FR_one as [O1 OF]. unfold FR, ffin in *. rewrite O1, Rabs_R1. split; [exact OF|lra].
  - rewrite (I5 i j Hi Hj Hgt). cbn [n0 FNum].
    destruct FR_zero as [Z0 ZF]. unfold FR, ffin in *. rewrite Z0, Rabs_R0. split; [exact ZF|lra].
Qed.

(* the real reading alone needs no hypothesis: B2R maps NaN (and the infinities) to 0 *)
Corollary plu_float_multipliers_B2R_le_one : forall (n : nat) (A L U P : mat PrimFloat.float),
  plu n n A = Ok (L, U, P) ->
  forall i j, (i < n)%nat -> (j < n)%nat -> Rabs (B2R (Prim2B (L i j))) <= 1.
Proof.
  intros n A L U P E i j Hi Hj.
  destruct (is_nan (Prim2B (L i j))) eqn:N.
  - destruct (Prim2B (L i j)); try discriminate N. cbn [B2R]. rewrite Rabs_R0. lra.
  - exact (proj2 (plu_float_multipliers_le_one n A L U P E i j Hi Hj N)).
Qed.

(* ---- non-vacuity: A = [[1,2,3],[4,5,6],[7,8,10]] (two interchanges; multipliers 1/7, 4/7, 1/2): no
   entry of L is NaN, so the theorem speaks about all nine entries *)
Example ex_plu_float_mult_hyps : exists L U P, plu 3 3 ex_plu_a = Ok (L, U, P) /\
  forall i j, (i < 3)%nat -> (j < 3)%nat -> is_nan (Prim2B (L i j)) = false.
Proof.
  eexists _, _, _. split; [vm_compute; reflexivity|].
  intros i j Hi Hj.
  destruct i as [|[|[|i]]]; try lia; destruct j as [|[|[|j]]]; try lia;
    rewrite <- is_nan_equiv; vm_compute; reflexivity.
Qed.
