(* Proofs/StrLemmas.v — facts about the string functions of Base/Str.v used by the
   univariate parser proofs (Proofs/SimpleParse.v): strip_ws, split_on and its
   inverse [join], find_char, find_pred, digit strings. *)
From Coq Require Import ZArith NArith List Bool Lia.
From SV Require Import Base.Num Base.Str.
Import ListNotations.

(* ---- strip_ws -------------------------------------------------------------- *)
Lemma strip_ws_idem (s : str) : strip_ws (strip_ws s) = strip_ws s.
Proof.
  unfold strip_ws. induction s as [|x s IH]; cbn [filter]; [reflexivity|].
  destruct (negb (is_whitespace x)) eqn:E; cbn [filter]; [rewrite E, IH|]; auto.
Qed.

(* ---- firstn / skipn at a known split point ---------------------------------- *)
Lemma firstn_len_app {A} (a b : list A) : firstn (length a) (a ++ b) = a.
Proof. induction a as [|x a IH]; cbn [length app firstn]; [destruct b|rewrite IH]; reflexivity. Qed.

Lemma skipn_S_len_app {A} (a : list A) x (b : list A) : skipn (S (length a)) (a ++ x :: b) = b.
Proof. induction a as [|y a IH]; cbn [length app skipn]; [reflexivity|exact IH]. Qed.

(* ---- split_on and join -------------------------------------------------------- *)
(* pieces glued back with the separator: the inverse of split_on *)
Definition join (c : N) (ps : list str) : str :=
  match ps with
  | [] => []
  | p :: ps' => p ++ flat_map (fun q => c :: q) ps'
  end.

Lemma split_on_nonempty c s : split_on c s <> [].
Proof.
  destruct s as [|x s]; cbn [split_on]; [discriminate|].
  destruct (split_on c s); [discriminate|]. destruct (N.eqb x c); discriminate.
Qed.

Lemma split_on_notin c s : ~ In c s -> split_on c s = [s].
Proof.
  induction s as [|x s IH]; intros H; cbn [split_on]; [reflexivity|].
  rewrite IH by (intros K; apply H; right; exact K).
  destruct (N.eqb_spec x c) as [->|_]; [exfalso; apply H; left; reflexivity|reflexivity].
Qed.

Lemma split_on_app c a b : ~ In c a -> split_on c (a ++ c :: b) = a :: split_on c b.
Proof.
  induction a as [|x a IH]; intros H; cbn [app].
  - cbn [split_on]. destruct (split_on c b) eqn:E; [exfalso; exact (split_on_nonempty c b E)|].
    rewrite N.eqb_refl. reflexivity.
  - cbn [split_on]. rewrite IH by (intros K; apply H; right; exact K).
    destruct (N.eqb_spec x c) as [->|_]; [exfalso; apply H; left; reflexivity|reflexivity].
Qed.

Lemma join_split c s : join c (split_on c s) = s.
Proof.
  induction s as [|x s IH]; [reflexivity|].
  cbn [split_on]. destruct (split_on c s) as [|p ps] eqn:E; [exfalso; exact (split_on_nonempty c s E)|].
  cbn [join] in IH. destruct (N.eqb_spec x c) as [->|_]; cbn [join flat_map app]; rewrite IH; reflexivity.
Qed.

Lemma split_join c ps : ps <> [] -> Forall (fun p => ~ In c p) ps -> split_on c (join c ps) = ps.
Proof.
  induction ps as [|p ps IH]; intros Hne Hall; [contradiction|].
  inversion Hall as [|? ? Hp Hps]; subst. destruct ps as [|q qs].
  - cbn [join flat_map]. rewrite app_nil_r. apply split_on_notin. exact Hp.
  - change (join c (p :: q :: qs)) with (p ++ c :: join c (q :: qs)).
    rewrite split_on_app by exact Hp. rewrite IH; [reflexivity|discriminate|exact Hps].
Qed.

Lemma split_on_pieces c s : Forall (fun p => ~ In c p) (split_on c s).
Proof.
  induction s as [|x s IH]; cbn [split_on]; [repeat constructor; intros []|].
  destruct (split_on c s) as [|p ps]; [repeat constructor; intros []|].
  inversion IH as [|? ? Hp Hps]; subst.
  destruct (N.eqb_spec x c) as [->|Hn]; constructor; try assumption.
  - intros [].
  - intros [K|K]; [apply Hn; exact K|exact (Hp K)].
Qed.

(* ---- find_char ---------------------------------------------------------------- *)
Lemma find_char_none c s : ~ In c s -> find_char c s = None.
Proof.
  induction s as [|x s IH]; intros H; cbn [find_char]; [reflexivity|].
  destruct (N.eqb_spec x c) as [->|_]; [exfalso; apply H; left; reflexivity|].
  rewrite IH by (intros K; apply H; right; exact K). reflexivity.
Qed.

Lemma find_char_app c a b : ~ In c a -> find_char c (a ++ c :: b) = Some (length a).
Proof.
  induction a as [|x a IH]; intros H; cbn [app find_char length].
  - rewrite N.eqb_refl. reflexivity.
  - destruct (N.eqb_spec x c) as [->|_]; [exfalso; apply H; left; reflexivity|].
    rewrite IH by (intros K; apply H; right; exact K). reflexivity.
Qed.

Lemma find_char_some c s x : find_char c s = Some x ->
  exists a b, s = a ++ c :: b /\ ~ In c a /\ length a = x.
Proof.
  revert x; induction s as [|y s IH]; intros x H; cbn [find_char] in H; [discriminate|].
  destruct (N.eqb_spec y c) as [->|Hn].
  - injection H as <-. exists [], s. repeat split. intros [].
  - destruct (find_char c s) as [x'|] eqn:E; cbn [option_map] in H; [|discriminate].
    injection H as <-. destruct (IH x' eq_refl) as (a & b & -> & Ha & Hl).
    exists (y :: a), b. repeat split; cbn [length]; [|lia].
    intros [K|K]; [apply Hn; exact K|exact (Ha K)].
Qed.

Lemma find_char_none_inv c s : find_char c s = None -> ~ In c s.
Proof.
  induction s as [|y s IH]; intros H; cbn [find_char] in H; [intros []|].
  destruct (N.eqb_spec y c) as [->|Hn]; [discriminate|].
  destruct (find_char c s); [discriminate|].
  intros [K|K]; [exact (Hn K)|exact (IH eq_refl K)].
Qed.

(* ---- find_pred ---------------------------------------------------------------- *)
Lemma find_pred_app p a b :
  find_pred p (a ++ b) = match find_pred p a with Some x => Some x | None => find_pred p b end.
Proof.
  induction a as [|x a IH]; cbn [app find_pred]; [reflexivity|]. destruct (p x); [reflexivity|exact IH].
Qed.

Lemma find_pred_none p s : (forall x, In x s -> p x = false) -> find_pred p s = None.
Proof.
  induction s as [|x s IH]; intros H; cbn [find_pred]; [reflexivity|].
  rewrite (H x (or_introl eq_refl)). apply IH. intros y Hy. apply H. right; exact Hy.
Qed.

Lemma find_pred_some p s x : find_pred p s = Some x -> In x s /\ p x = true.
Proof.
  induction s as [|y s IH]; cbn [find_pred]; [discriminate|].
  destruct (p y) eqn:E.
  - intros H; injection H as <-. split; [left; reflexivity|exact E].
  - intros H. destruct (IH H) as [K1 K2]. split; [right; exact K1|exact K2].
Qed.

(* ---- digit strings ------------------------------------------------------------- *)
Lemma all_digits_in s c : all_digits s = true -> In c s -> is_ascii_digit c = true.
Proof. unfold all_digits. rewrite forallb_forall. intros H K; exact (H c K). Qed.

Lemma all_digits_app a b : all_digits (a ++ b) = all_digits a && all_digits b.
Proof. unfold all_digits. apply forallb_app. Qed.

Lemma all_digits_notin s c : all_digits s = true -> is_ascii_digit c = false -> ~ In c s.
Proof. intros H Hc K. rewrite (all_digits_in s c H K) in Hc. discriminate. Qed.

Lemma parse_nat_text_digits s : s <> [] -> all_digits s = true -> parse_nat_text s = Some (digits_val s).
Proof. intros Hne H. destruct s; [contradiction|]. unfold parse_nat_text. rewrite H. reflexivity. Qed.

Lemma parse_nat_text_inv s z : parse_nat_text s = Some z -> s <> [] /\ all_digits s = true /\ z = digits_val s.
Proof.
  destruct s as [|c s]; cbn [parse_nat_text]; [discriminate|].
  destruct (all_digits (c :: s)) eqn:E; [|discriminate].
  intros H; injection H as <-. repeat split. discriminate.
Qed.
