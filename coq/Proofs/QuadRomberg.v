(* Proofs/QuadRomberg.v — real instance of the Romberg model on cubics: whatever
   value is returned is the exact integral.  The trapezoid sums with 2^i
   segments are I + C h_i^2 exactly (Proofs/QuadSimpson.v), so the first
   Richardson column is already I, and every later column combines two copies
   of I with weights p/(p-1), -1/(p-1), p = 4^(k-1) <> 1. *)
From Coq Require Import ZArith NArith List Bool Reals Lra Lia.
From SV Require Import Base.Num Base.Outcome Model.Poly Model.Quad Proofs.Quad Proofs.QuadSimpson.
Import ListNotations.
Local Open Scope R_scope.

Lemma RN_pow2 i : RN (2 ^ N.of_nat i) = 2 ^ i.
Proof.
  unfold RN. rewrite N2Z.inj_pow, nat_N_Z. cbn [Z.of_N].
  rewrite <- pow_IZR. reflexivity.
Qed.

Lemma npowi4 (k : nat) : (1 <= k)%nat -> @npowi R RNum (nofZ 4) (Z.of_nat k - 1) = 4 ^ (k - 1).
Proof.
  intro H. replace (Z.of_nat k - 1)%Z with (Z.of_nat (k - 1)) by lia.
  rewrite npowi_R_nat. reflexivity.
Qed.

Section RombergCubic.
  Variables a0 a1 a2 a3 : R.
  Let g := cubic a0 a1 a2 a3.
  Let G := cubic_prim a0 a1 a2 a3.
  Let g' := cubic_der a1 a2 a3.
  Variable f : R -> res R.
  Hypothesis Hf : forall x, f x = Ok (g x).
  Variables a b : R.

  Let I := G b - G a.
  Let C := (g' b - g' a) / 12.

  (* the value the cell (j, k) holds once it has been written *)
  Definition cellv (j k : nat) : R :=
    if (k =? 1)%nat then I + C * ((b - a) / 2 ^ (j - 1)) ^ 2 else I.

  (* cells known so far: every diagonal j + k <= d + 1 and the part k < m of the
     diagonal j + k = d + 2 *)
  Definition known (tbl : @table R) (d m : nat) : Prop :=
    forall j k, (1 <= j)%nat -> (1 <= k)%nat ->
      ((j + k <= d + 1)%nat \/ ((j + k = d + 2)%nat /\ (k < m)%nat)) ->
      tget tbl j k = Ok (cellv j k).

  Lemma trapezoid_pow2 i :
    trapezoid f a b (2 ^ N.of_nat i) = Ok (cellv (i + 1) 1).
  Proof.
    rewrite (trapezoid_cubic a0 a1 a2 a3 f Hf a b).
    - rewrite RN_pow2. unfold cellv. cbn [Nat.eqb]. replace (i + 1 - 1)%nat with i by lia.
      f_equal. unfold I, C. fold G g'. field. apply pow_nonzero; lra.
    - change 1%N with (2 ^ N.of_nat 0)%N. apply N.pow_le_mono_r; lia.
  Qed.

  Lemma richardson_known iter : (1 <= iter)%nat -> forall cnt k (tbl tbl' : @table R),
    known tbl iter k -> (2 <= k)%nat -> (k + cnt = iter + 2)%nat ->
    richardson cnt k iter tbl = Ok tbl' -> known tbl' iter (iter + 2).
  Proof.
    intros Hiter. induction cnt as [|cnt IH]; intros k tbl tbl' Hk H2 Hc Hr.
    - cbn [richardson] in Hr. injection Hr as <-.
      replace (iter + 2)%nat with k by lia. exact Hk.
    - cbn [richardson] in Hr.
      set (j := (2 + iter - k)%nat) in *.
      assert (Hj : (1 <= j)%nat) by (subst j; lia).
      rewrite (Hk (j + 1)%nat (k - 1)%nat) in Hr by (subst j; lia).
      rewrite (Hk j (k - 1)%nat) in Hr by (subst j; lia).
      cbn [bind] in Hr.
      match type of Hr with context [tset tbl j k ?v] => set (v0 := v) in * end.
      destruct (tset tbl j k v0) as [tbl1| |] eqn:Es; cbn [bind] in Hr; try discriminate Hr.
      apply (IH (S k) tbl1 tbl'); [|lia|lia|exact Hr].
      assert (Hv : v0 = I).
      { subst v0. rewrite npowi4 by lia. cbn [ndiv nsub nmul n1 RNum]. unfold cellv.
        destruct (k - 1 =? 1)%nat eqn:Ek.
        - apply Nat.eqb_eq in Ek. assert (k = 2%nat) by lia. subst k.
          assert (j = iter) by (subst j; lia).
          replace (j + 1 - 1)%nat with j by lia.
          destruct j as [|j']; [lia|]. replace (S j' - 1)%nat with j' by lia.
          cbn [Nat.sub pow].
          assert (Hp : 2 ^ j' <> 0) by (apply pow_nonzero; lra).
          field. exact Hp.
        - apply Nat.eqb_neq in Ek.
          assert (Hp : 1 < 4 ^ (k - 1)) by (apply Rlt_pow_R1; [lra|lia]).
          field. lra. }
      intros j2 k2 Hj2 Hk2 Hreg.
      rewrite (tget_tset tbl tbl1 j k v0 Es).
      destruct ((j2 =? j)%nat && (k2 =? k)%nat) eqn:Esame.
      + apply andb_true_iff in Esame. destruct Esame as [Ej Ekk].
        apply Nat.eqb_eq in Ej. apply Nat.eqb_eq in Ekk. subst j2 k2.
        rewrite Hv. unfold cellv. replace (k =? 1)%nat with false by (symmetry; apply Nat.eqb_neq; lia).
        reflexivity.
      + apply Hk; [exact Hj2|exact Hk2|].
        destruct Hreg as [Hreg|[Hs Hlt]]; [left; exact Hreg|].
        right. split; [exact Hs|].
        assert (k2 <> k).
        { intro Heq. subst k2. assert (j2 = j) by (subst j; lia). subst j2.
          rewrite !Nat.eqb_refl in Esame. discriminate Esame. }
        lia.
  Qed.

  Lemma romberg_loop_exact cap tol : forall fuel (tbl : @table R) iter0 v,
    known tbl (S iter0) 1 ->
    romberg_loop fuel f a b cap tol tbl iter0 = Ok v -> v = I.
  Proof.
    induction fuel as [|fuel IH]; intros tbl iter0 v Hk Hr; [discriminate Hr|].
    cbn [romberg_loop] in Hr.
    destruct (checked_pow2 (S iter0)) as [segs|] eqn:Ep; [|discriminate Hr].
    unfold checked_pow2 in Ep. destruct (S iter0 <? 64)%nat; [|discriminate Ep].
    injection Ep as <-. change (N.pos (2 ^ Pos.of_succ_nat iter0)) with (2 ^ N.of_nat (S iter0))%N in Hr.
    rewrite trapezoid_pow2 in Hr. cbn [bind] in Hr.
    destruct (tset tbl (S iter0 + 1) 1 (cellv (S iter0 + 1) 1)) as [tbl1| |] eqn:Es;
      cbn [bind] in Hr; try discriminate Hr.
    assert (Hk1 : known tbl1 (S iter0) 2).
    { intros j k Hj Hkk Hreg. rewrite (tget_tset _ _ _ _ _ Es).
      destruct ((j =? S iter0 + 1)%nat && (k =? 1)%nat) eqn:Esame.
      - apply andb_true_iff in Esame. destruct Esame as [Ej Ekk].
        apply Nat.eqb_eq in Ej. apply Nat.eqb_eq in Ekk. subst j k. reflexivity.
      - apply Hk; [exact Hj|exact Hkk|].
        destruct Hreg as [Hreg|[Hs Hlt]]; [left; exact Hreg|].
        exfalso. assert (k = 1%nat) by lia. subst k.
        assert (j = (S iter0 + 1)%nat) by lia. subst j.
        rewrite !Nat.eqb_refl in Esame. discriminate Esame. }
    destruct (richardson (S iter0) 2 (S iter0) tbl1) as [tbl2| |] eqn:Er;
      cbn [bind] in Hr; try discriminate Hr.
    assert (Hk2 : known tbl2 (S iter0) (S iter0 + 2)).
    { apply (richardson_known (S iter0) ltac:(lia) (S iter0) 2%nat tbl1 tbl2 Hk1); [lia|lia|exact Er]. }
    assert (Hk3 : known tbl2 (S (S iter0)) 1).
    { intros j k Hj Hkk Hreg. apply Hk2; [exact Hj|exact Hkk|]. lia. }
    assert (Ha : tget tbl2 1 (S iter0 + 1) = Ok I).
    { rewrite (Hk3 1%nat (S iter0 + 1)%nat) by lia.
      unfold cellv. replace (S iter0 + 1 =? 1)%nat with false by (symmetry; apply Nat.eqb_neq; lia).
      reflexivity. }
    rewrite Ha in Hr. cbn [bind] in Hr.
    destruct (tget tbl2 2 (S iter0)) as [y| |]; cbn [bind] in Hr; try discriminate Hr.
    destruct (cap <=? N.of_nat (S iter0))%N; cbn [orb] in Hr; [discriminate Hr|].
    match type of Hr with context [nleb ?u ?w] => destruct (nleb u w) end.
    - injection Hr as <-. reflexivity.
    - apply (IH tbl2 (S iter0) v Hk3 Hr).
  Qed.

  Lemma romberg_exact cap tol v : romberg f a b cap tol = Ok v -> v = I.
  Proof.
    unfold romberg. intro Hr.
    change 1%N with (2 ^ N.of_nat 0)%N in Hr. rewrite trapezoid_pow2 in Hr. cbn [bind] in Hr.
    match type of Hr with context [tset ?t0 1 1 ?v0] =>
      destruct (tset t0 1 1 v0) as [tbl| |] eqn:Es end; cbn [bind] in Hr; try discriminate Hr.
    apply (romberg_loop_exact cap tol (table_size cap) tbl 0%nat v); [|exact Hr].
    intros j k Hj Hk Hreg.
    assert (j = 1%nat /\ k = 1%nat) as [-> ->] by lia.
    rewrite (tget_tset _ _ _ _ _ Es). cbn [Nat.eqb andb]. reflexivity.
  Qed.

  (* ---- convergence: with exact arithmetic a cubic is integrated after at most
     two iterations, so a value IS returned whenever cap >= 3 and tol >= 0
     (non-vacuity of [romberg_exact]) ------------------------------------------ *)
  Lemma known_weaken (tbl : @table R) d : known tbl d (d + 2) -> known tbl (S d) 1.
  Proof. intros H j k Hj Hk Hreg. apply H; [exact Hj|exact Hk|]. lia. Qed.

  Lemma romberg_body_step n (tbl : @table R) iter0 :
    dims tbl n -> known tbl (S iter0) 1 -> (S iter0 + 1 < n)%nat ->
    exists tbl1 tbl2,
      tset tbl (S iter0 + 1) 1 (cellv (S iter0 + 1) 1) = Ok tbl1 /\
      richardson (S iter0) 2 (S iter0) tbl1 = Ok tbl2 /\
      dims tbl2 n /\ known tbl2 (S (S iter0)) 1.
  Proof.
    intros Hd Hk Hn.
    destruct (tset_ok tbl n (S iter0 + 1) 1 (cellv (S iter0 + 1) 1) Hd) as (tbl1 & Es & Hd1); [lia|lia|].
    assert (Hk1 : known tbl1 (S iter0) 2).
    { intros j k Hj Hkk Hreg. rewrite (tget_tset _ _ _ _ _ Es).
      destruct ((j =? S iter0 + 1)%nat && (k =? 1)%nat) eqn:Esame.
      - apply andb_true_iff in Esame. destruct Esame as [Ej Ekk].
        apply Nat.eqb_eq in Ej. apply Nat.eqb_eq in Ekk. subst j k. reflexivity.
      - apply Hk; [exact Hj|exact Hkk|].
        destruct Hreg as [Hreg|[Hs Hlt]]; [left; exact Hreg|].
        exfalso. assert (k = 1%nat) by lia. subst k.
        assert (j = (S iter0 + 1)%nat) by lia. subst j.
        rewrite !Nat.eqb_refl in Esame. discriminate Esame. }
    destruct (richardson_ok n (S iter0) (S iter0) 2 tbl1 Hd1) as (tbl2 & Er & Hd2); [lia|lia|lia|].
    exists tbl1, tbl2. split; [exact Es|]. split; [exact Er|]. split; [exact Hd2|].
    apply known_weaken.
    apply (richardson_known (S iter0) ltac:(lia) (S iter0) 2%nat tbl1 tbl2 Hk1); [lia|lia|exact Er].
  Qed.

  Lemma approx_err_zero : (nmul (nabs (ndiv (nabs (nsub I I)) I)) (nofZ 100) : R) = 0.
  Proof.
    cbn [nmul nabs ndiv nsub nofZ RNum].
    replace (I - I) with 0 by ring. rewrite Rabs_R0. unfold Rdiv. rewrite Rmult_0_l, Rabs_R0. ring.
  Qed.

  Lemma romberg_loop_second n cap tol fuel (tbl : @table R) :
    dims tbl n -> (3 < n)%nat -> known tbl 2 1 -> (3 <= cap)%N -> 0 <= tol ->
    romberg_loop (S fuel) f a b cap tol tbl 1 = Ok I.
  Proof.
    intros Hd Hn Hk Hcap Htol.
    cbn [romberg_loop]. change (checked_pow2 2) with (Some (2 ^ N.of_nat 2)%N). cbv iota beta.
    rewrite trapezoid_pow2. cbn [bind].
    destruct (romberg_body_step n tbl 1 Hd Hk ltac:(lia)) as (tbl1 & tbl2 & Es & Er & Hd2 & Hk2).
    change (1 + 1 + 1)%nat with (2 + 1)%nat in Es. rewrite Es. cbn [bind]. rewrite Er. cbn [bind].
    rewrite (Hk2 1%nat (2 + 1)%nat) by lia. rewrite (Hk2 2%nat 2%nat) by lia. cbn [bind].
    change (cellv 1 (2 + 1)) with I. change (cellv 2 2) with I.
    rewrite approx_err_zero.
    replace (cap <=? N.of_nat 2)%N with false by (symmetry; apply N.leb_gt; lia).
    cbn [orb nleb RNum].
    replace (Rleb 0 tol) with true by (symmetry; apply Rleb_true; exact Htol).
    reflexivity.
  Qed.

  Lemma romberg_converges cap tol : (3 <= cap)%N -> 0 <= tol -> romberg f a b cap tol = Ok I.
  Proof.
    intros Hcap Htol. unfold romberg.
    assert (Hts : (5 <= table_size cap)%nat) by (unfold table_size; lia).
    set (n := table_size cap) in *.
    change 1%N with (2 ^ N.of_nat 0)%N. rewrite trapezoid_pow2. cbn [bind].
    destruct (tset_ok (repeat (repeat (n0 : R) n) n) n 1 1 (cellv (0 + 1) 1) (dims_repeat n0 n))
      as (tbl & Es & Hd); [lia|lia|].
    rewrite Es. cbn [bind].
    assert (Hk : known tbl 1 1).
    { intros j k Hj Hkk Hreg. assert (j = 1%nat /\ k = 1%nat) as [-> ->] by lia.
      rewrite (tget_tset _ _ _ _ _ Es). cbn [Nat.eqb andb]. reflexivity. }
    destruct n as [|fuel]; [lia|].
    cbn [romberg_loop]. change (checked_pow2 1) with (Some (2 ^ N.of_nat 1)%N). cbv iota beta.
    rewrite trapezoid_pow2. cbn [bind].
    destruct (romberg_body_step (S fuel) tbl 0 Hd Hk ltac:(lia)) as (tbl1 & tbl2 & Es1 & Er & Hd2 & Hk2).
    rewrite Es1. cbn [bind]. rewrite Er. cbn [bind].
    rewrite (Hk2 1%nat (1 + 1)%nat) by lia. rewrite (Hk2 2%nat 1%nat) by lia. cbn [bind].
    replace (cap <=? N.of_nat 1)%N with false by (symmetry; apply N.leb_gt; lia).
    cbn [orb].
    match goal with |- context [nleb ?u ?w] => destruct (nleb u w) end.
    - reflexivity.
    - destruct fuel as [|fuel']; [lia|].
      apply (romberg_loop_second (S (S fuel')) cap tol fuel' tbl2 Hd2); [lia|exact Hk2|exact Hcap|exact Htol].
  Qed.
End RombergCubic.

(* ---- C05: Romberg ---------------------------------------------------------------- *)
Lemma c05_romberg_exact_cubic : forall (f : R -> res R) (a0 a1 a2 a3 : R),
  (forall x, f x = Ok (a0 + a1 * x + a2 * x ^ 2 + a3 * x ^ 3)) ->
  forall (a b : R) (cap : N) (tol v : R),
  romberg f a b cap tol = Ok v ->
  v = cubic_prim a0 a1 a2 a3 b - cubic_prim a0 a1 a2 a3 a.
Proof.
  intros f a0 a1 a2 a3 Hf a b cap tol v Hr.
  apply (romberg_exact a0 a1 a2 a3 f Hf a b cap tol v Hr).
Qed.

Lemma c05_romberg_exact : forall (p : spoly R), (length (s_coefs p) <= 4)%nat ->
  forall (a b : R) (cap : N) (tol v : R),
  romberg (s_eval_univariate p) a b cap tol = Ok v ->
  v = eval_simple (simple_integral p) b - eval_simple (simple_integral p) a.
Proof.
  intros p Hp a b cap tol v Hr.
  rewrite !eval_simple_integral_cubic by exact Hp.
  eapply romberg_exact; [|exact Hr].
  intro x. unfold s_eval_univariate. rewrite eval_simple_cubic by exact Hp. reflexivity.
Qed.

(* with exact arithmetic the value is returned as soon as three iterations are allowed *)
Lemma c05_romberg_converges_cubic : forall (f : R -> res R) (a0 a1 a2 a3 : R),
  (forall x, f x = Ok (a0 + a1 * x + a2 * x ^ 2 + a3 * x ^ 3)) ->
  forall (a b : R) (cap : N) (tol : R), (3 <= cap)%N -> 0 <= tol ->
  romberg f a b cap tol = Ok (cubic_prim a0 a1 a2 a3 b - cubic_prim a0 a1 a2 a3 a).
Proof.
  intros f a0 a1 a2 a3 Hf a b cap tol Hc Ht.
  apply (romberg_converges a0 a1 a2 a3 f Hf a b cap tol Hc Ht).
Qed.
