(* Properties/C14.v — Hessenberg reduction.  Statements only. *)
From Coq Require Import ZArith List Reals Lia.
From SV Require Import Base.Num Base.Outcome Base.Mat Model.Hessen Proofs.Hessen.
Import ListNotations.
Local Open Scope R_scope.

Theorem c14_nonsquare : forall (h w : nat) (A : mat R), h <> w -> hessenberg_hw h w A = Err ENonSquareMatrix.
Proof. exact Proofs.Hessen.c14_nonsquare. Qed.
Check c14_nonsquare : forall (h w : nat) (A : mat R), h <> w -> hessenberg_hw h w A = Err ENonSquareMatrix.
Print Assumptions c14_nonsquare.

Theorem c14_small : forall (n : nat) (A : mat R), (n <= 2)%nat -> hessenberg n A = Ok (A, midentity).
Proof. exact Proofs.Hessen.c14_small. Qed.
Check c14_small : forall (n : nat) (A : mat R), (n <= 2)%nat -> hessenberg n A = Ok (A, midentity).
Print Assumptions c14_small.

Example c14_nonvacuous : hessenberg 2 (fun i j => INR (i + j)) = Ok ((fun i j => INR (i + j)), midentity).
Proof. apply Proofs.Hessen.c14_small. lia. Qed.
