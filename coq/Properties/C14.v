(* Properties/C14.v — Hessenberg reduction is an orthogonal similarity to upper
   Hessenberg form.  Statements only; every proof is `exact` of a lemma of
   Proofs/Hessen.v.  All statements down to c14_eigenpairs are about the R instance
   of the model (exact arithmetic, sqrt of Reals); the rounding of the whole
   reduction is measured by the correspondence check and the oracle, not proved.
   The last block (binary64, Proofs/HessenFloat.v) proves the rounding error of ONE
   reflector application as the update loops of hess_step perform it.

   Vocabulary (Proofs/HessenReflector.v, Proofs/HessenStep.v, Proofs/Hessen.v), all pointwise:
     Rsum f n        = f 0 + ... + f (n-1)                (recursive finite sum)
     Rmm n A B i j   = Rsum (fun t => A i t * B t j) n    (matrix product of dimension n)
     Rtr A i j       = A j i                              (= mtranspose)
     RI i j          = if i =? j then 1 else 0            (= midentity)
     meq n A B       = forall i j, i < n -> j < n -> A i j = B i j
     Rtrace n A      = Rsum (fun i => A i i) n
     Rfrob2 n A      = Rsum (fun i => Rsum (fun j => A i j * A i j) n) n
     refl tau v i j  = RI i j - tau * v i * v j           (I - tau v v^T)
     hess_inv n A k h q = meq n (Rmm n (Rtr q) q) RI /\ meq n (Rmm n (Rmm n q h) (Rtr q)) A /\
                          (forall i j, j < k -> i < n -> j + 1 < i -> h i j = 0) *)
From Coq Require Import ZArith List Reals Lra Lia.
From SV Require Import Base.Num Base.Outcome Base.Mat Model.Hessen Proofs.Hessen.
Import ListNotations.
Local Open Scope R_scope.

(* the vocabulary means what the header says *)
Example c14_vocabulary : forall (A B : mat R) (tau : R) (v : nat -> R),
  Rmm 2 A B 0%nat 1%nat = 0 + A 0%nat 0%nat * B 0%nat 1%nat + A 0%nat 1%nat * B 1%nat 1%nat /\
  Rtr A 0%nat 1%nat = A 1%nat 0%nat /\ RI 0%nat 0%nat = 1 /\ RI 0%nat 1%nat = 0 /\
  Rtrace 2 A = 0 + A 0%nat 0%nat + A 1%nat 1%nat /\
  Rfrob2 1 A = 0 + (0 + A 0%nat 0%nat * A 0%nat 0%nat) /\
  refl tau v 0%nat 1%nat = 0 - tau * v 0%nat * v 1%nat.
Proof. intros. repeat split. Qed.

(* non-square input is rejected *)
Theorem c14_nonsquare : forall (h w : nat) (A : mat R), h <> w -> hessenberg_hw h w A = Err ENonSquareMatrix.
Proof. exact Proofs.Hessen.c14_nonsquare. Qed.
Check c14_nonsquare : forall (h w : nat) (A : mat R), h <> w -> hessenberg_hw h w A = Err ENonSquareMatrix.
Print Assumptions c14_nonsquare.

(* square input is never rejected (and the model has no panic branch) *)
Theorem c14_square_ok : forall (n : nat) (A : mat R), exists H Q, hessenberg n A = Ok (H, Q).
Proof. exact Proofs.Hessen.c14_square_ok. Qed.
Check c14_square_ok : forall (n : nat) (A : mat R), exists H Q, hessenberg n A = Ok (H, Q).
Print Assumptions c14_square_ok.

(* sizes <= 2 are returned unchanged with Q = I *)
Theorem c14_small : forall (n : nat) (A : mat R), (n <= 2)%nat -> hessenberg n A = Ok (A, midentity).
Proof. exact Proofs.Hessen.c14_small. Qed.
Check c14_small : forall (n : nat) (A : mat R), (n <= 2)%nat -> hessenberg n A = Ok (A, midentity).
Print Assumptions c14_small.

(* the reflector of iteration k: x = h[k+1.., k] <> 0, v and tau as the code computes them.
   tau = 2/(v^T v); Hm = I - tau v v^T is symmetric and involutive; Hm x = -+|x| e_1 *)
Theorem c14_reflector : forall (n k : nat) (h : mat R),
  let m := (n - (k + 1))%nat in
  let x := fun i : nat => h (k + 1 + i)%nat k in
  let nx := sqrt (hh_sqnorm n k h) in
  let hf := h (k + 1)%nat k in
  let v := hh_v k h (hh_u1 hf nx) in
  let tau := hh_tau hf nx in
  let Hm := refl tau v in
  nx <> 0 ->
  nx * nx = Rsum (fun i => x i * x i) m /\
  tau * Rsum (fun i => v i * v i) m = 2 /\
  (forall i j, Hm i j = Hm j i) /\
  meq m (Rmm m Hm Hm) RI /\
  (hh_sign hf = -1 \/ hh_sign hf = 1) /\
  Rsum (fun t => Hm 0%nat t * x t) m = hh_sign hf * nx /\
  (forall i, (0 < i < m)%nat -> Rsum (fun t => Hm i t * x t) m = 0).
Proof. exact Proofs.Hessen.c14_reflector. Qed.
Check c14_reflector : forall (n k : nat) (h : mat R),
  let m := (n - (k + 1))%nat in
  let x := fun i : nat => h (k + 1 + i)%nat k in
  let nx := sqrt (hh_sqnorm n k h) in
  let hf := h (k + 1)%nat k in
  let v := hh_v k h (hh_u1 hf nx) in
  let tau := hh_tau hf nx in
  let Hm := refl tau v in
  nx <> 0 ->
  nx * nx = Rsum (fun i => x i * x i) m /\
  tau * Rsum (fun i => v i * v i) m = 2 /\
  (forall i j, Hm i j = Hm j i) /\
  meq m (Rmm m Hm Hm) RI /\
  (hh_sign hf = -1 \/ hh_sign hf = 1) /\
  Rsum (fun t => Hm 0%nat t * x t) m = hh_sign hf * nx /\
  (forall i, (0 < i < m)%nat -> Rsum (fun t => Hm i t * x t) m = 0).
Print Assumptions c14_reflector.

(* one iteration of the outer loop (reflector applied or zero-norm skip) maps Inv_k to Inv_{k+1};
   no hypothesis on k is needed *)
Theorem c14_step : forall (n : nat) (A : mat R) (k : nat) (h q : mat R),
  hess_inv n A k h q ->
  hess_inv n A (S k) (fst (hess_step n k (h, q))) (snd (hess_step n k (h, q))).
Proof. exact Proofs.Hessen.c14_step. Qed.
Check c14_step : forall (n : nat) (A : mat R) (k : nat) (h q : mat R),
  hess_inv n A k h q ->
  hess_inv n A (S k) (fst (hess_step n k (h, q))) (snd (hess_step n k (h, q))).
Print Assumptions c14_step.

(* Q^T Q = I, Q H Q^T = A, H upper Hessenberg *)
Theorem c14_main : forall (n : nat) (A H Q : mat R), hessenberg n A = Ok (H, Q) ->
  meq n (Rmm n (Rtr Q) Q) RI /\
  meq n (Rmm n (Rmm n Q H) (Rtr Q)) A /\
  (forall i j, (i < n)%nat -> (j < n)%nat -> (j + 1 < i)%nat -> H i j = 0).
Proof. exact Proofs.Hessen.c14_main. Qed.
Check c14_main : forall (n : nat) (A H Q : mat R), hessenberg n A = Ok (H, Q) ->
  meq n (Rmm n (Rtr Q) Q) RI /\
  meq n (Rmm n (Rmm n Q H) (Rtr Q)) A /\
  (forall i j, (i < n)%nat -> (j < n)%nat -> (j + 1 < i)%nat -> H i j = 0).
Print Assumptions c14_main.

Theorem c14_trace : forall (n : nat) (A H Q : mat R), hessenberg n A = Ok (H, Q) ->
  Rtrace n H = Rtrace n A.
Proof. exact Proofs.Hessen.c14_trace. Qed.
Check c14_trace : forall (n : nat) (A H Q : mat R), hessenberg n A = Ok (H, Q) ->
  Rtrace n H = Rtrace n A.
Print Assumptions c14_trace.

(* squared Frobenius norm *)
Theorem c14_frobenius : forall (n : nat) (A H Q : mat R), hessenberg n A = Ok (H, Q) ->
  Rfrob2 n H = Rfrob2 n A.
Proof. exact Proofs.Hessen.c14_frobenius. Qed.
Check c14_frobenius : forall (n : nat) (A H Q : mat R), hessenberg n A = Ok (H, Q) ->
  Rfrob2 n H = Rfrob2 n A.
Print Assumptions c14_frobenius.

From SV Require Import Proofs.HessenAlg.
(* consequences a caller relies on (Proofs/HessenAlg.v): H = Q^T A Q and A Q = Q H *)
Theorem c14_similarity : forall (n : nat) (A H Q : mat R), hessenberg n A = Ok (H, Q) ->
  meq n H (Rmm n (Rmm n (Rtr Q) A) Q) /\ meq n (Rmm n A Q) (Rmm n Q H).
Proof. exact Proofs.HessenAlg.c14_similarity. Qed.
Check c14_similarity : forall (n : nat) (A H Q : mat R), hessenberg n A = Ok (H, Q) ->
  meq n H (Rmm n (Rmm n (Rtr Q) A) Q) /\ meq n (Rmm n A Q) (Rmm n Q H).
Print Assumptions c14_similarity.

(* a symmetric input gives a symmetric, hence tridiagonal, H *)
Theorem c14_symmetric_tridiagonal : forall (n : nat) (A H Q : mat R), hessenberg n A = Ok (H, Q) ->
  meq n (Rtr A) A ->
  meq n (Rtr H) H /\
  (forall i j, (i < n)%nat -> (j < n)%nat -> (i + 1 < j)%nat \/ (j + 1 < i)%nat -> H i j = 0).
Proof. exact Proofs.HessenAlg.c14_symmetric_tridiagonal. Qed.
Check c14_symmetric_tridiagonal : forall (n : nat) (A H Q : mat R), hessenberg n A = Ok (H, Q) ->
  meq n (Rtr A) A ->
  meq n (Rtr H) H /\
  (forall i j, (i < n)%nat -> (j < n)%nat -> (i + 1 < j)%nat \/ (j + 1 < i)%nat -> H i j = 0).
Print Assumptions c14_symmetric_tridiagonal.

(* eigenpairs ([Rmv n M x] = M x): (lam, y) of H gives (lam, Q y) of A with Q^T (Q y) = y, so Q y <> 0 when
   y <> 0 -- every eigenvalue of H is an eigenvalue of A; and Q^T carries the eigen-equation of A to H *)
Theorem c14_eigenpairs : forall (n : nat) (A H Q : mat R), hessenberg n A = Ok (H, Q) ->
  (forall (lam : R) (y : nat -> R),
     (forall i, (i < n)%nat -> Rmv n H y i = lam * y i) ->
     (forall i, (i < n)%nat -> Rmv n A (Rmv n Q y) i = lam * Rmv n Q y i) /\
     (forall i, (i < n)%nat -> Rmv n (Rtr Q) (Rmv n Q y) i = y i)) /\
  (forall (lam : R) (x : nat -> R),
     (forall i, (i < n)%nat -> Rmv n A x i = lam * x i) ->
     forall i, (i < n)%nat -> Rmv n H (Rmv n (Rtr Q) x) i = lam * Rmv n (Rtr Q) x i).
Proof. exact Proofs.HessenAlg.c14_eigenpairs. Qed.
Check c14_eigenpairs : forall (n : nat) (A H Q : mat R), hessenberg n A = Ok (H, Q) ->
  (forall (lam : R) (y : nat -> R),
     (forall i, (i < n)%nat -> Rmv n H y i = lam * y i) ->
     (forall i, (i < n)%nat -> Rmv n A (Rmv n Q y) i = lam * Rmv n Q y i) /\
     (forall i, (i < n)%nat -> Rmv n (Rtr Q) (Rmv n Q y) i = y i)) /\
  (forall (lam : R) (x : nat -> R),
     (forall i, (i < n)%nat -> Rmv n A x i = lam * x i) ->
     forall i, (i < n)%nat -> Rmv n H (Rmv n (Rtr Q) x) i = lam * Rmv n (Rtr Q) x i).
Print Assumptions c14_eigenpairs.

(* ---- non-vacuity ---------------------------------------------------------------- *)
(* c14_small *)
Example c14_small_nonvacuous : hessenberg 2 (fun i j => INR (i + j)) = Ok ((fun i j => INR (i + j)), midentity).
Proof. apply Proofs.Hessen.c14_small. lia. Qed.

(* c14_reflector: the hypothesis nx <> 0 holds for the all-ones 3x3 matrix at k = 0 (|x|^2 = 2) *)
Example c14_reflector_nonvacuous : sqrt (hh_sqnorm 3 0 (fun _ _ => 1)) <> 0.
Proof.
  rewrite sqnorm_R. cbn [Nat.sub Nat.add Rsum].
  apply Rgt_not_eq. apply sqrt_lt_R0. lra.
Qed.

(* c14_step: the invariant is satisfiable (it holds initially for every n and A) *)
Example c14_step_nonvacuous : forall (n : nat) (A : mat R), hess_inv n A 0 A midentity.
Proof. exact Proofs.Hessen.hess_inv_init. Qed.

(* c14_main / c14_trace / c14_frobenius: the hypothesis holds for every square input (c14_square_ok);
   a 3x3 instance where a reflector really is applied *)
Example c14_main_nonvacuous : exists H Q, hessenberg 3 (fun _ _ => 1) = Ok (H, Q) /\ H 2%nat 0%nat = 0.
Proof.
  destruct (Proofs.Hessen.c14_square_ok 3 (fun _ _ => 1)) as (H & Q & E).
  exists H, Q. split; [exact E|].
  destruct (Proofs.Hessen.c14_main 3 _ H Q E) as (_ & _ & Hz). apply Hz; lia.
Qed.

(* ---------------------------------------------------------------------------------------------
   Floating point (binary64 instance, Coq primitive floats = Rust f64; bridge: Flocq's
   [B2R (Prim2B x)]; eps = 2^-53; proofs in Proofs/HessenFloat.v): the rounding error of ONE
   application of a reflector I - tau v v^T, the building block of the backward-error analysis of
   Householder methods (Higham, Accuracy and Stability, Lemma 19.2).
     facc v x m           = ((n0 + v_0*x_0) + v_1*x_1) + ... + v_(m-1)*x_(m-1), n0 = +0.0 (Proofs/Arr2DFloat.v):
                            the dot product as hh_dot_col / hh_dot_row accumulate it
     refl_upd tau v x m i = x_i - ((tau * v_i) * facc v x m), all operations in binary64: the update
                            `a[..] -= tau * v[i] * dot` with the association of the code
     okmul a b            = a*b is finite and its exact value is zero or >= 2^-1022 in magnitude
                            (Proofs/PolyFloat.v; checkable by computation, okmul_by_leb)
   Exponent m + 3: m for the dot product (one rounding per product, one per addition except the first,
   +0.0 + v_0 x_0, which is exact), one for tau*v_i, one for (tau v_i)*dot, one for the subtraction.
   COVERED: one reflector application with GIVEN v and tau — the abstract expression
   (c14_reflector_apply_float_error) and, entry by entry, the three update loops of hess_step: the left
   application to columns k..n-1 (c14_left_apply_float_error: hh_left, rows k+1..k+m) and the right
   application to rows 0..n-1 (c14_right_apply_float_error: hh_right, columns k+1..k+m; hess_step uses it
   for h and for the accumulation of q); each entry is compared with the exact update of the float
   matrix BEFORE that loop.
   NOT COVERED (stays measured by the oracle, n*eps*||A||): the construction of v and tau (hh_sqnorm, the
   square root, hh_u1, hh_v, hh_tau: how far I - tau v v^T is from orthogonal), and the composition of
   the n-2 steps into ||Q^ H^ Q^T - A|| <= c n^2 eps ||A||.
   --------------------------------------------------------------------------------------------- *)
From Coq Require Import Floats.
From Flocq Require Import Core BinarySingleNaN PrimFloat.
From SV Require Import Proofs.Stats Proofs.StatsFloat Proofs.Arr2DFloat Proofs.PolyFloat Proofs.HessenFloat.

(* the vocabulary means what the comment says *)
Example c14_float_vocabulary : forall (tau : PrimFloat.float) (v x : nat -> PrimFloat.float) (i : nat),
  facc v x 2 = PrimFloat.add (PrimFloat.add PrimFloat.zero (PrimFloat.mul (v 0%nat) (x 0%nat)))
                             (PrimFloat.mul (v 1%nat) (x 1%nat)) /\
  refl_upd tau v x 2 i = PrimFloat.sub (x i) (PrimFloat.mul (PrimFloat.mul tau (v i)) (facc v x 2)).
Proof. intros. split; reflexivity. Qed.

Theorem c14_reflector_apply_float_error :
  forall (tau : PrimFloat.float) (v x : nat -> PrimFloat.float) (m i : nat),
  (forall t, (t < m)%nat -> okmul (v t) (x t)) ->
  (forall t, (t <= m)%nat -> is_finite (Prim2B (facc v x t)) = true) ->
  okmul tau (v i) ->
  okmul (PrimFloat.mul tau (v i)) (facc v x m) ->
  is_finite (Prim2B (x i)) = true ->
  is_finite (Prim2B (refl_upd tau v x m i)) = true ->
  Rabs (B2R (Prim2B (refl_upd tau v x m i))
        - (B2R (Prim2B (x i))
           - B2R (Prim2B tau) * B2R (Prim2B (v i))
             * Rsum (map (fun t => B2R (Prim2B (v t)) * B2R (Prim2B (x t))) (seq 0 m))))
  <= ((1 + bpow radix2 (-53)) ^ (m + 3) - 1)
     * (Rabs (B2R (Prim2B (x i)))
        + Rabs (B2R (Prim2B tau)) * Rabs (B2R (Prim2B (v i)))
          * Rsum (map (fun t => Rabs (B2R (Prim2B (v t)) * B2R (Prim2B (x t)))) (seq 0 m))).
Proof. exact Proofs.HessenFloat.reflector_apply_float_error. Qed.
Check c14_reflector_apply_float_error :
  forall (tau : PrimFloat.float) (v x : nat -> PrimFloat.float) (m i : nat),
  (forall t, (t < m)%nat -> okmul (v t) (x t)) ->
  (forall t, (t <= m)%nat -> is_finite (Prim2B (facc v x t)) = true) ->
  okmul tau (v i) ->
  okmul (PrimFloat.mul tau (v i)) (facc v x m) ->
  is_finite (Prim2B (x i)) = true ->
  is_finite (Prim2B (refl_upd tau v x m i)) = true ->
  Rabs (B2R (Prim2B (refl_upd tau v x m i))
        - (B2R (Prim2B (x i))
           - B2R (Prim2B tau) * B2R (Prim2B (v i))
             * Rsum (map (fun t => B2R (Prim2B (v t)) * B2R (Prim2B (x t))) (seq 0 m))))
  <= ((1 + bpow radix2 (-53)) ^ (m + 3) - 1)
     * (Rabs (B2R (Prim2B (x i)))
        + Rabs (B2R (Prim2B tau)) * Rabs (B2R (Prim2B (v i)))
          * Rsum (map (fun t => Rabs (B2R (Prim2B (v t)) * B2R (Prim2B (x t)))) (seq 0 m))).
Print Assumptions c14_reflector_apply_float_error.

(* the loops of the model compute that expression: left application, entry (k+1+i, c) *)
Theorem c14_left_apply_entry : forall (n k m : nat) (tau : PrimFloat.float) (v : vec PrimFloat.float)
    (h : mat PrimFloat.float) (i c : nat),
  (k <= c < n)%nat -> (i < m)%nat ->
  @hh_left PrimFloat.float FNum n k m tau v h (k + 1 + i)%nat c
  = refl_upd tau v (fun t => h (k + 1 + t)%nat c) m i.
Proof. exact Proofs.HessenFloat.hh_left_entry. Qed.
Check c14_left_apply_entry : forall (n k m : nat) (tau : PrimFloat.float) (v : vec PrimFloat.float)
    (h : mat PrimFloat.float) (i c : nat),
  (k <= c < n)%nat -> (i < m)%nat ->
  @hh_left PrimFloat.float FNum n k m tau v h (k + 1 + i)%nat c
  = refl_upd tau v (fun t => h (k + 1 + t)%nat c) m i.
Print Assumptions c14_left_apply_entry.

(* right application (to h, and to q), entry (r, k+1+i) *)
Theorem c14_right_apply_entry : forall (n k m : nat) (tau : PrimFloat.float) (v : vec PrimFloat.float)
    (a : mat PrimFloat.float) (r i : nat),
  (r < n)%nat -> (i < m)%nat ->
  @hh_right PrimFloat.float FNum n k m tau v a r (k + 1 + i)%nat
  = refl_upd tau v (fun t => a r (k + 1 + t)%nat) m i.
Proof. exact Proofs.HessenFloat.hh_right_entry. Qed.
Check c14_right_apply_entry : forall (n k m : nat) (tau : PrimFloat.float) (v : vec PrimFloat.float)
    (a : mat PrimFloat.float) (r i : nat),
  (r < n)%nat -> (i < m)%nat ->
  @hh_right PrimFloat.float FNum n k m tau v a r (k + 1 + i)%nat
  = refl_upd tau v (fun t => a r (k + 1 + t)%nat) m i.
Print Assumptions c14_right_apply_entry.

(* the two combined, left application *)
Theorem c14_left_apply_float_error : forall (n k m : nat) (tau : PrimFloat.float) (v : vec PrimFloat.float)
    (h : mat PrimFloat.float) (i c : nat),
  (k <= c < n)%nat -> (i < m)%nat ->
  let x := fun t => h (k + 1 + t)%nat c in
  let y := @hh_left PrimFloat.float FNum n k m tau v h (k + 1 + i)%nat c in
  (forall t, (t < m)%nat -> okmul (v t) (x t)) ->
  (forall t, (t <= m)%nat -> is_finite (Prim2B (facc v x t)) = true) ->
  okmul tau (v i) ->
  okmul (PrimFloat.mul tau (v i)) (facc v x m) ->
  is_finite (Prim2B (x i)) = true ->
  is_finite (Prim2B y) = true ->
  Rabs (B2R (Prim2B y)
        - (B2R (Prim2B (x i))
           - B2R (Prim2B tau) * B2R (Prim2B (v i))
             * Rsum (map (fun t => B2R (Prim2B (v t)) * B2R (Prim2B (x t))) (seq 0 m))))
  <= ((1 + bpow radix2 (-53)) ^ (m + 3) - 1)
     * (Rabs (B2R (Prim2B (x i)))
        + Rabs (B2R (Prim2B tau)) * Rabs (B2R (Prim2B (v i)))
          * Rsum (map (fun t => Rabs (B2R (Prim2B (v t)) * B2R (Prim2B (x t)))) (seq 0 m))).
Proof. exact Proofs.HessenFloat.hh_left_float_error. Qed.
Check c14_left_apply_float_error : forall (n k m : nat) (tau : PrimFloat.float) (v : vec PrimFloat.float)
    (h : mat PrimFloat.float) (i c : nat),
  (k <= c < n)%nat -> (i < m)%nat ->
  let x := fun t => h (k + 1 + t)%nat c in
  let y := @hh_left PrimFloat.float FNum n k m tau v h (k + 1 + i)%nat c in
  (forall t, (t < m)%nat -> okmul (v t) (x t)) ->
  (forall t, (t <= m)%nat -> is_finite (Prim2B (facc v x t)) = true) ->
  okmul tau (v i) ->
  okmul (PrimFloat.mul tau (v i)) (facc v x m) ->
  is_finite (Prim2B (x i)) = true ->
  is_finite (Prim2B y) = true ->
  Rabs (B2R (Prim2B y)
        - (B2R (Prim2B (x i))
           - B2R (Prim2B tau) * B2R (Prim2B (v i))
             * Rsum (map (fun t => B2R (Prim2B (v t)) * B2R (Prim2B (x t))) (seq 0 m))))
  <= ((1 + bpow radix2 (-53)) ^ (m + 3) - 1)
     * (Rabs (B2R (Prim2B (x i)))
        + Rabs (B2R (Prim2B tau)) * Rabs (B2R (Prim2B (v i)))
          * Rsum (map (fun t => Rabs (B2R (Prim2B (v t)) * B2R (Prim2B (x t)))) (seq 0 m))).
Print Assumptions c14_left_apply_float_error.

(* right application (h := h1 for the similarity, a := q for the accumulation of Q) *)
Theorem c14_right_apply_float_error : forall (n k m : nat) (tau : PrimFloat.float) (v : vec PrimFloat.float)
    (a : mat PrimFloat.float) (r i : nat),
  (r < n)%nat -> (i < m)%nat ->
  let x := fun t => a r (k + 1 + t)%nat in
  let y := @hh_right PrimFloat.float FNum n k m tau v a r (k + 1 + i)%nat in
  (forall t, (t < m)%nat -> okmul (v t) (x t)) ->
  (forall t, (t <= m)%nat -> is_finite (Prim2B (facc v x t)) = true) ->
  okmul tau (v i) ->
  okmul (PrimFloat.mul tau (v i)) (facc v x m) ->
  is_finite (Prim2B (x i)) = true ->
  is_finite (Prim2B y) = true ->
  Rabs (B2R (Prim2B y)
        - (B2R (Prim2B (x i))
           - B2R (Prim2B tau) * B2R (Prim2B (v i))
             * Rsum (map (fun t => B2R (Prim2B (v t)) * B2R (Prim2B (x t))) (seq 0 m))))
  <= ((1 + bpow radix2 (-53)) ^ (m + 3) - 1)
     * (Rabs (B2R (Prim2B (x i)))
        + Rabs (B2R (Prim2B tau)) * Rabs (B2R (Prim2B (v i)))
          * Rsum (map (fun t => Rabs (B2R (Prim2B (v t)) * B2R (Prim2B (x t)))) (seq 0 m))).
Proof. exact Proofs.HessenFloat.hh_right_float_error. Qed.
Check c14_right_apply_float_error : forall (n k m : nat) (tau : PrimFloat.float) (v : vec PrimFloat.float)
    (a : mat PrimFloat.float) (r i : nat),
  (r < n)%nat -> (i < m)%nat ->
  let x := fun t => a r (k + 1 + t)%nat in
  let y := @hh_right PrimFloat.float FNum n k m tau v a r (k + 1 + i)%nat in
  (forall t, (t < m)%nat -> okmul (v t) (x t)) ->
  (forall t, (t <= m)%nat -> is_finite (Prim2B (facc v x t)) = true) ->
  okmul tau (v i) ->
  okmul (PrimFloat.mul tau (v i)) (facc v x m) ->
  is_finite (Prim2B (x i)) = true ->
  is_finite (Prim2B y) = true ->
  Rabs (B2R (Prim2B y)
        - (B2R (Prim2B (x i))
           - B2R (Prim2B tau) * B2R (Prim2B (v i))
             * Rsum (map (fun t => B2R (Prim2B (v t)) * B2R (Prim2B (x t))) (seq 0 m))))
  <= ((1 + bpow radix2 (-53)) ^ (m + 3) - 1)
     * (Rabs (B2R (Prim2B (x i)))
        + Rabs (B2R (Prim2B tau)) * Rabs (B2R (Prim2B (v i)))
          * Rsum (map (fun t => Rabs (B2R (Prim2B (v t)) * B2R (Prim2B (x t)))) (seq 0 m))).
Print Assumptions c14_right_apply_float_error.

(* non-vacuity, by computation: m = 3, v = (1, 0.5, -0.25), tau = 1.5, x = (0.1, 3, -2) (nearest binary64
   values) meet every hypothesis of c14_reflector_apply_float_error, for every i < 3 *)
Example c14_reflector_apply_float_nonvacuous : forall i, (i < 3)%nat ->
  (forall t, (t < 3)%nat -> okmul (vec_of_list [0x1p+0; 0x1p-1; -0x1p-2]%float t)
                                  (vec_of_list [0x1.999999999999ap-4; 0x1.8p+1; -0x1p+1]%float t)) /\
  (forall t, (t <= 3)%nat -> is_finite (Prim2B (facc (vec_of_list [0x1p+0; 0x1p-1; -0x1p-2]%float)
                                  (vec_of_list [0x1.999999999999ap-4; 0x1.8p+1; -0x1p+1]%float) t)) = true) /\
  okmul 0x1.8p+0%float (vec_of_list [0x1p+0; 0x1p-1; -0x1p-2]%float i) /\
  okmul (PrimFloat.mul 0x1.8p+0%float (vec_of_list [0x1p+0; 0x1p-1; -0x1p-2]%float i))
        (facc (vec_of_list [0x1p+0; 0x1p-1; -0x1p-2]%float)
              (vec_of_list [0x1.999999999999ap-4; 0x1.8p+1; -0x1p+1]%float) 3) /\
  is_finite (Prim2B (vec_of_list [0x1.999999999999ap-4; 0x1.8p+1; -0x1p+1]%float i)) = true /\
  is_finite (Prim2B (refl_upd 0x1.8p+0%float (vec_of_list [0x1p+0; 0x1p-1; -0x1p-2]%float)
                              (vec_of_list [0x1.999999999999ap-4; 0x1.8p+1; -0x1p+1]%float) 3 i)) = true.
Proof. exact Proofs.HessenFloat.ex_reflector_hyps. Qed.
