(* Properties/C18.v — descriptive statistics equal their textbook definitions.
   Statements only; every proof is `exact` of a lemma of Proofs/Stats.v.
   The first block of statements is about the R instance of the model (exact
   arithmetic).  The last block (names containing "float") is about the FLOAT instance that is
   extracted and run against the code: rounding-error bounds proved through Flocq
   (Proofs/StatsFloat.v); B2R (Prim2B x) is the real value of the primitive float x. *)
From Coq Require Import ZArith List Reals Lia.
From Flocq Require Import Core BinarySingleNaN PrimFloat.
From SV Require Import Base.Num Model.Stats Proofs.Stats Proofs.StatsFloat.
Import ListNotations.
Local Open Scope R_scope.

(* arithmetic mean = sum / n *)
Theorem c18_mean_def : forall l : list R, l <> [] -> arith_mean l = Some (Rsum l / INR (length l)).
Proof. exact Proofs.Stats.c18_mean_def. Qed.
Check c18_mean_def : forall l : list R, l <> [] -> arith_mean l = Some (Rsum l / INR (length l)).
Print Assumptions c18_mean_def.

(* the mean lies between any lower and upper bound of the data (min and max in particular) *)
Theorem c18_mean_between : forall (l : list R) m lo hi,
  arith_mean l = Some m -> (forall x, In x l -> lo <= x <= hi) -> lo <= m <= hi.
Proof. exact Proofs.Stats.c18_mean_between. Qed.
Check c18_mean_between : forall (l : list R) m lo hi,
  arith_mean l = Some m -> (forall x, In x l -> lo <= x <= hi) -> lo <= m <= hi.
Print Assumptions c18_mean_between.

(* standard deviation = sqrt (sum of squared deviations / denominator) *)
Theorem c18_sd_def : forall (l : list R) s, (0 < std_denominator (length l) s)%nat ->
  std_dev l s = Some (sqrt (Rsum (map (fun x => (x - Rmean l) ^ 2) l) / INR (std_denominator (length l) s))).
Proof. exact Proofs.Stats.c18_sd_def. Qed.
Check c18_sd_def : forall (l : list R) s, (0 < std_denominator (length l) s)%nat ->
  std_dev l s = Some (sqrt (Rsum (map (fun x => (x - Rmean l) ^ 2) l) / INR (std_denominator (length l) s))).
Print Assumptions c18_sd_def.

Theorem c18_sd_nonneg : forall (l : list R) s v, std_dev l s = Some v -> 0 <= v.
Proof. exact Proofs.Stats.c18_sd_nonneg. Qed.
Check c18_sd_nonneg : forall (l : list R) s v, std_dev l s = Some v -> 0 <= v.
Print Assumptions c18_sd_nonneg.

Theorem c18_sd_translate : forall (l : list R) s c, std_dev (map (fun x => x + c) l) s = std_dev l s.
Proof. exact Proofs.Stats.c18_sd_translate. Qed.
Check c18_sd_translate : forall (l : list R) s c, std_dev (map (fun x => x + c) l) s = std_dev l s.
Print Assumptions c18_sd_translate.

Theorem c18_sd_scale : forall (l : list R) s k,
  std_dev (map (fun x => k * x) l) s = option_map (fun v => Rabs k * v) (std_dev l s).
Proof. exact Proofs.Stats.c18_sd_scale. Qed.
Check c18_sd_scale : forall (l : list R) s k,
  std_dev (map (fun x => k * x) l) s = option_map (fun v => Rabs k * v) (std_dev l s).
Print Assumptions c18_sd_scale.

(* sample form = population form * sqrt (n / (n-1)) *)
Theorem c18_sample_pop_ratio : forall (l : list R) vp, (2 <= length l)%nat ->
  std_dev l false = Some vp ->
  std_dev l true = Some (vp * sqrt (INR (length l) / INR (length l - 1))).
Proof. exact Proofs.Stats.c18_sample_pop_ratio. Qed.
Check c18_sample_pop_ratio : forall (l : list R) vp, (2 <= length l)%nat ->
  std_dev l false = Some vp ->
  std_dev l true = Some (vp * sqrt (INR (length l) / INR (length l - 1))).
Print Assumptions c18_sample_pop_ratio.

(* geometric mean of positive data = exp (mean (ln x)) and lies between min and max *)
Theorem c18_geom_def : forall l : list R, l <> [] -> (forall x, In x l -> 0 < x) ->
  geom_mean l = Some (exp (Rsum (map ln l) / INR (length l))).
Proof. exact Proofs.Stats.c18_geom_def. Qed.
Check c18_geom_def : forall l : list R, l <> [] -> (forall x, In x l -> 0 < x) ->
  geom_mean l = Some (exp (Rsum (map ln l) / INR (length l))).
Print Assumptions c18_geom_def.

(* ... i.e. the n-th root of the product of the data *)
Theorem c18_geom_root : forall (l : list R) g, l <> [] -> (forall x, In x l -> 0 < x) ->
  geom_mean l = Some g -> 0 < g /\ g ^ length l = Rprod l.
Proof. exact Proofs.Stats.c18_geom_root. Qed.
Check c18_geom_root : forall (l : list R) g, l <> [] -> (forall x, In x l -> 0 < x) ->
  geom_mean l = Some g -> 0 < g /\ g ^ length l = Rprod l.
Print Assumptions c18_geom_root.

Theorem c18_geom_between : forall (l : list R) g lo hi, 0 < lo ->
  (forall x, In x l -> lo <= x <= hi) -> geom_mean l = Some g -> lo <= g <= hi.
Proof. exact Proofs.Stats.c18_geom_between. Qed.
Check c18_geom_between : forall (l : list R) g lo hi, 0 < lo ->
  (forall x, In x l -> lo <= x <= hi) -> geom_mean l = Some g -> lo <= g <= hi.
Print Assumptions c18_geom_between.

(* undefined cases are the NaN guard (None), never a number *)
Theorem c18_undefined : @arith_mean R RNum [] = None /\ @geom_mean R RNum [] = None /\
  (forall s, @std_dev R RNum [] s = None) /\ (forall x : R, std_dev [x] true = None).
Proof. exact Proofs.Stats.c18_undefined. Qed.
Check c18_undefined : @arith_mean R RNum [] = None /\ @geom_mean R RNum [] = None /\
  (forall s, @std_dev R RNum [] s = None) /\ (forall x : R, std_dev [x] true = None).
Print Assumptions c18_undefined.

(* non-vacuity: the hypotheses are met by a concrete sample *)
Example c18_nonvacuous : exists v, std_dev [1; 2; 4] false = Some v /\ (2 <= length [1; 2; 4])%nat.
Proof. eexists; split; [apply Proofs.Stats.c18_sd_def; cbn; lia | cbn; lia]. Qed.

(* ---- FLOAT instance: rounding-error bounds (Flocq; eps = 2^-53 = bpow radix2 (-53)) ---- *)

(* recursive summation in binary64: with finite data and no overflowing partial sum (every prefix's
   computed sum is finite), |computed sum - exact sum| <= ((1+eps)^n - 1) * sum |x_i|, eps = 2^-53 *)
Theorem c18_sum_list_float_error : forall l : list PrimFloat.float,
  (forall x, In x l -> is_finite (Prim2B x) = true) ->
  (forall k, (k <= length l)%nat -> is_finite (Prim2B (sum_list (firstn k l))) = true) ->
  is_finite (Prim2B (sum_list l)) = true /\
  Rabs (B2R (Prim2B (sum_list l)) - Rsum (map (fun x => B2R (Prim2B x)) l)) <=
    ((1 + bpow radix2 (-53)) ^ length l - 1) * Rsum (map (fun x => Rabs (B2R (Prim2B x))) l).
Proof. exact Proofs.StatsFloat.sum_list_float_error. Qed.
Check c18_sum_list_float_error : forall l : list PrimFloat.float,
  (forall x, In x l -> is_finite (Prim2B x) = true) ->
  (forall k, (k <= length l)%nat -> is_finite (Prim2B (sum_list (firstn k l))) = true) ->
  is_finite (Prim2B (sum_list l)) = true /\
  Rabs (B2R (Prim2B (sum_list l)) - Rsum (map (fun x => B2R (Prim2B x)) l)) <=
    ((1 + bpow radix2 (-53)) ^ length l - 1) * Rsum (map (fun x => Rabs (B2R (Prim2B x))) l).
Print Assumptions c18_sum_list_float_error.

(* the no-overflow hypothesis follows from a bound on the data: (1+eps)^n * sum|x_i| < 2^1024 *)
Theorem c18_sum_list_no_overflow : forall l : list PrimFloat.float,
  (forall x, In x l -> is_finite (Prim2B x) = true) ->
  (1 + bpow radix2 (-53)) ^ length l * Rsum (map (fun x => Rabs (B2R (Prim2B x))) l) < bpow radix2 1024 ->
  forall k, (k <= length l)%nat -> is_finite (Prim2B (sum_list (firstn k l))) = true.
Proof. exact Proofs.StatsFloat.sum_list_no_overflow. Qed.
Check c18_sum_list_no_overflow : forall l : list PrimFloat.float,
  (forall x, In x l -> is_finite (Prim2B x) = true) ->
  (1 + bpow radix2 (-53)) ^ length l * Rsum (map (fun x => Rabs (B2R (Prim2B x))) l) < bpow radix2 1024 ->
  forall k, (k <= length l)%nat -> is_finite (Prim2B (sum_list (firstn k l))) = true.
Print Assumptions c18_sum_list_no_overflow.

(* ... hence the same error bound under that real-number condition alone *)
Theorem c18_sum_list_float_error_bound : forall l : list PrimFloat.float,
  (forall x, In x l -> is_finite (Prim2B x) = true) ->
  (1 + bpow radix2 (-53)) ^ length l * Rsum (map (fun x => Rabs (B2R (Prim2B x))) l) < bpow radix2 1024 ->
  is_finite (Prim2B (sum_list l)) = true /\
  Rabs (B2R (Prim2B (sum_list l)) - Rsum (map (fun x => B2R (Prim2B x)) l)) <=
    ((1 + bpow radix2 (-53)) ^ length l - 1) * Rsum (map (fun x => Rabs (B2R (Prim2B x))) l).
Proof. exact Proofs.StatsFloat.sum_list_float_error_bound. Qed.
Check c18_sum_list_float_error_bound : forall l : list PrimFloat.float,
  (forall x, In x l -> is_finite (Prim2B x) = true) ->
  (1 + bpow radix2 (-53)) ^ length l * Rsum (map (fun x => Rabs (B2R (Prim2B x))) l) < bpow radix2 1024 ->
  is_finite (Prim2B (sum_list l)) = true /\
  Rabs (B2R (Prim2B (sum_list l)) - Rsum (map (fun x => B2R (Prim2B x)) l)) <=
    ((1 + bpow radix2 (-53)) ^ length l - 1) * Rsum (map (fun x => Rabs (B2R (Prim2B x))) l).
Print Assumptions c18_sum_list_float_error_bound.

(* the count n as f64 is exact below 2^53 *)
Theorem c18_nofnat_float_exact : forall n : nat, (Z.of_nat n < 2 ^ 53)%Z ->
  is_finite (Prim2B (nofnat n)) = true /\ B2R (Prim2B (nofnat n)) = INR n.
Proof. exact Proofs.StatsFloat.nofnat_float_exact. Qed.
Check c18_nofnat_float_exact : forall n : nat, (Z.of_nat n < 2 ^ 53)%Z ->
  is_finite (Prim2B (nofnat n)) = true /\ B2R (Prim2B (nofnat n)) = INR n.
Print Assumptions c18_nofnat_float_exact.

(* the computed mean equals sum/n to within rounding:
   ((1+eps)^(n+1) - 1) * sum|x_i| / n  +  eta,  eta = 2^-1075 (a possibly subnormal quotient) *)
Theorem c18_arith_mean_float_error : forall l : list PrimFloat.float,
  l <> [] -> (Z.of_nat (length l) < 2 ^ 53)%Z ->
  (forall x, In x l -> is_finite (Prim2B x) = true) ->
  (forall k, (k <= length l)%nat -> is_finite (Prim2B (sum_list (firstn k l))) = true) ->
  exists m, arith_mean l = Some m /\ is_finite (Prim2B m) = true /\
  Rabs (B2R (Prim2B m) - Rsum (map (fun x => B2R (Prim2B x)) l) / INR (length l)) <=
    ((1 + bpow radix2 (-53)) ^ S (length l) - 1)
      * Rsum (map (fun x => Rabs (B2R (Prim2B x))) l) / INR (length l)
    + bpow radix2 (-1075).
Proof. exact Proofs.StatsFloat.arith_mean_float_error. Qed.
Check c18_arith_mean_float_error : forall l : list PrimFloat.float,
  l <> [] -> (Z.of_nat (length l) < 2 ^ 53)%Z ->
  (forall x, In x l -> is_finite (Prim2B x) = true) ->
  (forall k, (k <= length l)%nat -> is_finite (Prim2B (sum_list (firstn k l))) = true) ->
  exists m, arith_mean l = Some m /\ is_finite (Prim2B m) = true /\
  Rabs (B2R (Prim2B m) - Rsum (map (fun x => B2R (Prim2B x)) l) / INR (length l)) <=
    ((1 + bpow radix2 (-53)) ^ S (length l) - 1)
      * Rsum (map (fun x => Rabs (B2R (Prim2B x))) l) / INR (length l)
    + bpow radix2 (-1075).
Print Assumptions c18_arith_mean_float_error.

(* non-vacuity of the float hypotheses: Proofs.StatsFloat.ex_data = [0.1; 0.2; 0.3] (nearest binary64
   values 0x1.999999999999ap-4, 0x1.999999999999ap-3, 0x1.3333333333333p-2), checked by computation *)
Example c18_float_nonvacuous :
  ex_data <> [] /\ (Z.of_nat (length ex_data) < 2 ^ 53)%Z /\
  (forall x, In x ex_data -> is_finite (Prim2B x) = true) /\
  (forall k, (k <= length ex_data)%nat -> is_finite (Prim2B (sum_list (firstn k ex_data))) = true).
Proof.
  split; [discriminate|]. split; [cbn; lia|].
  split; [exact Proofs.StatsFloat.ex_data_finite | exact Proofs.StatsFloat.ex_data_prefixes].
Qed.

(* ---- FLOAT instance: the standard deviation (Proofs/StdDevFloat.v) ----
   m is the COMPUTED mean (arith_mean l = Some m); the bound is relative to S = sqrt (sum_i (x_i - m)^2 / d), the exact
   deviation of the data AROUND THE COMPUTED MEAN, d = n or n-1.  Together with c18_arith_mean_float_error (distance of m
   from the true mean) this is the two-step account of "equals its defining formula to within rounding".
   Exponent n+5: subtraction (twice in the square) 2, squaring 1 (the product by 1.0 of powi is exact), summation n,
   division 1, square root 1.  okmul / okdiv (Proofs/PolyFloat.v, SubstFloat.v): the operation is finite and its exact
   value is zero or of magnitude >= 2^-1022 (no underflow error); the square root cannot underflow. *)
From SV Require Import Proofs.PolyFloat Proofs.SubstFloat Proofs.StdDevFloat.

Theorem c18_std_dev_float_error : forall (l : list PrimFloat.float) (sample : bool) (m : PrimFloat.float),
  arith_mean l = Some m -> is_finite (Prim2B m) = true ->
  (0 < std_denominator (length l) sample)%nat ->
  (Z.of_nat (length l) < 2 ^ 53)%Z ->
  (forall x, In x l -> is_finite (Prim2B x) = true /\
                       is_finite (Prim2B (nsub x m)) = true /\ okmul (nsub x m) (nsub x m)) ->
  (forall k, (k <= length l)%nat ->
     is_finite (Prim2B (sum_list (firstn k (map (fun x => npowi (nsub x m) 2) l)))) = true) ->
  okdiv (sum_list (map (fun x => npowi (nsub x m) 2) l)) (nofnat (std_denominator (length l) sample)) ->
  is_finite (Prim2B (nsqrt (ndiv (sum_list (map (fun x => npowi (nsub x m) 2) l))
                                 (nofnat (std_denominator (length l) sample))))) = true ->
  exists v, std_dev l sample = Some v /\ is_finite (Prim2B v) = true /\
    Rabs (B2R (Prim2B v)
          - sqrt (Rsum (map (fun x => (B2R (Prim2B x) - B2R (Prim2B m)) ^ 2) l)
                  / INR (std_denominator (length l) sample)))
    <= ((1 + bpow radix2 (-53)) ^ (length l + 5) - 1)
       * sqrt (Rsum (map (fun x => (B2R (Prim2B x) - B2R (Prim2B m)) ^ 2) l)
               / INR (std_denominator (length l) sample)).
Proof. exact Proofs.StdDevFloat.std_dev_float_error. Qed.
Check c18_std_dev_float_error : forall (l : list PrimFloat.float) (sample : bool) (m : PrimFloat.float),
  arith_mean l = Some m -> is_finite (Prim2B m) = true ->
  (0 < std_denominator (length l) sample)%nat ->
  (Z.of_nat (length l) < 2 ^ 53)%Z ->
  (forall x, In x l -> is_finite (Prim2B x) = true /\
                       is_finite (Prim2B (nsub x m)) = true /\ okmul (nsub x m) (nsub x m)) ->
  (forall k, (k <= length l)%nat ->
     is_finite (Prim2B (sum_list (firstn k (map (fun x => npowi (nsub x m) 2) l)))) = true) ->
  okdiv (sum_list (map (fun x => npowi (nsub x m) 2) l)) (nofnat (std_denominator (length l) sample)) ->
  is_finite (Prim2B (nsqrt (ndiv (sum_list (map (fun x => npowi (nsub x m) 2) l))
                                 (nofnat (std_denominator (length l) sample))))) = true ->
  exists v, std_dev l sample = Some v /\ is_finite (Prim2B v) = true /\
    Rabs (B2R (Prim2B v)
          - sqrt (Rsum (map (fun x => (B2R (Prim2B x) - B2R (Prim2B m)) ^ 2) l)
                  / INR (std_denominator (length l) sample)))
    <= ((1 + bpow radix2 (-53)) ^ (length l + 5) - 1)
       * sqrt (Rsum (map (fun x => (B2R (Prim2B x) - B2R (Prim2B m)) ^ 2) l)
               / INR (std_denominator (length l) sample)).
Print Assumptions c18_std_dev_float_error.

(* non-vacuity: ex_data = [0.1; 0.2; 0.3] with its computed mean (ex_mean) satisfies every hypothesis, for the
   population and the sample form; checked by computation *)
Example c18_std_dev_float_nonvacuous : forall sample : bool,
  arith_mean ex_data = Some ex_mean /\ is_finite (Prim2B ex_mean) = true /\
  (0 < std_denominator (length ex_data) sample)%nat /\
  (Z.of_nat (length ex_data) < 2 ^ 53)%Z /\
  (forall x, In x ex_data -> is_finite (Prim2B x) = true /\
       is_finite (Prim2B (nsub x ex_mean)) = true /\ okmul (nsub x ex_mean) (nsub x ex_mean)) /\
  (forall k, (k <= length ex_data)%nat ->
     is_finite (Prim2B (sum_list (firstn k (map (fun x => npowi (nsub x ex_mean) 2) ex_data)))) = true) /\
  okdiv (sum_list (map (fun x => npowi (nsub x ex_mean) 2) ex_data)) (nofnat (std_denominator (length ex_data) sample)) /\
  is_finite (Prim2B (nsqrt (ndiv (sum_list (map (fun x => npowi (nsub x ex_mean) 2) ex_data))
                                 (nofnat (std_denominator (length ex_data) sample))))) = true.
Proof. exact Proofs.StdDevFloat.ex_std_dev_hyps. Qed.
