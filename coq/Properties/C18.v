(* Properties/C18.v — descriptive statistics equal their textbook definitions.
   Statements only; every proof is `exact` of a lemma of Proofs/Stats.v.
   All statements are about the R instance of the model (exact arithmetic);
   rounding is measured by the correspondence check, not proved. *)
From Coq Require Import ZArith List Reals Lia.
From SV Require Import Base.Num Model.Stats Proofs.Stats.
Import ListNotations.
Local Open Scope R_scope.

(* arithmetic mean = sum / n *)
Theorem c18_mean_def : forall l : list R, l <> [] -> arith_mean l = Some (Rsum l / INR (length l)).
Proof. exact Proofs.Stats.c18_mean_def. Qed.
Check c18_mean_def : forall l : list R, l <> [] -> arith_mean l = Some (Rsum l / INR (length l)).
Print Assumptions c18_mean_def.

(* the mean lies between any lower and upper bound of the data (min and max in particular) *)
Theorem c18_mean_between : forall (l : list R) m lo hi,
  arith_mean l = Some m -> (forall x, In x l -> lo <= x <= hi) -> lo <= m <= hi.
Proof. exact Proofs.Stats.c18_mean_between. Qed.
Check c18_mean_between : forall (l : list R) m lo hi,
  arith_mean l = Some m -> (forall x, In x l -> lo <= x <= hi) -> lo <= m <= hi.
Print Assumptions c18_mean_between.

(* standard deviation = sqrt (sum of squared deviations / denominator) *)
Theorem c18_sd_def : forall (l : list R) s, (0 < std_denominator (length l) s)%nat ->
  std_dev l s = Some (sqrt (Rsum (map (fun x => (x - Rmean l) ^ 2) l) / INR (std_denominator (length l) s))).
Proof. exact Proofs.Stats.c18_sd_def. Qed.
Check c18_sd_def : forall (l : list R) s, (0 < std_denominator (length l) s)%nat ->
  std_dev l s = Some (sqrt (Rsum (map (fun x => (x - Rmean l) ^ 2) l) / INR (std_denominator (length l) s))).
Print Assumptions c18_sd_def.

Theorem c18_sd_nonneg : forall (l : list R) s v, std_dev l s = Some v -> 0 <= v.
Proof. exact Proofs.Stats.c18_sd_nonneg. Qed.
Check c18_sd_nonneg : forall (l : list R) s v, std_dev l s = Some v -> 0 <= v.
Print Assumptions c18_sd_nonneg.

Theorem c18_sd_translate : forall (l : list R) s c, std_dev (map (fun x => x + c) l) s = std_dev l s.
Proof. exact Proofs.Stats.c18_sd_translate. Qed.
Check c18_sd_translate : forall (l : list R) s c, std_dev (map (fun x => x + c) l) s = std_dev l s.
Print Assumptions c18_sd_translate.

Theorem c18_sd_scale : forall (l : list R) s k,
  std_dev (map (fun x => k * x) l) s = option_map (fun v => Rabs k * v) (std_dev l s).
Proof. exact Proofs.Stats.c18_sd_scale. Qed.
Check c18_sd_scale : forall (l : list R) s k,
  std_dev (map (fun x => k * x) l) s = option_map (fun v => Rabs k * v) (std_dev l s).
Print Assumptions c18_sd_scale.

(* sample form = population form * sqrt (n / (n-1)) *)
Theorem c18_sample_pop_ratio : forall (l : list R) vp, (2 <= length l)%nat ->
  std_dev l false = Some vp ->
  std_dev l true = Some (vp * sqrt (INR (length l) / INR (length l - 1))).
Proof. exact Proofs.Stats.c18_sample_pop_ratio. Qed.
Check c18_sample_pop_ratio : forall (l : list R) vp, (2 <= length l)%nat ->
  std_dev l false = Some vp ->
  std_dev l true = Some (vp * sqrt (INR (length l) / INR (length l - 1))).
Print Assumptions c18_sample_pop_ratio.

(* geometric mean of positive data = exp (mean (ln x)) and lies between min and max *)
Theorem c18_geom_def : forall l : list R, l <> [] -> (forall x, In x l -> 0 < x) ->
  geom_mean l = Some (exp (Rsum (map ln l) / INR (length l))).
Proof. exact Proofs.Stats.c18_geom_def. Qed.
Check c18_geom_def : forall l : list R, l <> [] -> (forall x, In x l -> 0 < x) ->
  geom_mean l = Some (exp (Rsum (map ln l) / INR (length l))).
Print Assumptions c18_geom_def.

(* ... i.e. the n-th root of the product of the data *)
Theorem c18_geom_root : forall (l : list R) g, l <> [] -> (forall x, In x l -> 0 < x) ->
  geom_mean l = Some g -> 0 < g /\ g ^ length l = Rprod l.
Proof. exact Proofs.Stats.c18_geom_root. Qed.
Check c18_geom_root : forall (l : list R) g, l <> [] -> (forall x, In x l -> 0 < x) ->
  geom_mean l = Some g -> 0 < g /\ g ^ length l = Rprod l.
Print Assumptions c18_geom_root.

Theorem c18_geom_between : forall (l : list R) g lo hi, 0 < lo ->
  (forall x, In x l -> lo <= x <= hi) -> geom_mean l = Some g -> lo <= g <= hi.
Proof. exact Proofs.Stats.c18_geom_between. Qed.
Check c18_geom_between : forall (l : list R) g lo hi, 0 < lo ->
  (forall x, In x l -> lo <= x <= hi) -> geom_mean l = Some g -> lo <= g <= hi.
Print Assumptions c18_geom_between.

(* undefined cases are the NaN guard (None), never a number *)
Theorem c18_undefined : @arith_mean R RNum [] = None /\ @geom_mean R RNum [] = None /\
  (forall s, @std_dev R RNum [] s = None) /\ (forall x : R, std_dev [x] true = None).
Proof. exact Proofs.Stats.c18_undefined. Qed.
Check c18_undefined : @arith_mean R RNum [] = None /\ @geom_mean R RNum [] = None /\
  (forall s, @std_dev R RNum [] s = None) /\ (forall x : R, std_dev [x] true = None).
Print Assumptions c18_undefined.

(* non-vacuity: the hypotheses are met by a concrete sample *)
Example c18_nonvacuous : exists v, std_dev [1; 2; 4] false = Some v /\ (2 <= length [1; 2; 4])%nat.
Proof. eexists; split; [apply Proofs.Stats.c18_sd_def; cbn; lia | cbn; lia]. Qed.
