(* Properties/C01.v — univariate parser: every string of the documented language
   (Model/GrammarS.v) is accepted and means what it says.
   Statements only; every proof is `exact` of a lemma of Proofs/SimpleParse.v (text -> terms -> dense vector),
   Proofs/PolyFloat.v (float evaluation), Proofs/DecFloat.v (decimal reading of the float instance) or
   Proofs/ParseFloat.v (float-level fidelity of the stored coefficients to the text, last block).
   [U : UClass] is an arbitrary pair of Unicode tables subject to [USane U]
   (no alphabetic code point is an ASCII digit or one of . ^ + -). *)
From Coq Require Import ZArith NArith List Bool Reals Floats.
From SV Require Import Base.Num Base.Outcome Base.Str Model.Poly Model.Parse Model.GrammarS Proofs.SimpleParse.
Import ListNotations.

(* acceptance, for EVERY arithmetic instance (so also for the float result): the
   coefficient vector is the dense vector of the source terms, the variable is the
   rendered letter (None for a constant text).  Since 59b028d two VALUE-side premises:
   every written numeral denotes a finite number of the instance ([src_finite]) and every
   partial sum of like powers stays finite ([sums_finite]); both always hold in R and Z
   (c01_finite_exact), so c01_meaning keeps its statement. *)
Theorem c01_accept : forall (T : Type) (NT : Num T) (U : UClass), USane U ->
  forall (src : usrc) (v : N) (lead : bool) (s : str),
  wf_src src = true -> (uses_var src = true -> u_alphabetic U v = true) ->
  @src_finite T NT src = true -> sums_finite (@terms_of T NT src) = true ->
  strip_ws s = render lead v src ->
  parse_simple U s = Ok {| s_coefs := dense_coeffs (@terms_of T NT src);
                           s_var := if uses_var src then Some v else None |}.
Proof. exact @Proofs.SimpleParse.simple_accept. Qed.
Check c01_accept : forall (T : Type) (NT : Num T) (U : UClass), USane U ->
  forall (src : usrc) (v : N) (lead : bool) (s : str),
  wf_src src = true -> (uses_var src = true -> u_alphabetic U v = true) ->
  @src_finite T NT src = true -> sums_finite (@terms_of T NT src) = true ->
  strip_ws s = render lead v src ->
  parse_simple U s = Ok {| s_coefs := dense_coeffs (@terms_of T NT src);
                           s_var := if uses_var src then Some v else None |}.
Print Assumptions c01_accept.

(* in exact arithmetic the two finiteness premises are vacuous *)
Theorem c01_finite_exact :
  (forall src : usrc, @src_finite R RNum src = true) /\ (forall ts : list (R * nat), sums_finite ts = true) /\
  (forall src : usrc, @src_finite Z ZNum src = true) /\ (forall ts : list (Z * nat), sums_finite ts = true) /\
  (forall s, @parse_dec_finite R RNum s = parse_dec s) /\ (forall s, @parse_dec_finite Z ZNum s = parse_dec s).
Proof. exact Proofs.SimpleParse.finite_exact. Qed.
Check c01_finite_exact :
  (forall src : usrc, @src_finite R RNum src = true) /\ (forall ts : list (R * nat), sums_finite ts = true) /\
  (forall src : usrc, @src_finite Z ZNum src = true) /\ (forall ts : list (Z * nat), sums_finite ts = true) /\
  (forall s, @parse_dec_finite R RNum s = parse_dec s) /\ (forall s, @parse_dec_finite Z ZNum s = parse_dec s).
Print Assumptions c01_finite_exact.

(* the dense vector: position k holds the sum, in source order, of the coefficients of
   the terms of power k — for every k; missing powers are n0 (empty sum) *)
Theorem c01_dense_nth : forall (T : Type) (NT : Num T) (ts : list (T * nat)) (k : nat),
  nth k (dense_coeffs ts) n0 = fold_left nadd (map fst (filter (fun t => Nat.eqb (snd t) k) ts)) n0.
Proof. exact @Proofs.SimpleParse.dense_nth. Qed.
Check c01_dense_nth : forall (T : Type) (NT : Num T) (ts : list (T * nat)) (k : nat),
  nth k (dense_coeffs ts) n0 = fold_left nadd (map fst (filter (fun t => Nat.eqb (snd t) k) ts)) n0.
Print Assumptions c01_dense_nth.

(* ... and its length is the maximal power + 1 *)
Theorem c01_dense_length : forall (T : Type) (NT : Num T) (ts : list (T * nat)),
  length (dense_coeffs ts) = S (max_power_of ts) /\
  (forall t, In t ts -> (snd t <= max_power_of ts)%nat) /\
  (ts <> [] -> exists t, In t ts /\ snd t = max_power_of ts).
Proof. exact @Proofs.SimpleParse.dense_length_max. Qed.
Check c01_dense_length : forall (T : Type) (NT : Num T) (ts : list (T * nat)),
  length (dense_coeffs ts) = S (max_power_of ts) /\
  (forall t, In t ts -> (snd t <= max_power_of ts)%nat) /\
  (ts <> [] -> exists t, In t ts /\ snd t = max_power_of ts).
Print Assumptions c01_dense_length.

(* evaluation of a coefficient vector = sum of c_k x^k (exact arithmetic) *)
Theorem c01_eval_sum : forall (p : spoly R) (x : R),
  eval_simple p x = fold_right (fun k acc => nth k (s_coefs p) 0 * x ^ k + acc)%R 0%R (seq 0 (length (s_coefs p))).
Proof. exact Proofs.SimpleParse.eval_simple_sum. Qed.
Check c01_eval_sum : forall (p : spoly R) (x : R),
  eval_simple p x = fold_right (fun k acc => nth k (s_coefs p) 0 * x ^ k + acc)%R 0%R (seq 0 (length (s_coefs p))).
Print Assumptions c01_eval_sum.

(* "means what it says": the parsed polynomial takes, at every real x, the value
   sum over the source terms of  sign * coefficient * x^power  *)
Theorem c01_meaning : forall (U : UClass), USane U ->
  forall (src : usrc) (v : N) (lead : bool) (s : str),
  wf_src src = true -> (uses_var src = true -> u_alphabetic U v = true) ->
  strip_ws s = render lead v src ->
  exists p : spoly R, parse_simple U s = Ok p /\
    forall x : R, eval_simple p x =
      fold_right (fun (nt : bool * uterm) acc =>
        ((if fst nt then -1 else 1) * @term_coef R RNum (snd nt) * x ^ term_pow (snd nt) + acc)%R) 0%R src.
Proof. exact Proofs.SimpleParse.simple_meaning. Qed.
Check c01_meaning : forall (U : UClass), USane U ->
  forall (src : usrc) (v : N) (lead : bool) (s : str),
  wf_src src = true -> (uses_var src = true -> u_alphabetic U v = true) ->
  strip_ws s = render lead v src ->
  exists p : spoly R, parse_simple U s = Ok p /\
    forall x : R, eval_simple p x =
      fold_right (fun (nt : bool * uterm) acc =>
        ((if fst nt then -1 else 1) * @term_coef R RNum (snd nt) * x ^ term_pow (snd nt) + acc)%R) 0%R src.
Print Assumptions c01_meaning.

(* whitespace (every Unicode White_Space code point, anywhere) is insignificant *)
Theorem c01_spacing : forall (T : Type) (NT : Num T) (U : UClass) (s : str),
  @parse_simple T NT U s = parse_simple U (strip_ws s).
Proof. exact @Proofs.SimpleParse.simple_spacing. Qed.
Check c01_spacing : forall (T : Type) (NT : Num T) (U : UClass) (s : str),
  @parse_simple T NT U s = parse_simple U (strip_ws s).
Print Assumptions c01_spacing.

(* ---- non-vacuity ------------------------------------------------------------- *)
(* the executable Unicode table used by the correspondence check satisfies the premise *)
Example c01_table_sane : USane uclass_tab.
Proof. exact Proofs.SimpleParse.uclass_tab_sane. Qed.

From Coq Require Import String.
Local Open Scope string_scope.
(* strings in the style of the crate's test-suite are renderings of well-formed sources,
   and the extracted float instance reads them as expected *)
Example c01_ex_test_suite :
  let src := [(false, UVar (Some (dI "3")) (Some (str_of "2"))); (false, UVar (Some (dI "2")) None);
              (true, UConst (dI "5"))] in
  wf_src src = true /\ uses_var src = true /\ u_alphabetic uclass_tab 120 = true /\
  @src_finite float FNum src = true /\ sums_finite (@terms_of float FNum src) = true /\
  strip_ws (str_of "3x^2+2x-5") = render false 120 src /\
  @parse_simple float FNum uclass_tab (str_of "3x^2+2x-5") = Ok {| s_coefs := [-5; 2; 3]%float; s_var := Some 120%N |}.
Proof. vm_compute. repeat split. Qed.

Example c01_ex_leading_minus_spaces :
  let src := [(true, UVar None None); (false, UConst (dI "4"))] in
  wf_src src = true /\ strip_ws (str_of "-x + 4") = render false 120 src /\
  @parse_simple float FNum uclass_tab (str_of "-x + 4") = Ok {| s_coefs := [4; -1]%float; s_var := Some 120%N |}.
Proof. vm_compute. repeat split. Qed.

Example c01_ex_spellings :
  let src := [(false, UVar (Some (dI "007")) (Some (str_of "02"))); (true, UVar (Some (dF "" "5")) None);
              (false, UConst (dF "3" ""))] in
  wf_src src = true /\ strip_ws (str_of "007y^02 - .5y+3.") = render false 121 src /\
  @parse_simple float FNum uclass_tab (str_of "007y^02 - .5y+3.") = Ok {| s_coefs := [3; -0.5; 7]%float; s_var := Some 121%N |}.
Proof. vm_compute. repeat split. Qed.

(* a non-ASCII letter (U+03C0), a leading '+', U+00A0 / U+2003 / newline as spacing *)
Example c01_ex_unicode :
  let s := [43; 960; 160; 94; 8195; 50; 10; 45; 960]%N in
  let src := [(false, UVar None (Some (str_of "2"))); (true, UVar None None)] in
  wf_src src = true /\ u_alphabetic uclass_tab 960 = true /\ strip_ws s = render true 960 src /\
  @parse_simple float FNum uclass_tab s = Ok {| s_coefs := [0; -1; 1]%float; s_var := Some 960%N |}.
Proof. vm_compute. repeat split. Qed.

(* 59b028d: numerals beyond the range of f64 are errors, not infinite coefficients:
   a 400-digit coefficient / constant, and two 308-digit coefficients (each finite) whose sum overflows *)
Example c01_ex_overflow :
  @parse_simple float FNum uclass_tab (repeat 57%N 400 ++ [120%N])%list = Err EInvalidCoefficient /\
  @parse_simple float FNum uclass_tab (repeat 57%N 400) = Err EInvalidConstant /\
  @parse_simple float FNum uclass_tab (repeat 57%N 308 ++ [120; 43]%N ++ repeat 57%N 308 ++ [120%N])%list = Err EInvalidCoefficient /\
  (let src := [(false, UVar (Some {| d_int := repeat 57%N 308; d_frac := None |}) None);
               (false, UVar (Some {| d_int := repeat 57%N 308; d_frac := None |}) None)] in
   wf_src src = true /\ @src_finite float FNum src = true /\ sums_finite (@terms_of float FNum src) = false).
Proof. vm_compute. repeat split. Qed.

(* ---- FLOAT instance: "equals the sum of c_k x^k up to floating-point rounding", proved (Proofs/PolyFloat.v, Flocq) ----
   [B2R (Prim2B x)] is the real value of the primitive float x.
   okmul x y := is_finite (Prim2B (x*y)) = true /\ (B2R x * B2R y = 0 \/ 2^-1022 <= |B2R x * B2R y|);
   powi_no_underflow x k : every multiplication of npowi x k is okmul;
   eval_no_underflow cs x : for every i < length cs, powi_no_underflow x i and okmul c_i (npowi x i). *)
From Flocq Require Import Core BinarySingleNaN PrimFloat.
From SV Require Import Model.Stats Proofs.PolyFloat.

(* x.powi(k) (square-and-multiply) in binary64: if every multiplication of the scheme is finite and its exact
   value is zero or of magnitude >= 2^-1022 ([powi_no_underflow], built from [okmul]), the result is finite and
   |fl - x^k| <= ((1+eps)^k - 1) |x|^k,  eps = 2^-53 *)
Theorem c01_powi_float_error : forall (x : PrimFloat.float) (k : nat),
  powi_no_underflow x (Z.of_nat k) ->
  is_finite (Prim2B (npowi x (Z.of_nat k))) = true /\
  (Rabs (B2R (Prim2B (npowi x (Z.of_nat k))) - B2R (Prim2B x) ^ k)
    <= ((1 + bpow radix2 (-53)) ^ k - 1) * Rabs (B2R (Prim2B x)) ^ k)%R.
Proof. exact Proofs.PolyFloat.powi_float_error. Qed.
Check c01_powi_float_error : forall (x : PrimFloat.float) (k : nat),
  powi_no_underflow x (Z.of_nat k) ->
  is_finite (Prim2B (npowi x (Z.of_nat k))) = true /\
  (Rabs (B2R (Prim2B (npowi x (Z.of_nat k))) - B2R (Prim2B x) ^ k)
    <= ((1 + bpow radix2 (-53)) ^ k - 1) * Rabs (B2R (Prim2B x)) ^ k)%R.
Print Assumptions c01_powi_float_error.

(* the rounding clause of C01: under the same no-underflow condition on every product of every term
   ([eval_no_underflow]) and finite partial sums, |fl(p(x)) - sum_k c_k x^k| <= ((1+eps)^(2n) - 1) sum_k |c_k| |x|^k,
   n = length of the coefficient vector = degree + 1 (so 2n = 2 deg + 2 <= 3 deg + 2) *)
Theorem c01_eval_simple_float_error : forall (p : spoly PrimFloat.float) (x : PrimFloat.float),
  eval_no_underflow (s_coefs p) x ->
  (forall m, (m <= List.length (s_coefs p))%nat ->
     is_finite (Prim2B (sum_list (firstn m (eval_terms_from x 0 (s_coefs p))))) = true) ->
  is_finite (Prim2B (eval_simple p x)) = true /\
  (Rabs (B2R (Prim2B (eval_simple p x))
        - fold_right (fun k acc => B2R (Prim2B (nth k (s_coefs p) n0)) * B2R (Prim2B x) ^ k + acc) 0
            (seq 0 (List.length (s_coefs p))))
    <= ((1 + bpow radix2 (-53)) ^ (2 * List.length (s_coefs p)) - 1)
       * fold_right (fun k acc => Rabs (B2R (Prim2B (nth k (s_coefs p) n0))) * Rabs (B2R (Prim2B x)) ^ k + acc) 0
           (seq 0 (List.length (s_coefs p))))%R.
Proof. exact Proofs.PolyFloat.eval_simple_float_error. Qed.
Check c01_eval_simple_float_error : forall (p : spoly PrimFloat.float) (x : PrimFloat.float),
  eval_no_underflow (s_coefs p) x ->
  (forall m, (m <= List.length (s_coefs p))%nat ->
     is_finite (Prim2B (sum_list (firstn m (eval_terms_from x 0 (s_coefs p))))) = true) ->
  is_finite (Prim2B (eval_simple p x)) = true /\
  (Rabs (B2R (Prim2B (eval_simple p x))
        - fold_right (fun k acc => B2R (Prim2B (nth k (s_coefs p) n0)) * B2R (Prim2B x) ^ k + acc) 0
            (seq 0 (List.length (s_coefs p))))
    <= ((1 + bpow radix2 (-53)) ^ (2 * List.length (s_coefs p)) - 1)
       * fold_right (fun k acc => Rabs (B2R (Prim2B (nth k (s_coefs p) n0))) * Rabs (B2R (Prim2B x)) ^ k + acc) 0
           (seq 0 (List.length (s_coefs p))))%R.
Print Assumptions c01_eval_simple_float_error.

(* [okmul x y] (product finite, exact product zero or normal) can be discharged by computation:
   the computed product is finite and at least 2^-1021 in magnitude (two_m1021 = 0x1p-1021) *)
Theorem c01_okmul_by_leb : forall x y : PrimFloat.float,
  PrimFloat.is_finite (PrimFloat.mul x y) = true ->
  PrimFloat.leb two_m1021 (PrimFloat.abs (PrimFloat.mul x y)) = true ->
  okmul x y.
Proof. exact Proofs.PolyFloat.okmul_by_leb. Qed.
Check c01_okmul_by_leb : forall x y : PrimFloat.float,
  PrimFloat.is_finite (PrimFloat.mul x y) = true ->
  PrimFloat.leb two_m1021 (PrimFloat.abs (PrimFloat.mul x y)) = true ->
  okmul x y.
Print Assumptions c01_okmul_by_leb.

(* non-vacuity: 3x^2+2x-5 (Proofs.PolyFloat.ex_poly, coefficient vector [-5; 2; 3]) at x = 1.5 (ex_x1) and at
   x = 0.1 (ex_x2 = 0x1.999999999999ap-4) satisfies the hypotheses of c01_eval_simple_float_error; checked by computation *)
Example c01_float_nonvacuous_1 :
  eval_no_underflow (s_coefs ex_poly) ex_x1 /\
  (forall m, (m <= List.length (s_coefs ex_poly))%nat ->
     is_finite (Prim2B (sum_list (firstn m (eval_terms_from ex_x1 0 (s_coefs ex_poly))))) = true).
Proof. exact Proofs.PolyFloat.ex_eval_hyps_1. Qed.
Example c01_float_nonvacuous_2 :
  eval_no_underflow (s_coefs ex_poly) ex_x2 /\
  (forall m, (m <= List.length (s_coefs ex_poly))%nat ->
     is_finite (Prim2B (sum_list (firstn m (eval_terms_from ex_x2 0 (s_coefs ex_poly))))) = true).
Proof. exact Proofs.PolyFloat.ex_eval_hyps_2. Qed.
Example c01_float_nonvacuous_powi : powi_no_underflow ex_x2 (Z.of_nat 5).
Proof. exact Proofs.PolyFloat.ex_powi_hyp. Qed.

(* ---- the decimal reading of coefficients by the FLOAT instance is the correctly rounded value (Proofs/DecFloat.v) ----
   The parsers read "3.25", "0.1" as an exact decimal m * 10^e and hand it to [nofdec]; for [FNum] this is
   [dec2float m e] (Base/Num.v: exact integer for e >= 0; for e < 0 a quotient of at least 65 bits plus a sticky bit,
   then one rounding to nearest even).  It is now PROVED to be the correctly rounded value, which is what Rust's
   [str::parse::<f64>] specifies (sticky bit = rounding to odd, then Flocq's [round_N_odd]).  So the chain
   text -> exact decimal (parse theorems above) -> float coefficient (here) -> evaluation (c01_eval_simple_float_error)
   has a theorem at every link.
   [dec_val m e] = IZR m * powerRZ 10 e is the exact real; the side condition is Flocq's no-overflow condition. *)
From SV Require Import Proofs.DecFloat.

Theorem c01_dec_val_eq : forall m e : Z, dec_val m e = (IZR m * powerRZ 10 e)%R.
Proof. exact Proofs.DecFloat.dec_val_eq. Qed.
Check c01_dec_val_eq : forall m e : Z, dec_val m e = (IZR m * powerRZ 10 e)%R.
Print Assumptions c01_dec_val_eq.

Theorem c01_dec2float_correct : forall m e : Z,
  (0 < m)%Z ->
  (Rabs (round radix2 (FLT_exp (-1074) 53) ZnearestE (dec_val m e)) < bpow radix2 1024)%R ->
  is_finite (Prim2B (dec2float m e)) = true /\
  B2R (Prim2B (dec2float m e)) = round radix2 (FLT_exp (-1074) 53) ZnearestE (dec_val m e).
Proof. exact Proofs.DecFloat.dec2float_correct. Qed.
Check c01_dec2float_correct : forall m e : Z,
  (0 < m)%Z ->
  (Rabs (round radix2 (FLT_exp (-1074) 53) ZnearestE (dec_val m e)) < bpow radix2 1024)%R ->
  is_finite (Prim2B (dec2float m e)) = true /\
  B2R (Prim2B (dec2float m e)) = round radix2 (FLT_exp (-1074) 53) ZnearestE (dec_val m e).
Print Assumptions c01_dec2float_correct.

(* above the subnormal range the coefficient read is within one unit roundoff of the decimal *)
Theorem c01_dec2float_rel_error : forall m e : Z,
  (0 < m)%Z ->
  (Rabs (round radix2 (FLT_exp (-1074) 53) ZnearestE (dec_val m e)) < bpow radix2 1024)%R ->
  (bpow radix2 (-1022) <= dec_val m e)%R ->
  (Rabs (B2R (Prim2B (dec2float m e)) - dec_val m e) <= bpow radix2 (-53) * dec_val m e)%R.
Proof. exact Proofs.DecFloat.dec2float_rel_error. Qed.
Check c01_dec2float_rel_error : forall m e : Z,
  (0 < m)%Z ->
  (Rabs (round radix2 (FLT_exp (-1074) 53) ZnearestE (dec_val m e)) < bpow radix2 1024)%R ->
  (bpow radix2 (-1022) <= dec_val m e)%R ->
  (Rabs (B2R (Prim2B (dec2float m e)) - dec_val m e) <= bpow radix2 (-53) * dec_val m e)%R.
Print Assumptions c01_dec2float_rel_error.

(* the no-overflow side condition follows from 0 <= v <= 2^1023 *)
Theorem c01_dec_no_overflow : forall v : R,
  (0 <= v <= bpow radix2 1023)%R ->
  (Rabs (round radix2 (FLT_exp (-1074) 53) ZnearestE v) < bpow radix2 1024)%R.
Proof. exact Proofs.DecFloat.dec_no_overflow. Qed.
Check c01_dec_no_overflow : forall v : R,
  (0 <= v <= bpow radix2 1023)%R ->
  (Rabs (round radix2 (FLT_exp (-1074) 53) ZnearestE v) < bpow radix2 1024)%R.
Print Assumptions c01_dec_no_overflow.

(* non-vacuity: 0.1 = dec_val 1 (-1) satisfies every hypothesis; computed sanity values (0.1, 3.25, and 5e-324 which
   rounds to the smallest subnormal) *)
Example c01_dec_nonvacuous :
  (0 < 1)%Z /\
  (Rabs (round radix2 (FLT_exp (-1074) 53) ZnearestE (dec_val 1 (-1))) < bpow radix2 1024)%R /\
  (bpow radix2 (-1022) <= dec_val 1 (-1))%R.
Proof. exact Proofs.DecFloat.ex_dec_hyps. Qed.
Example c01_dec2float_tenth : dec2float 1 (-1) = (0x1.999999999999ap-4)%float.
Proof. vm_compute. reflexivity. Qed.
Example c01_dec2float_3_25 : dec2float 325 (-2) = (0x1.ap+1)%float.
Proof. vm_compute. reflexivity. Qed.
Example c01_dec2float_min_subnormal : dec2float 5 (-324) = (0x0.0000000000001p-1022)%float.
Proof. vm_compute. reflexivity. Qed.

(* ---- FLOAT instance: fidelity of the STORED coefficients to the text (Proofs/ParseFloat.v) ----
   c01_dense_nth (any T): position k holds the source-order sum, from n0, of the coefficients of the terms of
   power k.  For FNum: n0 = +0.0, the additions are binary64 additions, and each written coefficient is
   (-)dec2float m e — a [dterm] (neg, m, e); [dcoef] its float, [dreal] = (-) m*10^e its exact value,
   [dmag] = m*10^e, [dec_ok] : m = 0 or (0 < m and 2^-1022 <= m*10^e <= 2^1023); the sign is PrimFloat.opp (exact).
   Then, if no partial sum overflows (finiteness of the partial float sums, checkable by computation:
   c01_prefixes_finite_by_compute),
       |B2R coeff_k - sum_i (+-) m_i 10^e_i|  <=  ((1+eps)^(t+1) - 1) * sum_i m_i 10^e_i,   eps = 2^-53, t = number of terms
   (one factor for the correctly rounded decimal reading, c01_dec2float_rel_error, and t for the additions from +0.0):
   the stored coefficient is within a few ulps, relative to the sum of magnitudes, of the EXACT value the text denotes.
   c01_parse_float_coeff_error is on any term list whose power-k coefficients are written decimals;
   c01_parse_float_coeff_error_src is on the source terms [terms_of src] of the grammar ([src_dterms src k] = the
   written coefficients of the terms of power k, an omitted coefficient being 1 = dec2float 1 0), so with c01_accept it
   speaks about the vector returned by parse_simple.  Decimals in the subnormal range are excluded (absolute error there). *)
From SV Require Import Proofs.Stats Proofs.ParseFloat.

(* the pure-real combination: per-term relative error u, summation error gam relative to the sum of magnitudes *)
Theorem c01_decimal_sum_combine : forall (A : Type) (f g : A -> R) (u gam s : R) (l : list A),
  (0 <= u)%R -> (0 <= gam)%R ->
  (forall a, In a l -> Rabs (f a - g a) <= u * Rabs (g a))%R ->
  (Rabs (s - Rsum (map f l)) <= gam * Rsum (map (fun a => Rabs (f a)) l))%R ->
  (Rabs (s - Rsum (map g l)) <= ((1 + u) * (1 + gam) - 1) * Rsum (map (fun a => Rabs (g a)) l))%R.
Proof. exact @Proofs.ParseFloat.decimal_sum_combine. Qed.
Check c01_decimal_sum_combine : forall (A : Type) (f g : A -> R) (u gam s : R) (l : list A),
  (0 <= u)%R -> (0 <= gam)%R ->
  (forall a, In a l -> Rabs (f a - g a) <= u * Rabs (g a))%R ->
  (Rabs (s - Rsum (map f l)) <= gam * Rsum (map (fun a => Rabs (f a)) l))%R ->
  (Rabs (s - Rsum (map g l)) <= ((1 + u) * (1 + gam) - 1) * Rsum (map (fun a => Rabs (g a)) l))%R.
Print Assumptions c01_decimal_sum_combine.

Theorem c01_parse_float_coeff_error : forall (ts : list (PrimFloat.float * nat)) (k : nat) (ds : list dterm),
  map fst (filter (fun t => Nat.eqb (snd t) k) ts) = map dcoef ds ->
  (forall d, In d ds -> dec_ok d) ->
  (forall j, (j <= List.length ds)%nat ->
     is_finite (Prim2B (fold_left PrimFloat.add (firstn j (map dcoef ds)) PrimFloat.zero)) = true) ->
  is_finite (Prim2B (nth k (dense_coeffs ts) n0)) = true /\
  (Rabs (B2R (Prim2B (nth k (dense_coeffs ts) n0)) - Rsum (map dreal ds))
    <= ((1 + bpow radix2 (-53)) ^ S (List.length ds) - 1) * Rsum (map dmag ds))%R.
Proof. exact Proofs.ParseFloat.parse_float_coeff_error. Qed.
Check c01_parse_float_coeff_error : forall (ts : list (PrimFloat.float * nat)) (k : nat) (ds : list dterm),
  map fst (filter (fun t => Nat.eqb (snd t) k) ts) = map dcoef ds ->
  (forall d, In d ds -> dec_ok d) ->
  (forall j, (j <= List.length ds)%nat ->
     is_finite (Prim2B (fold_left PrimFloat.add (firstn j (map dcoef ds)) PrimFloat.zero)) = true) ->
  is_finite (Prim2B (nth k (dense_coeffs ts) n0)) = true /\
  (Rabs (B2R (Prim2B (nth k (dense_coeffs ts) n0)) - Rsum (map dreal ds))
    <= ((1 + bpow radix2 (-53)) ^ S (List.length ds) - 1) * Rsum (map dmag ds))%R.
Print Assumptions c01_parse_float_coeff_error.

Theorem c01_parse_float_coeff_error_src : forall (src : usrc) (k : nat),
  (forall d, In d (src_dterms src k) -> dec_ok d) ->
  (forall j, (j <= List.length (src_dterms src k))%nat ->
     is_finite (Prim2B (fold_left PrimFloat.add (firstn j (map dcoef (src_dterms src k))) PrimFloat.zero)) = true) ->
  is_finite (Prim2B (nth k (dense_coeffs (@terms_of PrimFloat.float FNum src)) n0)) = true /\
  (Rabs (B2R (Prim2B (nth k (dense_coeffs (@terms_of PrimFloat.float FNum src)) n0)) - Rsum (map dreal (src_dterms src k)))
    <= ((1 + bpow radix2 (-53)) ^ S (List.length (src_dterms src k)) - 1) * Rsum (map dmag (src_dterms src k)))%R.
Proof. exact Proofs.ParseFloat.parse_float_coeff_error_src. Qed.
Check c01_parse_float_coeff_error_src : forall (src : usrc) (k : nat),
  (forall d, In d (src_dterms src k) -> dec_ok d) ->
  (forall j, (j <= List.length (src_dterms src k))%nat ->
     is_finite (Prim2B (fold_left PrimFloat.add (firstn j (map dcoef (src_dterms src k))) PrimFloat.zero)) = true) ->
  is_finite (Prim2B (nth k (dense_coeffs (@terms_of PrimFloat.float FNum src)) n0)) = true /\
  (Rabs (B2R (Prim2B (nth k (dense_coeffs (@terms_of PrimFloat.float FNum src)) n0)) - Rsum (map dreal (src_dterms src k)))
    <= ((1 + bpow radix2 (-53)) ^ S (List.length (src_dterms src k)) - 1) * Rsum (map dmag (src_dterms src k)))%R.
Print Assumptions c01_parse_float_coeff_error_src.

(* the definitions used above, pinned by their unfoldings *)
Theorem c01_dterm_defs : forall (neg : bool) (m e : Z),
  dcoef (neg, m, e) = (if neg then PrimFloat.opp (dec2float m e) else dec2float m e) /\
  dreal (neg, m, e) = (if neg then - dec_val m e else dec_val m e)%R /\
  dmag (neg, m, e) = dec_val m e /\
  (dec_ok (neg, m, e) <->
     m = 0%Z \/ ((0 < m)%Z /\ (bpow radix2 (-1022) <= dec_val m e <= bpow radix2 1023)%R)).
Proof. exact Proofs.ParseFloat.dterm_defs. Qed.
Check c01_dterm_defs : forall (neg : bool) (m e : Z),
  dcoef (neg, m, e) = (if neg then PrimFloat.opp (dec2float m e) else dec2float m e) /\
  dreal (neg, m, e) = (if neg then - dec_val m e else dec_val m e)%R /\
  dmag (neg, m, e) = dec_val m e /\
  (dec_ok (neg, m, e) <->
     m = 0%Z \/ ((0 < m)%Z /\ (bpow radix2 (-1022) <= dec_val m e <= bpow radix2 1023)%R)).
Print Assumptions c01_dterm_defs.

(* the no-overflow premise is a computation on the primitive floats *)
Theorem c01_prefixes_finite_by_compute : forall l : list PrimFloat.float,
  forallb (fun j => PrimFloat.is_finite (fold_left PrimFloat.add (firstn j l) PrimFloat.zero))
          (seq 0 (S (List.length l))) = true ->
  forall j, (j <= List.length l)%nat ->
    is_finite (Prim2B (fold_left PrimFloat.add (firstn j l) PrimFloat.zero)) = true.
Proof. exact Proofs.ParseFloat.prefixes_finite_by_compute. Qed.
Check c01_prefixes_finite_by_compute : forall l : list PrimFloat.float,
  forallb (fun j => PrimFloat.is_finite (fold_left PrimFloat.add (firstn j l) PrimFloat.zero))
          (seq 0 (S (List.length l))) = true ->
  forall j, (j <= List.length l)%nat ->
    is_finite (Prim2B (fold_left PrimFloat.add (firstn j l) PrimFloat.zero)) = true.
Print Assumptions c01_prefixes_finite_by_compute.

(* non-vacuity: "0.1x + 0.2x - 3.25" (Proofs.ParseFloat.ex_src) is the rendering of a well-formed source, is parsed to
   [-3.25; 0x1.3333333333334p-2] (the coefficient of x is fl(fl(0.1)+fl(0.2))), its written coefficients of power 1 are
   (+,1,-1), (+,2,-1) and of power 0 (-,325,-2); all hypotheses of c01_parse_float_coeff_error_src hold for k = 0, 1;
   the resulting instance for the coefficient of x *)
Example c01_parse_float_ex :
  wf_src ex_src = true /\ strip_ws (str_of "0.1x + 0.2x - 3.25") = render false 120 ex_src /\
  @parse_simple PrimFloat.float FNum uclass_tab (str_of "0.1x + 0.2x - 3.25")
    = Ok {| s_coefs := [-3.25; 0x1.3333333333334p-2]%float; s_var := Some 120%N |} /\
  src_dterms ex_src 1 = [(false, 1%Z, (-1)%Z); (false, 2%Z, (-1)%Z)] /\
  src_dterms ex_src 0 = [(true, 325%Z, (-2)%Z)] /\
  nth 1 (dense_coeffs (@terms_of PrimFloat.float FNum ex_src)) n0 = (0x1.3333333333334p-2)%float /\
  PrimFloat.add (dec2float 1 (-1)) (dec2float 2 (-1)) = (0x1.3333333333334p-2)%float.
Proof. exact Proofs.ParseFloat.ex_src_parse. Qed.
Example c01_parse_float_ex_hyps : forall k, (k = 0 \/ k = 1)%nat ->
  (forall d, In d (src_dterms ex_src k) -> dec_ok d) /\
  (forall j, (j <= List.length (src_dterms ex_src k))%nat ->
     is_finite (Prim2B (fold_left PrimFloat.add (firstn j (map dcoef (src_dterms ex_src k))) PrimFloat.zero)) = true).
Proof. exact Proofs.ParseFloat.ex_src_hyps. Qed.
Example c01_parse_float_ex_coeff_x :
  (Rabs (B2R (Prim2B (0x1.3333333333334p-2)%float) - (dec_val 1 (-1) + (dec_val 2 (-1) + 0)))
    <= ((1 + bpow radix2 (-53)) ^ 3 - 1) * (dec_val 1 (-1) + (dec_val 2 (-1) + 0)))%R.
Proof. exact Proofs.ParseFloat.ex_src_coeff_x. Qed.
