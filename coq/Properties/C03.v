(* Properties/C03.v — symbolic derivatives are the derivative, and stay usable polynomials.
   Statements only; every proof is `exact` of a lemma of Proofs/Deriv.v or Proofs/PolyLemmasWf.v.
   All statements are about the R instance of Model/Poly.v (exact arithmetic, Rpowf = the real
   power on powf's natural domain); rounding is measured by the correspondence check.

   Vocabulary (Proofs/PolyLemmas.v, Proofs/Deriv.v, Proofs/PolyLemmasWf.v):
     upd e v t        the environment e with v bound to t (later bindings win, as in the HashMap)
     wf_terms ts      inside every term the variable names are pairwise distinct (repaired parser)
     terms_bound ts e every variable of ts is bound in e
     dom_pow p x      p integral and (0 <= p or x <> 0), or 0 < x
     dom_deriv ts v x dom_pow p x for every exponent p of v in ts   (the other variables are
                      constants of the differentiation: no condition on them is needed)
     wf_poly p        every term lists its variables strictly increasing by name, i_vars p is
                      strictly increasing, every variable used is in i_vars p *)
From Coq Require Import ZArith NArith List Bool Reals Lra Lia Sorted.
From Coquelicot Require Import Coquelicot.
From SV Require Import Base.Num Base.Outcome Model.Poly Proofs.PolyLemmas Proofs.Deriv Proofs.PolyLemmasWf.
From SV Require Import Model.PolyFast Proofs.PolyLemmasFast.
Import ListNotations.
Local Open Scope R_scope.

(* univariate type: the returned derivative is the derivative, everywhere *)
Theorem c03_simple :
  forall (p : spoly R) (x : R),
    is_derive (eval_simple p) x (eval_simple (simple_derivative p) x).
Proof. exact Proofs.Deriv.c03_simple. Qed.
Check c03_simple :
  forall (p : spoly R) (x : R),
    is_derive (eval_simple p) x (eval_simple (simple_derivative p) x).
Print Assumptions c03_simple.

(* univariate type, trait wrappers: own variable = simple_derivative, a foreign name returns a clone, never an error *)
Theorem c03_simple_wrappers :
  forall (p : spoly R) (v : name),
    s_derivate_univariate p = Ok (simple_derivative p) /\
    (first_char_is v (s_var p) = true -> s_derivate_multivariate p v = simple_derivative p) /\
    (first_char_is v (s_var p) = false -> s_derivate_multivariate p v = p) /\
    (forall x, s_eval_univariate p x = Ok (eval_simple p x)).
Proof. exact Proofs.Deriv.c03_simple_wrappers. Qed.
Check c03_simple_wrappers :
  forall (p : spoly R) (v : name),
    s_derivate_univariate p = Ok (simple_derivative p) /\
    (first_char_is v (s_var p) = true -> s_derivate_multivariate p v = simple_derivative p) /\
    (first_char_is v (s_var p) = false -> s_derivate_multivariate p v = p) /\
    (forall x, s_eval_univariate p x = Ok (eval_simple p x)).
Print Assumptions c03_simple_wrappers.

(* multivariate type: t |-> eval ts (e, v:=t) has at x the derivative eval (partial_derivative ts v) (e, v:=x) *)
Theorem c03_partial :
  forall (ts : list (term R)) (v : name) (e : env R) (x : R),
    wf_terms ts -> terms_bound ts (upd e v x) -> dom_deriv ts v x ->
    exists (f : R -> R) (d : R),
      (forall t, eval_inter ts (upd e v t) = Ok (f t)) /\
      eval_inter (i_terms (partial_derivative ts v)) (upd e v x) = Ok d /\
      is_derive f x d.
Proof. exact Proofs.Deriv.c03_partial. Qed.
Check c03_partial :
  forall (ts : list (term R)) (v : name) (e : env R) (x : R),
    wf_terms ts -> terms_bound ts (upd e v x) -> dom_deriv ts v x ->
    exists (f : R -> R) (d : R),
      (forall t, eval_inter ts (upd e v t) = Ok (f t)) /\
      eval_inter (i_terms (partial_derivative ts v)) (upd e v x) = Ok d /\
      is_derive f x d.
Print Assumptions c03_partial.

(* terms without the variable vanish: an absent name gives the zero polynomial with no variables *)
Theorem c03_absent :
  forall (ts : list (term R)) (v : name),
    (forall t, In t ts -> ~ In v (keys (t_vars t))) ->
    partial_derivative ts v = {| i_terms := []; i_vars := [] |}.
Proof. exact Proofs.Deriv.c03_absent. Qed.
Check c03_absent :
  forall (ts : list (term R)) (v : name),
    (forall t, In t ts -> ~ In v (keys (t_vars t))) ->
    partial_derivative ts v = {| i_terms := []; i_vars := [] |}.
Print Assumptions c03_absent.

(* ... in particular every multi-letter (or empty) name on parser output, whose names have one letter *)
Theorem c03_multi_letter :
  forall (ts : list (term R)) (v : name),
    single_letter_terms ts -> length v <> 1%nat ->
    partial_derivative ts v = {| i_terms := []; i_vars := [] |}.
Proof. exact Proofs.Deriv.c03_multi_letter. Qed.
Check c03_multi_letter :
  forall (ts : list (term R)) (v : name),
    single_letter_terms ts -> length v <> 1%nat ->
    partial_derivative ts v = {| i_terms := []; i_vars := [] |}.
Print Assumptions c03_multi_letter.

(* each term of the result comes from a term containing v with exponent p <> 0, coefficient c*p, other factors untouched; v never stays with exponent 0 *)
Theorem c03_terms_shape :
  forall (ts : list (term R)) (v : name) (d : term R),
    wf_terms ts -> In d (i_terms (partial_derivative ts v)) ->
    (exists t p, In t ts /\ In (v, p) (t_vars t) /\ p <> 0 /\ t_coef d = t_coef t * p /\
        (forall k q, k <> v -> In (k, q) (t_vars d) -> In (k, q) (t_vars t))) /\
    (forall q, In (v, q) (t_vars d) -> q <> 0).
Proof. exact Proofs.Deriv.c03_terms_shape. Qed.
Check c03_terms_shape :
  forall (ts : list (term R)) (v : name) (d : term R),
    wf_terms ts -> In d (i_terms (partial_derivative ts v)) ->
    (exists t p, In t ts /\ In (v, p) (t_vars t) /\ p <> 0 /\ t_coef d = t_coef t * p /\
        (forall k q, k <> v -> In (k, q) (t_vars d) -> In (k, q) (t_vars t))) /\
    (forall q, In (v, q) (t_vars d) -> q <> 0).
Print Assumptions c03_terms_shape.

(* well-formedness is preserved by all four derive / integrate entry points *)
Theorem c03_closed :
  forall (p : ipoly R),
    wf_poly p ->
    (forall v, wf_poly (i_derivate_multivariate p v) /\
               incl (i_vars (i_derivate_multivariate p v)) (i_vars p)) /\
    (forall v, wf_poly (i_integral_multivariate p v) /\
               (forall k, In k (i_vars (i_integral_multivariate p v)) -> In k (i_vars p) \/ k = v)) /\
    (forall d, i_derivate_univariate p = Ok d -> wf_poly d /\ i_vars d = i_vars p) /\
    (forall q, i_integral_univariate p = Ok q -> wf_poly q /\ (length (i_vars q) <= 1)%nat).
Proof. exact Proofs.PolyLemmasWf.c03_closed. Qed.
Check c03_closed :
  forall (p : ipoly R),
    wf_poly p ->
    (forall v, wf_poly (i_derivate_multivariate p v) /\
               incl (i_vars (i_derivate_multivariate p v)) (i_vars p)) /\
    (forall v, wf_poly (i_integral_multivariate p v) /\
               (forall k, In k (i_vars (i_integral_multivariate p v)) -> In k (i_vars p) \/ k = v)) /\
    (forall d, i_derivate_univariate p = Ok d -> wf_poly d /\ i_vars d = i_vars p) /\
    (forall q, i_integral_univariate p = Ok q -> wf_poly q /\ (length (i_vars q) <= 1)%nat).
Print Assumptions c03_closed.

(* with at most one variable (constants included) the univariate entry points answer Ok - no Panic, no TooManyVariables - and their results are again such polynomials *)
Theorem c03_closed_univariate :
  forall (p : ipoly R),
    wf_poly p -> (length (i_vars p) <= 1)%nat ->
    (forall x, exists y, i_eval_univariate p x = Ok y) /\
    (exists d, i_derivate_univariate p = Ok d /\ wf_poly d /\ (length (i_vars d) <= 1)%nat) /\
    (exists q, i_integral_univariate p = Ok q /\ wf_poly q /\ (length (i_vars q) <= 1)%nat).
Proof. exact Proofs.PolyLemmasWf.c03_closed_univariate. Qed.
Check c03_closed_univariate :
  forall (p : ipoly R),
    wf_poly p -> (length (i_vars p) <= 1)%nat ->
    (forall x, exists y, i_eval_univariate p x = Ok y) /\
    (exists d, i_derivate_univariate p = Ok d /\ wf_poly d /\ (length (i_vars d) <= 1)%nat) /\
    (exists q, i_integral_univariate p = Ok q /\ wf_poly q /\ (length (i_vars q) <= 1)%nat).
Print Assumptions c03_closed_univariate.

(* the by-name derivative of a polynomial with at most one variable has at most one variable (the repaired F4) *)
Theorem c03_closed_derivate_multivariate_le1 :
  forall (p : ipoly R) (v : name),
    wf_poly p -> (length (i_vars p) <= 1)%nat ->
    (length (i_vars (i_derivate_multivariate p v)) <= 1)%nat.
Proof. exact Proofs.PolyLemmasWf.c03_closed_derivate_multivariate_le1. Qed.
Check c03_closed_derivate_multivariate_le1 :
  forall (p : ipoly R) (v : name),
    wf_poly p -> (length (i_vars p) <= 1)%nat ->
    (length (i_vars (i_derivate_multivariate p v)) <= 1)%nat.
Print Assumptions c03_closed_derivate_multivariate_le1.

(* distinct names inside each term are enough for the derivative to be well-formed *)
Theorem c03_partial_derivative_wf :
  forall (ts : list (term R)) (v : name),
    wf_terms ts -> wf_poly (partial_derivative ts v).
Proof. exact Proofs.PolyLemmasWf.partial_derivative_wf. Qed.
Check c03_partial_derivative_wf :
  forall (ts : list (term R)) (v : name),
    wf_terms ts -> wf_poly (partial_derivative ts v).
Print Assumptions c03_partial_derivative_wf.

(* correspondence aid: the binary-index variant the drivers run at degree > 2000 is the same function, for every Num instance *)
Theorem c03_fast_model :
  forall (T : Type) (NT : Num T) (p : spoly T) (v : name),
    s_derivate_univariate_fast p = s_derivate_univariate p /\
    s_integral_univariate_fast p = s_integral_univariate p /\
    s_derivate_multivariate_fast p v = s_derivate_multivariate p v /\
    s_integral_multivariate_fast p v = s_integral_multivariate p v.
Proof. exact (@Proofs.PolyLemmasFast.fast_model_eq). Qed.
Check c03_fast_model :
  forall (T : Type) (NT : Num T) (p : spoly T) (v : name),
    s_derivate_univariate_fast p = s_derivate_univariate p /\
    s_integral_univariate_fast p = s_integral_univariate p /\
    s_derivate_multivariate_fast p v = s_derivate_multivariate p v /\
    s_integral_multivariate_fast p v = s_integral_multivariate p v.
Print Assumptions c03_fast_model.

(* non-vacuity: the hypotheses of c03_partial hold for 3 x^2 y^-1 + 2 x^(1/2) at x = 3/2, y = 2;
   wf_poly holds for a two-variable polynomial and for a constant one *)
Example c03_partial_nonvacuous :
  let ts := [ {| t_coef := 3; t_vars := [(ex_x, 2); (ex_y, -1)] |};
              {| t_coef := 2; t_vars := [(ex_x, 1 / 2)] |} ] in
  wf_terms ts /\ terms_bound ts (upd [(ex_y, 2)] ex_x (3 / 2)) /\ dom_deriv ts ex_x (3 / 2).
Proof. exact Proofs.Deriv.c03_partial_hyps. Qed.

Example c03_closed_nonvacuous :
  wf_poly {| i_terms := [ {| t_coef := 3; t_vars := [([120%N], 2); ([121%N], -1)] |};
                          {| t_coef := 5; t_vars := [] |} ];
             i_vars := [[120%N]; [121%N]] |}.
Proof. exact Proofs.PolyLemmasWf.wf_poly_example. Qed.

Example c03_closed_constant_nonvacuous :
  wf_poly {| i_terms := [ {| t_coef := 5; t_vars := [] |} ]; i_vars := [] |} /\ (length (@nil name) <= 1)%nat.
Proof. exact Proofs.PolyLemmasWf.wf_poly_constant. Qed.

(* ---- FLOAT instance, univariate type: the derivative "to rounding" (Proofs/DerivFloat.v, Flocq) ----
   [B2R (Prim2B x)] is the real value of the primitive float x; m = length (s_coefs p) - 1 entries in the derived vector;
   D = sum_{k<m} (k+1) c_{k+1} x^k is the exact derivative (c03_simple) of the real polynomial with the float
   coefficients' values, A the same with absolute values; eps = 2^-53; exponent 2m+1 (= 2n-1 for n = m+1 coefficients).
   Hypotheses: n < 2^53; every coefficient product c_{k+1} * ((k+1) as f64) is okmul (finite, exact value zero or
   >= 2^-1022: Proofs/PolyFloat.v); the hypotheses of c01_eval_simple_float_error for the derived polynomial at x. *)
From Flocq Require Import Core BinarySingleNaN PrimFloat.
From SV Require Import Model.Stats Proofs.PolyFloat Proofs.DerivFloat.

Theorem c03_simple_derivative_float_error : forall (p : spoly PrimFloat.float) (x : PrimFloat.float),
  (Z.of_nat (length (s_coefs p)) < 2 ^ 53)%Z ->
  (forall k, (k < length (s_coefs p) - 1)%nat -> okmul (nth (S k) (s_coefs p) n0) (nofnat (S k))) ->
  eval_no_underflow (s_coefs (simple_derivative p)) x ->
  (forall m, (m <= length (s_coefs (simple_derivative p)))%nat ->
     is_finite (Prim2B (sum_list (firstn m (eval_terms_from x 0 (s_coefs (simple_derivative p)))))) = true) ->
  is_finite (Prim2B (eval_simple (simple_derivative p) x)) = true /\
  Rabs (B2R (Prim2B (eval_simple (simple_derivative p) x))
        - fold_right (fun k acc => INR (S k) * B2R (Prim2B (nth (S k) (s_coefs p) n0)) * B2R (Prim2B x) ^ k + acc) 0
            (seq 0 (length (s_coefs p) - 1)))
    <= ((1 + bpow radix2 (-53)) ^ (2 * (length (s_coefs p) - 1) + 1) - 1)
       * fold_right (fun k acc => INR (S k) * Rabs (B2R (Prim2B (nth (S k) (s_coefs p) n0))) * Rabs (B2R (Prim2B x)) ^ k + acc) 0
           (seq 0 (length (s_coefs p) - 1)).
Proof. exact Proofs.DerivFloat.simple_derivative_float_error. Qed.
Check c03_simple_derivative_float_error : forall (p : spoly PrimFloat.float) (x : PrimFloat.float),
  (Z.of_nat (length (s_coefs p)) < 2 ^ 53)%Z ->
  (forall k, (k < length (s_coefs p) - 1)%nat -> okmul (nth (S k) (s_coefs p) n0) (nofnat (S k))) ->
  eval_no_underflow (s_coefs (simple_derivative p)) x ->
  (forall m, (m <= length (s_coefs (simple_derivative p)))%nat ->
     is_finite (Prim2B (sum_list (firstn m (eval_terms_from x 0 (s_coefs (simple_derivative p)))))) = true) ->
  is_finite (Prim2B (eval_simple (simple_derivative p) x)) = true /\
  Rabs (B2R (Prim2B (eval_simple (simple_derivative p) x))
        - fold_right (fun k acc => INR (S k) * B2R (Prim2B (nth (S k) (s_coefs p) n0)) * B2R (Prim2B x) ^ k + acc) 0
            (seq 0 (length (s_coefs p) - 1)))
    <= ((1 + bpow radix2 (-53)) ^ (2 * (length (s_coefs p) - 1) + 1) - 1)
       * fold_right (fun k acc => INR (S k) * Rabs (B2R (Prim2B (nth (S k) (s_coefs p) n0))) * Rabs (B2R (Prim2B x)) ^ k + acc) 0
           (seq 0 (length (s_coefs p) - 1)).
Print Assumptions c03_simple_derivative_float_error.

(* non-vacuity: 3x^2+2x-5 (Proofs.PolyFloat.ex_poly) at x = 1.5 (ex_x1) satisfies every hypothesis; by computation *)
Example c03_float_nonvacuous :
  (Z.of_nat (length (s_coefs ex_poly)) < 2 ^ 53)%Z /\
  (forall k, (k < length (s_coefs ex_poly) - 1)%nat -> okmul (nth (S k) (s_coefs ex_poly) n0) (nofnat (S k))) /\
  eval_no_underflow (s_coefs (simple_derivative ex_poly)) ex_x1 /\
  (forall m, (m <= length (s_coefs (simple_derivative ex_poly)))%nat ->
     is_finite (Prim2B (sum_list (firstn m (eval_terms_from ex_x1 0 (s_coefs (simple_derivative ex_poly)))))) = true).
Proof. exact Proofs.DerivFloat.ex_derivative_hyps. Qed.
