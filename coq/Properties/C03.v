(* Properties/C03.v — symbolic derivatives are the derivative, and stay usable polynomials.
   Statements only; every proof is `exact` of a lemma of Proofs/Deriv.v. *)
From Coq Require Import ZArith NArith List Bool Reals Lra Lia.
From Coquelicot Require Import Coquelicot.
From SV Require Import Base.Num Base.Outcome Model.Poly Proofs.PolyLemmas Proofs.Deriv.
Import ListNotations.
Local Open Scope R_scope.

Theorem c03_simple : forall (p : spoly R) (x : R),
  is_derive (eval_simple p) x (eval_simple (simple_derivative p) x).
Proof. exact Proofs.Deriv.c03_simple. Qed.
Check c03_simple : forall (p : spoly R) (x : R),
  is_derive (eval_simple p) x (eval_simple (simple_derivative p) x).
Print Assumptions c03_simple.

Example c03_simple_nonvacuous :
  eval_simple (simple_derivative {| s_coefs := [5; 3; 2]; s_var := Some 120%N |}) 2 = 11.
Proof. rewrite eval_simple_psum. cbn. rewrite !nofnat_INR. cbn. lra. Qed.
