(* Properties/C11.v — matrix / vector / scalar products follow the algebraic definition, any shape.
   Statements only; every proof is `exact` of a lemma of Proofs/Arr2DDot.v.
   The statements hold for every commutative ring presented through the Num interface
   (class NumRing); ZNum (the i64 harness instance) and RNum are instances (ZRing, RRing).
   [Inv a] : length (inner a) = height a * width a  (well-formed array);
   [get n0 a i j] : buffer element i*width+j;  [dot_entry a b i j] = sum_k a_ik * b_kj  (fold_right over seq).
   The last block (c11_dot_float_...) is about the FLOAT instance that is extracted and run against the code
   (Proofs/Arr2DFloat.v, through Flocq): [B2R (Prim2B x)] is the real value of the primitive float x,
   [dot_partial a b i j m] the first m steps of the loop `sum += a[i][k] * b[k][j]` started from +0.0,
   [Rsum] a fold_right of Rplus. *)
From Coq Require Import ZArith List Bool Reals Lia.
From Flocq Require Import Core BinarySingleNaN PrimFloat.
From SV Require Import Base.Num Base.Outcome Model.Arr2D Proofs.Arr2D Proofs.Arr2DDot Proofs.Stats Proofs.Arr2DFloat.
Import ListNotations.

(* conforming shapes (m x k times k x n), ALL shapes: row/column vectors, outer products, 1x1 factors, empty dimensions *)
Theorem c11_conforming : forall (T : Type) (NT : Num T) (NR : NumRing T) (a b : arr T),
  Inv a -> Inv b -> width a = height b ->
  exists c, dot a b = Ok c /\ Inv c /\ height c = height a /\ width c = width b /\
    forall i j, i < height a -> j < width b -> get n0 c i j = dot_entry a b i j.
Proof. exact @Proofs.Arr2DDot.c11_conforming. Qed.
Check c11_conforming : forall (T : Type) (NT : Num T) (NR : NumRing T) (a b : arr T),
  Inv a -> Inv b -> width a = height b ->
  exists c, dot a b = Ok c /\ Inv c /\ height c = height a /\ width c = width b /\
    forall i j, i < height a -> j < width b -> get n0 c i j = dot_entry a b i j.
Print Assumptions c11_conforming.

(* a 1x1 left operand scales the right operand whatever its shape (in particular a non-conforming one) *)
Theorem c11_scalar_left : forall (T : Type) (NT : Num T) (a b : arr T),
  Inv a -> Inv b -> height a = 1 -> width a = 1 ->
  exists c, dot a b = Ok c /\ Inv c /\ height c = height b /\ width c = width b /\
    forall i j, i < height b -> j < width b -> get n0 c i j = nmul (get n0 a 0 0) (get n0 b i j).
Proof. exact @Proofs.Arr2DDot.c11_scalar_left. Qed.
Check c11_scalar_left : forall (T : Type) (NT : Num T) (a b : arr T),
  Inv a -> Inv b -> height a = 1 -> width a = 1 ->
  exists c, dot a b = Ok c /\ Inv c /\ height c = height b /\ width c = width b /\
    forall i j, i < height b -> j < width b -> get n0 c i j = nmul (get n0 a 0 0) (get n0 b i j).
Print Assumptions c11_scalar_left.

(* a 1x1 right operand also acts as a scalar (the property would allow a rejection; the code scales) *)
Theorem c11_scalar_right : forall (T : Type) (NT : Num T) (NR : NumRing T) (a b : arr T),
  Inv a -> Inv b -> height b = 1 -> width b = 1 ->
  exists c, dot a b = Ok c /\ Inv c /\ height c = height a /\ width c = width a /\
    forall i j, i < height a -> j < width a -> get n0 c i j = nmul (get n0 a i j) (get n0 b 0 0).
Proof. exact @Proofs.Arr2DDot.c11_scalar_right. Qed.
Check c11_scalar_right : forall (T : Type) (NT : Num T) (NR : NumRing T) (a b : arr T),
  Inv a -> Inv b -> height b = 1 -> width b = 1 ->
  exists c, dot a b = Ok c /\ Inv c /\ height c = height a /\ width c = width a /\
    forall i j, i < height a -> j < width a -> get n0 c i j = nmul (get n0 a i j) (get n0 b 0 0).
Print Assumptions c11_scalar_right.

(* every pair that is neither conforming nor has a 1x1 operand is Err InvalidDotShape; dot never panics *)
Theorem c11_shape_error : forall (T : Type) (NT : Num T) (NR : NumRing T) (a b : arr T),
  (~ (height a = 1 /\ width a = 1) -> ~ (height b = 1 /\ width b = 1) -> width a <> height b ->
     dot a b = Err EInvalidDotShape) /\
  (Inv a -> Inv b -> no_panic (dot a b)).
Proof. exact @Proofs.Arr2DDot.c11_shape_error. Qed.
Check c11_shape_error : forall (T : Type) (NT : Num T) (NR : NumRing T) (a b : arr T),
  (~ (height a = 1 /\ width a = 1) -> ~ (height b = 1 /\ width b = 1) -> width a <> height b ->
     dot a b = Err EInvalidDotShape) /\
  (Inv a -> Inv b -> no_panic (dot a b)).
Print Assumptions c11_shape_error.

(* each operator form (&a*&b, a*b, a*&b, &a*b) is dot on Ok and the 0x0 array on Err *)
Theorem c11_operator : forall (T : Type) (NT : Num T) (a b : arr T),
  forall f, In f [mul_ref_ref; mul_own_own; mul_own_ref; mul_ref_own] ->
    (forall c, dot a b = Ok c -> f a b = Ok c) /\
    (forall e, dot a b = Err e -> f a b = Ok (mkArr [] 0 0)) /\
    (forall w, dot a b = Panic w -> f a b = Panic w).
Proof. exact @Proofs.Arr2DDot.c11_operator. Qed.
Check c11_operator : forall (T : Type) (NT : Num T) (a b : arr T),
  forall f, In f [mul_ref_ref; mul_own_own; mul_own_ref; mul_ref_own] ->
    (forall c, dot a b = Ok c -> f a b = Ok c) /\
    (forall e, dot a b = Err e -> f a b = Ok (mkArr [] 0 0)) /\
    (forall w, dot a b = Panic w -> f a b = Panic w).
Print Assumptions c11_operator.

(* scalar multiply / divide are elementwise; integer division by zero panics exactly when an element exists *)
Theorem c11_scalar_ops : forall (T : Type) (NT : Num T) (a : arr T) (k : T), Inv a ->
  (exists c, smul a k = Ok c /\ Inv c /\ height c = height a /\ width c = width a /\
     forall i j, i < height a -> j < width a -> get n0 c i j = nmul (get n0 a i j) k) /\
  (forall int_div, int_div && neqb k n0 = false ->
   exists c, sdiv int_div a k = Ok c /\ Inv c /\ height c = height a /\ width c = width a /\
     forall i j, i < height a -> j < width a -> get n0 c i j = ndiv (get n0 a i j) k) /\
  (neqb k n0 = true ->
   sdiv true a k = if is_empty a then Ok (full n0 (height a) (width a)) else Panic WDivZero).
Proof. exact @Proofs.Arr2DDot.c11_scalar_ops. Qed.
Check c11_scalar_ops : forall (T : Type) (NT : Num T) (a : arr T) (k : T), Inv a ->
  (exists c, smul a k = Ok c /\ Inv c /\ height c = height a /\ width c = width a /\
     forall i j, i < height a -> j < width a -> get n0 c i j = nmul (get n0 a i j) k) /\
  (forall int_div, int_div && neqb k n0 = false ->
   exists c, sdiv int_div a k = Ok c /\ Inv c /\ height c = height a /\ width c = width a /\
     forall i j, i < height a -> j < width a -> get n0 c i j = ndiv (get n0 a i j) k) /\
  (neqb k n0 = true ->
   sdiv true a k = if is_empty a then Ok (full n0 (height a) (width a)) else Panic WDivZero).
Print Assumptions c11_scalar_ops.

(* transpose is the grid transpose (no arithmetic involved) *)
Theorem c11_transpose : forall (T : Type) (d : T) (a : arr T), Inv a ->
  exists t, transpose a = Ok t /\ Inv t /\ height t = width a /\ width t = height a /\
    forall i j, i < width a -> j < height a -> get d t i j = get d a j i.
Proof. exact @Proofs.Arr2D.transpose_spec. Qed.
Check c11_transpose : forall (T : Type) (d : T) (a : arr T), Inv a ->
  exists t, transpose a = Ok t /\ Inv t /\ height t = width a /\ width t = height a /\
    forall i j, i < width a -> j < height a -> get d t i j = get d a j i.
Print Assumptions c11_transpose.

(* the usual laws, as equalities of arrays (buffer and shape): identity on both sides,
   transpose of a product, associativity — for ALL conforming shapes; no 1x1 side condition
   is needed because a conforming product is the algebraic product even through the scalar shortcut *)
Theorem c11_laws : forall (T : Type) (NT : Num T) (NR : NumRing T) (a b c : arr T),
  (Inv a -> exists e, identity (height a) = Ok e /\ dot e a = Ok a) /\
  (Inv a -> exists e, identity (width a) = Ok e /\ dot a e = Ok a) /\
  (Inv a -> Inv b -> width a = height b ->
     exists p pt at_ bt, dot a b = Ok p /\ transpose p = Ok pt /\
       transpose a = Ok at_ /\ transpose b = Ok bt /\ dot bt at_ = Ok pt) /\
  (Inv a -> Inv b -> Inv c -> width a = height b -> width b = height c ->
     exists ab bc l, dot a b = Ok ab /\ dot b c = Ok bc /\ dot ab c = Ok l /\ dot a bc = Ok l).
Proof. exact @Proofs.Arr2DDot.c11_laws. Qed.
Check c11_laws : forall (T : Type) (NT : Num T) (NR : NumRing T) (a b c : arr T),
  (Inv a -> exists e, identity (height a) = Ok e /\ dot e a = Ok a) /\
  (Inv a -> exists e, identity (width a) = Ok e /\ dot a e = Ok a) /\
  (Inv a -> Inv b -> width a = height b ->
     exists p pt at_ bt, dot a b = Ok p /\ transpose p = Ok pt /\
       transpose a = Ok at_ /\ transpose b = Ok bt /\ dot bt at_ = Ok pt) /\
  (Inv a -> Inv b -> Inv c -> width a = height b -> width b = height c ->
     exists ab bc l, dot a b = Ok ab /\ dot b c = Ok bc /\ dot ab c = Ok l /\ dot a bc = Ok l).
Print Assumptions c11_laws.

(* ---- instances and non-vacuity ------------------------------------------------------- *)
(* the two instances asked for: integers (the harness instance) and reals *)
Example c11_conforming_Z := c11_conforming Z ZNum ZRing.
Example c11_conforming_R := c11_conforming R RNum RRing.
Example c11_laws_Z := c11_laws Z ZNum ZRing.
Example c11_laws_R := c11_laws R RNum RRing.

Local Open Scope Z_scope.
(* outer product 3x1 . 1x2 (the shape the unrepaired code answered with 3x1) *)
Example c11_outer : @dot Z ZNum (mkArr [1; 2; 3] 3 1) (mkArr [4; 5] 1 2) = Ok (mkArr [4; 5; 8; 10; 12; 15] 3 2).
Proof. reflexivity. Qed.
(* 1x1 . 1x3 is conforming: a row *)
Example c11_row : @dot Z ZNum (mkArr [2] 1 1) (mkArr [1; 2; 3] 1 3) = Ok (mkArr [2; 4; 6] 1 3).
Proof. reflexivity. Qed.
(* 2x2 . 1x2 is rejected *)
Example c11_reject : @dot Z ZNum (mkArr [1; 2; 3; 4] 2 2) (mkArr [1; 2] 1 2) = Err EInvalidDotShape.
Proof. reflexivity. Qed.
(* 1x1 . 1x0 : conforming, empty result, no panic *)
Example c11_empty : @dot Z ZNum (mkArr [2] 1 1) (mkArr [] 1 0) = Ok (mkArr [] 1 0).
Proof. reflexivity. Qed.
(* hypotheses of c11_conforming / associativity are satisfiable *)
Example c11_nonvacuous :
  Inv (mkArr [1; 2; 3; 4; 5; 6] 2 3) /\ Inv (mkArr [1; 0; 0; 1; 1; 1] 3 2) /\
  width (mkArr [1; 2; 3; 4; 5; 6] 2 3) = height (mkArr [1; 0; 0; 1; 1; 1] 3 2) /\
  @dot Z ZNum (mkArr [1; 2; 3; 4; 5; 6] 2 3) (mkArr [1; 0; 0; 1; 1; 1] 3 2) = Ok (mkArr [4; 5; 10; 11] 2 2).
Proof. repeat split. Qed.

(* ---- FLOAT instance: rounding-error bound for the entries of a conforming product (Flocq) ---- *)

(* without ring laws (so also for floats): a conforming product has the right shape and its entry (i,j) is the
   value the loop computes, [dot_entry_fl]: the left-to-right accumulation from n0, or scalar * x through the 1x1 shortcut *)
Theorem c11_dot_fl_conforming : forall (T : Type) (NT : Num T) (a b : arr T),
  Inv a -> Inv b -> width a = height b ->
  exists c, dot a b = Ok c /\ Inv c /\ height c = height a /\ width c = width b /\
    forall i j, (i < height a)%nat -> (j < width b)%nat -> get n0 c i j = dot_entry_fl a b i j.
Proof. exact @Proofs.Arr2DFloat.dot_fl_conforming. Qed.
Check c11_dot_fl_conforming : forall (T : Type) (NT : Num T) (a b : arr T),
  Inv a -> Inv b -> width a = height b ->
  exists c, dot a b = Ok c /\ Inv c /\ height c = height a /\ width c = width b /\
    forall i j, (i < height a)%nat -> (j < width b)%nat -> get n0 c i j = dot_entry_fl a b i j.
Print Assumptions c11_dot_fl_conforming.

(* binary64: if every product and every partial sum of every entry is finite, each entry of the Ok result is finite and
   |entry - sum_k a_ik b_kj| <= ((1+eps)^(n+1) - 1) * sum_k |a_ik b_kj| + n (1+eps)^n eta,  n = width a, eps = 2^-53, eta = 2^-1075 *)
Theorem c11_dot_float_error : forall a b : arr PrimFloat.float,
  Inv a -> Inv b -> width a = height b ->
  (forall i j k, (i < height a)%nat -> (j < width b)%nat -> (k < width a)%nat ->
     is_finite (Prim2B (PrimFloat.mul (get n0 a i k) (get n0 b k j))) = true) ->
  (forall i j m, (i < height a)%nat -> (j < width b)%nat -> (m <= width a)%nat ->
     is_finite (Prim2B (dot_partial a b i j m)) = true) ->
  exists c, dot a b = Ok c /\ Inv c /\ height c = height a /\ width c = width b /\
    forall i j, (i < height a)%nat -> (j < width b)%nat ->
      is_finite (Prim2B (get n0 c i j)) = true /\
      (Rabs (B2R (Prim2B (get n0 c i j))
            - Rsum (map (fun k => B2R (Prim2B (get n0 a i k)) * B2R (Prim2B (get n0 b k j))) (seq 0 (width a))))
      <= ((1 + bpow radix2 (-53)) ^ S (width a) - 1)
           * Rsum (map (fun k => Rabs (B2R (Prim2B (get n0 a i k)) * B2R (Prim2B (get n0 b k j)))) (seq 0 (width a)))
         + INR (width a) * (1 + bpow radix2 (-53)) ^ width a * bpow radix2 (-1075))%R.
Proof. exact Proofs.Arr2DFloat.dot_float_error. Qed.
Check c11_dot_float_error : forall a b : arr PrimFloat.float,
  Inv a -> Inv b -> width a = height b ->
  (forall i j k, (i < height a)%nat -> (j < width b)%nat -> (k < width a)%nat ->
     is_finite (Prim2B (PrimFloat.mul (get n0 a i k) (get n0 b k j))) = true) ->
  (forall i j m, (i < height a)%nat -> (j < width b)%nat -> (m <= width a)%nat ->
     is_finite (Prim2B (dot_partial a b i j m)) = true) ->
  exists c, dot a b = Ok c /\ Inv c /\ height c = height a /\ width c = width b /\
    forall i j, (i < height a)%nat -> (j < width b)%nat ->
      is_finite (Prim2B (get n0 c i j)) = true /\
      (Rabs (B2R (Prim2B (get n0 c i j))
            - Rsum (map (fun k => B2R (Prim2B (get n0 a i k)) * B2R (Prim2B (get n0 b k j))) (seq 0 (width a))))
      <= ((1 + bpow radix2 (-53)) ^ S (width a) - 1)
           * Rsum (map (fun k => Rabs (B2R (Prim2B (get n0 a i k)) * B2R (Prim2B (get n0 b k j)))) (seq 0 (width a)))
         + INR (width a) * (1 + bpow radix2 (-53)) ^ width a * bpow radix2 (-1075))%R.
Print Assumptions c11_dot_float_error.

(* the no-overflow hypotheses for entry (i,j) follow from finite operands and a real-number bound on the data *)
Theorem c11_dot_float_no_overflow : forall (a b : arr PrimFloat.float) (i j : nat),
  (forall k, (k < width a)%nat ->
     is_finite (Prim2B (get n0 a i k)) = true /\ is_finite (Prim2B (get n0 b k j)) = true) ->
  ((1 + bpow radix2 (-53)) ^ width a
    * ((1 + bpow radix2 (-53))
         * Rsum (map (fun k => Rabs (B2R (Prim2B (get n0 a i k)) * B2R (Prim2B (get n0 b k j)))) (seq 0 (width a)))
       + INR (width a) * bpow radix2 (-1075))
    < bpow radix2 1024)%R ->
  (forall k, (k < width a)%nat ->
     is_finite (Prim2B (PrimFloat.mul (get n0 a i k) (get n0 b k j))) = true) /\
  (forall m, (m <= width a)%nat -> is_finite (Prim2B (dot_partial a b i j m)) = true).
Proof. exact Proofs.Arr2DFloat.dot_float_no_overflow. Qed.
Check c11_dot_float_no_overflow : forall (a b : arr PrimFloat.float) (i j : nat),
  (forall k, (k < width a)%nat ->
     is_finite (Prim2B (get n0 a i k)) = true /\ is_finite (Prim2B (get n0 b k j)) = true) ->
  ((1 + bpow radix2 (-53)) ^ width a
    * ((1 + bpow radix2 (-53))
         * Rsum (map (fun k => Rabs (B2R (Prim2B (get n0 a i k)) * B2R (Prim2B (get n0 b k j)))) (seq 0 (width a)))
       + INR (width a) * bpow radix2 (-1075))
    < bpow radix2 1024)%R ->
  (forall k, (k < width a)%nat ->
     is_finite (Prim2B (PrimFloat.mul (get n0 a i k) (get n0 b k j))) = true) /\
  (forall m, (m <= width a)%nat -> is_finite (Prim2B (dot_partial a b i j m)) = true).
Print Assumptions c11_dot_float_no_overflow.

(* non-vacuity of the float hypotheses: Proofs.Arr2DFloat.ex_a . ex_b, a 2x2 product
   [[1.5, 0.1], [-3, 2]] . [[0.2, 4], [5, 0.3]] (nearest binary64 values), checked by computation *)
Example c11_float_nonvacuous :
  Inv ex_a /\ Inv ex_b /\ width ex_a = height ex_b /\
  (forall i j k, (i < height ex_a)%nat -> (j < width ex_b)%nat -> (k < width ex_a)%nat ->
     is_finite (Prim2B (PrimFloat.mul (get n0 ex_a i k) (get n0 ex_b k j))) = true) /\
  (forall i j m, (i < height ex_a)%nat -> (j < width ex_b)%nat -> (m <= width ex_a)%nat ->
     is_finite (Prim2B (dot_partial ex_a ex_b i j m)) = true).
Proof. exact Proofs.Arr2DFloat.ex_dot_hyps. Qed.
