(* Properties/C20.v — the compile-time polynomial macros equal the runtime parsers.
   Statements only; every proof is `exact` of a lemma of Proofs/Macro.v.

   The macro is  emit ∘ parse ∘ to_string ∘ tokenize.  rustc's tokenizer/printer
   ([tokenize_print]) and the round trip `{:?}` -> literal ([reread]) are universally
   quantified and constrained by the two hypotheses that tools/props/c20.py MEASURES with
   the compiler in the loop:
     R1   strip_ws (tokenize_print s) = strip_ws s
     R2   finite x -> reread x = Some x       R2s  reread x = Some y -> y = x
   (finite = the parsers' own test is_finite since repair 59b028d: accepted values are finite) *)
From Coq Require Import ZArith NArith List Bool Floats String.
From SV Require Import Base.Num Base.Outcome Base.Str Model.Poly Model.Parse Model.Macro Proofs.Macro.
Import ListNotations.

(* both parsers see their input only up to whitespace — ALL Unicode whitespace, line breaks included *)
Theorem c20_ws_invariant_simple :
  forall (T : Type) (NT : Num T) (U : UClass) (s s' : str),
    strip_ws s = strip_ws s' -> @parse_simple T NT U s = @parse_simple T NT U s'.
Proof. exact Proofs.Macro.c20_ws_invariant_simple. Qed.
Check c20_ws_invariant_simple :
  forall (T : Type) (NT : Num T) (U : UClass) (s s' : str),
    strip_ws s = strip_ws s' -> @parse_simple T NT U s = @parse_simple T NT U s'.
Print Assumptions c20_ws_invariant_simple.

Theorem c20_ws_invariant_inter :
  forall (T : Type) (NT : Num T) (U : UClass) (s s' : str),
    strip_ws s = strip_ws s' -> @parse_inter T NT U s = @parse_inter T NT U s'.
Proof. exact Proofs.Macro.c20_ws_invariant_inter. Qed.
Check c20_ws_invariant_inter :
  forall (T : Type) (NT : Num T) (U : UClass) (s s' : str),
    strip_ws s = strip_ws s' -> @parse_inter T NT U s = @parse_inter T NT U s'.
Print Assumptions c20_ws_invariant_inter.

(* the '@' test of parse_inter runs before the stripping; it commutes with it *)
Theorem c20_at_test_commutes :
  forall s : str, contains_char c_at (strip_ws s) = contains_char c_at s.
Proof. exact (fun s => Proofs.Macro.contains_char_strip_ws c_at s Proofs.Macro.c_at_not_ws). Qed.
Check c20_at_test_commutes :
  forall s : str, contains_char c_at (strip_ws s) = contains_char c_at s.
Print Assumptions c20_at_test_commutes.

(* under R1 the parser inside the macro (which sees the re-spaced text) returns what the
   runtime parser returns on the original text: same value, same error *)
Theorem c20_macro_eq_runtime :
  forall (T : Type) (NT : Num T) (U : UClass) (tokenize_print : str -> str),
    (forall s, strip_ws (tokenize_print s) = strip_ws s) ->
    (forall s, parse_simple U (tokenize_print s) = @parse_simple T NT U s) /\
    (forall s, parse_inter U (tokenize_print s) = @parse_inter T NT U s).
Proof. exact (@Proofs.Macro.macro_eq_runtime). Qed.
Check c20_macro_eq_runtime :
  forall (T : Type) (NT : Num T) (U : UClass) (tokenize_print : str -> str),
    (forall s, strip_ws (tokenize_print s) = strip_ws s) ->
    (forall s, parse_simple U (tokenize_print s) = @parse_simple T NT U s) /\
    (forall s, parse_inter U (tokenize_print s) = @parse_inter T NT U s).
Print Assumptions c20_macro_eq_runtime.

Theorem c20_macro_error :
  forall (T : Type) (NT : Num T) (U : UClass) (tokenize_print : str -> str),
    (forall s, strip_ws (tokenize_print s) = strip_ws s) ->
    (forall s e, @parse_simple T NT U s = Err e -> parse_simple U (tokenize_print s) = Err e) /\
    (forall s e, @parse_inter T NT U s = Err e -> parse_inter U (tokenize_print s) = Err e).
Proof. exact (@Proofs.Macro.macro_error). Qed.
Check c20_macro_error :
  forall (T : Type) (NT : Num T) (U : UClass) (tokenize_print : str -> str),
    (forall s, strip_ws (tokenize_print s) = strip_ws s) ->
    (forall s e, @parse_simple T NT U s = Err e -> parse_simple U (tokenize_print s) = Err e) /\
    (forall s e, @parse_inter T NT U s = Err e -> parse_inter U (tokenize_print s) = Err e).
Print Assumptions c20_macro_error.

(* the whole macro, emission included: accepted text with finite numbers expands to the
   runtime value, field for field *)
Theorem c20_expansion_value :
  forall (T : Type) (NT : Num T) (U : UClass) (tokenize_print : str -> str),
    (forall s, strip_ws (tokenize_print s) = strip_ws s) ->
    forall (reread : T -> option T) (finite : T -> Prop),
    (forall x, finite x -> reread x = Some x) ->
    (forall s p, parse_simple U s = Ok p -> Forall finite (floats_simple p) ->
                 macro_simple U tokenize_print reread s = XValue p) /\
    (forall s p, parse_inter U s = Ok p -> Forall finite (floats_inter p) ->
                 macro_inter U tokenize_print reread s = XValue p).
Proof. exact (@Proofs.Macro.expansion_value). Qed.
Check c20_expansion_value :
  forall (T : Type) (NT : Num T) (U : UClass) (tokenize_print : str -> str),
    (forall s, strip_ws (tokenize_print s) = strip_ws s) ->
    forall (reread : T -> option T) (finite : T -> Prop),
    (forall x, finite x -> reread x = Some x) ->
    (forall s p, parse_simple U s = Ok p -> Forall finite (floats_simple p) ->
                 macro_simple U tokenize_print reread s = XValue p) /\
    (forall s p, parse_inter U s = Ok p -> Forall finite (floats_inter p) ->
                 macro_inter U tokenize_print reread s = XValue p).
Print Assumptions c20_expansion_value.

(* rejected text expands to compile_error! carrying the same error *)
Theorem c20_expansion_error :
  forall (T : Type) (NT : Num T) (U : UClass) (tokenize_print : str -> str),
    (forall s, strip_ws (tokenize_print s) = strip_ws s) ->
    forall (reread : T -> option T),
    (forall s e, @parse_simple T NT U s = Err e ->
                 macro_simple U tokenize_print reread s = XCompileError e) /\
    (forall s e, @parse_inter T NT U s = Err e ->
                 macro_inter U tokenize_print reread s = XCompileError e).
Proof. exact (@Proofs.Macro.expansion_error). Qed.
Check c20_expansion_error :
  forall (T : Type) (NT : Num T) (U : UClass) (tokenize_print : str -> str),
    (forall s, strip_ws (tokenize_print s) = strip_ws s) ->
    forall (reread : T -> option T),
    (forall s e, @parse_simple T NT U s = Err e ->
                 macro_simple U tokenize_print reread s = XCompileError e) /\
    (forall s e, @parse_inter T NT U s = Err e ->
                 macro_inter U tokenize_print reread s = XCompileError e).
Print Assumptions c20_expansion_error.

(* since repair 59b028d an accepted polynomial has only finite numbers (on every instance whose
   constants 0, 1, -1 are finite: Num has no laws) ... *)
Theorem c20_accepted_is_finite :
  forall (T : Type) (NT : Num T), @fin_consts T NT -> forall (U : UClass),
    (forall s p, parse_simple U s = Ok p -> Forall (fun x => is_finite x = true) (floats_simple p)) /\
    (forall s p, parse_inter U s = Ok p -> Forall (fun x => is_finite x = true) (floats_inter p)).
Proof. exact (fun T NT FC U => conj (@Proofs.Macro.parse_simple_finite T NT FC U) (@Proofs.Macro.parse_inter_finite T NT FC U)). Qed.
Check c20_accepted_is_finite :
  forall (T : Type) (NT : Num T), @fin_consts T NT -> forall (U : UClass),
    (forall s p, parse_simple U s = Ok p -> Forall (fun x => is_finite x = true) (floats_simple p)) /\
    (forall s p, parse_inter U s = Ok p -> Forall (fun x => is_finite x = true) (floats_inter p)).
Print Assumptions c20_accepted_is_finite.

(* ... so the value half needs no finiteness side condition: EVERY accepted text expands to the
   runtime value (R2 stated with the parsers' own finiteness test) *)
Theorem c20_expansion_value_total :
  forall (T : Type) (NT : Num T), @fin_consts T NT ->
  forall (U : UClass) (tokenize_print : str -> str) (reread : T -> option T),
    (forall s, strip_ws (tokenize_print s) = strip_ws s) ->
    (forall x, is_finite x = true -> reread x = Some x) ->
    (forall s p, parse_simple U s = Ok p -> macro_simple U tokenize_print reread s = XValue p) /\
    (forall s p, parse_inter U s = Ok p -> macro_inter U tokenize_print reread s = XValue p).
Proof. exact (@Proofs.Macro.expansion_value_total). Qed.
Check c20_expansion_value_total :
  forall (T : Type) (NT : Num T), @fin_consts T NT ->
  forall (U : UClass) (tokenize_print : str -> str) (reread : T -> option T),
    (forall s, strip_ws (tokenize_print s) = strip_ws s) ->
    (forall x, is_finite x = true -> reread x = Some x) ->
    (forall s p, parse_simple U s = Ok p -> macro_simple U tokenize_print reread s = XValue p) /\
    (forall s p, parse_inter U s = Ok p -> macro_inter U tokenize_print reread s = XValue p).
Print Assumptions c20_expansion_value_total.

(* never a silently different polynomial: an expansion that is a value is the runtime value *)
Theorem c20_never_silently_different :
  forall (T : Type) (NT : Num T) (U : UClass) (tokenize_print : str -> str),
    (forall s, strip_ws (tokenize_print s) = strip_ws s) ->
    forall (reread : T -> option T),
    (forall x y, reread x = Some y -> y = x) ->
    (forall s v, macro_simple U tokenize_print reread s = XValue v -> parse_simple U s = Ok v) /\
    (forall s v, macro_inter U tokenize_print reread s = XValue v -> parse_inter U s = Ok v).
Proof. exact (@Proofs.Macro.expansion_sound). Qed.
Check c20_never_silently_different :
  forall (T : Type) (NT : Num T) (U : UClass) (tokenize_print : str -> str),
    (forall s, strip_ws (tokenize_print s) = strip_ws s) ->
    forall (reread : T -> option T),
    (forall x y, reread x = Some y -> y = x) ->
    (forall s v, macro_simple U tokenize_print reread s = XValue v -> parse_simple U s = Ok v) /\
    (forall s v, macro_inter U tokenize_print reread s = XValue v -> parse_inter U s = Ok v).
Print Assumptions c20_never_silently_different.

(* ---- non-vacuity ------------------------------------------------------------- *)
(* R1 is satisfiable by a printer that really changes the text (a line break after every
   character), R2/R2s by the reader that refuses exactly `inf` and `NaN` *)
Example c20_hypotheses_satisfiable :
  (forall s, strip_ws (respace_lines s) = strip_ws s)
  /\ respace_lines (of_string "2x+1") <> of_string "2x+1"
  /\ (forall x, float_finite x -> float_reread x = Some x)
  /\ (forall x y, float_reread x = Some y -> y = x).
Proof.
  exact (conj respace_lines_R1 (conj respace_lines_changes (conj float_reread_R2 float_reread_R2s))).
Qed.

(* non-vacuity of c20_expansion_value_total: the executed instance (f64, the extracted Unicode
   table, `{:?}` refusing exactly inf/NaN) meets fin_consts and R2, so R1 alone remains *)
Example c20_expansion_value_float :
  forall tokenize_print : str -> str,
    (forall s, strip_ws (tokenize_print s) = strip_ws s) ->
    (forall s p, @parse_simple float FNum uclass_tab s = Ok p ->
                 macro_simple uclass_tab tokenize_print float_reread s = XValue p) /\
    (forall s p, @parse_inter float FNum uclass_tab s = Ok p ->
                 macro_inter uclass_tab tokenize_print float_reread s = XValue p).
Proof. exact Proofs.Macro.expansion_value_float. Qed.

(* concrete expansions of the float instance under that printer: a value in each grammar ... *)
Example c20_example_simple :
  macro_simple uclass_tab respace_lines float_reread (of_string "2.5x^2 - x + 0.1")
  = XValue {| s_coefs := [0x1.999999999999ap-4; -0x1p+0; 0x1.4p+1]%float; s_var := Some 120%N |}
  /\ @parse_simple float FNum uclass_tab (of_string "2.5x^2 - x + 0.1")
  = Ok {| s_coefs := [0x1.999999999999ap-4; -0x1p+0; 0x1.4p+1]%float; s_var := Some 120%N |}.
Proof. exact example_simple. Qed.

Example c20_example_inter :
  exists p, @parse_inter float FNum uclass_tab (of_string "1/3x^-2y^1/2 - 7") = Ok p
         /\ macro_inter uclass_tab respace_lines float_reread (of_string "1/3x^-2y^1/2 - 7") = XValue p
         /\ List.length (i_terms p) = 2%nat /\ i_vars p = [[120%N]; [121%N]].
Proof. exact example_inter. Qed.

(* ... and the error half *)
Example c20_example_error :
  @parse_simple float FNum uclass_tab (of_string "2x ++ 1") = Err EPolynomialSyntaxError
  /\ macro_simple uclass_tab respace_lines float_reread (of_string "2x ++ 1") = XCompileError EPolynomialSyntaxError
  /\ @parse_inter float FNum uclass_tab (of_string "x^1/0") = Err EInvalidFractionalExponent
  /\ macro_inter uclass_tab respace_lines float_reread (of_string "x^1/0") = XCompileError EInvalidFractionalExponent.
Proof. exact example_error. Qed.

(* the former gap F20a (a 310-digit coefficient parsed to +inf at run time while the macro's
   expansion named `inf`) is closed by repair 59b028d: both sides reject the text, with the same
   error; likewise an overflowing exponent and like powers whose sum overflows *)
Example c20_nonfinite_rejected :
  @parse_simple float FNum uclass_tab (digits310 ++ of_string "x") = Err EInvalidCoefficient
  /\ macro_simple uclass_tab respace_lines float_reread (digits310 ++ of_string "x") = XCompileError EInvalidCoefficient
  /\ @parse_inter float FNum uclass_tab (of_string "x^" ++ digits310) = Err EInvalidExponent
  /\ macro_inter uclass_tab respace_lines float_reread (of_string "x^" ++ digits310) = XCompileError EInvalidExponent
  /\ @parse_simple float FNum uclass_tab (of_string "2" ++ repeat 48%N 308 ++ of_string "x + 2" ++ repeat 48%N 308 ++ of_string "x")
     = Err EInvalidCoefficient.
Proof. exact nonfinite_rejected. Qed.

(* the constants hypothesis of c20_accepted_is_finite holds for the float instance *)
Example c20_fin_consts_float : @fin_consts float FNum.
Proof. exact fin_consts_float. Qed.
