(* Properties/C17.v — printed polynomials read back as the same polynomial.
   Statements only; every proof is `exact` of a lemma of Proofs/Display.v.

   Setting.  Theorems are about the R instance of the printers (Model/Display.v) composed with
   the R instance of the parsers (Model/Parse.v).  The two number formatters are parameters:
     fmt_short x   = Rust's `{}`    : only H1 (shape [-]digits[.digits]) and H2 (reads back as x)
                                      are assumed, on the set F of values the number type holds;
                                      both are CHECKED by tools/props/c17.py on every float printed;
     fmt_prec p x  = Rust's `{:.p}` : only its rounding contract [prec_spec] is assumed; the
                                      executable float_fmt_prec (compared text-for-text with Rust)
                                      meets it: c17_fmt_prec_exact.
   U is the Unicode classification; only its ASCII part is constrained (U_ascii). *)
From Coq Require Import ZArith NArith List Reals Floats Lia Lra.
From SV Require Import Base.Num Base.Outcome Base.Str Model.Poly Model.Parse Model.Display Proofs.Display.
Import ListNotations.
Local Open Scope R_scope.

(* ---- number level --------------------------------------------------------------------- *)

(* `{:.p}` of the finite binary64 (-1)^s m 2^e, as executed: sign, then the digits of an integer n
   within 1/2 of m 2^e 10^p, ties to even; the text, trimmed or not, reads back within 1/2 10^-p *)
Theorem c17_fmt_prec_exact : forall (p : nat) (s : bool) (m : positive) (e : Z),
  exists (n : Z) (y : R),
    sf_fmt_prec p (S754_finite s m e) = sign_str s ++ dec_point p n
    /\ (0 <= n)%Z
    /\ Rabs (IZR n - IZR (Zpos m) * powerRZ 2 e * 10 ^ p) <= / 2
    /\ (Rabs (IZR n - IZR (Zpos m) * powerRZ 2 e * 10 ^ p) = / 2 -> Z.even n = true)
    /\ @parse_dec R RNum (dec_point p n) = Some y
    /\ @parse_dec R RNum (trim_num (dec_point p n)) = Some y
    /\ Rabs (y - IZR (Zpos m) * powerRZ 2 e) <= / 2 * / 10 ^ p.
Proof. exact Proofs.Display.c17_fmt_prec_exact. Qed.
Check c17_fmt_prec_exact : forall (p : nat) (s : bool) (m : positive) (e : Z),
  exists (n : Z) (y : R),
    sf_fmt_prec p (S754_finite s m e) = sign_str s ++ dec_point p n
    /\ (0 <= n)%Z
    /\ Rabs (IZR n - IZR (Zpos m) * powerRZ 2 e * 10 ^ p) <= / 2
    /\ (Rabs (IZR n - IZR (Zpos m) * powerRZ 2 e * 10 ^ p) = / 2 -> Z.even n = true)
    /\ @parse_dec R RNum (dec_point p n) = Some y
    /\ @parse_dec R RNum (trim_num (dec_point p n)) = Some y
    /\ Rabs (y - IZR (Zpos m) * powerRZ 2 e) <= / 2 * / 10 ^ p.
Print Assumptions c17_fmt_prec_exact.

(* float-independent form: any integer n within 1/2 of x 10^p, printed with the point p places from
   the right and trimmed the way the Display impls trim, reads back within 1/2 10^-p of x *)
Theorem c17_precision_number : forall (p : nat) (n : Z) (x : R),
  (0 <= n)%Z -> Rabs (IZR n - x * 10 ^ p) <= / 2 ->
  exists y, @parse_dec R RNum (trim_num (dec_point p n)) = Some y
         /\ @parse_dec R RNum (dec_point p n) = Some y
         /\ Rabs (y - x) <= / 2 * / 10 ^ p.
Proof. exact Proofs.Display.fmt_prec_number_level. Qed.
Check c17_precision_number : forall (p : nat) (n : Z) (x : R),
  (0 <= n)%Z -> Rabs (IZR n - x * 10 ^ p) <= / 2 ->
  exists y, @parse_dec R RNum (trim_num (dec_point p n)) = Some y
         /\ @parse_dec R RNum (dec_point p n) = Some y
         /\ Rabs (y - x) <= / 2 * / 10 ^ p.
Print Assumptions c17_precision_number.

(* ---- SimplePolynomial, default formatting ------------------------------------------------ *)
(* under H1/H2: every coefficient reads back identically, position by position (the parsed vector
   may be shorter: trailing zero coefficients are not printed; the zero polynomial prints "0");
   the variable is recovered whenever a non-constant term was printed.  The bound on the length is
   the parser's exponent cap MAX_POWER = 65535. *)
Theorem c17_simple_default :
  forall U : UClass, (forall c : N, (c < 128)%N -> u_alphabetic U c = is_ascii_letter c) ->
  forall F : R -> Prop, (forall x, F x -> F (- x)) ->
  forall (fmt_prec : nat -> R -> str) (fmt_short : R -> str),
  (forall x, F x -> short_shape x (fmt_short x)) ->
  (forall x, F x -> @parse_dec R RNum (fmt_short x) = Some x) ->
  forall p : spoly R,
  (forall c, In c (s_coefs p) -> F c) ->
  (Z.of_nat (length (s_coefs p)) <= 65536)%Z ->
  good_var U p ->
  exists p', parse_simple U (fmt_simple fmt_prec fmt_short None p) = Ok p'
    /\ (forall k, nth k (s_coefs p') 0 = nth k (s_coefs p) 0)
    /\ ((exists k, k <> O /\ nth k (s_coefs p) 0 <> 0) ->
        s_var p' = Some (match s_var p with Some v => v | None => c_x end)).
Proof. exact Proofs.Display.c17_simple_default. Qed.
Check c17_simple_default :
  forall U : UClass, (forall c : N, (c < 128)%N -> u_alphabetic U c = is_ascii_letter c) ->
  forall F : R -> Prop, (forall x, F x -> F (- x)) ->
  forall (fmt_prec : nat -> R -> str) (fmt_short : R -> str),
  (forall x, F x -> short_shape x (fmt_short x)) ->
  (forall x, F x -> @parse_dec R RNum (fmt_short x) = Some x) ->
  forall p : spoly R,
  (forall c, In c (s_coefs p) -> F c) ->
  (Z.of_nat (length (s_coefs p)) <= 65536)%Z ->
  good_var U p ->
  exists p', parse_simple U (fmt_simple fmt_prec fmt_short None p) = Ok p'
    /\ (forall k, nth k (s_coefs p') 0 = nth k (s_coefs p) 0)
    /\ ((exists k, k <> O /\ nth k (s_coefs p) 0 <> 0) ->
        s_var p' = Some (match s_var p with Some v => v | None => c_x end)).
Print Assumptions c17_simple_default.

(* ---- SimplePolynomial, every precision (no H1/H2: only the rounding contract of `{:.p}`) ---- *)
Theorem c17_precision_simple :
  forall U : UClass, (forall c : N, (c < 128)%N -> u_alphabetic U c = is_ascii_letter c) ->
  forall F : R -> Prop, (forall x, F x -> F (- x)) ->
  forall (fmt_prec : nat -> R -> str) (fmt_short : R -> str),
  prec_spec F fmt_prec ->
  forall (prec : nat) (p : spoly R),
  (forall c, In c (s_coefs p) -> F c) ->
  (Z.of_nat (length (s_coefs p)) <= 65536)%Z ->
  good_var U p ->
  exists p', parse_simple U (fmt_simple fmt_prec fmt_short (Some prec) p) = Ok p'
    /\ (forall k, Rabs (nth k (s_coefs p') 0 - nth k (s_coefs p) 0) <= / 2 * / 10 ^ prec)
    /\ ((exists k, k <> O /\ nth k (s_coefs p) 0 <> 0) ->
        s_var p' = Some (match s_var p with Some v => v | None => c_x end)).
Proof. exact Proofs.Display.c17_precision_simple. Qed.
Check c17_precision_simple :
  forall U : UClass, (forall c : N, (c < 128)%N -> u_alphabetic U c = is_ascii_letter c) ->
  forall F : R -> Prop, (forall x, F x -> F (- x)) ->
  forall (fmt_prec : nat -> R -> str) (fmt_short : R -> str),
  prec_spec F fmt_prec ->
  forall (prec : nat) (p : spoly R),
  (forall c, In c (s_coefs p) -> F c) ->
  (Z.of_nat (length (s_coefs p)) <= 65536)%Z ->
  good_var U p ->
  exists p', parse_simple U (fmt_simple fmt_prec fmt_short (Some prec) p) = Ok p'
    /\ (forall k, Rabs (nth k (s_coefs p') 0 - nth k (s_coefs p) 0) <= / 2 * / 10 ^ prec)
    /\ ((exists k, k <> O /\ nth k (s_coefs p) 0 <> 0) ->
        s_var p' = Some (match s_var p with Some v => v | None => c_x end)).
Print Assumptions c17_precision_simple.

(* ---- LinearModel::to_polynomial_string: 5-decimal round trip through parse_simple ---------- *)
Theorem c17_model_string :
  forall U : UClass, (forall c : N, (c < 128)%N -> u_alphabetic U c = is_ascii_letter c) ->
  forall F : R -> Prop, (forall x, F x -> F (- x)) ->
  forall fmt_prec : nat -> R -> str, prec_spec F fmt_prec ->
  forall coefs : list R,
  (forall c, In c coefs -> F c) ->
  (Z.of_nat (length coefs) <= 65536)%Z ->
  exists p', parse_simple U (to_polynomial_string fmt_prec coefs) = Ok p'
    /\ (forall k, Rabs (nth k (s_coefs p') 0 - nth k coefs 0) <= / 2 * / 10 ^ 5).
Proof. exact Proofs.Display.c17_model_string. Qed.
Check c17_model_string :
  forall U : UClass, (forall c : N, (c < 128)%N -> u_alphabetic U c = is_ascii_letter c) ->
  forall F : R -> Prop, (forall x, F x -> F (- x)) ->
  forall fmt_prec : nat -> R -> str, prec_spec F fmt_prec ->
  forall coefs : list R,
  (forall c, In c coefs -> F c) ->
  (Z.of_nat (length coefs) <= 65536)%Z ->
  exists p', parse_simple U (to_polynomial_string fmt_prec coefs) = Ok p'
    /\ (forall k, Rabs (nth k (s_coefs p') 0 - nth k coefs 0) <= / 2 * / 10 ^ 5).
Print Assumptions c17_model_string.

(* ---- non-vacuity ---------------------------------------------------------------------------- *)
(* the hypotheses are jointly satisfiable: the executable Unicode table, F = the integers, printed
   exactly (int_fmt_short / int_fmt_prec of Proofs/Display.v) *)
Example c17_hypotheses_satisfiable :
  (forall c : N, (c < 128)%N -> u_alphabetic uclass_tab c = is_ascii_letter c)
  /\ (forall x, F_int x -> F_int (- x))
  /\ (forall x, F_int x -> short_shape x (int_fmt_short x))
  /\ (forall x, F_int x -> @parse_dec R RNum (int_fmt_short x) = Some x)
  /\ prec_spec F_int int_fmt_prec
  /\ F_int 2 /\ F_int (-5).
Proof.
  repeat split; try exact uclass_tab_ascii; try exact F_int_opp; try exact int_H1; try exact int_H2;
    try apply int_prec_spec; [exists 2%Z|exists (-5)%Z]; reflexivity.
Qed.

(* ... and the theorem then applies to 2x^2 - 5 (variable None prints as x) *)
Example c17_nonvacuous :
  exists p', parse_simple uclass_tab
               (fmt_simple int_fmt_prec int_fmt_short None {| s_coefs := [-5; 0; 2]; s_var := None |}) = Ok p'
    /\ nth 0 (s_coefs p') 0 = -5 /\ nth 1 (s_coefs p') 0 = 0 /\ nth 2 (s_coefs p') 0 = 2
    /\ s_var p' = Some c_x.
Proof.
  destruct (c17_simple_default uclass_tab uclass_tab_ascii F_int F_int_opp int_fmt_prec int_fmt_short
              int_H1 int_H2 {| s_coefs := [-5; 0; 2]; s_var := None |}) as [p' [P1 [P2 P3]]].
  - intros c [<-|[<-|[<-|[]]]]; [exists (-5)%Z|exists 0%Z|exists 2%Z]; reflexivity.
  - cbn. lia.
  - split; reflexivity.
  - exists p'. split; [exact P1|]. rewrite !P2. cbn [nth s_coefs]. repeat split.
    apply P3. exists 2%nat. split; [discriminate|]. cbn [nth s_coefs]. lra.
Qed.

(* the executable `{:.p}` on the classical half-way cases (bit patterns of 0.5, 2.5, 0.95 = 0.9499999...) *)
Example c17_fmt_prec_ties :
  float_fmt_prec 0 0x1p-1%float = [48]%N                      (* 0.5  -> "0"   *)
  /\ float_fmt_prec 0 0x1.4p+1%float = [50]%N                 (* 2.5  -> "2"   *)
  /\ float_fmt_prec 0 0x1.cp+1%float = [52]%N                 (* 3.5  -> "4"   *)
  /\ float_fmt_prec 1 0x1.e666666666666p-1%float = [48; 46; 57]%N   (* 0.95 -> "0.9" *)
  /\ float_fmt_prec 2 (-0)%float = [45; 48; 46; 48; 48]%N.    (* -0.0 -> "-0.00" *)
Proof. vm_compute. repeat split. Qed.
