(* Properties/C17.v — printed polynomials read back as the same polynomial.
   Statements only; every proof is `exact` of a lemma of Proofs/Display.v.

   Setting.  Theorems are about the R instance of the printers (Model/Display.v) composed with
   the R instance of the parsers (Model/Parse.v).  The two number formatters are parameters:
     fmt_short x   = Rust's `{}`    : only H1 (shape [-]digits[.digits]) and H2 (reads back as x)
                                      are assumed, on the set F of values the number type holds;
                                      both are CHECKED by tools/props/c17.py on every float printed;
     fmt_prec p x  = Rust's `{:.p}` : only its rounding contract [prec_spec] is assumed; the
                                      executable float_fmt_prec (compared text-for-text with Rust)
                                      meets it: c17_fmt_prec_exact.
   U is the Unicode classification; only its ASCII part is constrained (U_ascii / U_num).

   Vocabulary of the statements (defined in Proofs/Display.v, unfolded here for the reader):
     short_shape x s   := if x < 0 then exists b, s = "-" ++ b /\ body_ok b else body_ok s      (H1)
                          where body_ok = every character is an ASCII digit or '.'
     prec_spec F fp    := (forall p x, F x -> x < 0 -> fp p x = "-" ++ fp p (-x))
                          /\ (forall p x, F x -> 0 <= x -> exists n >= 0,
                                 |n - x 10^p| <= 1/2 /\ fp p x = dec_point p n)
                          where dec_point p n = the digits of n with the point p places from the right
     good_var U p      := the printed variable (s_var p, or 'x') is alphabetic for U and not whitespace
     wf_term F t       := F (t_coef t) /\ every variable is one ASCII letter with its exponent in F
                          /\ the variables are strictly increasing (sorted, distinct)
     close_term eps t t' := |t_coef t' - t_coef t| <= eps /\ same variable names, exponents within eps *)
From Coq Require Import ZArith NArith List Reals Floats Lia Lra.
From SV Require Import Base.Num Base.Outcome Base.Str Model.Poly Model.Parse Model.Display Proofs.Display.
Import ListNotations.
Local Open Scope R_scope.

(* ---- number level --------------------------------------------------------------------- *)

(* `{:.p}` of the finite binary64 (-1)^s m 2^e, as executed: sign, then the digits of an integer n
   within 1/2 of m 2^e 10^p, ties to even; the text, trimmed or not, reads back within 1/2 10^-p *)
Theorem c17_fmt_prec_exact : forall (p : nat) (s : bool) (m : positive) (e : Z),
  exists (n : Z) (y : R),
    sf_fmt_prec p (S754_finite s m e) = sign_str s ++ dec_point p n
    /\ (0 <= n)%Z
    /\ Rabs (IZR n - IZR (Zpos m) * powerRZ 2 e * 10 ^ p) <= / 2
    /\ (Rabs (IZR n - IZR (Zpos m) * powerRZ 2 e * 10 ^ p) = / 2 -> Z.even n = true)
    /\ @parse_dec R RNum (dec_point p n) = Some y
    /\ @parse_dec R RNum (trim_num (dec_point p n)) = Some y
    /\ Rabs (y - IZR (Zpos m) * powerRZ 2 e) <= / 2 * / 10 ^ p.
Proof. exact Proofs.Display.c17_fmt_prec_exact. Qed.
Check c17_fmt_prec_exact : forall (p : nat) (s : bool) (m : positive) (e : Z),
  exists (n : Z) (y : R),
    sf_fmt_prec p (S754_finite s m e) = sign_str s ++ dec_point p n
    /\ (0 <= n)%Z
    /\ Rabs (IZR n - IZR (Zpos m) * powerRZ 2 e * 10 ^ p) <= / 2
    /\ (Rabs (IZR n - IZR (Zpos m) * powerRZ 2 e * 10 ^ p) = / 2 -> Z.even n = true)
    /\ @parse_dec R RNum (dec_point p n) = Some y
    /\ @parse_dec R RNum (trim_num (dec_point p n)) = Some y
    /\ Rabs (y - IZR (Zpos m) * powerRZ 2 e) <= / 2 * / 10 ^ p.
Print Assumptions c17_fmt_prec_exact.

(* ... and a negative value prints as "-" followed by the text of its magnitude (-0.0 included) *)
Theorem c17_fmt_prec_sign :
  forall (p : nat) (m : positive) (e : Z),
  sf_fmt_prec p (S754_finite true m e) = c_minus :: sf_fmt_prec p (S754_finite false m e)
  /\ sf_fmt_prec p (S754_zero true) = c_minus :: sf_fmt_prec p (S754_zero false).
Proof. exact Proofs.Display.c17_fmt_prec_sign. Qed.
Check c17_fmt_prec_sign :
  forall (p : nat) (m : positive) (e : Z),
  sf_fmt_prec p (S754_finite true m e) = c_minus :: sf_fmt_prec p (S754_finite false m e)
  /\ sf_fmt_prec p (S754_zero true) = c_minus :: sf_fmt_prec p (S754_zero false).
Print Assumptions c17_fmt_prec_sign.

(* float-independent form: any integer n within 1/2 of x 10^p, printed with the point p places from
   the right and trimmed the way the Display impls trim, reads back within 1/2 10^-p of x *)
Theorem c17_precision_number : forall (p : nat) (n : Z) (x : R),
  (0 <= n)%Z -> Rabs (IZR n - x * 10 ^ p) <= / 2 ->
  exists y, @parse_dec R RNum (trim_num (dec_point p n)) = Some y
         /\ @parse_dec R RNum (dec_point p n) = Some y
         /\ Rabs (y - x) <= / 2 * / 10 ^ p.
Proof. exact Proofs.Display.fmt_prec_number_level. Qed.
Check c17_precision_number : forall (p : nat) (n : Z) (x : R),
  (0 <= n)%Z -> Rabs (IZR n - x * 10 ^ p) <= / 2 ->
  exists y, @parse_dec R RNum (trim_num (dec_point p n)) = Some y
         /\ @parse_dec R RNum (dec_point p n) = Some y
         /\ Rabs (y - x) <= / 2 * / 10 ^ p.
Print Assumptions c17_precision_number.

(* ---- SimplePolynomial, default formatting ------------------------------------------------ *)
(* under H1/H2: every coefficient reads back identically, position by position (the parsed vector
   may be shorter: trailing zero coefficients are not printed; the zero polynomial prints "0");
   the variable is recovered whenever a non-constant term was printed.  The bound on the length is
   the parser's exponent cap MAX_POWER = 65535. *)
Theorem c17_simple_default :
  forall U : UClass, (forall c : N, (c < 128)%N -> u_alphabetic U c = is_ascii_letter c) ->
  forall F : R -> Prop, (forall x, F x -> F (- x)) ->
  forall (fmt_prec : nat -> R -> str) (fmt_short : R -> str),
  (forall x, F x -> short_shape x (fmt_short x)) ->
  (forall x, F x -> @parse_dec R RNum (fmt_short x) = Some x) ->
  forall p : spoly R,
  (forall c, In c (s_coefs p) -> F c) ->
  (Z.of_nat (length (s_coefs p)) <= 65536)%Z ->
  good_var U p ->
  exists p', parse_simple U (fmt_simple fmt_prec fmt_short None p) = Ok p'
    /\ (forall k, nth k (s_coefs p') 0 = nth k (s_coefs p) 0)
    /\ ((exists k, k <> O /\ nth k (s_coefs p) 0 <> 0) ->
        s_var p' = Some (match s_var p with Some v => v | None => c_x end)).
Proof. exact Proofs.Display.c17_simple_default. Qed.
Check c17_simple_default :
  forall U : UClass, (forall c : N, (c < 128)%N -> u_alphabetic U c = is_ascii_letter c) ->
  forall F : R -> Prop, (forall x, F x -> F (- x)) ->
  forall (fmt_prec : nat -> R -> str) (fmt_short : R -> str),
  (forall x, F x -> short_shape x (fmt_short x)) ->
  (forall x, F x -> @parse_dec R RNum (fmt_short x) = Some x) ->
  forall p : spoly R,
  (forall c, In c (s_coefs p) -> F c) ->
  (Z.of_nat (length (s_coefs p)) <= 65536)%Z ->
  good_var U p ->
  exists p', parse_simple U (fmt_simple fmt_prec fmt_short None p) = Ok p'
    /\ (forall k, nth k (s_coefs p') 0 = nth k (s_coefs p) 0)
    /\ ((exists k, k <> O /\ nth k (s_coefs p) 0 <> 0) ->
        s_var p' = Some (match s_var p with Some v => v | None => c_x end)).
Print Assumptions c17_simple_default.

(* ---- SimplePolynomial, every precision (no H1/H2: only the rounding contract of `{:.p}`) ---- *)
Theorem c17_precision_simple :
  forall U : UClass, (forall c : N, (c < 128)%N -> u_alphabetic U c = is_ascii_letter c) ->
  forall F : R -> Prop, (forall x, F x -> F (- x)) ->
  forall (fmt_prec : nat -> R -> str) (fmt_short : R -> str),
  prec_spec F fmt_prec ->
  forall (prec : nat) (p : spoly R),
  (forall c, In c (s_coefs p) -> F c) ->
  (Z.of_nat (length (s_coefs p)) <= 65536)%Z ->
  good_var U p ->
  exists p', parse_simple U (fmt_simple fmt_prec fmt_short (Some prec) p) = Ok p'
    /\ (forall k, Rabs (nth k (s_coefs p') 0 - nth k (s_coefs p) 0) <= / 2 * / 10 ^ prec)
    /\ ((exists k, k <> O /\ nth k (s_coefs p) 0 <> 0) ->
        s_var p' = Some (match s_var p with Some v => v | None => c_x end)).
Proof. exact Proofs.Display.c17_precision_simple. Qed.
Check c17_precision_simple :
  forall U : UClass, (forall c : N, (c < 128)%N -> u_alphabetic U c = is_ascii_letter c) ->
  forall F : R -> Prop, (forall x, F x -> F (- x)) ->
  forall (fmt_prec : nat -> R -> str) (fmt_short : R -> str),
  prec_spec F fmt_prec ->
  forall (prec : nat) (p : spoly R),
  (forall c, In c (s_coefs p) -> F c) ->
  (Z.of_nat (length (s_coefs p)) <= 65536)%Z ->
  good_var U p ->
  exists p', parse_simple U (fmt_simple fmt_prec fmt_short (Some prec) p) = Ok p'
    /\ (forall k, Rabs (nth k (s_coefs p') 0 - nth k (s_coefs p) 0) <= / 2 * / 10 ^ prec)
    /\ ((exists k, k <> O /\ nth k (s_coefs p) 0 <> 0) ->
        s_var p' = Some (match s_var p with Some v => v | None => c_x end)).
Print Assumptions c17_precision_simple.

(* ---- LinearModel::to_polynomial_string: 5-decimal round trip through parse_simple ---------- *)
Theorem c17_model_string :
  forall U : UClass, (forall c : N, (c < 128)%N -> u_alphabetic U c = is_ascii_letter c) ->
  forall F : R -> Prop, (forall x, F x -> F (- x)) ->
  forall fmt_prec : nat -> R -> str, prec_spec F fmt_prec ->
  forall coefs : list R,
  (forall c, In c coefs -> F c) ->
  (Z.of_nat (length coefs) <= 65536)%Z ->
  exists p', parse_simple U (to_polynomial_string fmt_prec coefs) = Ok p'
    /\ (forall k, Rabs (nth k (s_coefs p') 0 - nth k coefs 0) <= / 2 * / 10 ^ 5).
Proof. exact Proofs.Display.c17_model_string. Qed.
Check c17_model_string :
  forall U : UClass, (forall c : N, (c < 128)%N -> u_alphabetic U c = is_ascii_letter c) ->
  forall F : R -> Prop, (forall x, F x -> F (- x)) ->
  forall fmt_prec : nat -> R -> str, prec_spec F fmt_prec ->
  forall coefs : list R,
  (forall c, In c coefs -> F c) ->
  (Z.of_nat (length coefs) <= 65536)%Z ->
  exists p', parse_simple U (to_polynomial_string fmt_prec coefs) = Ok p'
    /\ (forall k, Rabs (nth k (s_coefs p') 0 - nth k coefs 0) <= / 2 * / 10 ^ 5).
Print Assumptions c17_model_string.

(* ---- IntermediatePolynomial, default formatting -------------------------------------------- *)
(* well-formed terms (wf_term: numbers in F, variables = sorted distinct single ASCII letters):
   the text reads back as EXACTLY the same term list -- coefficients and integer, negative or
   fractional exponents -- with the variable list the parser derives from it *)
Theorem c17_inter_default :
  forall U : UClass, (forall c : N, (c < 128)%N -> u_numeric U c = is_ascii_digit c) ->
  forall F : R -> Prop, (forall x, F x -> F (- x)) ->
  forall (fmt_prec : nat -> R -> str) (fmt_short : R -> str),
  (forall x, F x -> short_shape x (fmt_short x)) ->
  (forall x, F x -> @parse_dec R RNum (fmt_short x) = Some x) ->
  forall p : ipoly R,
  i_terms p <> [] ->
  (forall t, In t (i_terms p) -> wf_term F t) ->
  parse_inter U (fmt_inter fmt_prec fmt_short None p)
  = Ok {| i_terms := i_terms p; i_vars := var_set (i_terms p) |}.
Proof. exact Proofs.Display.c17_inter_default. Qed.
Check c17_inter_default :
  forall U : UClass, (forall c : N, (c < 128)%N -> u_numeric U c = is_ascii_digit c) ->
  forall F : R -> Prop, (forall x, F x -> F (- x)) ->
  forall (fmt_prec : nat -> R -> str) (fmt_short : R -> str),
  (forall x, F x -> short_shape x (fmt_short x)) ->
  (forall x, F x -> @parse_dec R RNum (fmt_short x) = Some x) ->
  forall p : ipoly R,
  i_terms p <> [] ->
  (forall t, In t (i_terms p) -> wf_term F t) ->
  parse_inter U (fmt_inter fmt_prec fmt_short None p)
  = Ok {| i_terms := i_terms p; i_vars := var_set (i_terms p) |}.
Print Assumptions c17_inter_default.

(* the zero polynomial (no terms) prints "0" and reads back as the constant term 0: equal in value *)
Theorem c17_inter_zero :
  forall U : UClass, (forall c : N, (c < 128)%N -> u_numeric U c = is_ascii_digit c) ->
  forall (fmt_prec : nat -> R -> str) (fmt_short : R -> str) (p : ipoly R),
  i_terms p = [] ->
  exists c0, parse_inter U (fmt_inter fmt_prec fmt_short None p)
             = Ok {| i_terms := [ {| t_coef := c0; t_vars := [] |} ]; i_vars := [] |} /\ c0 = 0.
Proof. exact Proofs.Display.c17_inter_zero. Qed.
Check c17_inter_zero :
  forall U : UClass, (forall c : N, (c < 128)%N -> u_numeric U c = is_ascii_digit c) ->
  forall (fmt_prec : nat -> R -> str) (fmt_short : R -> str) (p : ipoly R),
  i_terms p = [] ->
  exists c0, parse_inter U (fmt_inter fmt_prec fmt_short None p)
             = Ok {| i_terms := [ {| t_coef := c0; t_vars := [] |} ]; i_vars := [] |} /\ c0 = 0.
Print Assumptions c17_inter_zero.

(* ---- a single Term (its own Display prints the signed coefficient) -------------------------- *)
Theorem c17_term :
  forall U : UClass, (forall c : N, (c < 128)%N -> u_numeric U c = is_ascii_digit c) ->
  forall (F : R -> Prop) (fmt_prec : nat -> R -> str) (fmt_short : R -> str),
  (forall x, F x -> short_shape x (fmt_short x)) ->
  (forall x, F x -> @parse_dec R RNum (fmt_short x) = Some x) ->
  forall t : term R, wf_term F t ->
  parse_inter U (fmt_term fmt_prec fmt_short t)
  = Ok {| i_terms := [t]; i_vars := var_set [t] |}.
Proof. exact Proofs.Display.c17_term. Qed.
Check c17_term :
  forall U : UClass, (forall c : N, (c < 128)%N -> u_numeric U c = is_ascii_digit c) ->
  forall (F : R -> Prop) (fmt_prec : nat -> R -> str) (fmt_short : R -> str),
  (forall x, F x -> short_shape x (fmt_short x)) ->
  (forall x, F x -> @parse_dec R RNum (fmt_short x) = Some x) ->
  forall t : term R, wf_term F t ->
  parse_inter U (fmt_term fmt_prec fmt_short t)
  = Ok {| i_terms := [t]; i_vars := var_set [t] |}.
Print Assumptions c17_term.

(* ---- IntermediatePolynomial, every precision: same terms and variables, every coefficient and
   every exponent within 1/2 10^-prec (close_term); exponent 1 is not printed and reads back as 1 *)
Theorem c17_precision_inter :
  forall U : UClass, (forall c : N, (c < 128)%N -> u_numeric U c = is_ascii_digit c) ->
  forall F : R -> Prop, (forall x, F x -> F (- x)) ->
  forall (fmt_prec : nat -> R -> str) (fmt_short : R -> str),
  prec_spec F fmt_prec ->
  forall (prec : nat) (p : ipoly R),
  i_terms p <> [] ->
  (forall t, In t (i_terms p) -> wf_term F t) ->
  exists ts', parse_inter U (fmt_inter fmt_prec fmt_short (Some prec) p)
              = Ok {| i_terms := ts'; i_vars := var_set (i_terms p) |}
           /\ Forall2 (close_term (/ 2 * / 10 ^ prec)) (i_terms p) ts'.
Proof. exact Proofs.Display.c17_precision_inter. Qed.
Check c17_precision_inter :
  forall U : UClass, (forall c : N, (c < 128)%N -> u_numeric U c = is_ascii_digit c) ->
  forall F : R -> Prop, (forall x, F x -> F (- x)) ->
  forall (fmt_prec : nat -> R -> str) (fmt_short : R -> str),
  prec_spec F fmt_prec ->
  forall (prec : nat) (p : ipoly R),
  i_terms p <> [] ->
  (forall t, In t (i_terms p) -> wf_term F t) ->
  exists ts', parse_inter U (fmt_inter fmt_prec fmt_short (Some prec) p)
              = Ok {| i_terms := ts'; i_vars := var_set (i_terms p) |}
           /\ Forall2 (close_term (/ 2 * / 10 ^ prec)) (i_terms p) ts'.
Print Assumptions c17_precision_inter.

(* ---- non-vacuity ---------------------------------------------------------------------------- *)
(* the hypotheses are jointly satisfiable: the executable Unicode table, F = the integers, printed
   exactly (int_fmt_short / int_fmt_prec of Proofs/Display.v) *)
Example c17_hypotheses_satisfiable :
  (forall c : N, (c < 128)%N -> u_alphabetic uclass_tab c = is_ascii_letter c)
  /\ (forall x, F_int x -> F_int (- x))
  /\ (forall x, F_int x -> short_shape x (int_fmt_short x))
  /\ (forall x, F_int x -> @parse_dec R RNum (int_fmt_short x) = Some x)
  /\ prec_spec F_int int_fmt_prec
  /\ F_int 2 /\ F_int (-5).
Proof.
  repeat split; try exact uclass_tab_ascii; try exact F_int_opp; try exact int_H1; try exact int_H2;
    try apply int_prec_spec; [exists 2%Z|exists (-5)%Z]; reflexivity.
Qed.

(* ... and the theorem then applies to 2x^2 - 5 (variable None prints as x) *)
Example c17_nonvacuous :
  exists p', parse_simple uclass_tab
               (fmt_simple int_fmt_prec int_fmt_short None {| s_coefs := [-5; 0; 2]; s_var := None |}) = Ok p'
    /\ nth 0 (s_coefs p') 0 = -5 /\ nth 1 (s_coefs p') 0 = 0 /\ nth 2 (s_coefs p') 0 = 2
    /\ s_var p' = Some c_x.
Proof.
  destruct (c17_simple_default uclass_tab uclass_tab_ascii F_int F_int_opp int_fmt_prec int_fmt_short
              int_H1 int_H2 {| s_coefs := [-5; 0; 2]; s_var := None |}) as [p' [P1 [P2 P3]]].
  - intros c [<-|[<-|[<-|[]]]]; [exists (-5)%Z|exists 0%Z|exists 2%Z]; reflexivity.
  - cbn. lia.
  - split; reflexivity.
  - exists p'. split; [exact P1|]. rewrite !P2. cbn [nth s_coefs]. repeat split.
    apply P3. exists 2%nat. split; [discriminate|]. cbn [nth s_coefs]. lra.
Qed.

(* the executable `{:.p}` on the classical half-way cases (bit patterns of 0.5, 2.5, 0.95 = 0.9499999...) *)
Example c17_fmt_prec_ties :
  float_fmt_prec 0 0x1p-1%float = [48]%N                      (* 0.5  -> "0"   *)
  /\ float_fmt_prec 0 0x1.4p+1%float = [50]%N                 (* 2.5  -> "2"   *)
  /\ float_fmt_prec 0 0x1.cp+1%float = [52]%N                 (* 3.5  -> "4"   *)
  /\ float_fmt_prec 1 0x1.e666666666666p-1%float = [48; 46; 57]%N   (* 0.95 -> "0.9" *)
  /\ float_fmt_prec 2 (-0)%float = [45; 48; 46; 48; 48]%N.    (* -0.0 -> "-0.00" *)
Proof. vm_compute. repeat split. Qed.

(* the multivariate theorem applies to 2x^2y^-1 - 5 *)
Example c17_inter_nonvacuous :
  let p := {| i_terms := [ {| t_coef := 2; t_vars := [([120%N], 2); ([121%N], -1)] |};
                           {| t_coef := -5; t_vars := [] |} ];
              i_vars := [[120%N]; [121%N]] |} in
  parse_inter uclass_tab (fmt_inter int_fmt_prec int_fmt_short None p)
  = Ok {| i_terms := i_terms p; i_vars := var_set (i_terms p) |}.
Proof.
  intro p.
  apply (c17_inter_default uclass_tab uclass_tab_num F_int F_int_opp int_fmt_prec int_fmt_short int_H1 int_H2 p).
  - discriminate.
  - intros t [<-|[<-|[]]]; (split; [|split]); cbn [t_coef t_vars].
    + exists 2%Z; reflexivity.
    + intros v e [E|[E|[]]]; injection E as <- <-; (split; [eexists; split; reflexivity|]);
        [exists 2%Z|exists (-1)%Z]; reflexivity.
    + split; [|split; [intros y []|exact I]].
      intros y [<-|[]]. split; reflexivity.
    + exists (-5)%Z; reflexivity.
    + intros v e [].
    + exact I.
Qed.

(* ---- FLOAT instance: a coefficient printed with `{:.p}` and read back (Proofs/DisplayFloat.v, on Proofs/DecFloat.v) ----
   The `{:.p}` text of a positive coefficient denotes a decimal m * 10^-p (m > 0; the decimal (m, -p) is taken as given:
   quantified, not connected to the printer function here).  The reader is [nofdec]; for binary64 the value read back is
   exactly round_NE(m * 10^-p) (dec2float_correct), and if the decimal is within 10^-p / 2 of a real x (the printer's
   rounding contract) and in the normal range, the re-read float is within 10^-p / 2 + 2^-53 * (m * 10^-p) of x.
   Stated for positive values: the sign is printed as '-' and applied by PrimFloat.opp, which is exact. *)
From Flocq Require Import Core BinarySingleNaN PrimFloat.
From SV Require Import Proofs.DecFloat Proofs.DisplayFloat.

Theorem c17_float_reread_fixed : forall (m : Z) (p : nat),
  (0 < m)%Z ->
  Rabs (round radix2 (FLT_exp (-1074) 53) ZnearestE (dec_val m (- Z.of_nat p))) < bpow radix2 1024 ->
  is_finite (Prim2B (@nofdec PrimFloat.float FNum m (- Z.of_nat p))) = true /\
  B2R (Prim2B (@nofdec PrimFloat.float FNum m (- Z.of_nat p)))
    = round radix2 (FLT_exp (-1074) 53) ZnearestE (dec_val m (- Z.of_nat p)) /\
  forall x : R,
    bpow radix2 (-1022) <= dec_val m (- Z.of_nat p) ->
    Rabs (x - dec_val m (- Z.of_nat p)) <= powerRZ 10 (- Z.of_nat p) / 2 ->
    Rabs (B2R (Prim2B (@nofdec PrimFloat.float FNum m (- Z.of_nat p))) - x)
      <= powerRZ 10 (- Z.of_nat p) / 2 + bpow radix2 (-53) * dec_val m (- Z.of_nat p).
Proof. exact Proofs.DisplayFloat.float_reread_fixed. Qed.
Check c17_float_reread_fixed : forall (m : Z) (p : nat),
  (0 < m)%Z ->
  Rabs (round radix2 (FLT_exp (-1074) 53) ZnearestE (dec_val m (- Z.of_nat p))) < bpow radix2 1024 ->
  is_finite (Prim2B (@nofdec PrimFloat.float FNum m (- Z.of_nat p))) = true /\
  B2R (Prim2B (@nofdec PrimFloat.float FNum m (- Z.of_nat p)))
    = round radix2 (FLT_exp (-1074) 53) ZnearestE (dec_val m (- Z.of_nat p)) /\
  forall x : R,
    bpow radix2 (-1022) <= dec_val m (- Z.of_nat p) ->
    Rabs (x - dec_val m (- Z.of_nat p)) <= powerRZ 10 (- Z.of_nat p) / 2 ->
    Rabs (B2R (Prim2B (@nofdec PrimFloat.float FNum m (- Z.of_nat p))) - x)
      <= powerRZ 10 (- Z.of_nat p) / 2 + bpow radix2 (-53) * dec_val m (- Z.of_nat p).
Print Assumptions c17_float_reread_fixed.

(* x = 0x1.999999999999ap-4 printed with {:.3} is "0.100" (m = 100, p = 3): read back, it is fl(0.1) again *)
Example c17_float_reread_tenth :
  @nofdec PrimFloat.float FNum 100 (- Z.of_nat 3) = (0x1.999999999999ap-4)%float.
Proof. exact Proofs.DisplayFloat.ex_reread_tenth. Qed.
