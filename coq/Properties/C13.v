(* Properties/C13.v — power method (tree after repair 5612f82).
   Statements only; every proof is `exact` of a lemma of Proofs/Power.v. *)
From Coq Require Import ZArith NArith List Reals Lia.
From SV Require Import Base.Num Base.Outcome Base.Mat Model.Power Proofs.Power.
Import ListNotations.

(* Totality, for EVERY arithmetic (R, float, Z): power_method never panics — the
   max().unwrap() / min().unwrap() / as_scalar_unchecked sites are safe because
   the products are n x 1 resp. 1 x 1 and non-empty —; a budget of
   MAX_ITERATIONS loop-body executions always suffices (more fuel never changes
   the answer, which is therefore never `Panic WFuel`), and an Ok answer left
   the loop with iterations < MAX_ITERATIONS; a square n x n input (n >= 1)
   gives Ok with an n x 1 vector or Err NoConvergence; rectangular non-square
   or empty input gives Err NonSquareMatrix; ragged rows give
   Err InconsistentRowLengths (from try_into). *)
Theorem c13_total : forall (T : Type) (NT : Num T) (rows : list (list T)) (es : T),
  no_panic (power_method rows es) /\
  (forall fuel, (N.to_nat MAX_ITERATIONS <= fuel)%nat ->
     power_method_fuel fuel rows es = power_method_fuel (N.to_nat MAX_ITERATIONS) rows es) /\
  (forall lam v k, power_method_fuel (N.to_nat MAX_ITERATIONS) rows es = Ok (lam, v, k) ->
     (k < MAX_ITERATIONS)%N) /\
  (forall n, (1 <= n)%nat -> rect n n rows ->
     (exists lam v, power_method rows es = Ok (lam, v) /\ shaped n 1 v)
     \/ power_method rows es = Err ENoConvergence) /\
  (forall h w, rect h w rows -> h <> w \/ h = 0%nat -> power_method rows es = Err ENonSquareMatrix) /\
  ((forall h w, ~ rect h w rows) -> power_method rows es = Err EInconsistentRowLengths).
Proof. exact (@Proofs.Power.c13_total_gen). Qed.
Check c13_total : forall (T : Type) (NT : Num T) (rows : list (list T)) (es : T),
  no_panic (power_method rows es) /\
  (forall fuel, (N.to_nat MAX_ITERATIONS <= fuel)%nat ->
     power_method_fuel fuel rows es = power_method_fuel (N.to_nat MAX_ITERATIONS) rows es) /\
  (forall lam v k, power_method_fuel (N.to_nat MAX_ITERATIONS) rows es = Ok (lam, v, k) ->
     (k < MAX_ITERATIONS)%N) /\
  (forall n, (1 <= n)%nat -> rect n n rows ->
     (exists lam v, power_method rows es = Ok (lam, v) /\ shaped n 1 v)
     \/ power_method rows es = Err ENoConvergence) /\
  (forall h w, rect h w rows -> h <> w \/ h = 0%nat -> power_method rows es = Err ENonSquareMatrix) /\
  ((forall h w, ~ rect h w rows) -> power_method rows es = Err EInconsistentRowLengths).
Print Assumptions c13_total.
