(* Properties/C13.v — power method (tree after repairs 5612f82 and 734f679).
   Statements only; every proof is `exact` of a lemma of Proofs/Power.v, Proofs/PowerStop.v or
   (float level, END of file: c13_float_normalised) Proofs/PowerFloat.v.
   Vocabulary (Proofs/Power.v): [shaped h w a] = a is an h x w array whose buffer
   has h*w entries; [rect h w rows] = h rows of length w; [rsum n f] = sum_{k<n} f k;
   [rayleigh n A v] = v^T (A v) / v^T v; [pm_state A k] (Model/Power.v) = the pair
   (eigenvalue, eigenvector) after k executions of the loop body, k = 0 being
   the state before the loop whose eigenvalue is the Rayleigh quotient of the
   first normalised vector x0 = (A 1) / scaling_component (A 1). *)
From Coq Require Import ZArith NArith List Reals Floats Lia Lra.
From SV Require Import Base.Num Base.Outcome Base.Mat Model.Power Proofs.Power.
Import ListNotations.

(* Totality, for EVERY arithmetic (R, float, Z): power_method never panics — the
   max().unwrap() / min().unwrap() / as_scalar_unchecked sites are safe because
   the products are n x 1 resp. 1 x 1 and non-empty —; a budget of
   MAX_ITERATIONS loop-body executions always suffices (more fuel never changes
   the answer, which is therefore never `Panic WFuel`), and an Ok answer left
   the loop with iterations < MAX_ITERATIONS, i.e. after at most MAX_ITERATIONS
   body executions; a square n x n input (n >= 1) gives Ok with an n x 1 vector
   or Err NoConvergence; rectangular non-square or empty input gives
   Err NonSquareMatrix; ragged rows give Err InconsistentRowLengths (try_into). *)
Theorem c13_total : forall (T : Type) (NT : Num T) (rows : list (list T)) (es : T),
  no_panic (power_method rows es) /\
  (forall fuel, (N.to_nat MAX_ITERATIONS <= fuel)%nat ->
     power_method_fuel fuel rows es = power_method_fuel (N.to_nat MAX_ITERATIONS) rows es) /\
  (forall lam v k, power_method_fuel (N.to_nat MAX_ITERATIONS) rows es = Ok (lam, v, k) ->
     (k < MAX_ITERATIONS)%N) /\
  (forall n, (1 <= n)%nat -> rect n n rows ->
     (exists lam v, power_method rows es = Ok (lam, v) /\ shaped n 1 v)
     \/ power_method rows es = Err ENoConvergence) /\
  (forall h w, rect h w rows -> h <> w \/ h = 0%nat -> power_method rows es = Err ENonSquareMatrix) /\
  ((forall h w, ~ rect h w rows) -> power_method rows es = Err EInconsistentRowLengths).
Proof. exact (@Proofs.Power.c13_total_gen). Qed.
Check c13_total : forall (T : Type) (NT : Num T) (rows : list (list T)) (es : T),
  no_panic (power_method rows es) /\
  (forall fuel, (N.to_nat MAX_ITERATIONS <= fuel)%nat ->
     power_method_fuel fuel rows es = power_method_fuel (N.to_nat MAX_ITERATIONS) rows es) /\
  (forall lam v k, power_method_fuel (N.to_nat MAX_ITERATIONS) rows es = Ok (lam, v, k) ->
     (k < MAX_ITERATIONS)%N) /\
  (forall n, (1 <= n)%nat -> rect n n rows ->
     (exists lam v, power_method rows es = Ok (lam, v) /\ shaped n 1 v)
     \/ power_method rows es = Err ENoConvergence) /\
  (forall h w, rect h w rows -> h <> w \/ h = 0%nat -> power_method rows es = Err ENonSquareMatrix) /\
  ((forall h w, ~ rect h w rows) -> power_method rows es = Err EInconsistentRowLengths).
Print Assumptions c13_total.

Local Open Scope R_scope.

(* Shape, normalisation and Rayleigh quotient (exact arithmetic).  On Ok (lam, v):
   the input is n x n, n >= 1; v is the n x 1 vector produced by the last loop
   body from the iterate x: with w = A x (the un-normalised iterate, w_i = sum_t
   A_it x_t) and s = scaling_component w — an entry of w: its maximum if that is
   positive, otherwise (no positive entry) its minimum — v_i = w_i / s.  Every
   component of v is <= 1, and some component equals 1 provided s <> 0, which is
   the case exactly when w is not the zero vector (max w > 0, or max w <= 0 and
   min w < 0).  [In R, x / 0 = 0: for w = 0 the model returns the zero vector.]
   lam is the Rayleigh quotient of v.  NOTE the largest SIGNED component is 1,
   not the largest-magnitude one (DESIGN's wording): the repaired code and its
   test expect [1, -1.414, 1].  For the executed binary64 instance the same normalisation holds
   EXACTLY (some entry is the float 1.0, every entry <= 1) when the returned entries are finite:
   c13_float_normalised at the END of this file. *)
Theorem c13_shape_norm : forall (rows : list (list R)) (es lam : R) (v : arr R),
  power_method rows es = Ok (lam, v) ->
  exists (n : nat) (A x : arr R) (prev ea : R),
    (1 <= n)%nat /\ rect n n rows /\ try_from rows = Ok A /\ ah A = n /\ aw A = n /\
    (forall i j, (i < n)%nat -> (j < n)%nat -> aget A i j = nth j (nth i rows []) 0) /\
    shaped n 1 x /\ pm_step A prev x = Ok (lam, v, ea) /\
    let w := amul A x in
    shaped n 1 w /\ shaped n 1 v /\
    (forall i, (i < n)%nat -> aget w i 0 = rsum n (fun t => aget A i t * aget x t 0)) /\
    (exists s, scaling_component w = Ok s /\
       (exists i, (i < n)%nat /\ s = aget w i 0) /\
       ((0 < s /\ forall i, (i < n)%nat -> aget w i 0 <= s) \/
        (s <= 0 /\ forall i, (i < n)%nat -> s <= aget w i 0 <= 0)) /\
       forall i, (i < n)%nat -> aget v i 0 = aget w i 0 / s) /\
    (forall i, (i < n)%nat -> aget v i 0 <= 1) /\
    ((exists i, (i < n)%nat /\ aget w i 0 <> 0) -> exists i, (i < n)%nat /\ aget v i 0 = 1) /\
    lam = rayleigh n A v.
Proof. exact Proofs.Power.c13_shape_norm_R. Qed.
Check c13_shape_norm : forall (rows : list (list R)) (es lam : R) (v : arr R),
  power_method rows es = Ok (lam, v) ->
  exists (n : nat) (A x : arr R) (prev ea : R),
    (1 <= n)%nat /\ rect n n rows /\ try_from rows = Ok A /\ ah A = n /\ aw A = n /\
    (forall i j, (i < n)%nat -> (j < n)%nat -> aget A i j = nth j (nth i rows []) 0) /\
    shaped n 1 x /\ pm_step A prev x = Ok (lam, v, ea) /\
    let w := amul A x in
    shaped n 1 w /\ shaped n 1 v /\
    (forall i, (i < n)%nat -> aget w i 0 = rsum n (fun t => aget A i t * aget x t 0)) /\
    (exists s, scaling_component w = Ok s /\
       (exists i, (i < n)%nat /\ s = aget w i 0) /\
       ((0 < s /\ forall i, (i < n)%nat -> aget w i 0 <= s) \/
        (s <= 0 /\ forall i, (i < n)%nat -> s <= aget w i 0 <= 0)) /\
       forall i, (i < n)%nat -> aget v i 0 = aget w i 0 / s) /\
    (forall i, (i < n)%nat -> aget v i 0 <= 1) /\
    ((exists i, (i < n)%nat /\ aget w i 0 <> 0) -> exists i, (i < n)%nat /\ aget v i 0 = 1) /\
    lam = rayleigh n A v.
Print Assumptions c13_shape_norm.

(* The only way to an Ok answer is the relative-change test: lam is the Rayleigh
   quotient computed by loop body number k+1 (k < MAX_ITERATIONS), prev the
   eigenvalue estimate of the state before it (for k = 0 the Rayleigh quotient of
   the first normalised vector x0, for k > 0 the previous Rayleigh quotient), and
   |lam - prev| < es |lam|.  The side condition lam <> 0 is needed in R only
   (x / 0 = 0 makes ea = 0 there; with floats ea is NaN or inf and the test fails). *)
Theorem c13_exit_means_small_change : forall (rows : list (list R)) (es lam : R) (v : arr R),
  power_method rows es = Ok (lam, v) ->
  exists (A : arr R) (k : nat) (prev : R) (x : arr R) (ea : R),
    try_from rows = Ok A /\ (N.of_nat k < MAX_ITERATIONS)%N /\
    (exists x0 s0, pm_state A 0 = Ok (rayleigh (ah A) A x0, x0) /\
       scaling_component (amul A (afull 1 (ah A) 1)) = Ok s0 /\
       forall i, (i < ah A)%nat -> aget x0 i 0 = aget (amul A (afull 1 (ah A) 1)) i 0 / s0) /\
    pm_state A k = Ok (prev, x) /\
    pm_step A prev x = Ok (lam, v, ea) /\
    ea = Rabs ((lam - prev) / lam) /\ ea < es /\
    (lam <> 0 -> Rabs (lam - prev) < es * Rabs lam).
Proof. exact Proofs.Power.c13_exit_R. Qed.
Check c13_exit_means_small_change : forall (rows : list (list R)) (es lam : R) (v : arr R),
  power_method rows es = Ok (lam, v) ->
  exists (A : arr R) (k : nat) (prev : R) (x : arr R) (ea : R),
    try_from rows = Ok A /\ (N.of_nat k < MAX_ITERATIONS)%N /\
    (exists x0 s0, pm_state A 0 = Ok (rayleigh (ah A) A x0, x0) /\
       scaling_component (amul A (afull 1 (ah A) 1)) = Ok s0 /\
       forall i, (i < ah A)%nat -> aget x0 i 0 = aget (amul A (afull 1 (ah A) 1)) i 0 / s0) /\
    pm_state A k = Ok (prev, x) /\
    pm_step A prev x = Ok (lam, v, ea) /\
    ea = Rabs ((lam - prev) / lam) /\ ea < es /\
    (lam <> 0 -> Rabs (lam - prev) < es * Rabs lam).
Print Assumptions c13_exit_means_small_change.

(* Accuracy, what is proved (exact arithmetic).  Vocabulary: [mvf n M x] = the vector M x,
   [dotf n x y] = x . y, [rqf n M x] = x.(M x) / x.x, [ypow n M k] = M^(k+1) * ones.

   (1) The returned eigenvalue is the residual-minimising scalar for the returned vector:
   sum_i ((A v)_i - lam v_i)^2 = sum_i (A v)_i^2 - lam^2 sum_i v_i^2, and no real mu gives a
   smaller residual.  (Pure algebra; holds for every A, symmetric or not.) *)
Theorem c13_rayleigh_residual : forall (rows : list (list R)) (es lam : R) (v : arr R),
  power_method rows es = Ok (lam, v) ->
  exists (n : nat) (A : arr R),
    (1 <= n)%nat /\ try_from rows = Ok A /\ ah A = n /\ aw A = n /\ shaped n 1 v /\
    let vi := fun i => aget v i 0 in
    let Av := mvf n (aget A) vi in
    lam = rayleigh n A v /\
    rsum n (fun i => (Av i - lam * vi i) ^ 2) =
      rsum n (fun i => Av i ^ 2) - lam ^ 2 * rsum n (fun i => vi i ^ 2) /\
    forall mu, rsum n (fun i => (Av i - lam * vi i) ^ 2) <= rsum n (fun i => (Av i - mu * vi i) ^ 2).
Proof. exact Proofs.Power.c13_rayleigh_residual_R. Qed.
Check c13_rayleigh_residual : forall (rows : list (list R)) (es lam : R) (v : arr R),
  power_method rows es = Ok (lam, v) ->
  exists (n : nat) (A : arr R),
    (1 <= n)%nat /\ try_from rows = Ok A /\ ah A = n /\ aw A = n /\ shaped n 1 v /\
    let vi := fun i => aget v i 0 in
    let Av := mvf n (aget A) vi in
    lam = rayleigh n A v /\
    rsum n (fun i => (Av i - lam * vi i) ^ 2) =
      rsum n (fun i => Av i ^ 2) - lam ^ 2 * rsum n (fun i => vi i ^ 2) /\
    forall mu, rsum n (fun i => (Av i - lam * vi i) ^ 2) <= rsum n (fun i => (Av i - mu * vi i) ^ 2).
Print Assumptions c13_rayleigh_residual.

(* (2) Geometric convergence of the eigenvalue estimates, under an explicit eigen-decomposition
   HYPOTHESIS (no spectral theorem): q_0 .. q_(n-1) orthonormal with A q_i = lam_i q_i, ones =
   sum_i c_i q_i with c_0 <> 0, lam_0 <> 0 and |lam_i| <= g |lam_0| for i >= 1, 0 <= g < 1
   (index 0 = dominant).  Then the model's state after k loop bodies exists (no scaling
   component is ever 0), its eigenvalue rho_k is the Rayleigh quotient of A^(k+1) * ones (the
   normalisations cancel), and  |rho_k - lam_0| c_0^2 <= 2 |lam_0| g^(2k+2) sum_(i>=1) c_i^2 :
   ratio g^2 per iteration.  (rho_0 is the estimate before the loop, rho_(k+1) the one computed
   by loop body k+1, cf. c13_exit_means_small_change.) *)
Theorem c13_rayleigh_error_bound : forall (n : nat) (A : arr R) (q : nat -> nat -> R) (lam c : nat -> R) (g : R),
  (1 <= n)%nat -> ah A = n -> aw A = n ->
  (forall i j, (i < n)%nat -> (j < n)%nat ->
     dotf n (q i) (q j) = if (i =? j)%nat then 1 else 0) ->
  (forall i s, (i < n)%nat -> (s < n)%nat -> mvf n (aget A) (q i) s = lam i * q i s) ->
  (forall t, (t < n)%nat -> 1 = rsum n (fun i => c i * q i t)) ->
  c 0%nat <> 0 -> lam 0%nat <> 0 -> 0 <= g < 1 ->
  (forall i, (1 <= i < n)%nat -> Rabs (lam i) <= g * Rabs (lam 0%nat)) ->
  forall k, exists rho x,
    pm_state A k = Ok (rho, x) /\ rho = rqf n (aget A) (ypow n (aget A) k) /\
    Rabs (rho - lam 0%nat) * c 0%nat ^ 2 <=
    2 * Rabs (lam 0%nat) * g ^ (2 * k + 2) * rsum (n - 1) (fun i => c (S i) ^ 2).
Proof. exact Proofs.Power.c13_rayleigh_error_R. Qed.
Check c13_rayleigh_error_bound : forall (n : nat) (A : arr R) (q : nat -> nat -> R) (lam c : nat -> R) (g : R),
  (1 <= n)%nat -> ah A = n -> aw A = n ->
  (forall i j, (i < n)%nat -> (j < n)%nat ->
     dotf n (q i) (q j) = if (i =? j)%nat then 1 else 0) ->
  (forall i s, (i < n)%nat -> (s < n)%nat -> mvf n (aget A) (q i) s = lam i * q i s) ->
  (forall t, (t < n)%nat -> 1 = rsum n (fun i => c i * q i t)) ->
  c 0%nat <> 0 -> lam 0%nat <> 0 -> 0 <= g < 1 ->
  (forall i, (1 <= i < n)%nat -> Rabs (lam i) <= g * Rabs (lam 0%nat)) ->
  forall k, exists rho x,
    pm_state A k = Ok (rho, x) /\ rho = rqf n (aget A) (ypow n (aget A) k) /\
    Rabs (rho - lam 0%nat) * c 0%nat ^ 2 <=
    2 * Rabs (lam 0%nat) * g ^ (2 * k + 2) * rsum (n - 1) (fun i => c (S i) ^ 2).
Print Assumptions c13_rayleigh_error_bound.

(* PARTIAL.  Full statement (NOT proved in full; decided by the oracle of tools/props/c13.py):
     for every symmetric A = Q D Q^T of size n >= 1, D = diag(l1, .., ln) with |li| <= |l1| / 2
     for i >= 2, l1 <> 0 of either sign, <1, q1> <> 0, and every tolerance 0 < tol:
     power_method A tol = Ok (lam, v)  with  ||A v - lam v|| <= C sqrt(tol) |lam| ||v||  and
     |lam - l1| <= C tol |l1|   (C = 8).
   Proved towards it: c13_rayleigh_residual (lam minimises the residual of v),
   c13_rayleigh_error_bound (under an eigen-decomposition hypothesis the k-th estimate converges to
   l1 with ratio g^2), and -- at the END of this file -- gap (a), the link between the STOPPING RULE
   and the error, INSIDE THE BASIN |lam_(k-1) - l1| <= (1 - g) |l1| / 2 (g <= 1/2 the spectral gap):
   there the error contracts by 2 g^2 <= 1/2 per iteration (c13_rayleigh_error_contracts: the basin
   is invariant, the errors decrease monotonically), hence |lam_k - lam_(k-1)| < tol |lam_k|  ==>
   |lam_k - l1| < tol |l1|, i.e. C = 1 (c13_stop_rule_accuracy; c13_stop_rule_accuracy_pm for the
   answer of power_method itself); the basin is entered at the latest at the first k with
   4 g^(2k+2) sum_(i>=2) c_i^2 <= (1 - g) c_1^2 (c13_stop_rule_accuracy_after), and if the all-ones
   start vector satisfies this for k = 0 then EVERY Ok answer is accurate
   (c13_stop_rule_accuracy_start).  Gap (b), the eigenvector residual, is proved likewise (END of
   file): every state (rho, x) of the model has rho = Rayleigh quotient of that same x and
   ||A x - rho x||^2 <= (1+g) |l1| |rho - l1| ||x||^2 (c13_residual_bound); with the stop-rule
   theorem the returned pair satisfies ||A v - lam v||^2 < (1+g) tol l1^2 ||v||^2, i.e.
   ||A v - lam v|| < sqrt(1.5 tol) |l1| ||v||, and < sqrt(6 tol) |lam| ||v|| with the returned lam
   (|l1| <= 2 |lam| in the basin): c13_residual_accuracy_pm (from the basin),
   c13_residual_accuracy_start / _start_ev (start vector inside the basin).
   What remains ORACLE-ONLY: (a') for BOTH bounds, an exit BEFORE the basin is entered: for a
   start vector almost orthogonal to the dominant eigenvector (c_1 tiny) the Rayleigh sequence lingers near another
   eigenvalue, two consecutive estimates can agree to within tol there and the algorithm stops
   early with a wrong answer; no theorem can exclude this without a quantitative lower bound on
   |c_1| in terms of tol, which is why the property's hypothesis "not orthogonal" is quantified in
   the check over random Q and the oracle measures it; (c) the existence of the
   eigen-decomposition (spectral theorem) for symmetric A; (d) rounding.
   Proved here: the case n = 1, where the answer is exact. *)
Theorem c13_accuracy_partial : forall a es : R, a <> 0 -> 0 < es ->
  power_method [[a]] es = Ok (a, mk_arr 1 1 [1]).
Proof. exact Proofs.Power.c13_accuracy_1x1_R. Qed.
Check c13_accuracy_partial : forall a es : R, a <> 0 -> 0 < es ->
  power_method [[a]] es = Ok (a, mk_arr 1 1 [1]).
Print Assumptions c13_accuracy_partial.

(* non-vacuity: the hypothesis `power_method rows es = Ok (lam, v)` of the two R theorems is met *)
Example c13_nonvacuous_R : exists lam v, power_method [[2]] (1 / 2) = Ok (lam, v).
Proof. eexists _, _. apply Proofs.Power.c13_accuracy_1x1_R; lra. Qed.

(* non-vacuity of the eigen-decomposition hypotheses of c13_rayleigh_error_bound: A = diag(2, 1),
   q_i = e_i, c = (1, 1), g = 1/2: every state exists and |rho_k - 2| <= 4 (1/2)^(2k+2) *)
Example c13_error_bound_nonvacuous : forall k, exists rho x,
  pm_state (mk_arr 2 2 [2; 0; 0; 1]) k = Ok (rho, x) /\
  Rabs (rho - 2) * 1 ^ 2 <= 2 * Rabs 2 * (1 / 2) ^ (2 * k + 2) * rsum 1 (fun _ => 1 ^ 2).
Proof. exact Proofs.Power.eigen_example. Qed.
(* ... and of c13_rayleigh_residual (an Ok answer exists, see c13_nonvacuous_R) *)
Example c13_residual_nonvacuous : exists lam v n A,
  power_method [[2]] (1 / 2) = Ok (lam, v) /\ try_from [[2]] = Ok A /\ ah A = n /\
  forall mu, rsum n (fun i => (mvf n (aget A) (fun i => aget v i 0) i - lam * aget v i 0) ^ 2)
             <= rsum n (fun i => (mvf n (aget A) (fun i => aget v i 0) i - mu * aget v i 0) ^ 2).
Proof.
  destruct c13_nonvacuous_R as [lam [v H]].
  destruct (c13_rayleigh_residual _ _ _ _ H) as [n [A [_ [Htf [HA [_ [_ [_ [_ Hmin]]]]]]]]].
  exists lam, v, n, A. repeat split; assumption.
Qed.

(* the model computes: float instance on a 2 x 2 symmetric matrix, the error branches,
   and a run to the iteration cap (zero matrix: 0/0 = NaN forever) *)
Example c13_float_ok :
  is_ok (power_method (T := float) [[2; 1]; [1; 2]]%float 0x1p-30%float) = true.
Proof. vm_compute. reflexivity. Qed.
Example c13_nonsquare : power_method (T := Z) [[1; 2]]%Z 1%Z = Err ENonSquareMatrix.
Proof. reflexivity. Qed.
Example c13_empty : power_method (T := Z) [] 1%Z = Err ENonSquareMatrix.
Proof. reflexivity. Qed.
Example c13_ragged : power_method (T := Z) [[1; 2]; [3]]%Z 1%Z = Err EInconsistentRowLengths.
Proof. reflexivity. Qed.
Example c13_cap : power_method (T := float) [[0]]%float 0x1p-30%float = Err ENoConvergence.
Proof. vm_compute. reflexivity. Qed.

(* ---- gap (a): the stopping rule and the eigenvalue error (Proofs/PowerStop.v) -------------
   Hypotheses as in c13_rayleigh_error_bound with the property's spectral gap 0 <= g <= 1/2.
   rho = eigenvalue of state k, rho' = eigenvalue of state k+1 (both exist by
   c13_rayleigh_error_bound).  BASIN: |rho - lam_0| <= (1 - g) |lam_0| / 2. *)
From SV Require Import Proofs.PowerStop.

(* (3) Contraction: inside the basin the error shrinks by the factor 2 g^2 <= 1/2, so the basin is
   invariant and from then on the errors decrease monotonically. *)
Theorem c13_rayleigh_error_contracts : forall (n : nat) (A : arr R) (q : nat -> nat -> R) (lam c : nat -> R) (g : R),
  (1 <= n)%nat -> ah A = n -> aw A = n ->
  (forall i j, (i < n)%nat -> (j < n)%nat ->
     dotf n (q i) (q j) = if (i =? j)%nat then 1 else 0) ->
  (forall i s, (i < n)%nat -> (s < n)%nat -> mvf n (aget A) (q i) s = lam i * q i s) ->
  (forall t, (t < n)%nat -> 1 = rsum n (fun i => c i * q i t)) ->
  c 0%nat <> 0 -> lam 0%nat <> 0 -> 0 <= g <= 1 / 2 ->
  (forall i, (1 <= i < n)%nat -> Rabs (lam i) <= g * Rabs (lam 0%nat)) ->
  forall k rho x rho' x',
    pm_state A k = Ok (rho, x) -> pm_state A (S k) = Ok (rho', x') ->
    Rabs (rho - lam 0%nat) <= (1 - g) * Rabs (lam 0%nat) / 2 ->
    Rabs (rho' - lam 0%nat) <= 2 * g ^ 2 * Rabs (rho - lam 0%nat) /\
    Rabs (rho' - lam 0%nat) <= Rabs (rho - lam 0%nat) /\
    Rabs (rho' - lam 0%nat) <= (1 - g) * Rabs (lam 0%nat) / 2.
Proof. exact Proofs.PowerStop.rayleigh_error_contracts. Qed.
Check c13_rayleigh_error_contracts : forall (n : nat) (A : arr R) (q : nat -> nat -> R) (lam c : nat -> R) (g : R),
  (1 <= n)%nat -> ah A = n -> aw A = n ->
  (forall i j, (i < n)%nat -> (j < n)%nat ->
     dotf n (q i) (q j) = if (i =? j)%nat then 1 else 0) ->
  (forall i s, (i < n)%nat -> (s < n)%nat -> mvf n (aget A) (q i) s = lam i * q i s) ->
  (forall t, (t < n)%nat -> 1 = rsum n (fun i => c i * q i t)) ->
  c 0%nat <> 0 -> lam 0%nat <> 0 -> 0 <= g <= 1 / 2 ->
  (forall i, (1 <= i < n)%nat -> Rabs (lam i) <= g * Rabs (lam 0%nat)) ->
  forall k rho x rho' x',
    pm_state A k = Ok (rho, x) -> pm_state A (S k) = Ok (rho', x') ->
    Rabs (rho - lam 0%nat) <= (1 - g) * Rabs (lam 0%nat) / 2 ->
    Rabs (rho' - lam 0%nat) <= 2 * g ^ 2 * Rabs (rho - lam 0%nat) /\
    Rabs (rho' - lam 0%nat) <= Rabs (rho - lam 0%nat) /\
    Rabs (rho' - lam 0%nat) <= (1 - g) * Rabs (lam 0%nat) / 2.
Print Assumptions c13_rayleigh_error_contracts.

(* (4) The stopping rule: if state k is inside the basin and loop body k+1 passes the exit test
   |rho' - rho| < tol |rho'| (cf. c13_exit_means_small_change), then |rho' - lam_0| < tol |lam_0|
   (C = 1; because the error at least halves, the step rho' - rho is at least the new error). *)
Theorem c13_stop_rule_accuracy : forall (n : nat) (A : arr R) (q : nat -> nat -> R) (lam c : nat -> R) (g : R),
  (1 <= n)%nat -> ah A = n -> aw A = n ->
  (forall i j, (i < n)%nat -> (j < n)%nat ->
     dotf n (q i) (q j) = if (i =? j)%nat then 1 else 0) ->
  (forall i s, (i < n)%nat -> (s < n)%nat -> mvf n (aget A) (q i) s = lam i * q i s) ->
  (forall t, (t < n)%nat -> 1 = rsum n (fun i => c i * q i t)) ->
  c 0%nat <> 0 -> lam 0%nat <> 0 -> 0 <= g <= 1 / 2 ->
  (forall i, (1 <= i < n)%nat -> Rabs (lam i) <= g * Rabs (lam 0%nat)) ->
  forall k rho x rho' x' tol,
    pm_state A k = Ok (rho, x) -> pm_state A (S k) = Ok (rho', x') ->
    Rabs (rho - lam 0%nat) <= (1 - g) * Rabs (lam 0%nat) / 2 ->
    Rabs (rho' - rho) < tol * Rabs rho' ->
    Rabs (rho' - lam 0%nat) < tol * Rabs (lam 0%nat).
Proof. exact Proofs.PowerStop.stop_rule_accuracy. Qed.
Check c13_stop_rule_accuracy : forall (n : nat) (A : arr R) (q : nat -> nat -> R) (lam c : nat -> R) (g : R),
  (1 <= n)%nat -> ah A = n -> aw A = n ->
  (forall i j, (i < n)%nat -> (j < n)%nat ->
     dotf n (q i) (q j) = if (i =? j)%nat then 1 else 0) ->
  (forall i s, (i < n)%nat -> (s < n)%nat -> mvf n (aget A) (q i) s = lam i * q i s) ->
  (forall t, (t < n)%nat -> 1 = rsum n (fun i => c i * q i t)) ->
  c 0%nat <> 0 -> lam 0%nat <> 0 -> 0 <= g <= 1 / 2 ->
  (forall i, (1 <= i < n)%nat -> Rabs (lam i) <= g * Rabs (lam 0%nat)) ->
  forall k rho x rho' x' tol,
    pm_state A k = Ok (rho, x) -> pm_state A (S k) = Ok (rho', x') ->
    Rabs (rho - lam 0%nat) <= (1 - g) * Rabs (lam 0%nat) / 2 ->
    Rabs (rho' - rho) < tol * Rabs rho' ->
    Rabs (rho' - lam 0%nat) < tol * Rabs (lam 0%nat).
Print Assumptions c13_stop_rule_accuracy.

(* (5) The basin condition replaced by an explicit condition on k (via c13_rayleigh_error_bound):
   4 g^(2k+2) sum_(i>=1) c_i^2 <= (1 - g) c_0^2.
   HONESTLY: the stopping rule is reliable once the iteration is inside the basin.  Before that
   -- a start vector almost orthogonal to the dominant eigenvector, c_0 tiny, so that the k of
   this condition is large -- the algorithm can pass the exit test early, near another
   eigenvalue, and no theorem can exclude it: that is why the property's hypothesis "not
   orthogonal" is quantified in the check over random Q and the oracle measures it. *)
Theorem c13_stop_rule_accuracy_after : forall (n : nat) (A : arr R) (q : nat -> nat -> R) (lam c : nat -> R) (g : R),
  (1 <= n)%nat -> ah A = n -> aw A = n ->
  (forall i j, (i < n)%nat -> (j < n)%nat ->
     dotf n (q i) (q j) = if (i =? j)%nat then 1 else 0) ->
  (forall i s, (i < n)%nat -> (s < n)%nat -> mvf n (aget A) (q i) s = lam i * q i s) ->
  (forall t, (t < n)%nat -> 1 = rsum n (fun i => c i * q i t)) ->
  c 0%nat <> 0 -> lam 0%nat <> 0 -> 0 <= g <= 1 / 2 ->
  (forall i, (1 <= i < n)%nat -> Rabs (lam i) <= g * Rabs (lam 0%nat)) ->
  forall k rho x rho' x' tol,
    pm_state A k = Ok (rho, x) -> pm_state A (S k) = Ok (rho', x') ->
    4 * g ^ (2 * k + 2) * rsum (n - 1) (fun i => c (S i) ^ 2) <= (1 - g) * c 0%nat ^ 2 ->
    Rabs (rho' - rho) < tol * Rabs rho' ->
    Rabs (rho' - lam 0%nat) < tol * Rabs (lam 0%nat).
Proof. exact Proofs.PowerStop.stop_rule_accuracy_after. Qed.
Check c13_stop_rule_accuracy_after : forall (n : nat) (A : arr R) (q : nat -> nat -> R) (lam c : nat -> R) (g : R),
  (1 <= n)%nat -> ah A = n -> aw A = n ->
  (forall i j, (i < n)%nat -> (j < n)%nat ->
     dotf n (q i) (q j) = if (i =? j)%nat then 1 else 0) ->
  (forall i s, (i < n)%nat -> (s < n)%nat -> mvf n (aget A) (q i) s = lam i * q i s) ->
  (forall t, (t < n)%nat -> 1 = rsum n (fun i => c i * q i t)) ->
  c 0%nat <> 0 -> lam 0%nat <> 0 -> 0 <= g <= 1 / 2 ->
  (forall i, (1 <= i < n)%nat -> Rabs (lam i) <= g * Rabs (lam 0%nat)) ->
  forall k rho x rho' x' tol,
    pm_state A k = Ok (rho, x) -> pm_state A (S k) = Ok (rho', x') ->
    4 * g ^ (2 * k + 2) * rsum (n - 1) (fun i => c (S i) ^ 2) <= (1 - g) * c 0%nat ^ 2 ->
    Rabs (rho' - rho) < tol * Rabs rho' ->
    Rabs (rho' - lam 0%nat) < tol * Rabs (lam 0%nat).
Print Assumptions c13_stop_rule_accuracy_after.

(* (6) The same for the answer of power_method itself (composition with
   c13_exit_means_small_change): an Ok answer (ev, v) is state k+1 of the trace for some
   k < MAX_ITERATIONS, and if the estimate prev of state k was inside the basin then
   |ev - lam_0| < es |lam_0|. *)
Theorem c13_stop_rule_accuracy_pm : forall (rows : list (list R)) (es ev : R) (v : arr R)
    (n : nat) (A : arr R) (q : nat -> nat -> R) (lam c : nat -> R) (g : R),
  power_method rows es = Ok (ev, v) -> try_from rows = Ok A ->
  (1 <= n)%nat -> ah A = n -> aw A = n ->
  (forall i j, (i < n)%nat -> (j < n)%nat ->
     dotf n (q i) (q j) = if (i =? j)%nat then 1 else 0) ->
  (forall i s, (i < n)%nat -> (s < n)%nat -> mvf n (aget A) (q i) s = lam i * q i s) ->
  (forall t, (t < n)%nat -> 1 = rsum n (fun i => c i * q i t)) ->
  c 0%nat <> 0 -> lam 0%nat <> 0 -> 0 <= g <= 1 / 2 ->
  (forall i, (1 <= i < n)%nat -> Rabs (lam i) <= g * Rabs (lam 0%nat)) ->
  exists (k : nat) (prev : R) (x : arr R),
    (N.of_nat k < MAX_ITERATIONS)%N /\
    pm_state A k = Ok (prev, x) /\ pm_state A (S k) = Ok (ev, v) /\
    (Rabs (prev - lam 0%nat) <= (1 - g) * Rabs (lam 0%nat) / 2 ->
     Rabs (ev - lam 0%nat) < es * Rabs (lam 0%nat)).
Proof. exact Proofs.PowerStop.stop_rule_accuracy_pm. Qed.
Check c13_stop_rule_accuracy_pm : forall (rows : list (list R)) (es ev : R) (v : arr R)
    (n : nat) (A : arr R) (q : nat -> nat -> R) (lam c : nat -> R) (g : R),
  power_method rows es = Ok (ev, v) -> try_from rows = Ok A ->
  (1 <= n)%nat -> ah A = n -> aw A = n ->
  (forall i j, (i < n)%nat -> (j < n)%nat ->
     dotf n (q i) (q j) = if (i =? j)%nat then 1 else 0) ->
  (forall i s, (i < n)%nat -> (s < n)%nat -> mvf n (aget A) (q i) s = lam i * q i s) ->
  (forall t, (t < n)%nat -> 1 = rsum n (fun i => c i * q i t)) ->
  c 0%nat <> 0 -> lam 0%nat <> 0 -> 0 <= g <= 1 / 2 ->
  (forall i, (1 <= i < n)%nat -> Rabs (lam i) <= g * Rabs (lam 0%nat)) ->
  exists (k : nat) (prev : R) (x : arr R),
    (N.of_nat k < MAX_ITERATIONS)%N /\
    pm_state A k = Ok (prev, x) /\ pm_state A (S k) = Ok (ev, v) /\
    (Rabs (prev - lam 0%nat) <= (1 - g) * Rabs (lam 0%nat) / 2 ->
     Rabs (ev - lam 0%nat) < es * Rabs (lam 0%nat)).
Print Assumptions c13_stop_rule_accuracy_pm.

(* (7) ... and unconditionally when the all-ones start vector already satisfies the condition of
   (5) for k = 0 (then it holds for every k, g <= 1): EVERY Ok answer is accurate. *)
Theorem c13_stop_rule_accuracy_start : forall (rows : list (list R)) (es ev : R) (v : arr R)
    (n : nat) (A : arr R) (q : nat -> nat -> R) (lam c : nat -> R) (g : R),
  power_method rows es = Ok (ev, v) -> try_from rows = Ok A ->
  (1 <= n)%nat -> ah A = n -> aw A = n ->
  (forall i j, (i < n)%nat -> (j < n)%nat ->
     dotf n (q i) (q j) = if (i =? j)%nat then 1 else 0) ->
  (forall i s, (i < n)%nat -> (s < n)%nat -> mvf n (aget A) (q i) s = lam i * q i s) ->
  (forall t, (t < n)%nat -> 1 = rsum n (fun i => c i * q i t)) ->
  c 0%nat <> 0 -> lam 0%nat <> 0 -> 0 <= g <= 1 / 2 ->
  (forall i, (1 <= i < n)%nat -> Rabs (lam i) <= g * Rabs (lam 0%nat)) ->
  4 * g ^ 2 * rsum (n - 1) (fun i => c (S i) ^ 2) <= (1 - g) * c 0%nat ^ 2 ->
  Rabs (ev - lam 0%nat) < es * Rabs (lam 0%nat).
Proof. exact Proofs.PowerStop.stop_rule_accuracy_pm_start. Qed.
Check c13_stop_rule_accuracy_start : forall (rows : list (list R)) (es ev : R) (v : arr R)
    (n : nat) (A : arr R) (q : nat -> nat -> R) (lam c : nat -> R) (g : R),
  power_method rows es = Ok (ev, v) -> try_from rows = Ok A ->
  (1 <= n)%nat -> ah A = n -> aw A = n ->
  (forall i j, (i < n)%nat -> (j < n)%nat ->
     dotf n (q i) (q j) = if (i =? j)%nat then 1 else 0) ->
  (forall i s, (i < n)%nat -> (s < n)%nat -> mvf n (aget A) (q i) s = lam i * q i s) ->
  (forall t, (t < n)%nat -> 1 = rsum n (fun i => c i * q i t)) ->
  c 0%nat <> 0 -> lam 0%nat <> 0 -> 0 <= g <= 1 / 2 ->
  (forall i, (1 <= i < n)%nat -> Rabs (lam i) <= g * Rabs (lam 0%nat)) ->
  4 * g ^ 2 * rsum (n - 1) (fun i => c (S i) ^ 2) <= (1 - g) * c 0%nat ^ 2 ->
  Rabs (ev - lam 0%nat) < es * Rabs (lam 0%nat).
Print Assumptions c13_stop_rule_accuracy_start.

(* non-vacuity of (3)-(5): A = diag(2, 1), q_i = e_i, c = (1, 1), g = 1/2 (the eigen hypotheses
   are discharged inside the proof, as for c13_error_bound_nonvacuous): states 1 and 2 exist,
   state 1 is inside the basin ((1 - g) |lam_0| / 2 = 1/2; indeed |rho_1 - 2| <= 1/4), the exit
   test holds for tol = 1, and the conclusion follows *)
Example c13_stop_rule_nonvacuous : exists rho x rho' x',
  pm_state (mk_arr 2 2 [2; 0; 0; 1]) 1 = Ok (rho, x) /\
  pm_state (mk_arr 2 2 [2; 0; 0; 1]) 2 = Ok (rho', x') /\
  Rabs (rho - 2) <= (1 - 1 / 2) * Rabs 2 / 2 /\
  Rabs (rho' - rho) < 1 * Rabs rho' /\
  Rabs (rho' - 2) < 1 * Rabs 2.
Proof. exact Proofs.PowerStop.stop_example. Qed.
(* non-vacuity of (6)-(7): the 1 x 1 matrix (2), q = ((1)), c = (1), g = 0 *)
Example c13_stop_rule_pm_nonvacuous : exists ev v, power_method [[2]] (1 / 2) = Ok (ev, v) /\
  Rabs (ev - 2) < 1 / 2 * Rabs 2.
Proof. exact Proofs.PowerStop.stop_pm_example. Qed.

(* ---- gap (b): the eigenvector residual (Proofs/PowerStop.v, Part 4) -----------------------
   Squared form, no sqrt; vocabulary of c13_rayleigh_residual (vi = aget v i 0, Av = mvf n (aget A) vi). *)

(* (8) Every state (rho, x) of the model: x is not the zero vector, rho is the Rayleigh quotient of
   that SAME vector x (state k pairs rho_k with x_k = y_k / P, y_k = A^(k+1) ones), and
   ||A x - rho x||^2 <= (1+g) |lam_0| |rho - lam_0| ||x||^2: the residual is controlled by the
   eigenvalue error of that vector's own Rayleigh quotient.  (Minimality of the Rayleigh quotient,
   then sum_i w_i (lam_i - lam_0)^2 <= (1+g) |lam_0| sum_i w_i | |lam_0| - s lam_i |.) *)
Theorem c13_residual_bound : forall (n : nat) (A : arr R) (q : nat -> nat -> R) (lam c : nat -> R) (g : R),
  (1 <= n)%nat -> ah A = n -> aw A = n ->
  (forall i j, (i < n)%nat -> (j < n)%nat ->
     dotf n (q i) (q j) = if (i =? j)%nat then 1 else 0) ->
  (forall i s, (i < n)%nat -> (s < n)%nat -> mvf n (aget A) (q i) s = lam i * q i s) ->
  (forall t, (t < n)%nat -> 1 = rsum n (fun i => c i * q i t)) ->
  c 0%nat <> 0 -> lam 0%nat <> 0 -> 0 <= g <= 1 / 2 ->
  (forall i, (1 <= i < n)%nat -> Rabs (lam i) <= g * Rabs (lam 0%nat)) ->
  forall k rho x, pm_state A k = Ok (rho, x) ->
    let xi := fun i => aget x i 0 in
    0 < rsum n (fun s => xi s ^ 2) /\
    rho = rqf n (aget A) xi /\
    rsum n (fun s => (mvf n (aget A) xi s - rho * xi s) ^ 2) <=
    (1 + g) * Rabs (lam 0%nat) * Rabs (rho - lam 0%nat) * rsum n (fun s => xi s ^ 2).
Proof. exact Proofs.PowerStop.residual_bound. Qed.
Check c13_residual_bound : forall (n : nat) (A : arr R) (q : nat -> nat -> R) (lam c : nat -> R) (g : R),
  (1 <= n)%nat -> ah A = n -> aw A = n ->
  (forall i j, (i < n)%nat -> (j < n)%nat ->
     dotf n (q i) (q j) = if (i =? j)%nat then 1 else 0) ->
  (forall i s, (i < n)%nat -> (s < n)%nat -> mvf n (aget A) (q i) s = lam i * q i s) ->
  (forall t, (t < n)%nat -> 1 = rsum n (fun i => c i * q i t)) ->
  c 0%nat <> 0 -> lam 0%nat <> 0 -> 0 <= g <= 1 / 2 ->
  (forall i, (1 <= i < n)%nat -> Rabs (lam i) <= g * Rabs (lam 0%nat)) ->
  forall k rho x, pm_state A k = Ok (rho, x) ->
    let xi := fun i => aget x i 0 in
    0 < rsum n (fun s => xi s ^ 2) /\
    rho = rqf n (aget A) xi /\
    rsum n (fun s => (mvf n (aget A) xi s - rho * xi s) ^ 2) <=
    (1 + g) * Rabs (lam 0%nat) * Rabs (rho - lam 0%nat) * rsum n (fun s => xi s ^ 2).
Print Assumptions c13_residual_bound.

(* (9) The returned pair: if the estimate before the last loop body was inside the basin, then
   ||A v - ev v||^2 < (1+g) es lam_0^2 ||v||^2, i.e. ||A v - ev v|| < sqrt(1.5 es) |lam_0| ||v||. *)
Theorem c13_residual_accuracy_pm : forall (rows : list (list R)) (es ev : R) (v : arr R)
    (n : nat) (A : arr R) (q : nat -> nat -> R) (lam c : nat -> R) (g : R),
  power_method rows es = Ok (ev, v) -> try_from rows = Ok A ->
  (1 <= n)%nat -> ah A = n -> aw A = n ->
  (forall i j, (i < n)%nat -> (j < n)%nat ->
     dotf n (q i) (q j) = if (i =? j)%nat then 1 else 0) ->
  (forall i s, (i < n)%nat -> (s < n)%nat -> mvf n (aget A) (q i) s = lam i * q i s) ->
  (forall t, (t < n)%nat -> 1 = rsum n (fun i => c i * q i t)) ->
  c 0%nat <> 0 -> lam 0%nat <> 0 -> 0 <= g <= 1 / 2 ->
  (forall i, (1 <= i < n)%nat -> Rabs (lam i) <= g * Rabs (lam 0%nat)) ->
  exists (k : nat) (prev : R) (x : arr R),
    (N.of_nat k < MAX_ITERATIONS)%N /\
    pm_state A k = Ok (prev, x) /\ pm_state A (S k) = Ok (ev, v) /\
    (Rabs (prev - lam 0%nat) <= (1 - g) * Rabs (lam 0%nat) / 2 ->
     let vi := fun i => aget v i 0 in
     let Av := mvf n (aget A) vi in
     rsum n (fun i => (Av i - ev * vi i) ^ 2) <
     (1 + g) * es * lam 0%nat ^ 2 * rsum n (fun i => vi i ^ 2)).
Proof. exact Proofs.PowerStop.residual_accuracy_pm. Qed.
Check c13_residual_accuracy_pm : forall (rows : list (list R)) (es ev : R) (v : arr R)
    (n : nat) (A : arr R) (q : nat -> nat -> R) (lam c : nat -> R) (g : R),
  power_method rows es = Ok (ev, v) -> try_from rows = Ok A ->
  (1 <= n)%nat -> ah A = n -> aw A = n ->
  (forall i j, (i < n)%nat -> (j < n)%nat ->
     dotf n (q i) (q j) = if (i =? j)%nat then 1 else 0) ->
  (forall i s, (i < n)%nat -> (s < n)%nat -> mvf n (aget A) (q i) s = lam i * q i s) ->
  (forall t, (t < n)%nat -> 1 = rsum n (fun i => c i * q i t)) ->
  c 0%nat <> 0 -> lam 0%nat <> 0 -> 0 <= g <= 1 / 2 ->
  (forall i, (1 <= i < n)%nat -> Rabs (lam i) <= g * Rabs (lam 0%nat)) ->
  exists (k : nat) (prev : R) (x : arr R),
    (N.of_nat k < MAX_ITERATIONS)%N /\
    pm_state A k = Ok (prev, x) /\ pm_state A (S k) = Ok (ev, v) /\
    (Rabs (prev - lam 0%nat) <= (1 - g) * Rabs (lam 0%nat) / 2 ->
     let vi := fun i => aget v i 0 in
     let Av := mvf n (aget A) vi in
     rsum n (fun i => (Av i - ev * vi i) ^ 2) <
     (1 + g) * es * lam 0%nat ^ 2 * rsum n (fun i => vi i ^ 2)).
Print Assumptions c13_residual_accuracy_pm.

(* (10) ... unconditionally when the all-ones start vector is inside the basin (hypotheses of
   c13_stop_rule_accuracy_start): EVERY Ok answer has a small residual. *)
Theorem c13_residual_accuracy_start : forall (rows : list (list R)) (es ev : R) (v : arr R)
    (n : nat) (A : arr R) (q : nat -> nat -> R) (lam c : nat -> R) (g : R),
  power_method rows es = Ok (ev, v) -> try_from rows = Ok A ->
  (1 <= n)%nat -> ah A = n -> aw A = n ->
  (forall i j, (i < n)%nat -> (j < n)%nat ->
     dotf n (q i) (q j) = if (i =? j)%nat then 1 else 0) ->
  (forall i s, (i < n)%nat -> (s < n)%nat -> mvf n (aget A) (q i) s = lam i * q i s) ->
  (forall t, (t < n)%nat -> 1 = rsum n (fun i => c i * q i t)) ->
  c 0%nat <> 0 -> lam 0%nat <> 0 -> 0 <= g <= 1 / 2 ->
  (forall i, (1 <= i < n)%nat -> Rabs (lam i) <= g * Rabs (lam 0%nat)) ->
  4 * g ^ 2 * rsum (n - 1) (fun i => c (S i) ^ 2) <= (1 - g) * c 0%nat ^ 2 ->
  let vi := fun i => aget v i 0 in
  let Av := mvf n (aget A) vi in
  rsum n (fun i => (Av i - ev * vi i) ^ 2) <
  (1 + g) * es * lam 0%nat ^ 2 * rsum n (fun i => vi i ^ 2).
Proof. exact Proofs.PowerStop.residual_accuracy_pm_start. Qed.
Check c13_residual_accuracy_start : forall (rows : list (list R)) (es ev : R) (v : arr R)
    (n : nat) (A : arr R) (q : nat -> nat -> R) (lam c : nat -> R) (g : R),
  power_method rows es = Ok (ev, v) -> try_from rows = Ok A ->
  (1 <= n)%nat -> ah A = n -> aw A = n ->
  (forall i j, (i < n)%nat -> (j < n)%nat ->
     dotf n (q i) (q j) = if (i =? j)%nat then 1 else 0) ->
  (forall i s, (i < n)%nat -> (s < n)%nat -> mvf n (aget A) (q i) s = lam i * q i s) ->
  (forall t, (t < n)%nat -> 1 = rsum n (fun i => c i * q i t)) ->
  c 0%nat <> 0 -> lam 0%nat <> 0 -> 0 <= g <= 1 / 2 ->
  (forall i, (1 <= i < n)%nat -> Rabs (lam i) <= g * Rabs (lam 0%nat)) ->
  4 * g ^ 2 * rsum (n - 1) (fun i => c (S i) ^ 2) <= (1 - g) * c 0%nat ^ 2 ->
  let vi := fun i => aget v i 0 in
  let Av := mvf n (aget A) vi in
  rsum n (fun i => (Av i - ev * vi i) ^ 2) <
  (1 + g) * es * lam 0%nat ^ 2 * rsum n (fun i => vi i ^ 2).
Print Assumptions c13_residual_accuracy_start.

(* (11) ... and with the RETURNED eigenvalue on the right (the property's form, |lam_0| <= 2 |ev|):
   ||A v - ev v|| < sqrt(6 es) |ev| ||v||. *)
Theorem c13_residual_accuracy_start_ev : forall (rows : list (list R)) (es ev : R) (v : arr R)
    (n : nat) (A : arr R) (q : nat -> nat -> R) (lam c : nat -> R) (g : R),
  power_method rows es = Ok (ev, v) -> try_from rows = Ok A ->
  (1 <= n)%nat -> ah A = n -> aw A = n ->
  (forall i j, (i < n)%nat -> (j < n)%nat ->
     dotf n (q i) (q j) = if (i =? j)%nat then 1 else 0) ->
  (forall i s, (i < n)%nat -> (s < n)%nat -> mvf n (aget A) (q i) s = lam i * q i s) ->
  (forall t, (t < n)%nat -> 1 = rsum n (fun i => c i * q i t)) ->
  c 0%nat <> 0 -> lam 0%nat <> 0 -> 0 <= g <= 1 / 2 ->
  (forall i, (1 <= i < n)%nat -> Rabs (lam i) <= g * Rabs (lam 0%nat)) ->
  4 * g ^ 2 * rsum (n - 1) (fun i => c (S i) ^ 2) <= (1 - g) * c 0%nat ^ 2 ->
  let vi := fun i => aget v i 0 in
  let Av := mvf n (aget A) vi in
  rsum n (fun i => (Av i - ev * vi i) ^ 2) <
  4 * (1 + g) * es * ev ^ 2 * rsum n (fun i => vi i ^ 2).
Proof. exact Proofs.PowerStop.residual_accuracy_pm_start_ev. Qed.
Check c13_residual_accuracy_start_ev : forall (rows : list (list R)) (es ev : R) (v : arr R)
    (n : nat) (A : arr R) (q : nat -> nat -> R) (lam c : nat -> R) (g : R),
  power_method rows es = Ok (ev, v) -> try_from rows = Ok A ->
  (1 <= n)%nat -> ah A = n -> aw A = n ->
  (forall i j, (i < n)%nat -> (j < n)%nat ->
     dotf n (q i) (q j) = if (i =? j)%nat then 1 else 0) ->
  (forall i s, (i < n)%nat -> (s < n)%nat -> mvf n (aget A) (q i) s = lam i * q i s) ->
  (forall t, (t < n)%nat -> 1 = rsum n (fun i => c i * q i t)) ->
  c 0%nat <> 0 -> lam 0%nat <> 0 -> 0 <= g <= 1 / 2 ->
  (forall i, (1 <= i < n)%nat -> Rabs (lam i) <= g * Rabs (lam 0%nat)) ->
  4 * g ^ 2 * rsum (n - 1) (fun i => c (S i) ^ 2) <= (1 - g) * c 0%nat ^ 2 ->
  let vi := fun i => aget v i 0 in
  let Av := mvf n (aget A) vi in
  rsum n (fun i => (Av i - ev * vi i) ^ 2) <
  4 * (1 + g) * es * ev ^ 2 * rsum n (fun i => vi i ^ 2).
Print Assumptions c13_residual_accuracy_start_ev.

(* non-vacuity of (8): state 1 of diag(2, 1) (q_i = e_i, c = (1, 1), g = 1/2) *)
Example c13_residual_bound_nonvacuous : exists rho x,
  pm_state (mk_arr 2 2 [2; 0; 0; 1]) 1 = Ok (rho, x) /\
  0 < rsum 2 (fun s => aget x s 0 ^ 2) /\
  rsum 2 (fun s => (mvf 2 (aget (mk_arr 2 2 [2; 0; 0; 1])) (fun i => aget x i 0) s - rho * aget x s 0) ^ 2) <=
  (1 + 1 / 2) * Rabs 2 * Rabs (rho - 2) * rsum 2 (fun s => aget x s 0 ^ 2).
Proof. exact Proofs.PowerStop.residual_example. Qed.
(* non-vacuity of (9)-(11): the 1 x 1 matrix (2), g = 0 *)
Example c13_residual_pm_nonvacuous : exists ev v, power_method [[2]] (1 / 2) = Ok (ev, v) /\
  rsum 1 (fun i => (mvf 1 (aget (mk_arr 1 1 [2])) (fun i => aget v i 0) i - ev * aget v i 0) ^ 2) <
  (1 + 0) * (1 / 2) * 2 ^ 2 * rsum 1 (fun i => aget v i 0 ^ 2).
Proof. exact Proofs.PowerStop.residual_pm_example. Qed.

(* ---- the executed binary64 instance: the normalisation is EXACT (Proofs/PowerFloat.v) ------
   For [FNum] (IEEE binary64, round to nearest even; Flocq's reading [Prim2B]): on Ok (lam, v) the
   input is n x n, n >= 1, v is n x 1, and IF every entry of the returned v is finite (no NaN, no
   infinity) THEN some entry of v is exactly the float 1.0 and every entry is <= 1 as a real number:
   "largest component 1" holds exactly, not up to rounding.  The hypothesis is on the returned
   vector only; it implies that the scaling component s of the last loop body (an entry y_k of the
   un-normalised vector y = A x, whatever the comparisons do on NaN) is finite and non-zero
   (v_k = fl(s / s) is NaN for s = 0, inf, NaN) and that every y_i is finite (v_i = fl(y_i / s)), so
   the max/min folds compute the real maximum/minimum, fl(s / s) = 1.0, and fl(y_i / s) <= 1 because
   y_i / s <= 1 (s = max > 0, or max <= 0 and s = min < 0), rounding is monotone and 1 is a float.
   Without the hypothesis nothing is claimed: y = 0 gives v = NaN everywhere (and then the exit test
   fails, cf. c13_cap), an overflow in A x gives NaN/inf entries.  The largest SIGNED component is 1
   (see c13_shape_norm), and nothing is said here about lam or about lower bounds on the entries. *)
From Flocq Require Import Core BinarySingleNaN PrimFloat.
From SV Require Import Proofs.PowerFloat.

Theorem c13_float_normalised :
  forall (rows : list (list PrimFloat.float)) (es lam : PrimFloat.float) (v : arr PrimFloat.float),
  @power_method PrimFloat.float FNum rows es = Ok (lam, v) ->
  exists n : nat, (1 <= n)%nat /\ rect n n rows /\ shaped n 1 v /\
    ((forall i, (i < n)%nat -> is_finite (Prim2B (aget v i 0)) = true) ->
     (exists i, (i < n)%nat /\ aget v i 0 = PrimFloat.one) /\
     (forall i, (i < n)%nat -> B2R (Prim2B (aget v i 0)) <= 1)).
Proof. exact Proofs.PowerFloat.power_method_float_normalised. Qed.
Check c13_float_normalised :
  forall (rows : list (list PrimFloat.float)) (es lam : PrimFloat.float) (v : arr PrimFloat.float),
  @power_method PrimFloat.float FNum rows es = Ok (lam, v) ->
  exists n : nat, (1 <= n)%nat /\ rect n n rows /\ shaped n 1 v /\
    ((forall i, (i < n)%nat -> is_finite (Prim2B (aget v i 0)) = true) ->
     (exists i, (i < n)%nat /\ aget v i 0 = PrimFloat.one) /\
     (forall i, (i < n)%nat -> B2R (Prim2B (aget v i 0)) <= 1)).
Print Assumptions c13_float_normalised.

(* non-vacuity, computed: [[2, 1], [1, 3]] with tolerance 1e-6 (0x1.0c6f7a0b5ed8dp-20) returns Ok, both
   entries of the returned vector are finite (hypothesis), and -- by running the model, independently
   of the theorem -- entry 1 is the float 1.0 *)
Example c13_float_normalised_nonvacuous : exists lam v,
  @power_method PrimFloat.float FNum [[2; 1]; [1; 3]]%float 0x1.0c6f7a0b5ed8dp-20%float = Ok (lam, v) /\
  shaped 2 1 v /\
  (forall i, (i < 2)%nat -> is_finite (Prim2B (aget v i 0)) = true) /\
  aget v 1 0 = PrimFloat.one.
Proof.
  eexists _, _. split; [vm_compute; reflexivity|].
  split; [repeat split|].
  split; [|vm_compute; reflexivity].
  intros i Hi. destruct i as [|[|i]]; [| |lia]; rewrite <- is_finite_equiv; vm_compute; reflexivity.
Qed.
