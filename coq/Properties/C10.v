(* Properties/C10.v — Arr2D::inverse.  Statements only; every proof is `exact` of a lemma
   of Proofs/Inverse.v.  All statements are about the R instance of [inverse]
   (Model/Inverse.v: PLU, then per column forward and back substitution), the function
   that is extracted and run against the Rust code; rounding is measured by the oracle.
   Vocabulary (Proofs/LU.v): [mprod n A B i j] = sum_t A i t * B t j;
   [left_null n A w]: w is a non-zero vector with w^T A = 0 (A is singular);
   [right_null n A x]: x is a non-zero vector with A x = 0. *)
From Coq Require Import ZArith List Arith Reals Lia.
From SV Require Import Base.Num Base.Outcome Base.Mat Model.LU Model.Inverse Proofs.LU Proofs.PLU Proofs.Inverse.
Import ListNotations.
Local Open Scope R_scope.

(* a returned B is a two-sided inverse: A B = I and B A = I *)
Theorem c10_right_left : forall (n : nat) (A B : mat R), inverse n n A = Ok B ->
  forall i j, (i < n)%nat -> (j < n)%nat ->
    mprod n A B i j = (if (i =? j)%nat then 1 else 0) /\ mprod n B A i j = (if (i =? j)%nat then 1 else 0).
Proof. exact Proofs.Inverse.c10_right_left. Qed.
Check c10_right_left : forall (n : nat) (A B : mat R), inverse n n A = Ok B ->
  forall i j, (i < n)%nat -> (j < n)%nat ->
    mprod n A B i j = (if (i =? j)%nat then 1 else 0) /\ mprod n B A i j = (if (i =? j)%nat then 1 else 0).
Print Assumptions c10_right_left.

(* non-square -> NonSquareMatrix; singular -> SingularMatrix; a square input gives SingularMatrix
   or a matrix, never a panic; the empty matrix is inverted (to the empty matrix) *)
Theorem c10_errors :
  (forall (h w : nat) (A : mat R), h <> w -> inverse h w A = Err ENonSquareMatrix) /\
  (forall (n : nat) (A : mat R) (w : nat -> R), left_null n A w -> inverse n n A = Err ESingularMatrix) /\
  (forall (n : nat) (A : mat R) (x : nat -> R), right_null n A x -> inverse n n A = Err ESingularMatrix) /\
  (forall (n : nat) (A : mat R), inverse n n A = Err ESingularMatrix \/ exists B, inverse n n A = Ok B) /\
  (forall A : mat R, exists B, inverse 0 0 A = Ok B).
Proof. exact Proofs.Inverse.c10_errors. Qed.
Check c10_errors :
  (forall (h w : nat) (A : mat R), h <> w -> inverse h w A = Err ENonSquareMatrix) /\
  (forall (n : nat) (A : mat R) (w : nat -> R), left_null n A w -> inverse n n A = Err ESingularMatrix) /\
  (forall (n : nat) (A : mat R) (x : nat -> R), right_null n A x -> inverse n n A = Err ESingularMatrix) /\
  (forall (n : nat) (A : mat R), inverse n n A = Err ESingularMatrix \/ exists B, inverse n n A = Ok B) /\
  (forall A : mat R, exists B, inverse 0 0 A = Ok B).
Print Assumptions c10_errors.

(* PARTIAL.  Full statement of DESIGN (c10_involutive):
     inverse n n A = Ok B -> exists A', inverse n n B = Ok A' /\ forall i j < n, A' i j = A i j.
   It is FALSE for the model even in exact arithmetic, also after the repair d0c7441: the pivot
   test |pivot| <= EPSILON * n * max|entry| is relative to the largest entry, and the inverse of an
   accepted matrix can have a pivot below its own threshold (counterexample below: A = [[0,1],[1,2^30]],
   B = [[-2^30,1],[1,0]] with pivots 2^30 and 2^-30 against the threshold 2^-21).
   Proved: whenever the second inversion succeeds it returns A. *)
Theorem c10_involutive_partial : forall (n : nat) (A B A' : mat R),
  inverse n n A = Ok B -> inverse n n B = Ok A' ->
  forall i j, (i < n)%nat -> (j < n)%nat -> A' i j = A i j.
Proof. exact Proofs.Inverse.c10_involutive_partial. Qed.
Check c10_involutive_partial : forall (n : nat) (A B A' : mat R),
  inverse n n A = Ok B -> inverse n n B = Ok A' ->
  forall i j, (i < n)%nat -> (j < n)%nat -> A' i j = A i j.
Print Assumptions c10_involutive_partial.

(* ... and the full statement does fail: a matrix whose inverse is returned but cannot be inverted back *)
Theorem c10_involutive_counterexample :
  exists A B : mat R, inverse 2 2 A = Ok B /\ inverse 2 2 B = Err ESingularMatrix.
Proof. exact Proofs.Inverse.c10_involutive_counterexample. Qed.
Check c10_involutive_counterexample :
  exists A B : mat R, inverse 2 2 A = Ok B /\ inverse 2 2 B = Err ESingularMatrix.
Print Assumptions c10_involutive_counterexample.

From SV Require Import Proofs.InverseAlg.
(* the returned matrix is THE inverse: any right inverse or left inverse of A coincides with it *)
Theorem c10_unique : forall (n : nat) (A B C : mat R), inverse n n A = Ok B ->
  ((forall i j, (i < n)%nat -> (j < n)%nat -> mprod n A C i j = (if (i =? j)%nat then 1 else 0)) \/
   (forall i j, (i < n)%nat -> (j < n)%nat -> mprod n C A i j = (if (i =? j)%nat then 1 else 0))) ->
  forall i j, (i < n)%nat -> (j < n)%nat -> C i j = B i j.
Proof. exact Proofs.InverseAlg.c10_unique. Qed.
Check c10_unique : forall (n : nat) (A B C : mat R), inverse n n A = Ok B ->
  ((forall i j, (i < n)%nat -> (j < n)%nat -> mprod n A C i j = (if (i =? j)%nat then 1 else 0)) \/
   (forall i j, (i < n)%nat -> (j < n)%nat -> mprod n C A i j = (if (i =? j)%nat then 1 else 0))) ->
  forall i j, (i < n)%nat -> (j < n)%nat -> C i j = B i j.
Print Assumptions c10_unique.

(* what a caller does with it ([mvec n M x] = M x, Proofs/InverseAlg.v): B b solves A x = b, it is the
   only solution, and an inverted matrix has a trivial kernel (it is non-singular in the usual sense) *)
Theorem c10_solves : forall (n : nat) (A B : mat R) (b : nat -> R), inverse n n A = Ok B ->
  (forall i, (i < n)%nat -> mvec n A (mvec n B b) i = b i) /\
  (forall x, (forall i, (i < n)%nat -> mvec n A x i = b i) ->
             forall i, (i < n)%nat -> x i = mvec n B b i) /\
  (forall x, (forall i, (i < n)%nat -> mvec n A x i = 0) -> forall i, (i < n)%nat -> x i = 0).
Proof. exact Proofs.InverseAlg.c10_solves. Qed.
Check c10_solves : forall (n : nat) (A B : mat R) (b : nat -> R), inverse n n A = Ok B ->
  (forall i, (i < n)%nat -> mvec n A (mvec n B b) i = b i) /\
  (forall x, (forall i, (i < n)%nat -> mvec n A x i = b i) ->
             forall i, (i < n)%nat -> x i = mvec n B b i) /\
  (forall x, (forall i, (i < n)%nat -> mvec n A x i = 0) -> forall i, (i < n)%nat -> x i = 0).
Print Assumptions c10_solves.

(* the inverse of a product is the reversed product of the inverses, whenever the three inversions succeed *)
Theorem c10_product : forall (n : nat) (A1 A2 B1 B2 C : mat R),
  inverse n n A1 = Ok B1 -> inverse n n A2 = Ok B2 -> inverse n n (mprod n A1 A2) = Ok C ->
  forall i j, (i < n)%nat -> (j < n)%nat -> C i j = mprod n B2 B1 i j.
Proof. exact Proofs.InverseAlg.c10_product. Qed.
Check c10_product : forall (n : nat) (A1 A2 B1 B2 C : mat R),
  inverse n n A1 = Ok B1 -> inverse n n A2 = Ok B2 -> inverse n n (mprod n A1 A2) = Ok C ->
  forall i j, (i < n)%nat -> (j < n)%nat -> C i j = mprod n B2 B1 i j.
Print Assumptions c10_product.

(* non-vacuity: [[0,1],[1,0]], whose factorisation needs a row interchange, is inverted *)
Example c10_nonvacuous : exists B, inverse 2 2 ex_swap = Ok B.
Proof. exact Proofs.Inverse.ex_inverse_ok. Qed.
