(* Properties/C10.v — Arr2D::inverse.  Statements only; every proof is `exact` of a lemma
   of Proofs/Inverse.v.  All statements are about the R instance of [inverse]
   (Model/Inverse.v: PLU, then per column forward and back substitution), the function
   that is extracted and run against the Rust code; rounding is measured by the oracle, and for the
   binary64 instance an END-TO-END componentwise residual bound of every returned column is PROVED
   at the end of this file (c10_inverse_float_residual, Proofs/SolveFloat.v).
   Vocabulary (Proofs/LU.v): [mprod n A B i j] = sum_t A i t * B t j;
   [left_null n A w]: w is a non-zero vector with w^T A = 0 (A is singular);
   [right_null n A x]: x is a non-zero vector with A x = 0. *)
From Coq Require Import ZArith List Arith Reals Lia.
From SV Require Import Base.Num Base.Outcome Base.Mat Model.LU Model.Inverse Proofs.LU Proofs.PLU Proofs.Inverse.
Import ListNotations.
Local Open Scope R_scope.

(* a returned B is a two-sided inverse: A B = I and B A = I *)
Theorem c10_right_left : forall (n : nat) (A B : mat R), inverse n n A = Ok B ->
  forall i j, (i < n)%nat -> (j < n)%nat ->
    mprod n A B i j = (if (i =? j)%nat then 1 else 0) /\ mprod n B A i j = (if (i =? j)%nat then 1 else 0).
Proof. exact Proofs.Inverse.c10_right_left. Qed.
Check c10_right_left : forall (n : nat) (A B : mat R), inverse n n A = Ok B ->
  forall i j, (i < n)%nat -> (j < n)%nat ->
    mprod n A B i j = (if (i =? j)%nat then 1 else 0) /\ mprod n B A i j = (if (i =? j)%nat then 1 else 0).
Print Assumptions c10_right_left.

(* non-square -> NonSquareMatrix; singular -> SingularMatrix; a square input gives SingularMatrix
   or a matrix, never a panic; the empty matrix is inverted (to the empty matrix) *)
Theorem c10_errors :
  (forall (h w : nat) (A : mat R), h <> w -> inverse h w A = Err ENonSquareMatrix) /\
  (forall (n : nat) (A : mat R) (w : nat -> R), left_null n A w -> inverse n n A = Err ESingularMatrix) /\
  (forall (n : nat) (A : mat R) (x : nat -> R), right_null n A x -> inverse n n A = Err ESingularMatrix) /\
  (forall (n : nat) (A : mat R), inverse n n A = Err ESingularMatrix \/ exists B, inverse n n A = Ok B) /\
  (forall A : mat R, exists B, inverse 0 0 A = Ok B).
Proof. exact Proofs.Inverse.c10_errors. Qed.
Check c10_errors :
  (forall (h w : nat) (A : mat R), h <> w -> inverse h w A = Err ENonSquareMatrix) /\
  (forall (n : nat) (A : mat R) (w : nat -> R), left_null n A w -> inverse n n A = Err ESingularMatrix) /\
  (forall (n : nat) (A : mat R) (x : nat -> R), right_null n A x -> inverse n n A = Err ESingularMatrix) /\
  (forall (n : nat) (A : mat R), inverse n n A = Err ESingularMatrix \/ exists B, inverse n n A = Ok B) /\
  (forall A : mat R, exists B, inverse 0 0 A = Ok B).
Print Assumptions c10_errors.

(* PARTIAL.  Full statement of DESIGN (c10_involutive):
     inverse n n A = Ok B -> exists A', inverse n n B = Ok A' /\ forall i j < n, A' i j = A i j.
   It is FALSE for the model even in exact arithmetic, also after the repair d0c7441: the pivot
   test |pivot| <= EPSILON * n * max|entry| is relative to the largest entry, and the inverse of an
   accepted matrix can have a pivot below its own threshold (counterexample below: A = [[0,1],[1,2^30]],
   B = [[-2^30,1],[1,0]] with pivots 2^30 and 2^-30 against the threshold 2^-21).
   Proved: whenever the second inversion succeeds it returns A. *)
Theorem c10_involutive_partial : forall (n : nat) (A B A' : mat R),
  inverse n n A = Ok B -> inverse n n B = Ok A' ->
  forall i j, (i < n)%nat -> (j < n)%nat -> A' i j = A i j.
Proof. exact Proofs.Inverse.c10_involutive_partial. Qed.
Check c10_involutive_partial : forall (n : nat) (A B A' : mat R),
  inverse n n A = Ok B -> inverse n n B = Ok A' ->
  forall i j, (i < n)%nat -> (j < n)%nat -> A' i j = A i j.
Print Assumptions c10_involutive_partial.

(* ... and the full statement does fail: a matrix whose inverse is returned but cannot be inverted back *)
Theorem c10_involutive_counterexample :
  exists A B : mat R, inverse 2 2 A = Ok B /\ inverse 2 2 B = Err ESingularMatrix.
Proof. exact Proofs.Inverse.c10_involutive_counterexample. Qed.
Check c10_involutive_counterexample :
  exists A B : mat R, inverse 2 2 A = Ok B /\ inverse 2 2 B = Err ESingularMatrix.
Print Assumptions c10_involutive_counterexample.

From SV Require Import Proofs.InverseAlg.
(* the returned matrix is THE inverse: any right inverse or left inverse of A coincides with it *)
Theorem c10_unique : forall (n : nat) (A B C : mat R), inverse n n A = Ok B ->
  ((forall i j, (i < n)%nat -> (j < n)%nat -> mprod n A C i j = (if (i =? j)%nat then 1 else 0)) \/
   (forall i j, (i < n)%nat -> (j < n)%nat -> mprod n C A i j = (if (i =? j)%nat then 1 else 0))) ->
  forall i j, (i < n)%nat -> (j < n)%nat -> C i j = B i j.
Proof. exact Proofs.InverseAlg.c10_unique. Qed.
Check c10_unique : forall (n : nat) (A B C : mat R), inverse n n A = Ok B ->
  ((forall i j, (i < n)%nat -> (j < n)%nat -> mprod n A C i j = (if (i =? j)%nat then 1 else 0)) \/
   (forall i j, (i < n)%nat -> (j < n)%nat -> mprod n C A i j = (if (i =? j)%nat then 1 else 0))) ->
  forall i j, (i < n)%nat -> (j < n)%nat -> C i j = B i j.
Print Assumptions c10_unique.

(* what a caller does with it ([mvec n M x] = M x, Proofs/InverseAlg.v): B b solves A x = b, it is the
   only solution, and an inverted matrix has a trivial kernel (it is non-singular in the usual sense) *)
Theorem c10_solves : forall (n : nat) (A B : mat R) (b : nat -> R), inverse n n A = Ok B ->
  (forall i, (i < n)%nat -> mvec n A (mvec n B b) i = b i) /\
  (forall x, (forall i, (i < n)%nat -> mvec n A x i = b i) ->
             forall i, (i < n)%nat -> x i = mvec n B b i) /\
  (forall x, (forall i, (i < n)%nat -> mvec n A x i = 0) -> forall i, (i < n)%nat -> x i = 0).
Proof. exact Proofs.InverseAlg.c10_solves. Qed.
Check c10_solves : forall (n : nat) (A B : mat R) (b : nat -> R), inverse n n A = Ok B ->
  (forall i, (i < n)%nat -> mvec n A (mvec n B b) i = b i) /\
  (forall x, (forall i, (i < n)%nat -> mvec n A x i = b i) ->
             forall i, (i < n)%nat -> x i = mvec n B b i) /\
  (forall x, (forall i, (i < n)%nat -> mvec n A x i = 0) -> forall i, (i < n)%nat -> x i = 0).
Print Assumptions c10_solves.

(* the inverse of a product is the reversed product of the inverses, whenever the three inversions succeed *)
Theorem c10_product : forall (n : nat) (A1 A2 B1 B2 C : mat R),
  inverse n n A1 = Ok B1 -> inverse n n A2 = Ok B2 -> inverse n n (mprod n A1 A2) = Ok C ->
  forall i j, (i < n)%nat -> (j < n)%nat -> C i j = mprod n B2 B1 i j.
Proof. exact Proofs.InverseAlg.c10_product. Qed.
Check c10_product : forall (n : nat) (A1 A2 B1 B2 C : mat R),
  inverse n n A1 = Ok B1 -> inverse n n A2 = Ok B2 -> inverse n n (mprod n A1 A2) = Ok C ->
  forall i j, (i < n)%nat -> (j < n)%nat -> C i j = mprod n B2 B1 i j.
Print Assumptions c10_product.

(* non-vacuity: [[0,1],[1,0]], whose factorisation needs a row interchange, is inverted *)
Example c10_nonvacuous : exists B, inverse 2 2 ex_swap = Ok B.
Proof. exact Proofs.Inverse.ex_inverse_ok. Qed.

(* ---------------------------------------------------------------------------------------------
   FLOAT instance (binary64 [@inverse float FNum], the function that is extracted and run against
   Arr2D::inverse): END-TO-END componentwise residual of every column of the returned matrix
   (Proofs/SolveFloat.v, composed from c09_plu_float_backward_error, c08_forward_substitution_float_error,
   c08_back_substitution_float_error and the real lemma c08_lu_solve_residual).
   L, U, P are the factors of [plu n n A] (the very call made inside [inverse]); s is the row permutation
   encoded by P (P i j = [j = s i]).  Intermediate vectors of column j, as the model computes them:
   [inv_rhs n P j] = column j of P (the permuted unit vector), [inv_y n L P j] = the forward-substitution
   result, [inv_x n L U P j] = the back-substitution result (= column j of the returned matrix).
   Hypotheses, all on returned/intermediate values and checkable by computation: [plu_entry_ok]
   (factorisation, Proofs/PLUFloat.v), [fwd_row_ok] / [back_row_ok] (substitutions, Proofs/SubstFloat.v).
   --------------------------------------------------------------------------------------------- *)
From Coq Require Import Floats.
From Flocq Require Import Core BinarySingleNaN PrimFloat.
From SV Require Import Model.Subst Proofs.StatsFloat Proofs.PolyFloat Proofs.SubstFloat Proofs.PLUFloat Proofs.SolveFloat.

(* | sum_k A_(s i)k B_kj - [j = s i] |  <=  (g_n + g_(n+1) (1 + g_(n+1)) + g_(n+1)) * sum_t sum_k |L_it| |U_tk| |B_kj|,
   g_m = (1+2^-53)^m - 1: column j of the returned B solves A x = e_j (row s i of it) up to a small componentwise residual *)
Theorem c10_inverse_float_residual : forall (n : nat) (A B : mat PrimFloat.float),
  inverse n n A = Ok B ->
  exists L U P, plu n n A = Ok (L, U, P) /\
  forall s : nat -> nat,
  (forall i j, (i < n)%nat -> (j < n)%nat ->
     P i j = if (j =? s i)%nat then PrimFloat.one else PrimFloat.zero) ->
  (forall i k, (i < n)%nat -> (k < n)%nat -> plu_entry_ok (fun r c => A (s r) c) L U i k) ->
  forall j, (j < n)%nat ->
  (forall i, (i < n)%nat ->
     fwd_row_ok L (inv_rhs n P j) (forward_substitution L n (inv_rhs n P j) (vconst n0)) i) ->
  (forall i, (i < n)%nat -> back_row_ok U n (inv_y n L P j) (inv_x n L U P j) i) ->
  forall i, (i < n)%nat ->
    is_finite (Prim2B (B i j)) = true /\
    Rabs (msum 0 n (fun k => B2R (Prim2B (A (s i) k)) * B2R (Prim2B (B k j)))
          - (if (j =? s i)%nat then 1 else 0))
    <= (((1 + bpow radix2 (-53)) ^ n - 1)
        + ((1 + bpow radix2 (-53)) ^ (n + 1) - 1) * (1 + ((1 + bpow radix2 (-53)) ^ (n + 1) - 1))
        + ((1 + bpow radix2 (-53)) ^ (n + 1) - 1))
       * msum 0 n (fun t => msum 0 n (fun k =>
           Rabs (B2R (Prim2B (L i t))) * Rabs (B2R (Prim2B (U t k))) * Rabs (B2R (Prim2B (B k j))))).
Proof. exact Proofs.SolveFloat.inverse_float_residual. Qed.
Check c10_inverse_float_residual : forall (n : nat) (A B : mat PrimFloat.float),
  inverse n n A = Ok B ->
  exists L U P, plu n n A = Ok (L, U, P) /\
  forall s : nat -> nat,
  (forall i j, (i < n)%nat -> (j < n)%nat ->
     P i j = if (j =? s i)%nat then PrimFloat.one else PrimFloat.zero) ->
  (forall i k, (i < n)%nat -> (k < n)%nat -> plu_entry_ok (fun r c => A (s r) c) L U i k) ->
  forall j, (j < n)%nat ->
  (forall i, (i < n)%nat ->
     fwd_row_ok L (inv_rhs n P j) (forward_substitution L n (inv_rhs n P j) (vconst n0)) i) ->
  (forall i, (i < n)%nat -> back_row_ok U n (inv_y n L P j) (inv_x n L U P j) i) ->
  forall i, (i < n)%nat ->
    is_finite (Prim2B (B i j)) = true /\
    Rabs (msum 0 n (fun k => B2R (Prim2B (A (s i) k)) * B2R (Prim2B (B k j)))
          - (if (j =? s i)%nat then 1 else 0))
    <= (((1 + bpow radix2 (-53)) ^ n - 1)
        + ((1 + bpow radix2 (-53)) ^ (n + 1) - 1) * (1 + ((1 + bpow radix2 (-53)) ^ (n + 1) - 1))
        + ((1 + bpow radix2 (-53)) ^ (n + 1) - 1))
       * msum 0 n (fun t => msum 0 n (fun k =>
           Rabs (B2R (Prim2B (L i t))) * Rabs (B2R (Prim2B (U t k))) * Rabs (B2R (Prim2B (B k j))))).
Print Assumptions c10_inverse_float_residual.

(* non-vacuity, by computation: A = [[1,2,3],[4,5,6],[7,8,10]] (two row interchanges, s = (2,0,1)) is inverted and
   every hypothesis of c10_inverse_float_residual holds, for all three columns (the exact zeros of the unit
   right-hand sides are covered by the criteria okmul_zero_l/r, okdiv_zero of Proofs/SolveFloat.v) *)
Example c10_float_nonvacuous_inverse : exists B L U P,
  inverse 3 3 (mat_of_lists [[0x1p+0; 0x1p+1; 0x1.8p+1]; [0x1p+2; 0x1.4p+2; 0x1.8p+2]; [0x1.cp+2; 0x1p+3; 0x1.4p+3]]%float) = Ok B /\
  plu 3 3 (mat_of_lists [[0x1p+0; 0x1p+1; 0x1.8p+1]; [0x1p+2; 0x1.4p+2; 0x1.8p+2]; [0x1.cp+2; 0x1p+3; 0x1.4p+3]]%float) = Ok (L, U, P) /\
  (forall i j, (i < 3)%nat -> (j < 3)%nat ->
     P i j = if (j =? match i with 0 => 2 | 1 => 0 | _ => 1 end)%nat then PrimFloat.one else PrimFloat.zero) /\
  (forall i k, (i < 3)%nat -> (k < 3)%nat ->
     plu_entry_ok
       (fun r c => mat_of_lists [[0x1p+0; 0x1p+1; 0x1.8p+1]; [0x1p+2; 0x1.4p+2; 0x1.8p+2]; [0x1.cp+2; 0x1p+3; 0x1.4p+3]]%float
                     (match r with 0 => 2 | 1 => 0 | _ => 1 end)%nat c)
       L U i k) /\
  forall j, (j < 3)%nat ->
    (forall i, (i < 3)%nat ->
       fwd_row_ok L (inv_rhs 3 P j) (forward_substitution L 3 (inv_rhs 3 P j) (vconst n0)) i) /\
    (forall i, (i < 3)%nat -> back_row_ok U 3 (inv_y 3 L P j) (inv_x 3 L U P j) i).
Proof. exact Proofs.SolveFloat.ex_inverse_residual_hyps. Qed.
