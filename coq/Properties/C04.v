(* Properties/C04.v — indefinite integrals are antiderivatives with zero constant of integration;
   the analytical definite integral is F(b) - F(a) = the integral, hence additive and antisymmetric.
   Statements only; every proof is `exact` of a lemma of Proofs/Integ.v.
   R instance of Model/Poly.v and Model/Definite.v; vocabulary as in Properties/C03.v, plus
     dom_integ ts v x   every exponent p of v in ts has p <> -1 and dom_pow (p + 1) x
     uni_var p          the variable the univariate entry points use (the listed one, or "x")
     val r              the value of an Ok outcome *)
From Coq Require Import ZArith NArith List Bool Reals Lra Lia Sorted.
From Coquelicot Require Import Coquelicot.
From SV Require Import Base.Num Base.Outcome Model.Poly Model.Definite
  Proofs.PolyLemmas Proofs.Deriv Proofs.PolyLemmasWf Proofs.Integ.
Import ListNotations.
Local Open Scope R_scope.

(* univariate type: coefficient 0 of the integral is 0 (zero constant of integration) *)
Theorem c04_const_zero_simple :
  forall (p : spoly R),
    (exists cs, s_coefs (simple_integral p) = 0 :: cs) /\ eval_simple (simple_integral p) 0 = 0.
Proof. exact Proofs.Integ.c04_const_zero_simple. Qed.
Check c04_const_zero_simple :
  forall (p : spoly R),
    (exists cs, s_coefs (simple_integral p) = 0 :: cs) /\ eval_simple (simple_integral p) 0 = 0.
Print Assumptions c04_const_zero_simple.

(* multivariate type: every term of the integral contains the integration variable *)
Theorem c04_const_zero_inter :
  forall (ts : list (term R)) (v : name) (d : term R),
    In d (i_terms (inter_integral ts v)) -> In v (keys (t_vars d)).
Proof. exact Proofs.Integ.c04_const_zero_inter. Qed.
Check c04_const_zero_inter :
  forall (ts : list (term R)) (v : name) (d : term R),
    In d (i_terms (inter_integral ts v)) -> In v (keys (t_vars d)).
Print Assumptions c04_const_zero_inter.

(* ... hence the integral is 0 where v = 0, when all exponents of v exceed -1 *)
Theorem c04_vanish_at_zero :
  forall (ts : list (term R)) (v : name) (e : env R),
    terms_bound ts (upd e v 0) ->
    (forall t, In t ts -> forall p, In (v, p) (t_vars t) -> -1 < p) ->
    eval_inter (i_terms (inter_integral ts v)) (upd e v 0) = Ok 0.
Proof. exact Proofs.Integ.c04_vanish_at_zero. Qed.
Check c04_vanish_at_zero :
  forall (ts : list (term R)) (v : name) (e : env R),
    terms_bound ts (upd e v 0) ->
    (forall t, In t ts -> forall p, In (v, p) (t_vars t) -> -1 < p) ->
    eval_inter (i_terms (inter_integral ts v)) (upd e v 0) = Ok 0.
Print Assumptions c04_vanish_at_zero.

(* univariate type: the integral is an antiderivative, everywhere *)
Theorem c04_antiderivative_simple :
  forall (p : spoly R) (x : R),
    is_derive (eval_simple (simple_integral p)) x (eval_simple p x).
Proof. exact Proofs.Integ.c04_antiderivative_simple. Qed.
Check c04_antiderivative_simple :
  forall (p : spoly R) (x : R),
    is_derive (eval_simple (simple_integral p)) x (eval_simple p x).
Print Assumptions c04_antiderivative_simple.

(* univariate type: differentiating the integral gives the polynomial back, coefficient by coefficient *)
Theorem c04_derive_integral_simple :
  forall (p : spoly R),
    simple_derivative (simple_integral p) = p.
Proof. exact Proofs.Integ.c04_derive_integral_simple. Qed.
Check c04_derive_integral_simple :
  forall (p : spoly R),
    simple_derivative (simple_integral p) = p.
Print Assumptions c04_derive_integral_simple.

(* univariate type, trait wrappers *)
Theorem c04_simple_wrappers :
  forall (p : spoly R) (v : name),
    s_integral_univariate p = Ok (simple_integral p) /\
    (first_char_is v (s_var p) = true -> s_integral_multivariate p v = simple_integral p) /\
    (first_char_is v (s_var p) = false -> s_integral_multivariate p v = p).
Proof. exact Proofs.Integ.c04_simple_wrappers. Qed.
Check c04_simple_wrappers :
  forall (p : spoly R) (v : name),
    s_integral_univariate p = Ok (simple_integral p) /\
    (first_char_is v (s_var p) = true -> s_integral_multivariate p v = simple_integral p) /\
    (first_char_is v (s_var p) = false -> s_integral_multivariate p v = p).
Print Assumptions c04_simple_wrappers.

(* multivariate type: s |-> eval (inter_integral ts v) (e, v:=s) has at x the derivative eval ts (e, v:=x) *)
Theorem c04_antiderivative_inter :
  forall (ts : list (term R)) (v : name) (e : env R) (x : R),
    wf_terms ts -> terms_bound ts (upd e v x) -> dom_integ ts v x ->
    exists (F : R -> R) (y : R),
      (forall s, eval_inter (i_terms (inter_integral ts v)) (upd e v s) = Ok (F s)) /\
      eval_inter ts (upd e v x) = Ok y /\
      is_derive F x y.
Proof. exact Proofs.Integ.c04_antiderivative_inter. Qed.
Check c04_antiderivative_inter :
  forall (ts : list (term R)) (v : name) (e : env R) (x : R),
    wf_terms ts -> terms_bound ts (upd e v x) -> dom_integ ts v x ->
    exists (F : R -> R) (y : R),
      (forall s, eval_inter (i_terms (inter_integral ts v)) (upd e v s) = Ok (F s)) /\
      eval_inter ts (upd e v x) = Ok y /\
      is_derive F x y.
Print Assumptions c04_antiderivative_inter.

(* corollary: the derivative of the integral evaluates to the value of the source *)
Theorem c04_derive_integral_inter :
  forall (ts : list (term R)) (v : name) (e : env R) (x : R),
    wf_terms ts -> terms_bound ts (upd e v x) -> dom_integ ts v x ->
    exists y, eval_inter ts (upd e v x) = Ok y /\
      eval_inter (i_terms (partial_derivative (i_terms (inter_integral ts v)) v)) (upd e v x) = Ok y.
Proof. exact Proofs.Integ.c04_derive_integral_inter. Qed.
Check c04_derive_integral_inter :
  forall (ts : list (term R)) (v : name) (e : env R) (x : R),
    wf_terms ts -> terms_bound ts (upd e v x) -> dom_integ ts v x ->
    exists y, eval_inter ts (upd e v x) = Ok y /\
      eval_inter (i_terms (partial_derivative (i_terms (inter_integral ts v)) v)) (upd e v x) = Ok y.
Print Assumptions c04_derive_integral_inter.

(* the integral is again a well-formed polynomial; a fresh variable is listed in order *)
Theorem c04_closed :
  forall (p : ipoly R) (v : name),
    wf_poly p ->
    wf_poly (i_integral_multivariate p v) /\
    (forall k, In k (i_vars (i_integral_multivariate p v)) -> In k (i_vars p) \/ k = v) /\
    (forall q, i_integral_univariate p = Ok q -> wf_poly q /\ (length (i_vars q) <= 1)%nat).
Proof. exact Proofs.Integ.c04_closed. Qed.
Check c04_closed :
  forall (p : ipoly R) (v : name),
    wf_poly p ->
    wf_poly (i_integral_multivariate p v) /\
    (forall k, In k (i_vars (i_integral_multivariate p v)) -> In k (i_vars p) \/ k = v) /\
    (forall q, i_integral_univariate p = Ok q -> wf_poly q /\ (length (i_vars q) <= 1)%nat).
Print Assumptions c04_closed.

(* univariate type: analytical_integral is the integral *)
Theorem c04_definite_simple :
  forall (p : spoly R) (a b : R),
    s_analytical_integral p a b = Ok (RInt (eval_simple p) a b).
Proof. exact Proofs.Integ.c04_definite_simple. Qed.
Check c04_definite_simple :
  forall (p : spoly R) (a b : R),
    s_analytical_integral p a b = Ok (RInt (eval_simple p) a b).
Print Assumptions c04_definite_simple.

(* additive over adjacent intervals (any c, inside or outside [a,b]) *)
Theorem c04_additive_simple :
  forall (p : spoly R) (a b c : R),
    s_analytical_integral p a b = Ok (RInt (eval_simple p) a c + RInt (eval_simple p) c b).
Proof. exact Proofs.Integ.c04_additive_simple. Qed.
Check c04_additive_simple :
  forall (p : spoly R) (a b c : R),
    s_analytical_integral p a b = Ok (RInt (eval_simple p) a c + RInt (eval_simple p) c b).
Print Assumptions c04_additive_simple.

(* changes sign when the bounds are swapped *)
Theorem c04_swap_simple :
  forall (p : spoly R) (a b : R),
    s_analytical_integral p b a = Ok (- RInt (eval_simple p) a b).
Proof. exact Proofs.Integ.c04_swap_simple. Qed.
Check c04_swap_simple :
  forall (p : spoly R) (a b : R),
    s_analytical_integral p b a = Ok (- RInt (eval_simple p) a b).
Print Assumptions c04_swap_simple.

(* the same two facts on the returned values *)
Theorem c04_additive_swap_values_simple :
  forall (p : spoly R) (a b c vab vac vcb vba : R),
    s_analytical_integral p a b = Ok vab -> s_analytical_integral p a c = Ok vac ->
    s_analytical_integral p c b = Ok vcb -> s_analytical_integral p b a = Ok vba ->
    vab = vac + vcb /\ vba = - vab.
Proof. exact Proofs.Integ.c04_additive_swap_values_simple. Qed.
Check c04_additive_swap_values_simple :
  forall (p : spoly R) (a b c vab vac vcb vba : R),
    s_analytical_integral p a b = Ok vab -> s_analytical_integral p a c = Ok vac ->
    s_analytical_integral p c b = Ok vcb -> s_analytical_integral p b a = Ok vba ->
    vab = vac + vcb /\ vba = - vab.
Print Assumptions c04_additive_swap_values_simple.

(* multivariate type with at most one variable: analytical_integral is the integral of the evaluation, on the natural domain *)
Theorem c04_definite_inter :
  forall (p : ipoly R) (a b : R),
    wf_poly p -> (length (i_vars p) <= 1)%nat ->
    (forall x, Rmin a b <= x <= Rmax a b -> dom_integ (i_terms p) (uni_var p) x) ->
    i_analytical_integral p a b = Ok (RInt (fun t => val (i_eval_univariate p t)) a b).
Proof. exact Proofs.Integ.c04_definite_inter. Qed.
Check c04_definite_inter :
  forall (p : ipoly R) (a b : R),
    wf_poly p -> (length (i_vars p) <= 1)%nat ->
    (forall x, Rmin a b <= x <= Rmax a b -> dom_integ (i_terms p) (uni_var p) x) ->
    i_analytical_integral p a b = Ok (RInt (fun t => val (i_eval_univariate p t)) a b).
Print Assumptions c04_definite_inter.

(* multivariate type: additive over adjacent intervals inside the domain *)
Theorem c04_additive_inter :
  forall (p : ipoly R) (a b c : R),
    wf_poly p -> (length (i_vars p) <= 1)%nat ->
    (forall x, Rmin a c <= x <= Rmax a c -> dom_integ (i_terms p) (uni_var p) x) ->
    (forall x, Rmin c b <= x <= Rmax c b -> dom_integ (i_terms p) (uni_var p) x) ->
    i_analytical_integral p a b
    = Ok (RInt (fun t => val (i_eval_univariate p t)) a c + RInt (fun t => val (i_eval_univariate p t)) c b).
Proof. exact Proofs.Integ.c04_additive_inter. Qed.
Check c04_additive_inter :
  forall (p : ipoly R) (a b c : R),
    wf_poly p -> (length (i_vars p) <= 1)%nat ->
    (forall x, Rmin a c <= x <= Rmax a c -> dom_integ (i_terms p) (uni_var p) x) ->
    (forall x, Rmin c b <= x <= Rmax c b -> dom_integ (i_terms p) (uni_var p) x) ->
    i_analytical_integral p a b
    = Ok (RInt (fun t => val (i_eval_univariate p t)) a c + RInt (fun t => val (i_eval_univariate p t)) c b).
Print Assumptions c04_additive_inter.

(* multivariate type: sign change under swapped bounds *)
Theorem c04_swap_inter :
  forall (p : ipoly R) (a b : R),
    wf_poly p -> (length (i_vars p) <= 1)%nat ->
    (forall x, Rmin a b <= x <= Rmax a b -> dom_integ (i_terms p) (uni_var p) x) ->
    i_analytical_integral p b a = Ok (- RInt (fun t => val (i_eval_univariate p t)) a b).
Proof. exact Proofs.Integ.c04_swap_inter. Qed.
Check c04_swap_inter :
  forall (p : ipoly R) (a b : R),
    wf_poly p -> (length (i_vars p) <= 1)%nat ->
    (forall x, Rmin a b <= x <= Rmax a b -> dom_integ (i_terms p) (uni_var p) x) ->
    i_analytical_integral p b a = Ok (- RInt (fun t => val (i_eval_univariate p t)) a b).
Print Assumptions c04_swap_inter.

(* multivariate type: additivity and antisymmetry of the returned values *)
Theorem c04_additive_swap_values_inter :
  forall (p : ipoly R) (a b c vab vac vcb vba : R),
    wf_poly p -> (length (i_vars p) <= 1)%nat ->
    i_analytical_integral p a b = Ok vab -> i_analytical_integral p a c = Ok vac ->
    i_analytical_integral p c b = Ok vcb -> i_analytical_integral p b a = Ok vba ->
    vab = vac + vcb /\ vba = - vab.
Proof. exact Proofs.Integ.c04_additive_swap_values_inter. Qed.
Check c04_additive_swap_values_inter :
  forall (p : ipoly R) (a b c vab vac vcb vba : R),
    wf_poly p -> (length (i_vars p) <= 1)%nat ->
    i_analytical_integral p a b = Ok vab -> i_analytical_integral p a c = Ok vac ->
    i_analytical_integral p c b = Ok vcb -> i_analytical_integral p b a = Ok vba ->
    vab = vac + vcb /\ vba = - vab.
Print Assumptions c04_additive_swap_values_inter.

(* more than one variable: the error value TooManyVariables, never a panic *)
Theorem c04_definite_too_many :
  forall (p : ipoly R) (a b : R),
    (2 <= length (i_vars p))%nat -> i_analytical_integral p a b = Err ETooManyVariables.
Proof. exact Proofs.Integ.c04_definite_too_many. Qed.
Check c04_definite_too_many :
  forall (p : ipoly R) (a b : R),
    (2 <= length (i_vars p))%nat -> i_analytical_integral p a b = Err ETooManyVariables.
Print Assumptions c04_definite_too_many.

(* non-vacuity: 3 x^2 - 4 x^-3 on [1, 2] satisfies the hypotheses of c04_definite_inter *)
Example c04_definite_nonvacuous :
  let p := {| i_terms := [ {| t_coef := 3; t_vars := [(ex_x, 2)] |};
                           {| t_coef := -4; t_vars := [(ex_x, -3)] |} ];
              i_vars := [ex_x] |} in
  wf_poly p /\ (length (i_vars p) <= 1)%nat /\
  (forall x, Rmin 1 2 <= x <= Rmax 1 2 -> dom_integ (i_terms p) (uni_var p) x).
Proof. exact Proofs.Integ.c04_definite_hyps. Qed.

(* ---- FLOAT instance: "equals the exact integral of the polynomial up to rounding" (Proofs/DefiniteFloat.v, Flocq) ----
   [B2R (Prim2B x)] is the real value of the primitive float x; Fx is the exact antiderivative
   sum_k c_k x^(k+1)/(k+1) of the real values of the float coefficients (so Fx(b) - Fx(a) is the exact integral,
   c04_definite_simple), Ax the same with absolute values; n = length of the coefficient vector; eps = 2^-53.
   Hypotheses: n < 2^53; every coefficient division c_k / ((k as f64) + 1.0) is okdiv (finite, exact quotient zero or
   >= 2^-1022: Proofs/SubstFloat.v); the hypotheses of c01_eval_simple_float_error for the integrated polynomial at
   both bounds (eval_no_underflow: every product finite and zero-or-normal; every partial sum finite);
   the final subtraction is finite.  Exponent 2n+4 = n+1 entries evaluated (2(n+1)) + one division + one subtraction. *)
From Flocq Require Import Core BinarySingleNaN PrimFloat.
From SV Require Import Model.Stats Proofs.PolyFloat Proofs.SubstFloat Proofs.DefiniteFloat.

Theorem c04_definite_float_error : forall (p : spoly PrimFloat.float) (a b : PrimFloat.float),
  (Z.of_nat (length (s_coefs p)) < 2 ^ 53)%Z ->
  (forall k, (k < length (s_coefs p))%nat ->
     okdiv (nth k (s_coefs p) n0) (nadd (nofnat k) n1)) ->
  (forall x, x = a \/ x = b ->
     eval_no_underflow (s_coefs (simple_integral p)) x /\
     forall m, (m <= length (s_coefs (simple_integral p)))%nat ->
       is_finite (Prim2B (sum_list (firstn m (eval_terms_from x 0 (s_coefs (simple_integral p)))))) = true) ->
  is_finite (Prim2B (nsub (eval_simple (simple_integral p) b) (eval_simple (simple_integral p) a))) = true ->
  let Fx := fun x : R => fold_right (fun k acc =>
              B2R (Prim2B (nth k (s_coefs p) n0)) * x ^ S k / INR (S k) + acc) 0 (seq 0 (length (s_coefs p))) in
  let Ax := fun x : R => fold_right (fun k acc =>
              Rabs (B2R (Prim2B (nth k (s_coefs p) n0))) * Rabs x ^ S k / INR (S k) + acc) 0 (seq 0 (length (s_coefs p))) in
  exists r, s_analytical_integral p a b = Ok r /\ is_finite (Prim2B r) = true /\
    Rabs (B2R (Prim2B r) - (Fx (B2R (Prim2B b)) - Fx (B2R (Prim2B a))))
    <= ((1 + bpow radix2 (-53)) ^ (2 * length (s_coefs p) + 4) - 1)
       * (Ax (B2R (Prim2B b)) + Ax (B2R (Prim2B a))).
Proof. exact Proofs.DefiniteFloat.definite_float_error. Qed.
Check c04_definite_float_error : forall (p : spoly PrimFloat.float) (a b : PrimFloat.float),
  (Z.of_nat (length (s_coefs p)) < 2 ^ 53)%Z ->
  (forall k, (k < length (s_coefs p))%nat ->
     okdiv (nth k (s_coefs p) n0) (nadd (nofnat k) n1)) ->
  (forall x, x = a \/ x = b ->
     eval_no_underflow (s_coefs (simple_integral p)) x /\
     forall m, (m <= length (s_coefs (simple_integral p)))%nat ->
       is_finite (Prim2B (sum_list (firstn m (eval_terms_from x 0 (s_coefs (simple_integral p)))))) = true) ->
  is_finite (Prim2B (nsub (eval_simple (simple_integral p) b) (eval_simple (simple_integral p) a))) = true ->
  let Fx := fun x : R => fold_right (fun k acc =>
              B2R (Prim2B (nth k (s_coefs p) n0)) * x ^ S k / INR (S k) + acc) 0 (seq 0 (length (s_coefs p))) in
  let Ax := fun x : R => fold_right (fun k acc =>
              Rabs (B2R (Prim2B (nth k (s_coefs p) n0))) * Rabs x ^ S k / INR (S k) + acc) 0 (seq 0 (length (s_coefs p))) in
  exists r, s_analytical_integral p a b = Ok r /\ is_finite (Prim2B r) = true /\
    Rabs (B2R (Prim2B r) - (Fx (B2R (Prim2B b)) - Fx (B2R (Prim2B a))))
    <= ((1 + bpow radix2 (-53)) ^ (2 * length (s_coefs p) + 4) - 1)
       * (Ax (B2R (Prim2B b)) + Ax (B2R (Prim2B a))).
Print Assumptions c04_definite_float_error.

(* non-vacuity: 3x^2+2x-5 (Proofs.PolyFloat.ex_poly) over [0.5, 1.5] (ex_lo = 0x1p-1, ex_hi = 0x1.8p+0)
   satisfies every hypothesis; checked by computation *)
Example c04_float_nonvacuous :
  (Z.of_nat (length (s_coefs ex_poly)) < 2 ^ 53)%Z /\
  (forall k, (k < length (s_coefs ex_poly))%nat ->
     okdiv (nth k (s_coefs ex_poly) n0) (nadd (nofnat k) n1)) /\
  (forall x, x = ex_lo \/ x = ex_hi ->
     eval_no_underflow (s_coefs (simple_integral ex_poly)) x /\
     forall m, (m <= length (s_coefs (simple_integral ex_poly)))%nat ->
       is_finite (Prim2B (sum_list (firstn m (eval_terms_from x 0 (s_coefs (simple_integral ex_poly)))))) = true) /\
  is_finite (Prim2B (nsub (eval_simple (simple_integral ex_poly) ex_hi) (eval_simple (simple_integral ex_poly) ex_lo))) = true.
Proof. exact Proofs.DefiniteFloat.ex_definite_hyps. Qed.
