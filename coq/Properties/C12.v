(* Properties/C12.v — the 2-D array behaves like a rectangular grid under every sequence of operations.
   Statements only; every proof is `exact` of a lemma of Proofs/Arr2DGrid.v.
   step_c : the flat-buffer record (Model/Arr2D.v, transcription of arr2D.rs);  step_s : the plain grid;
   abs : cell (r,c) of the grid = buffer element r*width+c;  Inv a : length (inner a) = height a * width a.
   Outputs are Ok tt / Err kind / Panic reason; a failing step leaves the state as it was
   (for the model by construction of [commit]; for the real array it is measured by the correspondence check). *)
From Coq Require Import ZArith NArith List Bool Arith Lia.
From SV Require Import Base.Num Base.Outcome Model.Arr2D Proofs.Arr2D Proofs.Arr2DGrid.
Import ListNotations.

(* the buffer always has height*width elements: initially (Arr2D::new()) and after every operation *)
Theorem c12_inv : Inv (@arr_new Z) /\ forall a o, Inv a -> Inv (fst (step_c a o)).
Proof. exact Proofs.Arr2DGrid.c12_inv. Qed.
Check c12_inv : Inv (@arr_new Z) /\ forall a o, Inv a -> Inv (fst (step_c a o)).
Print Assumptions c12_inv.

(* every operation: same output (including Err / Panic), abstraction commutes, failure leaves both states unchanged *)
Theorem c12_refine : forall a o, Inv a ->
  snd (step_c a o) = snd (step_s (abs a) o) /\
  abs (fst (step_c a o)) = fst (step_s (abs a) o) /\
  (snd (step_c a o) <> Ok tt -> fst (step_c a o) = a /\ fst (step_s (abs a) o) = abs a).
Proof. exact Proofs.Arr2DGrid.c12_refine. Qed.
Check c12_refine : forall a o, Inv a ->
  snd (step_c a o) = snd (step_s (abs a) o) /\
  abs (fst (step_c a o)) = fst (step_s (abs a) o) /\
  (snd (step_c a o) <> Ok tt -> fst (step_c a o) = a /\ fst (step_s (abs a) o) = abs a).
Print Assumptions c12_refine.

(* every observation (shape, size, is_empty, both index forms incl. out-of-range, rows, into_iter,
   max, min, == nested vector, Display text) of a well-formed array is that of its grid *)
Theorem c12_observe : forall a q, Inv a -> observe_c a q = observe_s (abs a) q.
Proof. exact Proofs.Arr2DGrid.c12_observe. Qed.
Check c12_observe : forall a q, Inv a -> observe_c a q = observe_s (abs a) q.
Print Assumptions c12_observe.

(* histories: for every operation sequence the outputs along the way and every observation at the end
   (hence, by prefix closure, after every step) equal those of the grid *)
Theorem c12_histories : forall a0 ops, Inv a0 ->
  trace_c a0 ops = trace_s (abs a0) ops /\
  forall q, observe_c (run_c a0 ops) q = observe_s (run_s (abs a0) ops) q.
Proof. exact Proofs.Arr2DGrid.c12_histories. Qed.
Check c12_histories : forall a0 ops, Inv a0 ->
  trace_c a0 ops = trace_s (abs a0) ops /\
  forall q, observe_c (run_c a0 ops) q = observe_s (run_s (abs a0) ops) q.
Print Assumptions c12_histories.

(* the failing outputs are exactly these (and nothing else fails) *)
Theorem c12_invalid_documented : forall a, Inv a ->
  (forall rows, snd (step_c a (OFromNested rows)) =
     match rows with
     | [] => Ok tt
     | r0 :: _ => if forallb (fun rw => length rw =? length r0) rows then Ok tt
                  else Err EInconsistentRowLengths
     end) /\
  (forall data d h w, snd (step_c a (OFromFlat data d h w)) =
     if (h * w <? length data) || (h * w =? 0) then Err EInvalidShape else Ok tt) /\
  (forall h, snd (step_c a (OReshape h)) =
     if (h =? 0) || negb ((height a * width a) mod h =? 0) then Err EInvalidReshape else Ok tt) /\
  (forall x y, snd (step_c a (OSwapRows x y)) =
     if (x =? y) || (width a =? 0) then Ok tt
     else if height a <=? Nat.max x y then Panic WSliceRange else Ok tt) /\
  (forall r c v, snd (step_c a (OSet1 r c v)) =
     if (r <? height a) && (c <? width a) then Ok tt else Panic WIndex) /\
  (forall r c v, snd (step_c a (OSet2 r c v)) =
     if (r <? height a) && (c <? width a) then Ok tt else Panic WIndex) /\
  (forall r vs, snd (step_c a (OSetRow r vs)) =
     if height a <=? r then Panic WIndex
     else if negb (length vs =? width a) then Panic WSliceRange else Ok tt) /\
  (forall v h w n f k t,
     snd (step_c a (OFromArray h w t)) = Ok tt /\
     snd (step_c a (OFull v h w)) = Ok tt /\ snd (step_c a (OIdentity n)) = Ok tt /\
     snd (step_c a OTranspose) = Ok tt /\ snd (step_c a OTransposeMut) = Ok tt /\
     snd (step_c a (ORowsMutMap f)) = Ok tt /\ snd (step_c a (OMap k)) = Ok tt /\
     snd (step_c a OClone) = Ok tt /\ snd (step_c a OTryFromRef) = Ok tt).
Proof. exact Proofs.Arr2DGrid.c12_invalid_documented. Qed.
Check c12_invalid_documented : forall a, Inv a ->
  (forall rows, snd (step_c a (OFromNested rows)) =
     match rows with
     | [] => Ok tt
     | r0 :: _ => if forallb (fun rw => length rw =? length r0) rows then Ok tt
                  else Err EInconsistentRowLengths
     end) /\
  (forall data d h w, snd (step_c a (OFromFlat data d h w)) =
     if (h * w <? length data) || (h * w =? 0) then Err EInvalidShape else Ok tt) /\
  (forall h, snd (step_c a (OReshape h)) =
     if (h =? 0) || negb ((height a * width a) mod h =? 0) then Err EInvalidReshape else Ok tt) /\
  (forall x y, snd (step_c a (OSwapRows x y)) =
     if (x =? y) || (width a =? 0) then Ok tt
     else if height a <=? Nat.max x y then Panic WSliceRange else Ok tt) /\
  (forall r c v, snd (step_c a (OSet1 r c v)) =
     if (r <? height a) && (c <? width a) then Ok tt else Panic WIndex) /\
  (forall r c v, snd (step_c a (OSet2 r c v)) =
     if (r <? height a) && (c <? width a) then Ok tt else Panic WIndex) /\
  (forall r vs, snd (step_c a (OSetRow r vs)) =
     if height a <=? r then Panic WIndex
     else if negb (length vs =? width a) then Panic WSliceRange else Ok tt) /\
  (forall v h w n f k t,
     snd (step_c a (OFromArray h w t)) = Ok tt /\
     snd (step_c a (OFull v h w)) = Ok tt /\ snd (step_c a (OIdentity n)) = Ok tt /\
     snd (step_c a OTranspose) = Ok tt /\ snd (step_c a OTransposeMut) = Ok tt /\
     snd (step_c a (ORowsMutMap f)) = Ok tt /\ snd (step_c a (OMap k)) = Ok tt /\
     snd (step_c a OClone) = Ok tt /\ snd (step_c a OTryFromRef) = Ok tt).
Print Assumptions c12_invalid_documented.

(* ---- non-vacuity: a concrete history with successes, an error and two panics ------------------- *)
Local Open Scope Z_scope.
Definition c12_demo_ops : list op :=
  [OFromNested [[5; -3; 12]; [0; -10; 7]]; OSwapRows 0%nat 1%nat; OReshape 3%nat; OReshape 4%nat;
   OSet2 5%nat 0%nat 1; OTransposeMut; OSwapRows 1%nat 2%nat; OSetRow 0%nat [1; 2; 3]].
Example c12_demo_trace :
  trace_c arr_new c12_demo_ops =
  [Ok tt; Ok tt; Ok tt; Err EInvalidReshape; Panic WIndex; Ok tt; Panic WSliceRange; Ok tt].
Proof. reflexivity. Qed.
Example c12_demo_state :
  run_c arr_new c12_demo_ops = mkArr [1; 2; 3; -10; 5; 12] 2 3 /\ Inv (run_c arr_new c12_demo_ops) /\
  cells (run_s (abs arr_new) c12_demo_ops) = [[1; 2; 3]; [-10; 5; 12]].
Proof. repeat split. Qed.
Example c12_demo_display :
  observe_c (run_c arr_new c12_demo_ops) QDisplay
  = AText (Ok [91; 91; 32; 32; 32; 49; 44; 32; 50; 44; 32; 32; 51; 32; 93; 10;
               32; 91; 32; 45; 49; 48; 44; 32; 53; 44; 32; 49; 50; 32; 93; 93]%N).
Proof. reflexivity. Qed.
