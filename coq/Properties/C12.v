(* Properties/C12.v — the 2-D array behaves like a rectangular grid under every sequence of operations.
   Statements only; every proof is `exact` of a lemma of Proofs/Arr2DGrid.v.
   step_c : the flat-buffer record (Model/Arr2D.v, transcription of arr2D.rs);  step_s : the plain grid;
   abs : cell (r,c) of the grid = buffer element r*width+c;  Inv a : length (inner a) = height a * width a.
   Outputs are Ok tt / Err kind / Panic reason; a failing step leaves the state as it was
   (for the model by construction of [commit]; for the real array it is measured by the correspondence check).
   The first five theorems are stated for i64 entries (the machines of Model/Arr2D.v are over Z).  The block at the
   end (c12_*_any_type) states the same five for EVERY element type T with a Num instance — in particular f64
   (FNum) — about the machines step_cT / step_sT / observe_cT / observe_sT of Proofs/Arr2DGridT.v, which are the
   Z machines with T in place of Z (Arr2DGridT.step_cT_Z, step_sT_Z, observe_cT_Z, observe_sT_Z: equal at T := Z). *)
From Coq Require Import ZArith NArith List Bool Arith Lia.
From SV Require Import Base.Num Base.Outcome Model.Arr2D Proofs.Arr2D Proofs.Arr2DGrid.
Import ListNotations.

(* the buffer always has height*width elements: initially (Arr2D::new()) and after every operation *)
Theorem c12_inv : Inv (@arr_new Z) /\ forall a o, Inv a -> Inv (fst (step_c a o)).
Proof. exact Proofs.Arr2DGrid.c12_inv. Qed.
Check c12_inv : Inv (@arr_new Z) /\ forall a o, Inv a -> Inv (fst (step_c a o)).
Print Assumptions c12_inv.

(* every operation: same output (including Err / Panic), abstraction commutes, failure leaves both states unchanged *)
Theorem c12_refine : forall a o, Inv a ->
  snd (step_c a o) = snd (step_s (abs a) o) /\
  abs (fst (step_c a o)) = fst (step_s (abs a) o) /\
  (snd (step_c a o) <> Ok tt -> fst (step_c a o) = a /\ fst (step_s (abs a) o) = abs a).
Proof. exact Proofs.Arr2DGrid.c12_refine. Qed.
Check c12_refine : forall a o, Inv a ->
  snd (step_c a o) = snd (step_s (abs a) o) /\
  abs (fst (step_c a o)) = fst (step_s (abs a) o) /\
  (snd (step_c a o) <> Ok tt -> fst (step_c a o) = a /\ fst (step_s (abs a) o) = abs a).
Print Assumptions c12_refine.

(* every observation (shape, size, is_empty, both index forms incl. out-of-range, rows, into_iter,
   max, min, == nested vector, Display text) of a well-formed array is that of its grid *)
Theorem c12_observe : forall a q, Inv a -> observe_c a q = observe_s (abs a) q.
Proof. exact Proofs.Arr2DGrid.c12_observe. Qed.
Check c12_observe : forall a q, Inv a -> observe_c a q = observe_s (abs a) q.
Print Assumptions c12_observe.

(* histories: for every operation sequence the outputs along the way and every observation at the end
   (hence, by prefix closure, after every step) equal those of the grid *)
Theorem c12_histories : forall a0 ops, Inv a0 ->
  trace_c a0 ops = trace_s (abs a0) ops /\
  forall q, observe_c (run_c a0 ops) q = observe_s (run_s (abs a0) ops) q.
Proof. exact Proofs.Arr2DGrid.c12_histories. Qed.
Check c12_histories : forall a0 ops, Inv a0 ->
  trace_c a0 ops = trace_s (abs a0) ops /\
  forall q, observe_c (run_c a0 ops) q = observe_s (run_s (abs a0) ops) q.
Print Assumptions c12_histories.

(* the failing outputs are exactly these (and nothing else fails) *)
Theorem c12_invalid_documented : forall a, Inv a ->
  (forall rows, snd (step_c a (OFromNested rows)) =
     match rows with
     | [] => Ok tt
     | r0 :: _ => if forallb (fun rw => length rw =? length r0) rows then Ok tt
                  else Err EInconsistentRowLengths
     end) /\
  (forall data d h w, snd (step_c a (OFromFlat data d h w)) =
     if (h * w <? length data) || (h * w =? 0) then Err EInvalidShape else Ok tt) /\
  (forall h, snd (step_c a (OReshape h)) =
     if (h =? 0) || negb ((height a * width a) mod h =? 0) then Err EInvalidReshape else Ok tt) /\
  (forall x y, snd (step_c a (OSwapRows x y)) =
     if (x =? y) || (width a =? 0) then Ok tt
     else if height a <=? Nat.max x y then Panic WSliceRange else Ok tt) /\
  (forall r c v, snd (step_c a (OSet1 r c v)) =
     if (r <? height a) && (c <? width a) then Ok tt else Panic WIndex) /\
  (forall r c v, snd (step_c a (OSet2 r c v)) =
     if (r <? height a) && (c <? width a) then Ok tt else Panic WIndex) /\
  (forall r vs, snd (step_c a (OSetRow r vs)) =
     if height a <=? r then Panic WIndex
     else if negb (length vs =? width a) then Panic WSliceRange else Ok tt) /\
  (forall v h w n f k t,
     snd (step_c a (OFromArray h w t)) = Ok tt /\
     snd (step_c a (OFull v h w)) = Ok tt /\ snd (step_c a (OIdentity n)) = Ok tt /\
     snd (step_c a OTranspose) = Ok tt /\ snd (step_c a OTransposeMut) = Ok tt /\
     snd (step_c a (ORowsMutMap f)) = Ok tt /\ snd (step_c a (OMap k)) = Ok tt /\
     snd (step_c a OClone) = Ok tt /\ snd (step_c a OTryFromRef) = Ok tt).
Proof. exact Proofs.Arr2DGrid.c12_invalid_documented. Qed.
Check c12_invalid_documented : forall a, Inv a ->
  (forall rows, snd (step_c a (OFromNested rows)) =
     match rows with
     | [] => Ok tt
     | r0 :: _ => if forallb (fun rw => length rw =? length r0) rows then Ok tt
                  else Err EInconsistentRowLengths
     end) /\
  (forall data d h w, snd (step_c a (OFromFlat data d h w)) =
     if (h * w <? length data) || (h * w =? 0) then Err EInvalidShape else Ok tt) /\
  (forall h, snd (step_c a (OReshape h)) =
     if (h =? 0) || negb ((height a * width a) mod h =? 0) then Err EInvalidReshape else Ok tt) /\
  (forall x y, snd (step_c a (OSwapRows x y)) =
     if (x =? y) || (width a =? 0) then Ok tt
     else if height a <=? Nat.max x y then Panic WSliceRange else Ok tt) /\
  (forall r c v, snd (step_c a (OSet1 r c v)) =
     if (r <? height a) && (c <? width a) then Ok tt else Panic WIndex) /\
  (forall r c v, snd (step_c a (OSet2 r c v)) =
     if (r <? height a) && (c <? width a) then Ok tt else Panic WIndex) /\
  (forall r vs, snd (step_c a (OSetRow r vs)) =
     if height a <=? r then Panic WIndex
     else if negb (length vs =? width a) then Panic WSliceRange else Ok tt) /\
  (forall v h w n f k t,
     snd (step_c a (OFromArray h w t)) = Ok tt /\
     snd (step_c a (OFull v h w)) = Ok tt /\ snd (step_c a (OIdentity n)) = Ok tt /\
     snd (step_c a OTranspose) = Ok tt /\ snd (step_c a OTransposeMut) = Ok tt /\
     snd (step_c a (ORowsMutMap f)) = Ok tt /\ snd (step_c a (OMap k)) = Ok tt /\
     snd (step_c a OClone) = Ok tt /\ snd (step_c a OTryFromRef) = Ok tt).
Print Assumptions c12_invalid_documented.

(* ---- non-vacuity: a concrete history with successes, an error and two panics ------------------- *)
Local Open Scope Z_scope.
Definition c12_demo_ops : list op :=
  [OFromNested [[5; -3; 12]; [0; -10; 7]]; OSwapRows 0%nat 1%nat; OReshape 3%nat; OReshape 4%nat;
   OSet2 5%nat 0%nat 1; OTransposeMut; OSwapRows 1%nat 2%nat; OSetRow 0%nat [1; 2; 3]].
Example c12_demo_trace :
  trace_c arr_new c12_demo_ops =
  [Ok tt; Ok tt; Ok tt; Err EInvalidReshape; Panic WIndex; Ok tt; Panic WSliceRange; Ok tt].
Proof. reflexivity. Qed.
Example c12_demo_state :
  run_c arr_new c12_demo_ops = mkArr [1; 2; 3; -10; 5; 12] 2 3 /\ Inv (run_c arr_new c12_demo_ops) /\
  cells (run_s (abs arr_new) c12_demo_ops) = [[1; 2; 3]; [-10; 5; 12]].
Proof. repeat split. Qed.
Example c12_demo_display :
  observe_c (run_c arr_new c12_demo_ops) QDisplay
  = AText (Ok [91; 91; 32; 32; 32; 49; 44; 32; 50; 44; 32; 32; 51; 32; 93; 10;
               32; 91; 32; 45; 49; 48; 44; 32; 53; 44; 32; 49; 50; 32; 93; 93]%N).
Proof. reflexivity. Qed.

(* ================================================================================================== *)
(* the same five theorems for EVERY element type (T with Num T; instances: Z = i64, float = f64, R)     *)
(* ================================================================================================== *)
From SV Require Import Proofs.Arr2DGridT.
Local Close Scope Z_scope.

(* the buffer always has height*width elements, for every element type *)
Theorem c12_inv_any_type : forall (T : Type) (NT : Num T),
  Inv (@arr_new T) /\ forall (a : arr T) (o : opT T), Inv a -> Inv (fst (step_cT a o)).
Proof. exact (@Proofs.Arr2DGridT.c12T_inv). Qed.
Check c12_inv_any_type : forall (T : Type) (NT : Num T),
  Inv (@arr_new T) /\ forall (a : arr T) (o : opT T), Inv a -> Inv (fst (step_cT a o)).
Print Assumptions c12_inv_any_type.

(* every operation, every element type: same output (including Err / Panic), abstraction commutes,
   failure leaves both states unchanged *)
Theorem c12_refine_any_type : forall (T : Type) (NT : Num T) (a : arr T) (o : opT T), Inv a ->
  snd (step_cT a o) = snd (step_sT (absT a) o) /\
  absT (fst (step_cT a o)) = fst (step_sT (absT a) o) /\
  (snd (step_cT a o) <> Ok tt -> fst (step_cT a o) = a /\ fst (step_sT (absT a) o) = absT a).
Proof. exact (@Proofs.Arr2DGridT.c12T_refine). Qed.
Check c12_refine_any_type : forall (T : Type) (NT : Num T) (a : arr T) (o : opT T), Inv a ->
  snd (step_cT a o) = snd (step_sT (absT a) o) /\
  absT (fst (step_cT a o)) = fst (step_sT (absT a) o) /\
  (snd (step_cT a o) <> Ok tt -> fst (step_cT a o) = a /\ fst (step_sT (absT a) o) = absT a).
Print Assumptions c12_refine_any_type.

(* every observation of a well-formed array is that of its grid, for every element type.  max / min are on both
   sides ONE left fold `if x > y {x} else {y}` (resp. <) with the class's comparison over the row-major element
   sequence (no order law is assumed: with NaN there is none); == nested vector is elementwise the class's neqb on
   both sides (for f64 it is IEEE ==, not reflexive on NaN: nothing about neqb is assumed); Display is for an
   arbitrary element printer fmt, carried by the query QDisplayT fmt *)
Theorem c12_observe_any_type : forall (T : Type) (NT : Num T) (a : arr T) (q : queryT T), Inv a ->
  observe_cT a q = observe_sT (absT a) q.
Proof. exact (@Proofs.Arr2DGridT.c12T_observe). Qed.
Check c12_observe_any_type : forall (T : Type) (NT : Num T) (a : arr T) (q : queryT T), Inv a ->
  observe_cT a q = observe_sT (absT a) q.
Print Assumptions c12_observe_any_type.

(* histories, for every element type (i64, f64, ...) *)
Theorem c12_histories_any_type : forall (T : Type) (NT : Num T) (a0 : arr T) (ops : list (opT T)), Inv a0 ->
  trace_cT a0 ops = trace_sT (absT a0) ops /\
  forall q : queryT T, observe_cT (run_cT a0 ops) q = observe_sT (run_sT (absT a0) ops) q.
Proof. exact (@Proofs.Arr2DGridT.c12T_histories). Qed.
Check c12_histories_any_type : forall (T : Type) (NT : Num T) (a0 : arr T) (ops : list (opT T)), Inv a0 ->
  trace_cT a0 ops = trace_sT (absT a0) ops /\
  forall q : queryT T, observe_cT (run_cT a0 ops) q = observe_sT (run_sT (absT a0) ops) q.
Print Assumptions c12_histories_any_type.

(* the failing outputs are exactly these, for every element type *)
Theorem c12_invalid_documented_any_type : forall (T : Type) (NT : Num T) (a : arr T), Inv a ->
  (forall rows : list (list T), snd (step_cT a (OFromNestedT rows)) =
     match rows with
     | [] => Ok tt
     | r0 :: _ => if forallb (fun rw => length rw =? length r0) rows then Ok tt
                  else Err EInconsistentRowLengths
     end) /\
  (forall (data : list T) (d : T) h w, snd (step_cT a (OFromFlatT data d h w)) =
     if (h * w <? length data) || (h * w =? 0) then Err EInvalidShape else Ok tt) /\
  (forall h, snd (step_cT a (OReshapeT h)) =
     if (h =? 0) || negb ((height a * width a) mod h =? 0) then Err EInvalidReshape else Ok tt) /\
  (forall x y, snd (step_cT a (OSwapRowsT x y)) =
     if (x =? y) || (width a =? 0) then Ok tt
     else if height a <=? Nat.max x y then Panic WSliceRange else Ok tt) /\
  (forall r c (v : T), snd (step_cT a (OSet1T r c v)) =
     if (r <? height a) && (c <? width a) then Ok tt else Panic WIndex) /\
  (forall r c (v : T), snd (step_cT a (OSet2T r c v)) =
     if (r <? height a) && (c <? width a) then Ok tt else Panic WIndex) /\
  (forall r (vs : list T), snd (step_cT a (OSetRowT r vs)) =
     if height a <=? r then Panic WIndex
     else if negb (length vs =? width a) then Panic WSliceRange else Ok tt) /\
  (forall (v : T) h w n (f : nat -> nat -> T -> T) (k : T -> T) (t : nat -> nat -> T),
     snd (step_cT a (OFromArrayT h w t)) = Ok tt /\
     snd (step_cT a (OFullT v h w)) = Ok tt /\ snd (step_cT a (OIdentityT n)) = Ok tt /\
     snd (step_cT a OTransposeT) = Ok tt /\ snd (step_cT a OTransposeMutT) = Ok tt /\
     snd (step_cT a (ORowsMutMapT f)) = Ok tt /\ snd (step_cT a (OMapT k)) = Ok tt /\
     snd (step_cT a OCloneT) = Ok tt /\ snd (step_cT a OTryFromRefT) = Ok tt).
Proof. exact (@Proofs.Arr2DGridT.c12T_invalid_documented). Qed.
Check c12_invalid_documented_any_type : forall (T : Type) (NT : Num T) (a : arr T), Inv a ->
  (forall rows : list (list T), snd (step_cT a (OFromNestedT rows)) =
     match rows with
     | [] => Ok tt
     | r0 :: _ => if forallb (fun rw => length rw =? length r0) rows then Ok tt
                  else Err EInconsistentRowLengths
     end) /\
  (forall (data : list T) (d : T) h w, snd (step_cT a (OFromFlatT data d h w)) =
     if (h * w <? length data) || (h * w =? 0) then Err EInvalidShape else Ok tt) /\
  (forall h, snd (step_cT a (OReshapeT h)) =
     if (h =? 0) || negb ((height a * width a) mod h =? 0) then Err EInvalidReshape else Ok tt) /\
  (forall x y, snd (step_cT a (OSwapRowsT x y)) =
     if (x =? y) || (width a =? 0) then Ok tt
     else if height a <=? Nat.max x y then Panic WSliceRange else Ok tt) /\
  (forall r c (v : T), snd (step_cT a (OSet1T r c v)) =
     if (r <? height a) && (c <? width a) then Ok tt else Panic WIndex) /\
  (forall r c (v : T), snd (step_cT a (OSet2T r c v)) =
     if (r <? height a) && (c <? width a) then Ok tt else Panic WIndex) /\
  (forall r (vs : list T), snd (step_cT a (OSetRowT r vs)) =
     if height a <=? r then Panic WIndex
     else if negb (length vs =? width a) then Panic WSliceRange else Ok tt) /\
  (forall (v : T) h w n (f : nat -> nat -> T -> T) (k : T -> T) (t : nat -> nat -> T),
     snd (step_cT a (OFromArrayT h w t)) = Ok tt /\
     snd (step_cT a (OFullT v h w)) = Ok tt /\ snd (step_cT a (OIdentityT n)) = Ok tt /\
     snd (step_cT a OTransposeT) = Ok tt /\ snd (step_cT a OTransposeMutT) = Ok tt /\
     snd (step_cT a (ORowsMutMapT f)) = Ok tt /\ snd (step_cT a (OMapT k)) = Ok tt /\
     snd (step_cT a OCloneT) = Ok tt /\ snd (step_cT a OTryFromRefT) = Ok tt).
Print Assumptions c12_invalid_documented_any_type.

(* ---- non-vacuity at the binary64 instance (FNum), by computation: a history on f64 entries with a NaN, both
   zeros, an error and a panic; outputs, final state and observations computed on BOTH machines ------------- *)
From Coq Require Import Floats.
From SV Require Import Base.FloatBits.
Definition c12_f64_ops : list (opT PrimFloat.float) :=
  [OFromNestedT [[0x1.8p+0; nan]; [zero; neg_zero]]%float; OTransposeT; OSwapRowsT 0 1;
   OReshapeT 3; OReshapeT 1; OSet1T 1 0 one; OMapT (fun x => PrimFloat.add x x)].
Example c12_f64_trace :
  trace_cT (NT:=FNum) arr_new c12_f64_ops
    = [Ok tt; Ok tt; Ok tt; Err EInvalidReshape; Ok tt; Panic WIndex; Ok tt] /\
  trace_sT (NT:=FNum) (absT arr_new) c12_f64_ops
    = [Ok tt; Ok tt; Ok tt; Err EInvalidReshape; Ok tt; Panic WIndex; Ok tt].
Proof. split; vm_compute; reflexivity. Qed.
(* final state [[NaN, -0.0, 3.0, 0.0]], compared through the bit patterns (-1 = NaN) *)
Example c12_f64_state :
  Inv (run_cT (NT:=FNum) arr_new c12_f64_ops) /\
  shape (run_cT (NT:=FNum) arr_new c12_f64_ops) = (1, 4) /\
  map float_bits (inner (run_cT (NT:=FNum) arr_new c12_f64_ops))
    = [(-1)%Z; 9223372036854775808%Z; 4613937818241073152%Z; 0%Z] /\
  map (map float_bits) (cellsT (run_sT (NT:=FNum) (absT arr_new) c12_f64_ops))
    = [[(-1)%Z; 9223372036854775808%Z; 4613937818241073152%Z; 0%Z]].
Proof. repeat split; vm_compute; reflexivity. Qed.
(* observations: max skips the leading NaN (3.0), min is +0.0 (-0.0 < 0.0 is false), the array is NOT == to
   its own rows (NaN), index out of range panics — identical on both machines *)
Definition c12_f64_queries : list (queryT PrimFloat.float) :=
  [QShapeT; QSizeT; QIsEmptyT; QGet1T 0 1; QGet2T 0 3; QGet1T 1 0; QGet2T 0 4; QRowsT; QIntoIterT; QMaxT; QMinT;
   QEqNestedT [[nan; neg_zero; 3; zero]]%float; QEqNestedT [[nan; neg_zero; 3]]%float;
   QDisplayT (fun x => if PrimFloat.ltb x zero then [45; 49]%N else [49]%N)].
Example c12_f64_observe :
  map (observe_cT (NT:=FNum) (run_cT (NT:=FNum) arr_new c12_f64_ops)) c12_f64_queries
  = map (observe_sT (NT:=FNum) (run_sT (NT:=FNum) (absT arr_new) c12_f64_ops)) c12_f64_queries /\
  map (observe_cT (NT:=FNum) (run_cT (NT:=FNum) arr_new c12_f64_ops)) [QMaxT; QMinT; QGet1T 1 0;
       QEqNestedT [[nan; neg_zero; 3; zero]]%float]
  = [AOptT (Ok (Some 3%float)); AOptT (Ok (Some zero)); AElemT (Panic WIndex); AEqT (Ok false)].
Proof. split; vm_compute; reflexivity. Qed.
