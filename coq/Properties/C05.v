(* Properties/C05.v — Simpson / trapezoid / Romberg quadrature.
   Statements only; every proof is `exact` of a lemma of Proofs/Quad*.v. *)
From Coq Require Import ZArith NArith List Reals Lia.
From SV Require Import Base.Num Base.Outcome Model.Poly Model.Quad Proofs.Quad.
Import ListNotations.

(* No panic, every instance of Num (the float instance in particular), every cap
   (also caps above 64, where the checked power fails) and every tolerance.
   Assumption on the integrand: it never panics itself; it may return errors. *)
Theorem c05_romberg_total : forall (T : Type) (NT : Num T) (f : T -> res T),
  (forall x, no_panic (f x)) ->
  forall (a b : T) (cap : N) (tol : T), no_panic (romberg f a b cap tol).
Proof. exact Proofs.Quad.c05_romberg_total. Qed.
Check c05_romberg_total : forall (T : Type) (NT : Num T) (f : T -> res T),
  (forall x, no_panic (f x)) ->
  forall (a b : T) (cap : N) (tol : T), no_panic (romberg f a b cap tol).
Print Assumptions c05_romberg_total.

(* ... which both polynomial types satisfy, unconditionally *)
Theorem c05_romberg_total_polys : forall (T : Type) (NT : Num T) (a b : T) (cap : N) (tol : T),
  (forall p : spoly T, no_panic (romberg (s_eval_univariate p) a b cap tol)) /\
  (forall p : ipoly T, no_panic (romberg (i_eval_univariate p) a b cap tol)).
Proof. exact Proofs.Quad.c05_romberg_total_polys. Qed.
Check c05_romberg_total_polys : forall (T : Type) (NT : Num T) (a b : T) (cap : N) (tol : T),
  (forall p : spoly T, no_panic (romberg (s_eval_univariate p) a b cap tol)) /\
  (forall p : ipoly T, no_panic (romberg (i_eval_univariate p) a b cap tol)).
Print Assumptions c05_romberg_total_polys.

Theorem c05_simpson_total : forall (T : Type) (NT : Num T) (f : T -> res T),
  (forall x, no_panic (f x)) ->
  forall (a b : T) (n : N), no_panic (definite_integral f a b n).
Proof. exact Proofs.Quad.c05_simpson_total. Qed.
Check c05_simpson_total : forall (T : Type) (NT : Num T) (f : T -> res T),
  (forall x, no_panic (f x)) ->
  forall (a b : T) (n : N), no_panic (definite_integral f a b n).
Print Assumptions c05_simpson_total.
