(* Properties/C05.v — Simpson / trapezoid / Romberg quadrature
   (spindalis_core/src/integrals/univariate_definite.rs, repaired tree).
   Statements only; every proof is `exact` of a lemma of Proofs/Quad*.v.

   The integrators are modelled generically over the integrand's evaluation
   function  f : T -> res T  (Model/Quad.v); [s_eval_univariate p] and
   [i_eval_univariate p] of Model/Poly.v are the two instances that exist in
   the crate.  Exactness statements are about the R instance (exact arithmetic);
   the no-panic statements hold for every instance of Num, the float instance in
   particular.
   ROUNDING.  Now a theorem (last block, Proofs/QuadFloat.v): the binary64
   ACCUMULATION of the trapezoid rule, of the 1/3 rule and of definite_integral
   for EVERY segment count >= 1 (1, even, 3, odd), and of one 3/8 panel — given the values the integrand returned at the
   nodes the loop visited, the returned float is within ((1+eps)^k - 1) * |h| *
   (weighted sum of |values|) / c of the exact weighted sum (k = m + 2 for m
   trapezoid segments, k = p + 3 for p Simpson panels, k = 7 for the 3/8 panel), under computable
   no-overflow / no-underflow hypotheses.  Still NOT a theorem (measured by the
   correspondence check only): the placement of the nodes (x_i accumulated as
   x_(i-1) + h versus a + i*h), the integrand's own rounding (for polynomials see
   C01's evaluation bound) and the Romberg extrapolation table.  (Odd counts
   2p+3: exponent max(7, p+3) + 1 on the sum of the two panels' magnitudes.)
   "f is a cubic" is stated extensionally (forall x, f x = Ok (a0 + a1 x + a2 x^2
   + a3 x^3)), which covers every real cubic and both polynomial types
   ([c05_simpson_exact_simple], [c05_exact_inter]).  RInt is Coquelicot's
   Riemann integral. *)
From Coq Require Import ZArith NArith List Reals Lia Lra Floats.
From Coquelicot Require Import Coquelicot.
From SV Require Import Base.Num Base.Outcome Model.Poly Model.Quad
  Proofs.Quad Proofs.QuadSimpson Proofs.QuadRomberg Proofs.QuadRInt Proofs.QuadError.
Import ListNotations.
Local Open Scope R_scope.

(* ---- Simpson: exact for every cubic, every interval (also reversed and empty) and
   every n >= 2: even (1/3 rule), odd (3/8 rule spliced on the last three
   segments), and 3 (3/8 rule alone) --------------------------------------------- *)
Theorem c05_simpson_exact : forall (f : R -> res R) (a0 a1 a2 a3 : R),
  (forall x, f x = Ok (a0 + a1 * x + a2 * x ^ 2 + a3 * x ^ 3)) ->
  forall (a b : R) (n : N), (2 <= n)%N ->
  definite_integral f a b n = Ok (RInt (fun x => a0 + a1 * x + a2 * x ^ 2 + a3 * x ^ 3) a b).
Proof. exact Proofs.QuadRInt.c05_simpson_exact_RInt. Qed.
Check c05_simpson_exact : forall (f : R -> res R) (a0 a1 a2 a3 : R),
  (forall x, f x = Ok (a0 + a1 * x + a2 * x ^ 2 + a3 * x ^ 3)) ->
  forall (a b : R) (n : N), (2 <= n)%N ->
  definite_integral f a b n = Ok (RInt (fun x => a0 + a1 * x + a2 * x ^ 2 + a3 * x ^ 3) a b).
Print Assumptions c05_simpson_exact.

(* SimplePolynomial with at most 4 coefficients: the value is F(b) - F(a), F the
   model's own antiderivative polynomial (indefinite_integral_simple) *)
Theorem c05_simpson_exact_simple : forall (p : spoly R), (length (s_coefs p) <= 4)%nat ->
  forall (a b : R) (n : N), (2 <= n)%N ->
  definite_integral (s_eval_univariate p) a b n =
  Ok (eval_simple (simple_integral p) b - eval_simple (simple_integral p) a).
Proof. exact Proofs.QuadSimpson.c05_simpson_exact. Qed.
Check c05_simpson_exact_simple : forall (p : spoly R), (length (s_coefs p) <= 4)%nat ->
  forall (a b : R) (n : N), (2 <= n)%N ->
  definite_integral (s_eval_univariate p) a b n =
  Ok (eval_simple (simple_integral p) b - eval_simple (simple_integral p) a).
Print Assumptions c05_simpson_exact_simple.

(* ---- one segment: the trapezoid rule, exact for degree <= 1 ---------------------- *)
Theorem c05_trapezoid_exact : forall (f : R -> res R) (a0 a1 : R),
  (forall x, f x = Ok (a0 + a1 * x)) ->
  forall a b : R, definite_integral f a b 1 = Ok (RInt (fun x => a0 + a1 * x) a b).
Proof. exact Proofs.QuadRInt.c05_trapezoid_exact_RInt. Qed.
Check c05_trapezoid_exact : forall (f : R -> res R) (a0 a1 : R),
  (forall x, f x = Ok (a0 + a1 * x)) ->
  forall a b : R, definite_integral f a b 1 = Ok (RInt (fun x => a0 + a1 * x) a b).
Print Assumptions c05_trapezoid_exact.

Theorem c05_trapezoid_exact_simple : forall (p : spoly R), (length (s_coefs p) <= 2)%nat ->
  forall a b : R,
  definite_integral (s_eval_univariate p) a b 1 =
  Ok (eval_simple (simple_integral p) b - eval_simple (simple_integral p) a).
Proof. exact Proofs.QuadSimpson.c05_trapezoid_exact. Qed.
Check c05_trapezoid_exact_simple : forall (p : spoly R), (length (s_coefs p) <= 2)%nat ->
  forall a b : R,
  definite_integral (s_eval_univariate p) a b 1 =
  Ok (eval_simple (simple_integral p) b - eval_simple (simple_integral p) a).
Print Assumptions c05_trapezoid_exact_simple.

Theorem c05_one_segment_is_trapezoid : forall (f : R -> R) (a b : R),
  definite_integral (fun x => Ok (f x)) a b 1 = Ok ((b - a) * (f a + f b) / 2).
Proof. exact Proofs.QuadSimpson.c05_one_segment_is_trapezoid. Qed.
Check c05_one_segment_is_trapezoid : forall (f : R -> R) (a b : R),
  definite_integral (fun x => Ok (f x)) a b 1 = Ok ((b - a) * (f a + f b) / 2).
Print Assumptions c05_one_segment_is_trapezoid.

(* ---- Romberg: whatever value is returned for a cubic is the exact integral, for
   every cap and every tolerance ----------------------------------------------------- *)
Theorem c05_romberg_exact : forall (f : R -> res R) (a0 a1 a2 a3 : R),
  (forall x, f x = Ok (a0 + a1 * x + a2 * x ^ 2 + a3 * x ^ 3)) ->
  forall (a b : R) (cap : N) (tol v : R),
  romberg f a b cap tol = Ok v ->
  v = RInt (fun x => a0 + a1 * x + a2 * x ^ 2 + a3 * x ^ 3) a b.
Proof. exact Proofs.QuadRInt.c05_romberg_exact_RInt. Qed.
Check c05_romberg_exact : forall (f : R -> res R) (a0 a1 a2 a3 : R),
  (forall x, f x = Ok (a0 + a1 * x + a2 * x ^ 2 + a3 * x ^ 3)) ->
  forall (a b : R) (cap : N) (tol v : R),
  romberg f a b cap tol = Ok v ->
  v = RInt (fun x => a0 + a1 * x + a2 * x ^ 2 + a3 * x ^ 3) a b.
Print Assumptions c05_romberg_exact.

Theorem c05_romberg_exact_simple : forall (p : spoly R), (length (s_coefs p) <= 4)%nat ->
  forall (a b : R) (cap : N) (tol v : R),
  romberg (s_eval_univariate p) a b cap tol = Ok v ->
  v = eval_simple (simple_integral p) b - eval_simple (simple_integral p) a.
Proof. exact Proofs.QuadRomberg.c05_romberg_exact. Qed.
Check c05_romberg_exact_simple : forall (p : spoly R), (length (s_coefs p) <= 4)%nat ->
  forall (a b : R) (cap : N) (tol v : R),
  romberg (s_eval_univariate p) a b cap tol = Ok v ->
  v = eval_simple (simple_integral p) b - eval_simple (simple_integral p) a.
Print Assumptions c05_romberg_exact_simple.

(* ... and (exact arithmetic) a value IS returned as soon as three iterations are
   allowed and the tolerance is not negative: [c05_romberg_exact] is not vacuous *)
Theorem c05_romberg_converges : forall (f : R -> res R) (a0 a1 a2 a3 : R),
  (forall x, f x = Ok (a0 + a1 * x + a2 * x ^ 2 + a3 * x ^ 3)) ->
  forall (a b : R) (cap : N) (tol : R), (3 <= cap)%N -> 0 <= tol ->
  romberg f a b cap tol = Ok (RInt (fun x => a0 + a1 * x + a2 * x ^ 2 + a3 * x ^ 3) a b).
Proof. exact Proofs.QuadRInt.c05_romberg_converges_RInt. Qed.
Check c05_romberg_converges : forall (f : R -> res R) (a0 a1 a2 a3 : R),
  (forall x, f x = Ok (a0 + a1 * x + a2 * x ^ 2 + a3 * x ^ 3)) ->
  forall (a b : R) (cap : N) (tol : R), (3 <= cap)%N -> 0 <= tol ->
  romberg f a b cap tol = Ok (RInt (fun x => a0 + a1 * x + a2 * x ^ 2 + a3 * x ^ 3) a b).
Print Assumptions c05_romberg_converges.

(* both clauses for the second polynomial type: the IntermediatePolynomial
   c3 v^3 + c2 v^2 + c1 v + c0 (terms in the parser's order, evaluated with powf) *)
Theorem c05_exact_inter : forall (v : name) (c0 c1 c2 c3 a b : R),
  (forall n : N, (2 <= n)%N ->
     definite_integral (i_eval_univariate (icubic v c0 c1 c2 c3)) a b n =
     Ok (RInt (fun x => c0 + c1 * x + c2 * x ^ 2 + c3 * x ^ 3) a b)) /\
  (forall (cap : N) (tol w : R),
     romberg (i_eval_univariate (icubic v c0 c1 c2 c3)) a b cap tol = Ok w ->
     w = RInt (fun x => c0 + c1 * x + c2 * x ^ 2 + c3 * x ^ 3) a b).
Proof. exact Proofs.QuadRInt.c05_exact_inter. Qed.
Check c05_exact_inter : forall (v : name) (c0 c1 c2 c3 a b : R),
  (forall n : N, (2 <= n)%N ->
     definite_integral (i_eval_univariate (icubic v c0 c1 c2 c3)) a b n =
     Ok (RInt (fun x => c0 + c1 * x + c2 * x ^ 2 + c3 * x ^ 3) a b)) /\
  (forall (cap : N) (tol w : R),
     romberg (i_eval_univariate (icubic v c0 c1 c2 c3)) a b cap tol = Ok w ->
     w = RInt (fun x => c0 + c1 * x + c2 * x ^ 2 + c3 * x ^ 3) a b).
Print Assumptions c05_exact_inter.

(* ---- no panic: every instance of Num (the float instance in particular), every
   cap — also caps above 64, where 2_usize.checked_pow fails — and every tolerance
   (NaN included).  "Never panics" is a statement about the model: table reads and
   writes are bounds-checked ([Panic WIndex]), the fuel of the loop is checked
   ([Panic WFuel]).  Assumption on the integrand: it never panics itself (it may
   return errors, which are propagated). ------------------------------------------- *)
Theorem c05_romberg_total : forall (T : Type) (NT : Num T) (f : T -> res T),
  (forall x, no_panic (f x)) ->
  forall (a b : T) (cap : N) (tol : T), no_panic (romberg f a b cap tol).
Proof. exact Proofs.Quad.c05_romberg_total. Qed.
Check c05_romberg_total : forall (T : Type) (NT : Num T) (f : T -> res T),
  (forall x, no_panic (f x)) ->
  forall (a b : T) (cap : N) (tol : T), no_panic (romberg f a b cap tol).
Print Assumptions c05_romberg_total.

(* ... which both polynomial types satisfy unconditionally *)
Theorem c05_romberg_total_polys : forall (T : Type) (NT : Num T) (a b : T) (cap : N) (tol : T),
  (forall p : spoly T, no_panic (romberg (s_eval_univariate p) a b cap tol)) /\
  (forall p : ipoly T, no_panic (romberg (i_eval_univariate p) a b cap tol)).
Proof. exact Proofs.Quad.c05_romberg_total_polys. Qed.
Check c05_romberg_total_polys : forall (T : Type) (NT : Num T) (a b : T) (cap : N) (tol : T),
  (forall p : spoly T, no_panic (romberg (s_eval_univariate p) a b cap tol)) /\
  (forall p : ipoly T, no_panic (romberg (i_eval_univariate p) a b cap tol)).
Print Assumptions c05_romberg_total_polys.

(* definite_integral never panics either, for every segment count (0 included):
   `remaining_segments -= 3` is reached only for odd counts >= 3 *)
Theorem c05_simpson_total : forall (T : Type) (NT : Num T) (f : T -> res T),
  (forall x, no_panic (f x)) ->
  forall (a b : T) (n : N), no_panic (definite_integral f a b n).
Proof. exact Proofs.Quad.c05_simpson_total. Qed.
Check c05_simpson_total : forall (T : Type) (NT : Num T) (f : T -> res T),
  (forall x, no_panic (f x)) ->
  forall (a b : T) (n : N), no_panic (definite_integral f a b n).
Print Assumptions c05_simpson_total.

(* ---- the error clause, for EVERY four times differentiable integrand (f1..f4 its
   derivatives, M any bound of |f4| on the interval), every interval (reversed and
   empty included) and every n >= 2: even, odd (3/8 panel spliced in) and 3.  This
   covers every polynomial degree, 5..8 in particular.  Proof: Proofs/QuadError.v
   (auxiliary-function argument per panel, mean value theorem, composite sum). ------ *)
Theorem c05_simpson_error : forall (fm : R -> res R) (f f1 f2 f3 f4 : R -> R),
  (forall x, fm x = Ok (f x)) ->
  (forall x, is_derive f x (f1 x)) -> (forall x, is_derive f1 x (f2 x)) ->
  (forall x, is_derive f2 x (f3 x)) -> (forall x, is_derive f3 x (f4 x)) ->
  forall (a b : R) (n : N) (M : R), (2 <= n)%N ->
  (forall x, Rmin a b <= x <= Rmax a b -> Rabs (f4 x) <= M) ->
  exists v, definite_integral fm a b n = Ok v /\
    Rabs (v - RInt f a b) <= Rabs (b - a) * ((b - a) / IZR (Z.of_N n)) ^ 4 * M / 80.
Proof. exact Proofs.QuadError.c05_simpson_error. Qed.
Check c05_simpson_error : forall (fm : R -> res R) (f f1 f2 f3 f4 : R -> R),
  (forall x, fm x = Ok (f x)) ->
  (forall x, is_derive f x (f1 x)) -> (forall x, is_derive f1 x (f2 x)) ->
  (forall x, is_derive f2 x (f3 x)) -> (forall x, is_derive f3 x (f4 x)) ->
  forall (a b : R) (n : N) (M : R), (2 <= n)%N ->
  (forall x, Rmin a b <= x <= Rmax a b -> Rabs (f4 x) <= M) ->
  exists v, definite_integral fm a b n = Ok v /\
    Rabs (v - RInt f a b) <= Rabs (b - a) * ((b - a) / IZR (Z.of_N n)) ^ 4 * M / 80.
Print Assumptions c05_simpson_error.

(* every SimplePolynomial, whatever its number of coefficients: the fourth derivative is
   the model's own simple_derivative applied four times ([sderiv4]) *)
Theorem c05_simpson_error_simple : forall (p : spoly R) (a b : R) (n : N) (M : R), (2 <= n)%N ->
  (forall x, Rmin a b <= x <= Rmax a b -> Rabs (eval_simple (sderiv4 p) x) <= M) ->
  exists v, definite_integral (s_eval_univariate p) a b n = Ok v /\
    Rabs (v - RInt (eval_simple p) a b) <= Rabs (b - a) * ((b - a) / IZR (Z.of_N n)) ^ 4 * M / 80.
Proof. exact Proofs.QuadError.c05_simpson_error_simple. Qed.
Check c05_simpson_error_simple : forall (p : spoly R) (a b : R) (n : N) (M : R), (2 <= n)%N ->
  (forall x, Rmin a b <= x <= Rmax a b -> Rabs (eval_simple (sderiv4 p) x) <= M) ->
  exists v, definite_integral (s_eval_univariate p) a b n = Ok v /\
    Rabs (v - RInt (eval_simple p) a b) <= Rabs (b - a) * ((b - a) / IZR (Z.of_N n)) ^ 4 * M / 80.
Print Assumptions c05_simpson_error_simple.

(* the degree-4 instance in closed form (kept from the first round; now a special case of
   [c05_simpson_error]) and the fact that for n = 3 the bound is attained: the constant
   1/80 is the best possible *)
Theorem c05_simpson_error_partial : forall (f : R -> res R) (a0 a1 a2 a3 a4 : R),
  (forall x, f x = Ok (a0 + a1 * x + a2 * x ^ 2 + a3 * x ^ 3 + a4 * x ^ 4)) ->
  forall (a b : R) (n : N), (2 <= n)%N ->
  exists v, definite_integral f a b n = Ok v /\
    Rabs (v - RInt (fun x => a0 + a1 * x + a2 * x ^ 2 + a3 * x ^ 3 + a4 * x ^ 4) a b) <=
    Rabs (b - a) * ((b - a) / IZR (Z.of_N n)) ^ 4 * Rabs (24 * a4) / 80.
Proof. exact Proofs.QuadRInt.c05_simpson_error_quartic_RInt. Qed.
Check c05_simpson_error_partial : forall (f : R -> res R) (a0 a1 a2 a3 a4 : R),
  (forall x, f x = Ok (a0 + a1 * x + a2 * x ^ 2 + a3 * x ^ 3 + a4 * x ^ 4)) ->
  forall (a b : R) (n : N), (2 <= n)%N ->
  exists v, definite_integral f a b n = Ok v /\
    Rabs (v - RInt (fun x => a0 + a1 * x + a2 * x ^ 2 + a3 * x ^ 3 + a4 * x ^ 4) a b) <=
    Rabs (b - a) * ((b - a) / IZR (Z.of_N n)) ^ 4 * Rabs (24 * a4) / 80.
Print Assumptions c05_simpson_error_partial.

Theorem c05_simpson_error_tight_n3 : forall (f : R -> res R) (a0 a1 a2 a3 a4 : R),
  (forall x, f x = Ok (a0 + a1 * x + a2 * x ^ 2 + a3 * x ^ 3 + a4 * x ^ 4)) ->
  forall (a b : R),
  exists v, definite_integral f a b 3 = Ok v /\
    Rabs (v - RInt (fun x => a0 + a1 * x + a2 * x ^ 2 + a3 * x ^ 3 + a4 * x ^ 4) a b) =
    Rabs (b - a) * ((b - a) / 3) ^ 4 * Rabs (24 * a4) / 80.
Proof. exact Proofs.QuadRInt.c05_simpson_error_tight_n3_RInt. Qed.
Check c05_simpson_error_tight_n3 : forall (f : R -> res R) (a0 a1 a2 a3 a4 : R),
  (forall x, f x = Ok (a0 + a1 * x + a2 * x ^ 2 + a3 * x ^ 3 + a4 * x ^ 4)) ->
  forall (a b : R),
  exists v, definite_integral f a b 3 = Ok v /\
    Rabs (v - RInt (fun x => a0 + a1 * x + a2 * x ^ 2 + a3 * x ^ 3 + a4 * x ^ 4) a b) =
    Rabs (b - a) * ((b - a) / 3) ^ 4 * Rabs (24 * a4) / 80.
Print Assumptions c05_simpson_error_tight_n3.

(* the hypotheses of [c05_simpson_error_simple] are met by x^5 on [0,1] with M = 120 *)
Example c05_error_nonvacuous :
  let p : spoly R := {| s_coefs := [0; 0; 0; 0; 0; 1]; s_var := Some 120%N |} in
  forall x, Rmin 0 1 <= x <= Rmax 0 1 -> Rabs (eval_simple (sderiv4 p) x) <= 120.
Proof.
  cbv zeta. intros x Hx. rewrite Rmin_left, Rmax_right in Hx by lra.
  rewrite Proofs.QuadError.eval_simple_psum.
  unfold sderiv4, simple_derivative. cbn [s_coefs deriv_coefs_from psum].
  unfold nofnat. cbn [nmul nofZ RNum Z.of_nat Pos.of_succ_nat Pos.succ].
  apply Rabs_le. lra.
Qed.

(* ---- non-vacuity ------------------------------------------------------------------- *)
(* the hypothesis "f is a cubic" is met by both polynomial types, and the hypotheses
   of the SimplePolynomial forms by a concrete polynomial *)
Example c05_nonvacuous_simple :
  let p : spoly R := {| s_coefs := [1; 2; 3; 4]; s_var := Some 120%N |} in
  (length (s_coefs p) <= 4)%nat /\ (2 <= 5)%N /\
  definite_integral (s_eval_univariate p) 0 1 5 =
    Ok (eval_simple (simple_integral p) 1 - eval_simple (simple_integral p) 0).
Proof.
  cbv zeta. split; [cbn; lia|]. split; [lia|].
  apply Proofs.QuadSimpson.c05_simpson_exact; [cbn; lia|lia].
Qed.

Example c05_nonvacuous_inter : forall x : R,
  i_eval_univariate (icubic [120%N] 1 2 3 4) x = Ok (1 + 2 * x + 3 * x ^ 2 + 4 * x ^ 3).
Proof. intro x. apply Proofs.QuadSimpson.i_eval_cubic. Qed.

(* "romberg ... = Ok v" happens: exact arithmetic, cap 3, tolerance 0 *)
Example c05_nonvacuous_romberg :
  exists v, romberg (i_eval_univariate (icubic [120%N] 1 2 3 4)) 0 1 3 0 = Ok v.
Proof.
  eexists. apply Proofs.QuadRomberg.c05_romberg_converges_cubic; [|lia|apply Rle_refl].
  intro x. apply Proofs.QuadSimpson.i_eval_cubic.
Qed.

(* the float instance that is run against the crate returns a value, an error, and
   reaches the checked-power exit (cap above 64, tolerance NaN), without panicking *)
Example c05_float_runs :
  let p : spoly float := {| s_coefs := [1; 2; 3; 4]%float; s_var := Some 120%N |} in
  is_ok (romberg (s_eval_univariate p) 0%float 1%float 8 0x1p-20%float) = true /\
  romberg (s_eval_univariate p) 0%float 1%float 2 0%float = Err EMaxIterationsReached /\
  is_ok (definite_integral (s_eval_univariate p) 0%float 1%float 7) = true.
Proof. vm_compute. repeat split. Qed.

(* ---- rounding of the accumulation, binary64 instance (Proofs/QuadFloat.v).  The integrand f is
   arbitrary; the bounds compare the returned float with the exact weighted sum of the values f
   returned at the nodes the loop visited.  eps = 2^-53.  Not covered: node placement (x_i versus
   a + i*h) and the integrand's own rounding (polynomials: C01 [c01_eval_simple_float_error]). ---- *)
From Flocq Require Import Core BinarySingleNaN PrimFloat.
From SV Require Import Model.Stats Proofs.Stats Proofs.StatsFloat Proofs.PolyFloat Proofs.SubstFloat Proofs.QuadFloat.

(* generic (every instance of Num): a returned value comes with the samples the loop took —
   x_0 = a, x_(i+1) = x_i + h computed in T ([tnode]), the last value at `end_` — and is the closed form *)
Theorem c05_trapezoid_samples : forall (T : Type) (NT : Num T) (f : T -> res T) (a b : T) (m : nat) (r : T),
  trapezoid f a b (N.of_nat m) = Ok r ->
  exists v0 vs ve,
    f a = Ok v0 /\ length vs = (m - 1)%nat /\
    (forall i, (i < length vs)%nat ->
       f (tnode (ndiv (nsub b a) (nofN (N.of_nat m))) a (S i)) = Ok (nth i vs n0)) /\
    f b = Ok ve /\
    r = ndiv (nmul (ndiv (nsub b a) (nofN (N.of_nat m)))
                   (nadd (fold_left (fun s v => nadd s (nmul ntwo v)) vs v0) ve)) ntwo.
Proof. exact (@Proofs.QuadFloat.trapezoid_samples). Qed.
Check c05_trapezoid_samples : forall (T : Type) (NT : Num T) (f : T -> res T) (a b : T) (m : nat) (r : T),
  trapezoid f a b (N.of_nat m) = Ok r ->
  exists v0 vs ve,
    f a = Ok v0 /\ length vs = (m - 1)%nat /\
    (forall i, (i < length vs)%nat ->
       f (tnode (ndiv (nsub b a) (nofN (N.of_nat m))) a (S i)) = Ok (nth i vs n0)) /\
    f b = Ok ve /\
    r = ndiv (nmul (ndiv (nsub b a) (nofN (N.of_nat m)))
                   (nadd (fold_left (fun s v => nadd s (nmul ntwo v)) vs v0) ve)) ntwo.
Print Assumptions c05_trapezoid_samples.

(* the same for the 1/3 rule: panel end nodes y_(j+1) = y_j + 2h ([snode]), midpoints y_(j+1) - h *)
Theorem c05_simpson13_samples : forall (T : Type) (NT : Num T) (f : T -> res T) (h a : T) (p : nat) (r : T),
  simpson13 f h a (N.of_nat (2 * p)) = Ok r ->
  exists v0 ps vm ve,
    f a = Ok v0 /\ length ps = (p - 1)%nat /\
    (forall j, (j < length ps)%nat ->
       f (nsub (snode h a (S j)) h) = Ok (fst (nth j ps (n0, n0))) /\
       f (snode h a (S j)) = Ok (snd (nth j ps (n0, n0)))) /\
    f (nsub (snode h a (S (p - 1))) h) = Ok vm /\ f (snode h a (S (p - 1))) = Ok ve /\
    r = ndiv (nmul h (nadd (fold_left (fun s q => nadd s (nadd (nmul (nofZ 4) (fst q)) (nmul ntwo (snd q)))) ps v0)
                           (nadd (nmul (nofZ 4) vm) ve))) (nofZ 3).
Proof. exact (@Proofs.QuadFloat.simpson13_samples). Qed.
Check c05_simpson13_samples : forall (T : Type) (NT : Num T) (f : T -> res T) (h a : T) (p : nat) (r : T),
  simpson13 f h a (N.of_nat (2 * p)) = Ok r ->
  exists v0 ps vm ve,
    f a = Ok v0 /\ length ps = (p - 1)%nat /\
    (forall j, (j < length ps)%nat ->
       f (nsub (snode h a (S j)) h) = Ok (fst (nth j ps (n0, n0))) /\
       f (snode h a (S j)) = Ok (snd (nth j ps (n0, n0)))) /\
    f (nsub (snode h a (S (p - 1))) h) = Ok vm /\ f (snode h a (S (p - 1))) = Ok ve /\
    r = ndiv (nmul h (nadd (fold_left (fun s q => nadd s (nadd (nmul (nofZ 4) (fst q)) (nmul ntwo (snd q)))) ps v0)
                           (nadd (nmul (nofZ 4) vm) ve))) (nofZ 3).
Print Assumptions c05_simpson13_samples.

(* binary64 trapezoid, m segments: with v0 = f(a), vs = the values f returned at the computed nodes
   x_1..x_(m-1), ve = f(b); [trap_terms vs ve] = [2*v_1; ..; 2*v_(m-1); ve] accumulated left to right from v0.
   Hypotheses: every partial sum finite (then the doublings are finite and exact), h*sum and the division
   by 2 without overflow/underflow ([okmul]/[okdiv]: finite, exact value zero or >= 2^-1022 in magnitude).
   m additions + 1 product + 1 division: exponent m + 2. *)
Theorem c05_trapezoid_float_error : forall (f : PrimFloat.float -> res PrimFloat.float) (a b : PrimFloat.float) (m : nat)
         (r v0 ve : PrimFloat.float) (vs : list PrimFloat.float),
  (1 <= m)%nat ->
  @trapezoid PrimFloat.float FNum f a b (N.of_nat m) = Ok r ->
  let h := PrimFloat.div (PrimFloat.sub b a) (@nofN PrimFloat.float FNum (N.of_nat m)) in
  f a = Ok v0 -> length vs = (m - 1)%nat ->
  (forall i, (i < length vs)%nat -> f (@tnode PrimFloat.float FNum h a (S i)) = Ok (nth i vs PrimFloat.zero)) ->
  f b = Ok ve ->
  (forall k, (k <= m)%nat ->
     is_finite (Prim2B (fold_left PrimFloat.add (firstn k (trap_terms vs ve)) v0)) = true) ->
  okmul h (fold_left PrimFloat.add (trap_terms vs ve) v0) ->
  okdiv (PrimFloat.mul h (fold_left PrimFloat.add (trap_terms vs ve) v0)) (@ntwo PrimFloat.float FNum) ->
  is_finite (Prim2B r) = true /\
  Rabs (B2R (Prim2B r) -
        B2R (Prim2B h) * (B2R (Prim2B v0) + 2 * Rsum (map (fun v => B2R (Prim2B v)) vs) + B2R (Prim2B ve)) / 2) <=
    ((1 + bpow radix2 (-53)) ^ (m + 2) - 1) * Rabs (B2R (Prim2B h)) *
    (Rabs (B2R (Prim2B v0)) + 2 * Rsum (map (fun v => Rabs (B2R (Prim2B v))) vs) + Rabs (B2R (Prim2B ve))) / 2.
Proof. exact Proofs.QuadFloat.trapezoid_float_error. Qed.
Check c05_trapezoid_float_error : forall (f : PrimFloat.float -> res PrimFloat.float) (a b : PrimFloat.float) (m : nat)
         (r v0 ve : PrimFloat.float) (vs : list PrimFloat.float),
  (1 <= m)%nat ->
  @trapezoid PrimFloat.float FNum f a b (N.of_nat m) = Ok r ->
  let h := PrimFloat.div (PrimFloat.sub b a) (@nofN PrimFloat.float FNum (N.of_nat m)) in
  f a = Ok v0 -> length vs = (m - 1)%nat ->
  (forall i, (i < length vs)%nat -> f (@tnode PrimFloat.float FNum h a (S i)) = Ok (nth i vs PrimFloat.zero)) ->
  f b = Ok ve ->
  (forall k, (k <= m)%nat ->
     is_finite (Prim2B (fold_left PrimFloat.add (firstn k (trap_terms vs ve)) v0)) = true) ->
  okmul h (fold_left PrimFloat.add (trap_terms vs ve) v0) ->
  okdiv (PrimFloat.mul h (fold_left PrimFloat.add (trap_terms vs ve) v0)) (@ntwo PrimFloat.float FNum) ->
  is_finite (Prim2B r) = true /\
  Rabs (B2R (Prim2B r) -
        B2R (Prim2B h) * (B2R (Prim2B v0) + 2 * Rsum (map (fun v => B2R (Prim2B v)) vs) + B2R (Prim2B ve)) / 2) <=
    ((1 + bpow radix2 (-53)) ^ (m + 2) - 1) * Rabs (B2R (Prim2B h)) *
    (Rabs (B2R (Prim2B v0)) + 2 * Rsum (map (fun v => Rabs (B2R (Prim2B v))) vs) + Rabs (B2R (Prim2B ve))) / 2.
Print Assumptions c05_trapezoid_float_error.

(* binary64 1/3 rule, 2p segments: ps = (value at midpoint, value at end node) of panels 1..p-1, (vm, ve) those
   of the last panel; [s13_terms ps vm ve] = [fl(4 vm_1 + 2 ve_1); ..; fl(4 vm + ve)] accumulated from v0.
   p additions + 1 rounding inside each panel term + 1 product + 1 division: exponent p + 3. *)
Theorem c05_simpson13_float_error : forall (f : PrimFloat.float -> res PrimFloat.float) (h a : PrimFloat.float) (p : nat)
         (r v0 vm ve : PrimFloat.float) (ps : list (PrimFloat.float * PrimFloat.float)),
  (1 <= p)%nat ->
  @simpson13 PrimFloat.float FNum f h a (N.of_nat (2 * p)) = Ok r ->
  f a = Ok v0 -> length ps = (p - 1)%nat ->
  (forall j, (j < length ps)%nat ->
     f (PrimFloat.sub (@snode PrimFloat.float FNum h a (S j)) h) = Ok (fst (nth j ps (PrimFloat.zero, PrimFloat.zero))) /\
     f (@snode PrimFloat.float FNum h a (S j)) = Ok (snd (nth j ps (PrimFloat.zero, PrimFloat.zero)))) ->
  f (PrimFloat.sub (@snode PrimFloat.float FNum h a p) h) = Ok vm ->
  f (@snode PrimFloat.float FNum h a p) = Ok ve ->
  (forall k, (k <= p)%nat ->
     is_finite (Prim2B (fold_left PrimFloat.add (firstn k (s13_terms ps vm ve)) v0)) = true) ->
  okmul h (fold_left PrimFloat.add (s13_terms ps vm ve) v0) ->
  okdiv (PrimFloat.mul h (fold_left PrimFloat.add (s13_terms ps vm ve) v0)) (@nofZ PrimFloat.float FNum 3) ->
  is_finite (Prim2B r) = true /\
  Rabs (B2R (Prim2B r) -
        B2R (Prim2B h) *
          (B2R (Prim2B v0)
           + Rsum (map (fun q => 4 * B2R (Prim2B (fst q)) + 2 * B2R (Prim2B (snd q))) ps)
           + 4 * B2R (Prim2B vm) + B2R (Prim2B ve)) / 3) <=
    ((1 + bpow radix2 (-53)) ^ (p + 3) - 1) * Rabs (B2R (Prim2B h)) *
    (Rabs (B2R (Prim2B v0))
     + Rsum (map (fun q => 4 * Rabs (B2R (Prim2B (fst q))) + 2 * Rabs (B2R (Prim2B (snd q)))) ps)
     + 4 * Rabs (B2R (Prim2B vm)) + Rabs (B2R (Prim2B ve))) / 3.
Proof. exact Proofs.QuadFloat.simpson13_float_error. Qed.
Check c05_simpson13_float_error : forall (f : PrimFloat.float -> res PrimFloat.float) (h a : PrimFloat.float) (p : nat)
         (r v0 vm ve : PrimFloat.float) (ps : list (PrimFloat.float * PrimFloat.float)),
  (1 <= p)%nat ->
  @simpson13 PrimFloat.float FNum f h a (N.of_nat (2 * p)) = Ok r ->
  f a = Ok v0 -> length ps = (p - 1)%nat ->
  (forall j, (j < length ps)%nat ->
     f (PrimFloat.sub (@snode PrimFloat.float FNum h a (S j)) h) = Ok (fst (nth j ps (PrimFloat.zero, PrimFloat.zero))) /\
     f (@snode PrimFloat.float FNum h a (S j)) = Ok (snd (nth j ps (PrimFloat.zero, PrimFloat.zero)))) ->
  f (PrimFloat.sub (@snode PrimFloat.float FNum h a p) h) = Ok vm ->
  f (@snode PrimFloat.float FNum h a p) = Ok ve ->
  (forall k, (k <= p)%nat ->
     is_finite (Prim2B (fold_left PrimFloat.add (firstn k (s13_terms ps vm ve)) v0)) = true) ->
  okmul h (fold_left PrimFloat.add (s13_terms ps vm ve) v0) ->
  okdiv (PrimFloat.mul h (fold_left PrimFloat.add (s13_terms ps vm ve) v0)) (@nofZ PrimFloat.float FNum 3) ->
  is_finite (Prim2B r) = true /\
  Rabs (B2R (Prim2B r) -
        B2R (Prim2B h) *
          (B2R (Prim2B v0)
           + Rsum (map (fun q => 4 * B2R (Prim2B (fst q)) + 2 * B2R (Prim2B (snd q))) ps)
           + 4 * B2R (Prim2B vm) + B2R (Prim2B ve)) / 3) <=
    ((1 + bpow radix2 (-53)) ^ (p + 3) - 1) * Rabs (B2R (Prim2B h)) *
    (Rabs (B2R (Prim2B v0))
     + Rsum (map (fun q => 4 * Rabs (B2R (Prim2B (fst q))) + 2 * Rabs (B2R (Prim2B (snd q)))) ps)
     + 4 * Rabs (B2R (Prim2B vm)) + Rabs (B2R (Prim2B ve))) / 3.
Print Assumptions c05_simpson13_float_error.

(* definite_integral with an even segment count 2p >= 2: dispatch to the 1/3 rule with h = (b - a)/(2p) as
   computed, then `0.0 + s` (exact in value) *)
Theorem c05_definite_integral_even_float_error : forall (f : PrimFloat.float -> res PrimFloat.float) (a b : PrimFloat.float) (p : nat)
         (r v0 vm ve : PrimFloat.float) (ps : list (PrimFloat.float * PrimFloat.float)),
  (1 <= p)%nat ->
  @definite_integral PrimFloat.float FNum f a b (N.of_nat (2 * p)) = Ok r ->
  let h := PrimFloat.div (PrimFloat.sub b a) (@nofN PrimFloat.float FNum (N.of_nat (2 * p))) in
  f a = Ok v0 -> length ps = (p - 1)%nat ->
  (forall j, (j < length ps)%nat ->
     f (PrimFloat.sub (@snode PrimFloat.float FNum h a (S j)) h) = Ok (fst (nth j ps (PrimFloat.zero, PrimFloat.zero))) /\
     f (@snode PrimFloat.float FNum h a (S j)) = Ok (snd (nth j ps (PrimFloat.zero, PrimFloat.zero)))) ->
  f (PrimFloat.sub (@snode PrimFloat.float FNum h a p) h) = Ok vm ->
  f (@snode PrimFloat.float FNum h a p) = Ok ve ->
  (forall k, (k <= p)%nat ->
     is_finite (Prim2B (fold_left PrimFloat.add (firstn k (s13_terms ps vm ve)) v0)) = true) ->
  okmul h (fold_left PrimFloat.add (s13_terms ps vm ve) v0) ->
  okdiv (PrimFloat.mul h (fold_left PrimFloat.add (s13_terms ps vm ve) v0)) (@nofZ PrimFloat.float FNum 3) ->
  is_finite (Prim2B r) = true /\
  Rabs (B2R (Prim2B r) -
        B2R (Prim2B h) *
          (B2R (Prim2B v0)
           + Rsum (map (fun q => 4 * B2R (Prim2B (fst q)) + 2 * B2R (Prim2B (snd q))) ps)
           + 4 * B2R (Prim2B vm) + B2R (Prim2B ve)) / 3) <=
    ((1 + bpow radix2 (-53)) ^ (p + 3) - 1) * Rabs (B2R (Prim2B h)) *
    (Rabs (B2R (Prim2B v0))
     + Rsum (map (fun q => 4 * Rabs (B2R (Prim2B (fst q))) + 2 * Rabs (B2R (Prim2B (snd q)))) ps)
     + 4 * Rabs (B2R (Prim2B vm)) + Rabs (B2R (Prim2B ve))) / 3.
Proof. exact Proofs.QuadFloat.definite_integral_even_float_error. Qed.
Check c05_definite_integral_even_float_error : forall (f : PrimFloat.float -> res PrimFloat.float) (a b : PrimFloat.float) (p : nat)
         (r v0 vm ve : PrimFloat.float) (ps : list (PrimFloat.float * PrimFloat.float)),
  (1 <= p)%nat ->
  @definite_integral PrimFloat.float FNum f a b (N.of_nat (2 * p)) = Ok r ->
  let h := PrimFloat.div (PrimFloat.sub b a) (@nofN PrimFloat.float FNum (N.of_nat (2 * p))) in
  f a = Ok v0 -> length ps = (p - 1)%nat ->
  (forall j, (j < length ps)%nat ->
     f (PrimFloat.sub (@snode PrimFloat.float FNum h a (S j)) h) = Ok (fst (nth j ps (PrimFloat.zero, PrimFloat.zero))) /\
     f (@snode PrimFloat.float FNum h a (S j)) = Ok (snd (nth j ps (PrimFloat.zero, PrimFloat.zero)))) ->
  f (PrimFloat.sub (@snode PrimFloat.float FNum h a p) h) = Ok vm ->
  f (@snode PrimFloat.float FNum h a p) = Ok ve ->
  (forall k, (k <= p)%nat ->
     is_finite (Prim2B (fold_left PrimFloat.add (firstn k (s13_terms ps vm ve)) v0)) = true) ->
  okmul h (fold_left PrimFloat.add (s13_terms ps vm ve) v0) ->
  okdiv (PrimFloat.mul h (fold_left PrimFloat.add (s13_terms ps vm ve) v0)) (@nofZ PrimFloat.float FNum 3) ->
  is_finite (Prim2B r) = true /\
  Rabs (B2R (Prim2B r) -
        B2R (Prim2B h) *
          (B2R (Prim2B v0)
           + Rsum (map (fun q => 4 * B2R (Prim2B (fst q)) + 2 * B2R (Prim2B (snd q))) ps)
           + 4 * B2R (Prim2B vm) + B2R (Prim2B ve)) / 3) <=
    ((1 + bpow radix2 (-53)) ^ (p + 3) - 1) * Rabs (B2R (Prim2B h)) *
    (Rabs (B2R (Prim2B v0))
     + Rsum (map (fun q => 4 * Rabs (B2R (Prim2B (fst q))) + 2 * Rabs (B2R (Prim2B (snd q)))) ps)
     + 4 * Rabs (B2R (Prim2B vm)) + Rabs (B2R (Prim2B ve))) / 3.
Print Assumptions c05_definite_integral_even_float_error.

(* the hypotheses of the three float theorems are satisfiable: f(x) = x*x (one binary64 product) on [0,1]
   with 4 segments; every hypothesis is discharged by computation (Proofs/QuadFloat.v) *)
Example c05_trapezoid_float_nonvacuous :
  exists r, @trapezoid PrimFloat.float FNum ex_sq 0%float 1%float 4 = Ok r /\
  is_finite (Prim2B r) = true /\
  Rabs (B2R (Prim2B r) -
        B2R (Prim2B 0x1p-2%float) *
          (B2R (Prim2B 0%float) + 2 * Rsum (map (fun v => B2R (Prim2B v)) ex_trap_vs) + B2R (Prim2B 1%float)) / 2) <=
    ((1 + bpow radix2 (-53)) ^ 6 - 1) * Rabs (B2R (Prim2B 0x1p-2%float)) *
    (Rabs (B2R (Prim2B 0%float)) + 2 * Rsum (map (fun v => Rabs (B2R (Prim2B v))) ex_trap_vs)
     + Rabs (B2R (Prim2B 1%float))) / 2.
Proof. exact Proofs.QuadFloat.ex_trapezoid_float_error. Qed.

Example c05_simpson_float_nonvacuous :
  exists r, @definite_integral PrimFloat.float FNum ex_sq 0%float 1%float 4 = Ok r /\
  is_finite (Prim2B r) = true /\
  Rabs (B2R (Prim2B r) -
        B2R (Prim2B 0x1p-2%float) *
          (B2R (Prim2B 0%float)
           + Rsum (map (fun q => 4 * B2R (Prim2B (fst q)) + 2 * B2R (Prim2B (snd q))) ex_s13_ps)
           + 4 * B2R (Prim2B 0x1.2p-1%float) + B2R (Prim2B 1%float)) / 3) <=
    ((1 + bpow radix2 (-53)) ^ 5 - 1) * Rabs (B2R (Prim2B 0x1p-2%float)) *
    (Rabs (B2R (Prim2B 0%float))
     + Rsum (map (fun q => 4 * Rabs (B2R (Prim2B (fst q))) + 2 * Rabs (B2R (Prim2B (snd q)))) ex_s13_ps)
     + 4 * Rabs (B2R (Prim2B 0x1.2p-1%float)) + Rabs (B2R (Prim2B 1%float))) / 3.
Proof. exact Proofs.QuadFloat.ex_simpson_float_error. Qed.

(* binary64 3/8 panel (spliced in for odd segment counts) at the points the caller passes: the products 3*f_1,
   3*f_2, 3*h, (3h)*sum without overflow/underflow ([okmul]), the three partial sums finite, the division by 8
   [okdiv].  7 roundings on the longest path: exponent 7.  The assembly of the odd dispatch (this panel + the
   1/3 rule on the remaining segments + one addition) is [c05_definite_integral_odd_float_error] below. *)
Theorem c05_simpson38_float_error : forall (f : PrimFloat.float -> res PrimFloat.float) (h p0 p1 p2 p3 r f0 f1 f2 f3 : PrimFloat.float),
  @simpson38 PrimFloat.float FNum f h p0 p1 p2 p3 = Ok r ->
  f p0 = Ok f0 -> f p1 = Ok f1 -> f p2 = Ok f2 -> f p3 = Ok f3 ->
  let three := @nofZ PrimFloat.float FNum 3 in
  let t1 := PrimFloat.mul three f1 in
  let t2 := PrimFloat.mul three f2 in
  let s := PrimFloat.add (PrimFloat.add (PrimFloat.add f0 t1) t2) f3 in
  okmul three f1 -> okmul three f2 ->
  is_finite (Prim2B (PrimFloat.add f0 t1)) = true ->
  is_finite (Prim2B (PrimFloat.add (PrimFloat.add f0 t1) t2)) = true ->
  is_finite (Prim2B s) = true ->
  okmul three h -> okmul (PrimFloat.mul three h) s ->
  okdiv (PrimFloat.mul (PrimFloat.mul three h) s) (@nofZ PrimFloat.float FNum 8) ->
  is_finite (Prim2B r) = true /\
  Rabs (B2R (Prim2B r) -
        3 * B2R (Prim2B h) *
          (B2R (Prim2B f0) + 3 * B2R (Prim2B f1) + 3 * B2R (Prim2B f2) + B2R (Prim2B f3)) / 8) <=
    ((1 + bpow radix2 (-53)) ^ 7 - 1) * (3 * Rabs (B2R (Prim2B h))) *
    (Rabs (B2R (Prim2B f0)) + 3 * Rabs (B2R (Prim2B f1)) + 3 * Rabs (B2R (Prim2B f2))
     + Rabs (B2R (Prim2B f3))) / 8.
Proof. exact Proofs.QuadFloat.simpson38_float_error. Qed.
Check c05_simpson38_float_error : forall (f : PrimFloat.float -> res PrimFloat.float) (h p0 p1 p2 p3 r f0 f1 f2 f3 : PrimFloat.float),
  @simpson38 PrimFloat.float FNum f h p0 p1 p2 p3 = Ok r ->
  f p0 = Ok f0 -> f p1 = Ok f1 -> f p2 = Ok f2 -> f p3 = Ok f3 ->
  let three := @nofZ PrimFloat.float FNum 3 in
  let t1 := PrimFloat.mul three f1 in
  let t2 := PrimFloat.mul three f2 in
  let s := PrimFloat.add (PrimFloat.add (PrimFloat.add f0 t1) t2) f3 in
  okmul three f1 -> okmul three f2 ->
  is_finite (Prim2B (PrimFloat.add f0 t1)) = true ->
  is_finite (Prim2B (PrimFloat.add (PrimFloat.add f0 t1) t2)) = true ->
  is_finite (Prim2B s) = true ->
  okmul three h -> okmul (PrimFloat.mul three h) s ->
  okdiv (PrimFloat.mul (PrimFloat.mul three h) s) (@nofZ PrimFloat.float FNum 8) ->
  is_finite (Prim2B r) = true /\
  Rabs (B2R (Prim2B r) -
        3 * B2R (Prim2B h) *
          (B2R (Prim2B f0) + 3 * B2R (Prim2B f1) + 3 * B2R (Prim2B f2) + B2R (Prim2B f3)) / 8) <=
    ((1 + bpow radix2 (-53)) ^ 7 - 1) * (3 * Rabs (B2R (Prim2B h))) *
    (Rabs (B2R (Prim2B f0)) + 3 * Rabs (B2R (Prim2B f1)) + 3 * Rabs (B2R (Prim2B f2))
     + Rabs (B2R (Prim2B f3))) / 8.
Print Assumptions c05_simpson38_float_error.

Example c05_simpson38_float_nonvacuous :
  exists r, @simpson38 PrimFloat.float FNum ex_sq 0x1p-2%float 0%float 0x1p-2%float 0x1p-1%float 0x1.8p-1%float = Ok r /\
  is_finite (Prim2B r) = true /\
  Rabs (B2R (Prim2B r) -
        3 * B2R (Prim2B 0x1p-2%float) *
          (B2R (Prim2B 0%float) + 3 * B2R (Prim2B 0x1p-4%float) + 3 * B2R (Prim2B 0x1p-2%float)
           + B2R (Prim2B 0x1.2p-1%float)) / 8) <=
    ((1 + bpow radix2 (-53)) ^ 7 - 1) * (3 * Rabs (B2R (Prim2B 0x1p-2%float))) *
    (Rabs (B2R (Prim2B 0%float)) + 3 * Rabs (B2R (Prim2B 0x1p-4%float)) + 3 * Rabs (B2R (Prim2B 0x1p-2%float))
     + Rabs (B2R (Prim2B 0x1.2p-1%float))) / 8.
Proof. exact Proofs.QuadFloat.ex_simpson38_float_error. Qed.

(* ---- definite_integral, binary64, EVERY segment count >= 1: 1 (trapezoid), 2p (above), 3 (the 3/8 panel
   alone) and 2p+3 with p >= 1 (3/8 panel on the last three segments at q_i = b - h*i as computed, evaluated
   first; 1/3 rule on the first 2p segments; r = fl(fl(0 + s38) + s13): one rounding more than the larger of
   the two exponents).  Hypotheses: the union of the two families plus "r is finite". ---- *)
(* one segment: dispatch to the trapezoid rule; 1 addition + 1 product + 1 division *)
Theorem c05_definite_integral_one_float_error :
  forall (f : PrimFloat.float -> res PrimFloat.float) (a b r v0 ve : PrimFloat.float),
  @definite_integral PrimFloat.float FNum f a b 1 = Ok r ->
  let h := PrimFloat.div (PrimFloat.sub b a) (@nofN PrimFloat.float FNum 1) in
  f a = Ok v0 -> f b = Ok ve ->
  is_finite (Prim2B (PrimFloat.add v0 ve)) = true ->
  okmul h (PrimFloat.add v0 ve) ->
  okdiv (PrimFloat.mul h (PrimFloat.add v0 ve)) (@ntwo PrimFloat.float FNum) ->
  is_finite (Prim2B r) = true /\
  Rabs (B2R (Prim2B r) - B2R (Prim2B h) * (B2R (Prim2B v0) + B2R (Prim2B ve)) / 2) <=
    ((1 + bpow radix2 (-53)) ^ 3 - 1) * Rabs (B2R (Prim2B h)) *
    (Rabs (B2R (Prim2B v0)) + Rabs (B2R (Prim2B ve))) / 2.
Proof. exact Proofs.QuadFloat.definite_integral_one_float_error. Qed.
Check c05_definite_integral_one_float_error :
  forall (f : PrimFloat.float -> res PrimFloat.float) (a b r v0 ve : PrimFloat.float),
  @definite_integral PrimFloat.float FNum f a b 1 = Ok r ->
  let h := PrimFloat.div (PrimFloat.sub b a) (@nofN PrimFloat.float FNum 1) in
  f a = Ok v0 -> f b = Ok ve ->
  is_finite (Prim2B (PrimFloat.add v0 ve)) = true ->
  okmul h (PrimFloat.add v0 ve) ->
  okdiv (PrimFloat.mul h (PrimFloat.add v0 ve)) (@ntwo PrimFloat.float FNum) ->
  is_finite (Prim2B r) = true /\
  Rabs (B2R (Prim2B r) - B2R (Prim2B h) * (B2R (Prim2B v0) + B2R (Prim2B ve)) / 2) <=
    ((1 + bpow radix2 (-53)) ^ 3 - 1) * Rabs (B2R (Prim2B h)) *
    (Rabs (B2R (Prim2B v0)) + Rabs (B2R (Prim2B ve))) / 2.
Print Assumptions c05_definite_integral_one_float_error.

(* three segments: only the 3/8 panel runs (`remaining` = 0), then `0.0 + s` (exact in value) *)
Theorem c05_definite_integral_three_float_error :
  forall (f : PrimFloat.float -> res PrimFloat.float) (a b r g0 g1 g2 g3 : PrimFloat.float),
  @definite_integral PrimFloat.float FNum f a b 3 = Ok r ->
  let h := PrimFloat.div (PrimFloat.sub b a) (@nofN PrimFloat.float FNum 3) in
  let three := @nofZ PrimFloat.float FNum 3 in
  f (PrimFloat.sub b (PrimFloat.mul h (@nofZ PrimFloat.float FNum 3))) = Ok g0 ->
  f (PrimFloat.sub b (PrimFloat.mul h (@nofZ PrimFloat.float FNum 2))) = Ok g1 ->
  f (PrimFloat.sub b (PrimFloat.mul h (@nofZ PrimFloat.float FNum 1))) = Ok g2 ->
  f b = Ok g3 ->
  let t1 := PrimFloat.mul three g1 in
  let t2 := PrimFloat.mul three g2 in
  let s := PrimFloat.add (PrimFloat.add (PrimFloat.add g0 t1) t2) g3 in
  okmul three g1 -> okmul three g2 ->
  is_finite (Prim2B (PrimFloat.add g0 t1)) = true ->
  is_finite (Prim2B (PrimFloat.add (PrimFloat.add g0 t1) t2)) = true ->
  is_finite (Prim2B s) = true ->
  okmul three h -> okmul (PrimFloat.mul three h) s ->
  okdiv (PrimFloat.mul (PrimFloat.mul three h) s) (@nofZ PrimFloat.float FNum 8) ->
  is_finite (Prim2B r) = true /\
  Rabs (B2R (Prim2B r) -
        3 * B2R (Prim2B h) *
          (B2R (Prim2B g0) + 3 * B2R (Prim2B g1) + 3 * B2R (Prim2B g2) + B2R (Prim2B g3)) / 8) <=
    ((1 + bpow radix2 (-53)) ^ 7 - 1) * (3 * Rabs (B2R (Prim2B h))) *
    (Rabs (B2R (Prim2B g0)) + 3 * Rabs (B2R (Prim2B g1)) + 3 * Rabs (B2R (Prim2B g2))
     + Rabs (B2R (Prim2B g3))) / 8.
Proof. exact Proofs.QuadFloat.definite_integral_three_float_error. Qed.
Check c05_definite_integral_three_float_error :
  forall (f : PrimFloat.float -> res PrimFloat.float) (a b r g0 g1 g2 g3 : PrimFloat.float),
  @definite_integral PrimFloat.float FNum f a b 3 = Ok r ->
  let h := PrimFloat.div (PrimFloat.sub b a) (@nofN PrimFloat.float FNum 3) in
  let three := @nofZ PrimFloat.float FNum 3 in
  f (PrimFloat.sub b (PrimFloat.mul h (@nofZ PrimFloat.float FNum 3))) = Ok g0 ->
  f (PrimFloat.sub b (PrimFloat.mul h (@nofZ PrimFloat.float FNum 2))) = Ok g1 ->
  f (PrimFloat.sub b (PrimFloat.mul h (@nofZ PrimFloat.float FNum 1))) = Ok g2 ->
  f b = Ok g3 ->
  let t1 := PrimFloat.mul three g1 in
  let t2 := PrimFloat.mul three g2 in
  let s := PrimFloat.add (PrimFloat.add (PrimFloat.add g0 t1) t2) g3 in
  okmul three g1 -> okmul three g2 ->
  is_finite (Prim2B (PrimFloat.add g0 t1)) = true ->
  is_finite (Prim2B (PrimFloat.add (PrimFloat.add g0 t1) t2)) = true ->
  is_finite (Prim2B s) = true ->
  okmul three h -> okmul (PrimFloat.mul three h) s ->
  okdiv (PrimFloat.mul (PrimFloat.mul three h) s) (@nofZ PrimFloat.float FNum 8) ->
  is_finite (Prim2B r) = true /\
  Rabs (B2R (Prim2B r) -
        3 * B2R (Prim2B h) *
          (B2R (Prim2B g0) + 3 * B2R (Prim2B g1) + 3 * B2R (Prim2B g2) + B2R (Prim2B g3)) / 8) <=
    ((1 + bpow radix2 (-53)) ^ 7 - 1) * (3 * Rabs (B2R (Prim2B h))) *
    (Rabs (B2R (Prim2B g0)) + 3 * Rabs (B2R (Prim2B g1)) + 3 * Rabs (B2R (Prim2B g2))
     + Rabs (B2R (Prim2B g3))) / 8.
Print Assumptions c05_definite_integral_three_float_error.

(* 2p+3 segments, p >= 1 *)
Theorem c05_definite_integral_odd_float_error :
  forall (f : PrimFloat.float -> res PrimFloat.float) (a b : PrimFloat.float) (p : nat)
         (r g0 g1 g2 g3 v0 vm ve : PrimFloat.float) (ps : list (PrimFloat.float * PrimFloat.float)),
  (1 <= p)%nat ->
  @definite_integral PrimFloat.float FNum f a b (N.of_nat (2 * p + 3)) = Ok r ->
  let h := PrimFloat.div (PrimFloat.sub b a) (@nofN PrimFloat.float FNum (N.of_nat (2 * p + 3))) in
  let three := @nofZ PrimFloat.float FNum 3 in
  f (PrimFloat.sub b (PrimFloat.mul h (@nofZ PrimFloat.float FNum 3))) = Ok g0 ->
  f (PrimFloat.sub b (PrimFloat.mul h (@nofZ PrimFloat.float FNum 2))) = Ok g1 ->
  f (PrimFloat.sub b (PrimFloat.mul h (@nofZ PrimFloat.float FNum 1))) = Ok g2 ->
  f b = Ok g3 ->
  let t1 := PrimFloat.mul three g1 in
  let t2 := PrimFloat.mul three g2 in
  let s := PrimFloat.add (PrimFloat.add (PrimFloat.add g0 t1) t2) g3 in
  okmul three g1 -> okmul three g2 ->
  is_finite (Prim2B (PrimFloat.add g0 t1)) = true ->
  is_finite (Prim2B (PrimFloat.add (PrimFloat.add g0 t1) t2)) = true ->
  is_finite (Prim2B s) = true ->
  okmul three h -> okmul (PrimFloat.mul three h) s ->
  okdiv (PrimFloat.mul (PrimFloat.mul three h) s) (@nofZ PrimFloat.float FNum 8) ->
  f a = Ok v0 -> length ps = (p - 1)%nat ->
  (forall j, (j < length ps)%nat ->
     f (PrimFloat.sub (@snode PrimFloat.float FNum h a (S j)) h) = Ok (fst (nth j ps (PrimFloat.zero, PrimFloat.zero))) /\
     f (@snode PrimFloat.float FNum h a (S j)) = Ok (snd (nth j ps (PrimFloat.zero, PrimFloat.zero)))) ->
  f (PrimFloat.sub (@snode PrimFloat.float FNum h a p) h) = Ok vm ->
  f (@snode PrimFloat.float FNum h a p) = Ok ve ->
  (forall k, (k <= p)%nat ->
     is_finite (Prim2B (fold_left PrimFloat.add (firstn k (s13_terms ps vm ve)) v0)) = true) ->
  okmul h (fold_left PrimFloat.add (s13_terms ps vm ve) v0) ->
  okdiv (PrimFloat.mul h (fold_left PrimFloat.add (s13_terms ps vm ve) v0)) (@nofZ PrimFloat.float FNum 3) ->
  is_finite (Prim2B r) = true ->
  Rabs (B2R (Prim2B r) -
        (3 * B2R (Prim2B h) *
           (B2R (Prim2B g0) + 3 * B2R (Prim2B g1) + 3 * B2R (Prim2B g2) + B2R (Prim2B g3)) / 8
         + B2R (Prim2B h) *
           (B2R (Prim2B v0)
            + Rsum (map (fun q => 4 * B2R (Prim2B (fst q)) + 2 * B2R (Prim2B (snd q))) ps)
            + 4 * B2R (Prim2B vm) + B2R (Prim2B ve)) / 3)) <=
    ((1 + bpow radix2 (-53)) ^ (Nat.max 7 (p + 3) + 1) - 1) *
    (3 * Rabs (B2R (Prim2B h)) *
       (Rabs (B2R (Prim2B g0)) + 3 * Rabs (B2R (Prim2B g1)) + 3 * Rabs (B2R (Prim2B g2))
        + Rabs (B2R (Prim2B g3))) / 8
     + Rabs (B2R (Prim2B h)) *
       (Rabs (B2R (Prim2B v0))
        + Rsum (map (fun q => 4 * Rabs (B2R (Prim2B (fst q))) + 2 * Rabs (B2R (Prim2B (snd q)))) ps)
        + 4 * Rabs (B2R (Prim2B vm)) + Rabs (B2R (Prim2B ve))) / 3).
Proof. exact Proofs.QuadFloat.definite_integral_odd_float_error. Qed.
Check c05_definite_integral_odd_float_error :
  forall (f : PrimFloat.float -> res PrimFloat.float) (a b : PrimFloat.float) (p : nat)
         (r g0 g1 g2 g3 v0 vm ve : PrimFloat.float) (ps : list (PrimFloat.float * PrimFloat.float)),
  (1 <= p)%nat ->
  @definite_integral PrimFloat.float FNum f a b (N.of_nat (2 * p + 3)) = Ok r ->
  let h := PrimFloat.div (PrimFloat.sub b a) (@nofN PrimFloat.float FNum (N.of_nat (2 * p + 3))) in
  let three := @nofZ PrimFloat.float FNum 3 in
  f (PrimFloat.sub b (PrimFloat.mul h (@nofZ PrimFloat.float FNum 3))) = Ok g0 ->
  f (PrimFloat.sub b (PrimFloat.mul h (@nofZ PrimFloat.float FNum 2))) = Ok g1 ->
  f (PrimFloat.sub b (PrimFloat.mul h (@nofZ PrimFloat.float FNum 1))) = Ok g2 ->
  f b = Ok g3 ->
  let t1 := PrimFloat.mul three g1 in
  let t2 := PrimFloat.mul three g2 in
  let s := PrimFloat.add (PrimFloat.add (PrimFloat.add g0 t1) t2) g3 in
  okmul three g1 -> okmul three g2 ->
  is_finite (Prim2B (PrimFloat.add g0 t1)) = true ->
  is_finite (Prim2B (PrimFloat.add (PrimFloat.add g0 t1) t2)) = true ->
  is_finite (Prim2B s) = true ->
  okmul three h -> okmul (PrimFloat.mul three h) s ->
  okdiv (PrimFloat.mul (PrimFloat.mul three h) s) (@nofZ PrimFloat.float FNum 8) ->
  f a = Ok v0 -> length ps = (p - 1)%nat ->
  (forall j, (j < length ps)%nat ->
     f (PrimFloat.sub (@snode PrimFloat.float FNum h a (S j)) h) = Ok (fst (nth j ps (PrimFloat.zero, PrimFloat.zero))) /\
     f (@snode PrimFloat.float FNum h a (S j)) = Ok (snd (nth j ps (PrimFloat.zero, PrimFloat.zero)))) ->
  f (PrimFloat.sub (@snode PrimFloat.float FNum h a p) h) = Ok vm ->
  f (@snode PrimFloat.float FNum h a p) = Ok ve ->
  (forall k, (k <= p)%nat ->
     is_finite (Prim2B (fold_left PrimFloat.add (firstn k (s13_terms ps vm ve)) v0)) = true) ->
  okmul h (fold_left PrimFloat.add (s13_terms ps vm ve) v0) ->
  okdiv (PrimFloat.mul h (fold_left PrimFloat.add (s13_terms ps vm ve) v0)) (@nofZ PrimFloat.float FNum 3) ->
  is_finite (Prim2B r) = true ->
  Rabs (B2R (Prim2B r) -
        (3 * B2R (Prim2B h) *
           (B2R (Prim2B g0) + 3 * B2R (Prim2B g1) + 3 * B2R (Prim2B g2) + B2R (Prim2B g3)) / 8
         + B2R (Prim2B h) *
           (B2R (Prim2B v0)
            + Rsum (map (fun q => 4 * B2R (Prim2B (fst q)) + 2 * B2R (Prim2B (snd q))) ps)
            + 4 * B2R (Prim2B vm) + B2R (Prim2B ve)) / 3)) <=
    ((1 + bpow radix2 (-53)) ^ (Nat.max 7 (p + 3) + 1) - 1) *
    (3 * Rabs (B2R (Prim2B h)) *
       (Rabs (B2R (Prim2B g0)) + 3 * Rabs (B2R (Prim2B g1)) + 3 * Rabs (B2R (Prim2B g2))
        + Rabs (B2R (Prim2B g3))) / 8
     + Rabs (B2R (Prim2B h)) *
       (Rabs (B2R (Prim2B v0))
        + Rsum (map (fun q => 4 * Rabs (B2R (Prim2B (fst q))) + 2 * Rabs (B2R (Prim2B (snd q)))) ps)
        + 4 * Rabs (B2R (Prim2B vm)) + Rabs (B2R (Prim2B ve))) / 3).
Print Assumptions c05_definite_integral_odd_float_error.

(* the four cases together cover every count n >= 1 (n = 1, n = 2p with p >= 1, n = 3, n = 2p+3 with p >= 1) *)
Theorem c05_definite_integral_float_error_cases : forall n : N, (1 <= n)%N ->
  n = 1%N \/ (exists p, (1 <= p)%nat /\ n = N.of_nat (2 * p)) \/ n = 3%N \/
  (exists p, (1 <= p)%nat /\ n = N.of_nat (2 * p + 3)).
Proof. exact Proofs.QuadFloat.segment_count_cases. Qed.
Check c05_definite_integral_float_error_cases : forall n : N, (1 <= n)%N ->
  n = 1%N \/ (exists p, (1 <= p)%nat /\ n = N.of_nat (2 * p)) \/ n = 3%N \/
  (exists p, (1 <= p)%nat /\ n = N.of_nat (2 * p + 3)).
Print Assumptions c05_definite_integral_float_error_cases.

(* odd count, non-vacuity: x*x on [0,1], 5 segments; sampled values defined by computation in Proofs/QuadFloat.v *)
Example c05_odd_float_nonvacuous :
  exists r, @definite_integral PrimFloat.float FNum ex_sq 0%float 1%float 5 = Ok r /\
  is_finite (Prim2B r) = true /\
  Rabs (B2R (Prim2B r) -
        (3 * B2R (Prim2B ex5_h) *
           (B2R (Prim2B ex5_g0) + 3 * B2R (Prim2B ex5_g1) + 3 * B2R (Prim2B ex5_g2) + B2R (Prim2B 1%float)) / 8
         + B2R (Prim2B ex5_h) *
           (B2R (Prim2B 0%float)
            + Rsum (map (fun q => 4 * B2R (Prim2B (fst q)) + 2 * B2R (Prim2B (snd q))) [])
            + 4 * B2R (Prim2B ex5_vm) + B2R (Prim2B ex5_ve)) / 3)) <=
    ((1 + bpow radix2 (-53)) ^ 8 - 1) *
    (3 * Rabs (B2R (Prim2B ex5_h)) *
       (Rabs (B2R (Prim2B ex5_g0)) + 3 * Rabs (B2R (Prim2B ex5_g1)) + 3 * Rabs (B2R (Prim2B ex5_g2))
        + Rabs (B2R (Prim2B 1%float))) / 8
     + Rabs (B2R (Prim2B ex5_h)) *
       (Rabs (B2R (Prim2B 0%float))
        + Rsum (map (fun q => 4 * Rabs (B2R (Prim2B (fst q))) + 2 * Rabs (B2R (Prim2B (snd q)))) [])
        + 4 * Rabs (B2R (Prim2B ex5_vm)) + Rabs (B2R (Prim2B ex5_ve))) / 3).
Proof. exact Proofs.QuadFloat.ex_odd_float_error. Qed.
