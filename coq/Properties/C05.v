(* Properties/C05.v — Simpson / trapezoid / Romberg quadrature
   (spindalis_core/src/integrals/univariate_definite.rs, repaired tree).
   Statements only; every proof is `exact` of a lemma of Proofs/Quad*.v.

   The integrators are modelled generically over the integrand's evaluation
   function  f : T -> res T  (Model/Quad.v); [s_eval_univariate p] and
   [i_eval_univariate p] of Model/Poly.v are the two instances that exist in
   the crate.  Exactness statements are about the R instance (exact arithmetic;
   rounding is measured by the correspondence check); the no-panic statements
   hold for every instance of Num, the float instance in particular.
   "f is a cubic" is stated extensionally (forall x, f x = Ok (a0 + a1 x + a2 x^2
   + a3 x^3)), which covers every real cubic and both polynomial types
   ([c05_simpson_exact_simple], [c05_exact_inter]).  RInt is Coquelicot's
   Riemann integral. *)
From Coq Require Import ZArith NArith List Reals Lia Lra Floats.
From Coquelicot Require Import Coquelicot.
From SV Require Import Base.Num Base.Outcome Model.Poly Model.Quad
  Proofs.Quad Proofs.QuadSimpson Proofs.QuadRomberg Proofs.QuadRInt Proofs.QuadError.
Import ListNotations.
Local Open Scope R_scope.

(* ---- Simpson: exact for every cubic, every interval (also reversed and empty) and
   every n >= 2: even (1/3 rule), odd (3/8 rule spliced on the last three
   segments), and 3 (3/8 rule alone) --------------------------------------------- *)
Theorem c05_simpson_exact : forall (f : R -> res R) (a0 a1 a2 a3 : R),
  (forall x, f x = Ok (a0 + a1 * x + a2 * x ^ 2 + a3 * x ^ 3)) ->
  forall (a b : R) (n : N), (2 <= n)%N ->
  definite_integral f a b n = Ok (RInt (fun x => a0 + a1 * x + a2 * x ^ 2 + a3 * x ^ 3) a b).
Proof. exact Proofs.QuadRInt.c05_simpson_exact_RInt. Qed.
Check c05_simpson_exact : forall (f : R -> res R) (a0 a1 a2 a3 : R),
  (forall x, f x = Ok (a0 + a1 * x + a2 * x ^ 2 + a3 * x ^ 3)) ->
  forall (a b : R) (n : N), (2 <= n)%N ->
  definite_integral f a b n = Ok (RInt (fun x => a0 + a1 * x + a2 * x ^ 2 + a3 * x ^ 3) a b).
Print Assumptions c05_simpson_exact.

(* SimplePolynomial with at most 4 coefficients: the value is F(b) - F(a), F the
   model's own antiderivative polynomial (indefinite_integral_simple) *)
Theorem c05_simpson_exact_simple : forall (p : spoly R), (length (s_coefs p) <= 4)%nat ->
  forall (a b : R) (n : N), (2 <= n)%N ->
  definite_integral (s_eval_univariate p) a b n =
  Ok (eval_simple (simple_integral p) b - eval_simple (simple_integral p) a).
Proof. exact Proofs.QuadSimpson.c05_simpson_exact. Qed.
Check c05_simpson_exact_simple : forall (p : spoly R), (length (s_coefs p) <= 4)%nat ->
  forall (a b : R) (n : N), (2 <= n)%N ->
  definite_integral (s_eval_univariate p) a b n =
  Ok (eval_simple (simple_integral p) b - eval_simple (simple_integral p) a).
Print Assumptions c05_simpson_exact_simple.

(* ---- one segment: the trapezoid rule, exact for degree <= 1 ---------------------- *)
Theorem c05_trapezoid_exact : forall (f : R -> res R) (a0 a1 : R),
  (forall x, f x = Ok (a0 + a1 * x)) ->
  forall a b : R, definite_integral f a b 1 = Ok (RInt (fun x => a0 + a1 * x) a b).
Proof. exact Proofs.QuadRInt.c05_trapezoid_exact_RInt. Qed.
Check c05_trapezoid_exact : forall (f : R -> res R) (a0 a1 : R),
  (forall x, f x = Ok (a0 + a1 * x)) ->
  forall a b : R, definite_integral f a b 1 = Ok (RInt (fun x => a0 + a1 * x) a b).
Print Assumptions c05_trapezoid_exact.

Theorem c05_trapezoid_exact_simple : forall (p : spoly R), (length (s_coefs p) <= 2)%nat ->
  forall a b : R,
  definite_integral (s_eval_univariate p) a b 1 =
  Ok (eval_simple (simple_integral p) b - eval_simple (simple_integral p) a).
Proof. exact Proofs.QuadSimpson.c05_trapezoid_exact. Qed.
Check c05_trapezoid_exact_simple : forall (p : spoly R), (length (s_coefs p) <= 2)%nat ->
  forall a b : R,
  definite_integral (s_eval_univariate p) a b 1 =
  Ok (eval_simple (simple_integral p) b - eval_simple (simple_integral p) a).
Print Assumptions c05_trapezoid_exact_simple.

Theorem c05_one_segment_is_trapezoid : forall (f : R -> R) (a b : R),
  definite_integral (fun x => Ok (f x)) a b 1 = Ok ((b - a) * (f a + f b) / 2).
Proof. exact Proofs.QuadSimpson.c05_one_segment_is_trapezoid. Qed.
Check c05_one_segment_is_trapezoid : forall (f : R -> R) (a b : R),
  definite_integral (fun x => Ok (f x)) a b 1 = Ok ((b - a) * (f a + f b) / 2).
Print Assumptions c05_one_segment_is_trapezoid.

(* ---- Romberg: whatever value is returned for a cubic is the exact integral, for
   every cap and every tolerance ----------------------------------------------------- *)
Theorem c05_romberg_exact : forall (f : R -> res R) (a0 a1 a2 a3 : R),
  (forall x, f x = Ok (a0 + a1 * x + a2 * x ^ 2 + a3 * x ^ 3)) ->
  forall (a b : R) (cap : N) (tol v : R),
  romberg f a b cap tol = Ok v ->
  v = RInt (fun x => a0 + a1 * x + a2 * x ^ 2 + a3 * x ^ 3) a b.
Proof. exact Proofs.QuadRInt.c05_romberg_exact_RInt. Qed.
Check c05_romberg_exact : forall (f : R -> res R) (a0 a1 a2 a3 : R),
  (forall x, f x = Ok (a0 + a1 * x + a2 * x ^ 2 + a3 * x ^ 3)) ->
  forall (a b : R) (cap : N) (tol v : R),
  romberg f a b cap tol = Ok v ->
  v = RInt (fun x => a0 + a1 * x + a2 * x ^ 2 + a3 * x ^ 3) a b.
Print Assumptions c05_romberg_exact.

Theorem c05_romberg_exact_simple : forall (p : spoly R), (length (s_coefs p) <= 4)%nat ->
  forall (a b : R) (cap : N) (tol v : R),
  romberg (s_eval_univariate p) a b cap tol = Ok v ->
  v = eval_simple (simple_integral p) b - eval_simple (simple_integral p) a.
Proof. exact Proofs.QuadRomberg.c05_romberg_exact. Qed.
Check c05_romberg_exact_simple : forall (p : spoly R), (length (s_coefs p) <= 4)%nat ->
  forall (a b : R) (cap : N) (tol v : R),
  romberg (s_eval_univariate p) a b cap tol = Ok v ->
  v = eval_simple (simple_integral p) b - eval_simple (simple_integral p) a.
Print Assumptions c05_romberg_exact_simple.

(* ... and (exact arithmetic) a value IS returned as soon as three iterations are
   allowed and the tolerance is not negative: [c05_romberg_exact] is not vacuous *)
Theorem c05_romberg_converges : forall (f : R -> res R) (a0 a1 a2 a3 : R),
  (forall x, f x = Ok (a0 + a1 * x + a2 * x ^ 2 + a3 * x ^ 3)) ->
  forall (a b : R) (cap : N) (tol : R), (3 <= cap)%N -> 0 <= tol ->
  romberg f a b cap tol = Ok (RInt (fun x => a0 + a1 * x + a2 * x ^ 2 + a3 * x ^ 3) a b).
Proof. exact Proofs.QuadRInt.c05_romberg_converges_RInt. Qed.
Check c05_romberg_converges : forall (f : R -> res R) (a0 a1 a2 a3 : R),
  (forall x, f x = Ok (a0 + a1 * x + a2 * x ^ 2 + a3 * x ^ 3)) ->
  forall (a b : R) (cap : N) (tol : R), (3 <= cap)%N -> 0 <= tol ->
  romberg f a b cap tol = Ok (RInt (fun x => a0 + a1 * x + a2 * x ^ 2 + a3 * x ^ 3) a b).
Print Assumptions c05_romberg_converges.

(* both clauses for the second polynomial type: the IntermediatePolynomial
   c3 v^3 + c2 v^2 + c1 v + c0 (terms in the parser's order, evaluated with powf) *)
Theorem c05_exact_inter : forall (v : name) (c0 c1 c2 c3 a b : R),
  (forall n : N, (2 <= n)%N ->
     definite_integral (i_eval_univariate (icubic v c0 c1 c2 c3)) a b n =
     Ok (RInt (fun x => c0 + c1 * x + c2 * x ^ 2 + c3 * x ^ 3) a b)) /\
  (forall (cap : N) (tol w : R),
     romberg (i_eval_univariate (icubic v c0 c1 c2 c3)) a b cap tol = Ok w ->
     w = RInt (fun x => c0 + c1 * x + c2 * x ^ 2 + c3 * x ^ 3) a b).
Proof. exact Proofs.QuadRInt.c05_exact_inter. Qed.
Check c05_exact_inter : forall (v : name) (c0 c1 c2 c3 a b : R),
  (forall n : N, (2 <= n)%N ->
     definite_integral (i_eval_univariate (icubic v c0 c1 c2 c3)) a b n =
     Ok (RInt (fun x => c0 + c1 * x + c2 * x ^ 2 + c3 * x ^ 3) a b)) /\
  (forall (cap : N) (tol w : R),
     romberg (i_eval_univariate (icubic v c0 c1 c2 c3)) a b cap tol = Ok w ->
     w = RInt (fun x => c0 + c1 * x + c2 * x ^ 2 + c3 * x ^ 3) a b).
Print Assumptions c05_exact_inter.

(* ---- no panic: every instance of Num (the float instance in particular), every
   cap — also caps above 64, where 2_usize.checked_pow fails — and every tolerance
   (NaN included).  "Never panics" is a statement about the model: table reads and
   writes are bounds-checked ([Panic WIndex]), the fuel of the loop is checked
   ([Panic WFuel]).  Assumption on the integrand: it never panics itself (it may
   return errors, which are propagated). ------------------------------------------- *)
Theorem c05_romberg_total : forall (T : Type) (NT : Num T) (f : T -> res T),
  (forall x, no_panic (f x)) ->
  forall (a b : T) (cap : N) (tol : T), no_panic (romberg f a b cap tol).
Proof. exact Proofs.Quad.c05_romberg_total. Qed.
Check c05_romberg_total : forall (T : Type) (NT : Num T) (f : T -> res T),
  (forall x, no_panic (f x)) ->
  forall (a b : T) (cap : N) (tol : T), no_panic (romberg f a b cap tol).
Print Assumptions c05_romberg_total.

(* ... which both polynomial types satisfy unconditionally *)
Theorem c05_romberg_total_polys : forall (T : Type) (NT : Num T) (a b : T) (cap : N) (tol : T),
  (forall p : spoly T, no_panic (romberg (s_eval_univariate p) a b cap tol)) /\
  (forall p : ipoly T, no_panic (romberg (i_eval_univariate p) a b cap tol)).
Proof. exact Proofs.Quad.c05_romberg_total_polys. Qed.
Check c05_romberg_total_polys : forall (T : Type) (NT : Num T) (a b : T) (cap : N) (tol : T),
  (forall p : spoly T, no_panic (romberg (s_eval_univariate p) a b cap tol)) /\
  (forall p : ipoly T, no_panic (romberg (i_eval_univariate p) a b cap tol)).
Print Assumptions c05_romberg_total_polys.

(* definite_integral never panics either, for every segment count (0 included):
   `remaining_segments -= 3` is reached only for odd counts >= 3 *)
Theorem c05_simpson_total : forall (T : Type) (NT : Num T) (f : T -> res T),
  (forall x, no_panic (f x)) ->
  forall (a b : T) (n : N), no_panic (definite_integral f a b n).
Proof. exact Proofs.Quad.c05_simpson_total. Qed.
Check c05_simpson_total : forall (T : Type) (NT : Num T) (f : T -> res T),
  (forall x, no_panic (f x)) ->
  forall (a b : T) (n : N), no_panic (definite_integral f a b n).
Print Assumptions c05_simpson_total.

(* ---- the error clause, for EVERY four times differentiable integrand (f1..f4 its
   derivatives, M any bound of |f4| on the interval), every interval (reversed and
   empty included) and every n >= 2: even, odd (3/8 panel spliced in) and 3.  This
   covers every polynomial degree, 5..8 in particular.  Proof: Proofs/QuadError.v
   (auxiliary-function argument per panel, mean value theorem, composite sum). ------ *)
Theorem c05_simpson_error : forall (fm : R -> res R) (f f1 f2 f3 f4 : R -> R),
  (forall x, fm x = Ok (f x)) ->
  (forall x, is_derive f x (f1 x)) -> (forall x, is_derive f1 x (f2 x)) ->
  (forall x, is_derive f2 x (f3 x)) -> (forall x, is_derive f3 x (f4 x)) ->
  forall (a b : R) (n : N) (M : R), (2 <= n)%N ->
  (forall x, Rmin a b <= x <= Rmax a b -> Rabs (f4 x) <= M) ->
  exists v, definite_integral fm a b n = Ok v /\
    Rabs (v - RInt f a b) <= Rabs (b - a) * ((b - a) / IZR (Z.of_N n)) ^ 4 * M / 80.
Proof. exact Proofs.QuadError.c05_simpson_error. Qed.
Check c05_simpson_error : forall (fm : R -> res R) (f f1 f2 f3 f4 : R -> R),
  (forall x, fm x = Ok (f x)) ->
  (forall x, is_derive f x (f1 x)) -> (forall x, is_derive f1 x (f2 x)) ->
  (forall x, is_derive f2 x (f3 x)) -> (forall x, is_derive f3 x (f4 x)) ->
  forall (a b : R) (n : N) (M : R), (2 <= n)%N ->
  (forall x, Rmin a b <= x <= Rmax a b -> Rabs (f4 x) <= M) ->
  exists v, definite_integral fm a b n = Ok v /\
    Rabs (v - RInt f a b) <= Rabs (b - a) * ((b - a) / IZR (Z.of_N n)) ^ 4 * M / 80.
Print Assumptions c05_simpson_error.

(* every SimplePolynomial, whatever its number of coefficients: the fourth derivative is
   the model's own simple_derivative applied four times ([sderiv4]) *)
Theorem c05_simpson_error_simple : forall (p : spoly R) (a b : R) (n : N) (M : R), (2 <= n)%N ->
  (forall x, Rmin a b <= x <= Rmax a b -> Rabs (eval_simple (sderiv4 p) x) <= M) ->
  exists v, definite_integral (s_eval_univariate p) a b n = Ok v /\
    Rabs (v - RInt (eval_simple p) a b) <= Rabs (b - a) * ((b - a) / IZR (Z.of_N n)) ^ 4 * M / 80.
Proof. exact Proofs.QuadError.c05_simpson_error_simple. Qed.
Check c05_simpson_error_simple : forall (p : spoly R) (a b : R) (n : N) (M : R), (2 <= n)%N ->
  (forall x, Rmin a b <= x <= Rmax a b -> Rabs (eval_simple (sderiv4 p) x) <= M) ->
  exists v, definite_integral (s_eval_univariate p) a b n = Ok v /\
    Rabs (v - RInt (eval_simple p) a b) <= Rabs (b - a) * ((b - a) / IZR (Z.of_N n)) ^ 4 * M / 80.
Print Assumptions c05_simpson_error_simple.

(* the degree-4 instance in closed form (kept from the first round; now a special case of
   [c05_simpson_error]) and the fact that for n = 3 the bound is attained: the constant
   1/80 is the best possible *)
Theorem c05_simpson_error_partial : forall (f : R -> res R) (a0 a1 a2 a3 a4 : R),
  (forall x, f x = Ok (a0 + a1 * x + a2 * x ^ 2 + a3 * x ^ 3 + a4 * x ^ 4)) ->
  forall (a b : R) (n : N), (2 <= n)%N ->
  exists v, definite_integral f a b n = Ok v /\
    Rabs (v - RInt (fun x => a0 + a1 * x + a2 * x ^ 2 + a3 * x ^ 3 + a4 * x ^ 4) a b) <=
    Rabs (b - a) * ((b - a) / IZR (Z.of_N n)) ^ 4 * Rabs (24 * a4) / 80.
Proof. exact Proofs.QuadRInt.c05_simpson_error_quartic_RInt. Qed.
Check c05_simpson_error_partial : forall (f : R -> res R) (a0 a1 a2 a3 a4 : R),
  (forall x, f x = Ok (a0 + a1 * x + a2 * x ^ 2 + a3 * x ^ 3 + a4 * x ^ 4)) ->
  forall (a b : R) (n : N), (2 <= n)%N ->
  exists v, definite_integral f a b n = Ok v /\
    Rabs (v - RInt (fun x => a0 + a1 * x + a2 * x ^ 2 + a3 * x ^ 3 + a4 * x ^ 4) a b) <=
    Rabs (b - a) * ((b - a) / IZR (Z.of_N n)) ^ 4 * Rabs (24 * a4) / 80.
Print Assumptions c05_simpson_error_partial.

Theorem c05_simpson_error_tight_n3 : forall (f : R -> res R) (a0 a1 a2 a3 a4 : R),
  (forall x, f x = Ok (a0 + a1 * x + a2 * x ^ 2 + a3 * x ^ 3 + a4 * x ^ 4)) ->
  forall (a b : R),
  exists v, definite_integral f a b 3 = Ok v /\
    Rabs (v - RInt (fun x => a0 + a1 * x + a2 * x ^ 2 + a3 * x ^ 3 + a4 * x ^ 4) a b) =
    Rabs (b - a) * ((b - a) / 3) ^ 4 * Rabs (24 * a4) / 80.
Proof. exact Proofs.QuadRInt.c05_simpson_error_tight_n3_RInt. Qed.
Check c05_simpson_error_tight_n3 : forall (f : R -> res R) (a0 a1 a2 a3 a4 : R),
  (forall x, f x = Ok (a0 + a1 * x + a2 * x ^ 2 + a3 * x ^ 3 + a4 * x ^ 4)) ->
  forall (a b : R),
  exists v, definite_integral f a b 3 = Ok v /\
    Rabs (v - RInt (fun x => a0 + a1 * x + a2 * x ^ 2 + a3 * x ^ 3 + a4 * x ^ 4) a b) =
    Rabs (b - a) * ((b - a) / 3) ^ 4 * Rabs (24 * a4) / 80.
Print Assumptions c05_simpson_error_tight_n3.

(* the hypotheses of [c05_simpson_error_simple] are met by x^5 on [0,1] with M = 120 *)
Example c05_error_nonvacuous :
  let p : spoly R := {| s_coefs := [0; 0; 0; 0; 0; 1]; s_var := Some 120%N |} in
  forall x, Rmin 0 1 <= x <= Rmax 0 1 -> Rabs (eval_simple (sderiv4 p) x) <= 120.
Proof.
  cbv zeta. intros x Hx. rewrite Rmin_left, Rmax_right in Hx by lra.
  rewrite Proofs.QuadError.eval_simple_psum.
  unfold sderiv4, simple_derivative. cbn [s_coefs deriv_coefs_from psum].
  unfold nofnat. cbn [nmul nofZ RNum Z.of_nat Pos.of_succ_nat Pos.succ].
  apply Rabs_le. lra.
Qed.

(* ---- non-vacuity ------------------------------------------------------------------- *)
(* the hypothesis "f is a cubic" is met by both polynomial types, and the hypotheses
   of the SimplePolynomial forms by a concrete polynomial *)
Example c05_nonvacuous_simple :
  let p : spoly R := {| s_coefs := [1; 2; 3; 4]; s_var := Some 120%N |} in
  (length (s_coefs p) <= 4)%nat /\ (2 <= 5)%N /\
  definite_integral (s_eval_univariate p) 0 1 5 =
    Ok (eval_simple (simple_integral p) 1 - eval_simple (simple_integral p) 0).
Proof.
  cbv zeta. split; [cbn; lia|]. split; [lia|].
  apply Proofs.QuadSimpson.c05_simpson_exact; [cbn; lia|lia].
Qed.

Example c05_nonvacuous_inter : forall x : R,
  i_eval_univariate (icubic [120%N] 1 2 3 4) x = Ok (1 + 2 * x + 3 * x ^ 2 + 4 * x ^ 3).
Proof. intro x. apply Proofs.QuadSimpson.i_eval_cubic. Qed.

(* "romberg ... = Ok v" happens: exact arithmetic, cap 3, tolerance 0 *)
Example c05_nonvacuous_romberg :
  exists v, romberg (i_eval_univariate (icubic [120%N] 1 2 3 4)) 0 1 3 0 = Ok v.
Proof.
  eexists. apply Proofs.QuadRomberg.c05_romberg_converges_cubic; [|lia|apply Rle_refl].
  intro x. apply Proofs.QuadSimpson.i_eval_cubic.
Qed.

(* the float instance that is run against the crate returns a value, an error, and
   reaches the checked-power exit (cap above 64, tolerance NaN), without panicking *)
Example c05_float_runs :
  let p : spoly float := {| s_coefs := [1; 2; 3; 4]%float; s_var := Some 120%N |} in
  is_ok (romberg (s_eval_univariate p) 0%float 1%float 8 0x1p-20%float) = true /\
  romberg (s_eval_univariate p) 0%float 1%float 2 0%float = Err EMaxIterationsReached /\
  is_ok (definite_integral (s_eval_univariate p) 0%float 1%float 7) = true.
Proof. vm_compute. repeat split. Qed.
