(* Properties/C16.v — parsers are total; acceptance implies fidelity.
   Statements only.  [no_panic r] := forall w, r <> Panic w  (Base/Outcome.v).
   The model keeps the two places where the Rust code of parse_simple can
   panic (`max_power + 1` overflow, capacity overflow of the dense vector), so
   totality is a theorem that depends on the exponent cap MAX_POWER.  The
   theorems hold for every arithmetic instance (in particular for floats) and
   for every Unicode classification [U]. *)
From Coq Require Import ZArith NArith List.
From Coq Require Import Reals.
From SV Require Import Base.Num Base.Outcome Base.Str Model.Poly Model.Parse Proofs.ParseTotal.
From SV Require Model.GrammarS Model.GrammarI Proofs.SimpleParse Proofs.InterParse Proofs.ParseFidelity.
Import ListNotations.

Theorem c16_simple_total : forall (T : Type) (NT : Num T) (U : UClass) (s : str),
  no_panic (@parse_simple T NT U s).
Proof. exact (@Proofs.ParseTotal.simple_total). Qed.
Check c16_simple_total : forall (T : Type) (NT : Num T) (U : UClass) (s : str),
  no_panic (@parse_simple T NT U s).
Print Assumptions c16_simple_total.

Theorem c16_inter_total : forall (T : Type) (NT : Num T) (U : UClass) (s : str),
  no_panic (@parse_inter T NT U s).
Proof. exact (@Proofs.ParseTotal.inter_total). Qed.
Check c16_inter_total : forall (T : Type) (NT : Num T) (U : UClass) (s : str),
  no_panic (@parse_inter T NT U s).
Print Assumptions c16_inter_total.

(* every power a term of the univariate parser can carry is within the cap *)
Theorem c16_simple_power_cap : forall (T : Type) (NT : Num T) (var : option N) (part : str) (c : T) (p : nat),
  @simple_term T NT var part = Ok (c, p) -> (Z.of_nat p <= MAX_POWER)%Z.
Proof. exact (@Proofs.ParseTotal.simple_term_power). Qed.
Check c16_simple_power_cap : forall (T : Type) (NT : Num T) (var : option N) (part : str) (c : T) (p : nat),
  @simple_term T NT var part = Ok (c, p) -> (Z.of_nat p <= MAX_POWER)%Z.
Print Assumptions c16_simple_power_cap.


(* ------------------------------------------------------------------------------
   Acceptance implies fidelity.  The documented grammars are the generative
   definitions Model/GrammarS.v (univariate) and Model/GrammarI.v (multivariate):
   sources [src], their text [render], their value side [terms_of] / [src_value].
   Whatever a parser accepts IS the rendering of a well-formed source — no
   character is skipped, nothing outside the grammar is accepted — and it is read
   with exactly the value written in the text.  (The only accepted text that is
   not a non-empty rendering is the empty / all-whitespace text, read as 0.)
   ------------------------------------------------------------------------------ *)

Theorem c16_simple_accepts_only_grammar :
  forall (T : Type) (NT : Num T) (U : UClass), GrammarS.USane U ->
  forall (s : str) (p : spoly T), @parse_simple T NT U s = Ok p ->
  strip_ws s = [] \/
  exists (lead : bool) (v : N) (src : GrammarS.usrc),
    src <> [] /\ GrammarS.wf_src src = true /\
    (GrammarS.uses_var src = true -> u_alphabetic U v = true) /\
    @GrammarS.src_finite T NT src = true /\ sums_finite (@GrammarS.terms_of T NT src) = true /\
    strip_ws s = GrammarS.render lead v src.
Proof. exact (@Proofs.SimpleParse.simple_accepts_only_grammar). Qed.
Check c16_simple_accepts_only_grammar :
  forall (T : Type) (NT : Num T) (U : UClass), GrammarS.USane U ->
  forall (s : str) (p : spoly T), @parse_simple T NT U s = Ok p ->
  strip_ws s = [] \/
  exists (lead : bool) (v : N) (src : GrammarS.usrc),
    src <> [] /\ GrammarS.wf_src src = true /\
    (GrammarS.uses_var src = true -> u_alphabetic U v = true) /\
    @GrammarS.src_finite T NT src = true /\ sums_finite (@GrammarS.terms_of T NT src) = true /\
    strip_ws s = GrammarS.render lead v src.
Print Assumptions c16_simple_accepts_only_grammar.

(* R instance: the accepted polynomial takes, at every point, the value of the text *)
Theorem c16_simple_fidelity : forall (U : UClass), GrammarS.USane U ->
  forall (s : str) (p : spoly R), parse_simple U s = Ok p ->
  (strip_ws s = [] /\ forall x : R, eval_simple p x = 0%R)
  \/ exists (lead : bool) (v : N) (src : GrammarS.usrc),
       src <> [] /\ GrammarS.wf_src src = true /\ strip_ws s = GrammarS.render lead v src /\
       forall x : R, eval_simple p x = Proofs.SimpleParse.src_value src x.
Proof. exact Proofs.ParseFidelity.simple_fidelity. Qed.
Check c16_simple_fidelity : forall (U : UClass), GrammarS.USane U ->
  forall (s : str) (p : spoly R), parse_simple U s = Ok p ->
  (strip_ws s = [] /\ forall x : R, eval_simple p x = 0%R)
  \/ exists (lead : bool) (v : N) (src : GrammarS.usrc),
       src <> [] /\ GrammarS.wf_src src = true /\ strip_ws s = GrammarS.render lead v src /\
       forall x : R, eval_simple p x = Proofs.SimpleParse.src_value src x.
Print Assumptions c16_simple_fidelity.

(* multivariate parser: the accepted polynomial is, term for term, the canonical
   form of the source that the text renders (coefficients, merged and sorted
   variables with their exponents, sorted variable set) *)
Theorem c16_inter_accepts_only_grammar :
  forall (T : Type) (NT : Num T) (U : UClass) (s : str) (p : ipoly T),
  @parse_inter T NT U s = Ok p ->
  exists (lead : bool) (src : GrammarI.msrc),
    @GrammarI.wf_src T NT src = true /\ strip_ws s = GrammarI.render lead src /\
    p = {| i_terms := @GrammarI.terms_of T NT src; i_vars := GrammarI.vars_of src |}.
Proof. exact (@Proofs.InterParse.inter_accepts_only_grammar). Qed.
Check c16_inter_accepts_only_grammar :
  forall (T : Type) (NT : Num T) (U : UClass) (s : str) (p : ipoly T),
  @parse_inter T NT U s = Ok p ->
  exists (lead : bool) (src : GrammarI.msrc),
    @GrammarI.wf_src T NT src = true /\ strip_ws s = GrammarI.render lead src /\
    p = {| i_terms := @GrammarI.terms_of T NT src; i_vars := GrammarI.vars_of src |}.
Print Assumptions c16_inter_accepts_only_grammar.

(* the executable Unicode table satisfies the sanity premise *)
Example c16_table_sane : GrammarS.USane uclass_tab.
Proof. exact Proofs.SimpleParse.uclass_tab_sane. Qed.

(* non-vacuity: "x^12" is accepted, an exponent above the cap ("x^65536") is an error value (Z instance) *)
Example c16_cap_accepts :
  exists p, @parse_simple Z ZNum uclass_tab [120; 94; 49; 50]%N = Ok p.
Proof. vm_compute. eexists. reflexivity. Qed.
Example c16_cap_rejects :
  @parse_simple Z ZNum uclass_tab [120; 94; 54; 53; 53; 51; 54]%N = Err EInvalidExponent.
Proof. vm_compute. reflexivity. Qed.
