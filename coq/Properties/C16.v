(* Properties/C16.v — parsers are total; acceptance implies fidelity.
   Statements only.  [no_panic r] := forall w, r <> Panic w  (Base/Outcome.v).
   The model keeps the two places where the Rust code of parse_simple can
   panic (`max_power + 1` overflow, capacity overflow of the dense vector), so
   totality is a theorem that depends on the exponent cap MAX_POWER.  The
   theorems hold for every arithmetic instance (in particular for floats) and
   for every Unicode classification [U]. *)
From Coq Require Import ZArith NArith List.
From SV Require Import Base.Num Base.Outcome Base.Str Model.Poly Model.Parse Proofs.ParseTotal.
Import ListNotations.

Theorem c16_simple_total : forall (T : Type) (NT : Num T) (U : UClass) (s : str),
  no_panic (@parse_simple T NT U s).
Proof. exact (@Proofs.ParseTotal.simple_total). Qed.
Check c16_simple_total : forall (T : Type) (NT : Num T) (U : UClass) (s : str),
  no_panic (@parse_simple T NT U s).
Print Assumptions c16_simple_total.

Theorem c16_inter_total : forall (T : Type) (NT : Num T) (U : UClass) (s : str),
  no_panic (@parse_inter T NT U s).
Proof. exact (@Proofs.ParseTotal.inter_total). Qed.
Check c16_inter_total : forall (T : Type) (NT : Num T) (U : UClass) (s : str),
  no_panic (@parse_inter T NT U s).
Print Assumptions c16_inter_total.

(* every power a term of the univariate parser can carry is within the cap *)
Theorem c16_simple_power_cap : forall (T : Type) (NT : Num T) (var : option N) (part : str) (c : T) (p : nat),
  @simple_term T NT var part = Ok (c, p) -> (Z.of_nat p <= MAX_POWER)%Z.
Proof. exact (@Proofs.ParseTotal.simple_term_power). Qed.
Check c16_simple_power_cap : forall (T : Type) (NT : Num T) (var : option N) (part : str) (c : T) (p : nat),
  @simple_term T NT var part = Ok (c, p) -> (Z.of_nat p <= MAX_POWER)%Z.
Print Assumptions c16_simple_power_cap.

(* non-vacuity: "x^12" is accepted, an exponent above the cap ("x^65536") is an error value (Z instance) *)
Example c16_cap_accepts :
  exists p, @parse_simple Z ZNum uclass_tab [120; 94; 49; 50]%N = Ok p.
Proof. vm_compute. eexists. reflexivity. Qed.
Example c16_cap_rejects :
  @parse_simple Z ZNum uclass_tab [120; 94; 54; 53; 53; 51; 54]%N = Err EInvalidExponent.
Proof. vm_compute. reflexivity. Qed.
