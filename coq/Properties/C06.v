(* Properties/C06.v — bisection: a returned root is a root in the bracket; the sign change is kept.
   Statements only; every proof is `exact` of a lemma of Proofs/Bisect.v (exact arithmetic, every
   instance) or Proofs/BisectionFloat.v (the executed binary64 instance).
   EXACT (T := R) unless the statement quantifies over the instance: soundness, rejection of a bad
   initial guess, the sign-change invariant, the partial converse and the converse away from 0.
   EVERY INSTANCE (floats included): totality (c06_total, c06_total_poly).
   FLOAT (T := float, last block of the file, names c06_float_...): SOUNDNESS for an arbitrary target -
   an Ok result is finite, inside the caller's bracket, and its float residual is finite and below
   the float gate fl(1e-4); the bracket invariant of the loop; the midpoint lemma; the float reading of
   the range test (a passing guess is finite and inside), the rejection of a reversed bracket for every guess and
   of a NaN guess for any bounds, and the regression of the repaired NaN hole (5439521).
   NOT proved at the float level: the converse (a root is found), which stays exact-arithmetic + oracle; the correspondence check measures model = code bit for bit. *)
From Coq Require Import ZArith List Reals Lra Lia Bool.
From SV Require Import Base.Num Base.Outcome Model.Poly Model.Solvers Proofs.Bisect.
Import ListNotations.
Local Open Scope R_scope.

(* an Ok result lies in the caller's bracket and passes the residual gate (abstract target f) *)
Theorem c06_sound : forall (f : R -> res R) lo init hi tol cap x,
  bisection f {| b_lower := lo; b_init := init; b_upper := hi |} tol cap = Ok x ->
  lo <= x <= hi /\ exists v, f x = Ok v /\ Rabs v < 1 / 10000.
Proof. exact Proofs.Bisect.c06_sound. Qed.
Check c06_sound : forall (f : R -> res R) lo init hi tol cap x,
  bisection f {| b_lower := lo; b_init := init; b_upper := hi |} tol cap = Ok x ->
  lo <= x <= hi /\ exists v, f x = Ok v /\ Rabs v < 1 / 10000.
Print Assumptions c06_sound.

(* SimplePolynomial: g = p (Root) or its derivative (Extrema) *)
Theorem c06_sound_simple : forall (p : spoly R) lo init hi tol cap mode x,
  s_bisection p {| b_lower := lo; b_init := init; b_upper := hi |} tol cap mode = Ok x ->
  lo <= x <= hi /\ Rabs (eval_simple (s_target p mode) x) < 1 / 10000.
Proof. exact Proofs.Bisect.c06_sound_simple. Qed.
Check c06_sound_simple : forall (p : spoly R) lo init hi tol cap mode x,
  s_bisection p {| b_lower := lo; b_init := init; b_upper := hi |} tol cap mode = Ok x ->
  lo <= x <= hi /\ Rabs (eval_simple (s_target p mode) x) < 1 / 10000.
Print Assumptions c06_sound_simple.

(* IntermediatePolynomial: the target is the polynomial or its univariate derivative *)
Theorem c06_sound_inter : forall (p : ipoly R) lo init hi tol cap mode x,
  i_bisection p {| b_lower := lo; b_init := init; b_upper := hi |} tol cap mode = Ok x ->
  lo <= x <= hi /\ exists q v, (if mode then i_derivate_univariate p else Ok p) = Ok q /\
                               i_eval_univariate q x = Ok v /\ Rabs v < 1 / 10000.
Proof. exact Proofs.Bisect.c06_sound_inter. Qed.
Check c06_sound_inter : forall (p : ipoly R) lo init hi tol cap mode x,
  i_bisection p {| b_lower := lo; b_init := init; b_upper := hi |} tol cap mode = Ok x ->
  lo <= x <= hi /\ exists q v, (if mode then i_derivate_univariate p else Ok p) = Ok q /\
                               i_eval_univariate q x = Ok v /\ Rabs v < 1 / 10000.
Print Assumptions c06_sound_inter.

(* an initial guess outside the bracket is rejected up front *)
Theorem c06_init_rejected : forall (f : R -> res R) lo init hi tol cap,
  init < lo \/ hi < init ->
  bisection f {| b_lower := lo; b_init := init; b_upper := hi |} tol cap = Err EXInitOutOfBounds.
Proof. exact Proofs.Bisect.c06_init_rejected. Qed.
Check c06_init_rejected : forall (f : R -> res R) lo init hi tol cap,
  init < lo \/ hi < init ->
  bisection f {| b_lower := lo; b_init := init; b_upper := hi |} tol cap = Err EXInitOutOfBounds.
Print Assumptions c06_init_rejected.

(* corollary: with a reversed bracket every initial guess is rejected *)
Theorem c06_reversed_rejected : forall (f : R -> res R) lo init hi tol cap,
  hi < lo -> bisection f {| b_lower := lo; b_init := init; b_upper := hi |} tol cap = Err EXInitOutOfBounds.
Proof. exact Proofs.Bisect.c06_reversed_rejected. Qed.
Check c06_reversed_rejected : forall (f : R -> res R) lo init hi tol cap,
  hi < lo -> bisection f {| b_lower := lo; b_init := init; b_upper := hi |} tol cap = Err EXInitOutOfBounds.
Print Assumptions c06_reversed_rejected.

(* every Num instance (floats included): never a panic, in particular never [Panic WFuel]:
   the fuel cap (= at most cap+1 loop bodies) always suffices, and iter <= cap at the exit *)
Theorem c06_total : forall (T : Type) (NT : Num T) (f : T -> res T) (b : bounds T) (tol : T) (cap : nat),
  (forall x, no_panic (f x)) ->
  no_panic (bisection f b tol cap) /\
  no_panic (bis_loop f tol cap cap (bis_start b)) /\
  (forall r, bis_loop f tol cap cap (bis_start b) = Ok r -> (bs_iter r <= cap)%nat).
Proof. exact Proofs.Bisect.c06_total. Qed.
Check c06_total : forall (T : Type) (NT : Num T) (f : T -> res T) (b : bounds T) (tol : T) (cap : nat),
  (forall x, no_panic (f x)) ->
  no_panic (bisection f b tol cap) /\
  no_panic (bis_loop f tol cap cap (bis_start b)) /\
  (forall r, bis_loop f tol cap cap (bis_start b) = Ok r -> (bs_iter r <= cap)%nat).
Print Assumptions c06_total.

(* the two polynomial types never panic, so the extracted entry points never do *)
Theorem c06_total_poly : forall (T : Type) (NT : Num T) (b : bounds T) (tol : T) (cap : nat) (mode : bool),
  (forall p : spoly T, no_panic (s_bisection p b tol cap mode)) /\
  (forall p : ipoly T, no_panic (i_bisection p b tol cap mode)).
Proof. exact Proofs.Bisect.c06_total_poly. Qed.
Check c06_total_poly : forall (T : Type) (NT : Num T) (b : bounds T) (tol : T) (cap : nat) (mode : bool),
  (forall p : spoly T, no_panic (s_bisection p b tol cap mode)) /\
  (forall p : ipoly T, no_panic (i_bisection p b tol cap mode)).
Print Assumptions c06_total_poly.

(* a (weak or strict) sign change over the caller's bracket is still inside the final bracket *)
Theorem c06_bracket_keeps_sign_change : forall (f : R -> res R) lo init hi tol cap r vlo vhi,
  lo <= hi -> f lo = Ok vlo -> f hi = Ok vhi -> vlo * vhi <= 0 ->
  bis_loop f tol cap cap (bis_start {| b_lower := lo; b_init := init; b_upper := hi |}) = Ok r ->
  lo <= bs_lower r /\ bs_lower r <= bs_upper r /\ bs_upper r <= hi /\
  bs_lower r <= bs_x r <= bs_upper r /\
  exists a b, f (bs_lower r) = Ok a /\ f (bs_upper r) = Ok b /\ a * b <= 0 /\ (vlo * vhi < 0 -> a * b < 0).
Proof. exact Proofs.Bisect.c06_bracket_keeps_sign_change. Qed.
Check c06_bracket_keeps_sign_change : forall (f : R -> res R) lo init hi tol cap r vlo vhi,
  lo <= hi -> f lo = Ok vlo -> f hi = Ok vhi -> vlo * vhi <= 0 ->
  bis_loop f tol cap cap (bis_start {| b_lower := lo; b_init := init; b_upper := hi |}) = Ok r ->
  lo <= bs_lower r /\ bs_lower r <= bs_upper r /\ bs_upper r <= hi /\
  bs_lower r <= bs_x r <= bs_upper r /\
  exists a b, f (bs_lower r) = Ok a /\ f (bs_upper r) = Ok b /\ a * b <= 0 /\ (vlo * vhi < 0 -> a * b < 0).
Print Assumptions c06_bracket_keeps_sign_change.

(* PARTIAL converse: at the loop exit the bracket has been halved once per non-exact body, holds a
   root z of the continuous target, the candidate is within (hi-lo)/2^iter of z, is a root on the
   `exact` exit, and (after repair 8dfb6bc) on the tolerance exit is non-zero with z within tol
   percent of it.  The converse itself is proved below for a bracket that stays away from the origin
   (c06_finds_root_away_from_zero).  STILL LEFT TO THE ORACLE: only the case of a root at 0 / a bracket
   containing 0, where the relative step never becomes small in exact arithmetic and the exit needs
   floating-point underflow (about 1100 halvings), plus the loose-tolerance class F-C06-LOOSE-TOL. *)
Theorem c06_finds_root_partial : forall (g : R -> R) lo init hi tol cap r,
  continuity g -> lo <= hi -> g lo * g hi <= 0 ->
  bis_loop (fun x => Ok (g x)) tol cap cap (bis_start {| b_lower := lo; b_init := init; b_upper := hi |}) = Ok r ->
  bs_upper r - bs_lower r = (hi - lo) / 2 ^ (if bs_exact r then bs_iter r else S (bs_iter r)) /\
  (bs_exact r = true -> g (bs_x r) = 0) /\
  lo <= bs_x r <= hi /\
  exists z, g z = 0 /\ lo <= z <= hi /\ bs_lower r <= z <= bs_upper r /\
            Rabs (bs_x r - z) <= (hi - lo) / 2 ^ bs_iter r /\
            (bs_exact r = false -> (bs_iter r < cap)%nat ->
               bs_x r <> 0 /\ Rabs (bs_x r - z) * 100 < tol * Rabs (bs_x r)).
Proof. exact Proofs.Bisect.c06_finds_root_partial. Qed.
Check c06_finds_root_partial : forall (g : R -> R) lo init hi tol cap r,
  continuity g -> lo <= hi -> g lo * g hi <= 0 ->
  bis_loop (fun x => Ok (g x)) tol cap cap (bis_start {| b_lower := lo; b_init := init; b_upper := hi |}) = Ok r ->
  bs_upper r - bs_lower r = (hi - lo) / 2 ^ (if bs_exact r then bs_iter r else S (bs_iter r)) /\
  (bs_exact r = true -> g (bs_x r) = 0) /\
  lo <= bs_x r <= hi /\
  exists z, g z = 0 /\ lo <= z <= hi /\ bs_lower r <= z <= bs_upper r /\
            Rabs (bs_x r - z) <= (hi - lo) / 2 ^ bs_iter r /\
            (bs_exact r = false -> (bs_iter r < cap)%nat ->
               bs_x r <> 0 /\ Rabs (bs_x r - z) * 100 < tol * Rabs (bs_x r)).
Print Assumptions c06_finds_root_partial.

(* ... and the exit before the cap is ALL that is missing: if the loop leaves with iter < cap and the
   target is L-Lipschitz on the bracket with L * tol% * max|x| < 1e-4 (the complement of the input
   class of the known finding F-C06-LOOSE-TOL), the residual gate passes and Ok is returned *)
Theorem c06_exit_before_cap_is_ok : forall (g : R -> R) lo init hi tol cap r L X,
  continuity g -> lo <= init <= hi -> g lo * g hi <= 0 ->
  bis_loop (fun x => Ok (g x)) tol cap cap (bis_start {| b_lower := lo; b_init := init; b_upper := hi |}) = Ok r ->
  (bs_iter r < cap)%nat -> 0 <= L ->
  (forall a b, lo <= a <= hi -> lo <= b <= hi -> Rabs (g a - g b) <= L * Rabs (a - b)) ->
  (forall x, lo <= x <= hi -> Rabs x <= X) -> L * (tol / 100 * X) < 1 / 10000 ->
  bisection (fun x => Ok (g x)) {| b_lower := lo; b_init := init; b_upper := hi |} tol cap = Ok (bs_x r).
Proof. exact Proofs.Bisect.c06_exit_before_cap_is_ok. Qed.
Check c06_exit_before_cap_is_ok : forall (g : R -> R) lo init hi tol cap r L X,
  continuity g -> lo <= init <= hi -> g lo * g hi <= 0 ->
  bis_loop (fun x => Ok (g x)) tol cap cap (bis_start {| b_lower := lo; b_init := init; b_upper := hi |}) = Ok r ->
  (bs_iter r < cap)%nat -> 0 <= L ->
  (forall a b, lo <= a <= hi -> lo <= b <= hi -> Rabs (g a - g b) <= L * Rabs (a - b)) ->
  (forall x, lo <= x <= hi -> Rabs x <= X) -> L * (tol / 100 * X) < 1 / 10000 ->
  bisection (fun x => Ok (g x)) {| b_lower := lo; b_init := init; b_upper := hi |} tol cap = Ok (bs_x r).
Print Assumptions c06_exit_before_cap_is_ok.

(* THE CONVERSE in exact arithmetic for a bracket away from the origin: continuous L-Lipschitz target with a weak
   sign change, init inside, |x| in [m, X] on the bracket with m > 0, tolerance tight enough for the gate
   (L * tol% * X < 1e-4, the complement of F-C06-LOOSE-TOL) and a budget cap > K >= 1 with
   100 (hi - lo) < tol * m * 2^K: the solver returns Ok x, x in the bracket, |g x| < 1e-4, and a root z of g
   lies within tol percent of x (or x is a root).  The loop cannot run past iteration K because the relative
   step is at most 100 (hi-lo) / (2^(k+1) m) after k halvings. *)
Theorem c06_finds_root_away_from_zero : forall (g : R -> R) lo init hi tol cap L X m K,
  continuity g -> lo <= init <= hi -> g lo * g hi <= 0 -> 0 < tol ->
  0 <= L -> (forall a b, lo <= a <= hi -> lo <= b <= hi -> Rabs (g a - g b) <= L * Rabs (a - b)) ->
  (forall x, lo <= x <= hi -> Rabs x <= X) -> L * (tol / 100 * X) < 1 / 10000 ->
  0 < m -> (forall x, lo <= x <= hi -> m <= Rabs x) ->
  (1 <= K < cap)%nat -> 100 * (hi - lo) < tol * m * 2 ^ K ->
  exists x, bisection (fun x => Ok (g x)) {| b_lower := lo; b_init := init; b_upper := hi |} tol cap = Ok x /\
            lo <= x <= hi /\ Rabs (g x) < 1 / 10000 /\
            exists z, g z = 0 /\ lo <= z <= hi /\ (g x = 0 \/ Rabs (x - z) * 100 < tol * Rabs x).
Proof. exact Proofs.Bisect.c06_finds_root_away_from_zero. Qed.
Check c06_finds_root_away_from_zero : forall (g : R -> R) lo init hi tol cap L X m K,
  continuity g -> lo <= init <= hi -> g lo * g hi <= 0 -> 0 < tol ->
  0 <= L -> (forall a b, lo <= a <= hi -> lo <= b <= hi -> Rabs (g a - g b) <= L * Rabs (a - b)) ->
  (forall x, lo <= x <= hi -> Rabs x <= X) -> L * (tol / 100 * X) < 1 / 10000 ->
  0 < m -> (forall x, lo <= x <= hi -> m <= Rabs x) ->
  (1 <= K < cap)%nat -> 100 * (hi - lo) < tol * m * 2 ^ K ->
  exists x, bisection (fun x => Ok (g x)) {| b_lower := lo; b_init := init; b_upper := hi |} tol cap = Ok x /\
            lo <= x <= hi /\ Rabs (g x) < 1 / 10000 /\
            exists z, g z = 0 /\ lo <= z <= hi /\ (g x = 0 \/ Rabs (x - z) * 100 < tol * Rabs x).
Print Assumptions c06_finds_root_away_from_zero.

(* after repair e42ded6: a root at the lower end is returned *)
Theorem c06_root_at_lower_end : forall (f : R -> res R) lo init hi tol cap vm,
  lo <= init <= hi -> f lo = Ok 0 -> f ((lo + hi) / 2) = Ok vm -> (0 < cap)%nat ->
  bisection f {| b_lower := lo; b_init := init; b_upper := hi |} tol cap = Ok lo.
Proof. exact Proofs.Bisect.c06_root_at_lower_end. Qed.
Check c06_root_at_lower_end : forall (f : R -> res R) lo init hi tol cap vm,
  lo <= init <= hi -> f lo = Ok 0 -> f ((lo + hi) / 2) = Ok vm -> (0 < cap)%nat ->
  bisection f {| b_lower := lo; b_init := init; b_upper := hi |} tol cap = Ok lo.
Print Assumptions c06_root_at_lower_end.

(* regression of the repaired finding F-C06-STALE-ZERO (8dfb6bc): init is the first midpoint and the second
   midpoint is 0; the relative change there is INFINITY now, the loop goes on and returns the root
   (before the repair: Err ENoConvergence, in the model and in the real code) *)
Theorem c06_stale_zero_repaired : bisection (fun x => Ok (x - 1 / 2)) {| b_lower := -3; b_init := -1; b_upper := 1 |} (1 / 100000) 1200
    = Ok (1 / 2).
Proof. exact Proofs.Bisect.c06_stale_zero_repaired. Qed.
Check c06_stale_zero_repaired : bisection (fun x => Ok (x - 1 / 2)) {| b_lower := -3; b_init := -1; b_upper := 1 |} (1 / 100000) 1200
    = Ok (1 / 2).
Print Assumptions c06_stale_zero_repaired.

(* non-vacuity: x^2 - 4 on [2, 5] (root at the lower end) returns Ok 2, so the hypotheses of
   c06_sound / c06_sound_simple / c06_root_at_lower_end are satisfiable *)
Example c06_nonvacuous :
  s_bisection px2m4 {| b_lower := 2; b_init := 3; b_upper := 5 |} (1 / 100000) 100 false = Ok 2.
Proof. exact Proofs.Bisect.c06_example_lower_end. Qed.

(* the hypotheses of c06_finds_root_partial are met by every polynomial with a sign change *)
Example c06_nonvacuous_continuity : continuity (eval_simple px2m4) /\ eval_simple px2m4 0 * eval_simple px2m4 3 <= 0.
Proof. split; [apply Proofs.Bisect.eval_simple_continuity|]. rewrite !Proofs.Bisect.px2m4_eval. lra. Qed.

(* the hypotheses of c06_finds_root_away_from_zero are satisfiable: x^2 - 4 on [1, 3], init 2, tol 1e-4 (percent),
   cap 100 with L = 6, X = 3, m = 1, K = 21 - the solver returns a value *)
Example c06_nonvacuous_away_from_zero :
  exists x, bisection (s_eval_univariate px2m4) {| b_lower := 1; b_init := 2; b_upper := 3 |} (1 / 10000) 100 = Ok x /\
            1 <= x <= 3 /\ Rabs (eval_simple px2m4 x) < 1 / 10000.
Proof. exact Proofs.Bisect.c06_example_away_from_zero. Qed.

(* ======================================================================================== *)
(* THE EXECUTED INSTANCE (T := float, Coq primitive binary64 = Rust f64), target f ARBITRARY.
   Reals are read through Flocq: B2R (Prim2B x); proofs in Proofs/BisectionFloat.v.          *)
From Coq Require Import Floats.
From Flocq Require Import Core BinarySingleNaN PrimFloat.
From SV Require Import Proofs.BisectionFloat.

(* the computed midpoint fl(fl(a+b)/2) of finite a <= b with |a|, |b| < 2^1023 is finite and lies in [a, b]
   (monotone rounding, 2a and 2b representable; subnormals included) *)
Theorem c06_float_midpoint_between : forall a b : PrimFloat.float,
  is_finite (Prim2B a) = true -> is_finite (Prim2B b) = true ->
  Rabs (B2R (Prim2B a)) < bpow radix2 1023 -> Rabs (B2R (Prim2B b)) < bpow radix2 1023 ->
  B2R (Prim2B a) <= B2R (Prim2B b) ->
  is_finite (Prim2B (PrimFloat.div (PrimFloat.add a b) (@ntwo PrimFloat.float FNum))) = true /\
  B2R (Prim2B a) <= B2R (Prim2B (PrimFloat.div (PrimFloat.add a b) (@ntwo PrimFloat.float FNum)))
                 <= B2R (Prim2B b).
Proof. exact Proofs.BisectionFloat.midpoint_between. Qed.
Check c06_float_midpoint_between : forall a b : PrimFloat.float,
  is_finite (Prim2B a) = true -> is_finite (Prim2B b) = true ->
  Rabs (B2R (Prim2B a)) < bpow radix2 1023 -> Rabs (B2R (Prim2B b)) < bpow radix2 1023 ->
  B2R (Prim2B a) <= B2R (Prim2B b) ->
  is_finite (Prim2B (PrimFloat.div (PrimFloat.add a b) (@ntwo PrimFloat.float FNum))) = true /\
  B2R (Prim2B a) <= B2R (Prim2B (PrimFloat.div (PrimFloat.add a b) (@ntwo PrimFloat.float FNum)))
                 <= B2R (Prim2B b).
Print Assumptions c06_float_midpoint_between.

(* the bracket invariant of the float loop: whatever f returns (NaN included) and whatever the fuel, the
   final bracket is finite, ordered, inside [lo, hi], and the candidate is finite and inside the bracket *)
Theorem c06_float_bracket_inv : forall (f : PrimFloat.float -> res PrimFloat.float) lo init hi tol cap fuel r,
  is_finite (Prim2B lo) = true -> is_finite (Prim2B hi) = true ->
  Rabs (B2R (Prim2B lo)) < bpow radix2 1023 -> Rabs (B2R (Prim2B hi)) < bpow radix2 1023 ->
  B2R (Prim2B lo) <= B2R (Prim2B hi) ->
  @bis_loop PrimFloat.float FNum f tol cap fuel (bis_start {| b_lower := lo; b_init := init; b_upper := hi |}) = Ok r ->
  is_finite (Prim2B (bs_lower r)) = true /\ is_finite (Prim2B (bs_upper r)) = true /\
  is_finite (Prim2B (bs_x r)) = true /\
  B2R (Prim2B lo) <= B2R (Prim2B (bs_lower r)) /\
  B2R (Prim2B (bs_lower r)) <= B2R (Prim2B (bs_x r)) <= B2R (Prim2B (bs_upper r)) /\
  B2R (Prim2B (bs_upper r)) <= B2R (Prim2B hi).
Proof. exact Proofs.BisectionFloat.bis_float_bracket_inv. Qed.
Check c06_float_bracket_inv : forall (f : PrimFloat.float -> res PrimFloat.float) lo init hi tol cap fuel r,
  is_finite (Prim2B lo) = true -> is_finite (Prim2B hi) = true ->
  Rabs (B2R (Prim2B lo)) < bpow radix2 1023 -> Rabs (B2R (Prim2B hi)) < bpow radix2 1023 ->
  B2R (Prim2B lo) <= B2R (Prim2B hi) ->
  @bis_loop PrimFloat.float FNum f tol cap fuel (bis_start {| b_lower := lo; b_init := init; b_upper := hi |}) = Ok r ->
  is_finite (Prim2B (bs_lower r)) = true /\ is_finite (Prim2B (bs_upper r)) = true /\
  is_finite (Prim2B (bs_x r)) = true /\
  B2R (Prim2B lo) <= B2R (Prim2B (bs_lower r)) /\
  B2R (Prim2B (bs_lower r)) <= B2R (Prim2B (bs_x r)) <= B2R (Prim2B (bs_upper r)) /\
  B2R (Prim2B (bs_upper r)) <= B2R (Prim2B hi).
Print Assumptions c06_float_bracket_inv.

(* ... the same from ANY state with a finite ordered bracket inside [lo, hi] (so it holds at every state the
   loop passes through: a loop from an intermediate state is a loop); bis_inv0 / bis_inv are the two
   conjunctions above, defined in Proofs/BisectionFloat.v *)
Theorem c06_float_bracket_inv_any_state : forall (f : PrimFloat.float -> res PrimFloat.float) tol cap lo hi,
  Rabs (B2R (Prim2B lo)) < bpow radix2 1023 -> Rabs (B2R (Prim2B hi)) < bpow radix2 1023 ->
  (forall s s' brk, bis_inv0 lo hi s -> bis_body f tol cap s = Ok (s', brk) -> bis_inv lo hi s') /\
  (forall fuel s r, bis_inv0 lo hi s -> bis_loop f tol cap fuel s = Ok r -> bis_inv lo hi r).
Proof. exact (fun f tol cap lo hi Mlo Mhi =>
   conj (Proofs.BisectionFloat.bis_body_float_inv f tol cap lo hi Mlo Mhi)
        (Proofs.BisectionFloat.bis_loop_float_inv f tol cap lo hi Mlo Mhi)). Qed.
Check c06_float_bracket_inv_any_state : forall (f : PrimFloat.float -> res PrimFloat.float) tol cap lo hi,
  Rabs (B2R (Prim2B lo)) < bpow radix2 1023 -> Rabs (B2R (Prim2B hi)) < bpow radix2 1023 ->
  (forall s s' brk, bis_inv0 lo hi s -> bis_body f tol cap s = Ok (s', brk) -> bis_inv lo hi s') /\
  (forall fuel s r, bis_inv0 lo hi s -> bis_loop f tol cap fuel s = Ok r -> bis_inv lo hi r).
Print Assumptions c06_float_bracket_inv_any_state.

(* SOUNDNESS of the executed solver: an Ok result is a finite float inside the caller's bracket whose float
   residual passed the gate (f x = Ok v, v finite - not a NaN, not an infinity - and |v| < gate as reals).
   Hypotheses: finite ends below 2^1023 in magnitude (lo + hi cannot overflow).  Nothing is assumed about
   the initial guess or the order of the ends: an accepted guess is not a NaN (range test as of 5439521),
   hence inside, hence lo <= hi.  Before that repair the theorem needed "init is not a NaN or lo <= hi"
   (see c06_float_nan_init_repaired). *)
Theorem c06_float_sound : forall (f : PrimFloat.float -> res PrimFloat.float) lo init hi tol cap x,
  is_finite (Prim2B lo) = true -> is_finite (Prim2B hi) = true ->
  Rabs (B2R (Prim2B lo)) < bpow radix2 1023 -> Rabs (B2R (Prim2B hi)) < bpow radix2 1023 ->
  @bisection PrimFloat.float FNum f {| b_lower := lo; b_init := init; b_upper := hi |} tol cap = Ok x ->
  is_finite (Prim2B x) = true /\
  B2R (Prim2B lo) <= B2R (Prim2B x) <= B2R (Prim2B hi) /\
  exists v, f x = Ok v /\
            PrimFloat.ltb (PrimFloat.abs v) (@gate PrimFloat.float FNum) = true /\
            is_finite (Prim2B v) = true /\
            Rabs (B2R (Prim2B v)) < B2R (Prim2B (@gate PrimFloat.float FNum)).
Proof. exact Proofs.BisectionFloat.bisection_float_sound. Qed.
Check c06_float_sound : forall (f : PrimFloat.float -> res PrimFloat.float) lo init hi tol cap x,
  is_finite (Prim2B lo) = true -> is_finite (Prim2B hi) = true ->
  Rabs (B2R (Prim2B lo)) < bpow radix2 1023 -> Rabs (B2R (Prim2B hi)) < bpow radix2 1023 ->
  @bisection PrimFloat.float FNum f {| b_lower := lo; b_init := init; b_upper := hi |} tol cap = Ok x ->
  is_finite (Prim2B x) = true /\
  B2R (Prim2B lo) <= B2R (Prim2B x) <= B2R (Prim2B hi) /\
  exists v, f x = Ok v /\
            PrimFloat.ltb (PrimFloat.abs v) (@gate PrimFloat.float FNum) = true /\
            is_finite (Prim2B v) = true /\
            Rabs (B2R (Prim2B v)) < B2R (Prim2B (@gate PrimFloat.float FNum)).
Print Assumptions c06_float_sound.

(* the float gate is the binary64 number nearest to the source literal 1e-4 (re-read on every run):
   7378697629483821 * 2^-66 = 1e-4 + 4.8e-21 *)
Theorem c06_float_gate_value :
  is_finite (Prim2B (@gate PrimFloat.float FNum)) = true /\
  B2R (Prim2B (@gate PrimFloat.float FNum)) = IZR 7378697629483821 * bpow radix2 (-66) /\
  1 / 10000 < B2R (Prim2B (@gate PrimFloat.float FNum)) < 1 / 10000 + 1 / 10 ^ 20.
Proof. exact Proofs.BisectionFloat.gate_float_value. Qed.
Check c06_float_gate_value :
  is_finite (Prim2B (@gate PrimFloat.float FNum)) = true /\
  B2R (Prim2B (@gate PrimFloat.float FNum)) = IZR 7378697629483821 * bpow radix2 (-66) /\
  1 / 10000 < B2R (Prim2B (@gate PrimFloat.float FNum)) < 1 / 10000 + 1 / 10 ^ 20.
Print Assumptions c06_float_gate_value.

(* what the range test `init.is_nan() || init < lo || hi < init` gives on floats: a guess that passes is finite
   (not a NaN, not an infinity) and inside *)
Theorem c06_float_init_in : forall lo init hi : PrimFloat.float,
  is_finite (Prim2B lo) = true -> is_finite (Prim2B hi) = true ->
  @init_out PrimFloat.float FNum {| b_lower := lo; b_init := init; b_upper := hi |} = false ->
  is_finite (Prim2B init) = true /\ B2R (Prim2B lo) <= B2R (Prim2B init) <= B2R (Prim2B hi).
Proof. exact Proofs.BisectionFloat.init_in_float. Qed.
Check c06_float_init_in : forall lo init hi : PrimFloat.float,
  is_finite (Prim2B lo) = true -> is_finite (Prim2B hi) = true ->
  @init_out PrimFloat.float FNum {| b_lower := lo; b_init := init; b_upper := hi |} = false ->
  is_finite (Prim2B init) = true /\ B2R (Prim2B lo) <= B2R (Prim2B init) <= B2R (Prim2B hi).
Print Assumptions c06_float_init_in.

(* a reversed finite bracket is rejected for EVERY initial guess, NaN included (float counterpart of c06_reversed_rejected) *)
Theorem c06_float_reversed_rejected : forall (f : PrimFloat.float -> res PrimFloat.float) lo init hi tol cap,
  is_finite (Prim2B lo) = true -> is_finite (Prim2B hi) = true ->
  B2R (Prim2B hi) < B2R (Prim2B lo) ->
  @bisection PrimFloat.float FNum f {| b_lower := lo; b_init := init; b_upper := hi |} tol cap = Err EXInitOutOfBounds.
Proof. exact Proofs.BisectionFloat.bisection_float_reversed_rejected. Qed.
Check c06_float_reversed_rejected : forall (f : PrimFloat.float -> res PrimFloat.float) lo init hi tol cap,
  is_finite (Prim2B lo) = true -> is_finite (Prim2B hi) = true ->
  B2R (Prim2B hi) < B2R (Prim2B lo) ->
  @bisection PrimFloat.float FNum f {| b_lower := lo; b_init := init; b_upper := hi |} tol cap = Err EXInitOutOfBounds.
Print Assumptions c06_float_reversed_rejected.

(* a NaN initial guess is rejected whatever the bounds are (NaN and infinite bounds included) *)
Theorem c06_float_nan_init_rejected : forall (f : PrimFloat.float -> res PrimFloat.float) lo init hi tol cap,
  is_nan (Prim2B init) = true ->
  @bisection PrimFloat.float FNum f {| b_lower := lo; b_init := init; b_upper := hi |} tol cap = Err EXInitOutOfBounds.
Proof. exact Proofs.BisectionFloat.bisection_float_nan_init_rejected. Qed.
Check c06_float_nan_init_rejected : forall (f : PrimFloat.float -> res PrimFloat.float) lo init hi tol cap,
  is_nan (Prim2B init) = true ->
  @bisection PrimFloat.float FNum f {| b_lower := lo; b_init := init; b_upper := hi |} tol cap = Err EXInitOutOfBounds.
Print Assumptions c06_float_nan_init_rejected.

(* REGRESSION of a repaired finding.  The range test used to be `init < lo || hi < init`: both comparisons are false
   on a NaN, so a NaN guess was accepted even with a REVERSED bracket.  The hole was found while proving
   c06_float_sound (the theorem needed "init is not a NaN or lo <= hi"), shown on the real code - Ok(5.0) for x - 5
   on [5, 1] with a NaN guess - and repaired in the crate by commit 5439521 (`x_curr.is_nan() || ...`).  The same
   inputs in the model (lo = 5, hi = 1, init = NaN, target constantly 0; before: Ok 5) are now rejected. *)
Theorem c06_float_nan_init_repaired :
  @bisection PrimFloat.float FNum (fun _ => Ok 0%float)
     {| b_lower := 0x1.4p+2%float; b_init := PrimFloat.nan; b_upper := 0x1p+0%float |} 0x1p-20%float 100
  = Err EXInitOutOfBounds.
Proof. exact Proofs.BisectionFloat.nan_init_reversed_bracket_rejected. Qed.
Check c06_float_nan_init_repaired :
  @bisection PrimFloat.float FNum (fun _ => Ok 0%float)
     {| b_lower := 0x1.4p+2%float; b_init := PrimFloat.nan; b_upper := 0x1p+0%float |} 0x1p-20%float 100
  = Err EXInitOutOfBounds.
Print Assumptions c06_float_nan_init_repaired.

(* non-vacuity of c06_float_sound, computed: x*x - 2 on [0, 2] from 1, tol 1e-6 (percent), cap 100 returns
   Ok ex_root with 0x1.6a09e6p+0 < ex_root < 0x1.6a09e8p+0 (sqrt 2 = 0x1.6a09e667f3bcdp+0), and every
   hypothesis of the theorem holds for these bounds *)
Example c06_float_nonvacuous :
  @bisection PrimFloat.float FNum ex_f
     {| b_lower := 0%float; b_init := 0x1p+0%float; b_upper := 0x1p+1%float |} ex_tol 100 = Ok ex_root /\
  PrimFloat.ltb 0x1.6a09e6p+0%float ex_root = true /\ PrimFloat.ltb ex_root 0x1.6a09e8p+0%float = true /\
  is_finite (Prim2B 0%float) = true /\ is_finite (Prim2B 0x1p+1%float) = true /\
  Rabs (B2R (Prim2B 0%float)) < bpow radix2 1023 /\ Rabs (B2R (Prim2B 0x1p+1%float)) < bpow radix2 1023.
Proof. exact Proofs.BisectionFloat.bisection_float_example. Qed.
