(* Properties/C06.v — bisection: a returned root is a root in the bracket; the sign change is kept.
   Statements only; every proof is `exact` of a lemma of Proofs/Bisect.v.  Unless a statement
   quantifies over the instance, it is about the R instance of the model (exact arithmetic);
   float behaviour is measured by the correspondence check. *)
From Coq Require Import ZArith List Reals Lra Lia Bool.
From SV Require Import Base.Num Base.Outcome Model.Poly Model.Solvers Proofs.Bisect.
Import ListNotations.
Local Open Scope R_scope.

(* an Ok result lies in the caller's bracket and passes the residual gate (abstract target f) *)
Theorem c06_sound : forall (f : R -> res R) lo init hi tol cap x,
  bisection f {| b_lower := lo; b_init := init; b_upper := hi |} tol cap = Ok x ->
  lo <= x <= hi /\ exists v, f x = Ok v /\ Rabs v < 1 / 10000.
Proof. exact Proofs.Bisect.c06_sound. Qed.
Check c06_sound : forall (f : R -> res R) lo init hi tol cap x,
  bisection f {| b_lower := lo; b_init := init; b_upper := hi |} tol cap = Ok x ->
  lo <= x <= hi /\ exists v, f x = Ok v /\ Rabs v < 1 / 10000.
Print Assumptions c06_sound.

(* SimplePolynomial: g = p (Root) or its derivative (Extrema) *)
Theorem c06_sound_simple : forall (p : spoly R) lo init hi tol cap mode x,
  s_bisection p {| b_lower := lo; b_init := init; b_upper := hi |} tol cap mode = Ok x ->
  lo <= x <= hi /\ Rabs (eval_simple (s_target p mode) x) < 1 / 10000.
Proof. exact Proofs.Bisect.c06_sound_simple. Qed.
Check c06_sound_simple : forall (p : spoly R) lo init hi tol cap mode x,
  s_bisection p {| b_lower := lo; b_init := init; b_upper := hi |} tol cap mode = Ok x ->
  lo <= x <= hi /\ Rabs (eval_simple (s_target p mode) x) < 1 / 10000.
Print Assumptions c06_sound_simple.

(* IntermediatePolynomial: the target is the polynomial or its univariate derivative *)
Theorem c06_sound_inter : forall (p : ipoly R) lo init hi tol cap mode x,
  i_bisection p {| b_lower := lo; b_init := init; b_upper := hi |} tol cap mode = Ok x ->
  lo <= x <= hi /\ exists q v, (if mode then i_derivate_univariate p else Ok p) = Ok q /\
                               i_eval_univariate q x = Ok v /\ Rabs v < 1 / 10000.
Proof. exact Proofs.Bisect.c06_sound_inter. Qed.
Check c06_sound_inter : forall (p : ipoly R) lo init hi tol cap mode x,
  i_bisection p {| b_lower := lo; b_init := init; b_upper := hi |} tol cap mode = Ok x ->
  lo <= x <= hi /\ exists q v, (if mode then i_derivate_univariate p else Ok p) = Ok q /\
                               i_eval_univariate q x = Ok v /\ Rabs v < 1 / 10000.
Print Assumptions c06_sound_inter.

(* an initial guess outside the bracket is rejected up front *)
Theorem c06_init_rejected : forall (f : R -> res R) lo init hi tol cap,
  init < lo \/ hi < init ->
  bisection f {| b_lower := lo; b_init := init; b_upper := hi |} tol cap = Err EXInitOutOfBounds.
Proof. exact Proofs.Bisect.c06_init_rejected. Qed.
Check c06_init_rejected : forall (f : R -> res R) lo init hi tol cap,
  init < lo \/ hi < init ->
  bisection f {| b_lower := lo; b_init := init; b_upper := hi |} tol cap = Err EXInitOutOfBounds.
Print Assumptions c06_init_rejected.

(* corollary: with a reversed bracket every initial guess is rejected *)
Theorem c06_reversed_rejected : forall (f : R -> res R) lo init hi tol cap,
  hi < lo -> bisection f {| b_lower := lo; b_init := init; b_upper := hi |} tol cap = Err EXInitOutOfBounds.
Proof. exact Proofs.Bisect.c06_reversed_rejected. Qed.
Check c06_reversed_rejected : forall (f : R -> res R) lo init hi tol cap,
  hi < lo -> bisection f {| b_lower := lo; b_init := init; b_upper := hi |} tol cap = Err EXInitOutOfBounds.
Print Assumptions c06_reversed_rejected.

(* every Num instance (floats included): never a panic, in particular never [Panic WFuel]:
   the fuel cap (= at most cap+1 loop bodies) always suffices, and iter <= cap at the exit *)
Theorem c06_total : forall (T : Type) (NT : Num T) (f : T -> res T) (b : bounds T) (tol : T) (cap : nat),
  (forall x, no_panic (f x)) ->
  no_panic (bisection f b tol cap) /\
  no_panic (bis_loop f tol cap cap (bis_start b)) /\
  (forall r, bis_loop f tol cap cap (bis_start b) = Ok r -> (bs_iter r <= cap)%nat).
Proof. exact Proofs.Bisect.c06_total. Qed.
Check c06_total : forall (T : Type) (NT : Num T) (f : T -> res T) (b : bounds T) (tol : T) (cap : nat),
  (forall x, no_panic (f x)) ->
  no_panic (bisection f b tol cap) /\
  no_panic (bis_loop f tol cap cap (bis_start b)) /\
  (forall r, bis_loop f tol cap cap (bis_start b) = Ok r -> (bs_iter r <= cap)%nat).
Print Assumptions c06_total.

(* the two polynomial types never panic, so the extracted entry points never do *)
Theorem c06_total_poly : forall (T : Type) (NT : Num T) (b : bounds T) (tol : T) (cap : nat) (mode : bool),
  (forall p : spoly T, no_panic (s_bisection p b tol cap mode)) /\
  (forall p : ipoly T, no_panic (i_bisection p b tol cap mode)).
Proof. exact Proofs.Bisect.c06_total_poly. Qed.
Check c06_total_poly : forall (T : Type) (NT : Num T) (b : bounds T) (tol : T) (cap : nat) (mode : bool),
  (forall p : spoly T, no_panic (s_bisection p b tol cap mode)) /\
  (forall p : ipoly T, no_panic (i_bisection p b tol cap mode)).
Print Assumptions c06_total_poly.

(* a (weak or strict) sign change over the caller's bracket is still inside the final bracket *)
Theorem c06_bracket_keeps_sign_change : forall (f : R -> res R) lo init hi tol cap r vlo vhi,
  lo <= hi -> f lo = Ok vlo -> f hi = Ok vhi -> vlo * vhi <= 0 ->
  bis_loop f tol cap cap (bis_start {| b_lower := lo; b_init := init; b_upper := hi |}) = Ok r ->
  lo <= bs_lower r /\ bs_lower r <= bs_upper r /\ bs_upper r <= hi /\
  bs_lower r <= bs_x r <= bs_upper r /\
  exists a b, f (bs_lower r) = Ok a /\ f (bs_upper r) = Ok b /\ a * b <= 0 /\ (vlo * vhi < 0 -> a * b < 0).
Proof. exact Proofs.Bisect.c06_bracket_keeps_sign_change. Qed.
Check c06_bracket_keeps_sign_change : forall (f : R -> res R) lo init hi tol cap r vlo vhi,
  lo <= hi -> f lo = Ok vlo -> f hi = Ok vhi -> vlo * vhi <= 0 ->
  bis_loop f tol cap cap (bis_start {| b_lower := lo; b_init := init; b_upper := hi |}) = Ok r ->
  lo <= bs_lower r /\ bs_lower r <= bs_upper r /\ bs_upper r <= hi /\
  bs_lower r <= bs_x r <= bs_upper r /\
  exists a b, f (bs_lower r) = Ok a /\ f (bs_upper r) = Ok b /\ a * b <= 0 /\ (vlo * vhi < 0 -> a * b < 0).
Print Assumptions c06_bracket_keeps_sign_change.

(* PARTIAL converse: at the loop exit the bracket has been halved once per non-exact body, holds a
   root z of the continuous target, the candidate is within (hi-lo)/2^iter of z, is a root on the
   `exact` exit, and (after repair 8dfb6bc) on the tolerance exit is non-zero with z within tol
   percent of it.  The converse itself is proved below for a bracket that stays away from the origin
   (c06_finds_root_away_from_zero).  STILL LEFT TO THE ORACLE: only the case of a root at 0 / a bracket
   containing 0, where the relative step never becomes small in exact arithmetic and the exit needs
   floating-point underflow (about 1100 halvings), plus the loose-tolerance class F-C06-LOOSE-TOL. *)
Theorem c06_finds_root_partial : forall (g : R -> R) lo init hi tol cap r,
  continuity g -> lo <= hi -> g lo * g hi <= 0 ->
  bis_loop (fun x => Ok (g x)) tol cap cap (bis_start {| b_lower := lo; b_init := init; b_upper := hi |}) = Ok r ->
  bs_upper r - bs_lower r = (hi - lo) / 2 ^ (if bs_exact r then bs_iter r else S (bs_iter r)) /\
  (bs_exact r = true -> g (bs_x r) = 0) /\
  lo <= bs_x r <= hi /\
  exists z, g z = 0 /\ lo <= z <= hi /\ bs_lower r <= z <= bs_upper r /\
            Rabs (bs_x r - z) <= (hi - lo) / 2 ^ bs_iter r /\
            (bs_exact r = false -> (bs_iter r < cap)%nat ->
               bs_x r <> 0 /\ Rabs (bs_x r - z) * 100 < tol * Rabs (bs_x r)).
Proof. exact Proofs.Bisect.c06_finds_root_partial. Qed.
Check c06_finds_root_partial : forall (g : R -> R) lo init hi tol cap r,
  continuity g -> lo <= hi -> g lo * g hi <= 0 ->
  bis_loop (fun x => Ok (g x)) tol cap cap (bis_start {| b_lower := lo; b_init := init; b_upper := hi |}) = Ok r ->
  bs_upper r - bs_lower r = (hi - lo) / 2 ^ (if bs_exact r then bs_iter r else S (bs_iter r)) /\
  (bs_exact r = true -> g (bs_x r) = 0) /\
  lo <= bs_x r <= hi /\
  exists z, g z = 0 /\ lo <= z <= hi /\ bs_lower r <= z <= bs_upper r /\
            Rabs (bs_x r - z) <= (hi - lo) / 2 ^ bs_iter r /\
            (bs_exact r = false -> (bs_iter r < cap)%nat ->
               bs_x r <> 0 /\ Rabs (bs_x r - z) * 100 < tol * Rabs (bs_x r)).
Print Assumptions c06_finds_root_partial.

(* ... and the exit before the cap is ALL that is missing: if the loop leaves with iter < cap and the
   target is L-Lipschitz on the bracket with L * tol% * max|x| < 1e-4 (the complement of the input
   class of the known finding F-C06-LOOSE-TOL), the residual gate passes and Ok is returned *)
Theorem c06_exit_before_cap_is_ok : forall (g : R -> R) lo init hi tol cap r L X,
  continuity g -> lo <= init <= hi -> g lo * g hi <= 0 ->
  bis_loop (fun x => Ok (g x)) tol cap cap (bis_start {| b_lower := lo; b_init := init; b_upper := hi |}) = Ok r ->
  (bs_iter r < cap)%nat -> 0 <= L ->
  (forall a b, lo <= a <= hi -> lo <= b <= hi -> Rabs (g a - g b) <= L * Rabs (a - b)) ->
  (forall x, lo <= x <= hi -> Rabs x <= X) -> L * (tol / 100 * X) < 1 / 10000 ->
  bisection (fun x => Ok (g x)) {| b_lower := lo; b_init := init; b_upper := hi |} tol cap = Ok (bs_x r).
Proof. exact Proofs.Bisect.c06_exit_before_cap_is_ok. Qed.
Check c06_exit_before_cap_is_ok : forall (g : R -> R) lo init hi tol cap r L X,
  continuity g -> lo <= init <= hi -> g lo * g hi <= 0 ->
  bis_loop (fun x => Ok (g x)) tol cap cap (bis_start {| b_lower := lo; b_init := init; b_upper := hi |}) = Ok r ->
  (bs_iter r < cap)%nat -> 0 <= L ->
  (forall a b, lo <= a <= hi -> lo <= b <= hi -> Rabs (g a - g b) <= L * Rabs (a - b)) ->
  (forall x, lo <= x <= hi -> Rabs x <= X) -> L * (tol / 100 * X) < 1 / 10000 ->
  bisection (fun x => Ok (g x)) {| b_lower := lo; b_init := init; b_upper := hi |} tol cap = Ok (bs_x r).
Print Assumptions c06_exit_before_cap_is_ok.

(* THE CONVERSE in exact arithmetic for a bracket away from the origin: continuous L-Lipschitz target with a weak
   sign change, init inside, |x| in [m, X] on the bracket with m > 0, tolerance tight enough for the gate
   (L * tol% * X < 1e-4, the complement of F-C06-LOOSE-TOL) and a budget cap > K >= 1 with
   100 (hi - lo) < tol * m * 2^K: the solver returns Ok x, x in the bracket, |g x| < 1e-4, and a root z of g
   lies within tol percent of x (or x is a root).  The loop cannot run past iteration K because the relative
   step is at most 100 (hi-lo) / (2^(k+1) m) after k halvings. *)
Theorem c06_finds_root_away_from_zero : forall (g : R -> R) lo init hi tol cap L X m K,
  continuity g -> lo <= init <= hi -> g lo * g hi <= 0 -> 0 < tol ->
  0 <= L -> (forall a b, lo <= a <= hi -> lo <= b <= hi -> Rabs (g a - g b) <= L * Rabs (a - b)) ->
  (forall x, lo <= x <= hi -> Rabs x <= X) -> L * (tol / 100 * X) < 1 / 10000 ->
  0 < m -> (forall x, lo <= x <= hi -> m <= Rabs x) ->
  (1 <= K < cap)%nat -> 100 * (hi - lo) < tol * m * 2 ^ K ->
  exists x, bisection (fun x => Ok (g x)) {| b_lower := lo; b_init := init; b_upper := hi |} tol cap = Ok x /\
            lo <= x <= hi /\ Rabs (g x) < 1 / 10000 /\
            exists z, g z = 0 /\ lo <= z <= hi /\ (g x = 0 \/ Rabs (x - z) * 100 < tol * Rabs x).
Proof. exact Proofs.Bisect.c06_finds_root_away_from_zero. Qed.
Check c06_finds_root_away_from_zero : forall (g : R -> R) lo init hi tol cap L X m K,
  continuity g -> lo <= init <= hi -> g lo * g hi <= 0 -> 0 < tol ->
  0 <= L -> (forall a b, lo <= a <= hi -> lo <= b <= hi -> Rabs (g a - g b) <= L * Rabs (a - b)) ->
  (forall x, lo <= x <= hi -> Rabs x <= X) -> L * (tol / 100 * X) < 1 / 10000 ->
  0 < m -> (forall x, lo <= x <= hi -> m <= Rabs x) ->
  (1 <= K < cap)%nat -> 100 * (hi - lo) < tol * m * 2 ^ K ->
  exists x, bisection (fun x => Ok (g x)) {| b_lower := lo; b_init := init; b_upper := hi |} tol cap = Ok x /\
            lo <= x <= hi /\ Rabs (g x) < 1 / 10000 /\
            exists z, g z = 0 /\ lo <= z <= hi /\ (g x = 0 \/ Rabs (x - z) * 100 < tol * Rabs x).
Print Assumptions c06_finds_root_away_from_zero.

(* after repair e42ded6: a root at the lower end is returned *)
Theorem c06_root_at_lower_end : forall (f : R -> res R) lo init hi tol cap vm,
  lo <= init <= hi -> f lo = Ok 0 -> f ((lo + hi) / 2) = Ok vm -> (0 < cap)%nat ->
  bisection f {| b_lower := lo; b_init := init; b_upper := hi |} tol cap = Ok lo.
Proof. exact Proofs.Bisect.c06_root_at_lower_end. Qed.
Check c06_root_at_lower_end : forall (f : R -> res R) lo init hi tol cap vm,
  lo <= init <= hi -> f lo = Ok 0 -> f ((lo + hi) / 2) = Ok vm -> (0 < cap)%nat ->
  bisection f {| b_lower := lo; b_init := init; b_upper := hi |} tol cap = Ok lo.
Print Assumptions c06_root_at_lower_end.

(* regression of the repaired finding F-C06-STALE-ZERO (8dfb6bc): init is the first midpoint and the second
   midpoint is 0; the relative change there is INFINITY now, the loop goes on and returns the root
   (before the repair: Err ENoConvergence, in the model and in the real code) *)
Theorem c06_stale_zero_repaired : bisection (fun x => Ok (x - 1 / 2)) {| b_lower := -3; b_init := -1; b_upper := 1 |} (1 / 100000) 1200
    = Ok (1 / 2).
Proof. exact Proofs.Bisect.c06_stale_zero_repaired. Qed.
Check c06_stale_zero_repaired : bisection (fun x => Ok (x - 1 / 2)) {| b_lower := -3; b_init := -1; b_upper := 1 |} (1 / 100000) 1200
    = Ok (1 / 2).
Print Assumptions c06_stale_zero_repaired.

(* non-vacuity: x^2 - 4 on [2, 5] (root at the lower end) returns Ok 2, so the hypotheses of
   c06_sound / c06_sound_simple / c06_root_at_lower_end are satisfiable *)
Example c06_nonvacuous :
  s_bisection px2m4 {| b_lower := 2; b_init := 3; b_upper := 5 |} (1 / 100000) 100 false = Ok 2.
Proof. exact Proofs.Bisect.c06_example_lower_end. Qed.

(* the hypotheses of c06_finds_root_partial are met by every polynomial with a sign change *)
Example c06_nonvacuous_continuity : continuity (eval_simple px2m4) /\ eval_simple px2m4 0 * eval_simple px2m4 3 <= 0.
Proof. split; [apply Proofs.Bisect.eval_simple_continuity|]. rewrite !Proofs.Bisect.px2m4_eval. lra. Qed.

(* the hypotheses of c06_finds_root_away_from_zero are satisfiable: x^2 - 4 on [1, 3], init 2, tol 1e-4 (percent),
   cap 100 with L = 6, X = 3, m = 1, K = 21 - the solver returns a value *)
Example c06_nonvacuous_away_from_zero :
  exists x, bisection (s_eval_univariate px2m4) {| b_lower := 1; b_init := 2; b_upper := 3 |} (1 / 10000) 100 = Ok x /\
            1 <= x <= 3 /\ Rabs (eval_simple px2m4 x) < 1 / 10000.
Proof. exact Proofs.Bisect.c06_example_away_from_zero. Qed.
