From Coq Require Import ZArith List Reals Lra Lia Bool.
From SV Require Import Base.Num Base.Outcome Model.Poly Model.Solvers Proofs.Bisect.
Import ListNotations.
Local Open Scope R_scope.

Theorem c06_init_rejected : forall (f : R -> res R) lo init hi tol cap,
  init < lo \/ hi < init ->
  bisection f {| b_lower := lo; b_init := init; b_upper := hi |} tol cap = Err EXInitOutOfBounds.
Proof. exact Proofs.Bisect.c06_init_rejected. Qed.
Check c06_init_rejected : forall (f : R -> res R) lo init hi tol cap,
  init < lo \/ hi < init ->
  bisection f {| b_lower := lo; b_init := init; b_upper := hi |} tol cap = Err EXInitOutOfBounds.
Print Assumptions c06_init_rejected.

Example c06_nonvacuous : (3 < 1 \/ 2 < 3)%R.
Proof. right; lra. Qed.
