(* Properties/C15.v — every regressor returns the least-squares optimum and its own fit statistics.
   Statements only; every proof is `exact` of a lemma of Proofs/Regress.v (FLOAT block at the end: Proofs/RegressFloat.v).  All statements but the FLOAT block are about the
   R instance of the model (exact arithmetic); rounding (accuracy up to the moment-matrix condition, the
   rounding term added to the proved contraction bound of gradient descent) is measured by the correspondence check and
   the exact oracle.
   Spec vocabulary (Proofs/Regress.v):  Rpeval cs t = Σ_k cs_k t^k;  SSE cs x y = Σ_i (y_i - Rpeval cs x_i)²;
   SST y = Σ_i (y_i - mean y)²;  Nres j cs x y = Σ_i x_i^j (y_i - Rpeval cs x_i)  (j-th normal equation).
   NOTE (finding F14, not a theorem): PolynomialRegression::fit passes the pivot tolerance 1e-5 to the solver,
   so on benign full-rank data (x = 100..111, order 2) the model — like the code — is `Panic WUnwrap`;
   the theorems below speak about the fits that return. *)
From Coq Require Import ZArith List Reals Lia.
From SV Require Import Base.Num Base.Outcome Base.Mat Model.Subst Model.Gauss Model.Regress Proofs.Gauss Proofs.Regress.
Import ListNotations.
Local Open Scope R_scope.

(* the closed-form line satisfies both normal equations (Σ r_i = 0, Σ r_i x_i = 0) *)
Theorem c15_ls_normal : forall (x y : list R), length x = length y ->
  INR (length x) * SumL (fun t => t ^ 2) x - Rlsum x * Rlsum x <> 0 ->
  Nres 0 (coefs (ls_fit x y)) x y = 0 /\ Nres 1 (coefs (ls_fit x y)) x y = 0.
Proof. exact Proofs.Regress.c15_ls_normal. Qed.
Check c15_ls_normal : forall (x y : list R), length x = length y ->
  INR (length x) * SumL (fun t => t ^ 2) x - Rlsum x * Rlsum x <> 0 ->
  Nres 0 (coefs (ls_fit x y)) x y = 0 /\ Nres 1 (coefs (ls_fit x y)) x y = 0.
Print Assumptions c15_ls_normal.

(* ... and its hypothesis holds as soon as two abscissae differ *)
Theorem c15_distinct_denominator : forall (x : list R) (u v : R), In u x -> In v x -> u <> v ->
  INR (length x) * SumL (fun t => t ^ 2) x - Rlsum x * Rlsum x <> 0.
Proof. exact Proofs.Regress.c15_distinct_denominator. Qed.
Check c15_distinct_denominator : forall (x : list R) (u v : R), In u x -> In v x -> u <> v ->
  INR (length x) * SumL (fun t => t ^ 2) x - Rlsum x * Rlsum x <> 0.
Print Assumptions c15_distinct_denominator.

(* if the polynomial fit returns, its residuals are orthogonal to 1, x, ..., x^order  (uses c08_solves) *)
Theorem c15_poly_normal : forall (order : nat) (x y : list R) (m : lmodel R),
  length x = length y -> poly_fit order x y = Ok m ->
  length (coefs m) = S order /\ forall j, (j <= order)%nat -> Nres j (coefs m) x y = 0.
Proof. exact Proofs.Regress.c15_poly_normal. Qed.
Check c15_poly_normal : forall (order : nat) (x y : list R) (m : lmodel R),
  length x = length y -> poly_fit order x y = Ok m ->
  length (coefs m) = S order /\ forall j, (j <= order)%nat -> Nres j (coefs m) x y = 0.
Print Assumptions c15_poly_normal.

(* the fit has exactly two outcomes: a model, or the panic of `unwrap` (never an error value) *)
Theorem c15_poly_outcomes : forall (order : nat) (x y : list R),
  (exists m, poly_fit order x y = Ok m) \/ poly_fit order x y = Panic WUnwrap.
Proof. exact Proofs.Regress.c15_poly_outcomes. Qed.
Check c15_poly_outcomes : forall (order : nat) (x y : list R),
  (exists m, poly_fit order x y = Ok m) \/ poly_fit order x y = Panic WUnwrap.
Print Assumptions c15_poly_outcomes.

(* normal equations => no other coefficients of the same order give a smaller sum of squares *)
Theorem c15_optimal : forall (x y c c' : list R), length c = length c' ->
  (forall j, (j < length c)%nat -> Nres j c x y = 0) ->
  SSE c' x y = SSE c x y + SumL (fun p => (Rpeval c (fst p) - Rpeval c' (fst p)) ^ 2) (combine x y) /\
  SSE c x y <= SSE c' x y.
Proof. exact Proofs.Regress.c15_optimal. Qed.
Check c15_optimal : forall (x y c c' : list R), length c = length c' ->
  (forall j, (j < length c)%nat -> Nres j c x y = 0) ->
  SSE c' x y = SSE c x y + SumL (fun p => (Rpeval c (fst p) - Rpeval c' (fst p)) ^ 2) (combine x y) /\
  SSE c x y <= SSE c' x y.
Print Assumptions c15_optimal.

(* an order-1 polynomial fit equals the line fit *)
Theorem c15_order1_is_line : forall (x y : list R) (m : lmodel R), length x = length y ->
  INR (length x) * SumL (fun t => t ^ 2) x - Rlsum x * Rlsum x <> 0 ->
  poly_fit 1 x y = Ok m -> coefs m = coefs (ls_fit x y).
Proof. exact Proofs.Regress.c15_order1_is_line. Qed.
Check c15_order1_is_line : forall (x y : list R) (m : lmodel R), length x = length y ->
  INR (length x) * SumL (fun t => t ^ 2) x - Rlsum x * Rlsum x <> 0 ->
  poly_fit 1 x y = Ok m -> coefs m = coefs (ls_fit x y).
Print Assumptions c15_order1_is_line.

(* raising the order never increases the residual *)
Theorem c15_order_monotone : forall (order : nat) (x y : list R) (m m' : lmodel R),
  length x = length y -> poly_fit order x y = Ok m -> poly_fit (S order) x y = Ok m' ->
  SSE (coefs m') x y <= SSE (coefs m) x y.
Proof. exact Proofs.Regress.c15_order_monotone. Qed.
Check c15_order_monotone : forall (order : nat) (x y : list R) (m m' : lmodel R),
  length x = length y -> poly_fit order x y = Ok m -> poly_fit (S order) x y = Ok m' ->
  SSE (coefs m') x y <= SSE (coefs m) x y.
Print Assumptions c15_order_monotone.

(* r2 and std_err are the textbook functions OF THE RETURNED COEFFICIENTS; predict evaluates that polynomial *)
Theorem c15_stats : forall (x y : list R),
  (length x = length y ->
   let m := ls_fit x y in
   r2 m = (SST y - SSE (coefs m) x y) / SST y /\
   std_err m = sqrt (SSE (coefs m) x y / (INR (length x) - 2))) /\
  (forall order m, poly_fit order x y = Ok m ->
   r2 m = (SST y - SSE (coefs m) x y) / SST y /\
   std_err m = sqrt (SSE (coefs m) x y / (INR (length y) - 2))) /\
  (forall steps alpha, let m := gd_fit steps alpha x y in
   r2 m = (SST y - SSE (coefs m) x y) / SST y /\
   std_err m = sqrt (SSE (coefs m) x y / (INR (length y) - 2))) /\
  (forall (m : lmodel R) t, predict m t = Rsum_n (length (coefs m)) (fun k => nth k (coefs m) 0 * t ^ k)).
Proof. exact Proofs.Regress.c15_stats. Qed.
Check c15_stats : forall (x y : list R),
  (length x = length y ->
   let m := ls_fit x y in
   r2 m = (SST y - SSE (coefs m) x y) / SST y /\
   std_err m = sqrt (SSE (coefs m) x y / (INR (length x) - 2))) /\
  (forall order m, poly_fit order x y = Ok m ->
   r2 m = (SST y - SSE (coefs m) x y) / SST y /\
   std_err m = sqrt (SSE (coefs m) x y / (INR (length y) - 2))) /\
  (forall steps alpha, let m := gd_fit steps alpha x y in
   r2 m = (SST y - SSE (coefs m) x y) / SST y /\
   std_err m = sqrt (SSE (coefs m) x y / (INR (length y) - 2))) /\
  (forall (m : lmodel R) t, predict m t = Rsum_n (length (coefs m)) (fun k => nth k (coefs m) 0 * t ^ k)).
Print Assumptions c15_stats.

(* gradient descent: the returned coefficients are the iterated step from (mean y, 0) ... *)
Theorem c15_gd_iterates : forall steps alpha (x y : list R),
  coefs (gd_fit steps alpha x y) =
  let w := for_range 0 steps (fun _ w => gd_step alpha (INR (length y)) x y w) (Rlsum y / INR (length y), 0) in
  [fst w; snd w].
Proof. exact Proofs.Regress.gd_fit_coefs. Qed.
Check c15_gd_iterates : forall steps alpha (x y : list R),
  coefs (gd_fit steps alpha x y) =
  let w := for_range 0 steps (fun _ w => gd_step alpha (INR (length y)) x y w) (Rlsum y / INR (length y), 0) in
  [fst w; snd w].
Print Assumptions c15_gd_iterates.

(* ... each step maps the error e = w - (a, b) around a normal-equation solution to (I - alpha H) e,
   H = (1/n) [[n, Σx], [Σx, Σx²]], and (a, b) is a fixed point of the step.
   (The norm bound rho^k |e0| is c15_gd_contraction below; only its floating-point rounding term is left to the oracle.) *)
Theorem c15_gd_recurrence : forall (alpha : R) (x y : list R) (a b wy wx : R),
  length x = length y -> INR (length y) <> 0 ->
  Nres 0 [a; b] x y = 0 -> Nres 1 [a; b] x y = 0 ->
  let n := INR (length y) in
  let w' := gd_step alpha n x y (wy, wx) in
  fst w' - a = (wy - a) - alpha * ((wy - a) + Rlsum x / n * (wx - b)) /\
  snd w' - b = (wx - b) - alpha * (Rlsum x / n * (wy - a) + SumL (fun t => t ^ 2) x / n * (wx - b)) /\
  gd_step alpha n x y (a, b) = (a, b).
Proof. exact Proofs.Regress.c15_gd_recurrence. Qed.
Check c15_gd_recurrence : forall (alpha : R) (x y : list R) (a b wy wx : R),
  length x = length y -> INR (length y) <> 0 ->
  Nres 0 [a; b] x y = 0 -> Nres 1 [a; b] x y = 0 ->
  let n := INR (length y) in
  let w' := gd_step alpha n x y (wy, wx) in
  fst w' - a = (wy - a) - alpha * ((wy - a) + Rlsum x / n * (wx - b)) /\
  snd w' - b = (wx - b) - alpha * (Rlsum x / n * (wy - a) + SumL (fun t => t ^ 2) x / n * (wx - b)) /\
  gd_step alpha n x y (a, b) = (a, b).
Print Assumptions c15_gd_recurrence.

(* contraction: gd_iter k = k passes of the model's loop, err2 w a b = squared Euclidean distance of w from (a, b).
   If rho dominates both eigenvalues of M = I - alpha H in absolute value (stated on the characteristic polynomial,
   no square roots), the error around a normal-equation solution shrinks by rho per step. *)
Theorem c15_gd_contraction : forall (alpha : R) (x y : list R) (a b rho : R) (w0 : R * R) (k : nat),
  length x = length y -> INR (length y) <> 0 ->
  Nres 0 [a; b] x y = 0 -> Nres 1 [a; b] x y = 0 ->
  let n := INR (length y) in
  let M00 := 1 - alpha in
  let M01 := - (alpha * (Rlsum x / n)) in
  let M11 := 1 - alpha * (SumL (fun t => t ^ 2) x / n) in
  (forall mu, mu * mu - (M00 + M11) * mu + (M00 * M11 - M01 * M01) = 0 -> mu * mu <= rho * rho) ->
  err2 (gd_iter k alpha x y w0) a b <= rho ^ (2 * k) * err2 w0 a b.
Proof. exact Proofs.Regress.c15_gd_contraction. Qed.
Check c15_gd_contraction : forall (alpha : R) (x y : list R) (a b rho : R) (w0 : R * R) (k : nat),
  length x = length y -> INR (length y) <> 0 ->
  Nres 0 [a; b] x y = 0 -> Nres 1 [a; b] x y = 0 ->
  let n := INR (length y) in
  let M00 := 1 - alpha in
  let M01 := - (alpha * (Rlsum x / n)) in
  let M11 := 1 - alpha * (SumL (fun t => t ^ 2) x / n) in
  (forall mu, mu * mu - (M00 + M11) * mu + (M00 * M11 - M01 * M01) = 0 -> mu * mu <= rho * rho) ->
  err2 (gd_iter k alpha x y w0) a b <= rho ^ (2 * k) * err2 w0 a b.
Print Assumptions c15_gd_contraction.

(* a stable step (0 < alpha*lambda < 2 for every eigenvalue lambda of H = [[1, h01], [h01, h11]]) yields such a rho < 1 *)
Theorem c15_gd_stable_step : forall (alpha h01 h11 : R), 0 < alpha ->
  (forall lam, lam * lam - (1 + h11) * lam + (1 * h11 - h01 * h01) = 0 -> 0 < lam /\ alpha * lam < 2) ->
  exists rho, 0 <= rho < 1 /\
    forall mu, mu * mu - ((1 - alpha) + (1 - alpha * h11)) * mu
               + ((1 - alpha) * (1 - alpha * h11) - (- (alpha * h01)) * (- (alpha * h01))) = 0 ->
               mu * mu <= rho * rho.
Proof. exact Proofs.Regress.c15_gd_stable_step. Qed.
Check c15_gd_stable_step : forall (alpha h01 h11 : R), 0 < alpha ->
  (forall lam, lam * lam - (1 + h11) * lam + (1 * h11 - h01 * h01) = 0 -> 0 < lam /\ alpha * lam < 2) ->
  exists rho, 0 <= rho < 1 /\
    forall mu, mu * mu - ((1 - alpha) + (1 - alpha * h11)) * mu
               + ((1 - alpha) * (1 - alpha * h11) - (- (alpha * h01)) * (- (alpha * h01))) = 0 ->
               mu * mu <= rho * rho.
Print Assumptions c15_gd_stable_step.

(* with rho < 1 the coefficients RETURNED BY THE FIT converge to the least-squares optimum as steps grow *)
Theorem c15_gd_converges : forall (alpha : R) (x y : list R) (a b rho : R),
  length x = length y -> INR (length y) <> 0 ->
  Nres 0 [a; b] x y = 0 -> Nres 1 [a; b] x y = 0 ->
  let n := INR (length y) in
  let M00 := 1 - alpha in
  let M01 := - (alpha * (Rlsum x / n)) in
  let M11 := 1 - alpha * (SumL (fun t => t ^ 2) x / n) in
  0 <= rho < 1 ->
  (forall mu, mu * mu - (M00 + M11) * mu + (M00 * M11 - M01 * M01) = 0 -> mu * mu <= rho * rho) ->
  forall eps, 0 < eps -> exists K, forall k, (K <= k)%nat ->
    let c := coefs (gd_fit k alpha x y) in
    (nth 0 c 0 - a) * (nth 0 c 0 - a) + (nth 1 c 0 - b) * (nth 1 c 0 - b) < eps.
Proof. exact Proofs.Regress.c15_gd_converges. Qed.
Check c15_gd_converges : forall (alpha : R) (x y : list R) (a b rho : R),
  length x = length y -> INR (length y) <> 0 ->
  Nres 0 [a; b] x y = 0 -> Nres 1 [a; b] x y = 0 ->
  let n := INR (length y) in
  let M00 := 1 - alpha in
  let M01 := - (alpha * (Rlsum x / n)) in
  let M11 := 1 - alpha * (SumL (fun t => t ^ 2) x / n) in
  0 <= rho < 1 ->
  (forall mu, mu * mu - (M00 + M11) * mu + (M00 * M11 - M01 * M01) = 0 -> mu * mu <= rho * rho) ->
  forall eps, 0 < eps -> exists K, forall k, (K <= k)%nat ->
    let c := coefs (gd_fit k alpha x y) in
    (nth 0 c 0 - a) * (nth 0 c 0 - a) + (nth 1 c 0 - b) * (nth 1 c 0 - b) < eps.
Print Assumptions c15_gd_converges.

(* non-vacuity of the contraction hypotheses: x = [-1,0,1], y = [1,3,5], optimum (3, 2), alpha = 1/2, rho = 2/3 *)
Example c15_gd_nonvacuous :
  length [-1; 0; 1] = length [1; 3; 5] /\ INR (length [1; 3; 5]) <> 0 /\
  Nres 0 [3; 2] [-1; 0; 1] [1; 3; 5] = 0 /\ Nres 1 [3; 2] [-1; 0; 1] [1; 3; 5] = 0 /\
  0 <= 2 / 3 < 1 /\
  (let n := INR (length [1; 3; 5]) in
   let M00 := 1 - 1 / 2 in
   let M01 := - (1 / 2 * (Rlsum [-1; 0; 1] / n)) in
   let M11 := 1 - 1 / 2 * (SumL (fun t => t ^ 2) [-1; 0; 1] / n) in
   forall mu, mu * mu - (M00 + M11) * mu + (M00 * M11 - M01 * M01) = 0 -> mu * mu <= 2 / 3 * (2 / 3)).
Proof. exact Proofs.Regress.ex_gd_hyp. Qed.

(* non-vacuity: the hypotheses of the line-fit theorems are met by x = [0,1,2], y = [1,3,5] *)
Example c15_nonvacuous : length [0; 1; 2] = length [1; 3; 5] /\
  INR (length [0; 1; 2]) * SumL (fun t => t ^ 2) [0; 1; 2] - Rlsum [0; 1; 2] * Rlsum [0; 1; 2] <> 0.
Proof. exact Proofs.Regress.ex_ls_hyp. Qed.

(* ======================================================================================== *)
(* FLOAT block (binary64, the instance that is extracted and run) — Proofs/RegressFloat.v.
   COVERED: the solve inside PolynomialRegression::fit.  If the fit returns, the returned coefficients c
   (exactly order+1 of them) satisfy, in every row s i of the normal equations (M, r) AS THE CODE BUILT THEM IN
   FLOATS (M = moment_matrix order x, r = moment_rhs order x y, both computed in binary64),
     |sum_k M_(s i)k c_k - r_(s i)| <= (g_n + g_n (1 + g_(n+1)) + g_(n+1)) * sum_j sum_k |L_ij| |U_jk| |c_k|,
   n = order + 1 (written S order), g_m = (1+2^-53)^m - 1, under the per-operation no-overflow/no-underflow
   hypotheses of c08_ge_float_residual instantiated at (M, r, poly_tol), all checkable by computation.
   NOT COVERED: the rounding of the moment sums themselves relative to the exact moments of the data, and the
   conditioning of the normal equations (a small residual is not a small coefficient error); the statistics
   (std_err, r2).  The line fit uses closed formulas and gradient descent solves no system: no float theorem here. *)
From Coq Require Import Floats.
From Flocq Require Import Core BinarySingleNaN PrimFloat.
From SV Require Import Proofs.LU Proofs.SubstFloat Proofs.PLUFloat Proofs.GaussFloat Proofs.SolveFloat Proofs.RegressFloat.

Theorem c15_poly_float_normal_residual :
  forall (order : nat) (x y : list PrimFloat.float) (m : lmodel PrimFloat.float),
  poly_fit order x y = Ok m ->
  let n := S order in
  let M := moment_matrix order x in
  let r := moment_rhs order x y in
  let c := vec_of_list (coefs m) in
  let s := ge_perm n poly_tol M r in
  let L := ge_L n poly_tol M r in
  let U := ge_U n poly_tol M r in
  let w := ge_y n poly_tol M r in
  (forall i k, (i < n)%nat -> (k < n)%nat -> plu_entry_ok (fun p q => M (s p) q) L U i k) ->
  (forall i, (i < n)%nat -> ge_rhs_ok (fun p => r (s p)) L w i) ->
  (forall i, (i < n)%nat -> back_row_ok (ge_W n poly_tol M r) n w c i) ->
  length (coefs m) = n /\
  forall i, (i < n)%nat ->
    is_finite (Prim2B (c i)) = true /\
    Rabs (msum 0 n (fun k => B2R (Prim2B (M (s i) k)) * B2R (Prim2B (c k))) - B2R (Prim2B (r (s i))))
    <= (((1 + bpow radix2 (-53)) ^ n - 1)
        + ((1 + bpow radix2 (-53)) ^ n - 1) * (1 + ((1 + bpow radix2 (-53)) ^ (n + 1) - 1))
        + ((1 + bpow radix2 (-53)) ^ (n + 1) - 1))
       * msum 0 n (fun j => msum 0 n (fun k =>
           Rabs (B2R (Prim2B (L i j))) * Rabs (B2R (Prim2B (U j k))) * Rabs (B2R (Prim2B (c k))))).
Proof. exact Proofs.RegressFloat.poly_regression_float_normal_residual. Qed.
Check c15_poly_float_normal_residual :
  forall (order : nat) (x y : list PrimFloat.float) (m : lmodel PrimFloat.float),
  poly_fit order x y = Ok m ->
  let n := S order in
  let M := moment_matrix order x in
  let r := moment_rhs order x y in
  let c := vec_of_list (coefs m) in
  let s := ge_perm n poly_tol M r in
  let L := ge_L n poly_tol M r in
  let U := ge_U n poly_tol M r in
  let w := ge_y n poly_tol M r in
  (forall i k, (i < n)%nat -> (k < n)%nat -> plu_entry_ok (fun p q => M (s p) q) L U i k) ->
  (forall i, (i < n)%nat -> ge_rhs_ok (fun p => r (s p)) L w i) ->
  (forall i, (i < n)%nat -> back_row_ok (ge_W n poly_tol M r) n w c i) ->
  length (coefs m) = n /\
  forall i, (i < n)%nat ->
    is_finite (Prim2B (c i)) = true /\
    Rabs (msum 0 n (fun k => B2R (Prim2B (M (s i) k)) * B2R (Prim2B (c k))) - B2R (Prim2B (r (s i))))
    <= (((1 + bpow radix2 (-53)) ^ n - 1)
        + ((1 + bpow radix2 (-53)) ^ n - 1) * (1 + ((1 + bpow radix2 (-53)) ^ (n + 1) - 1))
        + ((1 + bpow radix2 (-53)) ^ (n + 1) - 1))
       * msum 0 n (fun j => msum 0 n (fun k =>
           Rabs (B2R (Prim2B (L i j))) * Rabs (B2R (Prim2B (U j k))) * Rabs (B2R (Prim2B (c k))))).
Print Assumptions c15_poly_float_normal_residual.

(* non-vacuity, by computation: x = [0,1,2,3], y = [1,3,7,13] (y = x^2 + x + 1), order 2: the binary64 fit returns
   and ALL hypotheses of c15_poly_float_normal_residual hold together *)
Example c15_float_nonvacuous_poly_residual : exists m, poly_fit 2 ex_poly_x ex_poly_y = Ok m /\
  let M := moment_matrix 2 ex_poly_x in
  let r := moment_rhs 2 ex_poly_x ex_poly_y in
  let c := vec_of_list (coefs m) in
  let s := ge_perm 3 poly_tol M r in
  let L := ge_L 3 poly_tol M r in
  let U := ge_U 3 poly_tol M r in
  let w := ge_y 3 poly_tol M r in
  (forall i k, (i < 3)%nat -> (k < 3)%nat -> plu_entry_ok (fun p q => M (s p) q) L U i k) /\
  (forall i, (i < 3)%nat -> ge_rhs_ok (fun p => r (s p)) L w i) /\
  (forall i, (i < 3)%nat -> back_row_ok (ge_W 3 poly_tol M r) 3 w c i).
Proof. exact Proofs.RegressFloat.ex_poly_float_residual_hyps. Qed.
