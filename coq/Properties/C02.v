(* Properties/C02.v — multivariate parser: the documented language is accepted in
   canonical form; evaluation is the mathematical value; a missing variable is an
   error; agreement with the univariate parser on the common sub-language.
   Statements only; every proof is `exact` of a lemma of Proofs/Inter*.v, or of Proofs/ParseFloatI.v
   (last block: float-level fidelity of the stored coefficients and merged exponents to the text).
   The documented language (syntax trees, [render], [terms_of], [vars_of]) is
   Model/GrammarI.v; the parser and evaluators are Model/Parse.v and Model/Poly.v. *)
From Coq Require Import ZArith NArith List Bool Reals Floats Sorting.Sorted.
From SV Require Import Base.Num Base.Outcome Base.Str Model.Poly Model.Parse Model.GrammarI
  Proofs.InterTerm Proofs.InterParse Proofs.InterAgree.
Import ListNotations.
Import Coq.Strings.String.StringSyntax.

(* every rendering of a well-formed source tree, with blanks anywhere, is accepted; the
   result is exactly the conventional reading (every Num instance: also the float one).
   [wf_src] has a syntactic part and an arithmetic part "in the arithmetic at hand":
   denominators non-zero and finite, every numeral, quotient and summed exponent finite
   (vacuous in R: Proofs.InterTerm.finite_R; in binary64 it excludes numerals beyond the
   range of f64 — c02_overflow_rejected below). *)
Theorem c02_accept_canonical : forall (T : Type) (NT : Num T) (U : UClass) (src : msrc) (lead : bool) (s : str),
  uclass_num_ok U -> @wf_src T NT src = true -> strip_ws s = render lead src ->
  parse_inter U s = Ok {| i_terms := @terms_of T NT src; i_vars := vars_of src |}.
Proof. exact @Proofs.InterParse.accept_canonical. Qed.
Check c02_accept_canonical : forall (T : Type) (NT : Num T) (U : UClass) (src : msrc) (lead : bool) (s : str),
  uclass_num_ok U -> @wf_src T NT src = true -> strip_ws s = render lead src ->
  parse_inter U s = Ok {| i_terms := @terms_of T NT src; i_vars := vars_of src |}.
Print Assumptions c02_accept_canonical.

(* each term's variables: strictly sorted by name, exactly the letters written in the term *)
Theorem c02_term_vars_sorted : forall (T : Type) (NT : Num T) (x : bool * mterm),
  StronglySorted name_lt (map fst (t_vars (@term_of T NT x))) /\
  (forall v, In v (map fst (t_vars (@term_of T NT x))) <-> exists l, In l (map fst (snd (snd x))) /\ v = [l]).
Proof. exact @Proofs.InterParse.term_vars_sorted. Qed.
Check c02_term_vars_sorted : forall (T : Type) (NT : Num T) (x : bool * mterm),
  StronglySorted name_lt (map fst (t_vars (@term_of T NT x))) /\
  (forall v, In v (map fst (t_vars (@term_of T NT x))) <-> exists l, In l (map fst (snd (snd x))) /\ v = [l]).
Print Assumptions c02_term_vars_sorted.

(* the polynomial's variable list: strictly sorted, exactly the letters used *)
Theorem c02_vars_sorted_set : forall src : msrc,
  StronglySorted name_lt (vars_of src) /\
  (forall v, In v (vars_of src) <-> exists l, In l (letters_of src) /\ v = [l]).
Proof. exact Proofs.InterParse.vars_sorted_set. Qed.
Check c02_vars_sorted_set : forall src : msrc,
  StronglySorted name_lt (vars_of src) /\
  (forall v, In v (vars_of src) <-> exists l, In l (letters_of src) /\ v = [l]).
Print Assumptions c02_vars_sorted_set.

(* evaluation = sum over terms of coefficient * product of value^exponent (R instance).
   [poly_value e ts] = fold_right Rplus 0 (map (fun t => t_coef t * PROD_(v,p) Rpowf (e v) p) ts);
   Rpowf x p is x^p on the natural domain: c02_powf_natural_domain below. *)
Theorem c02_eval : forall (ts : list (term R)) (e : env R), all_bound e ts ->
  eval_inter ts e = Ok (poly_value e ts).
Proof. exact Proofs.InterTerm.eval_value. Qed.
Check c02_eval : forall (ts : list (term R)) (e : env R), all_bound e ts ->
  eval_inter ts e = Ok (poly_value e ts).
Print Assumptions c02_eval.

(* Rpowf (the R meaning of powf) IS value^exponent on the natural domain: an integral exponent
   is the integer power (negative: reciprocal), a positive base gives the real power exp(p ln x) *)
Theorem c02_powf_natural_domain :
  (forall (x : R) (n : Z), Rpowf x (IZR n) = powerRZ x n) /\
  (forall x p : R, (0 < x)%R -> Rpowf x p = Rpower x p).
Proof. exact (conj Proofs.InterTerm.Rpowf_integral Proofs.InterTerm.Rpowf_positive). Qed.
Check c02_powf_natural_domain :
  (forall (x : R) (n : Z), Rpowf x (IZR n) = powerRZ x n) /\
  (forall x p : R, (0 < x)%R -> Rpowf x p = Rpower x p).
Print Assumptions c02_powf_natural_domain.

(* a variable of some term without a binding: an error, never a number (every Num instance) *)
Theorem c02_missing_var : forall (T : Type) (NT : Num T) (ts : list (term T)) (e : env T),
  unbound_in e ts -> eval_inter ts e = Err EVariableNotFound.
Proof. exact @Proofs.InterTerm.missing_var. Qed.
Check c02_missing_var : forall (T : Type) (NT : Num T) (ts : list (term T)) (e : env T),
  unbound_in e ts -> eval_inter ts e = Err EVariableNotFound.
Print Assumptions c02_missing_var.

(* eval_univariate never panics; > 1 variables is TooManyVariables; a polynomial whose terms
   use only listed variables (every parser result) with <= 1 variable evaluates to a number *)
Theorem c02_eval_univariate_total : forall (T : Type) (NT : Num T) (p : ipoly T) (x : T),
  no_panic (i_eval_univariate p x) /\
  ((2 <= length (i_vars p))%nat -> i_eval_univariate p x = Err ETooManyVariables) /\
  (closed_poly p -> (length (i_vars p) <= 1)%nat -> exists r, i_eval_univariate p x = Ok r).
Proof. exact @Proofs.InterTerm.eval_univariate_total. Qed.
Check c02_eval_univariate_total : forall (T : Type) (NT : Num T) (p : ipoly T) (x : T),
  no_panic (i_eval_univariate p x) /\
  ((2 <= length (i_vars p))%nat -> i_eval_univariate p x = Err ETooManyVariables) /\
  (closed_poly p -> (length (i_vars p) <= 1)%nat -> exists r, i_eval_univariate p x = Ok r).
Print Assumptions c02_eval_univariate_total.

(* ... in particular on everything the parser returns: a number when there is at most one
   variable (also for a constant polynomial: nothing to bind), TooManyVariables otherwise *)
Theorem c02_eval_univariate_parsed : forall (T : Type) (NT : Num T) (U : UClass) (s : str) (p : ipoly T) (x : T),
  parse_inter U s = Ok p ->
  match i_vars p with
  | _ :: _ :: _ => i_eval_univariate p x = Err ETooManyVariables
  | _ => exists r, i_eval_univariate p x = Ok r
  end.
Proof. exact Proofs.InterParse.eval_univariate_parsed. Qed.
Check c02_eval_univariate_parsed : forall (T : Type) (NT : Num T) (U : UClass) (s : str) (p : ipoly T) (x : T),
  parse_inter U s = Ok p ->
  match i_vars p with
  | _ :: _ :: _ => i_eval_univariate p x = Err ETooManyVariables
  | _ => exists r, i_eval_univariate p x = Ok r
  end.
Print Assumptions c02_eval_univariate_parsed.

(* the common univariate sub-language (one ASCII letter v, decimal coefficients, exponents written
   as digit strings <= 65535; Model/GrammarI.v [usrc], embedded by [to_msrc v]): both parsers
   accept the text, and the two polynomials take the same value at every real x, namely
   SUM sign * coefficient * x^power over the source terms ([tsum x (map uterm_cp u)]) *)
Theorem c02_agree_univariate : forall U : UClass, uclass_num_ok U -> uclass_alpha_ok U ->
  forall v : N, is_ascii_letter v = true ->
  forall (u : usrc) (lead : bool) (s : str) (x : R),
  wf_usrc u = true -> strip_ws s = render lead (to_msrc v u) ->
  exists (p : spoly R) (q : ipoly R),
    parse_simple U s = Ok p /\ parse_inter U s = Ok q /\
    i_eval_univariate q x = Ok (eval_simple p x) /\ eval_simple p x = tsum x (map uterm_cp u).
Proof. exact Proofs.InterAgree.agree_univariate. Qed.
Check c02_agree_univariate : forall U : UClass, uclass_num_ok U -> uclass_alpha_ok U ->
  forall v : N, is_ascii_letter v = true ->
  forall (u : usrc) (lead : bool) (s : str) (x : R),
  wf_usrc u = true -> strip_ws s = render lead (to_msrc v u) ->
  exists (p : spoly R) (q : ipoly R),
    parse_simple U s = Ok p /\ parse_inter U s = Ok q /\
    i_eval_univariate q x = Ok (eval_simple p x) /\ eval_simple p x = tsum x (map uterm_cp u).
Print Assumptions c02_agree_univariate.

(* non-vacuity: "-3/4x^2yx^-.5 + y" is a rendering of a well-formed source; the Unicode table
   used for execution satisfies the hypothesis *)
Example c02_nonvacuous :
  let src : msrc :=
    [(true, (Some (CFrac {| d_int := lit "3"; d_frac := None |} {| d_int := lit "4"; d_frac := None |}),
             [(120%N, Some (false, EDec {| d_int := lit "2"; d_frac := None |}));
              (121%N, None);
              (120%N, Some (true, EDec {| d_int := []; d_frac := Some (lit "5") |}))]));
     (false, (None, [(121%N, None)]))] in
  @wf_src R RNum src = true /\ strip_ws (lit " -3/4x^2 yx^-.5 + y") = render false src /\
  uclass_num_ok uclass_tab /\ vars_of src = [lit "x"; lit "y"].
Proof.
  cbv zeta. split; [|split; [|split]].
  - unfold wf_src. cbn [forallb]. unfold wf_term. rewrite !forallb_finite_R.
    unfold wf_coef, wf_var, wf_expo, wf_frac. cbn -[nneb dec_val finite signed ndiv].
    rewrite !finite_R. unfold nneb, dec_val. cbn. unfold Reqb. destruct (Req_EM_T _ _) as [E|_]; [|reflexivity].
    exfalso. rewrite Rmult_1_r in E. apply eq_IZR in E. discriminate.
  - reflexivity.
  - exact uclass_tab_num_ok.
  - reflexivity.
Qed.

(* non-vacuity of the agreement clause: "2x^2 - .5" is in the common sub-language *)
Example c02_agree_nonvacuous :
  let u : usrc := [(false, UVar (Some {| d_int := lit "2"; d_frac := None |}) (Some (lit "2")));
                   (true, UConst {| d_int := []; d_frac := Some (lit "5") |})] in
  wf_usrc u = true /\ strip_ws (lit "2x^2 - .5") = render false (to_msrc 120%N u) /\
  uclass_alpha_ok uclass_tab /\ is_ascii_letter 120%N = true.
Proof.
  cbv zeta. split; [reflexivity|]. split; [reflexivity|]. split; [exact uclass_tab_alpha_ok|reflexivity].
Qed.

(* binary64: numerals, quotients and summed exponents beyond the range of f64 are errors, not
   infinite coefficients (fix 59b028d): a 400-digit coefficient, 9..9(308)/.1, 1/9..9(309 digits),
   x^9..9(308) x^9..9(308); the largest cases that still fit are accepted *)
Example c02_overflow_rejected :
  @parse_inter float FNum uclass_tab (repeat 57%N 400 ++ lit "x") = Err EInvalidCoefficient /\
  @parse_inter float FNum uclass_tab (repeat 57%N 308 ++ lit "/.1x") = Err EInvalidFraction /\
  @parse_inter float FNum uclass_tab (lit "1/" ++ repeat 57%N 309 ++ lit "x") = Err EInvalidFraction /\
  @parse_inter float FNum uclass_tab (lit "x^" ++ repeat 57%N 308 ++ lit "x^" ++ repeat 57%N 308) = Err EInvalidExponent /\
  @parse_inter float FNum uclass_tab (lit "x^" ++ repeat 57%N 400) = Err EInvalidExponent /\
  is_ok (@parse_inter float FNum uclass_tab (repeat 57%N 308 ++ lit "x^" ++ repeat 57%N 308)) = true.
Proof. vm_compute. repeat split; reflexivity. Qed.

(* ---- FLOAT instance: fidelity of the STORED coefficients to the text (Proofs/ParseFloatI.v) ----
   What the parser stores (c02_accept_canonical: i_terms = terms_of src = map term_of src): ONE term per written
   term, in source order — like monomials are NOT merged (c02_terms_not_merged); the only merge is, inside one term,
   of the exponents of a repeated letter ([sum_exps]: the later exponents are added INTO the first, t-1 additions).
   The stored coefficient [coef_val neg c] of a term is, for FNum,
       omitted: (+-)1, exact;   decimal: (+-)dec2float m e, one rounding;
       fraction a/b: PrimFloat.div ((+-)dec2float a) (dec2float b) — two correctly rounded readings, ONE division.
   [dterm] = (neg, m, e), [dcoef] its float, [dreal] = (+-) m*10^e, [dmag] = m*10^e, [dec_ok]: 0 or in the normal range
   (Proofs/ParseFloat.v, pinned in C01: c01_dterm_defs); [idec_dterm neg d] reads the digits of a spelling;
   [coef_real] the exact rational denoted, [coef_rounds] = 0 / 1 / 3, [coef_okf] the side condition (decimals 0 or
   normal; for a fraction [okdiv]: quotient finite, denominator non-zero, exact quotient of the two floats 0 or normal —
   checkable by computation, Proofs.SubstFloat.okdiv_by_leb) — all pinned by unfolding in c02_coef_defs.
       |B2R coef - exact| <= ((1+eps)^c - 1) |exact|,  c = coef_rounds,  eps = 2^-53.
   (1+eps)^3 for a fraction is honest because the reading of the DENOMINATOR uses the optimal bound eps/(1+eps) of
   rounding to nearest (c02_dec2float_rel_error_opt), so that 1/(1+d) = 1+d' with |d'| <= eps.
   The merged exponent: c02_sum_exps_float_error, ((1+u)(1+eps)^(t-1) - 1) sum|exact| for written exponents of relative
   error u (u = (1+eps)^c - 1 by c02_parse_i_float_coeff_error through c02_expo_val_as_coef: exponent (1+eps)^(t-1+c)). *)
From Flocq Require Import Core BinarySingleNaN PrimFloat.
From SV Require Import Proofs.Stats Proofs.SubstFloat Proofs.DecFloat Proofs.ParseFloat Proofs.ParseFloatI.

Theorem c02_dec2float_rel_error_opt : forall m e : Z,
  (0 < m)%Z -> (bpow radix2 (-1022) <= dec_val m e <= bpow radix2 1023)%R ->
  is_finite (Prim2B (dec2float m e)) = true /\
  (Rabs (B2R (Prim2B (dec2float m e)) - dec_val m e)
     <= bpow radix2 (-53) / (1 + bpow radix2 (-53)) * dec_val m e)%R.
Proof. exact Proofs.ParseFloatI.dec2float_rel_error_opt. Qed.
Check c02_dec2float_rel_error_opt : forall m e : Z,
  (0 < m)%Z -> (bpow radix2 (-1022) <= dec_val m e <= bpow radix2 1023)%R ->
  is_finite (Prim2B (dec2float m e)) = true /\
  (Rabs (B2R (Prim2B (dec2float m e)) - dec_val m e)
     <= bpow radix2 (-53) / (1 + bpow radix2 (-53)) * dec_val m e)%R.
Print Assumptions c02_dec2float_rel_error_opt.

(* one written fraction: |fl((+-)fl(a)/fl(b)) - (+-)a/b| <= ((1+eps)^3 - 1) |a/b| *)
Theorem c02_frac_coef_ok : forall (neg : bool) (ma ea mb eb : Z),
  dec_ok (neg, ma, ea) -> dec_ok (false, mb, eb) ->
  okdiv (dcoef (neg, ma, ea)) (dcoef (false, mb, eb)) ->
  is_finite (Prim2B (PrimFloat.div (dcoef (neg, ma, ea)) (dcoef (false, mb, eb)))) = true /\
  (Rabs (B2R (Prim2B (PrimFloat.div (dcoef (neg, ma, ea)) (dcoef (false, mb, eb)))) - dreal (neg, ma, ea) / dec_val mb eb)
    <= ((1 + bpow radix2 (-53)) ^ 3 - 1) * Rabs (dreal (neg, ma, ea) / dec_val mb eb))%R.
Proof. exact Proofs.ParseFloatI.frac_coef_ok. Qed.
Check c02_frac_coef_ok : forall (neg : bool) (ma ea mb eb : Z),
  dec_ok (neg, ma, ea) -> dec_ok (false, mb, eb) ->
  okdiv (dcoef (neg, ma, ea)) (dcoef (false, mb, eb)) ->
  is_finite (Prim2B (PrimFloat.div (dcoef (neg, ma, ea)) (dcoef (false, mb, eb)))) = true /\
  (Rabs (B2R (Prim2B (PrimFloat.div (dcoef (neg, ma, ea)) (dcoef (false, mb, eb)))) - dreal (neg, ma, ea) / dec_val mb eb)
    <= ((1 + bpow radix2 (-53)) ^ 3 - 1) * Rabs (dreal (neg, ma, ea) / dec_val mb eb))%R.
Print Assumptions c02_frac_coef_ok.

Theorem c02_coef_defs : forall (neg : bool) (d a b : dec),
  idec_dterm neg d = (neg, match d_frac d with None => digits_val (d_int d) | Some f => digits_val (d_int d ++ f) end,
                           match d_frac d with None => 0%Z | Some f => (- Z.of_nat (List.length f))%Z end) /\
  coef_real neg None = (if neg then -1 else 1)%R /\
  coef_real neg (Some (CDec d)) = dreal (idec_dterm neg d) /\
  coef_real neg (Some (CFrac a b)) = (dreal (idec_dterm neg a) / dmag (idec_dterm false b))%R /\
  coef_rounds None = 0%nat /\ coef_rounds (Some (CDec d)) = 1%nat /\ coef_rounds (Some (CFrac a b)) = 3%nat /\
  (coef_okf neg None <-> True) /\
  (coef_okf neg (Some (CDec d)) <-> dec_ok (idec_dterm neg d)) /\
  (coef_okf neg (Some (CFrac a b)) <->
     dec_ok (idec_dterm neg a) /\ dec_ok (idec_dterm false b) /\
     okdiv (dcoef (idec_dterm neg a)) (dcoef (idec_dterm false b))).
Proof. exact Proofs.ParseFloatI.coef_defs. Qed.
Check c02_coef_defs : forall (neg : bool) (d a b : dec),
  idec_dterm neg d = (neg, match d_frac d with None => digits_val (d_int d) | Some f => digits_val (d_int d ++ f) end,
                           match d_frac d with None => 0%Z | Some f => (- Z.of_nat (List.length f))%Z end) /\
  coef_real neg None = (if neg then -1 else 1)%R /\
  coef_real neg (Some (CDec d)) = dreal (idec_dterm neg d) /\
  coef_real neg (Some (CFrac a b)) = (dreal (idec_dterm neg a) / dmag (idec_dterm false b))%R /\
  coef_rounds None = 0%nat /\ coef_rounds (Some (CDec d)) = 1%nat /\ coef_rounds (Some (CFrac a b)) = 3%nat /\
  (coef_okf neg None <-> True) /\
  (coef_okf neg (Some (CDec d)) <-> dec_ok (idec_dterm neg d)) /\
  (coef_okf neg (Some (CFrac a b)) <->
     dec_ok (idec_dterm neg a) /\ dec_ok (idec_dterm false b) /\
     okdiv (dcoef (idec_dterm neg a)) (dcoef (idec_dterm false b))).
Print Assumptions c02_coef_defs.

(* every stored coefficient of the parse result *)
Theorem c02_parse_i_float_coeff_error : forall x : bool * mterm,
  coef_okf (fst x) (fst (snd x)) ->
  is_finite (Prim2B (t_coef (@term_of PrimFloat.float FNum x))) = true /\
  (Rabs (B2R (Prim2B (t_coef (@term_of PrimFloat.float FNum x))) - coef_real (fst x) (fst (snd x)))
    <= ((1 + bpow radix2 (-53)) ^ coef_rounds (fst (snd x)) - 1) * Rabs (coef_real (fst x) (fst (snd x))))%R.
Proof. exact Proofs.ParseFloatI.parse_i_float_coeff_error. Qed.
Check c02_parse_i_float_coeff_error : forall x : bool * mterm,
  coef_okf (fst x) (fst (snd x)) ->
  is_finite (Prim2B (t_coef (@term_of PrimFloat.float FNum x))) = true /\
  (Rabs (B2R (Prim2B (t_coef (@term_of PrimFloat.float FNum x))) - coef_real (fst x) (fst (snd x)))
    <= ((1 + bpow radix2 (-53)) ^ coef_rounds (fst (snd x)) - 1) * Rabs (coef_real (fst x) (fst (snd x))))%R.
Print Assumptions c02_parse_i_float_coeff_error.

Theorem c02_terms_not_merged : forall src : msrc,
  List.length (@terms_of PrimFloat.float FNum src) = List.length src /\
  forall i x, nth_error src i = Some x -> nth_error (@terms_of PrimFloat.float FNum src) i = Some (term_of x).
Proof. exact Proofs.ParseFloatI.terms_not_merged. Qed.
Check c02_terms_not_merged : forall src : msrc,
  List.length (@terms_of PrimFloat.float FNum src) = List.length src /\
  forall i x, nth_error src i = Some x -> nth_error (@terms_of PrimFloat.float FNum src) i = Some (term_of x).
Print Assumptions c02_terms_not_merged.

(* the merge of the exponents of a repeated letter: additions into the first exponent *)
Theorem c02_sum_exps_float_error : forall (A : Type) (fl : A -> PrimFloat.float) (g : A -> R) (u : R) (l : list A),
  (0 <= u)%R -> l <> [] ->
  (forall a, In a l -> is_finite (Prim2B (fl a)) = true /\ (Rabs (B2R (Prim2B (fl a)) - g a) <= u * Rabs (g a))%R) ->
  (forall k, (1 <= k <= List.length l)%nat ->
     is_finite (Prim2B (@sum_exps PrimFloat.float FNum (firstn k (map fl l)))) = true) ->
  is_finite (Prim2B (@sum_exps PrimFloat.float FNum (map fl l))) = true /\
  (Rabs (B2R (Prim2B (@sum_exps PrimFloat.float FNum (map fl l))) - Rsum (map g l))
    <= ((1 + u) * (1 + bpow radix2 (-53)) ^ (List.length l - 1) - 1) * Rsum (map (fun a => Rabs (g a)) l))%R.
Proof. exact @Proofs.ParseFloatI.sum_exps_float_error. Qed.
Check c02_sum_exps_float_error : forall (A : Type) (fl : A -> PrimFloat.float) (g : A -> R) (u : R) (l : list A),
  (0 <= u)%R -> l <> [] ->
  (forall a, In a l -> is_finite (Prim2B (fl a)) = true /\ (Rabs (B2R (Prim2B (fl a)) - g a) <= u * Rabs (g a))%R) ->
  (forall k, (1 <= k <= List.length l)%nat ->
     is_finite (Prim2B (@sum_exps PrimFloat.float FNum (firstn k (map fl l)))) = true) ->
  is_finite (Prim2B (@sum_exps PrimFloat.float FNum (map fl l))) = true /\
  (Rabs (B2R (Prim2B (@sum_exps PrimFloat.float FNum (map fl l))) - Rsum (map g l))
    <= ((1 + u) * (1 + bpow radix2 (-53)) ^ (List.length l - 1) - 1) * Rsum (map (fun a => Rabs (g a)) l))%R.
Print Assumptions c02_sum_exps_float_error.

Theorem c02_expo_val_as_coef : forall e : expo,
  @expo_val PrimFloat.float FNum e
  = @coef_val PrimFloat.float FNum (fst e) (Some (match snd e with EDec d => CDec d | EFrac a b => CFrac a b end)).
Proof. exact Proofs.ParseFloatI.expo_val_as_coef. Qed.
Check c02_expo_val_as_coef : forall e : expo,
  @expo_val PrimFloat.float FNum e
  = @coef_val PrimFloat.float FNum (fst e) (Some (match snd e with EDec d => CDec d | EFrac a b => CFrac a b end)).
Print Assumptions c02_expo_val_as_coef.

(* non-vacuity: "0.5xy + 1/3xy - 2y" (Proofs.ParseFloatI.ex_isrc) is accepted, THREE terms are stored (the two xy terms
   side by side), the fraction is fl(fl(1)/fl(3)) = 0x1.5555555555555p-2; every coefficient satisfies [coef_okf];
   the resulting instance for 1/3 *)
Example c02_parse_i_float_ex :
  @wf_src PrimFloat.float FNum ex_isrc = true /\ strip_ws (lit "0.5xy + 1/3xy - 2y") = render false ex_isrc /\
  @parse_inter PrimFloat.float FNum uclass_tab (lit "0.5xy + 1/3xy - 2y")
    = Ok {| i_terms := [ {| t_coef := 0.5%float; t_vars := [(lit "x", 1%float); (lit "y", 1%float)] |};
                         {| t_coef := 0x1.5555555555555p-2%float; t_vars := [(lit "x", 1%float); (lit "y", 1%float)] |};
                         {| t_coef := (-2)%float; t_vars := [(lit "y", 1%float)] |} ];
            i_vars := [lit "x"; lit "y"] |} /\
  PrimFloat.div (dec2float 1 0) (dec2float 3 0) = 0x1.5555555555555p-2%float /\
  map (@term_of PrimFloat.float FNum) ex_isrc = @terms_of PrimFloat.float FNum ex_isrc.
Proof. exact Proofs.ParseFloatI.ex_isrc_parse. Qed.
Example c02_parse_i_float_ex_hyps : forall x, In x ex_isrc -> coef_okf (fst x) (fst (snd x)).
Proof. exact Proofs.ParseFloatI.ex_isrc_hyps. Qed.
Example c02_parse_i_float_ex_third :
  (Rabs (B2R (Prim2B 0x1.5555555555555p-2%float) - dec_val 1 0 / dec_val 3 0)
    <= ((1 + bpow radix2 (-53)) ^ 3 - 1) * Rabs (dec_val 1 0 / dec_val 3 0))%R.
Proof. exact Proofs.ParseFloatI.ex_isrc_third. Qed.
