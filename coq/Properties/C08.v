(* Properties/C08.v — Gaussian elimination: returned solutions solve the system,
   singular systems are refused, malformed systems get errors, and the exported
   triangular substitution routines solve their systems.  Statements only;
   every proof is `exact` of a lemma of Proofs/Gauss.v.  All statements are about
   the R instance of the model (exact arithmetic), except the FLOAT blocks at the end of the file:
   the componentwise backward error of the substitution routines (Proofs/SubstFloat.v) and of the
   elimination phase of [ge] itself (Proofs/GaussFloat.v) is PROVED for the binary64 instance, under
   per-operation no-overflow/no-underflow hypotheses checkable by computation, and composed into an
   END-TO-END componentwise residual bound for the returned vector (c08_ge_float_residual,
   Proofs/SolveFloat.v).  That "well-conditioned
   systems are never refused" in floating point, and the envelope on arbitrary inputs, are measured by
   the correspondence check and the exact oracle, not proved.
   The model is Model/Gauss.v = spindalis/src/solvers/gaussian_elim.rs after the
   repair 20730a8 (flagged elimination / zero row => Err SingularMatrix, empty
   system => Err NonSquareMatrix). *)
From Coq Require Import ZArith List Reals Lia Floats.
From SV Require Import Base.Num Base.Outcome Base.Mat Model.Subst Model.Gauss Proofs.Gauss Proofs.GaussB.
Import ListNotations.
Local Open Scope R_scope.

(* whenever elimination returns a vector, it solves the ORIGINAL system (and the shapes agree) *)
Theorem c08_solves : forall (h w lb : nat) (A : mat R) (b : vec R) (tol : R) (x : vec R),
  0 < tol -> ge h w A lb b tol = Ok x ->
  h = w /\ h = lb /\ forall i, (i < h)%nat -> Rsum_n h (fun j => A i j * x j) = b i.
Proof. exact Proofs.Gauss.c08_solves. Qed.
Check c08_solves : forall (h w lb : nat) (A : mat R) (b : vec R) (tol : R) (x : vec R),
  0 < tol -> ge h w A lb b tol = Ok x ->
  h = w /\ h = lb /\ forall i, (i < h)%nat -> Rsum_n h (fun j => A i j * x j) = b i.
Print Assumptions c08_solves.

(* the same at the boundary that is extracted and run against the crate (nested lists) *)
Theorem c08_lists : forall (rows : list (list R)) (rhs : list R) (tol : R) (xs : list R),
  0 < tol -> ge_lists rows rhs tol = Ok xs ->
  (forall r, In r rows -> length r = length rows) /\ length rhs = length rows /\ length xs = length rows /\
  forall i, (i < length rows)%nat ->
    Rsum_n (length rows) (fun j => nth j (nth i rows []) 0 * nth j xs 0) = nth i rhs 0.
Proof. exact Proofs.Gauss.c08_lists. Qed.
Check c08_lists : forall (rows : list (list R)) (rhs : list R) (tol : R) (xs : list R),
  0 < tol -> ge_lists rows rhs tol = Ok xs ->
  (forall r, In r rows -> length r = length rows) /\ length rhs = length rows /\ length xs = length rows /\
  forall i, (i < length rows)%nat ->
    Rsum_n (length rows) (fun j => nth j (nth i rows []) 0 * nth j xs 0) = nth i rhs 0.
Print Assumptions c08_lists.

(* a matrix with a non-trivial left null vector (zero / repeated / dependent rows or columns,
   any singular matrix) is refused with SingularMatrix for EVERY right-hand side *)
Theorem c08_singular_refused : forall (n : nat) (A : mat R) (tol : R), 0 < tol ->
  (exists w : vec R, (exists i, (i < n)%nat /\ w i <> 0) /\
      forall j, (j < n)%nat -> Rsum_n n (fun i => w i * A i j) = 0) ->
  forall b : vec R, ge n n A n b tol = Err ESingularMatrix.
Proof. exact Proofs.Gauss.c08_singular_refused. Qed.
Check c08_singular_refused : forall (n : nat) (A : mat R) (tol : R), 0 < tol ->
  (exists w : vec R, (exists i, (i < n)%nat /\ w i <> 0) /\
      forall j, (j < n)%nat -> Rsum_n n (fun i => w i * A i j) = 0) ->
  forall b : vec R, ge n n A n b tol = Err ESingularMatrix.
Print Assumptions c08_singular_refused.

(* the exact-arithmetic counterpart of "well-conditioned systems are never refused": a matrix with no
   non-trivial left null vector is accepted, for every right-hand side, by every sufficiently small
   positive tolerance (t0 = the smallest scaled pivot of the tolerance-free elimination path); with
   c08_singular_refused: for small tolerances ge returns a solution exactly when A is non-singular *)
Theorem c08_nonsingular_accepted : forall (n : nat) (A : mat R), (0 < n)%nat ->
  (forall w : vec R, (forall j, (j < n)%nat -> Rsum_n n (fun i => w i * A i j) = 0) ->
                     forall i, (i < n)%nat -> w i = 0) ->
  exists t0, 0 < t0 /\ forall tol, 0 < tol <= t0 -> forall b : vec R, exists x, ge n n A n b tol = Ok x.
Proof. exact Proofs.GaussB.c08_nonsingular_accepted. Qed.
Check c08_nonsingular_accepted : forall (n : nat) (A : mat R), (0 < n)%nat ->
  (forall w : vec R, (forall j, (j < n)%nat -> Rsum_n n (fun i => w i * A i j) = 0) ->
                     forall i, (i < n)%nat -> w i = 0) ->
  exists t0, 0 < t0 /\ forall tol, 0 < tol <= t0 -> forall b : vec R, exists x, ge n n A n b tol = Ok x.
Print Assumptions c08_nonsingular_accepted.

(* the same from the absence of a right null vector (what the elimination invariant gives directly) *)
Theorem c08_nonsingular_accepted_r : forall (n : nat) (A : mat R), (0 < n)%nat ->
  (forall x : vec R, (forall i, (i < n)%nat -> Rsum_n n (fun j => A i j * x j) = 0) ->
                     forall j, (j < n)%nat -> x j = 0) ->
  exists t0, 0 < t0 /\ forall tol, 0 < tol <= t0 -> forall b : vec R, exists x, ge n n A n b tol = Ok x.
Proof. exact Proofs.GaussB.c08_nonsingular_accepted_r. Qed.
Check c08_nonsingular_accepted_r : forall (n : nat) (A : mat R), (0 < n)%nat ->
  (forall x : vec R, (forall i, (i < n)%nat -> Rsum_n n (fun j => A i j * x j) = 0) ->
                     forall j, (j < n)%nat -> x j = 0) ->
  exists t0, 0 < t0 /\ forall tol, 0 < tol <= t0 -> forall b : vec R, exists x, ge n n A n b tol = Ok x.
Print Assumptions c08_nonsingular_accepted_r.

(* an accepted system is non-singular (no left and no right null vector) and the returned vector is its ONLY
   solution (Proofs/GaussUnique.v) *)
From SV Require Import Proofs.GaussUnique.
Theorem c08_unique : forall (n : nat) (A : mat R) (b : vec R) (tol : R) (x : vec R),
  0 < tol -> ge n n A n b tol = Ok x ->
  (forall w : vec R, (forall j, (j < n)%nat -> Rsum_n n (fun i => w i * A i j) = 0) ->
                     forall i, (i < n)%nat -> w i = 0) /\
  (forall z : vec R, (forall i, (i < n)%nat -> Rsum_n n (fun j => A i j * z j) = 0) ->
                     forall j, (j < n)%nat -> z j = 0) /\
  forall y : vec R, (forall i, (i < n)%nat -> Rsum_n n (fun j => A i j * y j) = b i) ->
                    forall j, (j < n)%nat -> y j = x j.
Proof. exact Proofs.GaussUnique.c08_unique. Qed.
Check c08_unique : forall (n : nat) (A : mat R) (b : vec R) (tol : R) (x : vec R),
  0 < tol -> ge n n A n b tol = Ok x ->
  (forall w : vec R, (forall j, (j < n)%nat -> Rsum_n n (fun i => w i * A i j) = 0) ->
                     forall i, (i < n)%nat -> w i = 0) /\
  (forall z : vec R, (forall i, (i < n)%nat -> Rsum_n n (fun j => A i j * z j) = 0) ->
                     forall j, (j < n)%nat -> z j = 0) /\
  forall y : vec R, (forall i, (i < n)%nat -> Rsum_n n (fun j => A i j * y j) = b i) ->
                    forall j, (j < n)%nat -> y j = x j.
Print Assumptions c08_unique.

(* malformed systems get error values; the solver never panics *)
Theorem c08_shape : forall (h w lb : nat) (A : mat R) (b : vec R) (tol : R),
  (h <> w -> ge h w A lb b tol = Err ENonSquareMatrix) /\
  (h = w -> h <> lb -> ge h w A lb b tol = Err ENumArgumentsMismatch) /\
  (h = 0%nat -> exists e, ge h w A lb b tol = Err e) /\
  (forall y, ge h w A lb b tol <> Panic y).
Proof. exact Proofs.Gauss.c08_shape. Qed.
Check c08_shape : forall (h w lb : nat) (A : mat R) (b : vec R) (tol : R),
  (h <> w -> ge h w A lb b tol = Err ENonSquareMatrix) /\
  (h = w -> h <> lb -> ge h w A lb b tol = Err ENumArgumentsMismatch) /\
  (h = 0%nat -> exists e, ge h w A lb b tol = Err e) /\
  (forall y, ge h w A lb b tol <> Panic y).
Print Assumptions c08_shape.

(* back / forward substitution solve the upper / lower triangle of their matrix (the other
   triangle is never read) whenever the diagonal is non-zero *)
Theorem c08_substitution : forall (n : nat) (a : mat R) (b s0 : vec R),
  (0 < n)%nat -> (forall i, (i < n)%nat -> a i i <> 0) ->
  (exists x, back_substitution a n b s0 = Ok x /\
     forall i, (i < n)%nat -> Rsum_n n (fun j => (if (j <? i)%nat then 0 else a i j) * x j) = b i) /\
  (forall i, (i < n)%nat ->
     Rsum_n n (fun j => (if (i <? j)%nat then 0 else a i j) * forward_substitution a n b s0 j) = b i).
Proof. exact Proofs.Gauss.c08_substitution. Qed.
Check c08_substitution : forall (n : nat) (a : mat R) (b s0 : vec R),
  (0 < n)%nat -> (forall i, (i < n)%nat -> a i i <> 0) ->
  (exists x, back_substitution a n b s0 = Ok x /\
     forall i, (i < n)%nat -> Rsum_n n (fun j => (if (j <? i)%nat then 0 else a i j) * x j) = b i) /\
  (forall i, (i < n)%nat ->
     Rsum_n n (fun j => (if (i <? j)%nat then 0 else a i j) * forward_substitution a n b s0 j) = b i).
Print Assumptions c08_substitution.

(* ... so for a genuinely triangular matrix they solve  a x = b *)
Theorem c08_substitution_triangular : forall (n : nat) (a : mat R) (b s0 : vec R),
  (0 < n)%nat -> (forall i, (i < n)%nat -> a i i <> 0) ->
  ((forall i j, (j < i < n)%nat -> a i j = 0) ->
   exists x, back_substitution a n b s0 = Ok x /\
     forall i, (i < n)%nat -> Rsum_n n (fun j => a i j * x j) = b i) /\
  ((forall i j, (i < j < n)%nat -> a i j = 0) ->
   forall i, (i < n)%nat -> Rsum_n n (fun j => a i j * forward_substitution a n b s0 j) = b i).
Proof. exact Proofs.Gauss.c08_substitution_triangular. Qed.
Check c08_substitution_triangular : forall (n : nat) (a : mat R) (b s0 : vec R),
  (0 < n)%nat -> (forall i, (i < n)%nat -> a i i <> 0) ->
  ((forall i j, (j < i < n)%nat -> a i j = 0) ->
   exists x, back_substitution a n b s0 = Ok x /\
     forall i, (i < n)%nat -> Rsum_n n (fun j => a i j * x j) = b i) /\
  ((forall i j, (i < j < n)%nat -> a i j = 0) ->
   forall i, (i < n)%nat -> Rsum_n n (fun j => a i j * forward_substitution a n b s0 j) = b i).
Print Assumptions c08_substitution_triangular.

(* ---- non-vacuity ---------------------------------------------------------- *)
(* the hypothesis "ge ... = Ok x" is satisfiable over R ... *)
Example c08_nonvacuous_ok : exists x, ge 1 1 (fun _ _ => 2) 1 (fun _ => 6) (1 / 10) = Ok x.
Proof. exact Proofs.Gauss.ex_ge_ok. Qed.
(* ... the null-vector hypothesis is met by the all-ones 2x2 matrix, which is therefore refused ... *)
Example c08_nonvacuous_singular : forall b : vec R, ge 2 2 (fun _ _ => 1) 2 b (1 / 1000) = Err ESingularMatrix.
Proof. exact Proofs.Gauss.ex_singular_refused. Qed.
(* ... the 2x2 identity meets the hypothesis of c08_nonsingular_accepted and is therefore accepted ... *)
Example c08_nonvacuous_nonsingular : exists t0, 0 < t0 /\ forall tol, 0 < tol <= t0 ->
  forall b : vec R, exists x, ge 2 2 (fun i j => if (i =? j)%nat then 1 else 0) 2 b tol = Ok x.
Proof. exact Proofs.GaussB.ex_identity_accepted. Qed.
(* ... and the very same Gallina term, run on IEEE doubles, solves a 2x2 system that needs the row swap
   ([[1,2],[4,4]] x = [5,6] : x = [-2, 3.5]) *)
Example c08_float_run :
  @ge_lists float FNum [[1; 2]; [4; 4]]%float [5; 6]%float 0x1p-20%float = Ok [-2; 3.5]%float.
Proof. vm_compute. reflexivity. Qed.

(* ---- FLOAT instance: backward error of the triangular substitution routines (Proofs/SubstFloat.v, Flocq) ----
   [B2R (Prim2B x)] is the real value of the primitive float x.  Per-row hypotheses, stated on the returned vector x:
   okmul u v := is_finite (Prim2B (u*v)) = true /\ (B2R u * B2R v = 0 \/ 2^-1022 <= |B2R u * B2R v|)   (Proofs/PolyFloat.v)
   okdiv w d := is_finite (Prim2B (w/d)) = true /\ B2R d <> 0 /\ (B2R w / B2R d = 0 \/ 2^-1022 <= |B2R w / B2R d|)
   fwd_row_ok a b x i  : b_i finite; okmul (a i j) (x j) for j < i; every partial sum of the row finite;
                         b_i - sum finite; okdiv (b_i - sum) (a i i).     back_row_ok a n b x i : the mirror image
                         (j > i, sums started at i+1), and just okdiv (b i) (a i i) for the last row i = n-1. *)
From Flocq Require Import Core BinarySingleNaN PrimFloat.
From SV Require Import Proofs.PolyFloat Proofs.SubstFloat.

(* forward substitution in binary64, componentwise backward error (residual form): with the per-row hypotheses
   [fwd_row_ok] on the returned vector, every component is finite and, for every row i,
   |sum_{j<=i} a_ij xh_j - b_i| <= ((1+eps)^(n+1) - 1) sum_{j<=i} |a_ij| |xh_j|   (eps = 2^-53; the upper triangle is never read) *)
Theorem c08_forward_substitution_float_error : forall (n : nat) (a : mat PrimFloat.float) (b s0 : vec PrimFloat.float),
  (forall i, (i < n)%nat -> fwd_row_ok a b (forward_substitution a n b s0) i) ->
  forall i, (i < n)%nat ->
    is_finite (Prim2B (forward_substitution a n b s0 i)) = true /\
    Rabs (Rsum_n n (fun j => (if (i <? j)%nat then 0 else B2R (Prim2B (a i j)))
                             * B2R (Prim2B (forward_substitution a n b s0 j)))
          - B2R (Prim2B (b i)))
    <= ((1 + bpow radix2 (-53)) ^ (n + 1) - 1)
       * Rsum_n n (fun j => Rabs (if (i <? j)%nat then 0 else B2R (Prim2B (a i j)))
                            * Rabs (B2R (Prim2B (forward_substitution a n b s0 j)))).
Proof. exact Proofs.SubstFloat.forward_substitution_float_error. Qed.
Check c08_forward_substitution_float_error : forall (n : nat) (a : mat PrimFloat.float) (b s0 : vec PrimFloat.float),
  (forall i, (i < n)%nat -> fwd_row_ok a b (forward_substitution a n b s0) i) ->
  forall i, (i < n)%nat ->
    is_finite (Prim2B (forward_substitution a n b s0 i)) = true /\
    Rabs (Rsum_n n (fun j => (if (i <? j)%nat then 0 else B2R (Prim2B (a i j)))
                             * B2R (Prim2B (forward_substitution a n b s0 j)))
          - B2R (Prim2B (b i)))
    <= ((1 + bpow radix2 (-53)) ^ (n + 1) - 1)
       * Rsum_n n (fun j => Rabs (if (i <? j)%nat then 0 else B2R (Prim2B (a i j)))
                            * Rabs (B2R (Prim2B (forward_substitution a n b s0 j)))).
Print Assumptions c08_forward_substitution_float_error.

(* back substitution: the mirror image, on the upper triangle ([back_row_ok]; the last row is a bare division) *)
Theorem c08_back_substitution_float_error : forall (n : nat) (a : mat PrimFloat.float) (b s0 : vec PrimFloat.float),
  (0 < n)%nat ->
  exists x, back_substitution a n b s0 = Ok x /\
  ((forall i, (i < n)%nat -> back_row_ok a n b x i) ->
   forall i, (i < n)%nat ->
    is_finite (Prim2B (x i)) = true /\
    Rabs (Rsum_n n (fun j => (if (j <? i)%nat then 0 else B2R (Prim2B (a i j))) * B2R (Prim2B (x j)))
          - B2R (Prim2B (b i)))
    <= ((1 + bpow radix2 (-53)) ^ (n + 1) - 1)
       * Rsum_n n (fun j => Rabs (if (j <? i)%nat then 0 else B2R (Prim2B (a i j))) * Rabs (B2R (Prim2B (x j))))).
Proof. exact Proofs.SubstFloat.back_substitution_float_error. Qed.
Check c08_back_substitution_float_error : forall (n : nat) (a : mat PrimFloat.float) (b s0 : vec PrimFloat.float),
  (0 < n)%nat ->
  exists x, back_substitution a n b s0 = Ok x /\
  ((forall i, (i < n)%nat -> back_row_ok a n b x i) ->
   forall i, (i < n)%nat ->
    is_finite (Prim2B (x i)) = true /\
    Rabs (Rsum_n n (fun j => (if (j <? i)%nat then 0 else B2R (Prim2B (a i j))) * B2R (Prim2B (x j)))
          - B2R (Prim2B (b i)))
    <= ((1 + bpow radix2 (-53)) ^ (n + 1) - 1)
       * Rsum_n n (fun j => Rabs (if (j <? i)%nat then 0 else B2R (Prim2B (a i j))) * Rabs (B2R (Prim2B (x j))))).
Print Assumptions c08_back_substitution_float_error.

(* [okdiv] can be discharged by computation (as [okmul] by c01_okmul_by_leb): quotient and divisor finite and
   at least 2^-1021 in magnitude (two_m1021 = 0x1p-1021) *)
Theorem c08_okdiv_by_leb : forall w d : PrimFloat.float,
  PrimFloat.is_finite (PrimFloat.div w d) = true ->
  PrimFloat.leb two_m1021 (PrimFloat.abs (PrimFloat.div w d)) = true ->
  PrimFloat.is_finite d = true ->
  PrimFloat.leb two_m1021 (PrimFloat.abs d) = true ->
  okdiv w d.
Proof. exact Proofs.SubstFloat.okdiv_by_leb. Qed.
Check c08_okdiv_by_leb : forall w d : PrimFloat.float,
  PrimFloat.is_finite (PrimFloat.div w d) = true ->
  PrimFloat.leb two_m1021 (PrimFloat.abs (PrimFloat.div w d)) = true ->
  PrimFloat.is_finite d = true ->
  PrimFloat.leb two_m1021 (PrimFloat.abs d) = true ->
  okdiv w d.
Print Assumptions c08_okdiv_by_leb.

(* non-vacuity: the 3x3 systems of Proofs/SubstFloat.v  L = [[2,0,0],[0.5,-4,0],[0.1,3,1.5]] (ex_l), U = L^T (ex_u),
   b = [1, 2.5, -0.3] (ex_rhs), in hex floats, satisfy the hypotheses; checked by computation *)
Example c08_float_nonvacuous_forward :
  forall i, (i < 3)%nat -> fwd_row_ok ex_l ex_rhs (forward_substitution ex_l 3 ex_rhs ex_s0) i.
Proof. exact Proofs.SubstFloat.ex_forward_hyps. Qed.
Example c08_float_nonvacuous_back : exists x, back_substitution ex_u 3 ex_rhs ex_s0 = Ok x /\
  forall i, (i < 3)%nat -> back_row_ok ex_u 3 ex_rhs x i.
Proof. exact Proofs.SubstFloat.ex_back_hyps. Qed.

(* ---- FLOAT instance: backward error of the ELIMINATION phase of [ge] (Proofs/GaussFloat.v, Flocq) ----
   The code does not store its multipliers (a[i][k] is left stale), so they are reconstructed by a ghost run:
   [ge_ghost n tol A b] is the model's own loop [for_range 0 (n-1) (fe_step n tol)] on a state that carries two more
   components, the matrix of the multipliers actually used (rows interchanged whenever the working rows are) and the
   row permutation followed so far; its projection is the model's loop (Proofs.GaussFloat.proj_loop, any Num).
   From it:  [ge_perm] = s,  [ge_L] = L (unit lower triangular: the multipliers),  [ge_W] = W (final working matrix
   [fa st]),  [ge_U] = U (upper triangle of W),  [ge_y] = y (final right-hand side [fb st]).
   [chain a l u m] : r_0 = a, r_(t+1) = r_t - l_t * u_t (arithmetic of the instance; Proofs/PLUFloat.v).
   [PFinal n A s L U] : U_rc (r <= c) is the chain of length r from A_(s r)c over (L_r., U_.c); L_rc (c < r) is the
   chain of length c divided by U_cc; L_rr = n1; zeros elsewhere.
   [plu_entry_ok PA L U i k] (m = min i k): okmul (L i t) (U t k) for t < m; every chain link from PA_ik finite;
   for k < i, okdiv (link m) (U k k).   [ge_rhs_ok Pb L y i]: okmul (L i t) (y t) for t < i; every link of the chain
   from Pb_i over (L_i., y) finite. *)
From SV Require Import Model.LU Proofs.LU Proofs.PLUFloat Proofs.GaussFloat.

(* any Num instance: for an accepted system, s is a permutation, x is what back_substitution returns on (W, y), and
   the outputs of the ghost run satisfy the chain recurrences from the rows of (A, b) permuted by s *)
Theorem c08_ge_recurrences : forall (T : Type) (NT : Num T) (n : nat) (A : mat T) (b : vec T) (tol : T) (x : vec T),
  ge n n A n b tol = Ok x ->
  perm_on n (ge_perm n tol A b) /\
  back_substitution (ge_W n tol A b) n (ge_y n tol A b) (vconst n0) = Ok x /\
  PFinal n A (ge_perm n tol A b) (ge_L n tol A b) (ge_U n tol A b) /\
  forall r, (r < n)%nat ->
    ge_y n tol A b r = chain (b (ge_perm n tol A b r)) (fun t => ge_L n tol A b r t) (ge_y n tol A b) r.
Proof. exact (@Proofs.GaussFloat.ge_ok_final). Qed.
Check c08_ge_recurrences : forall (T : Type) (NT : Num T) (n : nat) (A : mat T) (b : vec T) (tol : T) (x : vec T),
  ge n n A n b tol = Ok x ->
  perm_on n (ge_perm n tol A b) /\
  back_substitution (ge_W n tol A b) n (ge_y n tol A b) (vconst n0) = Ok x /\
  PFinal n A (ge_perm n tol A b) (ge_L n tol A b) (ge_U n tol A b) /\
  forall r, (r < n)%nat ->
    ge_y n tol A b r = chain (b (ge_perm n tol A b r)) (fun t => ge_L n tol A b r t) (ge_y n tol A b) r.
Print Assumptions c08_ge_recurrences.

(* binary64: if ge returns x then s is a permutation of 0..n-1, x is what back_substitution returns on (W, y) (it reads
   only U, so c08_back_substitution_float_error bounds |U x - y|), and
   (1) |L U - P A| <= ((1+eps)^n - 1) |L| |U|  and  (2) |L y - P b| <= ((1+eps)^n - 1) |L| |y|  componentwise,
   (P A) i k = A (s i) k, (P b) i = b (s i), eps = 2^-53: x solves a system close to the given one *)
Theorem c08_ge_float_backward_error : forall (n : nat) (A : mat PrimFloat.float) (b : vec PrimFloat.float)
                                             (tol : PrimFloat.float) (x : vec PrimFloat.float),
  ge n n A n b tol = Ok x ->
  let s := ge_perm n tol A b in
  let L := ge_L n tol A b in
  let U := ge_U n tol A b in
  let y := ge_y n tol A b in
  perm_on n s /\
  back_substitution (ge_W n tol A b) n y (vconst n0) = Ok x /\
  (forall i k, (i <= k)%nat -> U i k = ge_W n tol A b i k) /\
  ((forall i k, (i < n)%nat -> (k < n)%nat -> plu_entry_ok (fun r c => A (s r) c) L U i k) ->
   forall i k, (i < n)%nat -> (k < n)%nat ->
     is_finite (Prim2B (L i k)) = true /\ is_finite (Prim2B (U i k)) = true /\
     Rabs (mprod n (fun r c => B2R (Prim2B (L r c))) (fun r c => B2R (Prim2B (U r c))) i k
           - B2R (Prim2B (A (s i) k)))
     <= ((1 + bpow radix2 (-53)) ^ n - 1)
        * mprod n (fun r c => Rabs (B2R (Prim2B (L r c)))) (fun r c => Rabs (B2R (Prim2B (U r c)))) i k) /\
  ((forall i, (i < n)%nat -> ge_rhs_ok (fun r => b (s r)) L y i) ->
   forall i, (i < n)%nat ->
     is_finite (Prim2B (y i)) = true /\
     Rabs (msum 0 n (fun t => B2R (Prim2B (L i t)) * B2R (Prim2B (y t))) - B2R (Prim2B (b (s i))))
     <= ((1 + bpow radix2 (-53)) ^ n - 1)
        * msum 0 n (fun t => Rabs (B2R (Prim2B (L i t))) * Rabs (B2R (Prim2B (y t))))).
Proof. exact Proofs.GaussFloat.ge_float_backward_error. Qed.
Check c08_ge_float_backward_error : forall (n : nat) (A : mat PrimFloat.float) (b : vec PrimFloat.float)
                                             (tol : PrimFloat.float) (x : vec PrimFloat.float),
  ge n n A n b tol = Ok x ->
  let s := ge_perm n tol A b in
  let L := ge_L n tol A b in
  let U := ge_U n tol A b in
  let y := ge_y n tol A b in
  perm_on n s /\
  back_substitution (ge_W n tol A b) n y (vconst n0) = Ok x /\
  (forall i k, (i <= k)%nat -> U i k = ge_W n tol A b i k) /\
  ((forall i k, (i < n)%nat -> (k < n)%nat -> plu_entry_ok (fun r c => A (s r) c) L U i k) ->
   forall i k, (i < n)%nat -> (k < n)%nat ->
     is_finite (Prim2B (L i k)) = true /\ is_finite (Prim2B (U i k)) = true /\
     Rabs (mprod n (fun r c => B2R (Prim2B (L r c))) (fun r c => B2R (Prim2B (U r c))) i k
           - B2R (Prim2B (A (s i) k)))
     <= ((1 + bpow radix2 (-53)) ^ n - 1)
        * mprod n (fun r c => Rabs (B2R (Prim2B (L r c)))) (fun r c => Rabs (B2R (Prim2B (U r c)))) i k) /\
  ((forall i, (i < n)%nat -> ge_rhs_ok (fun r => b (s r)) L y i) ->
   forall i, (i < n)%nat ->
     is_finite (Prim2B (y i)) = true /\
     Rabs (msum 0 n (fun t => B2R (Prim2B (L i t)) * B2R (Prim2B (y t))) - B2R (Prim2B (b (s i))))
     <= ((1 + bpow radix2 (-53)) ^ n - 1)
        * msum 0 n (fun t => Rabs (B2R (Prim2B (L i t))) * Rabs (B2R (Prim2B (y t))))).
Print Assumptions c08_ge_float_backward_error.

(* non-vacuity, by computation: A = [[1,2,3],[4,5,6],[7,8,10]] (ex_ge_a), b = [1,2,3] (ex_ge_b), tol = 1e-12 (ex_ge_tol),
   in hex floats (Proofs/GaussFloat.v): the system is accepted, scaled pivoting interchanges rows twice (s = (2,0,1)),
   the multipliers 1/7, 4/7, 1/2 are inexact, and every hypothesis of c08_ge_float_backward_error holds *)
Example c08_float_nonvacuous_ge :
  (exists x, ge 3 3 ex_ge_a 3 ex_ge_b ex_ge_tol = Ok x) /\
  (forall i, (i < 3)%nat -> ge_perm 3 ex_ge_tol ex_ge_a ex_ge_b i = match i with 0 => 2 | 1 => 0 | _ => 1 end%nat) /\
  (forall i k, (i < 3)%nat -> (k < 3)%nat ->
     plu_entry_ok (fun r c => ex_ge_a (ge_perm 3 ex_ge_tol ex_ge_a ex_ge_b r) c)
                  (ge_L 3 ex_ge_tol ex_ge_a ex_ge_b) (ge_U 3 ex_ge_tol ex_ge_a ex_ge_b) i k) /\
  (forall i, (i < 3)%nat ->
     ge_rhs_ok (fun r => ex_ge_b (ge_perm 3 ex_ge_tol ex_ge_a ex_ge_b r))
               (ge_L 3 ex_ge_tol ex_ge_a ex_ge_b) (ge_y 3 ex_ge_tol ex_ge_a ex_ge_b) i).
Proof. exact Proofs.GaussFloat.ex_ge_float_hyps. Qed.

(* ---- END-TO-END: the vector returned by [ge] has a small componentwise residual (Proofs/SolveFloat.v) ---- *)
From SV Require Import Proofs.SolveFloat.

(* pure real arithmetic: three componentwise backward errors compose into a residual bound *)
Theorem c08_lu_solve_residual : forall (n : nat) (L U A' : mat R) (y x b' : vec R) (g1 g2 g3 : R),
  0 <= g1 -> 0 <= g2 -> 0 <= g3 ->
  (forall i k, (i < n)%nat -> (k < n)%nat ->
     Rabs (msum 0 n (fun j => L i j * U j k) - A' i k) <= g1 * msum 0 n (fun j => Rabs (L i j) * Rabs (U j k))) ->
  (forall i, (i < n)%nat ->
     Rabs (msum 0 n (fun j => L i j * y j) - b' i) <= g2 * msum 0 n (fun j => Rabs (L i j) * Rabs (y j))) ->
  (forall i, (i < n)%nat ->
     Rabs (msum 0 n (fun j => U i j * x j) - y i) <= g3 * msum 0 n (fun j => Rabs (U i j) * Rabs (x j))) ->
  forall i, (i < n)%nat ->
    Rabs (msum 0 n (fun k => A' i k * x k) - b' i)
    <= (g1 + g2 * (1 + g3) + g3)
       * msum 0 n (fun j => msum 0 n (fun k => Rabs (L i j) * Rabs (U j k) * Rabs (x k))).
Proof. exact Proofs.SolveFloat.lu_solve_residual. Qed.
Check c08_lu_solve_residual : forall (n : nat) (L U A' : mat R) (y x b' : vec R) (g1 g2 g3 : R),
  0 <= g1 -> 0 <= g2 -> 0 <= g3 ->
  (forall i k, (i < n)%nat -> (k < n)%nat ->
     Rabs (msum 0 n (fun j => L i j * U j k) - A' i k) <= g1 * msum 0 n (fun j => Rabs (L i j) * Rabs (U j k))) ->
  (forall i, (i < n)%nat ->
     Rabs (msum 0 n (fun j => L i j * y j) - b' i) <= g2 * msum 0 n (fun j => Rabs (L i j) * Rabs (y j))) ->
  (forall i, (i < n)%nat ->
     Rabs (msum 0 n (fun j => U i j * x j) - y i) <= g3 * msum 0 n (fun j => Rabs (U i j) * Rabs (x j))) ->
  forall i, (i < n)%nat ->
    Rabs (msum 0 n (fun k => A' i k * x k) - b' i)
    <= (g1 + g2 * (1 + g3) + g3)
       * msum 0 n (fun j => msum 0 n (fun k => Rabs (L i j) * Rabs (U j k) * Rabs (x k))).
Print Assumptions c08_lu_solve_residual.

(* binary64: the vector x RETURNED by gaussian elimination satisfies, in every row s i of the ORIGINAL system,
   |sum_k A_(s i)k x_k - b_(s i)| <= (g_n + g_n (1 + g_(n+1)) + g_(n+1)) * sum_j sum_k |L_ij| |U_jk| |x_k|,
   g_m = (1+2^-53)^m - 1, under the per-operation hypotheses of c08_ge_float_backward_error (elimination) and of
   c08_back_substitution_float_error (back substitution on the final working matrix and right-hand side) *)
Theorem c08_ge_float_residual : forall (n : nat) (A : mat PrimFloat.float) (b : vec PrimFloat.float)
                                       (tol : PrimFloat.float) (x : vec PrimFloat.float),
  ge n n A n b tol = Ok x ->
  let s := ge_perm n tol A b in
  let L := ge_L n tol A b in
  let U := ge_U n tol A b in
  let y := ge_y n tol A b in
  (forall i k, (i < n)%nat -> (k < n)%nat -> plu_entry_ok (fun r c => A (s r) c) L U i k) ->
  (forall i, (i < n)%nat -> ge_rhs_ok (fun r => b (s r)) L y i) ->
  (forall i, (i < n)%nat -> back_row_ok (ge_W n tol A b) n y x i) ->
  forall i, (i < n)%nat ->
    is_finite (Prim2B (x i)) = true /\
    Rabs (msum 0 n (fun k => B2R (Prim2B (A (s i) k)) * B2R (Prim2B (x k))) - B2R (Prim2B (b (s i))))
    <= (((1 + bpow radix2 (-53)) ^ n - 1)
        + ((1 + bpow radix2 (-53)) ^ n - 1) * (1 + ((1 + bpow radix2 (-53)) ^ (n + 1) - 1))
        + ((1 + bpow radix2 (-53)) ^ (n + 1) - 1))
       * msum 0 n (fun j => msum 0 n (fun k =>
           Rabs (B2R (Prim2B (L i j))) * Rabs (B2R (Prim2B (U j k))) * Rabs (B2R (Prim2B (x k))))).
Proof. exact Proofs.SolveFloat.ge_float_residual. Qed.
Check c08_ge_float_residual : forall (n : nat) (A : mat PrimFloat.float) (b : vec PrimFloat.float)
                                       (tol : PrimFloat.float) (x : vec PrimFloat.float),
  ge n n A n b tol = Ok x ->
  let s := ge_perm n tol A b in
  let L := ge_L n tol A b in
  let U := ge_U n tol A b in
  let y := ge_y n tol A b in
  (forall i k, (i < n)%nat -> (k < n)%nat -> plu_entry_ok (fun r c => A (s r) c) L U i k) ->
  (forall i, (i < n)%nat -> ge_rhs_ok (fun r => b (s r)) L y i) ->
  (forall i, (i < n)%nat -> back_row_ok (ge_W n tol A b) n y x i) ->
  forall i, (i < n)%nat ->
    is_finite (Prim2B (x i)) = true /\
    Rabs (msum 0 n (fun k => B2R (Prim2B (A (s i) k)) * B2R (Prim2B (x k))) - B2R (Prim2B (b (s i))))
    <= (((1 + bpow radix2 (-53)) ^ n - 1)
        + ((1 + bpow radix2 (-53)) ^ n - 1) * (1 + ((1 + bpow radix2 (-53)) ^ (n + 1) - 1))
        + ((1 + bpow radix2 (-53)) ^ (n + 1) - 1))
       * msum 0 n (fun j => msum 0 n (fun k =>
           Rabs (B2R (Prim2B (L i j))) * Rabs (B2R (Prim2B (U j k))) * Rabs (B2R (Prim2B (x k))))).
Print Assumptions c08_ge_float_residual.

(* non-vacuity, by computation: A = [[1,2,3],[4,5,6],[7,8,10]] (ex_ge_a), b = [1,2,4] (ex_ge_b2; with b = [1,2,3] the
   last component of the solution is an exact zero, which the computational criteria okmul_by_leb / okdiv_by_leb do
   not cover), tol = 1e-12: ALL hypotheses of c08_ge_float_residual hold together *)
Example c08_float_nonvacuous_ge_residual : exists x, ge 3 3 ex_ge_a 3 ex_ge_b2 ex_ge_tol = Ok x /\
  (forall i k, (i < 3)%nat -> (k < 3)%nat ->
     plu_entry_ok (fun r c => ex_ge_a (ge_perm 3 ex_ge_tol ex_ge_a ex_ge_b2 r) c)
                  (ge_L 3 ex_ge_tol ex_ge_a ex_ge_b2) (ge_U 3 ex_ge_tol ex_ge_a ex_ge_b2) i k) /\
  (forall i, (i < 3)%nat ->
     ge_rhs_ok (fun r => ex_ge_b2 (ge_perm 3 ex_ge_tol ex_ge_a ex_ge_b2 r))
               (ge_L 3 ex_ge_tol ex_ge_a ex_ge_b2) (ge_y 3 ex_ge_tol ex_ge_a ex_ge_b2) i) /\
  (forall i, (i < 3)%nat ->
     back_row_ok (ge_W 3 ex_ge_tol ex_ge_a ex_ge_b2) 3 (ge_y 3 ex_ge_tol ex_ge_a ex_ge_b2) x i).
Proof. exact Proofs.SolveFloat.ex_ge_residual_hyps. Qed.
