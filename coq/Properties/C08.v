(* Properties/C08.v — Gaussian elimination: returned solutions solve the system,
   singular systems are refused, malformed systems get errors.  Statements only;
   every proof is `exact` of a lemma of Proofs/Gauss.v.  All statements are about
   the R instance of the model (exact arithmetic); rounding is measured by the
   correspondence check and the exact oracle, not proved. *)
From Coq Require Import ZArith List Reals Lia.
From SV Require Import Base.Num Base.Outcome Base.Mat Model.Subst Model.Gauss Proofs.Gauss.
Import ListNotations.
Local Open Scope R_scope.

Theorem c08_shape : forall (h w lb : nat) (A : mat R) (b : vec R) (tol : R),
  (h <> w -> ge h w A lb b tol = Err ENonSquareMatrix) /\
  (h = w -> h <> lb -> ge h w A lb b tol = Err ENumArgumentsMismatch) /\
  (h = 0%nat -> exists e, ge h w A lb b tol = Err e) /\
  (forall y, ge h w A lb b tol <> Panic y).
Proof. exact Proofs.Gauss.c08_shape. Qed.
Check c08_shape : forall (h w lb : nat) (A : mat R) (b : vec R) (tol : R),
  (h <> w -> ge h w A lb b tol = Err ENonSquareMatrix) /\
  (h = w -> h <> lb -> ge h w A lb b tol = Err ENumArgumentsMismatch) /\
  (h = 0%nat -> exists e, ge h w A lb b tol = Err e) /\
  (forall y, ge h w A lb b tol <> Panic y).
Print Assumptions c08_shape.

Example c08_nonvacuous_shape : ge 2 3 (fun _ _ => 1) 2 (fun _ => 1) 1 = Err ENonSquareMatrix.
Proof. reflexivity. Qed.
