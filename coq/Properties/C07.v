(* Properties/C07.v — Newton-Raphson: results are near-roots; monotone step to the right of the largest root.
   Statements only; every proof is `exact` of a lemma of Proofs/Newton.v (NewtonMirror.v, NewtonFloat.v).  Unless a
   statement quantifies over the instance, it is about the R instance of the model (exact arithmetic).
   Float level: what an Ok answer MEANS on the executed binary64 instance is a theorem (c07_float_sound at the end of
   this file: float Newton step, finite answer, which exit test fired and its real-number reading); CONVERGENCE in
   floats is not proved and is measured by the correspondence check and the oracle. *)
From Coq Require Import ZArith List Reals Lra Lia Bool.
From Coquelicot Require Import Coquelicot.
From SV Require Import Base.Num Base.Outcome Model.Poly Model.Solvers Proofs.Bisect Proofs.Newton.
Import ListNotations.
Local Open Scope R_scope.

(* what an Ok gives (abstract target): x is the Newton step from a previous iterate x' and either the
   target vanishes at x or the last step is below tol percent of |x|.  For every tolerance: as of 8dfb6bc
   an iterate 0 that is no root carries the relative change INFINITY (before: the stale initial 100). *)
Theorem c07_sound : forall (f f' : R -> res R) x0 cap tol x,
  nrm f f' x0 cap tol = Ok x ->
  exists x' v d, f x' = Ok v /\ f' x' = Ok d /\ x = x' - v / d /\
    (f x = Ok 0 \/ (x <> 0 /\ Rabs (x - x') * 100 < tol * Rabs x)).
Proof. exact Proofs.Newton.c07_sound. Qed.
Check c07_sound : forall (f f' : R -> res R) x0 cap tol x,
  nrm f f' x0 cap tol = Ok x ->
  exists x' v d, f x' = Ok v /\ f' x' = Ok d /\ x = x' - v / d /\
    (f x = Ok 0 \/ (x <> 0 /\ Rabs (x - x') * 100 < tol * Rabs x)).
Print Assumptions c07_sound.

(* SimplePolynomial (g = p or p' by mode; sd = simple_derivative): Taylor-Lagrange at the last step gives
   g x = g''(xi)/2 (x - x')^2, hence the second-order residual bound |g x| <= max|g''|/2 (tol% |x|)^2.
   (g1 x' <> 0: over R a division by zero is an unspecified number; over floats it yields inf/NaN, which
   never passes the exit test.) *)
Theorem c07_sound_simple : forall (p : spoly R) x0 cap tol mode x,
  s_nrm p x0 cap tol mode = Ok x ->
  let g := eval_simple (s_target p mode) in
  let g1 := eval_simple (sd (s_target p mode)) in
  let g2 := eval_simple (sd (sd (s_target p mode))) in
  exists x', x = x' - g x' / g1 x' /\
    (g x = 0 \/ (x <> 0 /\ Rabs (x - x') * 100 < tol * Rabs x)) /\
    (g1 x' <> 0 ->
       (exists xi, Rmin x' x <= xi <= Rmax x' x /\ g x = g2 xi / 2 * (x - x') ^ 2) /\
       (forall M, (forall t, Rmin x' x <= t <= Rmax x' x -> Rabs (g2 t) <= M) ->
          g x = 0 \/ Rabs (g x) <= M / 2 * (tol / 100 * Rabs x) ^ 2)).
Proof. exact Proofs.Newton.c07_sound_simple. Qed.
Check c07_sound_simple : forall (p : spoly R) x0 cap tol mode x,
  s_nrm p x0 cap tol mode = Ok x ->
  let g := eval_simple (s_target p mode) in
  let g1 := eval_simple (sd (s_target p mode)) in
  let g2 := eval_simple (sd (sd (s_target p mode))) in
  exists x', x = x' - g x' / g1 x' /\
    (g x = 0 \/ (x <> 0 /\ Rabs (x - x') * 100 < tol * Rabs x)) /\
    (g1 x' <> 0 ->
       (exists xi, Rmin x' x <= xi <= Rmax x' x /\ g x = g2 xi / 2 * (x - x') ^ 2) /\
       (forall M, (forall t, Rmin x' x <= t <= Rmax x' x -> Rabs (g2 t) <= M) ->
          g x = 0 \/ Rabs (g x) <= M / 2 * (tol / 100 * Rabs x) ^ 2)).
Print Assumptions c07_sound_simple.

(* every Num instance (floats included): never a panic, in particular the fuel cap always suffices (no
   endless loop); the body runs at most max cap 1 times; an error is MaxIterationsReached or an error of
   the target's evaluation *)
Theorem c07_total : forall (T : Type) (NT : Num T) (f f' : T -> res T) (x0 : T) (cap : nat) (tol : T),
  (forall x, no_panic (f x)) -> (forall x, no_panic (f' x)) ->
  no_panic (nrm f f' x0 cap tol) /\
  no_panic (nr_loop f f' tol cap cap (nr_start x0)) /\
  (forall r, nr_loop f f' tol cap cap (nr_start x0) = Ok r -> (1 <= ns_iter r <= Nat.max cap 1)%nat) /\
  (forall e, nrm f f' x0 cap tol = Err e ->
     e = EMaxIterationsReached \/ (exists x, f x = Err e) \/ (exists x, f' x = Err e)).
Proof. exact Proofs.Newton.c07_total. Qed.
Check c07_total : forall (T : Type) (NT : Num T) (f f' : T -> res T) (x0 : T) (cap : nat) (tol : T),
  (forall x, no_panic (f x)) -> (forall x, no_panic (f' x)) ->
  no_panic (nrm f f' x0 cap tol) /\
  no_panic (nr_loop f f' tol cap cap (nr_start x0)) /\
  (forall r, nr_loop f f' tol cap cap (nr_start x0) = Ok r -> (1 <= ns_iter r <= Nat.max cap 1)%nat) /\
  (forall e, nrm f f' x0 cap tol = Err e ->
     e = EMaxIterationsReached \/ (exists x, f x = Err e) \/ (exists x, f' x = Err e)).
Print Assumptions c07_total.

(* the two polynomial types never panic, so the extracted entry points never do *)
Theorem c07_total_poly : forall (T : Type) (NT : Num T) (x0 : T) (cap : nat) (tol : T) (mode : bool),
  (forall p : spoly T, no_panic (s_nrm p x0 cap tol mode)) /\
  (forall p : ipoly T, no_panic (i_nrm p x0 cap tol mode)).
Proof. exact Proofs.Newton.c07_total_poly. Qed.
Check c07_total_poly : forall (T : Type) (NT : Num T) (x0 : T) (cap : nat) (tol : T) (mode : bool),
  (forall p : spoly T, no_panic (s_nrm p x0 cap tol mode)) /\
  (forall p : ipoly T, no_panic (i_nrm p x0 cap tol mode)).
Print Assumptions c07_total_poly.

(* after repair b6ae3a9: if the k-th Newton iterate (k < cap) is exactly a root - the origin included - the
   solver returns Ok of that iterate, or of an earlier one on which the exit test already fired *)
Theorem c07_zero_root : forall (f f' : R -> res R) x0 cap tol k xk,
  0 < tol -> (1 <= k < cap)%nat ->
  newton_from f f' x0 k = Ok xk -> f xk = Ok 0 ->
  exists j xj, (1 <= j <= k)%nat /\ newton_from f f' x0 j = Ok xj /\ nrm f f' x0 cap tol = Ok xj.
Proof. exact Proofs.Newton.c07_zero_root. Qed.
Check c07_zero_root : forall (f f' : R -> res R) x0 cap tol k xk,
  0 < tol -> (1 <= k < cap)%nat ->
  newton_from f f' x0 k = Ok xk -> f xk = Ok 0 ->
  exists j xj, (1 <= j <= k)%nat /\ newton_from f f' x0 j = Ok xj /\ nrm f f' x0 cap tol = Ok xj.
Print Assumptions c07_zero_root.

(* PARTIAL (general convex case): one body of the loop started to the right of a root r beyond which g, g' > 0 and
   g'' >= 0 moves the iterate left without crossing r.  For real-rooted targets c * prod (x - r_i) the full convergence
   half is proved below (c07_converges_to_extreme_root).  The start LEFT of the smallest root Rs < 0 (mirror image) is proved at the END of this
   file (c07_converges_to_extreme_root_mirror) through the reflection law of the solver model (c07_nrm_reflect).
   STILL LEFT TO THE ORACLE: an extreme root on the wrong side of the origin or at it - largest root <= 0 approached
   from the right, smallest root >= 0 approached from the left (the iterates then pass or approach 0, where the
   relative step never becomes small and the exit needs an exactly representable/underflowing root) -, general convex
   targets that are not products of real linear factors, and float CONVERGENCE (rounding in the iteration, overflow
   F-C07-OVERFLOW).  No longer left to the oracle: float-level soundness of the exit, c07_float_sound below. *)
Theorem c07_monotone_partial : forall (p : spoly R) r tol cap (s s' : nstate R) b,
  let g := eval_simple p in let g1 := eval_simple (sd p) in let g2 := eval_simple (sd (sd p)) in
  g r = 0 -> (forall t, r < t -> 0 < g t /\ 0 < g1 t) -> (forall t, r <= t -> 0 <= g2 t) ->
  r < ns_x s ->
  nr_body (s_eval_univariate p) (s_eval_univariate (sd p)) tol cap s = Ok (s', b) ->
  r <= ns_x s' < ns_x s.
Proof. exact Proofs.Newton.c07_monotone_partial. Qed.
Check c07_monotone_partial : forall (p : spoly R) r tol cap (s s' : nstate R) b,
  let g := eval_simple p in let g1 := eval_simple (sd p) in let g2 := eval_simple (sd (sd p)) in
  g r = 0 -> (forall t, r < t -> 0 < g t /\ 0 < g1 t) -> (forall t, r <= t -> 0 <= g2 t) ->
  r < ns_x s ->
  nr_body (s_eval_univariate p) (s_eval_univariate (sd p)) tol cap s = Ok (s', b) ->
  r <= ns_x s' < ns_x s.
Print Assumptions c07_monotone_partial.

(* rprod rs x = prod (x - r_i) and rdprod rs x = sum_j prod_{i<>j} (x - r_i) is its derivative *)
Theorem c07_rdprod_is_derivative : forall (rs : list R) (x : R), is_derive (rprod rs) x (rdprod rs x).
Proof. exact Proofs.Newton.rprod_is_derive. Qed.
Check c07_rdprod_is_derivative : forall (rs : list R) (x : R), is_derive (rprod rs) x (rdprod rs x).
Print Assumptions c07_rdprod_is_derivative.

(* THE CONVERGENCE HALF in exact arithmetic: target g = c * prod (x - r_i) (all roots real, n = length rs >= 1 of
   them, multiplicities allowed), derivative g' as above, largest root Rm > 0, start x0 > Rm, 0 < tol, and a budget
   K + 1 < cap with 100 ((n-1)/n)^K (x0 - Rm) < tol * Rm (division-free below).  Then the solver returns Ok x with
   Rm <= x and (x - Rm) * 100 <= (n - 1) * tol * x, i.e. the extreme root to within (degree-1) * tol percent of x.
   Proof: g'/g = sum 1/(x - r_i) lies in [1/(x-Rm), n/(x-Rm)], so the step s obeys (x-Rm)/n <= s <= x-Rm: the
   iterates stay right of Rm, contract by (1 - 1/n), and x' - Rm <= (n-1) s when the step test fires; for n = 1
   the first step lands on Rm and is accepted as an exact root. *)
Theorem c07_converges_to_extreme_root : forall (f f' : R -> res R) (c : R) (rs : list R) (Rm x0 tol : R) (cap K : nat),
  (forall x, f x = Ok (c * rprod rs x)) -> (forall x, f' x = Ok (c * rdprod rs x)) ->
  c <> 0 -> In Rm rs -> (forall r, In r rs -> r <= Rm) -> 0 < Rm -> 0 < tol -> Rm < x0 ->
  (S K < cap)%nat ->
  100 * (INR (length rs) - 1) ^ K * (x0 - Rm) < tol * Rm * INR (length rs) ^ K ->
  exists x, nrm f f' x0 cap tol = Ok x /\ Rm <= x /\ (x - Rm) * 100 <= (INR (length rs) - 1) * tol * x.
Proof. exact Proofs.Newton.c07_converges_to_extreme_root. Qed.
Check c07_converges_to_extreme_root : forall (f f' : R -> res R) (c : R) (rs : list R) (Rm x0 tol : R) (cap K : nat),
  (forall x, f x = Ok (c * rprod rs x)) -> (forall x, f' x = Ok (c * rdprod rs x)) ->
  c <> 0 -> In Rm rs -> (forall r, In r rs -> r <= Rm) -> 0 < Rm -> 0 < tol -> Rm < x0 ->
  (S K < cap)%nat ->
  100 * (INR (length rs) - 1) ^ K * (x0 - Rm) < tol * Rm * INR (length rs) ^ K ->
  exists x, nrm f f' x0 cap tol = Ok x /\ Rm <= x /\ (x - Rm) * 100 <= (INR (length rs) - 1) * tol * x.
Print Assumptions c07_converges_to_extreme_root.

(* regression of the repaired finding F-C07-STALE-100 (8dfb6bc): x^2 + 1 from 1 with tol = 200 (percent); the
   first iterate is 0 and no root, its relative change is INFINITY and the loop does NOT stop there
   (before the repair the call returned Ok 0).  The next step divides by g' 0 = 0, which is unspecified
   over R; over floats it gives -inf, then NaN, and the call ends in MaxIterationsReached (regression
   case of the correspondence check). *)
Theorem c07_stale_100_repaired : exists s', nr_body (fun x => Ok (x * x + 1)) (fun x => Ok (2 * x)) 200 100 (nr_start 1) = Ok (s', false) /\
             ns_x s' = 0 /\ ns_err s' = None.
Proof. exact Proofs.Newton.c07_stale_100_repaired. Qed.
Check c07_stale_100_repaired : exists s', nr_body (fun x => Ok (x * x + 1)) (fun x => Ok (2 * x)) 200 100 (nr_start 1) = Ok (s', false) /\
             ns_x s' = 0 /\ ns_err s' = None.
Print Assumptions c07_stale_100_repaired.

(* non-vacuity: 2x from 3 returns Ok 0 (a root at the origin), so the hypotheses of c07_sound,
   c07_sound_simple and c07_zero_root are satisfiable *)
Example c07_nonvacuous : s_nrm p2x 3 100 (1 / 10000) false = Ok 0.
Proof. exact Proofs.Newton.c07_example_zero_root. Qed.

(* x^2 - 1 and r = 1 satisfy the hypotheses of c07_monotone_partial *)
Example c07_nonvacuous_monotone :
  eval_simple px2m1 1 = 0 /\
  (forall t, 1 < t -> 0 < eval_simple px2m1 t /\ 0 < eval_simple (sd px2m1) t) /\
  (forall t, 1 <= t -> 0 <= eval_simple (sd (sd px2m1)) t).
Proof. exact Proofs.Newton.c07_example_monotone_hyps. Qed.

(* the hypotheses of c07_converges_to_extreme_root are satisfiable: (x-1)(x-2)(x-4) from 10, tol 1e-3 (percent),
   cap 100, K = 30 - the solver returns the root 4 to within 2 * tol percent *)
Example c07_nonvacuous_converges :
  exists x, nrm (fun x => Ok (1 * rprod [1; 2; 4] x)) (fun x => Ok (1 * rdprod [1; 2; 4] x)) 10 100 (1 / 1000) = Ok x /\
            4 <= x /\ (x - 4) * 100 <= 2 * (1 / 1000) * x.
Proof. exact Proofs.Newton.c07_example_converges. Qed.

(* ---- the mirror image (Proofs/NewtonMirror.v) ------------------------------------------------------------------- *)
From SV Require Import Proofs.NewtonMirror.

(* REFLECTION LAW of the solver model (exact arithmetic), a general symmetry: solving y |-> f (-y), whose derivative is
   y |-> - f' (-y), from -x0 gives the negated answer of solving f from x0 - Ok values are negated, Err (and Panic)
   outcomes are the same.  Every ingredient of the loop body is invariant: the iterate x - v/d becomes its negative,
   the is_finite guard is constant over R, the exact-root shortcut tests the same residual, `x <> 0` is symmetric, the
   relative change |x' - x| / x' * 100 changes sign and the exit test reads its absolute value only, the counter is
   untouched. *)
Theorem c07_nrm_reflect : forall (f f' : R -> res R) (x0 : R) (cap : nat) (tol : R),
  nrm (fun y => f (- y)) (fun y => res_map Ropp (f' (- y))) (- x0) cap tol =
  res_map Ropp (nrm f f' x0 cap tol).
Proof. exact Proofs.NewtonMirror.nrm_reflect. Qed.
Check c07_nrm_reflect : forall (f f' : R -> res R) (x0 : R) (cap : nat) (tol : R),
  nrm (fun y => f (- y)) (fun y => res_map Ropp (f' (- y))) (- x0) cap tol =
  res_map Ropp (nrm f f' x0 cap tol).
Print Assumptions c07_nrm_reflect.

(* THE CONVERGENCE HALF, MIRRORED: target g = c * prod (x - r_i), smallest root Rs < 0, start x0 < Rs, 0 < tol, budget
   K + 1 < cap with 100 ((n-1)/n)^K (Rs - x0) < tol * (-Rs).  Then the solver returns Ok x with x <= Rs and
   (Rs - x) * 100 <= (n - 1) * tol * |x|  (|x| = -x).  Proof: c07_nrm_reflect and c07_converges_to_extreme_root for
   c (-1)^n * prod (y + r_i), largest root -Rs > 0, start -x0. *)
Theorem c07_converges_to_extreme_root_mirror : forall (f f' : R -> res R) (c : R) (rs : list R) (Rs x0 tol : R) (cap K : nat),
  (forall x, f x = Ok (c * rprod rs x)) -> (forall x, f' x = Ok (c * rdprod rs x)) ->
  c <> 0 -> In Rs rs -> (forall r, In r rs -> Rs <= r) -> Rs < 0 -> 0 < tol -> x0 < Rs ->
  (S K < cap)%nat ->
  100 * (INR (length rs) - 1) ^ K * (Rs - x0) < tol * (- Rs) * INR (length rs) ^ K ->
  exists x, nrm f f' x0 cap tol = Ok x /\ x <= Rs /\ (Rs - x) * 100 <= (INR (length rs) - 1) * tol * (- x).
Proof. exact Proofs.NewtonMirror.c07_converges_to_extreme_root_mirror. Qed.
Check c07_converges_to_extreme_root_mirror : forall (f f' : R -> res R) (c : R) (rs : list R) (Rs x0 tol : R) (cap K : nat),
  (forall x, f x = Ok (c * rprod rs x)) -> (forall x, f' x = Ok (c * rdprod rs x)) ->
  c <> 0 -> In Rs rs -> (forall r, In r rs -> Rs <= r) -> Rs < 0 -> 0 < tol -> x0 < Rs ->
  (S K < cap)%nat ->
  100 * (INR (length rs) - 1) ^ K * (Rs - x0) < tol * (- Rs) * INR (length rs) ^ K ->
  exists x, nrm f f' x0 cap tol = Ok x /\ x <= Rs /\ (Rs - x) * 100 <= (INR (length rs) - 1) * tol * (- x).
Print Assumptions c07_converges_to_extreme_root_mirror.

(* the hypotheses of c07_converges_to_extreme_root_mirror are satisfiable: (x+1)(x+2)(x+4) from -10, tol 1e-3
   (percent), cap 100, K = 30 - the solver returns the root -4 to within 2 * tol percent *)
Example c07_nonvacuous_converges_mirror :
  exists x, nrm (fun x => Ok (1 * rprod [-1; -2; -4] x)) (fun x => Ok (1 * rdprod [-1; -2; -4] x))
                (-10) 100 (1 / 1000) = Ok x /\
            x <= -4 /\ (-4 - x) * 100 <= 2 * (1 / 1000) * (- x).
Proof. exact Proofs.NewtonMirror.c07_example_converges_mirror. Qed.

(* ---- the executed binary64 instance: what an Ok answer means (Proofs/NewtonFloat.v) ---------------------------- *)
From Coq Require Import Floats.
From Flocq Require Import Core BinarySingleNaN PrimFloat.
From SV Require Import Proofs.NewtonFloat.

(* EVERY Num instance, targets arbitrary: an Ok answer x is the last Newton step nsub x' (ndiv v d) and the exit test
   of that loop body fired for one of two reasons, written with the class operations as the model computes them -
   the root shortcut (x passes the finiteness guard x - x == 0, f x is a zero, and the error 0 is STILL compared with
   the tolerance) or the relative change |x - x'| / x * 100 (division by the SIGNED x, absolute value afterwards)
   of an x that is not a zero; if such an x passes the guard, f x evaluated to a non-zero. *)
Theorem c07_ok_structure : forall (T : Type) (NT : Num T) (f f' : T -> res T) (x0 : T) (cap : nat) (tol x : T),
  nrm f f' x0 cap tol = Ok x ->
  exists x' v d, f x' = Ok v /\ f' x' = Ok d /\ x = nsub x' (ndiv v d) /\
    ( (nfinite x = true /\ (exists w, f x = Ok w /\ neqb w n0 = true) /\ nltb (nabs n0) tol = true)
   \/ (nneb x n0 = true /\
       nltb (nabs (nmul (ndiv (nabs (nsub x x')) x) c100)) tol = true /\
       (nfinite x = true -> exists w, f x = Ok w /\ neqb w n0 = false)) ).
Proof. exact Proofs.NewtonFloat.nrm_ok_structure. Qed.
Check c07_ok_structure : forall (T : Type) (NT : Num T) (f f' : T -> res T) (x0 : T) (cap : nat) (tol x : T),
  nrm f f' x0 cap tol = Ok x ->
  exists x' v d, f x' = Ok v /\ f' x' = Ok d /\ x = nsub x' (ndiv v d) /\
    ( (nfinite x = true /\ (exists w, f x = Ok w /\ neqb w n0 = true) /\ nltb (nabs n0) tol = true)
   \/ (nneb x n0 = true /\
       nltb (nabs (nmul (ndiv (nabs (nsub x x')) x) c100)) tol = true /\
       (nfinite x = true -> exists w, f x = Ok w /\ neqb w n0 = false)) ).
Print Assumptions c07_ok_structure.

(* FLOAT-LEVEL SOUNDNESS OF THE EXIT (binary64, f and f' ARBITRARY float functions - NaN-returning ones included):
   an Ok answer x is the float Newton step fl(x' - fl(v / d)) from a previous iterate, x is FINITE, the tolerance is
   not a NaN (it is finite or +infinity), and either
     - f x is a float zero (B2R = 0; the tolerance is then positive), or
     - x is not a float zero and the computed relative change e = fl(fl(|fl(x - x')| / x) * 100) - division by the
       signed x, absolute value taken by the test - is finite with |e| < tol over the reals (for a finite tol), and
       f x evaluated to a non-zero.
   Finiteness of x: in the first case it is the model's guard; in the second case the guard is not what gives it
   (it only protects the evaluation of f) - an infinite or NaN x makes e a NaN (inf/inf), which fails `e.abs() < tol`.
   NOT proved: convergence in floats, and any bound relating e to the exact relative change (overflow of x - x' or
   of the multiplication by 100 is excluded by the finiteness of e, rounding errors are not quantified). *)
Theorem c07_float_sound : forall (f f' : PrimFloat.float -> res PrimFloat.float)
    (x0 : PrimFloat.float) (cap : nat) (tol x : PrimFloat.float),
  @nrm PrimFloat.float FNum f f' x0 cap tol = Ok x ->
  exists x' v d, f x' = Ok v /\ f' x' = Ok d /\
    x = PrimFloat.sub x' (PrimFloat.div v d) /\
    is_finite (Prim2B x) = true /\
    is_nan (Prim2B tol) = false /\
    ( (exists w, f x = Ok w /\ PrimFloat.eqb w PrimFloat.zero = true /\
                 is_finite (Prim2B w) = true /\ B2R (Prim2B w) = 0 /\
                 PrimFloat.ltb (PrimFloat.abs PrimFloat.zero) tol = true /\
                 (is_finite (Prim2B tol) = true -> 0 < B2R (Prim2B tol)))
   \/ (let e := PrimFloat.mul (PrimFloat.div (PrimFloat.abs (PrimFloat.sub x x')) x)
                              (@c100 PrimFloat.float FNum) in
       PrimFloat.eqb x PrimFloat.zero = false /\ B2R (Prim2B x) <> 0 /\
       PrimFloat.ltb (PrimFloat.abs e) tol = true /\
       is_finite (Prim2B e) = true /\
       (is_finite (Prim2B tol) = true -> Rabs (B2R (Prim2B e)) < B2R (Prim2B tol)) /\
       (exists w, f x = Ok w /\ PrimFloat.eqb w PrimFloat.zero = false)) ).
Proof. exact Proofs.NewtonFloat.nrm_float_sound. Qed.
Check c07_float_sound : forall (f f' : PrimFloat.float -> res PrimFloat.float)
    (x0 : PrimFloat.float) (cap : nat) (tol x : PrimFloat.float),
  @nrm PrimFloat.float FNum f f' x0 cap tol = Ok x ->
  exists x' v d, f x' = Ok v /\ f' x' = Ok d /\
    x = PrimFloat.sub x' (PrimFloat.div v d) /\
    is_finite (Prim2B x) = true /\
    is_nan (Prim2B tol) = false /\
    ( (exists w, f x = Ok w /\ PrimFloat.eqb w PrimFloat.zero = true /\
                 is_finite (Prim2B w) = true /\ B2R (Prim2B w) = 0 /\
                 PrimFloat.ltb (PrimFloat.abs PrimFloat.zero) tol = true /\
                 (is_finite (Prim2B tol) = true -> 0 < B2R (Prim2B tol)))
   \/ (let e := PrimFloat.mul (PrimFloat.div (PrimFloat.abs (PrimFloat.sub x x')) x)
                              (@c100 PrimFloat.float FNum) in
       PrimFloat.eqb x PrimFloat.zero = false /\ B2R (Prim2B x) <> 0 /\
       PrimFloat.ltb (PrimFloat.abs e) tol = true /\
       is_finite (Prim2B e) = true /\
       (is_finite (Prim2B tol) = true -> Rabs (B2R (Prim2B e)) < B2R (Prim2B tol)) /\
       (exists w, f x = Ok w /\ PrimFloat.eqb w PrimFloat.zero = false)) ).
Print Assumptions c07_float_sound.

(* the constant 100.0 of the relative change is exactly 100 *)
Theorem c07_float_c100 :
  B2R (Prim2B (@c100 PrimFloat.float FNum)) = 100 /\ is_finite (Prim2B (@c100 PrimFloat.float FNum)) = true.
Proof. exact Proofs.NewtonFloat.FR_c100. Qed.
Check c07_float_c100 :
  B2R (Prim2B (@c100 PrimFloat.float FNum)) = 100 /\ is_finite (Prim2B (@c100 PrimFloat.float FNum)) = true.
Print Assumptions c07_float_c100.

(* non-vacuity of c07_float_sound, computed on the float instance: x*x - 2 with derivative 2x from 1, cap 50,
   tol = fl(1e-10) percent returns Ok 0x1.6a09e667f3bccp+0 (one ulp below fl(sqrt 2) = 0x1.6a09e667f3bcdp+0), through
   the relative-change exit (the residual there is not a float zero) *)
Example c07_float_nonvacuous :
  @nrm PrimFloat.float FNum exn_f exn_f' 0x1p+0%float 50 0x1.b7cdfd9d7bdbbp-34%float = Ok 0x1.6a09e667f3bccp+0%float.
Proof. exact Proofs.NewtonFloat.nrm_float_example. Qed.
Example c07_float_nonvacuous_exit :
  exists w, exn_f 0x1.6a09e667f3bccp+0%float = Ok w /\ PrimFloat.eqb w PrimFloat.zero = false.
Proof. exact Proofs.NewtonFloat.nrm_float_example_exit. Qed.
