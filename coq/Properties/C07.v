From Coq Require Import ZArith List Reals Lra Lia Bool.
From SV Require Import Base.Num Base.Outcome Model.Poly Model.Solvers Proofs.Newton.
Import ListNotations.
Local Open Scope R_scope.

Theorem c07_tmp : forall (f f' : R -> res R) x0 tol x, nrm f f' x0 0 tol <> Ok x.
Proof. exact Proofs.Newton.c07_tmp. Qed.
Check c07_tmp : forall (f f' : R -> res R) x0 tol x, nrm f f' x0 0 tol <> Ok x.
Print Assumptions c07_tmp.
