(* Properties/C19.v — general expression parser: totality, conventional precedence,
   sound folding, display round trip.  Statements only; proofs are in Proofs/Expr*.v. *)
From Coq Require Import ZArith NArith List Bool Reals Lia.
From SV Require Import Base.Num Base.Outcome Base.Str Model.Expr Model.RefExpr Proofs.ExprTotal.
Import ListNotations.

(* 1. TOTALITY, for every number type (so for reals and for f64): the lexer, parse_expr given
   fuel > number of tokens (parser gives it tokens + 1), parser and fold return Ok or Err; the
   only Panic of the model is running out of fuel (Panic WFuel), which therefore never happens. *)
Theorem c19_total : forall (T : Type) (NT : Num T),
  (forall s : str, no_panic (@lexer T NT s)) /\
  (forall (f : nat) (ts : list (token T)) (bp : nat), length ts < f -> no_panic (parse_expr f ts bp)) /\
  (forall ts : list (token T), no_panic (parse_unfolded ts) /\ no_panic (@parser T NT ts)) /\
  (forall e : expr T, exists e', @fold_operations T NT e = Ok e').
Proof. exact (@Proofs.ExprTotal.c19_total_lemma). Qed.
Check c19_total : forall (T : Type) (NT : Num T),
  (forall s : str, no_panic (@lexer T NT s)) /\
  (forall (f : nat) (ts : list (token T)) (bp : nat), length ts < f -> no_panic (parse_expr f ts bp)) /\
  (forall ts : list (token T), no_panic (parse_unfolded ts) /\ no_panic (@parser T NT ts)) /\
  (forall e : expr T, exists e', @fold_operations T NT e = Ok e').
Print Assumptions c19_total.

(* non-vacuity: the fuel outcome exists in the model and is reached with too little fuel *)
Example c19_fuel_outcome_reachable : @parse_expr R 1 [TLParen; TVar [120%N]; TRParen] 0 = Panic WFuel.
Proof. reflexivity. Qed.
