(* Properties/C19.v — general expression parser: totality, conventional precedence,
   sound folding, display round trip.  Statements only; proofs are in Proofs/Expr*.v. *)
From Coq Require Import ZArith NArith List Bool Reals Lia Lra.
From SV Require Import Base.Num Base.Outcome Base.Str Model.Expr Model.RefExpr Proofs.ExprTotal Proofs.ExprFold Proofs.ExprRead Proofs.ExprReadJuxt Proofs.ExprRefute Proofs.ExprDisplay.
Import ListNotations.

(* 1. TOTALITY, for every number type (so for reals and for f64): the lexer, parse_expr given
   fuel > number of tokens (parser gives it tokens + 1), parser and fold return Ok or Err; the
   only Panic of the model is running out of fuel (Panic WFuel), which therefore never happens. *)
Theorem c19_total : forall (T : Type) (NT : Num T),
  (forall s : str, no_panic (@lexer T NT s)) /\
  (forall (f : nat) (ts : list (token T)) (bp : nat), length ts < f -> no_panic (parse_expr f ts bp)) /\
  (forall ts : list (token T), no_panic (parse_unfolded ts) /\ no_panic (@parser T NT ts)) /\
  (forall e : expr T, exists e', @fold_operations T NT e = Ok e').
Proof. exact (@Proofs.ExprTotal.c19_total_lemma). Qed.
Check c19_total : forall (T : Type) (NT : Num T),
  (forall s : str, no_panic (@lexer T NT s)) /\
  (forall (f : nat) (ts : list (token T)) (bp : nat), length ts < f -> no_panic (parse_expr f ts bp)) /\
  (forall ts : list (token T), no_panic (parse_unfolded ts) /\ no_panic (@parser T NT ts)) /\
  (forall e : expr T, exists e', @fold_operations T NT e = Ok e').
Print Assumptions c19_total.

(* non-vacuity: the fuel outcome exists in the model and is reached with too little fuel *)
Example c19_fuel_outcome_reachable : @parse_expr R 1 [TLParen; TVar [120%N]; TRParen] 0 = Panic WFuel.
Proof. reflexivity. Qed.

(* 3. SOUND FOLDING.  Wherever the unfolded tree has a value, the folded tree has the same value —
   under the premise [pow_safe e rho] (Proofs/ExprFold.v), which excludes exactly the situation in
   which the rule 0^_ = 0 fires on an exponent whose value at rho is 0:
     pow_safe (EBin o l r _) rho := pow_safe l rho /\ pow_safe r rho /\
        (o = OCaret -> is_num 0 (foldS l) = true -> is_num 0 (foldS r) = false -> denote r rho <> Some 0)
     pow_safe _ rho := True
   All other rules (0*_, _*0, _^0, 0+_, _+0, _-0, 0-_, _/1) are proved sound without premise. *)
Theorem c19_fold_sound : forall (e : expr R) (rho : env) (v : R),
  denote e rho = Some v -> pow_safe e rho ->
  exists e', fold_operations e = Ok e' /\ denote e' rho = Some v.
Proof. exact Proofs.ExprFold.c19_fold_sound_lemma. Qed.
Check c19_fold_sound : forall (e : expr R) (rho : env) (v : R),
  denote e rho = Some v -> pow_safe e rho ->
  exists e', fold_operations e = Ok e' /\ denote e' rho = Some v.
Print Assumptions c19_fold_sound.

(* the same with a premise that does not mention the fold: no power sub-expression is 0^0 at rho *)
Theorem c19_fold_sound_no_zero_pow_zero : forall (e : expr R) (rho : env) (v : R),
  denote e rho = Some v -> no_zero_pow_zero e rho ->
  exists e', fold_operations e = Ok e' /\ denote e' rho = Some v.
Proof. exact Proofs.ExprFold.c19_fold_sound_no_zero_pow_zero_lemma. Qed.
Check c19_fold_sound_no_zero_pow_zero : forall (e : expr R) (rho : env) (v : R),
  denote e rho = Some v -> no_zero_pow_zero e rho ->
  exists e', fold_operations e = Ok e' /\ denote e' rho = Some v.
Print Assumptions c19_fold_sound_no_zero_pow_zero.

(* the unrestricted statement is FALSE for the code as it is (finding F16d): 0^x at x = 0 *)
Theorem c19_fold_refuted :
  exists (e e' : expr R) (rho : env) (v : R),
    denote e rho = Some v /\ fold_operations e = Ok e' /\ denote e' rho <> Some v.
Proof. exact Proofs.ExprFold.c19_fold_refuted_lemma. Qed.
Check c19_fold_refuted :
  exists (e e' : expr R) (rho : env) (v : R),
    denote e rho = Some v /\ fold_operations e = Ok e' /\ denote e' rho <> Some v.
Print Assumptions c19_fold_refuted.

(* non-vacuity of the premise: (0 + x*y) ^ 2 at x = 3, y = 5 is pow_safe and has the value 225 *)
Example c19_fold_nonvacuous :
  let e := EBin OCaret (EBin OAdd (ENum 0%R) (EBin OMul (EVar [120%N]) (EVar [121%N]) false) true) (ENum 2%R) false in
  let rho := fun v : str => match v with [120%N] => 3%R | _ => 5%R end in
  pow_safe e rho /\ exists v, denote e rho = Some v.
Proof.
  cbn. split.
  - repeat split; try discriminate.
    intros _ H. exfalso. revert H. cbn [n0 RNum].
    unfold Reqb. destruct (Req_EM_T 0 0); [|contradiction]. cbn. discriminate.
  - unfold pow_val. destruct (is_integer_dec 2) as [_|N]; [|exfalso; apply N; apply (is_integer_IZR 2)].
    destruct (Req_EM_T (0 + 3 * 5) 0) as [E|_]; [exfalso; lra|eexists; reflexivity].
Qed.

(* 2. CONVENTIONAL PRECEDENCE (partial).  [fragmentJ ts] (Proofs/ExprReadJuxt.v): every token is a number,
   variable, constant, parenthesis or one of + - * / ^ ! (no function, no %, no explicit ·); an operand end is
   directly followed by an operand start only where the code supports juxtaposition (number·variable,
   number·constant, number·( , variable/constant followed by number, variable, constant or ( ); every - follows
   an operand end (it is a binary minus).  On that fragment the tree returned by parse_expr / parse_unfolded is
   the tree of the stratified reference reader Model/RefExpr.v up to the paren flags — for ALL lengths and
   nestings: juxtaposition binds tighter than * and / (4x^2 is one unit, 1/2x = 1/(2x)), * and / tighter than
   + and -, ^ tighter still, all left-associative, ! postfix, parentheses.
   MISSING for the full statement c19_parser_reads: the constructs on which the current code is refuted below
   (prefix minus, functions) or deviates from the reference (%, explicit ·: findings F16h, F16i). *)
Theorem c19_parser_reads_partial : forall (ts : list (token R)) (e : expr R),
  fragmentJ ts -> parse_unfolded ts = Ok e ->
  exists e', ref_read ts = Some e' /\ e' = erase e /\ forall rho, denote e rho = denote e' rho.
Proof. exact Proofs.ExprReadJuxt.c19_parser_reads_partial_lemma. Qed.
Check c19_parser_reads_partial : forall (ts : list (token R)) (e : expr R),
  fragmentJ ts -> parse_unfolded ts = Ok e ->
  exists e', ref_read ts = Some e' /\ e' = erase e /\ forall rho, denote e rho = denote e' rho.
Print Assumptions c19_parser_reads_partial.

(* the same for [parser] (= fold after parse_unfolded): the value of the reading, where defined and
   where the fold is sound (premise of c19_fold_sound) *)
Theorem c19_parser_reads_folded_partial : forall (ts : list (token R)) (e : expr R),
  fragmentJ ts -> parser ts = Ok e ->
  exists u e', parse_unfolded ts = Ok u /\ ref_read ts = Some e' /\
    forall rho v, denote e' rho = Some v -> pow_safe u rho -> denote e rho = Some v.
Proof. exact Proofs.ExprReadJuxt.c19_parser_reads_folded_partial_lemma. Qed.
Check c19_parser_reads_folded_partial : forall (ts : list (token R)) (e : expr R),
  fragmentJ ts -> parser ts = Ok e ->
  exists u e', parse_unfolded ts = Ok u /\ ref_read ts = Some e' /\
    forall rho v, denote e' rho = Some v -> pow_safe u rho -> denote e rho = Some v.
Print Assumptions c19_parser_reads_folded_partial.

(* outside the fragment the statement is FALSE for the code as it is: x/-y*z (finding F16a) ... *)
Theorem c19_unary_refuted :
  exists (ts : list (token R)) (e e' : expr R) (rho : env),
    parser ts = Ok e /\ ref_read ts = Some e' /\ denote e rho <> denote e' rho.
Proof. exact Proofs.ExprRefute.c19_unary_refuted_lemma. Qed.
Check c19_unary_refuted :
  exists (ts : list (token R)) (e e' : expr R) (rho : env),
    parser ts = Ok e /\ ref_read ts = Some e' /\ denote e rho <> denote e' rho.
Print Assumptions c19_unary_refuted.

(* ... and sin(x)^2 (finding F16b) *)
Theorem c19_func_refuted :
  exists (ts : list (token R)) (e e' : expr R) (rho : env),
    parser ts = Ok e /\ ref_read ts = Some e' /\ denote e rho <> denote e' rho.
Proof. exact Proofs.ExprRefute.c19_func_refuted_lemma. Qed.
Check c19_func_refuted :
  exists (ts : list (token R)) (e e' : expr R) (rho : env),
    parser ts = Ok e /\ ref_read ts = Some e' /\ denote e rho <> denote e' rho.
Print Assumptions c19_func_refuted.

(* non-vacuity: (x + y) * 4z^2! - 1/2x is in the fragment and is parsed; 1/2x is read as 1/(2x) *)
Example c19_reads_nonvacuous :
  let x := @TVar R [120%N] in let y := @TVar R [121%N] in let z := @TVar R [122%N] in
  let ts := [TLParen; x; TOp OAdd; y; TRParen; TOp OMul; TNum 4%R; z; TOp OCaret; TNum 2%R; TOp OFac;
             TOp OSub; TNum 1%R; TOp ODiv; TNum 2%R; x] in
  fragmentJ ts /\ exists e, parse_unfolded ts = Ok e.
Proof. cbn zeta. split; [split; [reflexivity|exact I]|eexists; reflexivity]. Qed.
Example c19_reads_juxt :
  @parse_unfolded R [TNum 1%R; TOp ODiv; TNum 2%R; TVar [120%N]]
  = Ok (EBin ODiv (ENum 1%R) (EBin OMul (ENum 2%R) (EVar [120%N]) false) false).
Proof. reflexivity. Qed.

(* 4. DISPLAY ROUND TRIP (partial).  [dfrag e] (Proofs/ExprDisplay.v): e is built from one-letter variables
   other than e / E, the constant e, + - * / % ^ and postfix !, and every operand of an operator is an atom,
   a factorial of an operand, or a binary operation carrying its paren flag (fully parenthesised below the
   top operator); no number occurs.  Such trees are in the parser's image, and lexer, parser and fold of the
   printed text give back the very same tree, for every number type and every rendering of numbers.
   MISSING for the full statement: numbers (needs the specification of `{}` on f64), the juxtaposition
   shortcuts of Display (2x, x^2, 2x^2), operands left unparenthesised by precedence, functions, prefix minus —
   and, on the current tree, the refuted classes below. *)
Theorem c19_display_roundtrip_partial : forall (T : Type) (NT : Num T) (fmt : T -> str) (e : expr T),
  dfrag e = true -> @reread T NT fmt e = Ok e.
Proof. exact (@Proofs.ExprDisplay.c19_display_roundtrip_partial_lemma). Qed.
Check c19_display_roundtrip_partial : forall (T : Type) (NT : Num T) (fmt : T -> str) (e : expr T),
  dfrag e = true -> @reread T NT fmt e = Ok e.
Print Assumptions c19_display_roundtrip_partial.

(* refuted on the current tree, for every rendering of numbers:
   (-x)^y prints as "-x ^ y" and reads back as -(x^y)   (finding F16e) *)
Theorem c19_display_prefix_refuted : forall fmt : R -> str,
  exists (ts : list (token R)) (e e' : expr R) (rho : env),
    parser ts = Ok e /\ reread fmt e = Ok e' /\ denote e' rho <> denote e rho.
Proof. exact Proofs.ExprRefute.c19_display_prefix_refuted_lemma. Qed.
Check c19_display_prefix_refuted : forall fmt : R -> str,
  exists (ts : list (token R)) (e e' : expr R) (rho : env),
    parser ts = Ok e /\ reread fmt e = Ok e' /\ denote e' rho <> denote e rho.
Print Assumptions c19_display_prefix_refuted.

(* pi prints as U+03C0, which the lexer rejects   (finding F16g) *)
Theorem c19_display_constant_refuted : forall fmt : R -> str,
  exists (ts : list (token R)) (e : expr R),
    parser ts = Ok e /\ reread fmt e = Err EUnexpectedChar.
Proof. exact Proofs.ExprRefute.c19_display_constant_refuted_lemma. Qed.
Check c19_display_constant_refuted : forall fmt : R -> str,
  exists (ts : list (token R)) (e : expr R),
    parser ts = Ok e /\ reread fmt e = Err EUnexpectedChar.
Print Assumptions c19_display_constant_refuted.

(* (0 + x*y)^z folds to a tree printed as "x * y ^ z", read back as x*(y^z)   (finding F16c) *)
Theorem c19_display_fold_paren_refuted : forall fmt : R -> str,
  exists (ts : list (token R)) (e e' : expr R) (rho : env),
    parser ts = Ok e /\ reread fmt e = Ok e' /\ denote e' rho <> denote e rho.
Proof. exact Proofs.ExprRefute.c19_display_fold_paren_refuted_lemma. Qed.
Check c19_display_fold_paren_refuted : forall fmt : R -> str,
  exists (ts : list (token R)) (e e' : expr R) (rho : env),
    parser ts = Ok e /\ reread fmt e = Ok e' /\ denote e' rho <> denote e rho.
Print Assumptions c19_display_fold_paren_refuted.

(* non-vacuity: ((x + y) * z)! ^ (x / e) is in the fragment; it is what the parser returns for its own text *)
Example c19_display_nonvacuous :
  let x := @EVar R [120%N] in let y := @EVar R [121%N] in let z := @EVar R [122%N] in
  let e := EBin OCaret (EPost OFac (EBin OMul (EBin OAdd x y true) z true)) (EBin ODiv x (EConst KE) true) false in
  dfrag e = true /\
  parser [TLParen; TLParen; TVar [120%N]; TOp OAdd; TVar [121%N]; TRParen; TOp OMul; TVar [122%N]; TRParen; TOp OFac;
          TOp OCaret; TLParen; TVar [120%N]; TOp ODiv; TConst KE; TRParen] = Ok e.
Proof. cbn zeta. split; reflexivity. Qed.
