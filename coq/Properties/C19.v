(* Properties/C19.v — general expression parser: totality, conventional precedence,
   sound folding, display round trip.  Statements only; proofs are in Proofs/Expr*.v. *)
From Coq Require Import ZArith NArith List Bool Reals Lia Lra.
From SV Require Import Base.Num Base.Outcome Base.Str Model.Expr Model.RefExpr Proofs.ExprTotal Proofs.ExprFold.
Import ListNotations.

(* 1. TOTALITY, for every number type (so for reals and for f64): the lexer, parse_expr given
   fuel > number of tokens (parser gives it tokens + 1), parser and fold return Ok or Err; the
   only Panic of the model is running out of fuel (Panic WFuel), which therefore never happens. *)
Theorem c19_total : forall (T : Type) (NT : Num T),
  (forall s : str, no_panic (@lexer T NT s)) /\
  (forall (f : nat) (ts : list (token T)) (bp : nat), length ts < f -> no_panic (parse_expr f ts bp)) /\
  (forall ts : list (token T), no_panic (parse_unfolded ts) /\ no_panic (@parser T NT ts)) /\
  (forall e : expr T, exists e', @fold_operations T NT e = Ok e').
Proof. exact (@Proofs.ExprTotal.c19_total_lemma). Qed.
Check c19_total : forall (T : Type) (NT : Num T),
  (forall s : str, no_panic (@lexer T NT s)) /\
  (forall (f : nat) (ts : list (token T)) (bp : nat), length ts < f -> no_panic (parse_expr f ts bp)) /\
  (forall ts : list (token T), no_panic (parse_unfolded ts) /\ no_panic (@parser T NT ts)) /\
  (forall e : expr T, exists e', @fold_operations T NT e = Ok e').
Print Assumptions c19_total.

(* non-vacuity: the fuel outcome exists in the model and is reached with too little fuel *)
Example c19_fuel_outcome_reachable : @parse_expr R 1 [TLParen; TVar [120%N]; TRParen] 0 = Panic WFuel.
Proof. reflexivity. Qed.

(* 3. SOUND FOLDING.  Wherever the unfolded tree has a value, the folded tree has the same value —
   under the premise [pow_safe e rho] (Proofs/ExprFold.v), which excludes exactly the situation in
   which the rule 0^_ = 0 fires on an exponent whose value at rho is 0:
     pow_safe (EBin o l r _) rho := pow_safe l rho /\ pow_safe r rho /\
        (o = OCaret -> is_num 0 (foldS l) = true -> is_num 0 (foldS r) = false -> denote r rho <> Some 0)
     pow_safe _ rho := True
   All other rules (0*_, _*0, _^0, 0+_, _+0, _-0, 0-_, _/1) are proved sound without premise. *)
Theorem c19_fold_sound : forall (e : expr R) (rho : env) (v : R),
  denote e rho = Some v -> pow_safe e rho ->
  exists e', fold_operations e = Ok e' /\ denote e' rho = Some v.
Proof. exact Proofs.ExprFold.c19_fold_sound_lemma. Qed.
Check c19_fold_sound : forall (e : expr R) (rho : env) (v : R),
  denote e rho = Some v -> pow_safe e rho ->
  exists e', fold_operations e = Ok e' /\ denote e' rho = Some v.
Print Assumptions c19_fold_sound.

(* the same with a premise that does not mention the fold: no power sub-expression is 0^0 at rho *)
Theorem c19_fold_sound_no_zero_pow_zero : forall (e : expr R) (rho : env) (v : R),
  denote e rho = Some v -> no_zero_pow_zero e rho ->
  exists e', fold_operations e = Ok e' /\ denote e' rho = Some v.
Proof. exact Proofs.ExprFold.c19_fold_sound_no_zero_pow_zero_lemma. Qed.
Check c19_fold_sound_no_zero_pow_zero : forall (e : expr R) (rho : env) (v : R),
  denote e rho = Some v -> no_zero_pow_zero e rho ->
  exists e', fold_operations e = Ok e' /\ denote e' rho = Some v.
Print Assumptions c19_fold_sound_no_zero_pow_zero.

(* the unrestricted statement is FALSE for the code as it is (finding F16d): 0^x at x = 0 *)
Theorem c19_fold_refuted :
  exists (e e' : expr R) (rho : env) (v : R),
    denote e rho = Some v /\ fold_operations e = Ok e' /\ denote e' rho <> Some v.
Proof. exact Proofs.ExprFold.c19_fold_refuted_lemma. Qed.
Check c19_fold_refuted :
  exists (e e' : expr R) (rho : env) (v : R),
    denote e rho = Some v /\ fold_operations e = Ok e' /\ denote e' rho <> Some v.
Print Assumptions c19_fold_refuted.

(* non-vacuity of the premise: (0 + x*y) ^ 2 at x = 3, y = 5 is pow_safe and has the value 225 *)
Example c19_fold_nonvacuous :
  let e := EBin OCaret (EBin OAdd (ENum 0%R) (EBin OMul (EVar [120%N]) (EVar [121%N]) false) true) (ENum 2%R) false in
  let rho := fun v : str => match v with [120%N] => 3%R | _ => 5%R end in
  pow_safe e rho /\ exists v, denote e rho = Some v.
Proof.
  cbn. split.
  - repeat split; try discriminate.
    intros _ H. exfalso. revert H. cbn [n0 RNum].
    unfold Reqb. destruct (Req_EM_T 0 0); [|contradiction]. cbn. discriminate.
  - unfold pow_val. destruct (is_integer_dec 2) as [_|N]; [|exfalso; apply N; apply (is_integer_IZR 2)].
    destruct (Req_EM_T (0 + 3 * 5) 0) as [E|_]; [exfalso; lra|eexists; reflexivity].
Qed.
