(* Properties/C19.v — general expression parser: totality, conventional precedence,
   sound folding, display round trip.  Statements only; proofs are in Proofs/Expr*.v. *)
From Coq Require Import ZArith NArith List Bool Reals Lia Lra.
From SV Require Import Base.Num Base.Outcome Base.Str Model.Expr Model.RefExpr
  Proofs.ExprTotal Proofs.ExprFold Proofs.ExprRead Proofs.ExprReadJuxt Proofs.ExprDisplay Proofs.ExprRoundTrip Proofs.ExprExamples.
Import ListNotations.

(* 1. TOTALITY, for every number type (so for reals and for f64): the lexer, parse_expr given
   fuel > number of tokens (parser gives it tokens + 1), parser and fold return Ok or Err; the
   only Panic of the model is running out of fuel (Panic WFuel), which therefore never happens. *)
Theorem c19_total : forall (T : Type) (NT : Num T),
  (forall s : str, no_panic (@lexer T NT s)) /\
  (forall (f : nat) (ts : list (token T)) (bp : nat), length ts < f -> no_panic (parse_expr f ts bp)) /\
  (forall ts : list (token T), no_panic (parse_unfolded ts) /\ no_panic (@parser T NT ts)) /\
  (forall e : expr T, exists e', @fold_operations T NT e = Ok e').
Proof. exact (@Proofs.ExprTotal.c19_total_lemma). Qed.
Check c19_total : forall (T : Type) (NT : Num T),
  (forall s : str, no_panic (@lexer T NT s)) /\
  (forall (f : nat) (ts : list (token T)) (bp : nat), length ts < f -> no_panic (parse_expr f ts bp)) /\
  (forall ts : list (token T), no_panic (parse_unfolded ts) /\ no_panic (@parser T NT ts)) /\
  (forall e : expr T, exists e', @fold_operations T NT e = Ok e').
Print Assumptions c19_total.

(* non-vacuity: the fuel outcome exists in the model and is reached with too little fuel *)
Example c19_fuel_outcome_reachable : @parse_expr R 1 [TLParen; TVar [120%N]; TRParen] 0 = Panic WFuel.
Proof. reflexivity. Qed.

(* 2. CONVENTIONAL PRECEDENCE.  [fragJ ts] (Proofs/ExprReadJuxt.v) is a condition on the tokens only:
   no % and no explicit · (they are outside the property's operator list), and an operand end is directly
   followed by an operand start only where the code supports juxtaposition (number·variable/constant/function/( ,
   variable or constant followed by number, variable, constant, function or ( ).  Everything else is allowed:
   numbers, variables, constants, functions, parentheses, + - * / ^ !, prefix minus in every position.
   For every such token list, of any length and nesting, that the parser accepts, the reference reader
   Model/RefExpr.v reads it too, and the two trees are related by [simr]: equal up to the paren flags and up to
   the scope of a leading minus of a product (the parser reads -a*b/c as -((a*b)/c), the reference as
   ((-a)*b)/c) — hence they have the same value at every point, defined or not. *)
Theorem c19_parser_reads : forall (ts : list (token R)) (e : expr R),
  fragJ ts = true -> parse_unfolded ts = Ok e ->
  exists e', ref_read ts = Some e' /\ simr e e' /\ forall rho, denote e rho = denote e' rho.
Proof. exact Proofs.ExprReadJuxt.c19_parser_reads_lemma. Qed.
Check c19_parser_reads : forall (ts : list (token R)) (e : expr R),
  fragJ ts = true -> parse_unfolded ts = Ok e ->
  exists e', ref_read ts = Some e' /\ simr e e' /\ forall rho, denote e rho = denote e' rho.
Print Assumptions c19_parser_reads.

(* the same for [parser] (= fold after parse_unfolded): wherever the reading has a value, the returned tree has
   that value (the fold can only extend the domain: 0*(1/0) folds to 0) *)
Theorem c19_parser_reads_folded : forall (ts : list (token R)) (e : expr R),
  fragJ ts = true -> parser ts = Ok e ->
  exists e', ref_read ts = Some e' /\ forall rho v, denote e' rho = Some v -> denote e rho = Some v.
Proof. exact Proofs.ExprReadJuxt.c19_parser_reads_folded_lemma. Qed.
Check c19_parser_reads_folded : forall (ts : list (token R)) (e : expr R),
  fragJ ts = true -> parser ts = Ok e ->
  exists e', ref_read ts = Some e' /\ forall rho v, denote e' rho = Some v -> denote e rho = Some v.
Print Assumptions c19_parser_reads_folded.

(* non-vacuity, and the former counterexamples: -(x + y) * 4z^2! - 1/2x + sin(x)^2 / -y * z is in the fragment
   and is parsed; x/-y*z is (x/(-y))*z; sin(x)^2 is (sin x)^2 *)
Example c19_reads_nonvacuous :
  let x := @TVar R [120%N] in let y := @TVar R [121%N] in let z := @TVar R [122%N] in
  let ts := [TOp OSub; TLParen; x; TOp OAdd; y; TRParen; TOp OMul; TNum 4%R; z; TOp OCaret; TNum 2%R; TOp OFac;
             TOp OSub; TNum 1%R; TOp ODiv; TNum 2%R; x; TOp OAdd;
             TFun FSin; TLParen; x; TRParen; TOp OCaret; TNum 2%R; TOp ODiv; TOp OSub; y; TOp OMul; z] in
  fragJ ts = true /\ exists e, parse_unfolded ts = Ok e.
Proof. cbn zeta. split; [reflexivity|eexists; reflexivity]. Qed.
Example c19_unary_minus_factor_only :
  parser [tx; TOp ODiv; TOp OSub; ty; TOp OMul; tz] = Ok (EBin OMul (EBin ODiv ex (EPre OSub ey) false) ez false)
  /\ ref_read [tx; TOp ODiv; TOp OSub; ty; TOp OMul; tz] = Some (EBin OMul (EBin ODiv ex (EPre OSub ey) false) ez false).
Proof. exact Proofs.ExprExamples.unary_minus_factor_only. Qed.
Example c19_function_argument_only :
  parse_unfolded [TFun FSin; TLParen; tx; TRParen; TOp OCaret; ty] = Ok (EBin OCaret (EFun FSin ex) ey false)
  /\ ref_read [TFun FSin; TLParen; tx; TRParen; TOp OCaret; ty] = Some (EBin OCaret (EFun FSin ex) ey false)
  /\ parse_unfolded [TFun FSin; TLParen; tx; TRParen; TOp OFac] = Ok (EPost OFac (EFun FSin ex)).
Proof. exact Proofs.ExprExamples.function_argument_only. Qed.

(* 3. SOUND FOLDING, without premise: wherever the unfolded tree has a value, the folded tree has the same
   value — every rule (0*_, _*0, _^0, 0^number, 0+_, _+0, _-0, 0-_, _/1), nested anywhere. *)
Theorem c19_fold_sound : forall (e : expr R) (rho : env) (v : R),
  denote e rho = Some v ->
  exists e', fold_operations e = Ok e' /\ denote e' rho = Some v.
Proof. exact Proofs.ExprFold.c19_fold_sound_lemma. Qed.
Check c19_fold_sound : forall (e : expr R) (rho : env) (v : R),
  denote e rho = Some v ->
  exists e', fold_operations e = Ok e' /\ denote e' rho = Some v.
Print Assumptions c19_fold_sound.

(* folding is idempotent (the second call inside the rule 0 - r is the identity), for every number type *)
Theorem c19_fold_idempotent : forall (T : Type) (NT : Num T) (e e' : expr T),
  fold_operations e = Ok e' -> fold_operations e' = Ok e'.
Proof. exact Proofs.ExprFold.c19_fold_idempotent_lemma. Qed.
Check c19_fold_idempotent : forall (T : Type) (NT : Num T) (e e' : expr T),
  fold_operations e = Ok e' -> fold_operations e' = Ok e'.
Print Assumptions c19_fold_idempotent.

(* the former counterexample 0^x is left alone; 0^2 = 0 and 0^0 = 1 are still folded *)
Example c19_zero_power_fold :
  fold_operations (EBin OCaret (ENum 0%R) ex false) = Ok (EBin OCaret (ENum 0%R) ex false)
  /\ fold_operations (EBin OCaret (ENum 0%R) (ENum 2%R) false) = Ok (ENum 0%R)
  /\ fold_operations (EBin OCaret (ENum 0%R) (ENum 0%R) false) = Ok (ENum 1%R).
Proof. exact Proofs.ExprExamples.zero_power_fold. Qed.

(* 4. DISPLAY ROUND TRIP.  Display is Expr::render, the inverse of parse_expr (precedence-aware).
   (a) c19_display_roundtrip_partial — the parser's image, for text without digits: whatever the lexer and the
   parser make of a digit-free text (variables, the constants, functions, prefix minus, postfix !,
   + - * / % ^ and an explicit ·, juxtaposition of letters, any parentheses), the printed tree is accepted again
   by lexer and parser and the tree read back has the SAME VALUE at every point, defined or not; the folded tree
   returned by [parser] is that same tree.  Exact tree equality does not hold in general (the re-read tree carries
   paren flags where render put parentheses; (-a)*b is printed -a * b and reads back as -(a*b)).
   Numbers: (a) itself is about digit-free text (hence _partial).  Trees WITH numbers, including every shorthand
   form 4x, 2π, 5x^2, 4(x + 1)^2, x2, π2, x^2, are covered by (d) c19_display_roundtrip_numbers at the end of this
   file, under a hypothesis on the number printer alone: each number v of the tree is printed as a text that the
   lexer's number reader reads back as v.  What stays MEASURED, not proved: that Rust's `{}` on f64 meets this
   hypothesis (shortest round-trip decimal without exponent) — the check compares the text with the model's
   fmt_float and the re-read value with the oracle on every case. *)
Theorem c19_display_roundtrip_partial : forall (fmt : R -> str) (s : str) (ts : list (token R)) (e : expr R),
  lexer s = Ok ts -> forallb not_tnum ts = true -> parse_unfolded ts = Ok e ->
  (exists e', reread fmt e = Ok e' /\ forall rho, denote e' rho = denote e rho) /\ parser ts = Ok e.
Proof. exact Proofs.ExprRoundTrip.c19_display_roundtrip_image_lemma. Qed.
Check c19_display_roundtrip_partial : forall (fmt : R -> str) (s : str) (ts : list (token R)) (e : expr R),
  lexer s = Ok ts -> forallb not_tnum ts = true -> parse_unfolded ts = Ok e ->
  (exists e', reread fmt e = Ok e' /\ forall rho, denote e' rho = denote e rho) /\ parser ts = Ok e.
Print Assumptions c19_display_roundtrip_partial.

(* (b) the same for every number-free tree of that shape, with ANY paren flags (so also for trees that no text
   produces): [wf e] = one-letter variables other than e / E, constants, functions, prefix minus, postfix !,
   + - * / % ^ *)
Theorem c19_display_roundtrip_trees : forall (fmt : R -> str) (e : expr R),
  wf e = true -> exists e', reread fmt e = Ok e' /\ forall rho, denote e' rho = denote e rho.
Proof. exact Proofs.ExprRoundTrip.c19_display_roundtrip_lemma. Qed.
Check c19_display_roundtrip_trees : forall (fmt : R -> str) (e : expr R),
  wf e = true -> exists e', reread fmt e = Ok e' /\ forall rho, denote e' rho = denote e rho.
Print Assumptions c19_display_roundtrip_trees.

(* (c) where the tree is fully parenthesised below its top operator ([dfrag], Proofs/ExprDisplay.v) the very same
   tree comes back, for every number type *)
Theorem c19_display_roundtrip_exact : forall (T : Type) (NT : Num T) (fmt : T -> str) (e : expr T),
  dfrag e = true -> @reread T NT fmt e = Ok e.
Proof. exact (@Proofs.ExprDisplay.c19_display_roundtrip_partial_lemma). Qed.
Check c19_display_roundtrip_exact : forall (T : Type) (NT : Num T) (fmt : T -> str) (e : expr T),
  dfrag e = true -> @reread T NT fmt e = Ok e.
Print Assumptions c19_display_roundtrip_exact.

(* non-vacuity and the former finding F16j: x/yz is parsed as x/(y*z), printed with the parentheses it needs,
   and accepted again; likewise a/(-b*c) *)
Example c19_roundtrip_juxtaposition : forall fmt : R -> str,
  let e := EBin ODiv ex (EBin OMul ey ez false) false in
  lexer [120; 47; 121; 122]%N = Ok [tx; TOp ODiv; ty; tz] /\ parse_unfolded [tx; TOp ODiv; ty; tz] = Ok e /\
  display fmt e = [120; 32; 47; 32; 40; 121; 32; 42; 32; 122; 41]%N /\
  reread fmt e = Ok (EBin ODiv ex (EBin OMul ey ez true) false).
Proof. intros fmt. cbn zeta. repeat split; reflexivity. Qed.

(* the former counterexamples: (-x)^y, (-x)!, the constants, and (0 + x*y)^z through the fold *)
Example c19_display_prefix_and_constants : forall fmt : R -> str,
  reread fmt (EBin OCaret (EPre OSub ex) ey false) = Ok (EBin OCaret (EPre OSub ex) ey false)
  /\ reread fmt (EPost OFac (EPre OSub ex)) = Ok (EPost OFac (EPre OSub ex))
  /\ reread fmt (EBin OAdd (EConst KPi) (EBin OMul (EConst KTau) (EConst KPhi) true) false)
     = Ok (EBin OAdd (EConst KPi) (EBin OMul (EConst KTau) (EConst KPhi) true) false).
Proof. exact Proofs.ExprExamples.display_prefix_and_constants. Qed.
Example c19_fold_keeps_paren : forall fmt : R -> str,
  let e := EBin OCaret (EBin OMul ex ey true) ez false in
  parser [TLParen; TNum 0%R; TOp OAdd; tx; TOp OMul; ty; TRParen; TOp OCaret; tz] = Ok e /\ reread fmt e = Ok e.
Proof. exact Proofs.ExprExamples.fold_keeps_paren. Qed.

(* non-vacuity: ((x + -y) * z)! ^ -(x / pi) is in the fragment; it is what the parser returns for its own text *)
Example c19_display_nonvacuous :
  let e := EBin OCaret (EPost OFac (EBin OMul (EBin OAdd ex (EPre OSub ey) true) ez true))
                       (EPre OSub (EBin ODiv ex (EConst KPi) true)) false in
  @dfrag R e = true /\
  parser [TLParen; TLParen; tx; TOp OAdd; TOp OSub; ty; TRParen; TOp OMul; tz; TRParen; TOp OFac;
          TOp OCaret; TOp OSub; TLParen; tx; TOp ODiv; TConst KPi; TRParen] = Ok e.
Proof. cbn zeta. split; reflexivity. Qed.

(* (d) DISPLAY ROUND TRIP WITH NUMBERS (Proofs/ExprRoundTripNum.v).  [wfn e]: the shape the parser produces — number
   leaves, one-letter variables other than e / E, constants, functions, prefix minus, postfix !, + - * / % ^ with
   ANY paren flags.  Hypothesis on the printer [fmt], only for the numbers v occurring in e ([nums e]):
   parse_unsigned_dec (fmt v) = Some v, i.e. the printed text is read back as v by the lexer's number reader (so it is
   a non-empty run of digits with at most one '.', no sign, no exponent; satisfiable exactly for v = m * 10^k >= 0,
   which is what the lexer produces — parser and fold never create another number than 0 and 1).  Then the text
   of e — with every shorthand of Expr::render: 4x, 2π, 5x^2, 4(x + 1)^2 (but 2 * 3 ^ x), x2, π2, x^2, π^2 — is
   accepted by the lexer; implied multiplication and parse_expr read it back as a tree X with the SAME VALUE as e at
   every point, defined or not; [reread] (= with the final fold) returns e' = fold X, which has the value of e
   wherever e has one (the fold may extend the domain: 0 * (1/0) becomes 0), and e' = X when no number of e is 0 or 1.
   NOT covered: negative number leaves (no text parses to them; and x * (-3) would be printed x-3), multi-letter
   variables and the variables e / E (finding F16k), explicit OCDot / OFac as binary tags. *)
From SV Require Import Proofs.ExprRoundTripNum.
Theorem c19_display_roundtrip_numbers : forall (fmt : R -> str) (e : expr R),
  wfn e = true -> (forall v, In v (nums e) -> parse_unsigned_dec (fmt v) = Some v) ->
  exists ts X e',
    lexer (display fmt e) = Ok ts /\ parse_unfolded ts = Ok X /\
    (forall rho, denote X rho = denote e rho) /\
    reread fmt e = Ok e' /\ fold_operations X = Ok e' /\
    (forall rho v, denote e rho = Some v -> denote e' rho = Some v) /\
    ((forall v, In v (nums e) -> v <> 0%R /\ v <> 1%R) -> e' = X).
Proof. exact Proofs.ExprRoundTripNum.c19_display_roundtrip_numbers_lemma. Qed.
Check c19_display_roundtrip_numbers : forall (fmt : R -> str) (e : expr R),
  wfn e = true -> (forall v, In v (nums e) -> parse_unsigned_dec (fmt v) = Some v) ->
  exists ts X e',
    lexer (display fmt e) = Ok ts /\ parse_unfolded ts = Ok X /\
    (forall rho, denote X rho = denote e rho) /\
    reread fmt e = Ok e' /\ fold_operations X = Ok e' /\
    (forall rho v, denote e rho = Some v -> denote e' rho = Some v) /\
    ((forall v, In v (nums e) -> v <> 0%R /\ v <> 1%R) -> e' = X).
Print Assumptions c19_display_roundtrip_numbers.

(* the number lemma behind it: a text that the number reader accepts, followed by anything that does not start with
   a digit or '.', is lexed as that one number token ([Lexes s ts]: lex_loop s = Ok ts for every sufficient fuel) *)
Theorem c19_lexer_reads_printed_number : forall (x : R) (s rest : str) (r : list (token R)),
  parse_unsigned_dec s = Some x -> nonum_head rest -> Lexes rest r -> Lexes (s ++ rest) (TNum x :: r).
Proof. exact Proofs.ExprRoundTripNum.lexes_num. Qed.
Check c19_lexer_reads_printed_number : forall (x : R) (s rest : str) (r : list (token R)),
  parse_unsigned_dec s = Some x -> nonum_head rest -> Lexes rest r -> Lexes (s ++ rest) (TNum x :: r).
Print Assumptions c19_lexer_reads_printed_number.

(* the class [wfn] is the parser's image: whatever lexer + parse_unfolded make of ANY text (numbers included) has
   this shape, so (d) applies to every tree the parser produces from text, given the printer hypothesis on its numbers *)
Theorem c19_parser_image_shape : forall (s : str) (ts : list (token R)) (e : expr R),
  lexer s = Ok ts -> parse_unfolded ts = Ok e -> wfn e = true.
Proof. exact Proofs.ExprRoundTripNum.parser_image_wfn. Qed.
Check c19_parser_image_shape : forall (s : str) (ts : list (token R)) (e : expr R),
  lexer s = Ok ts -> parse_unfolded ts = Ok e -> wfn e = true.
Print Assumptions c19_parser_image_shape.

(* non-vacuity: the printer fmt24 ("4" for 4, "2" for every other number) meets the hypothesis on the numbers of
   4·x^2 + 2·π; the tree has two shorthand products and a shorthand power, its text is "4x^2 + 2π", and the tree
   read back has the same value everywhere *)
Example c19_roundtrip_numbers_nonvacuous :
  wfn e_4x2_2pi = true /\
  (forall v, In v (nums e_4x2_2pi) -> parse_unsigned_dec (fmt24 v) = Some v) /\
  display fmt24 e_4x2_2pi = [52; 120; 94; 50; 32; 43; 32; 50; 960]%N /\
  exists e', reread fmt24 e_4x2_2pi = Ok e' /\ forall rho, denote e' rho = denote e_4x2_2pi rho.
Proof. exact Proofs.ExprRoundTripNum.example_numbers. Qed.
