(* Properties/C09.v — LU and PLU factorisation.  Statements only. *)
From Coq Require Import ZArith List Arith Reals Lia.
From SV Require Import Base.Num Base.Outcome Base.Mat Model.LU Proofs.LU Proofs.PLU.
Import ListNotations.
Local Open Scope R_scope.

Theorem c09_nonsquare : forall (h w : nat) (A : mat R), h <> w ->
  lu h w A = Err ENonSquareMatrix /\ plu h w A = Err ENonSquareMatrix.
Proof. exact Proofs.PLU.c09_nonsquare. Qed.
Check c09_nonsquare : forall (h w : nat) (A : mat R), h <> w ->
  lu h w A = Err ENonSquareMatrix /\ plu h w A = Err ENonSquareMatrix.
Print Assumptions c09_nonsquare.

Example c09_nonvacuous_shape : (2 <> 3)%nat.
Proof. lia. Qed.
