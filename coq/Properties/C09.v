(* Properties/C09.v — LU (Doolittle, no pivoting) and PLU (partial pivoting).
   Statements only; every proof is `exact` of a lemma of Proofs/LU.v or Proofs/PLU.v.
   All statements are about the R instance of the model functions [lu] and [plu]
   of Model/LU.v (the functions that are extracted and run against the Rust code);
   rounding (finiteness, the n*eps*|L||U| bound, "well-scaled non-singular matrices
   are always factored") is measured by the correspondence oracle; for [lu] the n*eps*|L||U|
   bound is also PROVED for the binary64 instance at the end of this file (Proofs/LUFloat.v).
   Vocabulary (Proofs/LU.v): [msum lo len f] = f lo + .. + f (lo+len-1);
   [mprod n A B i j] = sum_t A i t * B t j;  [unit_lower], [upper_tri];
   [is_perm_mat n P]: P i j = [j = s i] for a permutation s of 0..n-1;
   [left_null k A w]: w is a non-zero vector with w^T * (leading k x k block of A) = 0,
   i.e. that block is singular (its determinant, the leading minor of order k, is 0);
   [right_null k A x]: the same with (block) * x = 0. *)
From Coq Require Import ZArith List Arith Reals Lia.
From SV Require Import Base.Num Base.Outcome Base.Mat Model.LU Proofs.LU Proofs.PLU.
Import ListNotations.
Local Open Scope R_scope.

(* non-square input is rejected by both routines *)
Theorem c09_nonsquare : forall (h w : nat) (A : mat R), h <> w ->
  lu h w A = Err ENonSquareMatrix /\ plu h w A = Err ENonSquareMatrix.
Proof. exact Proofs.PLU.c09_nonsquare. Qed.
Check c09_nonsquare : forall (h w : nat) (A : mat R), h <> w ->
  lu h w A = Err ENonSquareMatrix /\ plu h w A = Err ENonSquareMatrix.
Print Assumptions c09_nonsquare.

(* PLU: shape of the factors and the pivoting guarantee |l_ij| <= 1 *)
Theorem c09_plu_shape : forall (n : nat) (A L U P : mat R), plu n n A = Ok (L, U, P) ->
  unit_lower n L /\ upper_tri n U /\ is_perm_mat n P /\
  (forall i j, (i < n)%nat -> (j < n)%nat -> Rabs (L i j) <= 1).
Proof. exact Proofs.PLU.c09_plu_shape. Qed.
Check c09_plu_shape : forall (n : nat) (A L U P : mat R), plu n n A = Ok (L, U, P) ->
  unit_lower n L /\ upper_tri n U /\ is_perm_mat n P /\
  (forall i j, (i < n)%nat -> (j < n)%nat -> Rabs (L i j) <= 1).
Print Assumptions c09_plu_shape.

(* PLU: L U = P A *)
Theorem c09_plu_reconstruct : forall (n : nat) (A L U P : mat R), plu n n A = Ok (L, U, P) ->
  forall i j, (i < n)%nat -> (j < n)%nat -> mprod n L U i j = mprod n P A i j.
Proof. exact Proofs.PLU.c09_plu_reconstruct. Qed.
Check c09_plu_reconstruct : forall (n : nat) (A L U P : mat R), plu n n A = Ok (L, U, P) ->
  forall i j, (i < n)%nat -> (j < n)%nat -> mprod n L U i j = mprod n P A i j.
Print Assumptions c09_plu_reconstruct.

(* PLU (after the repair d0c7441): every pivot of a returned U exceeds the threshold
   EPSILON * n * max|a_ij| (>= 0) in absolute value, in particular it is non-zero *)
Theorem c09_plu_pivots : forall (n : nat) (A L U P : mat R), plu n n A = Ok (L, U, P) ->
  forall i, (i < n)%nat ->
    0 <= plu_threshold n A /\ plu_threshold n A < Rabs (U i i) /\ U i i <> 0.
Proof. exact Proofs.PLU.c09_plu_pivots. Qed.
Check c09_plu_pivots : forall (n : nat) (A L U P : mat R), plu n n A = Ok (L, U, P) ->
  forall i, (i < n)%nat ->
    0 <= plu_threshold n A /\ plu_threshold n A < Rabs (U i i) /\ U i i <> 0.
Print Assumptions c09_plu_pivots.

(* PLU: a singular matrix (one with a non-trivial left null vector: zero row, repeated
   row, zero column, ...) is reported as SingularMatrix *)
Theorem c09_plu_singular : forall (n : nat) (A : mat R) (w : nat -> R),
  left_null n A w -> plu n n A = Err ESingularMatrix.
Proof. exact Proofs.PLU.c09_plu_singular. Qed.
Check c09_plu_singular : forall (n : nat) (A : mat R) (w : nat -> R),
  left_null n A w -> plu n n A = Err ESingularMatrix.
Print Assumptions c09_plu_singular.

(* ... and so is one with a non-trivial right null vector (zero column, repeated column, ...) *)
Theorem c09_plu_singular_right : forall (n : nat) (A : mat R) (x : nat -> R),
  right_null n A x -> plu n n A = Err ESingularMatrix.
Proof. exact Proofs.PLU.c09_plu_singular_right. Qed.
Check c09_plu_singular_right : forall (n : nat) (A : mat R) (x : nat -> R),
  right_null n A x -> plu n n A = Err ESingularMatrix.
Print Assumptions c09_plu_singular_right.

(* LU without pivoting (after the repair d464535): shape and L U = A *)
Theorem c09_lu_reconstruct : forall (n : nat) (A L U : mat R), lu n n A = Ok (L, U) ->
  unit_lower n L /\ upper_tri n U /\
  forall i j, (i < n)%nat -> (j < n)%nat -> mprod n L U i j = A i j.
Proof. exact Proofs.LU.c09_lu_reconstruct. Qed.
Check c09_lu_reconstruct : forall (n : nat) (A L U : mat R), lu n n A = Ok (L, U) ->
  unit_lower n L /\ upper_tri n U /\
  forall i j, (i < n)%nat -> (j < n)%nat -> mprod n L U i j = A i j.
Print Assumptions c09_lu_reconstruct.

(* LU: the outcome is SingularMatrix or a pair whose U has non-zero pivots except possibly
   the last one; never a panic, never a division by zero *)
Theorem c09_lu_pivots : forall (n : nat) (A : mat R),
  lu n n A = Err ESingularMatrix \/
  exists L U, lu n n A = Ok (L, U) /\ forall i, (S i < n)%nat -> U i i <> 0.
Proof. exact Proofs.LU.c09_lu_pivots. Qed.
Check c09_lu_pivots : forall (n : nat) (A : mat R),
  lu n n A = Err ESingularMatrix \/
  exists L U, lu n n A = Ok (L, U) /\ forall i, (S i < n)%nat -> U i i <> 0.
Print Assumptions c09_lu_pivots.

(* LU: a vanishing leading principal minor of order k, 0 < k < n, is refused *)
Theorem c09_lu_zero_minor : forall (n k : nat) (A : mat R) (w : nat -> R),
  (0 < k < n)%nat -> left_null k A w -> lu n n A = Err ESingularMatrix.
Proof. exact Proofs.LU.c09_lu_zero_minor. Qed.
Check c09_lu_zero_minor : forall (n k : nat) (A : mat R) (w : nat -> R),
  (0 < k < n)%nat -> left_null k A w -> lu n n A = Err ESingularMatrix.
Print Assumptions c09_lu_zero_minor.

Theorem c09_lu_zero_minor_right : forall (n k : nat) (A : mat R) (x : nat -> R),
  (0 < k < n)%nat -> right_null k A x -> lu n n A = Err ESingularMatrix.
Proof. exact Proofs.LU.c09_lu_zero_minor_right. Qed.
Check c09_lu_zero_minor_right : forall (n k : nat) (A : mat R) (x : nat -> R),
  (0 < k < n)%nat -> right_null k A x -> lu n n A = Err ESingularMatrix.
Print Assumptions c09_lu_zero_minor_right.

(* LU: ... and that is the only reason for a refusal: lu returns SingularMatrix exactly when
   some leading principal block of order < n is singular (otherwise it returns factors) *)
Theorem c09_lu_err_iff_minor : forall (n : nat) (A : mat R),
  lu n n A = Err ESingularMatrix <-> exists k w, (0 < k < n)%nat /\ left_null k A w.
Proof. exact Proofs.LU.c09_lu_err_iff_minor. Qed.
Check c09_lu_err_iff_minor : forall (n : nat) (A : mat R),
  lu n n A = Err ESingularMatrix <-> exists k w, (0 < k < n)%nat /\ left_null k A w.
Print Assumptions c09_lu_err_iff_minor.

(* non-vacuity: both routines succeed on concrete 2x2 inputs ([[0,1],[1,0]] forces a row
   interchange), and [[0,1],[1,0]] satisfies the hypotheses of c09_lu_zero_minor *)
Example c09_nonvacuous_plu : exists L U P, plu 2 2 ex_swap = Ok (L, U, P).
Proof. exact Proofs.PLU.ex_plu_ok. Qed.
Example c09_nonvacuous_lu : exists L U, lu 2 2 ex_lu = Ok (L, U).
Proof. exact Proofs.LU.ex_lu_ok. Qed.
Example c09_nonvacuous_zero_minor : (0 < 1 < 2)%nat /\ left_null 1 ex_swap (fun _ => 1).
Proof. split; [lia|exact Proofs.LU.ex_swap_left_null]. Qed.

(* ---------------------------------------------------------------------------------------------
   Floating point (binary64 instance [@lu float FNum], the function that is extracted and run
   against lu.rs): the rounding clause "L U equals A to within n*eps*|L||U|" as a theorem.
   Bridge: Flocq's [B2R (Prim2B x)]; eps = 2^-53; proofs in Proofs/LUFloat.v.
   [lu_entry_ok A L U i k] (stated on the RETURNED factors, checkable by computation): with
   m = min i k, A_ik is finite, every product L_ij * U_jk (j < m) is [okmul] (finite, exact value
   zero or >= 2^-1022 in magnitude), every partial sum of the inner product is finite, the
   subtraction A_ik - total is finite and, for k < i, the division by the pivot U_kk is [okdiv].
   --------------------------------------------------------------------------------------------- *)
From Coq Require Import Floats.
From Flocq Require Import Core BinarySingleNaN PrimFloat.
From SV Require Import Proofs.StatsFloat Proofs.PolyFloat Proofs.SubstFloat Proofs.LUFloat.

(* any Num instance (in particular the float one): the returned factors satisfy the Doolittle
   recurrences entry by entry in the arithmetic of the instance, and are n0 / n1 elsewhere *)
Theorem c09_lu_recurrences : forall (T : Type) (NT : Num T) (n : nat) (A L U : mat T),
  lu n n A = Ok (L, U) -> GInv n A n L U.
Proof. exact (@Proofs.LUFloat.lu_ok_GInv). Qed.
Check c09_lu_recurrences : forall (T : Type) (NT : Num T) (n : nat) (A L U : mat T),
  lu n n A = Ok (L, U) -> GInv n A n L U.
Print Assumptions c09_lu_recurrences.

(* componentwise backward error |L U - A| <= ((1+eps)^n - 1) |L| |U|; all entries of L, U finite *)
Theorem c09_lu_float_backward_error : forall (n : nat) (A L U : mat PrimFloat.float),
  lu n n A = Ok (L, U) ->
  (forall i k, (i < n)%nat -> (k < n)%nat -> lu_entry_ok A L U i k) ->
  forall i k, (i < n)%nat -> (k < n)%nat ->
    is_finite (Prim2B (L i k)) = true /\ is_finite (Prim2B (U i k)) = true /\
    Rabs (mprod n (fun r c => B2R (Prim2B (L r c))) (fun r c => B2R (Prim2B (U r c))) i k
          - B2R (Prim2B (A i k)))
    <= ((1 + bpow radix2 (-53)) ^ n - 1)
       * mprod n (fun r c => Rabs (B2R (Prim2B (L r c)))) (fun r c => Rabs (B2R (Prim2B (U r c)))) i k.
Proof. exact Proofs.LUFloat.lu_float_backward_error. Qed.
Check c09_lu_float_backward_error : forall (n : nat) (A L U : mat PrimFloat.float),
  lu n n A = Ok (L, U) ->
  (forall i k, (i < n)%nat -> (k < n)%nat -> lu_entry_ok A L U i k) ->
  forall i k, (i < n)%nat -> (k < n)%nat ->
    is_finite (Prim2B (L i k)) = true /\ is_finite (Prim2B (U i k)) = true /\
    Rabs (mprod n (fun r c => B2R (Prim2B (L r c))) (fun r c => B2R (Prim2B (U r c))) i k
          - B2R (Prim2B (A i k)))
    <= ((1 + bpow radix2 (-53)) ^ n - 1)
       * mprod n (fun r c => Rabs (B2R (Prim2B (L r c)))) (fun r c => Rabs (B2R (Prim2B (U r c)))) i k.
Print Assumptions c09_lu_float_backward_error.

(* non-vacuity, by computation: [[2,1,1],[4,3,3],[8,7,9]] is factored and its factors meet every
   hypothesis of c09_lu_float_backward_error *)
Example c09_nonvacuous_lu_float : exists L U,
  lu 3 3 (mat_of_lists [[0x1p+1; 0x1p+0; 0x1p+0]; [0x1p+2; 0x1.8p+1; 0x1.8p+1]; [0x1p+3; 0x1.cp+2; 0x1.2p+3]]%float)
    = Ok (L, U) /\
  forall i k, (i < 3)%nat -> (k < 3)%nat ->
    lu_entry_ok (mat_of_lists [[0x1p+1; 0x1p+0; 0x1p+0]; [0x1p+2; 0x1.8p+1; 0x1.8p+1]; [0x1p+3; 0x1.cp+2; 0x1.2p+3]]%float)
                L U i k.
Proof. exact Proofs.LUFloat.ex_lu_float_hyps. Qed.

(* ---------------------------------------------------------------------------------------------
   The same for the PIVOTED factorisation [plu] (binary64 instance [@plu float FNum], the function
   behind decompose(pivot=true) and the inverse); proofs in Proofs/PLUFloat.v.
   [chain a l u m]: r_0 = a, r_(t+1) = r_t - l_t * u_t in the arithmetic of the instance — the value the
   right-looking elimination leaves in a trailing entry after m updates.
   [plu_entry_ok PA L U i k] (on the RETURNED factors and the row-permuted input PA i k = A (s i) k,
   checkable by computation): with m = min i k, every product L_it * U_tk (t < m) is [okmul], every
   link r_t (t <= m) of the chain from PA_ik is finite and, for k < i, the division r_m / U_kk is [okdiv].
   --------------------------------------------------------------------------------------------- *)
From SV Require Import Proofs.PLUFloat.

(* any Num instance: P is the matrix of a permutation s of 0..n-1 (P r c = [c = s r], the description
   used by c09_plu_shape / c09_plu_reconstruct) and the returned factors satisfy, entry by entry in the
   arithmetic of the instance, the chain recurrences from the rows of A permuted by s *)
Theorem c09_plu_recurrences : forall (T : Type) (NT : Num T) (n : nat) (A L U P : mat T),
  plu n n A = Ok (L, U, P) ->
  exists s, perm_on n s /\
    (forall r c, (r < n)%nat -> (c < n)%nat -> P r c = if (c =? s r)%nat then n1 else n0) /\
    PFinal n A s L U.
Proof. exact (@Proofs.PLUFloat.plu_ok_final). Qed.
Check c09_plu_recurrences : forall (T : Type) (NT : Num T) (n : nat) (A L U P : mat T),
  plu n n A = Ok (L, U, P) ->
  exists s, perm_on n s /\
    (forall r c, (r < n)%nat -> (c < n)%nat -> P r c = if (c =? s r)%nat then n1 else n0) /\
    PFinal n A s L U.
Print Assumptions c09_plu_recurrences.

(* componentwise backward error |L U - P A| <= ((1+eps)^n - 1) |L| |U| where (P A) i k = A (s i) k for
   the row permutation s encoded by P; all entries of L, U finite *)
Theorem c09_plu_float_backward_error : forall (n : nat) (A L U P : mat PrimFloat.float) (s : nat -> nat),
  plu n n A = Ok (L, U, P) ->
  (forall i j, (i < n)%nat -> (j < n)%nat ->
     P i j = if (j =? s i)%nat then PrimFloat.one else PrimFloat.zero) ->
  (forall i k, (i < n)%nat -> (k < n)%nat -> plu_entry_ok (fun r c => A (s r) c) L U i k) ->
  forall i k, (i < n)%nat -> (k < n)%nat ->
    is_finite (Prim2B (L i k)) = true /\ is_finite (Prim2B (U i k)) = true /\
    Rabs (mprod n (fun r c => B2R (Prim2B (L r c))) (fun r c => B2R (Prim2B (U r c))) i k
          - B2R (Prim2B (A (s i) k)))
    <= ((1 + bpow radix2 (-53)) ^ n - 1)
       * mprod n (fun r c => Rabs (B2R (Prim2B (L r c)))) (fun r c => Rabs (B2R (Prim2B (U r c)))) i k.
Proof. exact Proofs.PLUFloat.plu_float_backward_error. Qed.
Check c09_plu_float_backward_error : forall (n : nat) (A L U P : mat PrimFloat.float) (s : nat -> nat),
  plu n n A = Ok (L, U, P) ->
  (forall i j, (i < n)%nat -> (j < n)%nat ->
     P i j = if (j =? s i)%nat then PrimFloat.one else PrimFloat.zero) ->
  (forall i k, (i < n)%nat -> (k < n)%nat -> plu_entry_ok (fun r c => A (s r) c) L U i k) ->
  forall i k, (i < n)%nat -> (k < n)%nat ->
    is_finite (Prim2B (L i k)) = true /\ is_finite (Prim2B (U i k)) = true /\
    Rabs (mprod n (fun r c => B2R (Prim2B (L r c))) (fun r c => B2R (Prim2B (U r c))) i k
          - B2R (Prim2B (A (s i) k)))
    <= ((1 + bpow radix2 (-53)) ^ n - 1)
       * mprod n (fun r c => Rabs (B2R (Prim2B (L r c)))) (fun r c => Rabs (B2R (Prim2B (U r c)))) i k.
Print Assumptions c09_plu_float_backward_error.

(* non-vacuity, by computation: [[1,2,3],[4,5,6],[7,8,10]] needs two row interchanges (P A = rows 2, 0, 1
   of A), its multipliers 1/7, 4/7, 1/2 are inexact, and its factors meet every hypothesis of
   c09_plu_float_backward_error *)
Example c09_nonvacuous_plu_float : exists L U P,
  plu 3 3 (mat_of_lists [[0x1p+0; 0x1p+1; 0x1.8p+1]; [0x1p+2; 0x1.4p+2; 0x1.8p+2]; [0x1.cp+2; 0x1p+3; 0x1.4p+3]]%float)
    = Ok (L, U, P) /\
  (forall i j, (i < 3)%nat -> (j < 3)%nat ->
     P i j = if (j =? match i with 0 => 2 | 1 => 0 | _ => 1 end)%nat then PrimFloat.one else PrimFloat.zero) /\
  forall i k, (i < 3)%nat -> (k < 3)%nat ->
    plu_entry_ok
      (fun r c => mat_of_lists [[0x1p+0; 0x1p+1; 0x1.8p+1]; [0x1p+2; 0x1.4p+2; 0x1.8p+2]; [0x1.cp+2; 0x1p+3; 0x1.4p+3]]%float
                    (match r with 0 => 2 | 1 => 0 | _ => 1 end)%nat c)
      L U i k.
Proof. exact Proofs.PLUFloat.ex_plu_float_hyps. Qed.

(* ---------------------------------------------------------------------------------------------
   The pivoting guarantee |l_ij| <= 1 of c09_plu_shape at the FLOAT level (binary64 instance);
   proofs in Proofs/PLUFloatMult.v.
   The pivot search replaces its running maximum when [ngtb value max] (max < value, strict: the first
   row wins ties; a NaN value is never selected unless it is the initial entry m_ii, and then it is never
   replaced).  [mult_origin x]: x = ndiv a b for some a, b with [ngtb (nabs a) (nabs b) = false], i.e.
   the pivot comparison did not find |a| greater than |b|.
   No hypothesis on the input is needed: every entry of L that is not NaN is finite and at most 1 in
   absolute value.  An entry of L can be NaN (NaN in the input, or 0/0 when the threshold is NaN because
   an input entry is infinite) and nothing is claimed about such an entry.
   --------------------------------------------------------------------------------------------- *)
From SV Require Import Proofs.PLUFloatMult.

(* any Num instance whose comparison satisfies the two facts used by the search (x > x is false; x > v
   false and v' > v imply x > v' false — both hold for binary64, NaN and infinities included, and for R):
   every returned multiplier is a quotient whose numerator was not found greater than its denominator;
   later row interchanges permute the stored multipliers without changing them *)
Theorem c09_plu_multiplier_origin : forall (T : Type) (NT : Num T),
  (forall x : T, ngtb x x = false) ->
  (forall x v v' : T, ngtb x v = false -> ngtb v' v = true -> ngtb x v' = false) ->
  forall (n : nat) (A L U P : mat T), plu n n A = Ok (L, U, P) ->
  forall r c, (r < n)%nat -> (c < n)%nat -> (c < r)%nat -> mult_origin (L r c).
Proof. exact (@Proofs.PLUFloatMult.plu_multiplier_origin). Qed.
Check c09_plu_multiplier_origin : forall (T : Type) (NT : Num T),
  (forall x : T, ngtb x x = false) ->
  (forall x v v' : T, ngtb x v = false -> ngtb v' v = true -> ngtb x v' = false) ->
  forall (n : nat) (A L U P : mat T), plu n n A = Ok (L, U, P) ->
  forall r c, (r < n)%nat -> (c < n)%nat -> (c < r)%nat -> mult_origin (L r c).
Print Assumptions c09_plu_multiplier_origin.

(* the division lemma: NOT (|b| < |a|) in the float comparison and a quotient that is not NaN *)
Theorem c09_fdiv_abs_le_one : forall a b : PrimFloat.float,
  PrimFloat.ltb (PrimFloat.abs b) (PrimFloat.abs a) = false ->
  is_nan (Prim2B (PrimFloat.div a b)) = false ->
  is_finite (Prim2B (PrimFloat.div a b)) = true /\ Rabs (B2R (Prim2B (PrimFloat.div a b))) <= 1.
Proof. exact Proofs.PLUFloatMult.fdiv_abs_le_one. Qed.
Check c09_fdiv_abs_le_one : forall a b : PrimFloat.float,
  PrimFloat.ltb (PrimFloat.abs b) (PrimFloat.abs a) = false ->
  is_nan (Prim2B (PrimFloat.div a b)) = false ->
  is_finite (Prim2B (PrimFloat.div a b)) = true /\ Rabs (B2R (Prim2B (PrimFloat.div a b))) <= 1.
Print Assumptions c09_fdiv_abs_le_one.

(* every entry of L that is not NaN is finite and |L_ij| <= 1 *)
Theorem c09_plu_float_multipliers_le_one : forall (n : nat) (A L U P : mat PrimFloat.float),
  plu n n A = Ok (L, U, P) ->
  forall i j, (i < n)%nat -> (j < n)%nat ->
    is_nan (Prim2B (L i j)) = false ->
    is_finite (Prim2B (L i j)) = true /\ Rabs (B2R (Prim2B (L i j))) <= 1.
Proof. exact Proofs.PLUFloatMult.plu_float_multipliers_le_one. Qed.
Check c09_plu_float_multipliers_le_one : forall (n : nat) (A L U P : mat PrimFloat.float),
  plu n n A = Ok (L, U, P) ->
  forall i j, (i < n)%nat -> (j < n)%nat ->
    is_nan (Prim2B (L i j)) = false ->
    is_finite (Prim2B (L i j)) = true /\ Rabs (B2R (Prim2B (L i j))) <= 1.
Print Assumptions c09_plu_float_multipliers_le_one.

(* the real reading alone (B2R maps NaN and the infinities to 0, so this says nothing about them) *)
Theorem c09_plu_float_multipliers_B2R_le_one : forall (n : nat) (A L U P : mat PrimFloat.float),
  plu n n A = Ok (L, U, P) ->
  forall i j, (i < n)%nat -> (j < n)%nat -> Rabs (B2R (Prim2B (L i j))) <= 1.
Proof. exact Proofs.PLUFloatMult.plu_float_multipliers_B2R_le_one. Qed.
Check c09_plu_float_multipliers_B2R_le_one : forall (n : nat) (A L U P : mat PrimFloat.float),
  plu n n A = Ok (L, U, P) ->
  forall i j, (i < n)%nat -> (j < n)%nat -> Rabs (B2R (Prim2B (L i j))) <= 1.
Print Assumptions c09_plu_float_multipliers_B2R_le_one.

(* non-vacuity, by computation: [[1,2,3],[4,5,6],[7,8,10]] is factored (two interchanges, inexact
   multipliers 1/7, 4/7, 1/2) and no entry of L is NaN, so c09_plu_float_multipliers_le_one speaks about
   all nine entries *)
Example c09_nonvacuous_plu_float_multipliers : exists L U P,
  plu 3 3 (mat_of_lists [[0x1p+0; 0x1p+1; 0x1.8p+1]; [0x1p+2; 0x1.4p+2; 0x1.8p+2]; [0x1.cp+2; 0x1p+3; 0x1.4p+3]]%float)
    = Ok (L, U, P) /\
  forall i j, (i < 3)%nat -> (j < 3)%nat -> is_nan (Prim2B (L i j)) = false.
Proof. exact Proofs.PLUFloatMult.ex_plu_float_mult_hyps. Qed.
