(* Model/Parse.v — the two string parsers, transcribed step by step from
     spindalis_core/src/polynomials/simple.rs        (parse_simple_polynomial)
     spindalis_core/src/polynomials/intermediate.rs  (parse_intermediate_polynomial)
   as of the repaired tree (fix commits fad4ad4, 41cbeb6, 820a0e7, 1b17d58, fa94a59).
   Strings are lists of scalar values (Base/Str.v).  Definitions only. *)
From Coq Require Import ZArith NArith List Bool.
From SV Require Import Base.Num Base.Outcome Base.Str Model.Poly Gen.Consts.
Import ListNotations.

(* pub const MAX_POWER in simple.rs, re-read on every run (Gen/Consts.v); [Eval compute] keeps the body a literal *)
Definition MAX_POWER : Z := Eval compute in Gen.Consts.max_power.

Section Parse.
  Context {T : Type} {NT : Num T}.
  Variable U : UClass.

  (* f64::is_finite, written with class operations only: x - x is 0 exactly for finite x
     (inf - inf and NaN - NaN are NaN).  Always true in R and Z. *)
  Definition is_finite (x : T) : bool := neqb (nsub x x) n0.
  (* a numeral beyond the range of f64 is rejected instead of becoming infinity (fa94a59) *)
  Definition parse_dec_finite (s : str) : option T :=
    match parse_dec s with
    | Some v => if is_finite v then Some v else None
    | None => None
    end.

  (* input.replace(char::is_whitespace, "").replace("-", "+-") *)
  Definition minus_to_plusminus (s : str) : str :=
    flat_map (fun c => if N.eqb c c_minus then [c_plus; c_minus] else [c]) s.

  (* parts.first() == Some(&"") => remove; any part empty or "-" => syntax error *)
  Definition drop_leading_empty (ps : list str) : list str :=
    match ps with
    | [] :: ps' => ps'
    | _ => ps
    end.
  Definition bad_part (p : str) : bool :=
    match p with
    | [] => true
    | [c] => N.eqb c c_minus
    | _ => false
    end.

  (* ------------------------------------------------------------------ simple *)
  (* one part -> (coefficient, power) *)
  Definition simple_term (var : option N) (part : str) : res (T * nat) :=
    let constant :=
      match parse_dec_finite part with
      | Some c => Ok (c, O)
      | None => Err EInvalidConstant
      end in
    match var with
    | None => constant
    | Some v =>
      match find_char v part with
      | None => constant
      | Some x =>
        let coeff_str := firstn x part in
        let coeff : res T :=
          match coeff_str with
          | [] => Ok n1
          | [c] => if N.eqb c c_plus then Ok n1
                   else if N.eqb c c_minus then Ok (nneg n1)
                   else match parse_dec_finite coeff_str with Some c => Ok c | None => Err EInvalidCoefficient end
          | _ => match parse_dec_finite coeff_str with Some c => Ok c | None => Err EInvalidCoefficient end
          end in
        match coeff with
        | Ok c =>
          let rest := skipn (S x) part in
          match rest with
          | [] => Ok (c, 1%nat)
          | r :: pow_str =>
            if N.eqb r c_caret then
              match parse_nat_text pow_str with
              | Some p => if (p <=? MAX_POWER)%Z then Ok (c, Z.to_nat p) else Err EInvalidExponent
              | None => Err EInvalidExponent
              end
            else Err EUnexpectedChar
          end
        | Err e => Err e
        | Panic w => Panic w
        end
      end
    end.

  (* let mut coeffs = vec![0.0; max_power + 1]; for (c,p) in terms { coeffs[p] += c } *)
  Fixpoint add_at (cs : list T) (p : nat) (c : T) : list T :=
    match cs, p with
    | [], _ => []                                   (* unreachable: p <= max_power *)
    | x :: cs', O => nadd x c :: cs'
    | x :: cs', S p' => x :: add_at cs' p' c
    end.
  Definition max_power_of (terms : list (T * nat)) : nat :=
    fold_left (fun m t => Nat.max m (snd t)) terms O.
  Definition dense_coeffs (terms : list (T * nat)) : list T :=
    fold_left (fun cs t => add_at cs (snd t) (fst t)) terms (repeat n0 (S (max_power_of terms))).
  (* the two places where the Rust code can panic: `max_power + 1` (usize overflow)
     and `vec![0.0; n]` (capacity overflow above isize::MAX bytes).  Both are kept
     in the model so that "never panics" is a theorem that needs the exponent cap. *)
  (* `coeffs[power] += coeff; if !coeffs[power].is_finite() { return Err(..) }` : every partial
     sum written into the vector must be finite (fa94a59) *)
  Definition sums_finite (terms : list (T * nat)) : bool :=
    snd (fold_left (fun (st : list T * bool) t =>
                      let cs' := add_at (fst st) (snd t) (fst t) in
                      (cs', snd st && is_finite (nth (snd t) cs' n0)))
                   terms (repeat n0 (S (max_power_of terms)), true)).
  Definition dense_coeffs_checked (terms : list (T * nat)) : res (list T) :=
    let m := Z.of_nat (max_power_of terms) in
    if (2 ^ 64 <=? m + 1)%Z then Panic WOverflow
    else if (2 ^ 63 - 1 <? (m + 1) * 8)%Z then Panic WAlloc
    else if sums_finite terms then Ok (dense_coeffs terms)
    else Err EInvalidCoefficient.

  Definition parse_simple (input : str) : res (spoly T) :=
    let normalized := minus_to_plusminus (strip_ws input) in
    let parts := drop_leading_empty (split_on c_plus normalized) in
    if existsb bad_part parts then Err EPolynomialSyntaxError
    else
      let variable := find_pred (u_alphabetic U) normalized in
      match mapM (simple_term variable) parts with
      | Ok terms =>
          match dense_coeffs_checked terms with
          | Ok cs => Ok {| s_coefs := cs; s_var := variable |}
          | Err e => Err e
          | Panic w => Panic w
          end
      | Err e => Err e
      | Panic w => Panic w
      end.

  (* ------------------------------------------------------------ intermediate *)
  (* .replace("^-","^@").replace("-","+-").replace("^@","^-") on text without '@':
     a '-' directly after '^' is kept, every other '-' becomes "+-" *)
  Fixpoint protect_minus (prev_caret : bool) (s : str) : str :=
    match s with
    | [] => []
    | c :: s' =>
        if N.eqb c c_minus then
          (if prev_caret then [c_minus] else [c_plus; c_minus]) ++ protect_minus false s'
        else c :: protect_minus (N.eqb c c_caret) s'
    end.

  (* coefficient scan: while ch.is_numeric() || '.' || (coeff.is_empty() && '-') || '/' *)
  Fixpoint scan_coeff (first : bool) (s : str) : str * str :=
    match s with
    | [] => ([], [])
    | c :: s' =>
        if u_numeric U c || N.eqb c c_dot || (first && N.eqb c c_minus) || N.eqb c c_slash
        then let (a, b) := scan_coeff false s' in (c :: a, b)
        else ([], s)
    end.

  (* "a/b" with exactly one '/', both sides decimals, b != 0 *)
  Definition parse_fraction (s : str) : option T :=
    match split_on c_slash s with
    | [a; b] =>
        match parse_dec a, parse_dec b with
        | Some x, Some y => if nneb y n0 && is_finite y && is_finite (ndiv x y) then Some (ndiv x y) else None
        | _, _ => None
        end
    | _ => None
    end.

  Definition inter_coeff (cs : str) : res T :=
    match cs with
    | [] => Ok n1
    | _ =>
      if str_eqb cs [c_minus] then Ok (nneg n1)
      else if contains_char c_slash cs then
        match parse_fraction cs with Some v => Ok v | None => Err EInvalidFraction end
      else
        match parse_dec_finite cs with Some v => Ok v | None => Err EInvalidCoefficient end
    end.

  (* exponent scan: ASCII digits and SPECIAL_CHARS = ['.', '/', '-'] *)
  Fixpoint scan_pow (s : str) : str * str :=
    match s with
    | [] => ([], [])
    | c :: s' =>
        if is_ascii_digit c || N.eqb c c_dot || N.eqb c c_slash || N.eqb c c_minus
        then let (a, b) := scan_pow s' in (c :: a, b)
        else ([], s)
    end.
  Definition inter_pow (ps : str) : res T :=
    if contains_char c_slash ps then
      match parse_fraction ps with Some v => Ok v | None => Err EInvalidFractionalExponent end
    else
      match parse_dec_finite ps with Some v => Ok v | None => Err EInvalidExponent end.

  (* variables of one term; fuel = length of the remaining text (each step consumes >= 1 char) *)
  Fixpoint scan_vars (fuel : nat) (s : str) (acc : list (name * T)) : res (list (name * T)) :=
    match fuel with
    | O => Ok (rev acc)
    | S fuel' =>
      match s with
      | [] => Ok (rev acc)
      | ch :: s' =>
        if is_ascii_letter ch then
          match s' with
          | c2 :: s'' =>
            if N.eqb c2 c_caret then
              let (ps, rest) := scan_pow s'' in
              match inter_pow ps with
              | Ok p => scan_vars fuel' rest (([ch], p) :: acc)
              | Err e => Err e
              | Panic w => Panic w
              end
            else scan_vars fuel' s' (([ch], n1) :: acc)
          | [] => Ok (rev (([ch], n1) :: acc))
          end
        else Err EUnexpectedChar
      end
    end.

  (* merge equal adjacent names of the sorted list, adding exponents (820a0e7) *)
  Fixpoint merge_vars (l : list (name * T)) (acc : list (name * T)) : list (name * T) :=
    match l with
    | [] => rev acc
    | (v, p) :: l' =>
        match acc with
        | (w, q) :: acc' => if name_eqb w v then merge_vars l' ((w, nadd q p) :: acc')
                            else merge_vars l' ((v, p) :: acc)
        | [] => merge_vars l' [(v, p)]
        end
    end.

  Definition inter_term (part : str) : res (term T) :=
    let (cs, rest) := scan_coeff true part in
    match inter_coeff cs with
    | Ok c =>
      match scan_vars (length rest) rest [] with
      | Ok vs =>
          let merged := merge_vars (sort_vars vs) [] in
          (* exponents of a repeated variable that add up beyond the range of f64 (fa94a59) *)
          if forallb (fun vp => is_finite (snd vp)) merged
          then Ok {| t_coef := c; t_vars := merged |}
          else Err EInvalidExponent
      | Err e => Err e
      | Panic w => Panic w
      end
    | Err e => Err e
    | Panic w => Panic w
    end.

  Definition parse_inter (input : str) : res (ipoly T) :=
    if contains_char c_at input then Err EUnexpectedChar
    else
      let normalized := protect_minus false (strip_ws input) in
      let parts := drop_leading_empty (split_on c_plus normalized) in
      if existsb bad_part parts then Err EPolynomialSyntaxError
      else
        match mapM inter_term parts with
        | Ok ts => Ok {| i_terms := ts; i_vars := var_set ts |}
        | Err e => Err e
        | Panic w => Panic w
        end.
End Parse.
