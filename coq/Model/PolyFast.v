(* Model/PolyFast.v — the dense derivative / integral of Model/Poly.v with the power index
   carried as a binary integer instead of a unary nat.  Same functions (Proofs/PolyLemmasFast.v
   proves the equality for every Num instance); the extracted float instance of Poly.v spends
   O(i) in Z.of_nat for the i-th coefficient, which is quadratic at degree 65535 = MAX_POWER.
   Used by the drivers ocaml/c03.ml, c04.ml only for coefficient vectors longer than 2000.
   Definitions only; polymorphic in [Num T]. *)
From Coq Require Import ZArith NArith List Bool.
From SV Require Import Base.Num Base.Outcome Model.Poly.
Import ListNotations.

Section PolyFast.
  Context {T : Type} {NT : Num T}.

  Fixpoint deriv_coefs_fromZ (z : Z) (cs : list T) : list T :=
    match cs with
    | [] => []
    | c :: cs' => nmul c (nofZ z) :: deriv_coefs_fromZ (Z.succ z) cs'
    end.
  Definition simple_derivative_fast (p : spoly T) : spoly T :=
    {| s_coefs := match s_coefs p with [] => [] | _ :: cs => deriv_coefs_fromZ 1 cs end;
       s_var := s_var p |}.

  Fixpoint integ_coefs_fromZ (z : Z) (cs : list T) : list T :=
    match cs with
    | [] => []
    | c :: cs' => ndiv c (nadd (nofZ z) n1) :: integ_coefs_fromZ (Z.succ z) cs'
    end.
  Definition simple_integral_fast (p : spoly T) : spoly T :=
    {| s_coefs := n0 :: integ_coefs_fromZ 0 (s_coefs p); s_var := s_var p |}.

  Definition s_derivate_univariate_fast (p : spoly T) : res (spoly T) := Ok (simple_derivative_fast p).
  Definition s_integral_univariate_fast (p : spoly T) : res (spoly T) := Ok (simple_integral_fast p).
  Definition s_derivate_multivariate_fast (p : spoly T) (v : name) : spoly T :=
    if first_char_is v (s_var p) then simple_derivative_fast p else p.
  Definition s_integral_multivariate_fast (p : spoly T) (v : name) : spoly T :=
    if first_char_is v (s_var p) then simple_integral_fast p else p.
End PolyFast.
