(* Model/Solvers.v — transcription of
     spindalis/src/solvers/bisection.rs   (bisection,             as of 8dfb6bc)
     spindalis/src/solvers/nrm.rs         (newton_raphson_method, as of 8dfb6bc)
   Definitions only; polymorphic in [Num T].

   Both Rust functions are `loop { body; if exit { break }; ... }` with an
   iteration cap.  The body is one Gallina function ([bis_body], [nr_body]) from
   the loop state (a record of the Rust locals) to the new state and the value of
   the exit test; the loop is structural recursion on a fuel that starts at the
   cap.  Running out of fuel is [Panic WFuel]; Proofs/Bisect.v and Proofs/Newton.v
   show that this never happens (iter + fuel = cap is invariant and the exit test
   contains `iter >= itermax`), which is the statement "never an endless loop".

   The target is abstract: [f : T -> res T] is `polynomial.eval_univariate` of the
   polynomial selected by the mode (for Newton also [f'], the evaluation of
   `polynomial_dx`), so a `FunctionError` of the polynomial type propagates as
   the inner error kind.  The thin wrappers at the end instantiate the targets
   from Model/Poly.v for both polynomial types and both modes. *)
From Coq Require Import ZArith NArith List Bool Arith.
From SV Require Import Base.Num Base.Outcome Model.Poly Gen.Consts.
Import ListNotations.
Local Open Scope res_scope.

Section Solvers.
  Context {T : Type} {NT : Num T}.

  Definition c100 : T := nofZ 100.                     (* 100.0 / 100_f64 *)
  (* the literal of `poss_sol.abs() < 1e-4`, re-read from the source on every run (Gen/Consts.v) *)
  Definition gate : T := nofdec (fst bisection_residual_gate) (snd bisection_residual_gate).
  (* f64::is_finite: x - x is 0 for a finite x and NaN for an infinity or a NaN *)
  Definition nfinite (x : T) : bool := neqb (nsub x x) n0.

  (* ------------------------------ bisection ------------------------------- *)
  Record bounds := { b_lower : T; b_init : T; b_upper : T }.

  (* approx_err: [None] is f64::INFINITY (assigned when the new x_curr is 0, as of 8dfb6bc);
     `approx_err.abs() < error_tol` is false for it whatever the tolerance (inf and NaN included) *)
  Definition err_small (e : option T) (tol : T) : bool :=
    match e with Some v => nltb (nabs v) tol | None => false end.

  (* the Rust locals; [bs_exact] is the per-iteration flag `exact` *)
  Record bstate := { bs_iter : nat; bs_lower : T; bs_upper : T; bs_x : T; bs_err : option T; bs_exact : bool }.

  (* x_curr.is_nan() || x_curr < lower_bound || x_curr > upper_bound   (is_nan: x != x; repair 5439521) *)
  Definition init_out (b : bounds) : bool :=
    nneb (b_init b) (b_init b) || nltb (b_init b) (b_lower b) || nltb (b_upper b) (b_init b).

  (* one loop body up to and including the exit test (before `iter += 1`) *)
  Definition bis_body (f : T -> res T) (tol : T) (itermax : nat) (s : bstate) : res (bstate * bool) :=
    let old := bs_x s in
    let x := ndiv (nadd (bs_lower s) (bs_upper s)) ntwo in
    (* division by the signed x_curr; INFINITY when the midpoint is 0 *)
    let err := if nneb x n0 then Some (nmul (ndiv (nabs (nsub x old)) x) c100) else None in
    let* vl := f (bs_lower s) in
    let* vm := f x in
    let test := nmul vl vm in
    let s' :=
      if nltb test n0 then
        {| bs_iter := bs_iter s; bs_lower := bs_lower s; bs_upper := x; bs_x := x; bs_err := err; bs_exact := false |}
      else if nltb n0 test then
        {| bs_iter := bs_iter s; bs_lower := x; bs_upper := bs_upper s; bs_x := x; bs_err := err; bs_exact := false |}
      else
        {| bs_iter := bs_iter s; bs_lower := bs_lower s; bs_upper := bs_upper s;
           bs_x := if neqb vl n0 then bs_lower s else x; bs_err := Some n0; bs_exact := true |} in
    (* exact || (iter > 0 && approx_err.abs() < error_tol) || iter >= itermax *)
    Ok (s', bs_exact s' || (Nat.ltb 0 (bs_iter s) && err_small (bs_err s') tol) || Nat.leb itermax (bs_iter s)).

  Definition bs_next (s : bstate) : bstate :=          (* iter += 1 *)
    {| bs_iter := S (bs_iter s); bs_lower := bs_lower s; bs_upper := bs_upper s;
       bs_x := bs_x s; bs_err := bs_err s; bs_exact := bs_exact s |}.

  Fixpoint bis_loop (f : T -> res T) (tol : T) (itermax : nat) (fuel : nat) (s : bstate) : res bstate :=
    match bis_body f tol itermax s with
    | Ok (s', brk) =>
        if brk then Ok s'
        else match fuel with
             | O => Panic WFuel
             | S k => bis_loop f tol itermax k (bs_next s')
             end
    | Err e => Err e
    | Panic w => Panic w
    end.

  Definition bis_start (b : bounds) : bstate :=
    {| bs_iter := 0; bs_lower := b_lower b; bs_upper := b_upper b; bs_x := b_init b;
       bs_err := Some c100; bs_exact := false |}.

  (* the loop, the cap test and the residual gate *)
  Definition bisect_run (f : T -> res T) (b : bounds) (tol : T) (itermax : nat) : res T :=
    let* s := bis_loop f tol itermax itermax (bis_start b) in
    if Nat.leb itermax (bs_iter s) then Err EMaxIterationsReached
    else
      let* v := f (bs_x s) in
      if nltb (nabs v) gate then Ok (bs_x s) else Err ENoConvergence.

  Definition bisection (f : T -> res T) (b : bounds) (tol : T) (itermax : nat) : res T :=
    if init_out b then Err EXInitOutOfBounds else bisect_run f b tol itermax.

  (* --------------------------- Newton-Raphson ----------------------------- *)
  Record nstate := { ns_iter : nat; ns_x : T; ns_old : T; ns_err : option T }.

  Definition nr_body (f f' : T -> res T) (tol : T) (itermax : nat) (s : nstate) : res (nstate * bool) :=
    let old := ns_x s in
    let* v := f old in
    let* d := f' old in
    let x := nsub old (ndiv v d) in
    let it := S (ns_iter s) in
    let err1 := if nneb x n0 then Some (nmul (ndiv (nabs (nsub x old)) x) c100) else None in
    (* x_curr.is_finite() && polynomial.eval_univariate(x_curr)? == 0.0   (short circuit) *)
    let* err2 := (if nfinite x then
                    (let* vx := f x in Ok (if neqb vx n0 then Some n0 else err1))
                  else Ok err1) in
    Ok ({| ns_iter := it; ns_x := x; ns_old := old; ns_err := err2 |},
        err_small err2 tol || Nat.leb itermax it).

  Fixpoint nr_loop (f f' : T -> res T) (tol : T) (itermax : nat) (fuel : nat) (s : nstate) : res nstate :=
    match nr_body f f' tol itermax s with
    | Ok (s', brk) =>
        if brk then Ok s'
        else match fuel with
             | O => Panic WFuel
             | S k => nr_loop f f' tol itermax k s'
             end
    | Err e => Err e
    | Panic w => Panic w
    end.

  Definition nr_start (x0 : T) : nstate := {| ns_iter := 0; ns_x := x0; ns_old := x0; ns_err := Some c100 |}.

  (* argument order of the Rust function: x_init, itermax, error_tol *)
  Definition nrm (f f' : T -> res T) (x0 : T) (itermax : nat) (tol : T) : res T :=
    let* s := nr_loop f f' tol itermax itermax (nr_start x0) in
    if Nat.leb itermax (ns_iter s) then Err EMaxIterationsReached else Ok (ns_x s).

  (* ------------------- instantiation by a polynomial type ----------------- *)
  Section Generic.
    Context {P : Type} (evalu : P -> T -> res T) (deriv : P -> res P).

    (* match mode { Root => polynomial, Extrema => &polynomial.derivate_univariate()? } *)
    Definition target (p : P) (extrema : bool) : res P := if extrema then deriv p else Ok p.

    (* the range check on init comes before the derivative is taken *)
    Definition bisection_poly (p : P) (b : bounds) (tol : T) (itermax : nat) (extrema : bool) : res T :=
      if init_out b then Err EXInitOutOfBounds
      else let* q := target p extrema in bisect_run (evalu q) b tol itermax.

    Definition nrm_poly (p : P) (x0 : T) (itermax : nat) (tol : T) (extrema : bool) : res T :=
      let* q := target p extrema in
      let* dq := deriv q in
      nrm (evalu q) (evalu dq) x0 itermax tol.
  End Generic.

  Definition s_bisection := bisection_poly (@s_eval_univariate T NT) (@s_derivate_univariate T NT).
  Definition i_bisection := bisection_poly (@i_eval_univariate T NT) (@i_derivate_univariate T NT).
  Definition s_nrm := nrm_poly (@s_eval_univariate T NT) (@s_derivate_univariate T NT).
  Definition i_nrm := nrm_poly (@i_eval_univariate T NT) (@i_derivate_univariate T NT).
End Solvers.

Arguments bounds T : clear implicits.
Arguments bstate T : clear implicits.
Arguments nstate T : clear implicits.
