(* Model/Definite.v — spindalis_core/src/integrals/univariate_definite.rs:
   analytical_integral only.

     let integrated_polynomial = poly.indefinite_integral_univariate()?;
     let fa = integrated_polynomial.eval_univariate(a)?;
     let fb = integrated_polynomial.eval_univariate(b)?;
     Ok(fb - fa)

   generic over PolynomialTraits; instantiated for both polynomial types.  A
   PolynomialError e becomes IntegralError::FunctionError(e): the model keeps
   the inner kind.  Definitions only; polymorphic in [Num T]. *)
From Coq Require Import ZArith List.
From SV Require Import Base.Num Base.Outcome Model.Poly.
Import ListNotations.
Local Open Scope res_scope.

Section Definite.
  Context {T : Type} {NT : Num T}.

  Definition s_analytical_integral (p : spoly T) (a b : T) : res T :=
    let* F := s_integral_univariate p in
    let* fa := s_eval_univariate F a in
    let* fb := s_eval_univariate F b in
    Ok (nsub fb fa).

  Definition i_analytical_integral (p : ipoly T) (a b : T) : res T :=
    let* F := i_integral_univariate p in
    let* fa := i_eval_univariate F a in
    let* fb := i_eval_univariate F b in
    Ok (nsub fb fa).
End Definite.
