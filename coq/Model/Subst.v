(* Model/Subst.v — spindalis/src/utils/substitution.rs on functional matrices.
   The Rust routines index [size - 1] and so panic for size = 0 (usize
   underflow, then an out-of-range index); callers in the crate never pass 0.
   The model returns the solution vector; only indices below [size] matter. *)
From Coq Require Import ZArith List Arith.
From SV Require Import Base.Num Base.Outcome Base.Mat.
Import ListNotations.

Section Subst.
  Context {T : Type} {NT : Num T}.

  (* solution[size-1] = rhs[size-1] / a[size-1][size-1];
     for i in (0..size-1).rev() { sum = 0.0; for j in i+1..size { sum += a[i][j]*solution[j] }
                                  solution[i] = (rhs[i] - sum) / a[i][i] } *)
  Definition back_substitution (a : mat T) (size : nat) (rhs : vec T) (sol0 : vec T) : res (vec T) :=
    match size with
    | O => Panic WOverflow
    | S m =>
      let s1 := vset sol0 m (ndiv (rhs m) (a m m)) in
      Ok (for_range_rev 0 m
            (fun i sol =>
               let sum := sum_range n0 (S i) (size - S i) (fun j => nmul (a i j) (sol j)) in
               vset sol i (ndiv (nsub (rhs i) sum) (a i i)))
            s1)
    end.

  (* for i in 0..size { sum = 0.0; for j in 0..i { sum += a[i][j]*solution[j] }
                        solution[i] = (rhs[i] - sum) / a[i][i] } *)
  Definition forward_substitution (a : mat T) (size : nat) (rhs : vec T) (sol0 : vec T) : vec T :=
    for_range 0 size
      (fun i sol =>
         let sum := sum_range n0 0 i (fun j => nmul (a i j) (sol j)) in
         vset sol i (ndiv (nsub (rhs i) sum) (a i i)))
      sol0.
End Subst.
