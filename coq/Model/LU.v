(* Model/LU.v — spindalis/src/solvers/decomposition/lu.rs (Doolittle, no pivoting)
   and plu.rs (partial pivoting, after the repair d0c7441: pivot threshold EPSILON * n * max|a_ij|)
   on functional matrices.  Loops are [for_range]
   folds performing the same updates in the same order as the Rust code, so the
   float instance agrees with the implementation bit for bit.  Early [return Err]
   inside a loop is an accumulator of type [res]: once it is not [Ok] the
   remaining iterations pass it through unchanged. *)
From Coq Require Import ZArith List Arith Bool.
From SV Require Import Base.Num Base.Outcome Base.Mat.
Import ListNotations.

Section LU.
  Context {T : Type} {NT : Num T}.

  (* f64::EPSILON = 2^-52, written with class operations only (exact in both instances) *)
  Definition neps : T := ndiv n1 (npowi ntwo 52).

  (* ---- container layer: TryFrom<Vec<Vec<T>>> / TryFrom<&Vec<Vec<T>>> for Arr2D -------
     empty outer vector -> 0x0; width = len of the first row; a row of another
     length -> Arr2DError::InconsistentRowLengths, which `?` turns into
     SolverError::InvalidVector. *)
  Definition arr_of_rows (rows : list (list T)) : res (nat * nat * mat T) :=
    match rows with
    | [] => Ok (0, 0, mat_of_lists rows)
    | r0 :: _ =>
      let w := length r0 in
      if forallb (fun r => length r =? w) rows
      then Ok (length rows, w, mat_of_lists rows)
      else Err EInvalidVector
    end.

  (* ---- lu.rs ------------------------------------------------------------------------ *)
  (* for k in i..n { total = 0.0; for j in 0..i { total += lower[i][j]*upper[j][k] }
                     upper[i][k] = matrix[i][k] - total } *)
  Definition lu_upper_row (n i : nat) (a lo : mat T) (up : mat T) : mat T :=
    for_range i (n - i)
      (fun k up =>
         let total := sum_range n0 0 i (fun j => nmul (lo i j) (up j k)) in
         mset up i k (nsub (a i k) total))
      up.

  (* for k in i..n { if i == k { lower[i][i] = 1 } else {
         if upper[i][i] == 0.0 { return Err(SingularMatrix) }
         total = 0.0; for j in 0..i { total += lower[k][j]*upper[j][i] }
         lower[k][i] = (matrix[k][i] - total) / upper[i][i] } } *)
  Definition lu_lower_col (n i : nat) (a up : mat T) (lo : mat T) : res (mat T) :=
    for_range i (n - i)
      (fun k acc =>
         match acc with
         | Ok lo =>
           if k =? i then Ok (mset lo i i n1)
           else if neqb (up i i) n0 then Err ESingularMatrix
           else
             let total := sum_range n0 0 i (fun j => nmul (lo k j) (up j i)) in
             Ok (mset lo k i (ndiv (nsub (a k i) total) (up i i)))
         | e => e
         end)
      (Ok lo).

  Definition lu_step (n : nat) (a : mat T) (i : nat) (acc : res (mat T * mat T)) : res (mat T * mat T) :=
    match acc with
    | Ok (lo, up) =>
      let up1 := lu_upper_row n i a lo up in
      match lu_lower_col n i a up1 lo with
      | Ok lo1 => Ok (retab n n lo1, retab n n up1)
      | Err e => Err e
      | Panic w => Panic w
      end
    | e => e
    end.

  (* lu_decomposition on an h x w array: (lower, upper) *)
  Definition lu (h w : nat) (a : mat T) : res (mat T * mat T) :=
    if negb (h =? w) then Err ENonSquareMatrix
    else for_range 0 h (lu_step h a) (Ok (mconst n0, mconst n0)).

  Definition lu_rows (rows : list (list T)) : res (nat * (mat T * mat T)) :=
    match arr_of_rows rows with
    | Ok (h, w, a) => res_map (fun r => (h, r)) (lu h w a)
    | Err e => Err e
    | Panic x => Panic x
    end.

  (* ---- plu.rs ----------------------------------------------------------------------- *)
  (* pivot_row = i; max_value = |lu[i][i]|;
     for k in i+1..n { value = |lu[k][i]|; if value > max_value { max_value = value; pivot_row = k } } *)
  Definition plu_pivot_search (n i : nat) (m : mat T) : nat * T :=
    for_range (S i) (n - S i)
      (fun k (st : nat * T) =>
         let value := nabs (m k i) in
         if ngtb value (snd st) then (k, value) else st)
      (i, nabs (m i i)).

  (* for j in i+1..n { lu[k][j] -= lu[k][i] * lu[i][j] } *)
  Definition plu_row_update (n i k : nat) (m : mat T) : mat T :=
    for_range (S i) (n - S i)
      (fun j m => mset m k j (nsub (m k j) (nmul (m k i) (m i j))))
      m.

  (* for k in i+1..n { lu[k][i] /= lu[i][i]; <row update> } *)
  Definition plu_eliminate (n i : nat) (m : mat T) : mat T :=
    for_range (S i) (n - S i)
      (fun k m => plu_row_update n i k (mset m k i (ndiv (m k i) (m i i))))
      m.

  (* scale = 0.0; for row, col in 0..n { magnitude = |a[row][col]|; if magnitude > scale { scale = magnitude } } *)
  Definition plu_scale (n : nat) (a : mat T) : T :=
    for_range 0 n
      (fun row s =>
         for_range 0 n
           (fun col s => let magnitude := nabs (a row col) in if ngtb magnitude s then magnitude else s)
           s)
      n0.

  (* threshold = f64::EPSILON * size as f64 * scale   (left to right) *)
  Definition plu_threshold (n : nat) (a : mat T) : T :=
    nmul (nmul neps (nofnat n)) (plu_scale n a).

  (* one step; a pivot with |pivot| <= threshold is refused *)
  Definition plu_step (n : nat) (thr : T) (i : nat) (acc : res (mat T * mat T)) : res (mat T * mat T) :=
    match acc with
    | Ok (m, p) =>
      let pivot_row := fst (plu_pivot_search n i m) in
      let m1 := if pivot_row =? i then m else mswap_rows m pivot_row i in
      let p1 := if pivot_row =? i then p else mswap_rows p pivot_row i in
      if nleb (nabs (m1 i i)) thr then Err ESingularMatrix
      else Ok (retab n n (plu_eliminate n i m1), retab n n p1)
    | e => e
    end.

  (* the final split of the packed factors *)
  Definition plu_lower (m : mat T) : mat T :=
    fun i j => if i =? j then n1 else if j <? i then m i j else n0.
  Definition plu_upper (m : mat T) : mat T :=
    fun i j => if i <=? j then m i j else n0.

  (* lu_pivot_decomposition on an h x w array: (lower, upper, permutation) *)
  Definition plu (h w : nat) (a : mat T) : res (mat T * mat T * mat T) :=
    if negb (h =? w) then Err ENonSquareMatrix
    else
      match for_range 0 h (plu_step h (plu_threshold h a)) (Ok (a, midentity)) with
      | Ok (m, p) => Ok (retab h h (plu_lower m), retab h h (plu_upper m), p)
      | Err e => Err e
      | Panic x => Panic x
      end.

  Definition plu_rows (rows : list (list T)) : res (nat * (mat T * mat T * mat T)) :=
    match arr_of_rows rows with
    | Ok (h, w, a) => res_map (fun r => (h, r)) (plu h w a)
    | Err e => Err e
    | Panic x => Panic x
    end.
End LU.
