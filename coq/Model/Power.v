(* Model/Power.v — transcription of spindalis/src/solvers/eigen/power_method.rs
   (tree after repairs 5612f82 and 734f679) and of the Arr2D operations it uses
   (spindalis/src/utils/arr2D.rs: try_from, full, dot with its 1x1 scalar
   shortcut, Mul = dot().unwrap_or_default(), Div<f64>, transpose, max, min,
   as_scalar_unchecked).

   An [arr] carries its shape and the flat row-major buffer, exactly like
   Arr2D { inner, height, width }.  Shapes are computed, not assumed: a
   product of mismatching shapes yields the empty array (unwrap_or_default),
   [max] of an empty array is [None] and its [unwrap] is [Panic WUnwrap],
   [as_scalar_unchecked] of an empty buffer is [Panic WIndex].  "Never
   panics" is therefore a theorem about this model (Proofs/Power.v), not an
   artefact of the transcription.  Element reads use [nth] with a default; the
   default is never reached on well-formed arrays (length inner = height*width,
   lemma [shaped_*] in the proofs). *)
From Coq Require Import ZArith NArith List Bool Arith.
From SV Require Import Base.Num Base.Outcome Base.Mat Gen.Consts.
Import ListNotations.
Local Open Scope res_scope.

(* pub const MAX_ITERATIONS: usize = 100_000; *)
(* re-read from power_method.rs on every run (Gen/Consts.v); [Eval compute] keeps the body a literal *)
Definition MAX_ITERATIONS : N := Eval compute in Z.to_N Gen.Consts.power_max_iterations.

Section Power.
  Context {T : Type} {NT : Num T}.

  Record arr := mk_arr { ah : nat; aw : nat; ad : list T }.

  (* Arr2D::default() *)
  Definition aempty : arr := mk_arr 0 0 [].

  (* self[(i, j)] / self[i][j] : inner[i * width + j] *)
  Definition aget (a : arr) (i j : nat) : T := nth (i * aw a + j) (ad a) n0.

  (* a fresh h x w array filled entry by entry in row-major order *)
  Definition tabulate (h w : nat) (f : nat -> nat -> T) : arr :=
    mk_arr h w (concat (map (fun i => map (fun j => f i j) (seq 0 w)) (seq 0 h))).

  (* Arr2D::full *)
  Definition afull (v : T) (h w : nat) : arr := mk_arr h w (repeat v (h * w)).

  (* TryFrom<Vec<Vec<T>>> *)
  Definition try_from (rows : list (list T)) : res arr :=
    match rows with
    | [] => Ok (mk_arr 0 0 [])
    | r0 :: _ =>
      let w := length r0 in
      if forallb (fun r => length r =? w) rows
      then Ok (mk_arr (length rows) w (concat rows))
      else Err EInconsistentRowLengths
    end.

  Definition is1x1 (a : arr) : bool := (ah a =? 1) && (aw a =? 1).
  Definition is_empty (a : arr) : bool := (ah a =? 0) || (aw a =? 0).

  (* Arr2D::dot *)
  Definition adot (a b : arr) : res arr :=
    if is1x1 a || is1x1 b then
      let ms := if is1x1 a then (b, aget a 0 0) else (a, aget b 0 0) in
      let m := fst ms in let s := snd ms in
      Ok (tabulate (ah m) (aw m) (fun i j => nmul s (aget m i j)))
    else if negb (aw a =? ah b) then Err EInvalidDotShape
    else
      Ok (tabulate (ah a) (aw b)
            (fun i j => sum_range n0 0 (aw a) (fun k => nmul (aget a i k) (aget b k j)))).

  (* impl Mul: self.dot(rhs).unwrap_or_default() *)
  Definition amul (a b : arr) : arr :=
    match adot a b with Ok r => r | _ => aempty end.

  (* impl Div<T>: result[i][j] = self[i][j] / rhs *)
  Definition adivs (a : arr) (s : T) : arr :=
    tabulate (ah a) (aw a) (fun i j => ndiv (aget a i j) s).

  Definition atranspose (a : arr) : arr :=
    tabulate (aw a) (ah a) (fun c r => aget a r c).

  (* inner.iter().reduce(|a, b| if a > b { a } else { b }).unwrap() *)
  Definition reduce_max (x : T) (l : list T) : T :=
    fold_left (fun a b => if ngtb a b then a else b) l x.
  Definition reduce_min (x : T) (l : list T) : T :=
    fold_left (fun a b => if nltb a b then a else b) l x.

  Definition amax (a : arr) : res (option T) :=
    if is_empty a then Ok None
    else match ad a with
         | [] => Panic WUnwrap
         | x :: l => Ok (Some (reduce_max x l))
         end.
  Definition amin (a : arr) : res (option T) :=
    if is_empty a then Ok None
    else match ad a with
         | [] => Panic WUnwrap
         | x :: l => Ok (Some (reduce_min x l))
         end.

  Definition unwrap {A} (r : res (option A)) : res A :=
    let* o := r in match o with Some x => Ok x | None => Panic WUnwrap end.

  (* fn scaling_component *)
  Definition scaling_component (v : arr) : res T :=
    let* mx := unwrap (amax v) in
    if ngtb mx n0 then Ok mx else unwrap (amin v).

  (* as_scalar_unchecked: self.inner[0] *)
  Definition as_scalar_unchecked (a : arr) : res T :=
    match ad a with [] => Panic WIndex | x :: _ => Ok x end.

  (* fn rayleigh_quotient: x^T (A x) / x^T x, two 1 x 1 products *)
  Definition rayleigh_quotient (A v : arr) : res T :=
    let numerator := amul (atranspose v) (amul A v) in
    let denominator := amul (atranspose v) v in
    let* nu := as_scalar_unchecked numerator in
    let* de := as_scalar_unchecked denominator in
    Ok (ndiv nu de).

  (* before the loop: start vector of ones, first product, first scaling
     (used to normalise only), first eigenvalue estimate = Rayleigh quotient of
     the first normalised vector *)
  Definition pm_init (A : arr) : res (T * arr) :=
    let initial := afull n1 (ah A) 1 in
    let y := amul A initial in
    let* first_scaling := scaling_component y in
    let x := adivs y first_scaling in
    let* ev := rayleigh_quotient A x in
    Ok (ev, x).

  (* one loop body: (next_eigenvalue, normalised_eigenvector, ea) *)
  Definition pm_step (A : arr) (ev : T) (x : arr) : res (T * arr * T) :=
    let y := amul A x in
    let* nv := scaling_component y in
    let nx := adivs y nv in
    let* next := rayleigh_quotient A nx in
    let ea := nabs (ndiv (nsub next ev) next) in
    Ok (next, nx, ea).

  (* the loop: one unit of [fuel] per execution of the body; [iterations] is
     the Rust variable of that name.  The recursive call is a tail call. *)
  Fixpoint pm_loop (fuel : nat) (A : arr) (es ev : T) (x : arr) (iterations : N)
    : res (T * arr * N) :=
    match fuel with
    | O => Panic WFuel
    | S fuel' =>
      match pm_step A ev x with
      | Ok (next, nx, ea) =>
        if nltb ea es then Ok (next, nx, iterations)
        else
          let iterations' := N.succ iterations in
          if (MAX_ITERATIONS <=? iterations')%N then Err ENoConvergence
          else pm_loop fuel' A es next nx iterations'
      | Err e => Err e
      | Panic w => Panic w
      end
    end.

  (* the function with an explicit budget of loop-body executions; the third
     component of the answer is the value of [iterations] at the [break] *)
  Definition power_method_fuel (fuel : nat) (rows : list (list T)) (es : T)
    : res (T * arr * N) :=
    let* A := try_from rows in
    if negb (ah A =? aw A) || (ah A =? 0) || (aw A =? 0) then Err ENonSquareMatrix
    else
      let* s := pm_init A in
      pm_loop fuel A es (fst s) (snd s) 0%N.

  Definition power_method (rows : list (list T)) (es : T) : res (T * arr) :=
    res_map (fun r => (fst (fst r), snd (fst r)))
            (power_method_fuel (N.to_nat MAX_ITERATIONS) rows es).

  (* specification-level trace (not extracted): the pair (eigenvalue,
     eigenvector) after k executions of the loop body; k = 0 is the state
     before the loop, whose eigenvalue is the Rayleigh quotient of the first
     normalised vector *)
  Fixpoint pm_state (A : arr) (k : nat) : res (T * arr) :=
    match k with
    | O => pm_init A
    | S k' =>
      let* s := pm_state A k' in
      let* r := pm_step A (fst s) (snd s) in
      Ok (fst (fst r), snd (fst r))
    end.
End Power.

Arguments arr T : clear implicits.
