(* Model/Hessen.v — transcription of spindalis/src/reduction/matrix/hessenberg.rs
   (hessenberg_reduction), loop by loop, in the order the code performs its
   floating-point operations.  Matrices are functional (Base/Mat.v); the
   dimension is carried separately.  Definitions only. *)
From Coq Require Import ZArith List Bool Arith.
From SV Require Import Base.Num Base.Outcome Base.Mat.
Import ListNotations.

Section Hessen.
  Context {T : Type} {NT : Num T}.

  (* let mut x = 0.0; for i in k+1..n { x += h[(i,k)] * h[(i,k)] } *)
  Definition hh_sqnorm (n k : nat) (h : mat T) : T :=
    sum_range n0 (k + 1) (n - (k + 1)) (fun i => nmul (h i k) (h i k)).

  (* let sign = if h_first >= 0.0 { -1.0 } else { 1.0 }; *)
  Definition hh_sign (hf : T) : T := if ngeb hf n0 then nneg n1 else n1.

  (* let u1 = h_first - sign * norm_x; *)
  Definition hh_u1 (hf nx : T) : T := nsub hf (nmul (hh_sign hf) nx).

  (* v[0] = 1.0; for i in 1..v.len() { v[i] = h[(k+1+i, k)] / u1 } *)
  Definition hh_v (k : nat) (h : mat T) (u1 : T) : vec T :=
    fun i => if i =? 0 then n1 else ndiv (h (k + 1 + i) k) u1.

  (* let tau = -sign * u1 / norm_x;     parsed ((-sign) * u1) / norm_x *)
  Definition hh_tau (hf nx : T) : T := ndiv (nmul (nneg (hh_sign hf)) (hh_u1 hf nx)) nx.

  (* ---- left update: one column ------------------------------------------- *)
  (* let mut dot = 0.0; for i in 0..v.len() { dot += v[i] * h[(k+1+i, col)] } *)
  Definition hh_dot_col (k m : nat) (v : vec T) (h : mat T) (col : nat) : T :=
    sum_range n0 0 m (fun i => nmul (v i) (h (k + 1 + i) col)).
  (* for i in 0..v.len() { h[(k+1+i, col)] -= tau * v[i] * dot }   — (tau * v[i]) * dot *)
  Definition hh_upd_col (k m : nat) (tau : T) (v : vec T) (dot : T) (col : nat) (h : mat T) : mat T :=
    for_range 0 m
      (fun i a => mset a (k + 1 + i) col (nsub (a (k + 1 + i) col) (nmul (nmul tau (v i)) dot))) h.
  (* for col in k..n { dot ...; update ... } *)
  Definition hh_left (n k m : nat) (tau : T) (v : vec T) (h : mat T) : mat T :=
    for_range k (n - k)
      (fun col a => hh_upd_col k m tau v (hh_dot_col k m v a col) col a) h.

  (* ---- right update: one row (used for h and for q) ----------------------- *)
  (* let mut dot = 0.0; for j in 0..v.len() { dot += v[j] * a[(row, k+1+j)] } *)
  Definition hh_dot_row (k m : nat) (v : vec T) (a : mat T) (row : nat) : T :=
    sum_range n0 0 m (fun j => nmul (v j) (a row (k + 1 + j))).
  (* for j in 0..v.len() { a[(row, k+1+j)] -= tau * v[j] * dot } *)
  Definition hh_upd_row (k m : nat) (tau : T) (v : vec T) (dot : T) (row : nat) (a : mat T) : mat T :=
    for_range 0 m
      (fun j b => mset b row (k + 1 + j) (nsub (b row (k + 1 + j)) (nmul (nmul tau (v j)) dot))) a.
  (* for row in 0..n { dot ...; update ... } *)
  Definition hh_right (n k m : nat) (tau : T) (v : vec T) (a : mat T) : mat T :=
    for_range 0 n
      (fun row b => hh_upd_row k m tau v (hh_dot_row k m v b row) row b) a.

  (* ---- one iteration of `for k in 0..n-2` --------------------------------- *)
  (* [retab] is pointwise the identity below the dimension (retab_spec); it only
     keeps evaluation cheap. *)
  Definition hess_step (n k : nat) (hq : mat T * mat T) : mat T * mat T :=
    let h := fst hq in
    let q := snd hq in
    let nx := nsqrt (hh_sqnorm n k h) in
    if neqb nx n0 then hq                                   (* if norm_x == 0.0 { continue; } *)
    else
      let hf := h (k + 1) k in
      let u1 := hh_u1 hf nx in
      let m := n - (k + 1) in                               (* v.len() *)
      let v := hh_v k h u1 in
      let tau := hh_tau hf nx in
      let h1 := retab n n (hh_left n k m tau v h) in
      let h2 := retab n n (hh_right n k m tau v h1) in
      let q1 := retab n n (hh_right n k m tau v q) in
      (h2, q1).

  (* hessenberg_reduction(matrix): [hgt], [wid] = matrix.height, matrix.width *)
  Definition hessenberg_hw (hgt wid : nat) (A : mat T) : res (mat T * mat T) :=
    if negb (hgt =? wid) then Err ENonSquareMatrix
    else
      let n := hgt in
      if n <=? 2 then Ok (A, midentity)
      else Ok (for_range 0 (n - 2) (hess_step n) (A, midentity)).

  (* the square case *)
  Definition hessenberg (n : nat) (A : mat T) : res (mat T * mat T) := hessenberg_hw n n A.

  (* harness boundary: row lists in, row lists out *)
  Definition hessenberg_lists (hgt wid : nat) (rows : list (list T))
    : res (list (list T) * list (list T)) :=
    res_map (fun hq => (lists_of_mat hgt hgt (fst hq), lists_of_mat hgt hgt (snd hq)))
            (hessenberg_hw hgt wid (mat_of_lists rows)).
End Hessen.
