(* Model/Regress.v — spindalis/src/regressors/linear/{least_squares,polynomial,gradient_descent,mod}.rs.
   Every `iter().sum::<f64>()` is a left fold from [nsum0] (-0.0 for f64), `zip` truncates to the shorter
   list ([combine]), `powi` is [npowi]; the operations are in the order of the code so that the float
   instance reproduces the crate bit for bit.  None of the fits validates its input (lengths, emptiness):
   the arithmetic then yields NaN/inf exactly as the code does.  The only panic is the `unwrap` of
   `gaussian_elimination(&matrix, &rhs, 1e-5)` in PolynomialRegression::fit. *)
From Coq Require Import ZArith List Bool Arith.
From SV Require Import Base.Num Base.Outcome Base.Mat Model.Subst Model.Gauss Gen.Consts.
Import ListNotations.

Section Regress.
  Context {T : Type} {NT : Num T}.

  Record lmodel := mkmodel { coefs : list T; std_err : T; r2 : T }.

  (* iter().sum::<f64>() *)
  Definition lsum (l : list T) : T := fold_left nadd l nsum0.

  (* coefficients.iter().enumerate().map(|(pow, &c)| c * x.powi(pow as i32)).sum() *)
  Definition predict_coefs (cs : list T) (x : T) : T :=
    lsum (map (fun pc => nmul (snd pc) (npowi x (Z.of_nat (fst pc)))) (combine (seq 0 (length cs)) cs)).
  Definition predict (m : lmodel) (x : T) : T := predict_coefs (coefs m) x.

  (* the statistics block shared (textually) by the three fits:
     sq_total = Σ (y_i - y_mean)^2; sq_residual = Σ_zip(x,y) (y_i - pred x_i)^2;
     std_err = sqrt(sq_residual / (length - 2)); r2 = (sq_total - sq_residual) / sq_total *)
  Definition sq_total (y : list T) (y_mean : T) : T :=
    lsum (map (fun yi => npowi (nsub yi y_mean) 2) y).
  Definition sq_residual (pred : T -> T) (x y : list T) : T :=
    lsum (map (fun p => npowi (nsub (snd p) (pred (fst p))) 2) (combine x y)).
  Definition finish (cs : list T) (len : T) (pred : T -> T) (y_mean : T) (x y : list T) : lmodel :=
    let st := sq_total y y_mean in
    let sr := sq_residual pred x y in
    mkmodel cs (nsqrt (ndiv sr (nsub len (nofZ 2)))) (ndiv (nsub st sr) st).

  (* ---- LeastSquaresRegression::fit ---- *)
  Definition ls_fit (x y : list T) : lmodel :=
    let len := nofnat (length x) in
    let sumx := lsum x in
    let sumy := lsum y in
    let sumxy := lsum (map (fun p => nmul (fst p) (snd p)) (combine x y)) in
    let sumx2 := lsum (map (fun xi => npowi xi 2) x) in
    let x_mean := ndiv sumx len in
    let y_mean := ndiv sumy len in
    let slope := ndiv (nsub (nmul len sumxy) (nmul sumx sumy)) (nsub (nmul len sumx2) (nmul sumx sumx)) in
    let intercept := nsub y_mean (nmul slope x_mean) in
    finish [intercept; slope] len (fun xi => nadd intercept (nmul slope xi)) y_mean x y.

  (* ---- PolynomialRegression::fit ---- *)
  (* matrix[i][j] = matrix[j][i] = Σ x^(i+j)  (the same expression for both orders of the indices) *)
  Definition moment (x : list T) (k : nat) : T := lsum (map (fun xi => npowi xi (Z.of_nat k)) x).
  Definition moment_matrix (order : nat) (x : list T) : mat T :=
    retab (S order) (S order) (fun i j => moment x (i + j)).
  (* rhs[i] = Σ_zip(y,x) y_i * x_i^i *)
  Definition moment_rhs (order : nat) (x y : list T) : vec T :=
    vretab (S order) (fun i => lsum (map (fun p => nmul (fst p) (npowi (snd p) (Z.of_nat i))) (combine y x))).
  (* the literal 1e-5 in `gaussian_elimination(&matrix, &rhs, 1e-5)` *)
  (* the pivot tolerance literal passed to gaussian_elimination, re-read from polynomial.rs on every run *)
  Definition poly_tol : T := nofdec (fst poly_regression_pivot_tol) (snd poly_regression_pivot_tol).

  Definition poly_fit_tol (tol : T) (order : nat) (x y : list T) : res lmodel :=
    let n := S order in
    match ge n n (moment_matrix order x) n (moment_rhs order x y) tol with
    | Ok sol =>
      let cs := list_of_vec n sol in
      let len := nofnat (length y) in
      let y_mean := ndiv (lsum y) len in
      Ok (finish cs len (predict_coefs cs) y_mean x y)
    | Err _ => Panic WUnwrap                       (* .unwrap() *)
    | Panic w => Panic w
    end.
  Definition poly_fit (order : nat) (x y : list T) : res lmodel := poly_fit_tol poly_tol order x y.

  (* ---- GradientDescentRegression::fit ---- *)
  (* one pass of the loop body on (wy, wx) *)
  (* [len] is `y.len() as f64`, the same value in every pass *)
  Definition gd_step (alpha len : T) (x y : list T) (w : T * T) : T * T :=
    let wy := fst w in
    let wx := snd w in
    let y_pred := map (fun xi => nadd wy (nmul wx xi)) x in
    let gradient_wy := ndiv (lsum (map (fun p => nsub (fst p) (snd p)) (combine y_pred y))) len in
    let gradient_wx :=
      ndiv (lsum (map (fun q => nmul (nsub (fst (fst q)) (snd (fst q))) (snd q)) (combine (combine y_pred y) x))) len in
    let wx' := nsub wx (nmul alpha gradient_wx) in
    let wy' := nsub wy (nmul alpha gradient_wy) in
    (wy', wx').

  Definition gd_weights (steps : nat) (alpha : T) (x y : list T) : T * T :=
    let len := nofnat (length y) in
    let y_mean := ndiv (lsum y) len in
    for_range 0 steps (fun _ w => gd_step alpha len x y w) (y_mean, n0).

  Definition gd_fit (steps : nat) (alpha : T) (x y : list T) : lmodel :=
    let len := nofnat (length y) in
    let y_mean := ndiv (lsum y) len in
    let w := gd_weights steps alpha x y in
    finish [fst w; snd w] len (fun xi => nadd (fst w) (nmul (snd w) xi)) y_mean x y.
End Regress.

Arguments lmodel T : clear implicits.
