(* Model/Macro.v — the two function-like proc-macros of spindalis_macros/src/lib.rs:

     parse_simple_polynomial!(tokens)        parse_intermediate_polynomial!(tokens)

   Each is   emit ∘ parse ∘ to_string ∘ tokenize :
     * rustc tokenizes the invocation text and `TokenStream::to_string` prints the
       tokens again (re-spaced; text longer than ~80 columns is broken over lines):
       [tokenize_print], a parameter of the model (rustc internals);
     * the runtime parser (Model/Parse.v) runs on that text at compile time;
     * Err e  -> the expansion is `compile_error!("{e:?}")`;
       Ok p   -> the expansion is the token text of a struct literal whose float
                 fields are printed with `{:?}` and whose names are quoted verbatim;
                 rustc reads that text back: [reread], a parameter of the model
                 (None = the printed text is not a float literal: `inf`, `NaN`
                 are identifiers, the expansion does not resolve).
   Definitions only. *)
From Coq Require Import ZArith NArith List Bool Floats.
From SV Require Import Base.Num Base.Outcome Base.Str Model.Poly Model.Parse.
Import ListNotations.

(* what an invocation turns into *)
Inductive expansion (A : Type) :=
| XValue (a : A)              (* an expression that evaluates to [a] *)
| XCompileError (e : err)     (* compile_error!("<Debug of e>") at the invocation *)
| XUnresolved                 (* a struct literal naming `inf` / `NaN`: error E0425 at the invocation *)
| XMacroPanic (w : why).      (* the proc-macro itself panicked: also an error at the invocation *)
Arguments XValue {A} a.
Arguments XCompileError {A} e.
Arguments XUnresolved {A}.
Arguments XMacroPanic {A} w.

Definition is_value {A} (x : expansion A) : bool := match x with XValue _ => true | _ => false end.

Section Macro.
  Context {T : Type} {NT : Num T}.
  Variable U : UClass.
  Variable tokenize_print : str -> str.     (* TokenStream::to_string ∘ rustc's tokenizer *)
  Variable reread : T -> option T.          (* rustc's literal reader ∘ `{:?}` on f64 *)

  Fixpoint reread_list (l : list T) : option (list T) :=
    match l with
    | [] => Some []
    | x :: l' =>
        match reread x, reread_list l' with
        | Some y, Some ys => Some (y :: ys)
        | _, _ => None
        end
    end.

  (* "coefficients: vec![c0,c1,..], variable: Some('x')" — the char goes through `{:?}` of
     Option<char> and back, which is the identity on scalar values *)
  Definition emit_simple (p : spoly T) : expansion (spoly T) :=
    match reread_list (s_coefs p) with
    | Some cs => XValue {| s_coefs := cs; s_var := s_var p |}
    | None => XUnresolved
    end.

  (* ("x".to_string(), pow) — names are ASCII letters, quoted verbatim *)
  Fixpoint reread_vars (l : list (name * T)) : option (list (name * T)) :=
    match l with
    | [] => Some []
    | (v, p) :: l' =>
        match reread p, reread_vars l' with
        | Some q, Some qs => Some ((v, q) :: qs)
        | _, _ => None
        end
    end.
  Definition emit_term (t : term T) : option (term T) :=
    match reread (t_coef t), reread_vars (t_vars t) with
    | Some c, Some vs => Some {| t_coef := c; t_vars := vs |}
    | _, _ => None
    end.
  Fixpoint emit_terms (l : list (term T)) : option (list (term T)) :=
    match l with
    | [] => Some []
    | t :: l' =>
        match emit_term t, emit_terms l' with
        | Some u, Some us => Some (u :: us)
        | _, _ => None
        end
    end.
  Definition emit_inter (p : ipoly T) : expansion (ipoly T) :=
    match emit_terms (i_terms p) with
    | Some ts => XValue {| i_terms := ts; i_vars := i_vars p |}
    | None => XUnresolved
    end.

  Definition macro_simple (s : str) : expansion (spoly T) :=
    match parse_simple U (tokenize_print s) with
    | Ok p => emit_simple p
    | Err e => XCompileError e
    | Panic w => XMacroPanic w
    end.

  Definition macro_inter (s : str) : expansion (ipoly T) :=
    match parse_inter U (tokenize_print s) with
    | Ok p => emit_inter p
    | Err e => XCompileError e
    | Panic w => XMacroPanic w
    end.

  (* every float field of a value *)
  Definition floats_simple (p : spoly T) : list T := s_coefs p.
  Definition floats_term (t : term T) : list T := t_coef t :: map snd (t_vars t).
  Definition floats_inter (p : ipoly T) : list T := flat_map floats_term (i_terms p).
End Macro.

(* The float instance of [reread]: `{:?}` on f64 prints `inf` / `-inf` / `NaN` for the
   non-finite values (identifiers, not literals) and otherwise a shortest-round-trip decimal
   that rustc reads back to the same bits (assumption R2, measured).  Finiteness is the
   parsers' own test [is_finite] (Model/Parse.v: x - x == 0), at the float instance. *)
Definition float_finite (x : float) : Prop := @is_finite float FNum x = true.
Definition float_reread (x : float) : option float := if @is_finite float FNum x then Some x else None.
