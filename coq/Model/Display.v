(* Model/Display.v — the four printers, transcribed statement by statement from
     spindalis_core/src/polynomials/structs/simple.rs        (impl Display for SimplePolynomial)
     spindalis_core/src/polynomials/structs/intermediate.rs  (impl Display for IntermediatePolynomial)
     spindalis_core/src/polynomials/intermediate.rs          (impl Display for Term)
     spindalis/src/regressors/linear/mod.rs                  (LinearModel::to_polynomial_string)
   as of the repaired tree (fix commit 029f1e0: trailing zeros are trimmed only
   when the formatted number contains a '.').
   Strings are lists of scalar values (Base/Str.v).  Definitions only.

   Number formatting.  The printers are parametric in
     fmt_prec  p x : Rust's  format!("{:.p$}", x)   (fixed number of decimals)
     fmt_short x   : Rust's  format!("{}", x)       (shortest round-tripping text)
   For floats [float_fmt_prec] below is the exact implementation of the first
   (binary value scaled by 10^p, rounded half to even, in Z arithmetic); the
   second is NOT re-implemented: [float_fmt_short tab] looks the value up in a
   table supplied with every case by the Rust side. *)
From Coq Require Import ZArith NArith List Bool Floats.
From SV Require Import Base.Num Base.Outcome Base.Str Model.Poly.
Import ListNotations.

(* ---- generic string functions ------------------------------------------------ *)
Definition c_x : N := 120.                         (* 'x' *)
Definition sep_plus : str := [32; 43; 32]%N.       (* " + " *)
Definition sep_minus : str := [32; 45; 32]%N.      (* " - " *)

Fixpoint drop_while (f : N -> bool) (s : str) : str :=
  match s with
  | [] => []
  | c :: s' => if f c then drop_while f s' else s
  end.
(* s.trim_end_matches(c): every trailing occurrence is removed *)
Definition trim_end (c : N) (s : str) : str := rev (drop_while (N.eqb c) (rev s)).

(* `if formatted.contains('.') { formatted.trim_end_matches('0').trim_end_matches('.') } else { &formatted }` *)
Definition trim_num (s : str) : str :=
  if contains_char c_dot s then trim_end c_dot (trim_end c_zero s) else s.

Fixpoint is_prefix (p s : str) : bool :=
  match p, s with
  | [], _ => true
  | a :: p', b :: s' => N.eqb a b && is_prefix p' s'
  | _ :: _, [] => false
  end.
(* s.replace(pat, rep) for a non-empty pattern: leftmost, non-overlapping.
   [skip] = characters of a matched pattern still to be consumed *)
Fixpoint replace_go (pat rep : str) (skip : nat) (s : str) : str :=
  match s with
  | [] => []
  | c :: s' =>
      match skip with
      | S k => replace_go pat rep k s'
      | O => if is_prefix pat s then rep ++ replace_go pat rep (Nat.pred (length pat)) s'
             else c :: replace_go pat rep O s'
      end
  end.
Definition str_replace (pat rep s : str) : str := replace_go pat rep O s.

(* parts.join(sep) *)
Fixpoint join (sep : str) (ps : list str) : str :=
  match ps with
  | [] => []
  | [p] => p
  | p :: ps' => p ++ sep ++ join sep ps'
  end.

(* ---- integers in decimal: `{}` of a usize / of a big natural number ------------- *)
Definition digit_char (d : Z) : N := Z.to_N (d + 48).
Fixpoint Zdigits_fuel (fuel : nat) (n : Z) : str :=
  match fuel with
  | O => []                                                     (* unreachable: fuel > log2 n *)
  | S f => if (n <? 10)%Z then [digit_char n]
           else Zdigits_fuel f (n / 10)%Z ++ [digit_char (n mod 10)%Z]
  end.
Definition Zdigits (n : Z) : str := Zdigits_fuel (S (Z.to_nat (Z.log2 n))) n.
Definition nat_dec (n : nat) : str := Zdigits (Z.of_nat n).

(* the integer N >= 0 printed with the decimal point p places from the right,
   padded with leading zeros to at least one integral digit ("0.05", "12", "3.10") *)
Definition pad_zeros (k : nat) (s : str) : str := repeat c_zero (k - length s) ++ s.
Definition dec_point (p : nat) (n : Z) : str :=
  let ds := pad_zeros (S p) (Zdigits n) in
  let k := (length ds - p)%nat in
  match p with
  | O => ds
  | _ => firstn k ds ++ c_dot :: skipn k ds
  end.

(* ---- `{:.p}` of a binary64, exactly ------------------------------------------------ *)
(* num/den (den > 0) rounded to the nearest integer, ties to even *)
Definition round_half_even_div (num den : Z) : Z :=
  let q := (num / den)%Z in
  let r := (num mod den)%Z in
  match (2 * r ?= den)%Z with
  | Lt => q
  | Gt => (q + 1)%Z
  | Eq => if Z.even q then q else (q + 1)%Z
  end.
(* m * 2^e * 10^p rounded half to even *)
Definition scaled_round (m e : Z) (p : nat) : Z :=
  if (0 <=? e)%Z then (m * 2 ^ e * 10 ^ Z.of_nat p)%Z
  else round_half_even_div (m * 10 ^ Z.of_nat p) (2 ^ (- e)).

Definition sign_str (s : bool) : str := if s then [c_minus] else [].
Definition s_NaN : str := [78; 97; 78]%N.
Definition s_inf : str := [105; 110; 102]%N.

(* on the decoded value (sign, mantissa, exponent): no primitive float in sight *)
Definition sf_fmt_prec (p : nat) (f : spec_float) : str :=
  match f with
  | S754_nan => s_NaN
  | S754_infinity s => sign_str s ++ s_inf
  | S754_zero s => sign_str s ++ dec_point p 0
  | S754_finite s m e => sign_str s ++ dec_point p (scaled_round (Zpos m) e p)
  end.
Definition float_fmt_prec (p : nat) (x : float) : str := sf_fmt_prec p (Prim2SF x).

(* `{}` of a binary64: looked up (by bit pattern) in the table sent with the case *)
Definition sf_eqb (a b : spec_float) : bool :=
  match a, b with
  | S754_zero s, S754_zero t => Bool.eqb s t
  | S754_infinity s, S754_infinity t => Bool.eqb s t
  | S754_nan, S754_nan => true
  | S754_finite s m e, S754_finite t n f => Bool.eqb s t && Pos.eqb m n && Z.eqb e f
  | _, _ => false
  end.
Fixpoint float_fmt_short (tab : list (float * str)) (x : float) : str :=
  match tab with
  | [] => [63%N]                                                (* "?": value missing from the table *)
  | (y, s) :: tab' => if sf_eqb (Prim2SF x) (Prim2SF y) then s else float_fmt_short tab' x
  end.

(* ---- the printers -------------------------------------------------------------------- *)
Section Display.
  Context {T : Type} {NT : Num T}.
  Variable fmt_prec : nat -> T -> str.
  Variable fmt_short : T -> str.

  (* match f.precision() { Some(p) => trimmed format!("{:.*}", p, a), None => format!("{}", a) } *)
  Definition fmt_num (prec : option nat) (a : T) : str :=
    match prec with
    | Some p => trim_num (fmt_prec p a)
    | None => fmt_short a
    end.

  (* -------- SimplePolynomial: for (i, &coeff) in coefficients.iter().enumerate().rev() *)
  Definition simple_var_part (var : N) (i : nat) : str :=
    match i with
    | O => []
    | S O => [var]
    | _ => var :: c_caret :: nat_dec i
    end.
  (* loop body over the remaining (index, coefficient) pairs; returns the text and the final `first` *)
  Fixpoint simple_loop (prec : option nat) (var : N) (its : list (nat * T)) (first : bool) : str * bool :=
    match its with
    | [] => ([], first)
    | (i, coeff) :: rest =>
        if neqb coeff n0 then simple_loop prec var rest first              (* continue *)
        else
          let sep := if negb first && ngtb coeff n0 then sep_plus
                     else if nltb coeff n0 then sep_minus else [] in
          let abs_coeff := nabs coeff in
          let cs := if nneb abs_coeff n1 || Nat.eqb i 0 then fmt_num prec abs_coeff else [] in
          let (r, f) := simple_loop prec var rest false in
          (sep ++ cs ++ simple_var_part var i ++ r, f)
    end.
  Definition enumerate_rev (cs : list T) : list (nat * T) := rev (combine (seq 0 (length cs)) cs).
  Definition fmt_simple (prec : option nat) (p : spoly T) : str :=
    let var := match s_var p with Some v => v | None => c_x end in     (* self.variable.unwrap_or('x') *)
    let (s, first) := simple_loop prec var (enumerate_rev (s_coefs p)) true in
    if first then [c_zero] else s.

  (* -------- IntermediatePolynomial / Term: variables of one term *)
  Definition fmt_exp (prec : option nat) (e : T) : str :=
    match prec with
    | Some p => trim_num (c_caret :: fmt_prec p e)            (* format!("^{:.*}", p, exponent), trimmed *)
    | None => c_caret :: fmt_short e
    end.
  Fixpoint fmt_vars (prec : option nat) (vs : list (name * T)) : str :=
    match vs with
    | [] => []
    | (v, e) :: vs' => v ++ (if nneb e n1 then fmt_exp prec e else []) ++ fmt_vars prec vs'
    end.
  Definition has_vars (t : term T) : bool := match t_vars t with [] => false | _ => true end.

  Fixpoint inter_loop (prec : option nat) (first : bool) (ts : list (term T)) : str :=
    match ts with
    | [] => []
    | t :: ts' =>
        let c := t_coef t in
        let op := if first then (if nltb c n0 then [c_minus] else [])
                  else (if ngeb c n0 then sep_plus else sep_minus) in
        let abs_coeff := nabs c in
        let cs := if nneb abs_coeff n1 || negb (has_vars t) then fmt_num prec abs_coeff else [] in
        op ++ cs ++ fmt_vars prec (t_vars t) ++ inter_loop prec false ts'
    end.
  Definition fmt_inter (prec : option nat) (p : ipoly T) : str :=
    match i_terms p with
    | [] => [c_zero]
    | ts => inter_loop prec true ts
    end.

  (* Term: the coefficient is printed with its sign; no precision (Term ignores the formatter's) *)
  Definition fmt_term (t : term T) : str :=
    (if nneb (t_coef t) n1 || negb (has_vars t) then fmt_short (t_coef t) else [])
    ++ fmt_vars None (t_vars t).

  (* -------- LinearModel::to_polynomial_string *)
  Definition s_x : str := [c_x].
  Definition s_mx : str := [c_minus; c_x].
  Definition s_xpow (pow : nat) : str := c_x :: c_caret :: nat_dec pow.
  Definition model_term (pow : nat) (coef : T) : str :=
    match pow with
    | O => fmt_prec 5 coef
    | S O => if neqb coef n1 then s_x
             else if neqb coef (nneg n1) then s_mx
             else fmt_prec 5 coef ++ s_x
    | _ => if neqb coef n1 then s_xpow pow
           else if neqb coef (nneg n1) then c_minus :: s_xpow pow
           else fmt_prec 5 coef ++ s_xpow pow
    end.
  Fixpoint model_parts (pow : nat) (cs : list T) : list str :=
    match cs with
    | [] => []
    | c :: cs' => if neqb c n0 then model_parts (S pow) cs'
                  else model_term pow c :: model_parts (S pow) cs'
    end.
  Definition to_polynomial_string (coefs : list T) : str :=
    match model_parts 0 coefs with
    | [] => [c_zero]
    | parts => str_replace [c_plus; c_space; c_minus] [c_minus; c_space] (join sep_plus parts)
    end.
End Display.
