(* Model/Gauss.v — spindalis/src/solvers/gaussian_elim.rs (tree after commit 20730a8)
   on functional matrices.  Loops are folds that perform the same updates in the
   same order as the Rust code, so the float instance is bit-for-bit the code:

     gaussian_elimination(matrix, rhs, tolerance)
       try_into Arr2D<f64>           (ragged nested Vec -> Err InvalidVector : [ge_lists])
       height != width               -> Err NonSquareMatrix
       height != rhs.len()           -> Err NumArgumentsMismatch
       size == 0                     -> Err NonSquareMatrix
       scale_factor[i] = max_j |a_ij|  (starting from |a_i0|, strict >)
       scale_factor.contains(&0.0)   -> Err SingularMatrix
       forward_elimination           (partial_pivot, scaled tolerance test, update of columns k+1..)
       error_flag == -1              -> Err SingularMatrix
       back_substitution             -> Ok solution                                        *)
From Coq Require Import ZArith List Bool Arith.
From SV Require Import Base.Num Base.Outcome Base.Mat Model.Subst.
Import ListNotations.

Section Gauss.
  Context {T : Type} {NT : Num T}.

  (* scale_factor[i] = a[i][0].abs(); for j in 1..size { if a[i][j].abs() > scale_factor[i] { scale_factor[i] = a[i][j].abs() } } *)
  Definition scale_row (n : nat) (a : mat T) (i : nat) : T :=
    for_range 1 (n - 1)
      (fun j s => if ngtb (nabs (a i j)) s then nabs (a i j) else s)
      (nabs (a i 0)).

  Definition scale_vec (n : nat) (a : mat T) : vec T := vretab n (fun i => scale_row n a i).

  (* scale_factor.contains(&0.0) *)
  Definition has_zero (n : nat) (s : vec T) : bool :=
    existsb (fun i => neqb (s i) n0) (seq 0 n).

  (* partial_pivot: p = k; big = |a_kk / s_k|; for ii in k+1..size { temp = |a_iik / s_ii|; if temp > big { big = temp; p = ii } } *)
  Definition pivot_search (n : nat) (a : mat T) (s : vec T) (k : nat) : T * nat :=
    for_range (S k) (n - S k)
      (fun ii bp =>
         let temp := nabs (ndiv (a ii k) (s ii)) in
         if ngtb temp (fst bp) then (temp, ii) else bp)
      (nabs (ndiv (a k k) (s k)), k).

  Definition pivot_row (n : nat) (a : mat T) (s : vec T) (k : nat) : nat := snd (pivot_search n a s k).

  (* if p != k { swap rows of A; swap rhs entries; swap scale entries } *)
  Definition partial_pivot (n : nat) (a : mat T) (b s : vec T) (k : nat) : mat T * vec T * vec T :=
    let p := pivot_row n a s k in
    if p =? k then (a, b, s) else (mswap_rows a p k, vswap b p k, vswap s p k).

  (* factor = a[i][k] / a[k][k]; for j in k+1..size { a[i][j] -= factor * a[k][j] }; rhs[i] -= factor * rhs[k]
     — the entry a[i][k] itself is left as it is (stale), exactly as in the code *)
  Definition elim_row (n k i : nat) (ab : mat T * vec T) : mat T * vec T :=
    let a := fst ab in
    let b := snd ab in
    let factor := ndiv (a i k) (a k k) in
    let a' := for_range (S k) (n - S k)
                (fun j m => mset m i j (nsub (m i j) (nmul factor (m k j)))) a in
    (a', vset b i (nsub (b i) (nmul factor (b k)))).

  (* for i in k+1..size { ... } *)
  Definition elim_below (n k : nat) (a : mat T) (b : vec T) : mat T * vec T :=
    for_range (S k) (n - S k) (elim_row n k) (a, b).

  (* state of forward_elimination: matrix, rhs, scale, error_flag == -1 *)
  Record fstate := mkf { fa : mat T; fb : vec T; fs : vec T; fflag : bool }.

  (* one iteration of `for k in 0..size-1`; once flagged the function has returned *)
  Definition fe_step (n : nat) (tol : T) (k : nat) (st : fstate) : fstate :=
    if fflag st then st else
    let '(a1, b1, s1) := partial_pivot n (fa st) (fb st) (fs st) k in
    if nltb (nabs (ndiv (a1 k k) (s1 k))) tol then mkf a1 b1 s1 true
    else
      let ab := elim_below n k a1 b1 in
      mkf (retab n n (fst ab)) (vretab n (snd ab)) (vretab n s1) false.

  Definition forward_elimination (n : nat) (tol : T) (a : mat T) (b s : vec T) : fstate :=
    let st := for_range 0 (n - 1) (fe_step n tol) (mkf a b s false) in
    if fflag st then st
    else if nltb (nabs (ndiv (fa st (n - 1) (n - 1)) (fs st (n - 1)))) tol
         then mkf (fa st) (fb st) (fs st) true
         else st.

  (* [h] x [w] coefficient matrix, right-hand side of length [lb] *)
  Definition ge (h w : nat) (a : mat T) (lb : nat) (b : vec T) (tol : T) : res (vec T) :=
    if negb (h =? w) then Err ENonSquareMatrix
    else if negb (h =? lb) then Err ENumArgumentsMismatch
    else if h =? 0 then Err ENonSquareMatrix
    else
      let s := scale_vec h a in
      if has_zero h s then Err ESingularMatrix
      else
        let st := forward_elimination h tol a b s in
        if fflag st then Err ESingularMatrix
        else back_substitution (fa st) h (fb st) (vconst n0).

  (* the harness boundary: nested lists.  Arr2D::try_from(Vec<Vec<_>>): empty -> 0x0,
     otherwise width = len(row 0) and every row must have that length. *)
  Definition rows_width (rows : list (list T)) : nat :=
    match rows with [] => 0 | r :: _ => length r end.
  Definition rows_consistent (rows : list (list T)) : bool :=
    forallb (fun r => length r =? rows_width rows) rows.

  Definition ge_lists (rows : list (list T)) (rhs : list T) (tol : T) : res (list T) :=
    if negb (rows_consistent rows) then Err EInvalidVector
    else
      let h := length rows in
      res_map (list_of_vec h)
        (ge h (rows_width rows) (mat_of_lists rows) (length rhs) (vec_of_list rhs) tol).

  (* the exported substitution routines on lists (size = number of rows) *)
  Definition back_subst_lists (rows : list (list T)) (rhs : list T) : res (list T) :=
    let n := length rows in
    res_map (list_of_vec n) (back_substitution (mat_of_lists rows) n (vec_of_list rhs) (vconst n0)).
  Definition forward_subst_lists (rows : list (list T)) (rhs : list T) : list T :=
    let n := length rows in
    list_of_vec n (forward_substitution (mat_of_lists rows) n (vec_of_list rhs) (vconst n0)).
End Gauss.
