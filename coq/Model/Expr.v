(* Model/Expr.v — transcription of spindalis_core/src/polynomials/advanced.rs:
   token / operator / function / constant tables, the tree [expr], its Display,
   [lexer], BINDING_POW, [implied_mul] (implied_multiplication_pass), [parse_expr],
   [parser], [fold_operations].  Definitions only; polymorphic in the number type.

   Strings are lists of code points (Base/Str.v).  Loops and the recursion of
   parse_expr / fold_operations run on fuel; running out of fuel is the distinct
   outcome [Panic WFuel], and Proofs/Expr.v shows it never happens. *)
From Coq Require Import ZArith NArith List Bool Floats.
From SV Require Import Base.Num Base.Outcome Base.Str Gen.Consts.
Import ListNotations.
Local Open Scope res_scope.

(* ---- tables ------------------------------------------------------------------ *)
Inductive oper := OAdd | OSub | ODiv | OMul | OCDot | ORem | OCaret | OFac.
Inductive func := FSin | FCos | FTan | FCot | FLog | FLn.
Inductive cnst := KPi | KE | KTau | KPhi.

Definition oper_eqb (a b : oper) : bool :=
  match a, b with
  | OAdd, OAdd | OSub, OSub | ODiv, ODiv | OMul, OMul | OCDot, OCDot
  | ORem, ORem | OCaret, OCaret | OFac, OFac => true
  | _, _ => false
  end.

(* Operators::from_char *)
Definition oper_of_char (c : N) : option oper :=
  if (c =? 43)%N then Some OAdd else if (c =? 45)%N then Some OSub
  else if (c =? 47)%N then Some ODiv else if (c =? 42)%N then Some OMul
  else if (c =? 183)%N then Some OCDot                       (* '·' U+00B7 *)
  else if (c =? 37)%N then Some ORem else if (c =? 94)%N then Some OCaret
  else if (c =? 33)%N then Some OFac else None.

(* Display of the three tables *)
Definition oper_str (o : oper) : str :=
  match o with
  | OAdd => [43] | OSub => [45] | ODiv => [47] | OMul => [42] | OCDot => [183]
  | ORem => [37] | OCaret => [94] | OFac => [33]
  end%N.
Definition func_str (f : func) : str :=
  match f with
  | FSin => [115; 105; 110] | FCos => [99; 111; 115] | FTan => [116; 97; 110]
  | FCot => [99; 111; 116] | FLog => [108; 111; 103] | FLn => [108; 110]
  end%N.
Definition cnst_str (c : cnst) : str :=
  match c with KPi => [960] | KE => [101] | KTau => [964] | KPhi => [981] end%N.   (* π e τ ϕ *)

(* FromStr of Functions / Constants: match on s.to_lowercase() (the lexer only
   passes ASCII letters, for which to_lowercase is the ASCII map) *)
Definition to_lower (c : N) : N := if (65 <=? c)%N && (c <=? 90)%N then (c + 32)%N else c.
Definition func_of_str (s : str) : option func :=
  let l := map to_lower s in
  if str_eqb l (func_str FSin) then Some FSin else if str_eqb l (func_str FCos) then Some FCos
  else if str_eqb l (func_str FTan) then Some FTan else if str_eqb l (func_str FCot) then Some FCot
  else if str_eqb l (func_str FLog) then Some FLog else if str_eqb l (func_str FLn) then Some FLn
  else None.
Definition cnst_of_str (s : str) : option cnst :=
  let l := map to_lower s in
  if str_eqb l [112; 105]%N then Some KPi else if str_eqb l [101]%N then Some KE
  else if str_eqb l [116; 97; 117]%N then Some KTau else if str_eqb l [112; 104; 105]%N then Some KPhi
  else None.

(* BINDING_POW.get(op).unwrap_or(&0.0): the values are the f64 0..5 and are only
   compared and incremented by 1.0, so natural numbers are exact *)
Definition binding_pow (o : oper) : nat :=
  match o with
  | OSub | OAdd => 1 | OMul | ODiv => 2 | ORem => 3 | OCDot => 4 | OCaret => 5
  | OFac => 0                                   (* no entry *)
  end.
Definition BP_PREFIX_MINUS : nat := 2.          (* parse_expr(token_stream, min_bind_pow.max(2.0)) *)

(* the table above is the one of the source (regenerated into Gen/Consts.v as mantissa, 10^-1) *)
Example binding_pow_is_the_source_table :
  map (fun o => Z.of_nat (binding_pow o) * 10)%Z [OSub; OAdd; OMul; ODiv; ORem; OCDot; OCaret]
  = map fst [bp_sub; bp_add; bp_mul; bp_div; bp_rem; bp_cdot; bp_caret]
  /\ map snd [bp_sub; bp_add; bp_mul; bp_div; bp_rem; bp_cdot; bp_caret] = repeat (-1)%Z 7.
Proof. split; reflexivity. Qed.

Section Expr.
  Context {T : Type} {NT : Num T}.

  Inductive token :=
  | TNum (x : T) | TVar (v : str) | TOp (o : oper) | TFun (f : func) | TConst (c : cnst)
  | TLParen | TRParen.

  Inductive expr :=
  | ENum (x : T)
  | EVar (v : str)
  | EConst (c : cnst)
  | EFun (f : func) (inner : expr)
  | EPre (o : oper) (value : expr)             (* UnaryOpPrefix *)
  | EPost (o : oper) (value : expr)            (* UnaryOpPostfix *)
  | EBin (o : oper) (lhs rhs : expr) (paren : bool).

  (* ---- lexer ----------------------------------------------------------------- *)
  Fixpoint span (p : N -> bool) (s : str) : str * str :=
    match s with
    | c :: s' => if p c then let (a, b) := span p s' in (c :: a, b) else ([], s)
    | [] => ([], [])
    end.

  Definition is_num_char (c : N) : bool := is_ascii_digit c || (c =? c_dot)%N.

  (* a maximal run of ASCII letters *)
  Definition word_tokens (w : str) : list token :=
    match w with
    | [_] => match cnst_of_str w with Some k => [TConst k] | None => [TVar w] end
    | _ => match func_of_str w with
           | Some f => [TFun f]
           | None => match cnst_of_str w with
                     | Some k => [TConst k]
                     | None =>                  (* a letter that names a constant (e) is that constant *)
                       map (fun c => match cnst_of_str [c] with Some k => TConst k | None => TVar [c] end) w
                     end
           end
    end.

  Fixpoint lex_loop (fuel : nat) (s : str) : res (list token) :=
    match fuel with
    | O => Panic WFuel
    | S f =>
      match s with
      | [] => Ok []
      | ch :: rest =>
        if is_num_char ch then
          let (num, rest') := span is_num_char s in
          match parse_unsigned_dec num with           (* temp.parse::<f64>() *)
          | Some x => let* r := lex_loop f rest' in Ok (TNum x :: r)
          | None => Err EInvalidNumber
          end
        else if is_ascii_letter ch then
          let (w, rest') := span is_ascii_letter s in
          let* r := lex_loop f rest' in Ok (word_tokens w ++ r)
        else if (ch =? 960)%N then let* r := lex_loop f rest in Ok (TConst KPi :: r)      (* π *)
        else if (ch =? 964)%N then let* r := lex_loop f rest in Ok (TConst KTau :: r)     (* τ *)
        else if (ch =? 981)%N then let* r := lex_loop f rest in Ok (TConst KPhi :: r)     (* ϕ *)
        else if (ch =? 40)%N then let* r := lex_loop f rest in Ok (TLParen :: r)
        else if (ch =? 41)%N then let* r := lex_loop f rest in Ok (TRParen :: r)
        else match oper_of_char ch with
             | Some o => let* r := lex_loop f rest in Ok (TOp o :: r)
             | None => Err EUnexpectedChar
             end
      end
    end.

  (* input.replace(' ', "") removes U+0020 only *)
  Definition lexer (input : str) : res (list token) :=
    let s := filter (fun c => negb (c =? c_space)%N) input in
    lex_loop (S (length s)) s.

  (* ---- implied multiplication ------------------------------------------------- *)
  Definition starts_operand (t : token) (with_number : bool) : bool :=
    match t with
    | TVar _ | TFun _ | TConst _ | TLParen => true
    | TNum _ => with_number
    | _ => false
    end.
  Definition needs_cdot (a b : token) : bool :=
    match a with
    | TNum _ => starts_operand b false
    | TVar _ | TConst _ => starts_operand b true
    | _ => false
    end.
  (* the in-place insertion loop visits every original token once, looking at its
     original successor (an inserted CDot never triggers an insertion itself) *)
  Fixpoint implied_mul (ts : list token) : list token :=
    match ts with
    | [] => []
    | a :: r =>
      match r with
      | b :: _ => if needs_cdot a b then a :: TOp OCDot :: implied_mul r else a :: implied_mul r
      | [] => [a]
      end
    end.

  (* ---- parse_expr --------------------------------------------------------------- *)
  Definition set_paren (e : expr) : expr :=
    match e with EBin o l r _ => EBin o l r true | _ => e end.

  (* while matches!(peek, Some(Operator(Fac))) *)
  Fixpoint strip_fac (lft : expr) (ts : list token) : expr * list token :=
    match ts with
    | TOp OFac :: r => strip_fac (EPost OFac lft) r
    | _ => (lft, ts)
    end.

  (* the binary-operator loop; [rec] is parse_expr one level down *)
  Fixpoint bin_loop (rec : list token -> nat -> res (expr * list token)) (n : nat)
           (lft : expr) (ts : list token) (min_bp : nat) : res (expr * list token) :=
    match n with
    | O => Panic WFuel
    | S n' =>
      match ts with
      | TOp op :: r =>
        let c := binding_pow op in
        if (c <? min_bp)%nat then Ok (lft, ts)
        else
          let op' := if oper_eqb op OCDot then OMul else op in
          let* (rgt, r') := rec r (c + 1)%nat in
          bin_loop rec n' (EBin op' lft rgt false) r' min_bp
      | _ => Ok (lft, ts)
      end
    end.

  Fixpoint parse_expr (fuel : nat) (ts : list token) (min_bp : nat) : res (expr * list token) :=
    match fuel with
    | O => Panic WFuel
    | S f =>
      let* (lft, r) :=
        match ts with
        | TNum x :: r => Ok (ENum x, r)
        | TVar v :: r => Ok (EVar v, r)
        | TConst c :: r => Ok (EConst c, r)
        | TLParen :: r =>
          let* (e, r1) := parse_expr f r 0 in
          match r1 with                                         (* ensure(RParen) *)
          | TRParen :: r2 => Ok (set_paren e, r2)
          | _ :: _ => Err EUnexpectedToken
          | [] => Err EUnexpectedEndOfTokens
          end
        | TRParen :: _ => Err EUnexpectedToken
        | TFun fn :: r =>
          match r with
          | TLParen :: r' =>                                    (* the argument is the parenthesised group *)
            let* (inner, r1) := parse_expr f r' 0 in
            match r1 with                                       (* ensure(RParen) *)
            | TRParen :: r2 => Ok (EFun fn inner, r2)
            | _ :: _ => Err EUnexpectedToken
            | [] => Err EUnexpectedEndOfTokens
            end
          | _ :: _ => Err EUnexpectedToken
          | [] => Err EUnexpectedEndOfTokens
          end
        | TOp op :: r =>
          if oper_eqb op OSub
          then let* (v, r1) := parse_expr f r (Nat.max min_bp BP_PREFIX_MINUS) in Ok (EPre op v, r1)
          else Err EUnexpectedToken
        | [] => Err EPolynomialSyntaxError
        end in
      let (lft', r') := strip_fac lft r in
      bin_loop (parse_expr f) f lft' r' min_bp
    end.

  (* verif::parse_unfolded = parser without the final fold *)
  Definition parse_unfolded (ts : list token) : res expr :=
    let ts' := implied_mul ts in
    let* (e, r) := parse_expr (S (length ts')) ts' 0 in
    match r with
    | [] => Ok e
    | _ :: _ => Err EUnexpectedToken
    end.

  (* ---- fold_operations ---------------------------------------------------------- *)
  (* the patterns Expr::Number(0.) / Expr::Number(1.) compare with ==  (so -0.0 matches 0.) *)
  Definition is_num (c : T) (e : expr) : bool :=
    match e with ENum x => neqb x c | _ => false end.

  Definition is_number (e : expr) : bool := match e with ENum _ => true | _ => false end.
  (* keep_paren: the surviving operand inherits the parentheses of the folded operation *)
  Definition keep_paren (e : expr) (paren : bool) : expr :=
    match e with EBin o l r p => EBin o l r (if paren then true else p) | _ => e end.

  Fixpoint height (e : expr) : nat :=
    match e with
    | ENum _ | EVar _ | EConst _ => 0
    | EFun _ i => S (height i)
    | EPre _ v | EPost _ v => S (height v)
    | EBin _ l r _ => S (Nat.max (height l) (height r))
    end.

  (* fold_operations calls itself on the two operands and, in the rule 0 - r, once
     more on the already folded r; hence fuel *)
  Fixpoint fold_fuel (n : nat) (e : expr) : res expr :=
    match n with
    | O => Panic WFuel
    | S n' =>
      match e with
      | EBin op l r paren =>
        let* l' := fold_fuel n' l in
        let* r' := fold_fuel n' r in
        match op with
        | OMul =>
          if is_num n0 l' then Ok (ENum n0)
          else if is_num n0 r' then Ok (ENum n0)
          else Ok (EBin op l' r' paren)
        | OCaret =>
          if is_num n0 r' then Ok (ENum n1)
          else if is_num n0 l' && is_number r' then Ok (ENum n0)      (* 0^r only for a literal r *)
          else Ok (EBin op l' r' paren)
        | OAdd =>
          if is_num n0 l' then Ok (keep_paren r' paren)
          else if is_num n0 r' then Ok (keep_paren l' paren)
          else Ok (EBin op l' r' paren)
        | OSub =>
          if is_num n0 r' then Ok (keep_paren l' paren)
          else if is_num n0 l' then let* r'' := fold_fuel n' r' in Ok (EPre OSub r'')
          else Ok (EBin op l' r' paren)
        | ODiv =>
          if is_num n1 r' then Ok (keep_paren l' paren)
          else Ok (EBin op l' r' paren)
        | _ => Ok (EBin op l' r' paren)
        end
      | _ => Ok e
      end
    end.
  Definition fold_operations (e : expr) : res expr := fold_fuel (S (height e)) e.

  Definition parser (ts : list token) : res expr :=
    let* e := parse_unfolded ts in fold_operations e.

  (* ---- Display -------------------------------------------------------------------- *)
  Section Display.
    Variable fmt : T -> str.                     (* `{}` of f64 *)

    Definition wrap (paren : bool) (s : str) : str :=
      if paren then [40%N] ++ s ++ [41%N] else s.

    Definition JUXTAPOSITION_BIND_POW : nat := 4.
    Definition starts_num (s : str) : bool := match s with c :: _ => is_num_char c | [] => false end.

    (* Expr::render, with Expr::shorthand inlined: the text of e where parse_expr will read it back
       with minimum binding power min_bp *)
    Fixpoint render (e : expr) (min_bp : nat) : str :=
      match e with
      | ENum x => fmt x
      | EVar v => v
      | EConst c => cnst_str c
      | EFun f i => func_str f ++ [40%N] ++ render i 0 ++ [41%N]
      | EPre o v => oper_str o ++ render v (Nat.max min_bp 2)
      | EPost o v =>
        match v with
        | EPre _ _ | EBin _ _ _ false => [40%N] ++ render v 0 ++ [41%N] ++ oper_str o
        | _ => render v 0 ++ oper_str o
        end
      | EBin op l r paren =>
        let generic (_ : unit) : str * nat :=
          let bp := binding_pow op in
          let lft :=
            match l with
            | EPre _ _ => if (2 <? bp)%nat then [40%N] ++ render l 0 ++ [41%N] else render l bp
            | _ => render l bp
            end in
          (lft ++ [32%N] ++ oper_str op ++ [32%N] ++ render r (bp + 1), bp) in
        let '(text, bp) :=
          match op with
          | OMul =>
            match l, r with
            | ENum x, EVar v => (fmt x ++ v, JUXTAPOSITION_BIND_POW)
            | ENum x, EConst c => (fmt x ++ cnst_str c, JUXTAPOSITION_BIND_POW)
            | ENum x, EBin OCaret _ _ _ =>
              let power := render r (JUXTAPOSITION_BIND_POW + 1) in
              if starts_num power then generic tt else (fmt x ++ power, JUXTAPOSITION_BIND_POW)
            | EVar v, ENum x => (v ++ fmt x, JUXTAPOSITION_BIND_POW)
            | EConst c, ENum x => (cnst_str c ++ fmt x, JUXTAPOSITION_BIND_POW)
            | _, _ => generic tt
            end
          | OCaret =>
            match l, r with
            | EVar v, ENum x => (v ++ [94%N] ++ fmt x, binding_pow OCaret)
            | EConst c, ENum x => (cnst_str c ++ [94%N] ++ fmt x, binding_pow OCaret)
            | _, _ => generic tt
            end
          | _ => generic tt
          end in
        if paren || (bp <? min_bp)%nat then [40%N] ++ text ++ [41%N] else text
      end.

    Definition display (e : expr) : str := render e 0.

    (* lexer, parser (with fold) of a displayed text *)
    Definition reread (e : expr) : res expr :=
      let* ts := lexer (display e) in parser ts.
  End Display.
End Expr.

Arguments token T : clear implicits.
Arguments expr T : clear implicits.

(* ---- `{}` of an f64, for the executable instance -------------------------------
   Exact decimal expansion of the binary value without exponent, trailing zeros
   and a trailing '.' removed.  This equals Rust's shortest round-trip Display
   whenever the expansion has at most 15 significant digits (two different
   decimal strings of <= 15 digits never round to the same f64), which covers
   what the generators emit: integers below 2^53 and dyadic fractions such as
   0.5, 3.25, 0.125. *)
Fixpoint dec_digits (fuel : nat) (n : Z) (acc : str) : str :=
  match fuel with
  | O => acc
  | S f => if (n <? 10)%Z then Z.to_N (48 + n) :: acc
           else dec_digits f (n / 10)%Z (Z.to_N (48 + n mod 10) :: acc)
  end.
Definition dec_of_Z (n : Z) : str := dec_digits (S (Z.to_nat (Z.log2_up (n + 1)))) n [].

Fixpoint strip_trailing_zeros_rev (r : str) : str :=
  match r with
  | c :: r' => if (c =? 48)%N then strip_trailing_zeros_rev r' else r
  | [] => []
  end.

Definition fmt_float (x : float) : str :=
  match Prim2SF x with
  | S754_zero s => (if s then [45%N] else []) ++ [48%N]
  | S754_infinity s => (if s then [45%N] else []) ++ [105; 110; 102]%N
  | S754_nan => [78; 97; 78]%N
  | S754_finite s m e =>
    (if s then [45%N] else []) ++
    (if (0 <=? e)%Z then dec_of_Z (Zpos m * 2 ^ e)
     else
       let k := (- e)%Z in
       let ip := (Zpos m / 2 ^ k)%Z in
       let fp := ((Zpos m mod 2 ^ k) * 5 ^ k)%Z in           (* k decimal digits *)
       let fd := dec_of_Z fp in
       let pad := repeat 48%N (Z.to_nat k - length fd) in
       let frac := rev (strip_trailing_zeros_rev (rev (pad ++ fd))) in
       dec_of_Z ip ++ match frac with [] => [] | _ => c_dot :: frac end)
  end.
