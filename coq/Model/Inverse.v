(* Model/Inverse.v — Arr2D::inverse (spindalis/src/utils/arr2D.rs) on top of the
   PLU model (Model/LU.v) and the substitution routines (Model/Subst.v).

     if height != width { return Err(NonSquareMatrix) }
     coeff = self.try_into() (element conversion; cannot fail for i32 / f64 elements)
     (l, u, p) = lu_pivot_decomposition(coeff).map_err(|_| SingularMatrix)?
     for j in 0..size { b'[i] = p[i][j]; forward_substitution(l, b', y);
                        back_substitution(u, y, x_j); inverse[i][j] = x_j[i] }

   The model takes the matrix after the element conversion.  For size = 0 the loop
   does not run, so the size-0 panic of back_substitution is never reached. *)
From Coq Require Import ZArith List Arith Bool.
From SV Require Import Base.Num Base.Outcome Base.Mat Model.Subst Model.LU.
Import ListNotations.

Section Inverse.
  Context {T : Type} {NT : Num T}.

  (* column j of the inverse: solve L y = P e_j, then U x = y *)
  Definition inverse_col (size : nat) (l u p : mat T) (j : nat) : res (vec T) :=
    let b' := vretab size (for_range 0 size (fun i b => vset b i (p i j)) (vconst n0)) in
    let y := vretab size (forward_substitution l size b' (vconst n0)) in
    back_substitution u size y (vconst n0).

  (* for i in 0..size { inverse_matrix[i][j] = x_j[i] } *)
  Definition set_col (size j : nat) (x : vec T) (m : mat T) : mat T :=
    for_range 0 size (fun i m => mset m i j (x i)) m.

  Definition inverse_step (size : nat) (l u p : mat T) (j : nat) (acc : res (mat T)) : res (mat T) :=
    match acc with
    | Ok inv =>
      match inverse_col size l u p j with
      | Ok x => Ok (retab size size (set_col size j x inv))
      | Err e => Err e
      | Panic w => Panic w
      end
    | e => e
    end.

  Definition inverse (h w : nat) (a : mat T) : res (mat T) :=
    if negb (h =? w) then Err ENonSquareMatrix
    else
      match plu h w a with
      | Ok (l, u, p) => for_range 0 h (inverse_step h l u p) (Ok (mconst n0))
      | Err _ => Err ESingularMatrix
      | Panic x => Panic x
      end.
End Inverse.
