(* Model/Stats.v — transcription of spindalis/src/utils/variation.rs.
   [None] stands for the NaN returned by the emptiness / denominator guards. *)
From Coq Require Import ZArith List.
From SV Require Import Base.Num.
Import ListNotations.

Section Stats.
  Context {T : Type} {NT : Num T}.

  (* samples.iter().sum::<f64>()  /  .product::<f64>() : left folds *)
  Definition sum_list (l : list T) : T := fold_left nadd l nsum0.
  Definition prod_list (l : list T) : T := fold_left nmul l n1.

  Definition arith_mean (l : list T) : option T :=
    match l with
    | [] => None
    | _ => Some (ndiv (sum_list l) (nofnat (length l)))
    end.

  Definition geom_mean (l : list T) : option T :=
    match l with
    | [] => None
    | _ => Some (nexp (ndiv (sum_list (map nln l)) (nofnat (length l))))
    end.

  (* correction: false = StdDevType::Poulation, true = StdDevType::Sample *)
  Definition std_denominator (n : nat) (sample : bool) : nat :=
    if sample then Nat.pred n else n.          (* n.saturating_sub(1) *)

  Definition std_dev (l : list T) (sample : bool) : option T :=
    let d := std_denominator (length l) sample in
    match d with
    | O => None
    | _ =>
      match arith_mean l with
      | None => None                                        (* unreachable: d > 0 *)
      | Some mean =>
        let variance := ndiv (sum_list (map (fun x => npowi (nsub x mean) 2) l)) (nofnat d) in
        Some (nsqrt variance)
      end
    end.
End Stats.
