(* Model/GrammarS.v — the DOCUMENTED univariate polynomial language, as a
   generative definition that does not mention the parser:

     dec    ::= digits | digits '.' digits* | '.' digits        (>= 1 digit overall)
     uterm  ::= dec                                   (constant)
              | [dec] v ['^' digits]                  (v the variable letter)
     usrc   ::= [ '+' | '-' ] uterm ( ('+' | '-') uterm )*      (no spaces)

   together with the VALUE of a source: the list of (signed coefficient, power)
   pairs, one per term, in source order.  Definitions only. *)
From Coq Require Import ZArith NArith List Bool.
From SV Require Import Base.Num Base.Str Model.Parse.
Import ListNotations.

(* a plain decimal spelling: integer digits, and an optional '.' with fraction digits
   "3" = (3, None)   "3." = (3, Some [])   ".5" = ([], Some 5)   "12.50" = (12, Some 50) *)
Record dec := { d_int : str; d_frac : option str }.

Definition render_dec (d : dec) : str :=
  d_int d ++ match d_frac d with None => [] | Some f => c_dot :: f end.

Definition wf_dec (d : dec) : bool :=
  all_digits (d_int d)
  && match d_frac d with
     | None => negb (Nat.eqb (length (d_int d)) 0)
     | Some f => all_digits f && negb (Nat.eqb (length (d_int d) + length f) 0)
     end.

Inductive uterm :=
| UConst (d : dec)
| UVar (c : option dec) (e : option str).      (* coefficient?, variable, ^digits? *)

Definition usrc := list (bool (* negative *) * uterm).

(* exponent digits: at least one ASCII digit (leading zeros allowed), value <= MAX_POWER *)
Definition wf_exp (ds : str) : bool :=
  negb (Nat.eqb (length ds) 0) && all_digits ds && (digits_val ds <=? MAX_POWER)%Z.

Definition wf_term (t : uterm) : bool :=
  match t with
  | UConst d => wf_dec d
  | UVar c e => match c with None => true | Some d => wf_dec d end
                && match e with None => true | Some ds => wf_exp ds end
  end.

Definition wf_src (src : usrc) : bool := forallb (fun nt => wf_term (snd nt)) src.

Definition is_var (t : uterm) : bool := match t with UVar _ _ => true | UConst _ => false end.
Definition uses_var (src : usrc) : bool := existsb (fun nt => is_var (snd nt)) src.

(* ---- the text ---------------------------------------------------------------- *)
Definition render_term (v : N) (t : uterm) : str :=
  match t with
  | UConst d => render_dec d
  | UVar c e =>
      match c with None => [] | Some d => render_dec d end
      ++ [v]
      ++ match e with None => [] | Some ds => c_caret :: ds end
  end.

Definition sign_char (neg : bool) : N := if neg then c_minus else c_plus.

(* terms joined by '+' / '-'; the first term carries '-' if negative, and '+' only if
   [lead_plus] is set *)
Definition render (lead_plus : bool) (v : N) (src : usrc) : str :=
  match src with
  | [] => []
  | (neg, t) :: rest =>
      (if neg then [c_minus] else if lead_plus then [c_plus] else [])
      ++ render_term v t
      ++ flat_map (fun nt => sign_char (fst nt) :: render_term v (snd nt)) rest
  end.

(* ---- the one assumption on the Unicode tables --------------------------------
   No alphabetic code point is an ASCII digit or one of  . ^ + -  (true of Unicode:
   all of these have General_Category Nd / Po / Sk / Sm / Pd, none is Alphabetic). *)
Record USane (U : UClass) : Prop := {
  us_digit : forall c, is_ascii_digit c = true -> u_alphabetic U c = false;
  us_dot : u_alphabetic U c_dot = false;
  us_caret : u_alphabetic U c_caret = false;
  us_plus : u_alphabetic U c_plus = false;
  us_minus : u_alphabetic U c_minus = false
}.

(* ---- the value ---------------------------------------------------------------- *)
Section Value.
  Context {T : Type} {NT : Num T}.

  (* digits d1..dn [. f1..fm]  =  (d1..dn f1..fm) * 10^-m, correctly rounded by the instance *)
  Definition dec_val (d : dec) : T :=
    match d_frac d with
    | None => nofdec (digits_val (d_int d)) 0
    | Some f => nofdec (digits_val (d_int d ++ f)) (- Z.of_nat (length f))
    end.

  Definition sgn (neg : bool) (x : T) : T := if neg then nneg x else x.

  Definition term_coef (t : uterm) : T :=
    match t with
    | UConst d => dec_val d
    | UVar None _ => n1
    | UVar (Some d) _ => dec_val d
    end.
  Definition term_pow (t : uterm) : nat :=
    match t with
    | UConst _ => 0%nat
    | UVar _ None => 1%nat
    | UVar _ (Some ds) => Z.to_nat (digits_val ds)
    end.

  Definition term_val (nt : bool * uterm) : T * nat :=
    (sgn (fst nt) (term_coef (snd nt)), term_pow (snd nt)).

  Definition terms_of (src : usrc) : list (T * nat) := map term_val src.

  (* VALUE-side side condition since 59b028d: every numeral that is written out denotes a
     finite number in the instance (always true in R and Z; in f64: not beyond ~1.8e308).
     The sums of like powers must be finite as well: [sums_finite (terms_of src)] of Model/Parse.v. *)
  Definition term_finite (nt : bool * uterm) : bool :=
    match snd nt with
    | UConst d => is_finite (sgn (fst nt) (dec_val d))
    | UVar (Some d) _ => is_finite (sgn (fst nt) (dec_val d))
    | UVar None _ => true
    end.
  Definition src_finite (src : usrc) : bool := forallb term_finite src.
End Value.
