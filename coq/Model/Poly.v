(* Model/Poly.v — the two polynomial types and everything that is not parsing or
   printing: evaluation, derivatives, indefinite integrals and the trait
   wrappers.  Transcribed from
     spindalis_core/src/polynomials/simple.rs            (eval_simple_polynomial)
     spindalis_core/src/polynomials/intermediate.rs      (eval_intermediate_polynomial)
     spindalis_core/src/polynomials/structs/{simple,intermediate}.rs (trait impls)
     spindalis_core/src/derivatives/{simple,intermediate}.rs
     spindalis_core/src/integrals/{simple,intermediate}_indefinite.rs
   as of the repaired tree (fix commits 05917da 70b8fc4 820a0e7 315be4f).
   Definitions only; polymorphic in [Num T]. *)
From Coq Require Import ZArith NArith List Bool.
From SV Require Import Base.Num Base.Outcome.
Import ListNotations.

(* A variable name is a Rust String: the list of its Unicode scalar values.
   String order = lexicographic order of scalar values (= UTF-8 byte order). *)
Definition name := list N.

Fixpoint name_eqb (a b : name) : bool :=
  match a, b with
  | [], [] => true
  | x :: a', y :: b' => N.eqb x y && name_eqb a' b'
  | _, _ => false
  end.

Fixpoint name_leb (a b : name) : bool :=
  match a, b with
  | [], _ => true
  | _ :: _, [] => false
  | x :: a', y :: b' => if N.ltb x y then true else if N.ltb y x then false else name_leb a' b'
  end.

Section Poly.
  Context {T : Type} {NT : Num T}.

  (* ---------------- univariate: dense coefficient vector ------------------ *)
  Record spoly := { s_coefs : list T; s_var : option N }.

  (* coeffs.iter().enumerate().map(|(i,&c)| c * x.powi(i as i32)).sum() *)
  Fixpoint eval_terms_from (x : T) (i : nat) (cs : list T) : list T :=
    match cs with
    | [] => []
    | c :: cs' => nmul c (npowi x (Z.of_nat i)) :: eval_terms_from x (S i) cs'
    end.
  Definition eval_simple (p : spoly) (x : T) : T :=
    fold_left nadd (eval_terms_from x 0 (s_coefs p)) nsum0.

  (* simple_derivative: for (power, coeff) in enumerate().skip(1): coeff * power as f64 *)
  Fixpoint deriv_coefs_from (i : nat) (cs : list T) : list T :=
    match cs with
    | [] => []
    | c :: cs' => nmul c (nofnat i) :: deriv_coefs_from (S i) cs'
    end.
  Definition simple_derivative (p : spoly) : spoly :=
    {| s_coefs := match s_coefs p with [] => [] | _ :: cs => deriv_coefs_from 1 cs end;
       s_var := s_var p |}.

  (* indefinite_integral_simple: 0 :: [coeff / (power as f64 + 1)] *)
  Fixpoint integ_coefs_from (i : nat) (cs : list T) : list T :=
    match cs with
    | [] => []
    | c :: cs' => ndiv c (nadd (nofnat i) n1) :: integ_coefs_from (S i) cs'
    end.
  Definition simple_integral (p : spoly) : spoly :=
    {| s_coefs := n0 :: integ_coefs_from 0 (s_coefs p); s_var := s_var p |}.

  (* ---------------- multivariate: list of terms --------------------------- *)
  Record term := { t_coef : T; t_vars : list (name * T) }.
  Record ipoly := { i_terms : list term; i_vars : list name }.

  (* environment = the caller's list of (name, value) pairs collected into a
     HashMap: a later binding of the same name replaces an earlier one *)
  Definition env := list (name * T).
  Fixpoint lookup (v : name) (e : env) : option T :=
    match e with
    | [] => None
    | (k, x) :: e' =>
        match lookup v e' with
        | Some y => Some y
        | None => if name_eqb k v then Some x else None
        end
    end.

  (* one term: term_value = coefficient; for (var,pow): term_value *= value.powf(pow) *)
  Fixpoint eval_term_vars (acc : T) (vs : list (name * T)) (e : env) : res T :=
    match vs with
    | [] => Ok acc
    | (v, p) :: vs' =>
        match lookup v e with
        | Some x => eval_term_vars (nmul acc (npowf x p)) vs' e
        | None => Err EVariableNotFound
        end
    end.

  (* result = 0.0; for term: result += term_value  (first missing variable aborts) *)
  Fixpoint eval_inter_from (acc : T) (ts : list term) (e : env) : res T :=
    match ts with
    | [] => Ok acc
    | t :: ts' =>
        match eval_term_vars (t_coef t) (t_vars t) e with
        | Ok v => eval_inter_from (nadd acc v) ts' e
        | Err x => Err x
        | Panic w => Panic w
        end
    end.
  Definition eval_inter (ts : list term) (e : env) : res T := eval_inter_from n0 ts e.

  (* stable insertion sort by name (Rust's sort_by is stable; Vec<String>::sort too) *)
  Fixpoint insert_var (x : name * T) (l : list (name * T)) : list (name * T) :=
    match l with
    | [] => [x]
    | y :: l' => if name_leb (fst y) (fst x) then y :: insert_var x l' else x :: y :: l'
    end.
  Definition sort_vars (l : list (name * T)) : list (name * T) :=
    fold_left (fun acc x => insert_var x acc) l [].

  Fixpoint insert_name (x : name) (l : list name) : list name :=
    match l with
    | [] => [x]
    | y :: l' => if name_leb y x then y :: insert_name x l' else x :: y :: l'
    end.
  Definition sort_names (l : list name) : list name := fold_left (fun acc x => insert_name x acc) l [].
  Fixpoint dedup_sorted (l : list name) : list name :=
    match l with
    | [] => []
    | x :: l' =>
        match l' with
        | [] => [x]
        | y :: _ => if name_eqb x y then dedup_sorted l' else x :: dedup_sorted l'
        end
    end.
  (* HashSet<String> of all variable names, collected and sorted *)
  Definition var_set (ts : list term) : list name :=
    dedup_sorted (sort_names (flat_map (fun t => map fst (t_vars t)) ts)).

  (* IntermediatePolynomial::sort_poly *)
  Definition sort_poly (p : ipoly) : ipoly :=
    {| i_terms := map (fun t => {| t_coef := t_coef t; t_vars := sort_vars (t_vars t) |}) (i_terms p);
       i_vars := sort_names (i_vars p) |}.

  (* partial_derivative: first entry of the variable in a term; exponent 0 -> term
     dropped (315be4f); new exponent 0 -> entry removed; terms without it vanish *)
  Fixpoint deriv_vars (c : T) (pre : list (name * T)) (vs : list (name * T)) (v : name) : option term :=
    match vs with
    | [] => None
    | (k, p) :: vs' =>
        if name_eqb k v then
          if neqb p n0 then None
          else
            let np := nsub p n1 in
            if neqb np n0 then Some {| t_coef := nmul c p; t_vars := rev pre ++ vs' |}
            else Some {| t_coef := nmul c p; t_vars := rev pre ++ (k, np) :: vs' |}
        else deriv_vars c ((k, p) :: pre) vs' v
    end.
  Fixpoint deriv_terms (ts : list term) (v : name) : list term :=
    match ts with
    | [] => []
    | t :: ts' =>
        match deriv_vars (t_coef t) [] (t_vars t) v with
        | Some d => d :: deriv_terms ts' v
        | None => deriv_terms ts' v
        end
    end.
  Definition partial_derivative (ts : list term) (v : name) : ipoly :=
    let ds := deriv_terms ts v in
    sort_poly {| i_terms := ds; i_vars := var_set ds |}.

  (* indefinite_integral_intermediate: first entry of the variable: coefficient / (pow+1),
     exponent pow+1; a term without the variable gets (var, 1.0) appended *)
  Fixpoint integ_vars (c : T) (pre : list (name * T)) (vs : list (name * T)) (v : name) : option term :=
    match vs with
    | [] => None
    | (k, p) :: vs' =>
        if name_eqb k v then
          Some {| t_coef := ndiv c (nadd p n1); t_vars := rev pre ++ (k, nadd p n1) :: vs' |}
        else integ_vars c ((k, p) :: pre) vs' v
    end.
  Definition integ_term (t : term) (v : name) : term :=
    match integ_vars (t_coef t) [] (t_vars t) v with
    | Some d => d
    | None => {| t_coef := t_coef t; t_vars := t_vars t ++ [(v, n1)] |}
    end.
  Definition inter_integral (ts : list term) (v : name) : ipoly :=
    let is := map (fun t => integ_term t v) ts in
    sort_poly {| i_terms := is; i_vars := var_set is |}.

  (* ---------------- trait wrappers: IntermediatePolynomial ----------------- *)
  Definition default_x : name := [120%N].          (* "x" *)

  Definition i_eval_univariate (p : ipoly) (x : T) : res T :=
    match i_vars p with
    | _ :: _ :: _ => Err ETooManyVariables
    | [] => eval_inter (i_terms p) []
    | [v] => eval_inter (i_terms p) [(v, x)]
    end.
  Definition i_eval_multivariate (p : ipoly) (e : env) : res T := eval_inter (i_terms p) e.
  Definition i_derivate_univariate (p : ipoly) : res ipoly :=
    match i_vars p with
    | _ :: _ :: _ => Err ETooManyVariables
    | vs =>
        let v := match vs with [] => default_x | v :: _ => v end in
        Ok {| i_terms := i_terms (partial_derivative (i_terms p) v); i_vars := i_vars p |}
    end.
  Definition i_integral_univariate (p : ipoly) : res ipoly :=
    match i_vars p with
    | _ :: _ :: _ => Err ETooManyVariables
    | vs =>
        let v := match vs with [] => default_x | v :: _ => v end in
        Ok (inter_integral (i_terms p) v)
    end.
  Definition i_derivate_multivariate (p : ipoly) (v : name) : ipoly := partial_derivative (i_terms p) v.
  Definition i_integral_multivariate (p : ipoly) (v : name) : ipoly := inter_integral (i_terms p) v.

  (* ---------------- trait wrappers: SimplePolynomial ----------------------- *)
  Definition s_eval_univariate (p : spoly) (x : T) : res T := Ok (eval_simple p x).
  Definition s_derivate_univariate (p : spoly) : res spoly := Ok (simple_derivative p).
  Definition s_integral_univariate (p : spoly) : res spoly := Ok (simple_integral p).
  (* var.chars().next() == self.variable *)
  Definition first_char_is (v : name) (c : option N) : bool :=
    match v, c with
    | [], None => true
    | x :: _, Some y => N.eqb x y
    | _, _ => false
    end.
  Definition s_derivate_multivariate (p : spoly) (v : name) : spoly :=
    if first_char_is v (s_var p) then simple_derivative p else p.
  Definition s_integral_multivariate (p : spoly) (v : name) : spoly :=
    if first_char_is v (s_var p) then simple_integral p else p.
  (* eval_multivariate: the bindings as a HashMap must have exactly one key *)
  Fixpoint distinct_keys (e : env) (seen : list name) : nat :=
    match e with
    | [] => length seen
    | (k, _) :: e' => if existsb (name_eqb k) seen then distinct_keys e' seen else distinct_keys e' (k :: seen)
    end.
  Definition s_eval_multivariate (p : spoly) (e : env) : res T :=
    match e with
    | [] => Err ETooManyVariables
    | (k, _) :: _ =>
        if Nat.eqb (distinct_keys e []) 1 then
          match lookup k e with Some x => Ok (eval_simple p x) | None => Err ETooManyVariables end
        else Err ETooManyVariables
    end.
End Poly.

Arguments spoly T : clear implicits.
Arguments term T : clear implicits.
Arguments ipoly T : clear implicits.
Arguments env T : clear implicits.
