(* Model/Quad.v — transcription of
     spindalis_core/src/integrals/univariate_definite.rs
   (definite_integral, romberg_definite, trapezoidal_rule, simpson38, simpson13)
   as of the repaired tree (fix commit 7538998: table sized
   maxiter.clamp(1,64)+2, segment count 2_usize.checked_pow(iter), Richardson
   weight 4_f64.powi(k-1)).

   The integrators are generic in the polynomial type; the only thing they do
   with the polynomial is `poly.eval_univariate(x)?`.  The model is therefore
   parametrised by the evaluation function  f : T -> res T  (instantiate with
   [s_eval_univariate p] or [i_eval_univariate p] of Model/Poly.v); `?` is
   [bind].  Definitions only; polymorphic in [Num T].

   Machine integers: `usize` is 64 bits.  Segment counts are [N] (they reach
   2^63), loop counters and table indices are [nat] (they stay below 67).
   Every `usize` operation that can fail is explicit:
     * `remaining_segments -= 3`            -> [Panic WOverflow] below 3
     * `2_usize.checked_pow(iter)`          -> [None] from iter = 64 on
     * `romberg_table[i][j]` (read, write)  -> [Panic WIndex] outside the table
   `2 + iter - k` (k <= iter + 1 by the loop bounds) and `iter + 1` cannot
   overflow and are plain [nat] arithmetic. *)
From Coq Require Import ZArith NArith List Bool Arith.
From SV Require Import Base.Num Base.Outcome.
Import ListNotations.
Local Open Scope res_scope.

(* `for _ in 0..n { s = body(s)? }` *)
Definition loopN {S : Type} (n : N) (body : S -> res S) (s : S) : res S :=
  N.iter n (fun r => bind r body) (Ok s).

(* 2_usize.checked_pow(iter as u32), usize = u64 *)
Definition checked_pow2 (iter : nat) : option N :=
  if iter <? 64 then Some (2 ^ N.of_nat iter)%N else None.

(* Vec<Vec<f64>> with Rust's bounds-checked indexing *)
Fixpoint lset {A : Type} (l : list A) (i : nat) (v : A) : option (list A) :=
  match l, i with
  | [], _ => None
  | _ :: l', O => Some (v :: l')
  | x :: l', S i' => option_map (cons x) (lset l' i' v)
  end.

Section Quad.
  Context {T : Type} {NT : Num T}.

  Definition nofN (n : N) : T := nofZ (Z.of_N n).          (* `n as f64` *)

  Definition table := list (list T).
  Definition tget (t : table) (i j : nat) : res T :=
    match nth_error t i with
    | None => Panic WIndex
    | Some row => match nth_error row j with None => Panic WIndex | Some v => Ok v end
    end.
  Definition tset (t : table) (i j : nat) (v : T) : res table :=
    match nth_error t i with
    | None => Panic WIndex
    | Some row =>
        match lset row j v with
        | None => Panic WIndex
        | Some row' => match lset t i row' with None => Panic WIndex | Some t' => Ok t' end
        end
    end.

  (* fn trapezoidal_rule:
       xi = start; h = (end - start) / segments as f64; sum = f(xi)?;
       for _ in 1..segments { xi += h; sum += 2.0 * f(xi)?; }
       sum += f(end)?;  Ok(h * sum / 2.0) *)
  Definition trap_body (f : T -> res T) (h : T) (st : T * T) : res (T * T) :=
    let (xi, sum) := st in
    let xi' := nadd xi h in
    let* v := f xi' in
    Ok (xi', nadd sum (nmul ntwo v)).
  Definition trapezoid (f : T -> res T) (start end_ : T) (segments : N) : res T :=
    let h := ndiv (nsub end_ start) (nofN segments) in
    let* s0 := f start in
    let* st := loopN (N.pred segments) (trap_body f h) (start, s0) in
    let* ve := f end_ in
    Ok (ndiv (nmul h (nadd (snd st) ve)) ntwo).

  (* fn simpson38: the four values are computed first, in order;
       3.0 * h * (f0 + 3.0*f1 + 3.0*f2 + f3) / 8.0 *)
  Definition simpson38 (f : T -> res T) (h : T) (p0 p1 p2 p3 : T) : res T :=
    let* f0 := f p0 in
    let* f1 := f p1 in
    let* f2 := f p2 in
    let* f3 := f p3 in
    let three := nofZ 3 in
    Ok (ndiv (nmul (nmul three h)
                   (nadd (nadd (nadd f0 (nmul three f1)) (nmul three f2)) f3))
             (nofZ 8)).

  (* fn simpson13:
       xi = start; sum = f(xi)?;
       for _ in 1..segments/2 { xi += 2.0*h; sum += 4.0*f(xi - h)? + 2.0*f(xi)?; }
       xi += 2.0*h; sum += 4.0*f(xi - h)? + f(xi)?;
       Ok(h * sum / 3.0) *)
  Definition s13_body (f : T -> res T) (h : T) (st : T * T) : res (T * T) :=
    let (xi, sum) := st in
    let xi' := nadd xi (nmul ntwo h) in
    let* vm := f (nsub xi' h) in
    let* ve := f xi' in
    Ok (xi', nadd sum (nadd (nmul (nofZ 4) vm) (nmul ntwo ve))).
  Definition simpson13 (f : T -> res T) (h : T) (start : T) (segments : N) : res T :=
    let* s0 := f start in
    let* st := loopN (N.pred (segments / 2)) (s13_body f h) (start, s0) in
    let (xi, sum) := st in
    let xi' := nadd xi (nmul ntwo h) in
    let* vm := f (nsub xi' h) in
    let* ve := f xi' in
    Ok (ndiv (nmul h (nadd sum (nadd (nmul (nofZ 4) vm) ve))) (nofZ 3)).

  (* pub fn definite_integral *)
  Definition definite_integral (f : T -> res T) (start end_ : T) (segments : N) : res T :=
    let h := ndiv (nsub end_ start) (nofN segments) in
    if (segments =? 1)%N then trapezoid f start end_ segments
    else
      let* sr :=
        (if N.even segments then Ok (n0, segments)
         else
           (* points[i] = end - h * i (i = 1,2,3), points[0] = end, then reversed *)
           let q1 := nsub end_ (nmul h (nofZ 1)) in
           let q2 := nsub end_ (nmul h (nofZ 2)) in
           let q3 := nsub end_ (nmul h (nofZ 3)) in
           let* s := simpson38 f h q3 q2 q1 end_ in
           if (segments <? 3)%N then Panic WOverflow          (* remaining_segments -= 3 *)
           else Ok (nadd n0 s, (segments - 3)%N)) in
      let (sum, remaining) := sr in
      if (1 <? remaining)%N then
        let* s := simpson13 f h start remaining in
        Ok (nadd sum s)
      else Ok sum.

  (* for k in 2..=iter+1 { j = 2 + iter - k; p = 4.0.powi(k - 1);
       T[j][k] = (p * T[j+1][k-1] - T[j][k-1]) / (p - 1.0) }
     [cnt] = number of remaining values of k *)
  Fixpoint richardson (cnt k iter : nat) (tbl : table) : res table :=
    match cnt with
    | O => Ok tbl
    | S cnt' =>
        let j := 2 + iter - k in
        let p := npowi (nofZ 4) (Z.of_nat k - 1) in
        let* x := tget tbl (j + 1) (k - 1) in
        let* y := tget tbl j (k - 1) in
        let* tbl' := tset tbl j k (ndiv (nsub (nmul p x) y) (nsub p n1)) in
        richardson cnt' (S k) iter tbl'
    end.

  (* the `loop { ... }` of romberg_definite and what follows it; [iter0] is the
     value of `iter` on entry of the body.  [fuel] only makes the recursion
     structural: [Panic WFuel] is never produced (Proofs/Quad.v). *)
  Fixpoint romberg_loop (fuel : nat) (f : T -> res T) (start end_ : T) (maxiter : N) (tol : T)
           (tbl : table) (iter0 : nat) : res T :=
    match fuel with
    | O => Panic WFuel
    | S fuel' =>
        let iter := S iter0 in
        match checked_pow2 iter with
        | None => Err EMaxIterationsReached
        | Some segments =>
            let* t := trapezoid f start end_ segments in
            let* tbl1 := tset tbl (iter + 1) 1 t in
            let* tbl2 := richardson iter 2 iter tbl1 in
            let* a := tget tbl2 1 (iter + 1) in
            let* b := tget tbl2 2 iter in
            let approx_err := nmul (nabs (ndiv (nabs (nsub a b)) a)) (nofZ 100) in
            let capped := (maxiter <=? N.of_nat iter)%N in
            if capped || nleb approx_err tol then
              if capped then Err EMaxIterationsReached else tget tbl2 1 (iter + 1)
            else romberg_loop fuel' f start end_ maxiter tol tbl2 iter
        end
    end.

  Definition table_size (cap : N) : nat := N.to_nat (N.min (N.max cap 1) 64) + 2.

  (* pub fn romberg_definite (maxiter : u32 widened to usize) *)
  Definition romberg (f : T -> res T) (start end_ : T) (cap : N) (tol : T) : res T :=
    let ts := table_size cap in
    let tbl0 : table := repeat (repeat n0 ts) ts in
    let* t0 := trapezoid f start end_ 1 in
    let* tbl := tset tbl0 1 1 t0 in
    romberg_loop ts f start end_ cap tol tbl 0.
End Quad.
