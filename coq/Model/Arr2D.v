(* Model/Arr2D.v — transcription of spindalis/src/utils/arr2D.rs (non-test part).
   The array is the concrete record of the Rust struct: a flat row-major buffer
   and the two public dimensions.  Every Rust expression that can panic
   (`a[(r,c)]`, `a[r]`, `a[r][c]`, `split_at(_mut)`, range slicing, `size / height`,
   `Option::unwrap`, integer division) goes through a checked primitive that
   returns [Panic], so panics are part of the model.
   Dimensions and indices are [nat] (usize; the harness keeps them small, the
   overflow of `height * width` is outside the model). *)
From Coq Require Import ZArith NArith List Bool Arith Lia.
From SV Require Import Base.Num Base.Outcome.
Import ListNotations.
Local Open Scope res_scope.

Record arr (T : Type) := mkArr { inner : list T; height : nat; width : nat }.
Arguments mkArr {T} inner height width.
Arguments inner {T} a.
Arguments height {T} a.
Arguments width {T} a.

(* ---- checked slice / vector primitives ------------------------------------ *)
Section Prims.
  Context {A : Type}.

  (* v[i] *)
  Definition lget (l : list A) (i : nat) : res A :=
    match nth_error l i with Some x => Ok x | None => Panic WIndex end.

  Fixpoint replace (l : list A) (i : nat) (v : A) : list A :=
    match l, i with
    | [], _ => []
    | _ :: l', O => v :: l'
    | x :: l', S i' => x :: replace l' i' v
    end.

  (* v[i] = x *)
  Definition lset (l : list A) (i : nat) (v : A) : res (list A) :=
    if i <? length l then Ok (replace l i v) else Panic WIndex.

  (* &v[lo..hi] *)
  Definition lslice (l : list A) (lo hi : nat) : res (list A) :=
    if (lo <=? hi) && (hi <=? length l) then Ok (firstn (hi - lo) (skipn lo l))
    else Panic WSliceRange.

  (* v.split_at(mid) / split_at_mut(mid) *)
  Definition split_at (l : list A) (mid : nat) : res (list A * list A) :=
    if mid <=? length l then Ok (firstn mid l, skipn mid l) else Panic WSliceRange.

  (* for x in l { acc = body x acc }  with early exit on Err / Panic *)
  Fixpoint foldM {S : Type} (l : list A) (body : A -> S -> res S) (acc : S) : res S :=
    match l with
    | [] => Ok acc
    | x :: l' => let* acc' := body x acc in foldM l' body acc'
    end.

  (* loops of the form `for x in l { if !(p x) { return false } } true` *)
  Fixpoint allM (l : list A) (p : A -> res bool) : res bool :=
    match l with
    | [] => Ok true
    | x :: l' => let* b := p x in if b then allM l' p else Ok false
    end.

  (* Iterator::reduce *)
  Definition reduce (f : A -> A -> A) (l : list A) : option A :=
    match l with
    | [] => None
    | x :: l' => Some (fold_left f l' x)
    end.
End Prims.

(* for i in 0..n *)
Definition forM {S : Type} (n : nat) (body : nat -> S -> res S) (acc : S) : res S :=
  foldM (seq 0 n) body acc.

Definition div_chk (x y : nat) : res nat :=
  if y =? 0 then Panic WDivZero else Ok (x / y).
(* usize::is_multiple_of *)
Definition is_multiple_of (x y : nat) : bool :=
  if y =? 0 then x =? 0 else x mod y =? 0.

Section Arr.
  Context {T : Type} {NT : Num T}.

  Definition arr_new : arr T := mkArr [] 0 0.            (* Arr2D::new() = Arr2D::default() *)
  Definition shape (a : arr T) : nat * nat := (height a, width a).
  Definition size (a : arr T) : nat := length (inner a).
  Definition is_empty (a : arr T) : bool := (height a =? 0) || (width a =? 0).

  (* ---- Index / IndexMut ---------------------------------------------------- *)
  (* a[(row, col)] *)
  Definition get2 (a : arr T) (r c : nat) : res T :=
    if (height a <=? r) || (width a <=? c) then Panic WIndex
    else lget (inner a) (r * width a + c).
  (* a[(row, col)] = v *)
  Definition set2 (a : arr T) (r c : nat) (v : T) : res (arr T) :=
    if (height a <=? r) || (width a <=? c) then Panic WIndex
    else let* l := lset (inner a) (r * width a + c) v in Ok (mkArr l (height a) (width a)).
  (* &a[row] : the slice inner[row*width .. (row+1)*width] *)
  Definition row (a : arr T) (r : nat) : res (list T) :=
    if height a <=? r then Panic WIndex
    else lslice (inner a) (r * width a) ((r + 1) * width a).
  (* a row view written back into the buffer (a `&mut a[row]` that was modified) *)
  Definition put_row (a : arr T) (r : nat) (rw : list T) : arr T :=
    mkArr (firstn (r * width a) (inner a) ++ rw ++ skipn ((r + 1) * width a) (inner a))
          (height a) (width a).
  (* a[row][col] *)
  Definition get_rc (a : arr T) (r c : nat) : res T :=
    let* rw := row a r in lget rw c.
  (* a[row][col] = v *)
  Definition set_rc (a : arr T) (r c : nat) (v : T) : res (arr T) :=
    let* rw := row a r in
    let* rw' := lset rw c v in
    Ok (put_row a r rw').
  (* a[row].copy_from_slice(vs) : panics when the lengths differ *)
  Definition set_row (a : arr T) (r : nat) (vs : list T) : res (arr T) :=
    let* rw := row a r in
    if length vs =? length rw then Ok (put_row a r vs) else Panic WSliceRange.

  (* ---- constructors --------------------------------------------------------- *)
  Definition full (v : T) (h w : nat) : arr T := mkArr (repeat v (h * w)) h w.

  (* for i in 0..h { for j in 0..w { result[i][j] = e i j } } *)
  Definition fill_loop (h w : nat) (e : nat -> nat -> res T) (result : arr T) : res (arr T) :=
    forM h (fun i result =>
      forM w (fun j result => let* v := e i j in set_rc result i j v) result) result.

  (* T::from(0) / T::from(1) are n0 / n1 *)
  Definition identity (n : nat) : res (arr T) :=
    forM n (fun i m => set_rc m i i n1) (full n0 n n).

  Definition from_nested (values : list (list T)) : res (arr T) :=
    match values with
    | [] => Ok (mkArr [] 0 0)
    | v0 :: _ =>
      let w := length v0 in
      let h := length values in
      let* l := foldM values (fun rw acc =>
                  if negb (length rw =? w) then Err EInconsistentRowLengths
                  else Ok (acc ++ rw)) [] in
      Ok (mkArr l h w)
    end.

  (* From<&[[T; N]; M]> : the nested array is rectangular by its type; it is given here as the
     M x N tabulation of a function, `for row in values { inner.extend_from_slice(row) }` *)
  Definition from_array (m n : nat) (f : nat -> nat -> T) : arr T :=
    mkArr (concat (map (fun r => map (fun c => f r c) (seq 0 n)) (seq 0 m))) m n.

  Definition from_flat (data : list T) (default_val : T) (h w : nat) : res (arr T) :=
    let vec_len := length data in
    let arr_size := h * w in
    if (arr_size <? vec_len) || (arr_size =? 0) then Err EInvalidShape
    else if vec_len <? arr_size
         then Ok (mkArr (data ++ repeat default_val (arr_size - vec_len)) h w)   (* Vec::resize *)
         else Ok (mkArr data h w).

  (* TryFrom<&Arr2D<T>> for Arr2D<U>, element conversion [conv] (None = conversion failed) *)
  Definition try_from_ref {U : Type} (conv : T -> option U) (a : arr T) : res (arr U) :=
    let* l := mapM (fun x => match conv x with Some y => Ok y | None => Err EConversionFailed end)
                   (inner a) in
    Ok (mkArr l (height a) (width a)).

  (* ---- shape changes -------------------------------------------------------- *)
  Definition reshape (a : arr T) (h : nat) : res (arr T) :=
    let sz := height a * width a in
    if (h =? 0) || negb (is_multiple_of sz h) then Err EInvalidReshape
    else let* w := div_chk sz h in Ok (mkArr (inner a) h w).

  Definition transpose_inner (a : arr T) : res (list T) :=
    forM (width a) (fun col acc =>
      forM (height a) (fun rw acc => let* x := get2 a rw col in Ok (acc ++ [x])) acc) [].
  Definition transpose (a : arr T) : res (arr T) :=
    let* l := transpose_inner a in Ok (mkArr l (width a) (height a)).
  (* transpose_mut performs the same loop and swaps the two dimension fields *)
  Definition transpose_mut (a : arr T) : res (arr T) := transpose a.

  Definition swap_rows (a : arr T) (x y : nat) : res (arr T) :=
    if x =? y then Ok a
    else
      let '(x, y) := if y <? x then (y, x) else (x, y) in
      let w := width a in
      let* (lft, rgt) := split_at (inner a) (y * w) in
      let* row_b := lslice rgt 0 w in
      let* row_a := lslice lft (x * w) ((x + 1) * w) in
      (* swap_with_slice: both slices have length w *)
      Ok (mkArr ((firstn (x * w) lft ++ row_b ++ skipn ((x + 1) * w) lft)
                 ++ (row_a ++ skipn w rgt)) (height a) (width a)).

  (* ---- whole-array functions ------------------------------------------------ *)
  Definition amap {U : Type} (f : T -> U) (a : arr T) : arr U :=
    mkArr (map f (inner a)) (height a) (width a).

  (* Arr2DRows::next, `remaining` times *)
  Fixpoint rows_go (data : list T) (w remaining : nat) : res (list (list T)) :=
    match remaining with
    | O => Ok []
    | S rem =>
      if w =? 0 then
        let* r := lslice data 0 0 in
        let* rs := rows_go data w rem in Ok (r :: rs)
      else
        let* (r, rest) := split_at data w in
        let* rs := rows_go rest w rem in Ok (r :: rs)
    end.
  Definition rows (a : arr T) : res (list (list T)) := rows_go (inner a) (width a) (height a).
  Definition into_iter (a : arr T) : res (list (list T)) := rows a.

  Definition mapi (f : nat -> T -> T) (l : list T) : list T :=
    map (fun p => f (fst p) (snd p)) (combine (seq 0 (length l)) l).
  (* for (i,row) in a.rows_mut().enumerate() { for (j,x) in row.iter_mut().enumerate() { *x = f i j *x } }
     — returns the buffer after the loop *)
  Fixpoint rows_mut_go (f : nat -> nat -> T -> T) (data : list T) (w remaining i : nat) : res (list T) :=
    match remaining with
    | O => Ok data
    | S rem =>
      let* (r, rest) := split_at data w in
      let* rest' := rows_mut_go f rest w rem (S i) in
      Ok (mapi (f i) r ++ rest')
    end.
  Definition rows_mut_map (f : nat -> nat -> T -> T) (a : arr T) : res (arr T) :=
    let* l := rows_mut_go f (inner a) (width a) (height a) 0 in
    Ok (mkArr l (height a) (width a)).

  Definition amax (a : arr T) : res (option T) :=
    if is_empty a then Ok None
    else match reduce (fun x y => if ngtb x y then x else y) (inner a) with
         | Some m => Ok (Some m)
         | None => Panic WUnwrap
         end.
  Definition amin (a : arr T) : res (option T) :=
    if is_empty a then Ok None
    else match reduce (fun x y => if nltb x y then x else y) (inner a) with
         | Some m => Ok (Some m)
         | None => Panic WUnwrap
         end.

  (* PartialEq<Vec<Vec<T>>> *)
  Definition eq_nested (a : arr T) (other : list (list T)) : res bool :=
    if negb (height a =? length other) then Ok false
    else if height a =? 0 then Ok true
    else if existsb (fun rw => negb (length rw =? width a)) other then Ok false
    else
      allM (seq 0 (height a)) (fun r =>
        allM (seq 0 (width a)) (fun c =>
          let* x := get_rc a r c in
          let* orow := lget other r in
          let* y := lget orow c in
          Ok (negb (nneb x y)))).

  (* ---- Display, given the element formatter (code points) ------------------- *)
  Definition pad_left (wd : nat) (s : list N) : list N :=
    repeat 32%N (wd - length s) ++ s.                      (* {:>width$} *)
  Definition cp_open0 : list N := [91; 91; 32]%N.          (* "[[ " *)
  Definition cp_open : list N := [32; 91; 32]%N.           (* " [ " *)
  Definition cp_sep : list N := [44; 32]%N.                (* ", " *)
  Definition cp_close_last : list N := [32; 93; 93]%N.     (* " ]]" *)
  Definition cp_close : list N := [32; 93; 10]%N.          (* " ]\n" *)
  Definition cp_empty : list N := [91; 93; 10]%N.          (* "[]\n" *)

  Definition display (fmt : T -> list N) (a : arr T) : res (list N) :=
    if (height a =? 0) || (width a =? 0) then Ok cp_empty
    else
      let* col_widths := mapM (fun c =>
          let* lens := mapM (fun r => let* x := get2 a r c in Ok (length (fmt x))) (seq 0 (height a)) in
          Ok (fold_left Nat.max lens 0)) (seq 0 (width a)) in
      let* lines := mapM (fun r =>
          let* items := mapM (fun c =>
              let* x := get2 a r c in
              let* wd := lget col_widths c in
              Ok (pad_left wd (fmt x) ++ (if negb (c + 1 =? width a) then cp_sep else []))) (seq 0 (width a)) in
          Ok ((if r =? 0 then cp_open0 else cp_open) ++ concat items
              ++ (if r + 1 =? height a then cp_close_last else cp_close))) (seq 0 (height a)) in
      Ok (concat lines).

  (* ---- products -------------------------------------------------------------- *)
  Definition is_1x1 (a : arr T) : bool := (height a =? 1) && (width a =? 1).

  Definition dot (a b : arr T) : res (arr T) :=
    if is_1x1 a || is_1x1 b then
      let* (matrix, scalar) :=
        (if is_1x1 a then let* s := get_rc a 0 0 in Ok (b, s)
         else let* s := get_rc b 0 0 in Ok (a, s)) in
      fill_loop (height matrix) (width matrix)
        (fun i j => let* x := get_rc matrix i j in Ok (nmul scalar x))
        (full n0 (height matrix) (width matrix))
    else if negb (width a =? height b) then Err EInvalidDotShape
    else
      fill_loop (height a) (width b)
        (fun i j =>
           forM (width a) (fun k sum =>
             let* x := get_rc a i k in
             let* y := get_rc b k j in
             Ok (nadd sum (nmul x y))) n0)
        (full n0 (height a) (width b)).

  (* Result::unwrap_or_default ; Arr2D::default() is the 0x0 array *)
  Definition unwrap_or_default (r : res (arr T)) : res (arr T) :=
    match r with Ok c => Ok c | Err _ => Ok arr_new | Panic w => Panic w end.

  (* the four operator forms; ownership does not exist in the model, the bodies are the same *)
  Definition mul_ref_ref (a b : arr T) : res (arr T) := unwrap_or_default (dot a b).  (* &a * &b *)
  Definition mul_own_own (a b : arr T) : res (arr T) := unwrap_or_default (dot a b).  (* a * b *)
  Definition mul_own_ref (a b : arr T) : res (arr T) := unwrap_or_default (dot a b).  (* a * &b *)
  Definition mul_ref_own (a b : arr T) : res (arr T) := unwrap_or_default (dot a b).  (* &a * b *)

  (* &a * k  (a * k delegates to it) *)
  Definition smul (a : arr T) (k : T) : res (arr T) :=
    fill_loop (height a) (width a)
      (fun i j => let* x := get_rc a i j in Ok (nmul x k))
      (full n0 (height a) (width a)).
  (* &a / k ; [int_div] = the element type panics on division by zero (i64), floats do not *)
  Definition sdiv (int_div : bool) (a : arr T) (k : T) : res (arr T) :=
    fill_loop (height a) (width a)
      (fun i j => let* x := get_rc a i j in
                  if int_div && neqb k n0 then Panic WDivZero else Ok (ndiv x k))
      (full n0 (height a) (width a)).
End Arr.

(* ---- decimal text of an integer (Display for i64) --------------------------- *)
Fixpoint dec_digits (fuel : nat) (n : N) (acc : list N) : list N :=
  match fuel with
  | O => acc
  | S f =>
    let d := (48 + n mod 10)%N in
    let q := (n / 10)%N in
    if (q =? 0)%N then d :: acc else dec_digits f q (d :: acc)
  end.
Definition dec_N (n : N) : list N := dec_digits (S (N.size_nat n)) n [].
Definition dec_Z (z : Z) : list N :=
  match z with
  | Z0 => [48%N]
  | Zpos p => dec_N (Npos p)
  | Zneg p => 45%N :: dec_N (Npos p)
  end.

(* ============================================================================ *)
(* C12: the two state machines (Z entries)                                       *)
(* ============================================================================ *)

Inductive op :=
| OFromNested (rows : list (list Z))               (* a = Arr2D::try_from(rows)?            *)
| OFromArray (m n : nat) (f : nat -> nat -> Z)     (* a = Arr2D::from(&[[f r c; n]; m])     *)
| OFromFlat (data : list Z) (d : Z) (h w : nat)    (* a = Arr2D::from_flat(data, d, h, w)?  *)
| OFull (v : Z) (h w : nat)                        (* a = Arr2D::full(v, h, w)              *)
| OIdentity (n : nat)                              (* a = Arr2D::identity(n)                *)
| OReshape (h : nat)                               (* a.reshape(h)?                         *)
| OTranspose                                       (* a = a.transpose()                     *)
| OTransposeMut                                    (* a.transpose_mut()                     *)
| OSwapRows (x y : nat)                            (* a.swap_rows(x, y)                     *)
| OSet1 (r c : nat) (v : Z)                        (* a[(r, c)] = v                         *)
| OSet2 (r c : nat) (v : Z)                        (* a[r][c] = v                           *)
| OSetRow (r : nat) (vs : list Z)                  (* a[r].copy_from_slice(&vs)             *)
| ORowsMutMap (f : nat -> nat -> Z -> Z)           (* for row in a.rows_mut() { .. *x = f i j *x } *)
| OMap (f : Z -> Z)                                (* a = a.map(f)                          *)
| OClone                                           (* a = a.clone()                         *)
| OTryFromRef.                                     (* a = Arr2D::<i64>::try_from(&a)?       *)

(* a step returns the new state and the visible outcome; a failing operation
   (Err or Panic) leaves the state as it was *)
Definition commit {S : Type} (old : S) (r : res S) : S * res unit :=
  match r with
  | Ok s => (s, Ok tt)
  | Err e => (old, Err e)
  | Panic w => (old, Panic w)
  end.

Definition step_c (a : arr Z) (o : op) : arr Z * res unit :=
  commit a
    match o with
    | OFromNested rows => from_nested rows
    | OFromArray m n f => Ok (from_array m n f)
    | OFromFlat data d h w => from_flat data d h w
    | OFull v h w => Ok (full v h w)
    | OIdentity n => identity n
    | OReshape h => reshape a h
    | OTranspose => transpose a
    | OTransposeMut => transpose_mut a
    | OSwapRows x y => swap_rows a x y
    | OSet1 r c v => set2 a r c v
    | OSet2 r c v => set_rc a r c v
    | OSetRow r vs => set_row a r vs
    | ORowsMutMap f => rows_mut_map f a
    | OMap f => Ok (amap f a)
    | OClone => Ok a
    | OTryFromRef => try_from_ref Some a
    end.

(* ---- the plain grid ----------------------------------------------------------- *)
Record grid := mkGrid { gh : nat; gw : nat; cells : list (list Z) }.

Definition gget (g : grid) (r c : nat) : Z := nth c (nth r (cells g) []) 0%Z.
Definition gtab (h w : nat) (f : nat -> nat -> Z) : list (list Z) :=
  map (fun r => map (fun c => f r c) (seq 0 w)) (seq 0 h).
Definition in_grid (g : grid) (r c : nat) : bool := (r <? gh g) && (c <? gw g).

(* abstraction: cell (r,c) of the grid is buffer element r*width+c *)
Definition abs (a : arr Z) : grid :=
  mkGrid (height a) (width a)
         (gtab (height a) (width a) (fun r c => nth (r * width a + c) (inner a) 0%Z)).

Definition swap_idx (x y r : nat) : nat := if r =? x then y else if r =? y then x else r.

Definition step_s (g : grid) (o : op) : grid * res unit :=
  let h := gh g in
  let w := gw g in
  commit g
    match o with
    | OFromNested rows =>
      match rows with
      | [] => Ok (mkGrid 0 0 [])
      | r0 :: _ =>
        if forallb (fun rw => length rw =? length r0) rows
        then Ok (mkGrid (length rows) (length r0) rows)
        else Err EInconsistentRowLengths
      end
    | OFromArray m n f => Ok (mkGrid m n (gtab m n f))
    | OFromFlat data d h' w' =>
      if (h' * w' <? length data) || (h' * w' =? 0) then Err EInvalidShape
      else Ok (mkGrid h' w' (gtab h' w' (fun r c => nth (r * w' + c) data d)))
    | OFull v h' w' => Ok (mkGrid h' w' (gtab h' w' (fun _ _ => v)))
    | OIdentity n => Ok (mkGrid n n (gtab n n (fun r c => if r =? c then 1%Z else 0%Z)))
    | OReshape h' =>
      if (h' =? 0) || negb ((h * w) mod h' =? 0) then Err EInvalidReshape
      else let w' := (h * w) / h' in
           (* row-major re-flow: the k-th cell stays the k-th cell *)
           Ok (mkGrid h' w' (gtab h' w' (fun r c => let k := r * w' + c in gget g (k / w) (k mod w))))
    | OTranspose | OTransposeMut => Ok (mkGrid w h (gtab w h (fun r c => gget g c r)))
    | OSwapRows x y =>
      if x =? y then Ok g                       (* returns before looking at the rows *)
      else if w =? 0 then Ok g                  (* rows are empty: nothing is addressed *)
      else if h <=? Nat.max x y then Panic WSliceRange
      else Ok (mkGrid h w (gtab h w (fun r c => gget g (swap_idx x y r) c)))
    | OSet1 r c v | OSet2 r c v =>
      if in_grid g r c
      then Ok (mkGrid h w (gtab h w (fun r' c' => if (r' =? r) && (c' =? c) then v else gget g r' c')))
      else Panic WIndex
    | OSetRow r vs =>
      if h <=? r then Panic WIndex
      else if negb (length vs =? w) then Panic WSliceRange
      else Ok (mkGrid h w (gtab h w (fun r' c' => if r' =? r then nth c' vs 0%Z else gget g r' c')))
    | ORowsMutMap f => Ok (mkGrid h w (gtab h w (fun r c => f r c (gget g r c))))
    | OMap f => Ok (mkGrid h w (map (map f) (cells g)))
    | OClone | OTryFromRef => Ok g
    end.

(* ---- observations ---------------------------------------------------------------- *)
Inductive query :=
| QShape | QSize | QIsEmpty
| QGet1 (r c : nat)                 (* a[(r,c)]   *)
| QGet2 (r c : nat)                 (* a[r][c]    *)
| QRows                             (* a.rows()   *)
| QIntoIter                         (* (&a).into_iter() *)
| QMax | QMin
| QEqNested (other : list (list Z)) (* a == other *)
| QDisplay.                         (* format!("{}", a) *)

Inductive answer :=
| AShape (h w : nat) | ANat (n : nat) | ABool (b : bool)
| AElem (r : res Z) | ARows (r : res (list (list Z))) | AOpt (r : res (option Z))
| AEq (r : res bool) | AText (r : res (list N)).

Definition observe_c (a : arr Z) (q : query) : answer :=
  match q with
  | QShape => AShape (fst (shape a)) (snd (shape a))
  | QSize => ANat (size a)
  | QIsEmpty => ABool (is_empty a)
  | QGet1 r c => AElem (get2 a r c)
  | QGet2 r c => AElem (get_rc a r c)
  | QRows => ARows (rows a)
  | QIntoIter => ARows (into_iter a)
  | QMax => AOpt (amax a)
  | QMin => AOpt (amin a)
  | QEqNested other => AEq (eq_nested a other)
  | QDisplay => AText (display dec_Z a)
  end.

Fixpoint list_eqb {A : Type} (eqb : A -> A -> bool) (l1 l2 : list A) : bool :=
  match l1, l2 with
  | [], [] => true
  | x :: l1', y :: l2' => eqb x y && list_eqb eqb l1' l2'
  | _, _ => false
  end.

Definition display_s (g : grid) : list N :=
  if (gh g =? 0) || (gw g =? 0) then cp_empty
  else
    let colw c := fold_left Nat.max (map (fun r => length (dec_Z (gget g r c))) (seq 0 (gh g))) 0 in
    concat (map (fun r =>
      (if r =? 0 then cp_open0 else cp_open)
      ++ concat (map (fun c => pad_left (colw c) (dec_Z (gget g r c))
                               ++ (if negb (c + 1 =? gw g) then cp_sep else [])) (seq 0 (gw g)))
      ++ (if r + 1 =? gh g then cp_close_last else cp_close)) (seq 0 (gh g))).

Definition observe_s (g : grid) (q : query) : answer :=
  let empty := (gh g =? 0) || (gw g =? 0) in
  match q with
  | QShape => AShape (gh g) (gw g)
  | QSize => ANat (gh g * gw g)
  | QIsEmpty => ABool empty
  | QGet1 r c | QGet2 r c => AElem (if in_grid g r c then Ok (gget g r c) else Panic WIndex)
  | QRows | QIntoIter => ARows (Ok (cells g))
  | QMax => AOpt (Ok (if empty then None else reduce Z.max (concat (cells g))))
  | QMin => AOpt (Ok (if empty then None else reduce Z.min (concat (cells g))))
  | QEqNested other => AEq (Ok (list_eqb (list_eqb Z.eqb) (cells g) other))
  | QDisplay => AText (Ok (display_s g))
  end.

Definition run_c (a : arr Z) (ops : list op) : arr Z := fold_left (fun s o => fst (step_c s o)) ops a.
Definition run_s (g : grid) (ops : list op) : grid := fold_left (fun s o => fst (step_s s o)) ops g.
(* the visible outcomes along a history *)
Fixpoint trace_c (a : arr Z) (ops : list op) : list (res unit) :=
  match ops with
  | [] => []
  | o :: ops' => snd (step_c a o) :: trace_c (fst (step_c a o)) ops'
  end.
Fixpoint trace_s (g : grid) (ops : list op) : list (res unit) :=
  match ops with
  | [] => []
  | o :: ops' => snd (step_s g o) :: trace_s (fst (step_s g o)) ops'
  end.

(* the element functions the correspondence harness passes to map / rows_mut
   (entries stay below 100 in absolute value; Rust's `%` truncates like Z.rem) *)
Definition map_fn (p q : Z) (x : Z) : Z := Z.rem (x * p + q) 100.
Definition rows_fn (p q : Z) (i j : nat) (x : Z) : Z :=
  Z.rem (x * p + q + 3 * Z.of_nat i + Z.of_nat j) 100.
