(* Model/RefExpr.v — the REFERENCE: what an expression text conventionally means.
   Independent of the parser under verification (it shares only the token and
   tree types).  Two parts:

   1. [denote]: the value of a tree at a point, [None] where it is undefined
      (division by zero, 0 to a negative power, negative base with a fractional
      exponent, factorial of a non-natural, tan / cot at a pole, log of a
      non-positive number, an operator tag in a position where it means nothing).

   2. [ref_read]: a plain stratified recursive-descent reader of token lists

        sum      ::= product  { (+ | -) product }          left-associative
        product  ::= unary    { ( * | / | % | · ) unary }   left-associative
        unary    ::= - unary  |  juxt                        minus: the following factor only
        juxt     ::= power    { power }                      juxtaposition = product, tighter than * /
        power    ::= postfix  { ^ exponent }                 left-associative (test_valid_multiple_exponents)
        exponent ::= - exponent  |  postfix                  a signed exponent is a signed atom: 2^-x^2 = (2^-x)^2
        postfix  ::= atom     { ! }
        atom     ::= number | variable | constant | ( sum ) | function ( sum )

      [rd n l ts] reads one phrase of level [l] from the front of [ts] and
      returns the tree and the remaining tokens; [n] bounds the nesting.  The
      trees carry paren = false everywhere (the flag has no meaning). *)
From Coq Require Import ZArith NArith List Bool Reals Lra.
From SV Require Import Base.Num Base.Outcome Base.Str Model.Expr.
Import ListNotations.

(* ---- 1. values ------------------------------------------------------------------ *)
Local Open Scope R_scope.

Definition env := str -> R.

Definition is_integer (y : R) : Prop := y = IZR (Int_part y).
Definition is_integer_dec (y : R) : {is_integer y} + {~ is_integer y} := Req_EM_T y (IZR (Int_part y)).

(* x ^ y *)
Definition pow_val (x y : R) : option R :=
  if is_integer_dec y then
    let n := Int_part y in
    if Req_EM_T x 0 then (if (n <? 0)%Z then None else if (n =? 0)%Z then Some 1 else Some 0)
    else Some (powerRZ x n)
  else if Rlt_dec 0 x then Some (Rpower x y)
  else if Req_EM_T x 0 then (if Rlt_dec 0 y then Some 0 else None)
  else None.

(* x ! *)
Definition fact_val (x : R) : option R :=
  if is_integer_dec x then
    (if (Int_part x <? 0)%Z then None else Some (INR (fact (Z.to_nat (Int_part x)))))
  else None.

(* x % y, remainder of the division truncated towards zero (Rust's % on f64) *)
Definition trunc (q : R) : Z := if Rle_dec 0 q then Int_part q else (- Int_part (- q))%Z.
Definition rem_val (x y : R) : option R :=
  if Req_EM_T y 0 then None else Some (x - y * IZR (trunc (x / y))).

Definition cnst_val (c : cnst) : R :=
  match c with KPi => PI | KE => exp 1 | KTau => 2 * PI | KPhi => (1 + sqrt 5) / 2 end.

Definition func_val (f : func) (x : R) : option R :=
  match f with
  | FSin => Some (sin x)
  | FCos => Some (cos x)
  | FTan => if Req_EM_T (cos x) 0 then None else Some (tan x)
  | FCot => if Req_EM_T (sin x) 0 then None else Some (cos x / sin x)
  | FLog => if Rlt_dec 0 x then Some (ln x / ln 10) else None
  | FLn => if Rlt_dec 0 x then Some (ln x) else None
  end.

Definition bin_val (o : oper) (a b : R) : option R :=
  match o with
  | OAdd => Some (a + b)
  | OSub => Some (a - b)
  | OMul | OCDot => Some (a * b)
  | ODiv => if Req_EM_T b 0 then None else Some (a / b)
  | ORem => rem_val a b
  | OCaret => pow_val a b
  | OFac => None
  end.

Definition obind {A B} (o : option A) (f : A -> option B) : option B :=
  match o with Some a => f a | None => None end.

Fixpoint denote (e : expr R) (rho : env) : option R :=
  match e with
  | ENum x => Some x
  | EVar v => Some (rho v)
  | EConst c => Some (cnst_val c)
  | EFun f i => obind (denote i rho) (func_val f)
  | EPre o v => match o with OSub => option_map Ropp (denote v rho) | _ => None end
  | EPost o v => match o with OFac => obind (denote v rho) fact_val | _ => None end
  | EBin o l r _ => obind (denote l rho) (fun a => obind (denote r rho) (fun b => bin_val o a b))
  end.

Local Close Scope R_scope.

(* ---- 2. the reader ---------------------------------------------------------------- *)
Section Reader.
  Context {T : Type}.
  Notation tok := (token T).
  Notation tree := (expr T).
  Definition phrase : Type := option (tree * list tok).

  Inductive level := LSum | LProduct | LUnary | LJuxt | LPower | LExponent | LPostfix | LAtom.

  Definition sum_op (t : tok) : option oper :=
    match t with TOp OAdd => Some OAdd | TOp OSub => Some OSub | _ => None end.
  Definition product_op (t : tok) : option oper :=
    match t with
    | TOp OMul => Some OMul | TOp ODiv => Some ODiv | TOp ORem => Some ORem
    | TOp OCDot => Some OMul                      (* an explicit · is a multiplication sign *)
    | _ => None
    end.
  Definition power_op (t : tok) : option oper :=
    match t with TOp OCaret => Some OCaret | _ => None end.
  Definition starts_atom (t : tok) : bool :=
    match t with TNum _ | TVar _ | TConst _ | TFun _ | TLParen => true | _ => false end.

  (* acc op x op x ... , left-associative; [k] bounds the number of operands *)
  Fixpoint chain (k : nat) (operand : list tok -> phrase) (opof : tok -> option oper)
           (acc : tree) (ts : list tok) : phrase :=
    match k with
    | O => None
    | S k' =>
      match ts with
      | t :: r =>
        match opof t with
        | Some o => match operand r with
                    | Some (x, r') => chain k' operand opof (EBin o acc x false) r'
                    | None => None
                    end
        | None => Some (acc, ts)
        end
      | [] => Some (acc, [])
      end
    end.

  (* acc x x ... : juxtaposed factors multiply *)
  Fixpoint juxt_chain (k : nat) (operand : list tok -> phrase) (acc : tree) (ts : list tok) : phrase :=
    match k with
    | O => None
    | S k' =>
      match ts with
      | t :: _ =>
        if starts_atom t then
          match operand ts with
          | Some (x, r') => juxt_chain k' operand (EBin OMul acc x false) r'
          | None => None
          end
        else Some (acc, ts)
      | [] => Some (acc, [])
      end
    end.

  Fixpoint bangs (acc : tree) (ts : list tok) : tree * list tok :=
    match ts with
    | TOp OFac :: r => bangs (EPost OFac acc) r
    | _ => (acc, ts)
    end.

  Fixpoint rd (n : nat) (l : level) (ts : list tok) : phrase :=
    match n with
    | O => None
    | S n' =>
      match l with
      | LSum =>
        match rd n' LProduct ts with
        | Some (x, r) => chain n' (rd n' LProduct) sum_op x r
        | None => None
        end
      | LProduct =>
        match rd n' LUnary ts with
        | Some (x, r) => chain n' (rd n' LUnary) product_op x r
        | None => None
        end
      | LUnary =>
        match ts with
        | TOp OSub :: r =>
          match rd n' LUnary r with Some (x, r') => Some (EPre OSub x, r') | None => None end
        | _ => rd n' LJuxt ts
        end
      | LJuxt =>
        match rd n' LPower ts with
        | Some (x, r) => juxt_chain n' (rd n' LPower) x r
        | None => None
        end
      | LPower =>
        match rd n' LPostfix ts with
        | Some (x, r) => chain n' (rd n' LExponent) power_op x r
        | None => None
        end
      | LExponent =>
        match ts with
        | TOp OSub :: r =>
          match rd n' LExponent r with Some (x, r') => Some (EPre OSub x, r') | None => None end
        | _ => rd n' LPostfix ts
        end
      | LPostfix =>
        match rd n' LAtom ts with
        | Some (x, r) => Some (bangs x r)
        | None => None
        end
      | LAtom =>
        match ts with
        | TNum x :: r => Some (ENum x, r)
        | TVar v :: r => Some (EVar v, r)
        | TConst c :: r => Some (EConst c, r)
        | TLParen :: r =>
          match rd n' LSum r with
          | Some (x, TRParen :: r') => Some (x, r')
          | _ => None
          end
        | TFun f :: TLParen :: r =>
          match rd n' LSum r with
          | Some (x, TRParen :: r') => Some (EFun f x, r')
          | _ => None
          end
        | _ => None
        end
      end
    end.

  (* the whole list must be one sum; 8 levels per token is enough nesting *)
  Definition ref_fuel (ts : list tok) : nat := 8 * length ts + 8.
  Definition ref_read (ts : list tok) : option tree :=
    match rd (ref_fuel ts) LSum ts with
    | Some (x, []) => Some x
    | _ => None
    end.
End Reader.
