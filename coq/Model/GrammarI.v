(* Model/GrammarI.v — the DOCUMENTED multivariate polynomial language, as a
   generative definition that does not mention the parser:

     dec   ::= digit+ | digit* '.' digit*            (at least one digit)
     coef  ::= dec | dec '/' dec                     (denominator value non-zero)
     expo  ::= ['-'] dec | ['-'] dec '/' dec         (denominator value non-zero)
     var   ::= letter [ '^' expo ]                   (ASCII letter)
     term  ::= [coef] var*                           (not empty)
     text  ::= [ '+' | '-' ] term ( ('+' | '-') term )*     and the empty text

   [render] spells a source tree (no blanks: blanks are removed by the reader
   before anything else); [terms_of] / [vars_of] give the VALUE a reader of
   ordinary algebra computes from the tree: the coefficient (1 when absent, the
   quotient for a fraction, negated for a term introduced by '-'), and for each
   letter of the term, in alphabetical order, the sum (in source order) of the
   exponents written on that letter (1 when absent).  Definitions only. *)
From Coq Require Import ZArith NArith List Bool.
From Coq Require String Ascii.
From SV Require Import Base.Num Base.Outcome Base.Str Model.Poly.
Import ListNotations.

(* string literals for examples: "2x^2" -> code points *)
Fixpoint lit (s : String.string) : str :=
  match s with
  | String.EmptyString => []
  | String.String a s' => Ascii.N_of_ascii a :: lit s'
  end.
Arguments lit _%string_scope.

(* ---- syntax trees ---------------------------------------------------------- *)
(* a plain decimal spelling: integer digits, optionally '.' and fraction digits *)
Record dec := { d_int : str; d_frac : option str }.

Inductive coef := CDec (d : dec) | CFrac (a b : dec).
Inductive emag := EDec (d : dec) | EFrac (a b : dec).
Definition expo := (bool * emag)%type.                 (* (negative?, magnitude) *)
Definition mvar := (N * option expo)%type.             (* letter, optional exponent *)
Definition mterm := (option coef * list mvar)%type.
Definition msrc := list (bool * mterm).                (* (introduced by '-'?, term) *)

(* ---- spelling -------------------------------------------------------------- *)
Definition render_dec (d : dec) : str :=
  d_int d ++ match d_frac d with None => [] | Some f => c_dot :: f end.
Definition render_coef (c : option coef) : str :=
  match c with
  | None => []
  | Some (CDec d) => render_dec d
  | Some (CFrac a b) => render_dec a ++ c_slash :: render_dec b
  end.
Definition render_emag (m : emag) : str :=
  match m with
  | EDec d => render_dec d
  | EFrac a b => render_dec a ++ c_slash :: render_dec b
  end.
Definition sign_str (neg : bool) : str := if neg then [c_minus] else [].
Definition render_expo (e : expo) : str := sign_str (fst e) ++ render_emag (snd e).
Definition render_var (v : mvar) : str :=
  fst v :: match snd v with None => [] | Some e => c_caret :: render_expo e end.
Definition render_vars (vs : list mvar) : str := flat_map render_var vs.
Definition render_term (t : mterm) : str := render_coef (fst t) ++ render_vars (snd t).
(* a term with its own sign, as it stands between two '+' after "-" -> "+-" *)
Definition render_signed (x : bool * mterm) : str := sign_str (fst x) ++ render_term (snd x).
(* the whole text; [lead] = write the optional '+' before a positive first term *)
Definition render (lead : bool) (src : msrc) : str :=
  match src with
  | [] => []
  | (neg, t) :: rest =>
      (if neg then [c_minus] else if lead then [c_plus] else []) ++ render_term t ++
      flat_map (fun x : bool * mterm => (if fst x then c_minus else c_plus) :: render_term (snd x)) rest
  end.

(* ---- sorted set of letters -------------------------------------------------- *)
Fixpoint insert_letter (x : N) (l : list N) : list N :=
  match l with
  | [] => [x]
  | y :: l' => if (x <? y)%N then x :: l else if (x =? y)%N then l else y :: insert_letter x l'
  end.
Definition letter_set (ls : list N) : list N := fold_right insert_letter [] ls.

Definition wf_dec (d : dec) : bool :=
  all_digits (d_int d) &&
  match d_frac d with
  | None => negb (Nat.eqb (length (d_int d)) 0)
  | Some f => all_digits f && negb (Nat.eqb (length (d_int d) + length f) 0)
  end.

Section Values.
  Context {T : Type} {NT : Num T}.

  (* value of a decimal spelling: the correctly rounded decimal (nofdec) *)
  Definition dec_val (d : dec) : T :=
    match d_frac d with
    | None => nofdec (digits_val (d_int d)) 0
    | Some f => nofdec (digits_val (d_int d ++ f)) (- Z.of_nat (length f))
    end.
  Definition signed (neg : bool) (x : T) : T := if neg then nneg x else x.

  Definition coef_val (neg : bool) (c : option coef) : T :=
    match c with
    | None => signed neg n1
    | Some (CDec d) => signed neg (dec_val d)
    | Some (CFrac a b) => ndiv (signed neg (dec_val a)) (dec_val b)
    end.
  Definition expo_val (e : expo) : T :=
    match snd e with
    | EDec d => signed (fst e) (dec_val d)
    | EFrac a b => ndiv (signed (fst e) (dec_val a)) (dec_val b)
    end.
  Definition var_val (v : mvar) : N * T :=
    (fst v, match snd v with None => n1 | Some e => expo_val e end).

  (* f64::is_finite in class operations (x - x = 0 exactly for finite x); always true in R and Z *)
  Definition finite (x : T) : bool := neqb (nsub x x) n0.

  (* exponents written on letter l, in source order, and their sum from the left *)
  Definition exps_of (l : N) (vs : list (N * T)) : list T :=
    map snd (filter (fun p => N.eqb (fst p) l) vs).
  Definition sum_exps (es : list T) : T :=
    match es with [] => n0 | e :: es' => fold_left nadd es' e end.
  (* one entry per distinct letter, alphabetically *)
  Definition canon_vars (vs : list (N * T)) : list (name * T) :=
    map (fun l => ([l], sum_exps (exps_of l vs))) (letter_set (map fst vs)).

  Definition term_of (x : bool * mterm) : term T :=
    {| t_coef := coef_val (fst x) (fst (snd x));
       t_vars := canon_vars (map var_val (snd (snd x))) |}.
  Definition terms_of (src : msrc) : list (term T) := map term_of src.

  (* well-formedness.  Syntactic part: digit strings are digit strings, letters are ASCII
     letters, a term is not empty.  Arithmetic part, "in the arithmetic at hand": denominators
     are non-zero and finite, every numeral, quotient and summed exponent is finite (nothing to
     check in R; in binary64 it excludes numerals beyond 1.8e308 and denominators that underflow
     to 0).  The sign of the term belongs to its coefficient ("-3/4" is (-3)/4). *)
  Definition wf_frac (neg : bool) (a b : dec) : bool :=
    wf_dec a && wf_dec b && nneb (dec_val b) n0 && finite (dec_val b)
    && finite (ndiv (signed neg (dec_val a)) (dec_val b)).
  Definition wf_coef (neg : bool) (c : coef) : bool :=
    match c with
    | CDec d => wf_dec d && finite (signed neg (dec_val d))
    | CFrac a b => wf_frac neg a b
    end.
  Definition wf_expo (e : expo) : bool :=
    match snd e with
    | EDec d => wf_dec d && finite (signed (fst e) (dec_val d))
    | EFrac a b => wf_frac (fst e) a b
    end.
  Definition wf_var (v : mvar) : bool :=
    is_ascii_letter (fst v) && match snd v with None => true | Some e => wf_expo e end.
  Definition wf_term (x : bool * mterm) : bool :=
    match fst (snd x) with None => true | Some c => wf_coef (fst x) c end
    && forallb wf_var (snd (snd x))
    && negb (match fst (snd x), snd (snd x) with None, [] => true | _, _ => false end)
    && forallb (fun vp => finite (snd vp)) (t_vars (term_of x)).
  Definition wf_src (src : msrc) : bool := forallb wf_term src.
End Values.

(* strict order of variable names (Rust String order on single-letter names) *)
Definition name_lt (a b : name) : Prop := name_leb a b = true /\ name_eqb a b = false.

Definition letters_of (src : msrc) : list N := flat_map (fun x => map fst (snd (snd x))) src.
Definition vars_of (src : msrc) : list name := map (fun l => [l]) (letter_set (letters_of src)).

(* ---- the common univariate sub-language (for the agreement clause) ---------- *)
(* one letter, decimal coefficients, exponents written as plain digit strings *)
Inductive uterm := UConst (d : dec) | UVar (c : option dec) (e : option str).
Definition usrc := list (bool * uterm).
Definition wf_uterm (t : uterm) : bool :=
  match t with
  | UConst d => wf_dec d
  | UVar c e =>
      match c with None => true | Some d => wf_dec d end &&
      match e with
      | None => true
      | Some ds => all_digits ds && negb (Nat.eqb (length ds) 0) && (digits_val ds <=? 65535)%Z
      end
  end.
Definition wf_usrc (u : usrc) : bool := forallb (fun x => wf_uterm (snd x)) u.
Definition to_mterm (v : N) (t : uterm) : mterm :=
  match t with
  | UConst d => (Some (CDec d), [])
  | UVar c e =>
      (option_map CDec c,
       [(v, option_map (fun ds => (false, EDec {| d_int := ds; d_frac := None |})) e)])
  end.
Definition to_msrc (v : N) (u : usrc) : msrc := map (fun x => (fst x, to_mterm v (snd x))) u.
