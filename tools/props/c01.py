# C01 — univariate parser: grammar-directed generator, exact-rational oracle, comparison.
from fractions import Fraction
import math
from tools.lib import Case, hex2f, f2hex, cps, is_hexfloat

ID = 'C01'
EPS = Fraction(1, 2 ** 52)          # machine epsilon; unit roundoff u = EPS/2
U = EPS / 2
TINY = Fraction(1, 2 ** 1074)
RULE = ('grammar-directed strings of the documented univariate language: 1-12 signed terms, powers 0-12 with repeats '
        '(plus the edge powers 65535/65536), every coefficient spelling (none, "3", "3.", ".5", "007", "12.50", '
        '17-significant-digit and 25-digit decimals, zeros), exponents with leading zeros, variable letter from ASCII letters '
        'and the non-ASCII alphabetic table of Base/Str.v, 0-3 space/tab/newline/U+00A0/U+2003 at every token position '
        '(and, in class innerspace, inside numbers), optional leading "+"; commands parse and eval (8 points); '
        'plus a malformed stream (random edits of grammatical strings, including inserted 310-digit runs), an overflow class '
        '(numerals at and beyond the f64 range, sums of like powers that overflow in one order and not in another) '
        'and one Unicode-table sanity case. '
        'distinct = distinct case line; non-trivial = grammatical string with >= 2 terms')
TRUSTED = ['extraction of the float instance (ExtrOcamlBasic, ExtrOCamlFloats, ExtrOCamlInt63) and ocaml/c01.ml',
           'Rust harness harness/src/bin/c01.rs', 'exact-rational oracle tools/props/c01.py',
           'Unicode: the model is parametric in is_alphabetic (USane U); the executable table uclass_tab is measured '
           'against char::is_alphabetic/is_numeric/is_whitespace by the classes case']
ASSUMPTIONS = ['c01_eval_sum / c01_meaning are about the R instance (exact arithmetic); rounding envelopes are measured, not proved',
               'decimal -> f64 is correctly rounded (nofdec); f64::powi == compiler-rt square-and-multiply (npowi): measured bit-for-bit',
               'USane U: no alphabetic code point is an ASCII digit or one of . ^ + - (true of Unicode; proved for uclass_tab)']

ASCII_LETTERS = [chr(c) for c in list(range(65, 91)) + list(range(97, 123))]
TAB_ALPHABETIC = [170, 181, 186, 223, 233, 241, 252, 960, 964, 981, 937, 945, 1078, 1488, 20013, 12354, 8450, 8544, 12295]
TAB_NUMERIC = [178, 179, 185, 188, 189, 190, 1635, 2406, 8544, 9312, 65297, 12295]
WS = [' ', '\t', '\n', '\u00a0', '\u2003']
WS_ALL = [9, 10, 11, 12, 13, 32, 133, 160, 5760] + list(range(8192, 8203)) + [8232, 8233, 8239, 8287, 12288]
POINTS = [0.0, 1.0, -1.0, 0.5, -0.5, 2.0, -2.5, 10.0, -3.0, 0.1, 1e-3, 100.0, 1e6, -1e-6, 1.0000000000000002, 0.9999999999999999]


# ----------------------------------------------------------------- generator
def coef_spelling(rng, allow_none):
    kinds = ['int', 'intdot', 'dotfrac', 'lead0', 'dec', 'long17', 'long25', 'zero', 'one']
    if allow_none:
        kinds += ['none', 'none', 'none']
    k = rng.choice(kinds)
    if k == 'none':
        return None
    if k == 'int':
        return str(rng.randint(0, 999))
    if k == 'intdot':
        return str(rng.randint(0, 999)) + '.'
    if k == 'dotfrac':
        return '.' + ''.join(rng.choice('0123456789') for _ in range(rng.randint(1, 6)))
    if k == 'lead0':
        return '0' * rng.randint(1, 3) + str(rng.randint(0, 99))
    if k == 'dec':
        return str(rng.randint(0, 9999)) + '.' + ''.join(rng.choice('0123456789') for _ in range(rng.randint(1, 6)))
    if k == 'long17':
        d = ''.join(rng.choice('0123456789') for _ in range(17))
        p = rng.randint(0, 17)
        return d[:p] + '.' + d[p:]
    if k == 'long25':
        d = ''.join(rng.choice('0123456789') for _ in range(25))
        p = rng.randint(0, 25)
        return d[:p] + '.' + d[p:] if rng.random() < 0.8 else d
    if k == 'zero':
        return rng.choice(['0', '0.', '.0', '0.0', '000'])
    return rng.choice(['1', '1.', '1.0', '01'])


def gen_term(rng, first):
    neg = rng.random() < 0.45
    power = rng.choice([0, 0, 1, 1, 2, 2, 3, 4, 5, 6, 7, 8, 9, 10, 11, 12, rng.randint(0, 12)])
    if power == 0 and rng.random() < 0.7:
        c = coef_spelling(rng, False)
        return [int(neg), c, 0, None]
    c = coef_spelling(rng, True)
    if power == 1 and rng.random() < 0.7:
        return [int(neg), c, 1, None]
    e = '0' * rng.choice([0, 0, 0, 1, 2]) + str(power)
    return [int(neg), c, 1, e]


def tokens_of(terms, var, lead_plus):
    toks = []
    for i, (neg, c, uv, e) in enumerate(terms):
        if neg:
            toks.append('-')
        elif i > 0 or lead_plus:
            toks.append('+')
        if c is not None:
            toks.append(c)
        if uv:
            toks.append(var)
            if e is not None:
                toks.append('^')
                toks.append(e)
    return toks


def spaced(rng, toks, mode):
    """mode: none | outer (between tokens) | inner (also inside numbers)"""
    if mode == 'none':
        return ''.join(toks)
    out = []

    def ws():
        return ''.join(rng.choice(WS) for _ in range(rng.choice([0, 0, 1, 1, 2, 3])))
    out.append(ws())
    for t in toks:
        if mode == 'inner' and len(t) > 1:
            out.append(''.join(ch + (rng.choice(WS) if rng.random() < 0.3 else '') for ch in t))
        else:
            out.append(t)
        out.append(ws())
    return ''.join(out)


def grammatical(rng, nterms=None):
    n = nterms or rng.choice([1, 1, 2, 2, 3, 3, 4, 5, 6, 8, 10, 12, rng.randint(1, 12)])
    terms = [gen_term(rng, i == 0) for i in range(n)]
    if rng.random() < 0.5:
        var = rng.choice(ASCII_LETTERS)
    else:
        var = chr(rng.choice(TAB_ALPHABETIC))
    lead_plus = (not terms[0][0]) and rng.random() < 0.25
    mode = rng.choice(['none', 'outer', 'outer', 'outer', 'inner'])
    s = spaced(rng, tokens_of(terms, var, lead_plus), mode)
    cls = 'grammar' if mode != 'inner' else 'innerspace'
    if not any(t[2] for t in terms):
        cls = 'constant'
    return s, {'terms': terms, 'var': ord(var), 'kind': 'grammar'}, cls


MUT_ALPHABET = list('0123456789..^^++--xyzeE*/()# \t') + ['\u00b2', '\u00bd', '\u0663', '\u00a0', '\u2003', '\u03c0', '@', 'inf', 'nan', '1e5', '^-', '--', '++', '-+', '9' * 310, '1' + '0' * 309]


def mutate(rng, s):
    k = rng.choice([1, 1, 1, 2, 3])
    for _ in range(k):
        op = rng.choice(['del', 'ins', 'ins', 'dup', 'swap', 'rep'])
        if not s:
            op = 'ins'
        i = rng.randrange(len(s) + 1)
        if op == 'del' and s:
            i = min(i, len(s) - 1)
            s = s[:i] + s[i + 1:]
        elif op == 'ins':
            s = s[:i] + rng.choice(MUT_ALPHABET) + s[i:]
        elif op == 'dup' and s:
            i = min(i, len(s) - 1)
            s = s[:i] + s[i] + s[i:]
        elif op == 'swap' and len(s) >= 2:
            i = min(i, len(s) - 2)
            s = s[:i] + s[i + 1] + s[i] + s[i + 2:]
        elif op == 'rep' and s:
            i = min(i, len(s) - 1)
            s = s[:i] + rng.choice(MUT_ALPHABET) + s[i + 1:]
    return s


def gen(rng, tier):
    n_gram = 1400 if tier == 'quick' else 30000
    n_mal = 900 if tier == 'quick' else 20000
    # the executable Unicode table against Rust's char predicates (sanity of the correspondence set-up)
    allc = list(range(0, 256)) + TAB_ALPHABETIC + TAB_NUMERIC + WS_ALL
    yield Case('classes ' + cps(''.join(chr(c) for c in allc)), 'classes', {'kind': 'classes', 'cps': allc})
    # fixed strings: the test-suite style, the empty text, edges of the exponent cap
    fixed = [
        ('3x^2+2x-5', [[0, '3', 1, '2'], [0, '2', 1, None], [1, '5', 0, None]], 'x'),
        ('-x + 4', [[1, None, 1, None], [0, '4', 0, None]], 'x'),
        ('007y^02 - .5y+3.', [[0, '007', 1, '02'], [1, '.5', 1, None], [0, '3.', 0, None]], 'y'),
        ('x', [[0, None, 1, None]], 'x'),
        ('+x', [[0, None, 1, None]], 'x'),
        ('-0x^3', [[1, '0', 1, '3']], 'x'),
        ('4', [[0, '4', 0, None]], 'x'),
        ('x^0+x^00', [[0, None, 1, '0'], [0, None, 1, '00']], 'x'),
        ('x^65535', [[0, None, 1, '65535']], 'x'),
        ('2.5x^065535-x', [[0, '2.5', 1, '065535'], [1, None, 1, None]], 'x'),
        ('0.1x+0.2x+0.3x', [[0, '0.1', 1, None], [0, '0.2', 1, None], [0, '0.3', 1, None]], 'x'),
    ]
    for s, terms, v in fixed:
        meta = {'terms': terms, 'var': ord(v), 'kind': 'grammar'}
        yield Case('parse ' + cps(s), 'fixed', meta)
        if max(int(t[3]) if t[3] else 0 for t in terms) <= 12:
            xs = POINTS[:8]
            yield Case('eval %s %d %s' % (cps(s), len(xs), ' '.join(f2hex(x) for x in xs)), 'fixed',
                       dict(meta, xs=[f2hex(x) for x in xs]))
    for s in ['', ' ', '\u2003\n', '+', '-', 'x^65536', 'x^18446744073709551615', 'x^18446744073709551616',
              'x^99999999999999999999999999', '2x3', 'xy', 'x#', 'x*x', 'x/2', '2(x+1)', 'x^2^3', 'x -', 'x +', 'x--y',
              'x+inf', 'inf', 'nan', '1e5', 'NaN', 'x^+2', 'x^-2', '3.x', '.x', '3..x', '1.2.3', '--x', '+-x', '-+x',
              '\u00b2x', 'x\u00b2', '3\u0663x', '\u03c0\u03c0', 'e', '2e', '2e3', 'E^2']:
        yield Case('parse ' + cps(s), 'malformed-fixed', {'kind': 'malformed'})
    # 59b028d: numerals beyond the range of f64 and overflowing sums are errors, never infinite coefficients
    big = '9' * 308
    fmax = '17976931348623157' + '0' * 292                    # f64::MAX
    half = str(2 ** 1024 - 2 ** 970)                           # the tie between f64::MAX and 2^1024: rounds to infinity
    over = [
        ('9' * 400 + 'x', [[0, '9' * 400, 1, None]]), ('9' * 400, [[0, '9' * 400, 0, None]]),
        ('-' + '9' * 400 + 'x^2', [[1, '9' * 400, 1, '2']]), ('x+' + '1' + '0' * 309, [[0, None, 1, None], [0, '1' + '0' * 309, 0, None]]),
        (big + 'x+' + big + 'x', [[0, big, 1, None], [0, big, 1, None]]),
        ('-' + big + 'x-' + big + 'x', [[1, big, 1, None], [1, big, 1, None]]),
        (big + 'x-' + big + 'x+' + big + 'x', [[0, big, 1, None], [1, big, 1, None], [0, big, 1, None]]),
        (big + 'x+' + big + 'x-' + big + 'x', [[0, big, 1, None], [0, big, 1, None], [1, big, 1, None]]),
        (big + 'x+' + big + 'x^2', [[0, big, 1, None], [0, big, 1, '2']]),
        (fmax + 'x', [[0, fmax, 1, None]]), (fmax + '.5', [[0, fmax + '.5', 0, None]]),
        (half, [[0, half, 0, None]]), (str(2 ** 1024 - 2 ** 970 - 1), [[0, str(2 ** 1024 - 2 ** 970 - 1), 0, None]]),
        (half + '.000x', [[0, half + '.000', 1, None]]),
        (fmax + 'x+' + fmax[:-280] + 'x', [[0, fmax, 1, None], [0, fmax[:-280], 1, None]]),
        ('1' + '0' * 308 + '.' + '0' * 50 + 'x', [[0, '1' + '0' * 308 + '.' + '0' * 50, 1, None]]),
    ]
    for s, terms in over:
        yield Case('parse ' + cps(s), 'overflow', {'terms': terms, 'var': ord('x'), 'kind': 'overflow'})
    for _ in range(n_gram):
        s, meta, cls = grammatical(rng)
        yield Case('parse ' + cps(s), cls, meta)
        xs = [rng.choice(POINTS) if rng.random() < 0.5 else rng.uniform(-3, 3) for _ in range(8)]
        yield Case('eval %s %d %s' % (cps(s), len(xs), ' '.join(f2hex(x) for x in xs)), cls,
                   dict(meta, xs=[f2hex(x) for x in xs]))
    for _ in range(n_mal):
        s, _, _ = grammatical(rng, rng.choice([1, 2, 3, 4]))
        s = mutate(rng, s)
        if rng.random() < 0.8:
            yield Case('parse ' + cps(s), 'malformed', {'kind': 'malformed'})
        else:
            xs = [rng.choice(POINTS) for _ in range(3)]
            yield Case('eval %s %d %s' % (cps(s), len(xs), ' '.join(f2hex(x) for x in xs)), 'malformed', {'kind': 'malformed'})


# ----------------------------------------------------------------- helpers
def text_of(case):
    t = case.line.split()
    n = int(t[1])
    return ''.join(chr(int(c)) for c in t[2:2 + n])


def describe(case):
    m = case.meta or {}
    d = {'op': case.line.split()[0], 'text': text_of(case) if case.line.split()[0] != 'classes' else '(table)',
         'kind': m.get('kind')}
    if m.get('kind') in ('grammar', 'overflow'):
        d['terms'] = m['terms']
        d['var'] = chr(m['var'])
    return d


def nontrivial(case, impl):
    m = case.meta or {}
    return m.get('kind') in ('grammar', 'overflow') and len(m['terms']) >= 2


def dec_value(c):
    """exact value of a plain decimal spelling (digits with an optional '.')"""
    if '.' in c:
        ip, fp = c.split('.')
    else:
        ip, fp = c, ''
    return Fraction(int((ip + fp) or '0'), 10 ** len(fp))


def source_terms(meta):
    """[(exact signed coefficient, power)] read off the rendered source, conventionally"""
    out = []
    for neg, c, uv, e in meta['terms']:
        val = Fraction(1) if c is None else dec_value(c)
        if neg:
            val = -val
        p = 0 if not uv else (1 if e is None else int(e))
        out.append((val, p))
    return out


# ----------------------------------------------------------------- oracle
def judge(case, impl):
    m = case.meta or {}
    cmd = case.line.split()[0]
    if impl == 'panic' or impl.startswith('abort'):
        return 'panic instead of a value or an error'
    if impl.startswith('entrypoint-mismatch'):
        return 'free function and PolynomialTraits method disagree: ' + impl[:120]
    if m.get('kind') == 'classes':
        bits = impl.split()
        for cp, b in zip(m['cps'], bits):
            if cp in TAB_ALPHABETIC and b[0] != '1':
                return 'table entry U+%04X is not alphabetic for Rust' % cp
            if chr(cp) in '0123456789.^+-' and b[0] != '0':
                return 'USane violated by Rust: %r is alphabetic' % chr(cp)
        return None
    if m.get('kind') not in ('grammar', 'overflow'):
        if not (impl.startswith('ok') or impl.startswith('err ')):
            return 'neither a value nor an error: ' + impl[:80]
        if cmd == 'parse' and impl.startswith('ok'):
            for h in impl.split()[3:]:
                if h == 'nan' or math.isinf(hex2f(h)):
                    return 'accepted text has a non-finite coefficient'
        return None
    if m.get('kind') == 'overflow' and impl.startswith('err '):
        # beyond the range of f64: an error is the documented answer; if accepted, the values must be right (below)
        terms = source_terms(m)
        if all(abs(v) < Fraction(10) ** 307 for v, _ in terms) and sum(abs(v) for v, _ in terms) < Fraction(10) ** 307:
            return 'string of the documented language within the range of f64 rejected: ' + impl[:80]
        return None
    # ---- grammatical string: must be accepted with the documented meaning
    if not impl.startswith('ok'):
        return 'string of the documented language rejected: ' + impl[:80]
    terms = source_terms(m)
    maxp = max(p for _, p in terms)
    uses_var = any(t[2] for t in m['terms'])
    by_pow = {}
    for v, p in terms:
        by_pow.setdefault(p, []).append(v)
    t = impl.split()
    if cmd == 'parse':
        want_var = str(m['var']) if uses_var else '-'
        if t[1] != want_var:
            return 'variable is %s, expected %s' % (t[1], want_var)
        n = int(t[2])
        if n != maxp + 1:
            return 'coefficient vector has length %d, expected max power + 1 = %d' % (n, maxp + 1)
        coefs = t[3:]
        if len(coefs) != n:
            return 'malformed output'
        for k in range(n):
            if not is_hexfloat(coefs[k]) or coefs[k] == 'nan':
                return 'coefficient %d is not a number' % k
            c = hex2f(coefs[k])
            if math.isinf(c):
                return 'coefficient %d is infinite' % k
            vals = by_pow.get(k)
            if not vals:
                if c != 0.0:
                    return 'coefficient of the missing power %d is not 0' % k
                continue
            exact = sum(vals)
            sabs = sum(abs(v) for v in vals)
            if len(vals) == 1:
                env = U * abs(exact) + TINY
            else:
                env = (len(vals) + 1) * EPS * sabs + TINY
            if abs(Fraction(c) - exact) > env:
                return 'coefficient of power %d differs from the sum of the source terms beyond rounding' % k
        return None
    if cmd == 'eval':
        xs = [hex2f(h) for h in m['xs']]
        vals = t[1:]
        if len(vals) != len(xs):
            return 'malformed output'
        n = maxp + 1
        mmax = max(len(v) for v in by_pow.values())
        g = (2 * n + 2) * U / (1 - (2 * n + 2) * U)
        cerr = (mmax + 1) * EPS
        for x, h in zip(xs, vals):
            X = Fraction(x)
            exact = sum(v * X ** p for v, p in terms)
            A = sum(abs(v) * abs(X) ** p for v, p in terms)
            if A > Fraction(10) ** 300:
                continue
            if h == 'nan' or not is_hexfloat(h):
                return 'evaluation is not a number at x=%r' % x
            y = hex2f(h)
            if math.isinf(y):
                return 'evaluation is infinite at x=%r' % x
            env = (cerr + g) * (1 + cerr) * A + TINY
            if abs(Fraction(y) - exact) > env:
                return 'value at x=%r differs from the value of the text beyond the rounding envelope' % x
        return None
    return 'unknown command'


def compare(case, impl, model):
    # parsing uses decimal->f64 and +; evaluation uses * + and powi: bit for bit, including the sign of zero
    return impl == model


# ---- extraction cross-check: the same cases evaluated inside Coq by vm_compute
from tools import xenc
COQ_IMPORTS = 'Base.XEnc Base.Str Model.Poly Model.Parse'
XCHECK_N = 200


def coq_term(case):
    t = xenc.Toks(case.line)
    cmd = t.word()
    s = t.cpstr()
    if cmd == 'classes':
        return xenc.CQ_CLASSES % xenc.cq_str(s)
    # crc thinning below XCHECK_N so that every eligible case is taken, whatever its position in the stream
    if not xenc.keep(case, 1 if case.cls in ('fixed', 'overflow') else 4 if case.cls in ('malformed-fixed', 'constant') else 35):
        return None
    if xenc.big_exponent(s):
        return None
    parsed = '(@parse_simple float FNum uclass_tab %s)' % xenc.cq_str(s)
    if cmd == 'parse':
        return 'enc_res %s %s' % (xenc.CQ_ENC_SPOLY, parsed)
    if cmd == 'eval':
        xs = t.fvec()
        return 'enc_res (map float_bits) (res_map (fun p => map (@eval_simple float FNum p) %s) %s)' % (xenc.cq_floats(xs), parsed)
    return None


def encode_result(case, model_line):
    cmd = case.line.split(' ', 1)[0]
    if cmd == 'classes':
        return xenc.enc_classes_line(model_line)
    if cmd == 'parse':
        return xenc.enc_line(model_line, xenc.enc_spoly_toks)
    return xenc.enc_line(model_line, lambda t: [xenc.float_tok_bits(x) for x in t])
