# C10 — matrix inverse (Arr2D::inverse): generator, exact oracle, comparison.
#
# wire:  inv h w e..    -> ok n <B> | err <Kind> | panic | container-mismatch ..
#        inv2 h w e..   -> ok n <B> <inverse of B> | err1 <Kind> | err2 <Kind> | panic
from fractions import Fraction
import itertools
import math
from tools.lib import Case, f2hex, hex2f

ID = 'C10'
EPS = Fraction(1, 2 ** 52)
RULE = ('inv on: ALL 2x2 matrices with entries -3..3 (2401), ALL 3x3 with entries -1..1 (19683), 3x3 with entries -2..2 (quick: sample, '
        'thorough: all 1953125), random n<=8 by class: dense, small integers, diagonally dominant, matrices forcing cyclic / arbitrary row '
        'permutations (shifted identity with noise, shuffled rows of a dominant matrix, scaled permutation matrices: non-symmetric P), '
        'singular (zero row, zero column, repeated row, scaled row, entries -2..2 with det 0 for n up to 8), whole matrices scaled by 2^-60..2^60, threshold_window (smallest pivot of plu at c*eps*max|a|, c in (1/4, 4n), on both sides of and exactly at c = 1 and c = n), 1x1, 0x0; non-square and empty shapes; '
        'inv2 (inverse of the inverse) on the well-conditioned classes.  Integer-valued inputs are run both as Arr2D<f64> and Arr2D<i32> '
        '(the harness reports any difference).  distinct = distinct case line; non-trivial = square with n >= 2')
TRUSTED = ['extraction of the float instance (ExtrOcamlBasic, ExtrOCamlFloats, ExtrOCamlInt63) and ocaml/c10.ml',
           'Rust harness harness/src/bin/c10.rs (also asserts that both element types give the same text)',
           'exact-rational oracle tools/props/c10.py']
ASSUMPTIONS = ['theorems are about the R instance (exact arithmetic); rounding is measured by the oracle, not proved',
               'right residual envelope: |A B^ - I|_ij <= E_ij := 4*n^2*eps*2^(n-1)*max|a|*sum_k|B^_kj|  (backward error of the LU solve, '
               '|L^||U^| bounded through |l|<=1 and the worst-case growth factor of partial pivoting); it dominates n*eps*(|A||B^|)_ij',
               'left residual envelope: |B^ A - I| <= 2*|B^|*E*|A| (from B^A - I = A^-1 (A B^ - I) A), demanded when ||E||_inf <= 1/4',
               'round trip: |inverse(B^) - A| <= 2*(E(A,B^)*|A| + |A|*E(B^,A\')) demanded when cond_inf(A) <= 1e4',
               'must-factor: 1/(n*||A^-1||_inf) >= 2*(n^3*2^n + 2n)*eps*max|a| (scale invariant); must-refuse: a zero row, a zero column, two identical rows, '
               'or a singular integer matrix with entries in -2..2 of ANY size n <= 8 (2x2: -3..3)']
PROFILES = {'quick': ['debug'], 'thorough': ['debug', 'release']}


# ----------------------------------------------------------------- wire
def mat_line(rows, w=None):
    h = len(rows)
    if w is None:
        w = len(rows[0]) if rows else 0
    return ('%d %d %s' % (h, w, ' '.join(f2hex(x) for r in rows for x in r))).strip()


def mk(cmd, rows, cls, w=None):
    return Case('%s %s' % (cmd, mat_line(rows, w)), cls, None)


def parse(case):
    t = case.line.split()
    cmd = t[0]
    h = int(t[1]); w = int(t[2]); p = 3
    rows = []
    for _ in range(h):
        rows.append([hex2f(x) for x in t[p:p + w]]); p += w
    return cmd, h, w, rows


def parse_out(s, nm):
    t = s.split()
    if not t:
        return ('other', s)
    if t[0] == 'ok':
        try:
            n = int(t[1])
            if len(t) != 2 + nm * n * n:
                return ('other', s)
            vals = [hex2f(x) for x in t[2:]]
        except Exception:
            return ('other', s)
        ms = []
        for q in range(nm):
            base = q * n * n
            ms.append([vals[base + i * n: base + (i + 1) * n] for i in range(n)])
        return ('ok', n, ms)
    if t[0] in ('err', 'err1', 'err2') and len(t) == 2:
        return (t[0], t[1])
    if t[0] == 'panic' or t[0] == 'abort':
        return ('panic',)
    return ('other', s)


# ----------------------------------------------------------------- exact arithmetic
def det_int(M):
    n = len(M)
    if n == 0:
        return 1
    a = [r[:] for r in M]
    sign = 1
    prev = 1
    for k in range(n - 1):
        if a[k][k] == 0:
            for i in range(k + 1, n):
                if a[i][k] != 0:
                    a[k], a[i] = a[i], a[k]
                    sign = -sign
                    break
            else:
                return 0
        for i in range(k + 1, n):
            for j in range(k + 1, n):
                a[i][j] = (a[i][j] * a[k][k] - a[i][k] * a[k][j]) // prev
        prev = a[k][k]
    return sign * a[n - 1][n - 1]


def inverse_exact(F):
    """exact inverse of a Fraction matrix or None"""
    n = len(F)
    a = [list(F[i]) + [Fraction(int(i == j)) for j in range(n)] for i in range(n)]
    for c in range(n):
        p = None
        for r in range(c, n):
            if a[r][c] != 0:
                p = r
                break
        if p is None:
            return None
        a[c], a[p] = a[p], a[c]
        inv = 1 / a[c][c]
        a[c] = [x * inv for x in a[c]]
        for r in range(n):
            if r != c and a[r][c] != 0:
                f = a[r][c]
                a[r] = [x - f * y for x, y in zip(a[r], a[c])]
    return [row[n:] for row in a]


def norm_inf(M):
    return max((sum(abs(x) for x in r) for r in M), default=Fraction(0))


def fr(rows):
    return [[Fraction(x) for x in r] for r in rows]


def is_small_int_matrix(rows, bound):
    for r in rows:
        for x in r:
            if x != int(x) or abs(x) > bound:
                return False
    return True


def must_refuse(rows):
    n = len(rows)
    if n == 0:
        return None
    for r in rows:
        if all(x == 0 for x in r):
            return 'zero row'
    for j in range(n):
        if all(rows[i][j] == 0 for i in range(n)):
            return 'zero column'
    seen = set()
    for r in rows:
        key = tuple(x + 0.0 for x in r)
        if key in seen:
            return 'repeated row'
        seen.add(key)
    # after the repair d0c7441 (threshold EPSILON * n * max|a_ij|) this holds for every n
    if is_small_int_matrix(rows, 2) or (n <= 2 and is_small_int_matrix(rows, 3)):
        if det_int([[int(x) for x in r] for r in rows]) == 0:
            return 'singular matrix with entries in -2..2'
    return None


def must_factor_F(F, Finv):
    n = len(F)
    if n == 0:
        return True
    if Finv is None:
        return False
    amax = max(abs(x) for r in F for x in r)
    s = 1 / (n * norm_inf(Finv))
    return s >= 2 * Fraction(n ** 3 * 2 ** n + 2 * n, 2 ** 52) * amax


def mmul(X, Y):
    n = len(X)
    return [[sum(X[i][t] * Y[t][j] for t in range(n)) for j in range(n)] for i in range(n)]


def mabs(X):
    return [[abs(x) for x in r] for r in X]


def e_right(FA, FB):
    """E_ij = 4 n^2 eps 2^(n-1) max|a| * sum_k |B_kj|"""
    n = len(FA)
    if n == 0:
        return []
    amax = max(abs(x) for r in FA for x in r)
    k = 4 * n * n * EPS * 2 ** (n - 1) * amax
    cols = [sum(abs(FB[t][j]) for t in range(n)) for j in range(n)]
    tiny = Fraction(n, 2 ** 1000)
    return [[k * cols[j] + tiny for j in range(n)] for _ in range(n)]


def to_int(M):
    """matrix of finite floats -> (integer matrix, s) with M = ints / 2^s"""
    pr = [[x.as_integer_ratio() for x in r] for r in M]
    s = 0
    for r in pr:
        for _, d in r:
            b = d.bit_length() - 1
            if b > s:
                s = b
    return [[nu << (s - (d.bit_length() - 1)) for nu, d in r] for r in pr], s


def check_inverse(A, B):
    """the two-sided residual clauses for B = computed inverse of A (matrices of finite floats); -> None | clause.
    Same inequalities as e_right / the ASSUMPTIONS, evaluated exactly on scaled integers:
      |A B - I|_ij <= E_j := K * cs_j,   K = 4 n^2 2^(n-1) eps max|a|,  cs_j = sum_k |B_kj|   (+ n*2^-1000)
      |B A - I|_ij <= 2 * rs_i * K * sum_m cs_m |A_mj|,  rs_i = sum_k |B_ik|,   when K * sum_j cs_j <= 1/4"""
    n = len(A)
    if n == 0:
        return None
    Ai, sa = to_int(A)
    Bi, sb = to_int(B)
    S = sa + sb
    one = 1 << S
    amax = max(abs(x) for r in Ai for x in r)
    kk = 4 * n * n * (1 << (n - 1)) * amax              # K * 2^52 * 2^sa
    cs = [sum(abs(Bi[t][j]) for t in range(n)) for j in range(n)]
    e = S + 52 - 1000
    tiny = (n << e) if e >= 0 else 0
    for i in range(n):
        Ar = Ai[i]
        for j in range(n):
            acc = 0
            for t in range(n):
                acc += Ar[t] * Bi[t][j]
            if i == j:
                acc -= one
            if (abs(acc) << 52) > kk * cs[j] + tiny:
                return 'A*B differs from the identity beyond the rounding envelope'
    if 4 * kk * sum(cs) <= (1 << (52 + S)):
        rs = [sum(abs(x) for x in Bi[i]) for i in range(n)]
        colw = [sum(cs[m] * abs(Ai[m][j]) for m in range(n)) for j in range(n)]
        for i in range(n):
            Br = Bi[i]
            for j in range(n):
                acc = 0
                for t in range(n):
                    acc += Br[t] * Ai[t][j]
                if i == j:
                    acc -= one
                if (abs(acc) << (52 + S)) > 2 * rs[i] * kk * colw[j] + (tiny << S):
                    return 'B*A differs from the identity beyond the rounding envelope'
    return None


def finite(M):
    return all(math.isfinite(x) for r in M for x in r)


_memo = {}


def judge(case, impl):
    key = (case.line, impl)
    if key in _memo:
        return _memo[key]
    v = judge1(case, impl)
    _memo[key] = v
    return v


def judge1(case, impl):
    cmd, h, w, rows = parse(case)
    out = parse_out(impl, 2 if cmd == 'inv2' else 1)
    if out[0] == 'panic':
        return 'panic instead of a result'
    if impl.startswith('container-mismatch'):
        return 'element types f64 and i32 give different results'
    if out[0] == 'other':
        return 'malformed output ' + impl[:60]
    if h != w:
        if out[0] in ('err', 'err1') and out[1] == 'NonSquareMatrix':
            return None
        return 'non-square input does not yield the NonSquareMatrix error'
    n = h
    if out[0] in ('err', 'err1'):
        if out[1] != 'SingularMatrix':
            return 'square input rejected with ' + out[1]
        if is_small_int_matrix(rows, 1 << 20) and det_int([[int(x) for x in r] for r in rows]) == 0:
            return None                                   # exactly singular: refusing is right
        FA = fr(rows)
        if must_factor_F(FA, inverse_exact(FA)):
            return 'non-singular well-scaled matrix reported as singular'
        return None
    if out[0] == 'err2':
        FA = fr(rows)
        Ainv = inverse_exact(FA)
        if Ainv is not None and norm_inf(FA) * norm_inf(Ainv) <= 10 ** 4 and must_factor_F(Ainv, FA):
            return 'the inverse of a well-conditioned matrix could not be inverted back (' + out[1] + ')'
        return None
    # ---- ok
    if out[1] != n:
        return 'result has the wrong size'
    B = out[2][0]
    if not finite(B):
        return 'the inverse has a non-finite entry'
    why = must_refuse(rows)
    if why:
        return MUST_REFUSE + why
    v = check_inverse(rows, B)
    if v:
        return v
    if cmd == 'inv2':
        FA = fr(rows)
        FB = fr(B)
        A2 = out[2][1]
        if not finite(A2):
            return 'inverse of the inverse has a non-finite entry'
        FA2 = fr(A2)
        Ainv = inverse_exact(FA)
        if Ainv is not None and norm_inf(FA) * norm_inf(Ainv) <= 10 ** 4:
            E1 = e_right(FA, FB)
            E2 = e_right(FB, FA2)
            absA = mabs(FA)
            T1 = mmul(E1, absA)
            T2 = mmul(absA, E2)
            for i in range(n):
                for j in range(n):
                    if abs(FA2[i][j] - FA[i][j]) > 2 * (T1[i][j] + T2[i][j]):
                        return 'inverse of the inverse does not return to A within the condition-scaled envelope'
    return None


MUST_REFUSE = 'an inverse was returned for a singular matrix: '
SINGULAR_SMALL_INT = 'singular matrix with entries in -2..2'
F21_WITNESS = [[-1.0, -2.0, 1.0, 2.0], [2.0, -1.0, 1.0, -2.0], [-1.0, 1.0, -1.0, -1.0], [-2.0, -1.0, 0.0, 1.0]]


def known(case, impl, clause):
    """F21 (known_findings.d/C10.json): ONLY the must-refuse clause for an exactly singular integer matrix with entries in
    -2..2 of order >= 4 for which a matrix with all entries finite was returned.  A slip at n <= 3, a non-finite
    output or any other clause stays a violation."""
    if clause != MUST_REFUSE + SINGULAR_SMALL_INT:
        return None
    cmd, h, w, rows = parse(case)
    if h != w or h < 4:
        return None
    if not is_small_int_matrix(rows, 2) or det_int([[int(x) for x in r] for r in rows]) != 0:
        return None
    out = parse_out(impl, 2 if cmd == 'inv2' else 1)
    if out[0] != 'ok' or out[1] != h or not all(finite(m) for m in out[2]):
        return None
    return 'F21 exactly singular -2..2 matrix of order %d inverted: rounding residue in the last pivot above n*eps*max|a|' % h


def compare(case, impl, model):
    return impl == model            # bit for bit


def nontrivial(case, impl):
    cmd, h, w, rows = parse(case)
    return h == w and h >= 2


def describe(case):
    cmd, h, w, rows = parse(case)
    return {'op': cmd, 'shape': [h, w], 'rows': [r[:4] for r in rows[:4]]}


# ----------------------------------------------------------------- generator
def rnd_dense(rng, n):
    kind = rng.randrange(3)
    if kind == 0:
        return [[rng.uniform(-1, 1) for _ in range(n)] for _ in range(n)]
    if kind == 1:
        return [[rng.gauss(0, 1) for _ in range(n)] for _ in range(n)]
    s = 10 ** rng.uniform(-2, 2)
    return [[s * rng.uniform(-1, 1) for _ in range(n)] for _ in range(n)]


def rnd_int(rng, n, b):
    return [[float(rng.randint(-b, b)) for _ in range(n)] for _ in range(n)]


def diag_dominant(rng, n, integer=False):
    if integer:
        m = [[float(rng.randint(-2, 2)) for _ in range(n)] for _ in range(n)]
        for i in range(n):
            m[i][i] = float((2 * n + 1 + rng.randint(0, 3)) * rng.choice([-1, 1]))
        return m
    m = [[rng.uniform(-1, 1) for _ in range(n)] for _ in range(n)]
    for i in range(n):
        m[i][i] = (n + 1 + rng.random()) * rng.choice([-1, 1])
    return m


def permuted(rng, n):
    kind = rng.randrange(5)
    if kind == 0:
        base = diag_dominant(rng, n, rng.random() < 0.5)
        s = rng.randrange(1, n) if n > 1 else 0
        return base[s:] + base[:s]
    if kind == 1:
        base = diag_dominant(rng, n, rng.random() < 0.5)
        rng.shuffle(base)
        return base
    if kind == 2:
        sig = list(range(n))
        rng.shuffle(sig)
        return [[(rng.choice([-1, 1]) * 2.0 ** rng.randint(-3, 3) if j == sig[i] else 0.0) for j in range(n)] for i in range(n)]
    if kind == 3:
        s = rng.randrange(1, n) if n > 1 else 0
        return [[(1.0 if j == (i + s) % n else 0.0) for j in range(n)] for i in range(n)]
    s = rng.randrange(1, n) if n > 1 else 0
    return [[(1.0 if j == (i + s) % n else 0.0) + rng.uniform(-0.05, 0.05) for j in range(n)] for i in range(n)]


def singular(rng, n):
    kind = rng.randrange(6)
    m = rnd_dense(rng, n) if rng.random() < 0.5 else rnd_int(rng, n, 4)
    if n == 1:
        return [[rng.choice([0.0, -0.0])]]
    a, b = rng.sample(range(n), 2)
    if kind == 0:
        m[a] = [0.0] * n
    elif kind == 1:
        for i in range(n):
            m[i][a] = 0.0
    elif kind == 2:
        m[a] = list(m[b])
    elif kind == 3:
        m[a] = [2.0 * x for x in m[b]]
    elif kind == 4:
        for i in range(n):
            m[i][a] = m[i][b]
    else:
        m = rnd_int(rng, n, 2)
        sub = rng.randrange(3)
        if sub == 0:
            m[a] = list(m[b])
        elif sub == 1:
            m[a] = [-x for x in m[b]]
        else:
            for i in range(n):
                m[i][a] = 0.0
    return m


def singular_int(rng, n):
    """exactly singular, entries in -2..2: one row is +-(sum or difference of two others)"""
    while True:
        m = rnd_int(rng, n, 2)
        c = rng.randrange(n)
        a, b = rng.sample([i for i in range(n) if i != c], 2)
        sg = rng.choice([1, -1])
        s2 = rng.choice([1, -1])
        row = [sg * (m[a][j] + s2 * m[b][j]) for j in range(n)]
        if all(abs(x) <= 2 for x in row):
            m[c] = row
            return m


def threshold_window(rng, n, c, k, exact):
    """a non-singular matrix whose pivot number k under partial pivoting is c * eps * max|a| (the code's threshold is
    n * eps * max|a|).  A = P^T L U with L unit lower, |l_ij| <= 1/2 (so partial pivoting undoes P and reproduces L, U),
    U with diagonal +-1 / +-2 except u_kk = p.  exact=True: dyadic entries with few bits and a zero column above u_kk, so
    A, every elimination step and the threshold are exact in binary64 and the computed pivot/threshold ratio is exactly
    c/n; exact=False: dense U, A rounded from exact rationals, the computed pivot lands near c*eps*max|a|."""
    half = [Fraction(0), Fraction(1, 2), Fraction(-1, 2), Fraction(1, 4), Fraction(-1, 4)]
    L = [[Fraction(int(i == j)) for j in range(n)] for i in range(n)]
    U = [[Fraction(0)] * n for _ in range(n)]
    for i in range(n):
        for j in range(i):
            L[i][j] = rng.choice(half) if exact else Fraction(rng.randint(-512, 512), 1024)
        U[i][i] = Fraction(rng.choice([1, -1, 2, -2]))
        for j in range(i + 1, n):
            U[i][j] = Fraction(rng.choice([0, 1, -1, 2, -2, 1, -1])) / rng.choice([1, 2]) if exact else Fraction(rng.randint(-2048, 2048), 1024)
    if exact:
        for t in range(k):
            U[t][k] = Fraction(0)
    sig = list(range(n))
    rng.shuffle(sig)
    sh = 2 ** rng.choice([0, 0, 0, -20, 20, 7, -3])

    def build(p):
        U[k][k] = p
        M = [[sum(L[i][t] * U[t][j] for t in range(min(i, j) + 1)) * sh for j in range(n)] for i in range(n)]
        return [M[sig[i]] for i in range(n)]
    scale = max(abs(x) for r in build(Fraction(0)) for x in r)
    p = Fraction(c) * Fraction(1, 2 ** 52) * scale * rng.choice([1, -1]) / sh
    A = build(p)
    rows = [[float(x) for x in r] for r in A]
    if exact:
        assert all(Fraction(rows[i][j]) == A[i][j] for i in range(n) for j in range(n))
    return rows


def threshold_window_cases(rng, count):
    out = []
    for q in range(count):
        n = 2 + q % 9
        exact = q % 3 != 2
        k = n - 1 if q % 2 == 0 else rng.randrange(0, n)
        cs = [Fraction(1, 4), Fraction(1, 2), Fraction(3, 4), 1 - Fraction(1, 2 ** 20), Fraction(1), 1 + Fraction(1, 2 ** 20),
              Fraction(5, 4), Fraction(n, 2), Fraction(n) - Fraction(1, 4), n * (1 - Fraction(1, 2 ** 20)), Fraction(n),
              n * (1 + Fraction(1, 2 ** 20)), Fraction(n) + Fraction(1, 4), Fraction(2 * n), Fraction(4 * n) - Fraction(1, 2),
              Fraction(n + 1, 2), Fraction(3 * n, 4)]
        c = cs[q % len(cs)] if q < 2 * len(cs) else Fraction(rng.randint(1, 16 * n), 4)
        out.append(threshold_window(rng, n, c, k, exact))
    return out


def gen(rng, tier):
    quick = tier == 'quick'
    for e in itertools.product(range(-3, 4), repeat=4):
        yield mk('inv', [[float(e[0]), float(e[1])], [float(e[2]), float(e[3])]], 'ex2x2')
    for e in itertools.product((-1.0, 0.0, 1.0), repeat=9):
        yield mk('inv', [list(e[0:3]), list(e[3:6]), list(e[6:9])], 'ex3x3_1')
    if quick:
        for _ in range(1500):
            yield mk('inv', rnd_int(rng, 3, 2), 's3x3_2')
    else:
        for e in itertools.product((-2.0, -1.0, 0.0, 1.0, 2.0), repeat=9):
            yield mk('inv', [list(e[0:3]), list(e[3:6]), list(e[6:9])], 'ex3x3_2')
    k = 1 if quick else 25
    for m in threshold_window_cases(rng, 44 if quick else 600):
        if len(m) <= 8:
            yield mk('inv', m, 'threshold_window')
    # the fixed witness of the known finding F21 (keeps the KNOWN-FINDING line stable)
    yield mk('inv', F21_WITNESS, 'f21witness')
    yield mk('inv', [], 'empty')
    yield mk('inv2', [], 'empty')
    for v in (0.0, -0.0, 1.0, -3.5, 2.0 ** -52, 2.0 ** -53, 1e-20, 1e6, 2.0 ** 60):
        yield mk('inv', [[v]], '1x1')
        yield mk('inv2', [[v]], '1x1')
    for _ in range(200 * k):
        n = rng.choice([2, 3, 4, 5, 6, 7, 8, rng.randint(1, 8)])
        m = rnd_dense(rng, n)
        yield mk('inv', m, 'dense')
        yield mk('inv2', m, 'dense')
    for _ in range(150 * k):
        n = rng.randint(1, 8)
        m = rnd_int(rng, n, rng.choice([1, 2, 3, 9, 100]))
        yield mk('inv', m, 'int')
        yield mk('inv2', m, 'int')
    for _ in range(150 * k):
        n = rng.randint(2, 8)
        m = diag_dominant(rng, n, rng.random() < 0.5)
        yield mk('inv', m, 'diagdom')
        yield mk('inv2', m, 'diagdom')
    for _ in range(250 * k):
        n = rng.randint(2, 8)
        m = permuted(rng, n)
        yield mk('inv', m, 'permuted')
        yield mk('inv2', m, 'permuted')
    for _ in range(200 * k):
        n = rng.randint(1, 8)
        yield mk('inv', singular(rng, n), 'singular')
    for _ in range(240 * k):
        n = rng.randint(4, 8)
        yield mk('inv', singular_int(rng, n), 'singint')
    for _ in range(120 * k):
        n = rng.randint(1, 8)
        m = diag_dominant(rng, n) if rng.random() < 0.4 else rnd_dense(rng, n)
        sc = 2.0 ** rng.choice([-60, 60, -40, 40, rng.randint(-60, 60)])
        m = [[x * sc for x in r] for r in m]
        yield mk('inv', m, 'scaled')
        yield mk('inv2', m, 'scaled')
    shapes = [(0, 1), (0, 3), (1, 0), (3, 0), (1, 2), (2, 1), (2, 3), (3, 2), (1, 5), (5, 1), (4, 3), (3, 4), (8, 7), (7, 8)]
    for (h, w) in shapes * (1 if quick else 5):
        rows = [[float(rng.randint(-3, 3)) if rng.random() < 0.5 else rng.uniform(-2, 2) for _ in range(w)] for _ in range(h)]
        yield mk('inv', rows, 'nonsquare', w)
        yield mk('inv2', rows, 'nonsquare', w)


# ---- extraction cross-check: the same cases evaluated inside Coq by vm_compute
from tools import xenc
COQ_IMPORTS = 'Base.XEnc Base.Mat Model.LU Model.Inverse'
XCHECK_N = 200
_X_BITS = '(fun n m => map float_bits (concat (@lists_of_mat float n n m)))'


def coq_term(case):
    t = xenc.Toks(case.line)
    cmd = t.word()
    if cmd not in ('inv', 'inv2'):
        return None
    h, w, rows = t.fmat()
    # crc thinning below XCHECK_N (every eligible case is then taken); functional matrices are slow under
    # vm_compute, so the larger sizes are thinned harder
    if not xenc.keep(case, 500 if h <= 3 else 20 if h <= 6 else 60):
        return None
    a = '(@mat_of_lists float FNum %s)' % xenc.cq_fmat(rows)
    H = '%d%%nat' % h
    if cmd == 'inv':
        return 'enc_res (fun b => %d :: %s %s b) (@inverse float FNum %s %d%%nat %s)' % (h, _X_BITS, H, H, w, a)
    # inv2: ok n B B^-1 | err1 K | err2 K | panic  ->  0 :: n :: .. | [11; code] | [12; code] | [2]
    return ('match @inverse float FNum %s %d%%nat %s with '
            '| Ok b => match @inverse float FNum %s %s b with '
            '| Ok a2 => 0 :: %d :: %s %s b ++ %s %s a2 | Err e => [12; err_code e] | Panic _ => [2] end '
            '| Err e => [11; err_code e] | Panic _ => [2] end' % (H, w, a, H, H, h, _X_BITS, H, _X_BITS, H))


def encode_result(case, model_line):
    t = model_line.split()
    if t[0] == 'ok':
        return [0, int(t[1])] + [xenc.float_tok_bits(x) for x in t[2:]]
    if t[0] in ('err1', 'err2', 'err'):
        return [{'err': 1, 'err1': 11, 'err2': 12}[t[0]], xenc.err_code(t[1])]
    if t[0] == 'panic':
        return [2]
    return [-99]
