# C04 — indefinite integrals and the analytical definite integral.  Generator classes, exact-rational
# oracle and comparison are those of tools/props/c03.py (same structures, same wire format, same
# harness); only the shape of the operation chains differs: they start with an integration and the
# final action is mostly analytical_integral(a, b) together with (a, c), (c, b), (b, a).
from tools.props import c03 as base
from tools.props.c03 import judge, compare, nontrivial, describe, TRUSTED, ASSUMPTIONS   # noqa: F401

ID = 'C04'
RULE = ('polynomial structures reachable from the two parsers (classes of C03), each with a source string that the real parser must '
        'turn into exactly that structure x chains of 0-3 operations starting with an integration (indefinite_integral_univariate, '
        'indefinite_integral_multivariate by a present / absent / fresh multi-letter / empty name; never a term of exponent -1 in the '
        'integration variable), then any of the four derive/integrate entry points (derive after integrate in particular) x final action: '
        'analytical_integral over (a,b), (a,c), (c,b), (b,a) with bounds inside the domain, or evaluation at points / bindings; '
        'distinct = distinct case line; non-trivial = at least one term with a variable')
TRUSTED = [t.replace('c03', 'c04') for t in TRUSTED]


def gen(rng, tier):
    return base.gen_cases(rng, tier, 'integ')


# ---- extraction cross-check: the same cases evaluated inside Coq by vm_compute (the hook of c03.py: same driver,
# same wire format; coq/Extract/P04.v defines the same instances as P03.v)
from tools.props.c03 import coq_term, encode_result, COQ_IMPORTS, XCHECK_N   # noqa: F401,E402
