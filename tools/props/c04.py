# C04 — indefinite integrals and the analytical definite integral.  Generator classes, exact-rational
# oracle and comparison are those of tools/props/c03.py (same structures, same wire format, same
# harness); only the shape of the operation chains differs: they start with an integration and the
# final action is mostly analytical_integral(a, b) together with (a, c), (c, b), (b, a).
import math
from fractions import Fraction as Fr
from tools.lib import Case, f2hex, cps
from tools.props import c03 as base
from tools.props.c03 import judge, compare, nontrivial, describe, TRUSTED, ASSUMPTIONS   # noqa: F401

ID = 'C04'
RULE = ('polynomial structures reachable from the two parsers (classes of C03), each with a source string that the real parser must '
        'turn into exactly that structure x chains of 0-3 operations starting with an integration (indefinite_integral_univariate, '
        'indefinite_integral_multivariate by a present / absent / fresh multi-letter / empty name; never a term of exponent -1 in the '
        'integration variable), then any of the four derive/integrate entry points (derive after integrate in particular) x final action: '
        'analytical_integral over (a,b), (a,c), (c,b), (b,a) with bounds inside the domain, or evaluation at points / bindings; '
        'plus the class tiny_interval (both types, no operation before analytical_integral): intervals of width 1e-22..1e-15 '
        '(i) at_zero: [0,w], [-w,0], [-w/2,w/2] for non-negative integral exponents, (ii) near_point: [c, c + k ulps] (k = 1, 2, 5) and '
        '[c, c(1+1e-15)] for 0.5 <= |c| <= 50, (iii) tiny_pos: [w, 2w] for polynomials with negative (or fractional) exponents, each with a '
        'split point inside, just outside or on a bound.  The value is judged against the exact integral within the rounding envelope '
        'of F(b) - F(a), gamma * (sum|F-terms(a)| + sum|F-terms(b)|).  DECISIVE are (i) and (iii) (>= 60 % of the class): there the terms of F '
        'at the bounds are as small as the integral itself (or, for negative exponents, of its size), so the envelope is a relative one and a '
        'returned 0 is rejected; in (ii) the envelope legitimately exceeds the tiny integral (cancellation in F(b) - F(a)) and only '
        'additivity / antisymmetry within the envelope and the absence of errors are checked; '
        'distinct = distinct case line; non-trivial = at least one term with a variable')
TRUSTED = [t.replace('c03', 'c04') for t in TRUSTED]


def _ai_line(kind, struct_txt, src, a, b, c):
    return '%s %s %s 0 ai %s %s %s' % (kind, struct_txt, cps(src), f2hex(a), f2hex(b), f2hex(c))


def _split(rng, a, b):
    """a split point inside, just outside, or on a bound of [a, b]"""
    w = b - a
    k = rng.random()
    if k < 0.4:
        c = a + w * rng.choice([0.5, 0.25, 0.75])
    elif k < 0.75:
        c = rng.choice([b + w * 0.5, a - w * 0.25, b + w * 2])
    else:
        c = rng.choice([a, b])
    return c


def _near_point(rng, sign_ok):
    c0 = rng.uniform(0.5, 50.0) * (rng.choice([1, -1]) if sign_ok else 1)
    k = rng.choice([1, 2, 5, 0])
    if k == 0:
        b = c0 * (1 + 1e-15)
    else:
        b = c0
        for _ in range(k):
            b = math.nextafter(b, math.copysign(math.inf, c0))
    r = rng.random()
    if r < 0.4:
        c = math.nextafter(c0, b)                       # inside (or b itself when k = 1)
    elif r < 0.75:
        c = rng.choice([math.nextafter(b, math.copysign(math.inf, c0)), math.nextafter(c0, 0.0)])   # just outside
    else:
        c = rng.choice([c0, b])
    return c0, b, c


def tiny_interval_cases(rng, tier):
    n = 20 if tier == 'quick' else 200
    # ---- univariate type: (i) at zero 60 %, (ii) near a moderate point 40 %
    made = 0
    while made < n:
        cls, coefs, var, src = base.gen_simple(rng)
        if cls in ('high', 'empty', 'unicode') or len(coefs) > 5 or not any(coefs):
            continue
        if made % 5 < 3:
            w = 10 ** rng.uniform(-22, -15)
            a, b = rng.choice([(0.0, w), (-w, 0.0), (-w / 2, w / 2)])
            c, sub = _split(rng, a, b), 'at_zero'
        else:
            a, b, c = _near_point(rng, True)
            sub = 'near_point'
        if rng.random() < 0.25:
            a, b = b, a
        yield Case(_ai_line('s', base.enc_simple(coefs, var)[2:], src, a, b, c), 'simple/tiny_interval:' + sub, None)
        made += 1
    # ---- multivariate type with at most one variable: (i) 40 %, (iii) tiny positive bounds 25 %, (ii) 35 %
    made = 0
    while made < n:
        want = ('at_zero', 'tiny_pos', 'near_point', 'at_zero', 'near_point', 'at_zero', 'tiny_pos', 'near_point')[made % 8]
        cls, terms, vars_, src = base.gen_inter(rng)
        exps = [Fr(e) for _, vs in terms for _, e in vs]
        if len(vars_) > 1 or not terms or any(e == -1 or abs(e) > 4 for e in exps) or not any(c for c, _ in terms):
            continue
        nonneg_int = all(e.denominator == 1 and e >= 0 for e in exps)
        if want == 'at_zero':
            if not nonneg_int:
                continue
            w = 10 ** rng.uniform(-22, -15)
            a, b = rng.choice([(0.0, w), (-w, 0.0), (-w / 2, w / 2)])
            c = _split(rng, a, b)
        elif want == 'tiny_pos':
            if nonneg_int:
                continue
            w = 10 ** rng.uniform(-22, -15)
            a, b = w, 2 * w
            c = rng.choice([1.5 * w, 1.25 * w, 2.5 * w, 0.75 * w, a, b])
        else:
            a, b, c = _near_point(rng, all(e.denominator == 1 for e in exps))
        if rng.random() < 0.25:
            a, b = b, a
        line = _ai_line('i', base.enc_inter(terms, vars_)[2:], src, a, b, c)
        yield Case(' '.join(line.split()), 'inter/tiny_interval:' + want, None)
        made += 1


def gen(rng, tier):
    yield from tiny_interval_cases(rng, tier)
    yield from base.gen_cases(rng, tier, 'integ')


# ---- extraction cross-check: the same cases evaluated inside Coq by vm_compute (the hook of c03.py: same driver,
# same wire format; coq/Extract/P04.v defines the same instances as P03.v)
from tools.props.c03 import coq_term, encode_result, COQ_IMPORTS, XCHECK_N   # noqa: F401,E402
