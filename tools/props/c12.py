# C12 — Arr2D as a rectangular grid under every operation sequence:
# generator (exhaustive short histories + long random ones), independent plain-grid oracle, comparison.
from tools.lib import Case

ID = 'C12'
EXHAUSTIVE = True
RULE = ('histories = start array (all shapes 0..3 x 0..3, fixed distinct entries) followed by an operation sequence; '
        'exhaustive: every sequence of depth 3 over the middle alphabet of 26 operations with small parameters (thorough: also depth 4 '
        'over the 12-operation core alphabet), every sequence of depth 2 whose first or second operation ranges over the '
        'wide alphabet (all reshape heights, all row pairs, all (r,c) in 0..3 x 0..3, all row lengths, all constructor shapes); '
        'plus random sequences of length 40 on shapes up to 6x6 (80% valid / 20% invalid parameters); after EVERY step the '
        'full observation (shape, size, is_empty, every element through both index forms incl. one row/column beyond the edge, '
        'rows(), into_iter, max, min, == against 4 nested vectors in both directions, Display text) is compared; '
        'distinct = distinct case line; non-trivial = at least one operation succeeded')
TRUSTED = ['extraction of the Z instance (ExtrOcamlBasic) and ocaml/c12.ml',
           'Rust harness harness/src/bin/c12.rs (each operation and each accessor under its own catch_unwind)',
           'plain-grid oracle tools/props/c12.py (independent of the Coq model)']
ASSUMPTIONS = ['i64 entries stay below 100 in absolute value (map / rows_mut use x -> (x*p+q) % 100): overflow is outside the model',
               'dimensions are small: overflow of height*width and allocation failure are outside the model',
               'after a panic the model leaves the state unchanged by definition; that the real array is unchanged is measured',
               'row write is a[r].copy_from_slice(&vs): a length mismatch is the panic of copy_from_slice itself',
               'oracle leniency (reported): swap_rows with an out-of-range row does NOT fail when a == b or width == 0 (no cell is '
               'addressed) - the oracle accepts "no failure, array unchanged" there; from_flat onto a zero-size shape with empty '
               'data is rejected with InvalidShape - the oracle accepts rejection or the empty grid',
               'TryFrom<&Vec<Vec<T>>> (borrowed, op fb) has its own body in the crate with the same row check; the model has one body (OFromNested) for both', 'From<&[[T;N];M]> is exercised for shapes up to 4x4 (const generics); element conversion failures of TryFrom are not exercised']


# ----------------------------------------------------------------- the plain grid (oracle)
# state = (h, w, cells) ; cells = tuple of h tuples of w ints
def trem(a, b):
    r = abs(a) % abs(b)
    return -r if a < 0 else r


def mk(h, w, f):
    return (h, w, tuple(tuple(f(r, c) for c in range(w)) for r in range(h)))


def display(st):
    h, w, cells = st
    if h == 0 or w == 0:
        return '[]\n'
    colw = [max(len(str(cells[r][c])) for r in range(h)) for c in range(w)]
    out = []
    for r in range(h):
        out.append('[[ ' if r == 0 else ' [ ')
        out.append(', '.join(str(cells[r][c]).rjust(colw[c]) for c in range(w)))
        out.append(' ]]' if r + 1 == h else ' ]\n')
    return ''.join(out)


_obs = {}


def obs_text(st):
    t = _obs.get(st)
    if t is not None:
        return t
    h, w, cells = st
    p = ['s %d %d %d %d' % (h, w, h * w, 1 if (h == 0 or w == 0) else 0)]
    table = ' '.join(str(cells[r][c]) if (r < h and c < w) else 'P' for r in range(h + 1) for c in range(w + 1))
    p.append('g1 ' + table)
    p.append('g2 ' + table)
    rows = ''.join(' /' + ''.join(' %d' % v for v in row) for row in cells)
    p.append('rw' + rows)
    p.append('it' + rows)
    flat = [v for row in cells for v in row]
    p.append('mx ' + (str(max(flat)) if flat else 'none'))
    p.append('mn ' + (str(min(flat)) if flat else 'none'))
    # a == its own rows; != a changed cell / an extra row / a longer first row
    nested = [list(r) for r in cells]
    c1 = [list(r) for r in nested]
    if flat:
        c2 = [list(r) for r in nested]
        c2[-1][-1] += 1
    else:
        c2 = nested + [[]]
    c3 = nested + [[]]
    c4 = [list(r) for r in nested]
    if c4:
        c4[0].append(0)
    else:
        c4 = [[0]]
    p.append('eq ' + ' '.join('1' if c == nested else '0' for c in (c1, c2, c3, c4)))
    d = display(st)
    p.append(('d %d ' % len(d)) + ' '.join(str(ord(ch)) for ch in d))
    t = ' '.join(p)
    _obs[st] = t
    return t


def step(st, op):
    """the plain grid under one operation -> list of admissible (output, new state)"""
    h, w, cells = st
    k = op[0]
    if k in ('fn', 'fb'):
        rows = op[1]
        if not rows:
            return [('ok', (0, 0, ()))]
        if any(len(r) != len(rows[0]) for r in rows):
            return [('err InconsistentRowLengths', st)]
        return [('ok', (len(rows), len(rows[0]), tuple(tuple(r) for r in rows)))]
    if k == 'fa':
        _, nh, nw, vals = op
        return [('ok', mk(nh, nw, lambda r, c: vals[r * nw + c]))]
    if k == 'ff':
        _, data, d, nh, nw = op
        if len(data) > nh * nw:
            return [('err InvalidShape', st)]
        new = mk(nh, nw, lambda r, c: data[r * nw + c] if r * nw + c < len(data) else d)
        if nh * nw == 0:
            return [('err InvalidShape', st), ('ok', new)]
        return [('ok', new)]
    if k == 'fu':
        _, v, nh, nw = op
        return [('ok', mk(nh, nw, lambda r, c: v))]
    if k == 'id':
        return [('ok', mk(op[1], op[1], lambda r, c: 1 if r == c else 0))]
    if k == 'rs':
        nh = op[1]
        n = h * w
        if nh == 0 or n % nh != 0:
            return [('err InvalidReshape', st)]
        nw = n // nh
        flat = [v for row in cells for v in row]
        return [('ok', mk(nh, nw, lambda r, c: flat[r * nw + c]))]
    if k in ('tr', 'tm'):
        return [('ok', mk(w, h, lambda r, c: cells[c][r]))]
    if k == 'sw':
        _, a, b = op
        if a < h and b < h:
            rows = list(cells)
            rows[a], rows[b] = rows[b], rows[a]
            return [('ok', (h, w, tuple(rows)))]
        alts = [('panic', st)]
        if a == b or w == 0:
            alts.append(('ok', st))          # no cell is addressed: reported leniency
        return alts
    if k in ('s1', 's2'):
        _, r, c, v = op
        if r < h and c < w:
            return [('ok', mk(h, w, lambda i, j: v if (i, j) == (r, c) else cells[i][j]))]
        return [('panic', st)]
    if k == 'sr':
        _, r, vs = op
        if r < h and len(vs) == w:
            return [('ok', mk(h, w, lambda i, j: vs[j] if i == r else cells[i][j]))]
        return [('panic', st)]
    if k == 'rm':
        _, p, q = op
        return [('ok', mk(h, w, lambda i, j: trem(cells[i][j] * p + q + 3 * i + j, 100)))]
    if k == 'mp':
        _, p, q = op
        return [('ok', mk(h, w, lambda i, j: trem(cells[i][j] * p + q, 100)))]
    if k in ('cl', 'tf'):
        return [('ok', st)]
    raise ValueError(op)


_step = {}


def step_texts(st, op):
    key = (st, op)
    r = _step.get(key)
    if r is None:
        r = [(out + ' ' + obs_text(ns), ns, out) for out, ns in step(st, op)]
        _step[key] = r
    return r


# ----------------------------------------------------------------- wire form
def op_tokens(op):
    k = op[0]
    if k in ('fn', 'fb'):
        return k + ' %d %s' % (len(op[1]), ' '.join(('%d %s' % (len(r), ' '.join(map(str, r)))).strip() for r in op[1]))
    if k == 'ff':
        return ('ff %d %s' % (len(op[1]), ' '.join(map(str, op[1])))).strip() + ' %d %d %d' % (op[2], op[3], op[4])
    if k == 'sr':
        return ('sr %d %d %s' % (op[1], len(op[2]), ' '.join(map(str, op[2])))).strip()
    if k == 'fa':
        return ('fa %d %d %s' % (op[1], op[2], ' '.join(map(str, op[3])))).strip()
    return ' '.join(str(x) for x in op)


def line_of(start, ops):
    h, w, cells = start
    ents = ' '.join(str(v) for row in cells for v in row)
    head = ('%d %d %s' % (h, w, ents)).strip()
    toks = ' '.join(' '.join(op_tokens(o).split()) for o in ops)
    return ('%s %d %s' % (head, len(ops), toks)).strip()


def parse_line(line):
    t = line.split()
    pos = [0]

    def nxt():
        pos[0] += 1
        return t[pos[0] - 1]

    def ivec():
        n = int(nxt())
        return tuple(int(nxt()) for _ in range(n))
    h = int(nxt())
    w = int(nxt())
    ents = [int(nxt()) for _ in range(h * w)]
    start = mk(h, w, lambda r, c: ents[r * w + c])
    k = int(nxt())
    ops = []
    for _ in range(k):
        c = nxt()
        if c in ('fn', 'fb'):
            n = int(nxt())
            ops.append((c, tuple(ivec() for _ in range(n))))
        elif c == 'ff':
            data = ivec()
            ops.append(('ff', data, int(nxt()), int(nxt()), int(nxt())))
        elif c == 'fa':
            nh, nw = int(nxt()), int(nxt())
            ops.append(('fa', nh, nw, tuple(int(nxt()) for _ in range(nh * nw))))
        elif c == 'fu':
            ops.append(('fu', int(nxt()), int(nxt()), int(nxt())))
        elif c in ('id', 'rs'):
            ops.append((c, int(nxt())))
        elif c in ('sw', 'rm', 'mp'):
            ops.append((c, int(nxt()), int(nxt())))
        elif c in ('s1', 's2'):
            ops.append((c, int(nxt()), int(nxt()), int(nxt())))
        elif c == 'sr':
            r = int(nxt())
            ops.append(('sr', r, ivec()))
        else:
            ops.append((c,))
    return start, ops


# ----------------------------------------------------------------- generator
START_VALS = [5, -3, 12, 0, -10, 7, 1, -1, 9]

CORE = [('rs', 1), ('rs', 2), ('tr',), ('tm',), ('sw', 0, 1), ('s1', 0, 1, -42), ('s2', 1, 0, 33),
        ('sr', 0, (8, -8)), ('rm', 1, 1), ('fn', ((1, 2), (3, 4), (5, 6))), ('ff', (1, 2, 3), -6, 2, 2), ('fu', 4, 0, 2)]
MID = CORE + [('rs', 0), ('rs', 3), ('sw', 1, 2), ('sw', 2, 2), ('mp', -1, 2), ('id', 2), ('cl',), ('tf',), ('fa', 2, 2, (-4, 40, 4, -40)),
              ('fn', ((1, 2), (3,))), ('fn', ((1, 2), (3,), (4, 5, 6))), ('fb', ((7, 8), (9, 10, 11), (12,))),
              ('ff', (1, 2, 3, 4, 5), 0, 2, 2), ('sr', 1, (7, 70, -7)), ('s1', 2, 2, 11), ('fu', 5, 3, 0)]


def wide():
    ops = [('tr',), ('tm',), ('cl',), ('tf',), ('rm', 1, 1), ('rm', -2, 4), ('mp', -1, 2), ('mp', 3, -7)]
    ops += [('rs', k) for k in (0, 1, 2, 3, 4, 6, 9)]
    ops += [('sw', a, b) for a in range(4) for b in range(4)]
    ops += [(s, r, c, 21) for s in ('s1', 's2') for r in range(4) for c in range(4)]
    ops += [('sr', r, tuple([6, -15, 0][:n])) for r in range(4) for n in range(4)]
    ops += [('fu', 2, h, w) for h in range(4) for w in range(4)]
    ops += [('id', n) for n in range(4)]
    # ragged nested vectors: every way the rows can disagree, incl. totals that happen to equal rows*len(first)
    ragged = [((1, 2), (3,), (4, 5, 6)), ((1, 2), (3, 4, 5), (6,)), ((1,), (), (2, 3)), ((1, 2), (), (3, 4, 5, 6)),
              ((1, 2, 3), (4,), (5, 6, 7, 8, 9)), ((1, 2), (3, 4, 5)), ((1, 2), (3,)), ((1, 2), (3, 4), (5,)),
              ((1, 2), (3, 4), (5, 6, 7)), ((1, 2), ()), ((), (1,)), ((), (), (1, 2)), ((1,), (2,), ()), ((1,), (2, 3), ())]
    rect = [(), ((),), ((), ()), ((1, 2, 3),), ((1,), (2,), (3,)), ((10, -20), (3, 4))]
    ops += [(k, r) for k in ('fn', 'fb') for r in ragged + rect]
    ops += [('fa', 0, 0, ()), ('fa', 0, 2, ()), ('fa', 3, 0, ()), ('fa', 1, 3, (1, -2, 3)), ('fa', 3, 1, (1, -2, 3)),
            ('fa', 2, 3, (1, 2, 3, 4, 5, 6))]
    ops += [('ff', (), 0, 0, 0), ('ff', (), 1, 0, 3), ('ff', (), 9, 2, 2), ('ff', (1,), 0, 0, 0), ('ff', (1, 2, 3, 4), 0, 2, 2),
            ('ff', (1, 2, 3, 4, 5), 0, 2, 2), ('ff', (1, 2), -1, 3, 1), ('ff', (1, 2), -1, 1, 3), ('ff', (1,), 0, 3, 0)]
    return ops


def starts():
    out = []
    for h in range(4):
        for w in range(4):
            out.append(mk(h, w, lambda r, c: START_VALS[r * w + c]))
    return out


def seqs(alphabets):
    if not alphabets:
        yield ()
        return
    for o in alphabets[0]:
        for rest in seqs(alphabets[1:]):
            yield (o,) + rest


def random_op(rng, st, valid):
    h, w, _ = st
    kind = rng.choice(['rs', 'tr', 'tm', 'sw', 'sw', 's1', 's2', 's1', 's2', 'sr', 'sr', 'rm', 'mp', 'fn', 'fn', 'fb', 'fb', 'fa', 'ff', 'fu', 'id', 'cl', 'tf'])
    v = rng.randint(-99, 99)
    if kind == 'rs':
        n = h * w
        divs = [d for d in range(1, 37) if n % d == 0] if n else [1, 2, 3, 5]
        if valid:
            return ('rs', rng.choice(divs))
        return ('rs', rng.choice([0] + [d for d in range(2, 8) if n == 0 or n % d != 0][:3]))
    if kind == 'sw':
        if valid and h > 0:
            return ('sw', rng.randrange(h), rng.randrange(h))
        return ('sw', rng.randint(0, h + 1), h + rng.randint(0, 1))
    if kind in ('s1', 's2'):
        if valid and h > 0 and w > 0:
            return (kind, rng.randrange(h), rng.randrange(w), v)
        r, c = rng.choice([(h, rng.randint(0, w)), (rng.randint(0, h), w), (h + 1, w + 1)])
        return (kind, r, c, v)
    if kind == 'sr':
        if valid and h > 0:
            return ('sr', rng.randrange(h), tuple(rng.randint(-99, 99) for _ in range(w)))
        if rng.random() < 0.5:
            return ('sr', h + rng.randint(0, 1), tuple(rng.randint(-99, 99) for _ in range(w)))
        return ('sr', rng.randint(0, h), tuple(rng.randint(-99, 99) for _ in range(w + rng.choice([-1, 1]) if w else 1)))
    if kind == 'rm':
        return ('rm', rng.randint(-3, 3), rng.randint(-9, 9))
    if kind == 'mp':
        return ('mp', rng.randint(-3, 3), rng.randint(-9, 9))
    if kind in ('fn', 'fb'):
        nh, nw = rng.randint(0, 6), rng.randint(0, 6)
        rows = [[rng.randint(-99, 99) for _ in range(nw)] for _ in range(nh)]
        if not valid and nh >= 2:
            k = rng.randrange(1, nh)                       # a later row; the first row fixes the width
            how = rng.choice(['move', 'move', 'longer', 'shorter', 'empty', 'empty-first'])
            if how == 'move' and nh >= 3 and nw >= 1:
                # same total as a rectangle: one later row gives elements to another later row
                j = rng.choice([x for x in range(1, nh) if x != k])
                n = rng.randint(1, nw)
                rows[j] = rows[j] + rows[k][:n]
                rows[k] = rows[k][n:]
            elif how == 'shorter' and nw >= 1:
                rows[k] = rows[k][:-1]
            elif how == 'empty' and nw >= 1:
                rows[k] = []
            elif how == 'empty-first' and nw >= 1:
                rows[0] = []
            else:
                rows[k] = rows[k] + [rng.randint(-99, 99)] * rng.randint(1, 2)
        return (kind, tuple(tuple(r) for r in rows))
    if kind == 'fa':
        nh, nw = rng.randint(0, 4), rng.randint(0, 4)
        return ('fa', nh, nw, tuple(rng.randint(-99, 99) for _ in range(nh * nw)))
    if kind == 'ff':
        nh, nw = rng.randint(0, 6), rng.randint(0, 6)
        n = nh * nw
        ln = rng.randint(0, n) if valid else n + rng.randint(1, 3)
        return ('ff', tuple(rng.randint(-99, 99) for _ in range(ln)), v, nh, nw)
    if kind == 'fu':
        return ('fu', v, rng.randint(0, 6), rng.randint(0, 6))
    if kind == 'id':
        return ('id', rng.randint(0, 6))
    return (kind,)


def gen(rng, tier):
    core, mid, big = CORE, MID, wide()
    S = starts()
    if tier == 'quick':
        plans = [('depth3-mid', [mid, mid, mid]), ('depth2-wide-first', [big, mid]), ('depth2-wide-second', [mid, big]),
                 ('depth1-wide', [big])]
        n_random = 300
    else:
        plans = [('depth4-core', [core, core, core, core]), ('depth3-mid', [mid, mid, mid]),
                 ('depth2-wide', [big, big]), ('depth1-wide', [big])]
        n_random = 4000
    for name, alph in plans:
        for st in S:
            for ops in seqs(alph):
                yield Case(line_of(st, ops), name, None)
    for _ in range(n_random):
        h, w = rng.randint(0, 6), rng.randint(0, 6)
        st = mk(h, w, lambda r, c: rng.randint(-99, 99))
        cur = st
        ops = []
        for _ in range(40):
            o = random_op(rng, cur, rng.random() < 0.8)
            ops.append(o)
            cur = step(cur, o)[0][1] if len(step(cur, o)) == 1 else step(cur, o)[0][1]
        yield Case(line_of(st, ops), 'random-40', None)


# ----------------------------------------------------------------- oracle / comparison
def judge(case, impl):
    if impl == 'panic' or impl.startswith('abort'):
        return 'the harness itself aborted: ' + impl[:40]
    start, ops = parse_line(case.line)
    parts = impl.split(' ;; ')
    if len(parts) != len(ops) + 1:
        return 'malformed output (steps)'
    if parts[0] != 'start ' + obs_text(start):
        return 'the freshly built array is not observed as the grid it was built from'
    st = start
    for k, (op, got) in enumerate(zip(ops, parts[1:])):
        alts = step_texts(st, op)
        for txt, ns, out in alts:
            if got == txt:
                st = ns
                break
        else:
            gout = got.split(' s ', 1)[0]
            outs = [a[2] for a in alts]
            if gout not in outs:
                return 'step %d (%s): output "%s" but the grid gives %s' % (k + 1, op[0], gout, ' or '.join(outs))
            return 'step %d (%s): observation differs from the plain grid after the same operations' % (k + 1, op[0])
    return None


def compare(case, impl, model):
    return impl == model


def nontrivial(case, impl):
    return ' ;; ok ' in impl


def describe(case):
    start, ops = parse_line(case.line)
    return {'start_shape': [start[0], start[1]], 'start_rows': [list(r) for r in start[2]],
            'ops': [op_tokens(o) for o in ops][:12], 'n_ops': len(ops)}


# ---- extraction cross-check: the same cases evaluated inside Coq by vm_compute
# The driver ocaml/c12.ml folds c12_step over the operations and prints, for the start state and after every step,
# a fixed battery of c12_observe queries.  The Coq term below performs the same fold and the same battery on
# step_c / observe_c (= what P12.v extracts) and encodes every answer; encode_result re-reads the printed line.
from tools import xenc
COQ_IMPORTS = 'Base.XEnc Model.Arr2D'
XCHECK_N = 150

# er: the driver prints 'P' for Err and for Panic alike -> [9]
_X_PRELUDE = '''(
  let er := fun (A : Type) (f : A -> list Z) (r : res A) => match r with Ok a => 0 :: f a | _ => [9] end in
  let ea := fun (x : answer) => match x with
    | AShape h w => [Z.of_nat h; Z.of_nat w]
    | ANat n => [Z.of_nat n]
    | ABool b => [if b then 1 else 0]
    | AElem r => er _ enc_Z r
    | ARows r => er _ enc_Zmat r
    | AOpt r => er _ (enc_opt enc_Z) r
    | AEq r => er _ enc_bool r
    | AText r => er _ enc_str r end in
  let bl := fix bl (l : list Z) : list Z := match l with [] => [] | [x] => [Z.add x 1] | x :: r => x :: bl r end in
  let blr := fix blr (l : list (list Z)) : list (list Z) := match l with [] => [] | [r] => [bl r] | r :: rs => r :: blr rs end in
  let obs := fun (a : arr Z) =>
    let h := match observe_c a QShape with AShape h _ => h | _ => 0%nat end in
    let w := match observe_c a QShape with AShape _ w => w | _ => 0%nat end in
    let rws := match observe_c a QRows with ARows (Ok rs) => rs | _ => [] end in
    let total := fold_left (fun s r => (s + length r)%nat) rws 0%nat in
    let c2 := if (0 <? total)%nat then blr rws else rws ++ [[]] in
    let c4 := match rws with [] => [[0]] | r :: rs => (r ++ [0]) :: rs end in
    ea (observe_c a QShape) ++ ea (observe_c a QSize) ++ ea (observe_c a QIsEmpty)
    ++ flat_map (fun r => flat_map (fun c => ea (observe_c a (QGet1 r c))) (seq 0 (S w))) (seq 0 (S h))
    ++ flat_map (fun r => flat_map (fun c => ea (observe_c a (QGet2 r c))) (seq 0 (S w))) (seq 0 (S h))
    ++ ea (observe_c a QRows) ++ ea (observe_c a QIntoIter) ++ ea (observe_c a QMax) ++ ea (observe_c a QMin)
    ++ flat_map (fun c => ea (observe_c a (QEqNested c))) [rws; c2; rws ++ [[]]; c4]
    ++ ea (observe_c a QDisplay) in
  let run := fix run (a : arr Z) (ops : list op) : list Z :=
    match ops with
    | [] => []
    | o :: r => let (a', out) := step_c a o in enc_res enc_unit out ++ obs a' ++ run a' r
    end in
  fun (a : arr Z) (ops : list op) => obs a ++ run a ops)'''


def _x_op(o):
    k = o[0]
    nat = xenc.cq_nat
    if k == 'fn':
        return '(OFromNested %s)' % xenc.cq_Zmat(o[1])
    if k == 'fa':
        return '(OFromArray %s %s (fun r c => nth (r * %d + c)%%nat %s 0))' % (nat(o[1]), nat(o[2]), o[2], xenc.cq_Zs(o[3]))
    if k == 'ff':
        return '(OFromFlat %s %s %s %s)' % (xenc.cq_Zs(o[1]), xenc.cq_Z(o[2]), nat(o[3]), nat(o[4]))
    if k == 'fu':
        return '(OFull %s %s %s)' % (xenc.cq_Z(o[1]), nat(o[2]), nat(o[3]))
    if k == 'id':
        return '(OIdentity %s)' % nat(o[1])
    if k == 'rs':
        return '(OReshape %s)' % nat(o[1])
    if k == 'sw':
        return '(OSwapRows %s %s)' % (nat(o[1]), nat(o[2]))
    if k in ('s1', 's2'):
        return '(%s %s %s %s)' % ('OSet1' if k == 's1' else 'OSet2', nat(o[1]), nat(o[2]), xenc.cq_Z(o[3]))
    if k == 'sr':
        return '(OSetRow %s %s)' % (nat(o[1]), xenc.cq_Zs(o[2]))
    if k == 'rm':
        return '(ORowsMutMap (rows_fn %s %s))' % (xenc.cq_Z(o[1]), xenc.cq_Z(o[2]))
    if k == 'mp':
        return '(OMap (map_fn %s %s))' % (xenc.cq_Z(o[1]), xenc.cq_Z(o[2]))
    return {'tr': 'OTranspose', 'tm': 'OTransposeMut', 'cl': 'OClone', 'tf': 'OTryFromRef'}.get(k)


def _x_nats(o):
    k = o[0]
    return {'fa': o[1:3], 'ff': o[3:5], 'fu': o[2:4], 'id': o[1:2], 'rs': o[1:2], 'sw': o[1:3], 's1': o[1:3], 's2': o[1:3],
            'sr': o[1:2]}.get(k, ())


def coq_term(case):
    if not xenc.keep(case, 4000 if case.cls != 'random-40' else 25):
        return None
    (h, w, cells), ops = parse_line(case.line)
    terms = [_x_op(o) for o in ops]
    if any(t is None for t in terms) or any(not (0 <= n <= 5000) for o in ops for n in _x_nats(o)):
        return None
    ents = [v for row in cells for v in row]
    return '%s (mkArr %s %d%%nat %d%%nat) [%s]' % (_X_PRELUDE, xenc.cq_Zs(ents), h, w, '; '.join(terms))


def _x_obs(t):
    """tokens of one observation 's h w n e g1 .. g2 .. rw .. it .. mx . mn . eq . . . . d ..' -> the encoding of obs"""
    def elem(x):
        return [9] if x == 'P' else [0, int(x)]
    assert t[0] == 's' and t[5] == 'g1', t[:8]
    h, w = int(t[1]), int(t[2])
    out = [h, w, int(t[3]), int(t[4])]
    k = 6
    n = (h + 1) * (w + 1)
    for x in t[k:k + n]:
        out += elem(x)
    k += n
    assert t[k] == 'g2'
    k += 1
    for x in t[k:k + n]:
        out += elem(x)
    k += n
    for head, stop in (('rw', 'it'), ('it', 'mx')):
        assert t[k] == head
        k += 1
        j = t.index(stop, k)
        body = t[k:j]
        k = j
        if body == ['P']:
            out += [9]
        else:
            rows = []
            for x in body:
                if x == '/':
                    rows.append([])
                else:
                    rows[-1].append(int(x))
            out += [0, len(rows)]
            for r in rows:
                out += [len(r)] + r
    for head in ('mx', 'mn'):
        assert t[k] == head
        x = t[k + 1]
        out += [9] if x == 'P' else [0, 0] if x == 'none' else [0, 1, int(x)]
        k += 2
    assert t[k] == 'eq'
    for x in t[k + 1:k + 5]:
        out += [9] if x == 'P' else [0, int(x)]
    k += 5
    assert t[k] == 'd'
    if t[k + 1] == 'P':
        out += [9]
        assert len(t) == k + 2
    else:
        n = int(t[k + 1])
        assert len(t) == k + 2 + n
        out += [0, n] + [int(x) for x in t[k + 2:]]
    return out


def encode_result(case, model_line):
    parts = model_line.split(' ;; ')
    t0 = parts[0].split()
    assert t0[0] == 'start'
    out = _x_obs(t0[1:])
    for p in parts[1:]:
        t = p.split()
        if t[0] == 'ok':
            out += [0]; t = t[1:]
        elif t[0] == 'err':
            out += [1, xenc.err_code(t[1])]; t = t[2:]
        else:
            assert t[0] == 'panic'
            out += [2]; t = t[1:]
        out += _x_obs(t)
    return out
