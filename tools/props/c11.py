# C11 — matrix / vector / scalar products: generator, exact oracle, comparison.
from fractions import Fraction
import math
from tools.lib import Case, f2hex, hex2f

ID = 'C11'
EXHAUSTIVE = True
EPS = Fraction(1, 2 ** 52)
TINY = Fraction(1, 2 ** 1070)
RULE = ('EXHAUSTIVE over all shape pairs (h1,w1),(h2,w2) in 0..5 x 0..5 (1296 pairs) x {i64 entries in -9..9 compared '
        'exactly with the Z instance, f64 entries compared bit-for-bit with the float instance} x {dot, &a*&b, a*b, a*&b, &a*b}; '
        'plus every shape 0..5 x 0..5 x {&a*k, a*k, &a/k, a/k, transpose} x several scalars (incl. 0, -1, int division by zero) '
        'and a float stream with inf/nan/-0.0 entries (correspondence only); distinct = distinct case line; '
        'non-trivial = both operands non-empty')
TRUSTED = ['extraction of the Z and float instances (ExtrOcamlBasic, ExtrOCamlFloats, ExtrOCamlInt63) and ocaml/c11.ml',
           'Rust harness harness/src/bin/c11.rs (operands are built with Arr2D::full + a[(r,c)] = v)',
           'oracle tools/props/c11.py (Python ints / Fractions)']
ASSUMPTIONS = ['theorems are about exact arithmetic (any commutative ring; instances Z and R); float rounding is measured '
               'against the envelope n*eps*sum|terms|, not proved',
               'i64 entries are kept small: wrap-around / overflow panics of i64 are outside the model',
               'the four operator forms differ only in ownership; the model has one body for all four',
               'i64 division by zero panics in Rust; the Z instance models it as Panic (array non-empty), the float instance divides']

MULS = ['dot', 'mul_rr', 'mul_oo', 'mul_or', 'mul_ro']


def zent(rng):
    return rng.randint(-9, 9)


def fent(rng):
    k = rng.random()
    if k < 0.15:
        return float(rng.randint(-4, 4))
    if k < 0.25:
        return rng.choice([0.1, -0.3, 1e-3, 2.5e7, -7.75e-5, 1e150, -3e-160])
    return rng.uniform(-100.0, 100.0)


def fspecial(rng):
    return rng.choice([0.0, -0.0, float('inf'), float('-inf'), float('nan'), 1.0, -2.0, 5e-324, 1.7e308])


def mat_tokens(ty, h, w, ents):
    if ty == 'z':
        body = ' '.join(str(v) for v in ents)
    else:
        body = ' '.join(f2hex(v) for v in ents)
    return ('%d %d %s' % (h, w, body)).strip()


def shape_class(h1, w1, h2, w2):
    one1 = (h1, w1) == (1, 1)
    one2 = (h2, w2) == (1, 1)
    if w1 == h2:
        if 0 in (h1, w1, h2, w2):
            return 'conforming-empty'
        if one1 or one2:
            return 'conforming-1x1'
        if h1 == 1 and w2 == 1:
            return 'conforming-inner'
        if w1 == 1:
            return 'conforming-outer'
        return 'conforming'
    if one1:
        return 'scalar-left'
    if one2:
        return 'scalar-right'
    return 'shape-error'


def gen(rng, tier):
    reps = 1 if tier == 'quick' else 6
    shapes = [(h, w) for h in range(6) for w in range(6)]
    for _ in range(reps):
        for (h1, w1) in shapes:
            for (h2, w2) in shapes:
                cls = shape_class(h1, w1, h2, w2)
                for ty in ('z', 'f'):
                    ent = zent if ty == 'z' else fent
                    a = [ent(rng) for _ in range(h1 * w1)]
                    b = [ent(rng) for _ in range(h2 * w2)]
                    for cmd in MULS:
                        yield Case('%s %s %s %s' % (ty, cmd, mat_tokens(ty, h1, w1, a), mat_tokens(ty, h2, w2, b)),
                                   ty + ':' + cls, None)
        for (h, w) in shapes:
            for ty in ('z', 'f'):
                ent = zent if ty == 'z' else fent
                a = [ent(rng) for _ in range(h * w)]
                yield Case('%s tr %s' % (ty, mat_tokens(ty, h, w, a)), ty + ':transpose', None)
                ks = [0, 1, -1, 2, -3, 7] if ty == 'z' else [0.0, 1.0, -1.0, 0.1, 3.0, -7.5e-3, 1e200]
                for k in ks:
                    kt = str(k) if ty == 'z' else f2hex(k)
                    for cmd in ('smul', 'smul_o', 'sdiv', 'sdiv_o'):
                        yield Case('%s %s %s %s' % (ty, cmd, mat_tokens(ty, h, w, a), kt), ty + ':scalar-' + cmd[:4], None)
    # special float values: correspondence only (the oracle does not judge non-finite data)
    n_special = 300 if tier == 'quick' else 3000
    for _ in range(n_special):
        h1, w1 = rng.randint(0, 3), rng.randint(0, 3)
        if rng.random() < 0.7:
            h2 = w1
        else:
            h2 = rng.randint(0, 3)
        w2 = rng.randint(0, 3)
        a = [fspecial(rng) if rng.random() < 0.5 else fent(rng) for _ in range(h1 * w1)]
        b = [fspecial(rng) if rng.random() < 0.5 else fent(rng) for _ in range(h2 * w2)]
        cmd = rng.choice(MULS)
        yield Case('f %s %s %s' % (cmd, mat_tokens('f', h1, w1, a), mat_tokens('f', h2, w2, b)), 'f:special-values', None)
        k = fspecial(rng)
        yield Case('f %s %s %s' % (rng.choice(['smul', 'sdiv']), mat_tokens('f', h1, w1, a), f2hex(k)), 'f:special-scalar', None)


# ----------------------------------------------------------------- parsing
def rd_mat(ty, t, k):
    h, w = int(t[k]), int(t[k + 1])
    n = h * w
    raw = t[k + 2:k + 2 + n]
    if ty == 'z':
        ents = [int(x) for x in raw]
    else:
        ents = [hex2f(x) for x in raw]
    return (h, w, ents), k + 2 + n


def parse(case):
    t = case.line.split()
    ty, cmd = t[0], t[1]
    a, k = rd_mat(ty, t, 2)
    if cmd == 'tr':
        return ty, cmd, a, None, None
    if cmd in ('smul', 'smul_o', 'sdiv', 'sdiv_o'):
        kk = int(t[k]) if ty == 'z' else hex2f(t[k])
        return ty, cmd, a, None, kk
    b, k = rd_mat(ty, t, k)
    return ty, cmd, a, b, None


def parse_out(ty, s):
    """-> ('ok', h, w, size, ents) | ('err', kind) | ('panic',) | ('bad', text)"""
    t = s.split()
    if not t:
        return ('bad', s)
    if t[0] == 'panic' or t[0] == 'abort':
        return ('panic',)
    if t[0] == 'err' and len(t) == 2:
        return ('err', t[1])
    if t[0] == 'ok' and len(t) >= 4:
        try:
            h, w, n = int(t[1]), int(t[2]), int(t[3])
            raw = t[4:]
            if ty == 'z':
                ents = [int(x) for x in raw]
            else:
                ents = [hex2f(x) for x in raw]
            return ('ok', h, w, n, ents)
        except ValueError:
            return ('bad', s)
    return ('bad', s)


def describe(case):
    ty, cmd, a, b, k = parse(case)
    d = {'elements': 'i64' if ty == 'z' else 'f64', 'op': cmd, 'lhs_shape': [a[0], a[1]], 'lhs': a[2][:6]}
    if b is not None:
        d['rhs_shape'] = [b[0], b[1]]
        d['rhs'] = b[2][:6]
    if k is not None:
        d['scalar'] = k
    return d


def nontrivial(case, impl):
    ty, cmd, a, b, k = parse(case)
    if b is None:
        return a[0] * a[1] > 0
    return a[0] * a[1] > 0 and b[0] * b[1] > 0


def finite(xs):
    return all(not (math.isinf(x) or math.isnan(x)) for x in xs)


# ----------------------------------------------------------------- oracle
def check_entries(ty, got, want_terms, what):
    """want_terms: per entry the list of exact terms whose sum is the value (ints or Fractions)"""
    if len(got) != len(want_terms):
        return '%s: wrong number of entries' % what
    for g, terms in zip(got, want_terms):
        if ty == 'z':
            if g != sum(terms):
                return '%s: entry differs from the algebraic value' % what
        else:
            exact = sum(terms, Fraction(0))
            if sum((abs(x) for x in terms), Fraction(0)) >= Fraction(2) ** 1023:
                continue            # overflow regime of f64: outside the rounding-bound oracle
            if math.isnan(g) or math.isinf(g):
                return '%s: non-finite entry from finite data' % what
            env = (len(terms) + 1) * EPS * sum((abs(x) for x in terms), Fraction(0)) + TINY
            if abs(Fraction(g) - exact) > env:
                return '%s: entry differs from the algebraic value beyond n*eps*sum|terms|' % what
    return None


def judge(case, impl):
    ty, cmd, a, b, k = parse(case)
    out = parse_out(ty, impl)
    if out[0] == 'bad':
        return 'malformed output ' + impl[:60]
    h1, w1, A = a
    conv = (lambda x: x) if ty == 'z' else Fraction
    if ty == 'f' and not (finite(A) and (b is None or finite(b[2])) and (k is None or ty == 'z' or finite([k]))):
        # non-finite data: only "never panics" is demanded
        return 'panic on float data' if out[0] == 'panic' else None
    if ty == 'f':
        # products may overflow for the huge magnitudes; keep the oracle to the finite regime
        big = [abs(x) for x in A + (b[2] if b else []) + ([k] if k is not None else [])]
        if big and max(big) > 1e100 and cmd not in ('tr',):
            return 'panic on float data' if out[0] == 'panic' else None
    if cmd == 'tr':
        if out[0] != 'ok':
            return 'transpose failed'
        _, h, w, n, ents = out
        if (h, w) != (w1, h1) or n != h1 * w1:
            return 'transpose has the wrong shape'
        want = [[conv(A[r * w1 + c])] for c in range(w1) for r in range(h1)]
        return check_entries(ty, ents, want, 'transpose') if ty == 'z' else \
            (None if [f2hex(x) for x in ents] == [f2hex(A[r * w1 + c]) for c in range(w1) for r in range(h1)] else 'transpose moved a wrong value')
    if cmd in ('smul', 'smul_o', 'sdiv', 'sdiv_o'):
        div = cmd.startswith('sdiv')
        if div and k == 0:
            if ty == 'z':
                # integer division by zero: no elementwise value exists; a panic is Rust's documented behaviour
                if out[0] == 'panic':
                    return None
                if out[0] == 'ok' and h1 * w1 == 0 and (out[1], out[2], out[3]) == (h1, w1, 0):
                    return None
                return 'integer division by zero produced a value'
            return 'panic on float data' if out[0] == 'panic' else None
        if out[0] != 'ok':
            return 'scalar operation failed (%s)' % out[0]
        _, h, w, n, ents = out
        if (h, w) != (h1, w1) or n != h1 * w1:
            return 'scalar operation changed the shape'
        if ty == 'z':
            if div:
                want = [[int(Fraction(x, k).__trunc__())] for x in A]     # i64 `/` truncates
            else:
                want = [[x * k] for x in A]
        else:
            if div:
                want = [[Fraction(x) / Fraction(k)] for x in A]
            else:
                want = [[Fraction(x) * Fraction(k)] for x in A]
        return check_entries(ty, ents, want, 'scalar operation')
    # ---- products
    h2, w2, B = b
    if out[0] == 'panic':
        return 'product panicked'
    one1 = (h1, w1) == (1, 1)
    one2 = (h2, w2) == (1, 1)
    operator = cmd != 'dot'

    def scaled(s, M, h, w, what):
        if out[0] != 'ok':
            return '%s: not Ok' % what
        _, hh, ww, n, ents = out
        if (hh, ww) != (h, w) or n != h * w:
            return '%s: wrong shape' % what
        return check_entries(ty, ents, [[conv(s) * conv(x)] for x in M], what)

    def shape_err():
        if operator:
            if out[0] == 'ok' and (out[1], out[2], out[3]) == (0, 0, 0):
                return None
            return 'operator form: a rejected pair must give the empty 0x0 array'
        if out == ('err', 'InvalidDotShape'):
            return None
        return 'non-conforming pair without 1x1 operand is not Err InvalidDotShape'

    if w1 == h2:
        if out[0] != 'ok':
            return 'conforming product: not Ok'
        _, h, w, n, ents = out
        if (h, w) != (h1, w2) or n != h1 * w2:
            return 'conforming product: shape is not (h1, w2)'
        want = [[conv(A[i * w1 + kk]) * conv(B[kk * w2 + j]) for kk in range(w1)] for i in range(h1) for j in range(w2)]
        return check_entries(ty, ents, want, 'conforming product')
    if one1:
        return scaled(A[0], B, h2, w2, 'non-conforming 1x1 left operand acts as a scalar')
    if one2:
        # on the right it may act as a scalar or be rejected
        r = shape_err()
        if r is None:
            return None
        return scaled(B[0], A, h1, w1, 'non-conforming 1x1 right operand (scalar or rejected)')
    return shape_err()


def compare(case, impl, model):
    return impl == model


# ---- extraction cross-check: the same cases evaluated inside Coq by vm_compute
from tools import xenc
COQ_IMPORTS = 'Base.XEnc Model.Arr2D'
XCHECK_N = 150
_X_BIN = {'dot': 'dot', 'mul_rr': 'mul_ref_ref', 'mul_oo': 'mul_own_own', 'mul_or': 'mul_own_ref', 'mul_ro': 'mul_ref_own'}


def _x_arr(ty, m):
    h, w, ents = m
    return '(mkArr %s %d%%nat %d%%nat)' % (xenc.cq_Zs(ents) if ty == 'z' else xenc.cq_floats(ents), h, w)


def coq_term(case):
    # crc thinning (not the stride of extraction_crosscheck: the generator is periodic in type x command)
    if not xenc.keep(case, 120):
        return None
    ty, cmd, a, b, k = parse(case)
    inst = '_ ZNum' if ty == 'z' else '_ FNum'
    # Ok arr -> 0 :: height :: width :: len(inner) :: entries   (what the driver prints after 'ok')
    enc = ('enc_res (fun c => Z.of_nat (height c) :: Z.of_nat (width c) :: %s (inner c))'
           % ('enc_Zs' if ty == 'z' else 'enc_floats'))
    A = _x_arr(ty, a)
    if cmd == 'tr':
        return '%s (@transpose _ %s)' % (enc, A)
    if cmd in ('smul', 'smul_o'):
        return '%s (@smul %s %s %s)' % (enc, inst, A, xenc.cq_Z(k) if ty == 'z' else xenc.coq_float(k) + '%float')
    if cmd in ('sdiv', 'sdiv_o'):
        return '%s (@sdiv %s %s %s %s)' % (enc, inst, 'true' if ty == 'z' else 'false', A,
                                           xenc.cq_Z(k) if ty == 'z' else xenc.coq_float(k) + '%float')
    if cmd in _X_BIN:
        return '%s (@%s %s %s %s)' % (enc, _X_BIN[cmd], inst, A, _x_arr(ty, b))
    return None


def encode_result(case, model_line):
    ty = case.line.split()[0]
    conv = int if ty == 'z' else xenc.float_tok_bits
    return xenc.enc_line(model_line, lambda t: [int(t[0]), int(t[1]), int(t[2])] + [conv(x) for x in t[3:]])
